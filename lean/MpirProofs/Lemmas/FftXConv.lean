/- The convolution chain of mpn_mul_trunc_sqrt2 (Mpir/Model/FftX.lean): Cauchy products, the acyclic convolution
   as the coefficient vector whose transform is the pointwise product, canonical residues, the pointwise product
   through mpn_mulmod_2expp1_basecase, and the bridge to ZMod (2^wn + 1). -/
import MpirProofs.Lemmas.FftXSqrt2
import MpirProofs.Props.C01_fftring
import Mathlib.Data.ZMod.Basic
import Mathlib.Algebra.BigOperators.Ring.Finset
import Mathlib.Algebra.Order.BigOperators.Group.Finset
set_option linter.unusedSimpArgs false
namespace Mpir.FftX
open Mpir Finset

/-! ### Cauchy product of two finitely supported sequences, truncated at N ≥ j1 + j2 − 1 -/

theorem cauchy_range {R : Type} [CommSemiring R] (a b : Nat → R) (y : R) (N j1 j2 : Nat)
    (ha : ∀ i, j1 ≤ i → a i = 0) (hb : ∀ k, j2 ≤ k → b k = 0) (hN : j1 + j2 ≤ N + 1) :
    ∑ j ∈ range N, (∑ i ∈ range (j + 1), a i * b (j - i)) * y ^ j =
      (∑ i ∈ range N, a i * y ^ i) * (∑ k ∈ range N, b k * y ^ k) := by
  have e1 : ∀ j ∈ range N, (∑ i ∈ range (j + 1), a i * b (j - i)) * y ^ j =
      ∑ i ∈ range (j + 1), (a i * y ^ i) * (b (j - i) * y ^ (j - i)) := by
    intro j _
    rw [sum_mul]
    apply sum_congr rfl; intro i hi
    have : i ≤ j := by have := mem_range.mp hi; omega
    have e : y ^ j = y ^ i * y ^ (j - i) := by rw [← pow_add]; congr 1; omega
    rw [e]; ring
  rw [sum_congr rfl e1, sum_range_diag_flip N (fun i k => (a i * y ^ i) * (b k * y ^ k)), sum_mul]
  apply sum_congr rfl; intro i hi
  rw [mul_sum]
  by_cases h : i < j1
  · apply sum_subset (range_subset_range.mpr (Nat.sub_le N i))
    intro k _ hk
    have : N - i ≤ k := by simpa using hk
    rw [hb k (by omega)]; ring
  · rw [ha i (by omega)]; simp

/-- the acyclic convolution, N entries -/
noncomputable def conv (a b : List Int) (N : Nat) : List Int :=
  (List.range N).map fun j => ∑ i ∈ range (j + 1), el a i * el b (j - i)

theorem el_conv (a b : List Int) (N j : Nat) (hj : j < N) :
    el (conv a b N) j = ∑ i ∈ range (j + 1), el a i * el b (j - i) := el_range_map _ _ _ hj

theorem conv_zero (a b : List Int) (N j1 j2 j : Nat) (ha : ∀ i, j1 ≤ i → el a i = 0) (hb : ∀ k, j2 ≤ k → el b k = 0)
    (hj : j1 + j2 ≤ j + 1) : el (conv a b N) j = 0 := by
  by_cases h : j < N
  · rw [el_conv _ _ _ _ h]
    apply sum_eq_zero; intro i hi
    by_cases h1 : j1 ≤ i
    · rw [ha i h1]; ring
    · have := mem_range.mp hi
      rw [hb (j - i) (by omega)]; ring
  · exact el_range_map_ge _ _ _ (by omega)

/-- every entry is bounded by (number of overlapping terms)·M² -/
theorem conv_bound (a b : List Int) (N j1 j2 j : Nat) (M : Int) (hM : 0 ≤ M)
    (ha : ∀ i, j1 ≤ i → el a i = 0) (hb : ∀ k, j2 ≤ k → el b k = 0)
    (ha1 : ∀ i, 0 ≤ el a i ∧ el a i ≤ M) (hb1 : ∀ k, 0 ≤ el b k ∧ el b k ≤ M) (hj : j < N) :
    0 ≤ el (conv a b N) j ∧ el (conv a b N) j ≤ (j1 : Int) * (M * M) ∧ el (conv a b N) j ≤ (j2 : Int) * (M * M) := by
  rw [el_conv _ _ _ _ hj]
  have hterm : ∀ i k, 0 ≤ el a i * el b k ∧ el a i * el b k ≤ M * M := fun i k =>
    ⟨mul_nonneg (ha1 i).1 (hb1 k).1, mul_le_mul (ha1 i).2 (hb1 k).2 (hb1 k).1 hM⟩
  refine ⟨sum_nonneg fun i _ => (hterm _ _).1, ?_, ?_⟩
  · -- only i < j1 contribute
    calc ∑ i ∈ range (j + 1), el a i * el b (j - i)
        = ∑ i ∈ range (j + 1), if i < j1 then el a i * el b (j - i) else 0 := by
          apply sum_congr rfl; intro i _
          split_ifs with h
          · rfl
          · rw [ha i (by omega)]; ring
      _ = ∑ i ∈ (range (j + 1)).filter (· < j1), el a i * el b (j - i) := by rw [sum_filter]
      _ ≤ ∑ i ∈ (range (j + 1)).filter (· < j1), M * M := sum_le_sum fun i _ => (hterm _ _).2
      _ = ((range (j + 1)).filter (· < j1)).card * (M * M) := by rw [sum_const, nsmul_eq_mul]
      _ ≤ (j1 : Int) * (M * M) := by
          apply mul_le_mul_of_nonneg_right _ (mul_nonneg hM hM)
          have : ((range (j + 1)).filter (· < j1)).card ≤ (range j1).card := by
            apply card_le_card; intro i hi
            simp only [mem_filter, mem_range] at hi ⊢; exact hi.2
          rw [card_range] at this; exact_mod_cast this
  · -- only j − i < j2 contribute
    calc ∑ i ∈ range (j + 1), el a i * el b (j - i)
        = ∑ i ∈ range (j + 1), if j - i < j2 then el a i * el b (j - i) else 0 := by
          apply sum_congr rfl; intro i _
          split_ifs with h
          · rfl
          · rw [hb (j - i) (by omega)]; ring
      _ = ∑ i ∈ (range (j + 1)).filter (fun i => j - i < j2), el a i * el b (j - i) := by rw [sum_filter]
      _ ≤ ∑ i ∈ (range (j + 1)).filter (fun i => j - i < j2), M * M := sum_le_sum fun i _ => (hterm _ _).2
      _ = ((range (j + 1)).filter (fun i => j - i < j2)).card * (M * M) := by rw [sum_const, nsmul_eq_mul]
      _ ≤ (j2 : Int) * (M * M) := by
          apply mul_le_mul_of_nonneg_right _ (mul_nonneg hM hM)
          have : ((range (j + 1)).filter (fun i => j - i < j2)).card ≤ (range j2).card := by
            apply card_le_card_of_injOn (fun i => j - i)
            · intro i hi
              simp only [coe_filter, mem_range, Set.mem_ofPred_eq] at hi
              simp only [coe_range, Set.mem_Iio]; exact hi.2
            · intro i hi i' hi' h
              simp only [coe_filter, mem_range, Set.mem_ofPred_eq] at hi hi'
              simp only at h; omega
          rw [card_range] at this; exact_mod_cast this

/-! ### the bridge to ZMod (2^wn + 1) -/

theorem zmod_two_pow (nw : Nat) : (Int.castRingHom (ZMod (2 ^ nw + 1))) 2 ^ nw = -1 := by
  have h : ((2 ^ nw + 1 : Nat) : ZMod (2 ^ nw + 1)) = 0 := ZMod.natCast_self _
  push_cast at h
  simp only [eq_intCast, Int.cast_ofNat]
  exact eq_neg_of_add_eq_zero_left h

theorem zmod_eq_iff (nw : Nat) (a b : Int) :
    (Int.castRingHom (ZMod (2 ^ nw + 1))) a = (Int.castRingHom (ZMod (2 ^ nw + 1))) b ↔ a ≡ b [ZMOD pOf nw] := by
  simp only [eq_intCast]
  rw [ZMod.intCast_eq_intCast_iff]
  unfold pOf; push_cast; rfl

theorem pOf_pos (nw : Nat) : 0 < pOf nw := by unfold pOf; positivity

/-- two residues in [0, p) that are congruent are equal -/
theorem eq_of_modEq_range (nw : Nat) (a b : Int) (h : a ≡ b [ZMOD pOf nw]) (ha : 0 ≤ a) (ha' : a < pOf nw)
    (hb : 0 ≤ b) (hb' : b < pOf nw) : a = b := by
  have := h; unfold Int.ModEq at this
  rwa [Int.emod_eq_of_lt ha ha', Int.emod_eq_of_lt hb hb'] at this

/-! ### canonical residues (what mpn_normmod_2expp1 leaves) -/

theorem pOf_eq (L : Nat) : pOf (64 * L) = (B : Int) ^ L + 1 := by
  unfold pOf; rw [Fft.B_pow_two]

theorem canon_spec (L : Nat) (v : Int) :
    ∃ lo t, canon L v = lo ++ [t] ∧ lo.length = L ∧ Limbs lo ∧ (t = 0 ∨ t = 1) ∧ val lo < 2 ^ (64 * L) ∧
      Fft.flaggedb t (64 * L) lo = v % pOf (64 * L) ∧ (t = 0 → (val lo : Int) = v % pOf (64 * L)) := by
  have hP := pOf_pos (64 * L)
  have h0 : 0 ≤ v % pOf (64 * L) := Int.emod_nonneg _ (ne_of_gt hP)
  have h1 : v % pOf (64 * L) < pOf (64 * L) := Int.emod_lt_of_pos _ hP
  have hr : ((v % pOf (64 * L)).toNat : Int) = v % pOf (64 * L) := Int.toNat_of_nonneg h0
  have hBL : B ^ L = 2 ^ (64 * L) := Fft.B_pow_two' L
  unfold canon
  simp only []
  split_ifs with h
  · refine ⟨List.replicate L 0, 1, rfl, by simp, Fft.Limbs_replicate_zero L, Or.inr rfl, ?_, ?_, by intro h; cases h⟩
    · rw [Fft.val_replicate_zero]; positivity
    · unfold Fft.flaggedb; rw [if_pos rfl, ← hr, h]; push_cast; rfl
  · have hlt : (v % pOf (64 * L)).toNat < 2 ^ (64 * L) := by
      have : ((v % pOf (64 * L)).toNat : Int) < 2 ^ (64 * L) + 1 := by rw [hr]; exact h1
      have : (v % pOf (64 * L)).toNat < 2 ^ (64 * L) + 1 := by exact_mod_cast this
      omega
    obtain ⟨e1, e2, e3⟩ := Fft.toLimbs_spec L (v % pOf (64 * L)).toNat
    have ev : val (toLimbs L (v % pOf (64 * L)).toNat) = (v % pOf (64 * L)).toNat := by
      rw [e1, hBL, Nat.mod_eq_of_lt hlt]
    refine ⟨toLimbs L (v % pOf (64 * L)).toNat, 0, rfl, e2, e3, Or.inl rfl, by rw [ev]; exact hlt, ?_, ?_⟩
    · unfold Fft.flaggedb; rw [if_neg (by norm_num), ev, hr]
    · intro _; rw [ev, hr]

/-- the pointwise product of mul_trunc_sqrt2.c:96-103 is the product modulo p, fully reduced -/
theorem pointwise_spec (L : Nat) (hL : 1 ≤ L) (a b : Int) :
    pointwise L (64 * L) a b ≡ a * b [ZMOD pOf (64 * L)] := by
  obtain ⟨lx, tx, ex, lxl, lxL, htx, lxv, fx, _⟩ := canon_spec L a
  obtain ⟨ly, ty, ey, lyl, lyL, hty, lyv, fy, _⟩ := canon_spec L b
  unfold pointwise
  simp only [ex, ey, Fft.top_snoc, Fft.lo_snoc]
  have hlen : (64 * L + 63) / 64 = L := by omega
  obtain ⟨_, _, _, _, h5⟩ := Fft.mulmod_2expp1_basecase_val lx ly (2 * tx + ty) (64 * L) (by omega) lxL lyL
    (by rw [hlen]; exact lxl) (by rw [hlen]; exact lyl) lxv lyv
  have c1 : (2 * tx + ty) / 2 % 2 = tx := by rcases htx with rfl | rfl <;> rcases hty with rfl | rfl <;> rfl
  have c2 : (2 * tx + ty) % 2 = ty := by rcases htx with rfl | rfl <;> rcases hty with rfl | rfl <;> rfl
  rw [c1, c2, fx, fy] at h5
  have h6 : (a % pOf (64 * L)) * (b % pOf (64 * L)) ≡ a * b [ZMOD pOf (64 * L)] :=
    Int.ModEq.mul (Int.mod_modEq _ _) (Int.mod_modEq _ _)
  exact Int.ModEq.trans h5 h6

end Mpir.FftX
