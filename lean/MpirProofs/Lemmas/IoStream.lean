/- Helper lemmas for Mpir/Model/IoStream.lean (C17, stream layer): what `mpf_set_str` reads in the text
   `mpf_out_str` wrote; object-level import/export; raw headers beyond 31 bits. -/
import MpirProofs.Lemmas.Io
import MpirProofs.Lemmas.MpfStrRound
import Mpir.Model.IoStream
namespace Mpir.Io
open Mpir Mpir.MpfStr

/-! ### digit characters and the digit-value table -/

theorem dv_dec : ∀ d < 10, Radix.digitValue 0 (48 + d) = d ∧ Radix.digitValue 224 (48 + d) = d := by
  decide +kernel

theorem dv_upper0 : ∀ d < 36, Radix.digitValue 0 (if d < 10 then 48 + d else 65 + (d - 10)) = d := by decide +kernel
theorem dv_lower0 : ∀ d < 36, Radix.digitValue 0 (if d < 10 then 48 + d else 97 + (d - 10)) = d := by decide +kernel
theorem dv_big : ∀ d < 62,
    Radix.digitValue 224 (if d < 10 then 48 + d else if d < 36 then 65 + (d - 10) else 97 + (d - 36)) = d := by
  decide +kernel

abbrev LegalBase (base : Int) : Prop := (2 ≤ base ∧ base ≤ 62) ∨ (-36 ≤ base ∧ base ≤ -2)

/-- the character `mpf_get_str` writes for digit `d` is read back as `d` by `mpf_set_str` in base |base| -/
theorem dv_digitChar (base : Int) (hb : LegalBase base) (d : Nat) (hd : d < base.natAbs) :
    Radix.digitValue (if 36 < base.natAbs then 224 else 0) (Radix.digitChar base d) = d := by
  unfold Radix.digitChar
  rcases hb with ⟨h1, h2⟩ | ⟨h1, h2⟩
  · have hn : ¬ base < 0 := by omega
    by_cases h36 : base ≤ 36
    · have : ¬ 36 < base.natAbs := by omega
      simp only [hn, if_false, h36, if_true, this]
      exact dv_lower0 d (by omega)
    · have : 36 < base.natAbs := by omega
      simp only [hn, if_false, h36, this, if_true]
      exact dv_big d (by omega)
  · have hn : base < 0 := by omega
    have : ¬ 36 < base.natAbs := by omega
    simp only [hn, if_true, this, if_false]
    exact dv_upper0 d (by omega)

/-- digit characters are alphanumeric -/
theorem digitChar_range (base : Int) (d : Nat) (hd : d < 62) :
    (48 ≤ Radix.digitChar base d ∧ Radix.digitChar base d ≤ 57) ∨
    (65 ≤ Radix.digitChar base d) := by
  unfold Radix.digitChar
  split_ifs <;> omega

theorem alnum_props {c : Nat} (h : (48 ≤ c ∧ c ≤ 57) ∨ 65 ≤ c) :
    isspace c = false ∧ Radix.isSpace c = false ∧ c ≠ 46 ∧ c ≠ 45 ∧ c ≠ 0 ∧ c ≠ 64 ∧ (c != 0) = true := by
  have h1 : c ≠ 32 := by omega
  have h2 : ¬ (9 ≤ c ∧ c ≤ 13) := by omega
  refine ⟨?_, ?_, by omega, by omega, by omega, by omega, by simp; omega⟩
  · unfold isspace; simp [h1]; omega
  · unfold Radix.isSpace; simp [h1]; omega

/-! ### the pieces of `MpfStr.parse` on `[-]0.<digits><marker><decimal exponent>` -/

theorem splitLast_none (b : Nat) : ∀ l : List Nat, (∀ c ∈ l, isMarker b c = false) → splitLast b l = none
  | [], _ => rfl
  | c :: cs, h => by
    have ih := splitLast_none b cs (fun x hx => h x (by simp [hx]))
    simp [splitLast, ih, h c (by simp)]

theorem splitLast_last (b m : Nat) (hm : isMarker b m = true) (post : List Nat)
    (hpost : ∀ c ∈ post, isMarker b c = false) :
    ∀ pre : List Nat, splitLast b (pre ++ m :: post) = some (pre, post)
  | [] => by simp [splitLast, splitLast_none b post hpost, hm]
  | c :: cs => by simp [splitLast, splitLast_last b m hm post hpost cs]

theorem scanMant_digits (dv : Nat → Nat) (b : Nat) (f : Nat → Nat)
    (hf : ∀ d, d < b → dv (f d) = d ∧ Radix.isSpace (f d) = false ∧ f d ≠ 46) :
    ∀ ds : List Nat, (∀ d ∈ ds, d < b) → scanMant dv b (ds.map f) = some (ds, none)
  | [], _ => rfl
  | d :: ds, h => by
    have ih := scanMant_digits dv b f hf ds (fun x hx => h x (by simp [hx]))
    obtain ⟨h1, h2, h3⟩ := hf d (h d (by simp))
    have hd := h d (by simp)
    simp [scanMant, ih, h1, h2, h3, hd]

/-- the decimal digits of a natural number as `decText` writes them -/
theorem decText_form (n : Nat) : ∃ L : List Nat, decText n = L.map (48 + ·) ∧ L ≠ [] ∧ (∀ d ∈ L, d < 10) ∧
    digitsVal 10 L = n := by
  unfold decText
  by_cases hn : n = 0
  · subst hn; exact ⟨[0], by simp, by simp, by simp, rfl⟩
  · obtain ⟨v1, v2, v3, _⟩ := natDigits_spec 10 (by decide) n
    simp only [hn, if_false]
    exact ⟨natDigits 10 n, rfl, (v3 hn).1, v2, v1⟩

theorem takeWhile_all {α : Type} (p : α → Bool) : ∀ l : List α, (∀ x ∈ l, p x = true) → l.takeWhile p = l
  | [], _ => rfl
  | x :: xs, h => by
    simp [List.takeWhile, h x (by simp), takeWhile_all p xs (fun y hy => h y (by simp [hy]))]

theorem ofDigits_eq_digitsVal (b : Nat) (l : List Nat) : Radix.ofDigits b l = digitsVal b l := rfl

/-- `scanExp` on a decimal digit string -/
theorem scanExp_digits (dv : Nat → Nat) (hdv : ∀ d, d < 10 → dv (48 + d) = d) (L : List Nat) (hL : L ≠ [])
    (hlt : ∀ d ∈ L, d < 10) :
    (((L.map (48 + ·)).takeWhile (fun c => decide (dv c < 10))).map dv) = L := by
  rw [takeWhile_all]
  · rw [List.map_map]
    conv_rhs => rw [← List.map_id L]
    apply List.map_congr_left
    intro d hd; simp [hdv d (hlt d hd)]
  · intro x hx
    rw [List.mem_map] at hx
    obtain ⟨d, hd, rfl⟩ := hx
    simp [hdv d (hlt d hd), hlt d hd]

theorem scanExp_intText (dv : Nat → Nat) (hdv : ∀ d, d < 10 → dv (48 + d) = d) (e : Int) :
    scanExp dv 10 (intText e) = some e := by
  obtain ⟨L, hL, hne, hlt, hval⟩ := decText_form e.natAbs
  have hd := scanExp_digits dv hdv L hne hlt
  obtain ⟨d0, L', rfl⟩ : ∃ d0 L', L = d0 :: L' := by
    cases L with
    | nil => exact absurd rfl hne
    | cons a t => exact ⟨a, t, rfl⟩
  have hd0 : d0 < 10 := hlt d0 (by simp)
  unfold scanExp intText
  by_cases hneg : e < 0
  · simp only [hneg, if_true, hL]
    simp only [hd, List.isEmpty_cons, Bool.false_eq_true, if_false, if_true, ofDigits_eq_digitsVal, hval]
    congr 1; omega
  · simp only [hneg, if_false, hL, List.map_cons]
    split
    · rename_i r heq; simp at heq; omega
    · rename_i r heq; simp at heq; omega
    · simp only
      rw [← List.map_cons (f := (48 + ·)), hd]
      simp only [List.isEmpty_cons, Bool.false_eq_true, if_false, ofDigits_eq_digitsVal, hval]
      congr 1; omega

/-- the token `mpf_out_str` writes for sign `neg`, digit values `ds` and exponent `e` -/
def mpfTok (base : Int) (neg : Bool) (ds : List Nat) (e : Int) : List Nat :=
  (if neg then [45] else []) ++
    48 :: 46 :: (ds.map (Radix.digitChar base) ++ (if base.natAbs ≤ 10 then 101 else 64) :: intText e)

theorem intText_chars (e : Int) : ∀ c ∈ intText e, c = 45 ∨ (48 ≤ c ∧ c ≤ 57) := by
  obtain ⟨L, hL, _, hlt, _⟩ := decText_form e.natAbs
  intro c hc
  unfold intText at hc
  have hdec : ∀ c ∈ decText e.natAbs, 48 ≤ c ∧ c ≤ 57 := by
    intro c hc; rw [hL, List.mem_map] at hc
    obtain ⟨d, hd, rfl⟩ := hc
    have := hlt d hd; omega
  split at hc
  · rcases List.mem_cons.mp hc with h | h
    · exact Or.inl h
    · exact Or.inr (hdec c h)
  · exact Or.inr (hdec c hc)

theorem mpfTok_chars (base : Int) (hb : LegalBase base) (neg : Bool) (ds : List Nat)
    (hds : ∀ d ∈ ds, d < base.natAbs) (e : Int) :
    ∀ c ∈ mpfTok base neg ds e, c ≠ 0 ∧ isspace c = false := by
  have hb62 : base.natAbs ≤ 62 := by rcases hb with h | h <;> omega
  intro c hc
  unfold mpfTok at hc
  have h45 : (45 : Nat) ≠ 0 ∧ isspace 45 = false := by decide
  have hdig : ∀ c, (48 ≤ c ∧ c ≤ 57) → c ≠ 0 ∧ isspace c = false := by
    intro c h; obtain ⟨a, _, _, _, b, _, _⟩ := alnum_props (Or.inl h); exact ⟨b, a⟩
  simp only [List.mem_append, List.mem_cons, List.mem_map] at hc
  rcases hc with h | h | h | h | h
  · split at h
    · have : c = 45 := by simpa using h
      subst this; exact h45
    · simp at h
  · subst h; decide
  · subst h; decide
  · obtain ⟨d, hd, rfl⟩ := h
    obtain ⟨a, _, _, _, b, _, _⟩ := alnum_props (digitChar_range base d (by have := hds d hd; omega))
    exact ⟨b, a⟩
  · rcases h with h | h
    · subst h; split <;> decide
    · rcases intText_chars e c h with h1 | h1
      · subst h1; exact h45
      · exact hdig c h1

/-- `mpf_set_str` reads the token written for (`neg`, `ds`, `e`) in a base with the same digits and a decimal
    exponent as exactly that: digits `0 :: ds` (the "0." prefix), all of `ds` after the point, exponent `e`
    (the exponent of a zero mantissa is not looked at, set_str.c:334-340) -/
theorem parse_mpfTok (base : Int) (hb : LegalBase base) (rbase : Int)
    (hrb : baseOf rbase = base.natAbs) (hre : expBaseOf rbase = 10)
    (neg : Bool) (ds : List Nat) (hds : ∀ d ∈ ds, d < base.natAbs) (e : Int) :
    parse rbase (mpfTok base neg ds e) =
      some ⟨neg, base.natAbs, 0 :: ds, ds.length, if Radix.ofDigits base.natAbs (0 :: ds) = 0 then 0 else e⟩ := by
  have hb2 : 2 ≤ base.natAbs := by rcases hb with h | h <;> omega
  have hb62 : base.natAbs ≤ 62 := by rcases hb with h | h <;> omega
  set b := base.natAbs with hbdef
  have hchars := mpfTok_chars base hb neg ds hds e
  -- no NUL, no leading white space
  have htw : (mpfTok base neg ds e).takeWhile (· != 0) = mpfTok base neg ds e := by
    apply takeWhile_all
    intro x hx; have := (hchars x hx).1; simp [this]
  have hhead : ∀ t : List Nat, (∀ c, t.head? = some c → Radix.isSpace c = false) → t.dropWhile Radix.isSpace = t := by
    intro t ht
    cases t with
    | nil => rfl
    | cons c r => simp [List.dropWhile, ht c rfl]
  set dvf : Nat → Nat := Radix.digitValue (if 36 < b then 224 else 0) with hdvf
  have hdv10 : ∀ d, d < 10 → dvf (48 + d) = d := by
    intro d hd; rw [hdvf]; split
    · exact (dv_dec d hd).2
    · exact (dv_dec d hd).1
  have hdv48 : dvf 48 = 0 := hdv10 0 (by decide)
  have hfd : ∀ d, d < b → dvf (Radix.digitChar base d) = d ∧ Radix.isSpace (Radix.digitChar base d) = false ∧
      Radix.digitChar base d ≠ 46 := by
    intro d hd
    obtain ⟨_, a2, a3, _⟩ := alnum_props (digitChar_range base d (by omega))
    exact ⟨dv_digitChar base hb d hd, a2, a3⟩
  set mk : Nat := if b ≤ 10 then 101 else 64 with hmk
  have hmark : isMarker b mk = true := by
    rw [hmk]; unfold isMarker; split <;> simp_all
  have hpost : ∀ c ∈ intText e, isMarker b c = false := by
    intro c hc
    unfold isMarker
    rcases intText_chars e c hc with h | h
    · subst h; simp
    · have h1 : c ≠ 64 := by omega
      have h2 : c ≠ 101 := by omega
      have h3 : c ≠ 69 := by omega
      simp [h1, h2, h3]
  have hsp := splitLast_last b mk hmark (intText e) hpost (46 :: ds.map (Radix.digitChar base))
  have hsm : scanMant dvf b (48 :: 46 :: ds.map (Radix.digitChar base)) = some (0 :: ds, some ds.length) := by
    have h0 := scanMant_digits dvf b (Radix.digitChar base) hfd ds hds
    have hs48 : Radix.isSpace 48 = false := by decide
    have hs46 : Radix.isSpace 46 = false := by decide
    have hb0 : 0 < b := by omega
    simp [scanMant, h0, hs48, hs46, hdv48, hb0]
  have hbody : parseBody neg b 10 (48 :: 46 :: (ds.map (Radix.digitChar base) ++ mk :: intText e)) =
      some ⟨neg, b, 0 :: ds, ds.length, if Radix.ofDigits b (0 :: ds) = 0 then 0 else e⟩ := by
    unfold parseBody
    have hc0 : dvf 48 < b := by rw [hdv48]; omega
    simp only [← hdvf, hc0, true_or, not_true_eq_false, if_false]
    have hsp' : splitLast b (46 :: (ds.map (Radix.digitChar base) ++ mk :: intText e)) =
        some (46 :: ds.map (Radix.digitChar base), intText e) := by
      simpa using hsp
    simp only [hsp', hsm, Option.getD_some]
    by_cases hz : Radix.ofDigits b (0 :: ds) = 0
    · simp [hz]
    · simp only [hz, if_false, scanExp_intText dvf hdv10 e]
  unfold parse
  rw [htw, hrb, hre]
  have hnot : ¬ (b < 2 ∨ 62 < b) := by omega
  simp only [hnot, if_false]
  unfold mpfTok
  cases neg with
  | true =>
    have h1 : (if true = true then [45] else ([] : List Nat)) ++
        48 :: 46 :: (ds.map (Radix.digitChar base) ++ mk :: intText e)
        = 45 :: 48 :: 46 :: (ds.map (Radix.digitChar base) ++ mk :: intText e) := by simp
    rw [h1, hhead _ (by intro c hc; simp at hc; subst hc; decide)]
    simp only [List.head?_cons, beq_self_eq_true, if_true, List.tail_cons]
    exact hbody
  | false =>
    have h1 : (if false = true then [45] else ([] : List Nat)) ++
        48 :: 46 :: (ds.map (Radix.digitChar base) ++ mk :: intText e)
        = 48 :: 46 :: (ds.map (Radix.digitChar base) ++ mk :: intText e) := by simp
    rw [h1, hhead _ (by intro c hc; simp at hc; subst hc; decide)]
    have h48 : (some (48 : Nat) == some 45) = false := by decide
    simp only [List.head?_cons, h48, Bool.false_eq_true, if_false]
    exact hbody

/-- a zero mantissa converts to zero whatever the exponent field -/
theorem convert_zero_mant (prec : Nat) (p : Parsed) (h : p.mant = 0) (e : Int) :
    convert prec { p with exp := e } = convert prec p := by
  unfold convert
  have : ({ p with exp := e } : Parsed).mant = 0 := h
  simp [this, h]

/-! ### the digits `mpf_get_str` delivers are digits of the base -/

theorem get_digits_lt (b nd : Nat) (hb : 2 ≤ b) (u : Mpf.F) : ∀ d ∈ (get_digits b nd u).1, d < b := by
  unfold get_digits
  simp only
  split
  · intro d hd; simp at hd
  · generalize hds : Radix.digitsOf b _ = ds
    generalize hx : ((ds.length : Int) - _) = x
    have hlt : ∀ d ∈ ds, d < b := by rw [← hds]; exact Radix.digitsOf_lt hb _
    intro d hd
    unfold finish at hd
    simp only at hd
    have hmem := (strip_spec b (by omega) _ x).2.2.2.1 d hd
    have htake : ∀ d ∈ ds.take (effDigits b u.prec nd), d < b := fun d hd => hlt d (List.mem_of_mem_take hd)
    split at hmem
    · exact (roundUp_spec b hb _ x htake).2.1 d hmem
    · exact htake d hmem

/-! ### `mpf_out_str` on an object writes the token of the digits `mpf_get_str` delivered -/

theorem mpfText_eq_tok (base : Int) (hb : LegalBase base) (neg : Bool) (ds : List Nat)
    (hds : ∀ d ∈ ds, d < base.natAbs) (e : Int) :
    mpfText base ((if neg then [45] else []) ++ ds.map (Radix.digitChar base)) e = mpfTok base neg ds e := by
  have hb0 : base ≠ 0 := by rcases hb with h | h <;> omega
  have hb62 : base.natAbs ≤ 62 := by rcases hb with h | h <;> omega
  unfold mpfText mpfTok
  simp only [hb0, if_false]
  cases neg with
  | true => simp
  | false =>
    have hh : ¬ ((ds.map (Radix.digitChar base)).head? = some 45) := by
      cases ds with
      | nil => simp
      | cons d t =>
        obtain ⟨_, _, _, h45, _⟩ := alnum_props (digitChar_range base d (by have := hds d (by simp); omega))
        simpa using h45
    simp only [Bool.false_eq_true, if_false, List.nil_append, hh]
    simp

theorem mpf_out_str_obj_text (base : Int) (hb : LegalBase base) (nd : Nat) (u : Mpf.F) :
    (mpf_out_str_obj {} base nd u).2.out =
      mpfTok base (decide (u.size < 0))
        (get_digits base.natAbs (if nd = 0 then maxDigits base.natAbs u.prec else nd) u).1
        (get_digits base.natAbs (if nd = 0 then maxDigits base.natAbs u.prec else nd) u).2 ∧
    (mpf_out_str_obj {} base nd u).1 = ((mpf_out_str_obj {} base nd u).2.out.length : Int) := by
  have hb0 : base ≠ 0 := by rcases hb with h | h <;> omega
  have hb2 : 2 ≤ base.natAbs := by rcases hb with h | h <;> omega
  unfold mpf_out_str_obj
  simp only [hb0, if_false]
  obtain ⟨e1, e2⟩ := mpf_out_str_text base
    (get_str base (if nd = 0 then maxDigits base.natAbs u.prec else nd) u).1
    (get_str base (if nd = 0 then maxDigits base.natAbs u.prec else nd) u).2
  rw [e1, e2]
  refine ⟨?_, rfl⟩
  unfold get_str
  simp only
  have := mpfText_eq_tok base hb (decide (u.size < 0)) _
    (get_digits_lt base.natAbs (if nd = 0 then maxDigits base.natAbs u.prec else nd) hb2 u)
    (get_digits base.natAbs (if nd = 0 then maxDigits base.natAbs u.prec else nd) u).2
  simpa using this

/-! ### import / export on objects -/

theorem Limbs_replicate_zero (k : Nat) : Limbs (List.replicate k 0) := by
  intro x hx; rw [List.mem_replicate] at hx; rw [hx.2]; exact B_pos

/-- the object-level `mpz_import` stores exactly the limbs of `mpz_import` (the dispatch of import.c:60-90 followed by
    MPN_NORMALIZE on every path) and leaves a well-formed, non-negative object -/
theorem mpz_import_obj_spec (z : Mpz) (hz : z.WF) (count : Nat) (order : Int) (size : Nat) (endian : Int)
    (nail align : Nat) (data : List Nat) (junk : Nat → Nat) (hj : ∀ i, junk i < B)
    (ho : order = 1 ∨ order = -1) (he : endian = -1 ∨ endian = 0 ∨ endian = 1)
    (hs : 1 ≤ size) (hn : nail < 8 * size) (hb : Bytes data) (hl : data.length = count * size) :
    (mpz_import_obj z count order size endian nail align data junk).limbs
      = mpz_import count order size endian nail align data ∧
    (mpz_import_obj z count order size endian nail align data junk).size
      = ((mpz_import count order size endian nail align data).length : Int) ∧
    (mpz_import_obj z count order size endian nail align data junk).WF := by
  obtain ⟨i1, i2, i3⟩ := mpz_import_spec count order size endian nail align data ho he hs hn hb hl
  obtain ⟨r1, r2, r3⟩ := realloc_spec hz ((count * (8 * size - nail) + 63) / 64) hj
  unfold mpz_import mpz_import_core at i1 i2 i3 ⊢
  unfold mpz_import_obj
  simp only at i1 i2 i3 ⊢
  generalize mpz_import_fill false count order size endian nail align data = filled at i1 i2 i3 ⊢
  generalize hzs : (count * (8 * size - nail) + 63) / 64 = zsize at *
  generalize hz1 : mpz_realloc z zsize junk = z1 at *
  set zp := filled.take zsize with hzp
  have hzl : zp.length ≤ zsize := by rw [hzp, List.length_take]; omega
  have hns := normSize_le zp
  have hpre := normalize_prefix zp
  obtain ⟨k, hk, htop⟩ := normalize_spec zp
  have hLzp : Limbs zp := by
    rw [hk]; exact Limbs_append.mpr ⟨i2, Limbs_replicate_zero k⟩
  have hlimbs : ((zp ++ z1.d.drop zp.length).take (normSize zp)) = normalize zp := by
    rw [List.take_append_of_le_length hns]; exact hpre
  refine ⟨?_, ?_, ?_⟩
  · unfold Mpz.limbs Mpz.abssize
    simp only [Int.natAbs_natCast]
    exact hlimbs
  · simp only [normSize]
  · refine ⟨?_, ?_, ?_, ?_⟩
    · simp only [List.length_append, List.length_drop]; omega
    · unfold Mpz.abssize; simp only [Int.natAbs_natCast]; omega
    · exact Limbs_append.mpr ⟨hLzp, Limbs_drop r3 _⟩
    · intro hne
      unfold Mpz.abssize; simp only [Int.natAbs_natCast] at hne ⊢
      have hn0 : normSize zp ≠ 0 := by exact_mod_cast hne
      have h1 : (zp ++ z1.d.drop zp.length).getD (normSize zp - 1) 0 = (normalize zp).getLastD 0 := by
        rw [← hlimbs, List.getLastD_eq_getLast?, List.getLast?_eq_getElem?, List.getD_eq_getElem?_getD]
        simp only [List.length_take, List.length_append, List.length_drop]
        have : min (normSize zp) (zp.length + (z1.d.length - zp.length)) = normSize zp := by omega
        rw [this, List.getElem?_take_of_lt (by omega)]
      rw [h1]
      apply htop
      intro he; unfold normSize at hn0; rw [he] at hn0; exact hn0 rfl

/-! ### text round trip with base 0 (output in decimal, input with prefix detection) -/

/-- with base 0, a number whose first character (after an optional '-') is not '0' is read in base 10 -/
theorem nowhite_base0 (x : Int) (r : List Nat) (c : Option Nat) (nread : Nat)
    (h : (if c = some 45 then (getc r).1 else c) ≠ some 48) :
    mpz_inp_str_nowhite x r 0 c nread = mpz_inp_str_nowhite x r 10 c nread := by
  unfold mpz_inp_str_nowhite
  have d0 : decide ((0 : Int) > 36) = false := by decide
  have d10 : decide ((10 : Int) > 36) = false := by decide
  have e0 : ¬ ((0 : Int) > 62) := by decide
  have e10 : ¬ ((10 : Int) > 62) := by decide
  have z10 : ¬ ((10 : Int) = 0) := by decide
  simp only [d0, d10, e0, e10, if_false, if_true, z10]
  by_cases hc : c = some 45
  · simp only [hc, if_true] at h ⊢
    cases hg : (getc r).1 with
    | none => simp
    | some ch =>
      rw [hg] at h
      have hne : ch ≠ 48 := by intro h'; exact h (by rw [h'])
      simp [hne]
  · simp only [hc, if_false] at h ⊢
    cases c with
    | none => simp
    | some ch =>
      have hne : ch ≠ 48 := by intro h'; exact h (by rw [h'])
      simp [hne]

theorem mpzText_base0 (x : Int) : mpzText 0 x = mpzText 10 x := by
  unfold mpzText outBase magText numToText
  simp

/-- what may follow a number read with base 0: not a decimal digit, and not one of the prefix letters that
    would turn a lone "0" into "0x" / "0b" -/
def Base0Rest (rest : List Nat) : Prop :=
  ∀ c, rest.head? = some c → digitValue false c ≥ 10 ∧ c ≠ 120 ∧ c ≠ 88 ∧ c ≠ 98 ∧ c ≠ 66

theorem mpz_text_nowhite0 (x dest : Int) (rest : List Nat) (hrest : Base0Rest rest) (nread : Nat) :
    ∃ c0 t, mpzText 0 x = c0 :: t ∧ isspace c0 = false ∧
      mpz_inp_str_nowhite dest (t ++ rest) 0 (some c0) nread = (nread + (mpzText 0 x).length - 1, x, rest) := by
  have hb : ((2 : Int) ≤ 10 ∧ (10 : Int) ≤ 62) ∨ ((-36 : Int) ≤ 10 ∧ (10 : Int) ≤ -2) := Or.inl ⟨by decide, by decide⟩
  have hrest10 : ∀ c, rest.head? = some c → digitValue (decide ((((10 : Int).natAbs : Nat) : Int) > 36)) c ≥ (10 : Int).natAbs := by
    intro c hc; exact (hrest c hc).1
  have hf : ∀ e, e < 10 →
      digitValue (decide (((10 : Nat) : Int) > 36)) (numToText 10 e) = e ∧ numToText 10 e ≠ 45 ∧
      (numToText 10 e = 48 ↔ e = 0) := by
    intro e he; obtain ⟨a, _, c, d⟩ := digit_char 10 hb e he; exact ⟨a, c, d⟩
  rw [mpzText_base0]
  have hob : outBase 10 = some 10 := by decide
  unfold mpzText
  rw [hob]
  simp only
  by_cases hx0 : x = 0
  · subst hx0
    refine ⟨48, [], by simp, by decide, ?_⟩
    simp only [if_true, List.nil_append, List.length_singleton]
    unfold mpz_inp_str_nowhite
    have d0 : decide ((0 : Int) > 36) = false := by decide
    have e0 : ¬ ((0 : Int) > 62) := by decide
    have hc45 : ¬ (some 48 = some 45) := by decide
    have hdig : ¬ ((digitValue false 48 : Int) ≥ 10) := by decide
    simp only [d0, e0, if_false, hc45, if_true, hdig]
    cases rest with
    | nil => simp [getc, skipZeros, readDigits, ungetc]
    | cons c r =>
      obtain ⟨hc, h1, h2, h3, h4⟩ := hrest c rfl
      have hc48 : c ≠ 48 := by intro h; rw [h] at hc; revert hc; decide
      have hc8 : digitValue false c ≥ 8 := by omega
      simp only [getc, Option.some.injEq, h1, h2, h3, h4, or_self, if_false, skipZeros_ne _ hc48,
        readDigits_stop _ _ c r [] hc8]
      simp [ungetc]
  · simp only [hx0, if_false]
    obtain ⟨v1, v2, v3, _⟩ := natDigits_spec 10 (by decide) x.natAbs
    obtain ⟨n1, n2⟩ := v3 (by omega)
    unfold magText
    cases hds : natDigits 10 x.natAbs with
    | nil => exact absurd hds n1
    | cons d0 ds =>
      rw [hds] at v1 v2 n2
      have hd0 : d0 < 10 := v2 d0 (by simp)
      have hd0z : d0 ≠ 0 := by simpa using n2
      have hds' : ∀ e ∈ ds, e < 10 := fun e he => v2 e (by simp [he])
      obtain ⟨_, hsp0, h45, h48⟩ := digit_char 10 hb d0 hd0
      have hne48 : numToText 10 d0 ≠ 48 := fun h => hd0z (h48.mp h)
      by_cases hneg : x < 0
      · refine ⟨45, numToText 10 d0 :: ds.map (numToText 10), by simp [hneg], by decide, ?_⟩
        simp only [hneg, if_true, List.map_cons, List.cons_append, List.nil_append, List.length_cons, List.length_map]
        rw [nowhite_base0 _ _ _ _ (by simp [getc, hne48])]
        have := nowhite_neg_digits dest 10 (by decide) (by decide) (numToText 10) hf d0 ds rest hd0 hd0z hds' hrest10 nread
        rw [show ((10 : Nat) : Int) = 10 from rfl] at this
        rw [this, v1]
        have hxx : -(x.natAbs : Int) = x := by omega
        rw [hxx]; congr 1; omega
      · refine ⟨numToText 10 d0, ds.map (numToText 10), by simp [hneg], hsp0, ?_⟩
        simp only [hneg, if_false, List.map_cons, List.nil_append, List.length_cons, List.length_map]
        rw [nowhite_base0 _ _ _ _ (by simp [h45, hne48])]
        have := nowhite_digits dest 10 (by decide) (by decide) (numToText 10) hf d0 ds rest hd0 hd0z hds' hrest10 nread
        rw [show ((10 : Nat) : Int) = 10 from rfl] at this
        rw [this, v1]
        have hxx : (x.natAbs : Int) = x := by omega
        rw [hxx]

/-- stream-level round trip with base 0 on both sides (written in decimal, read with prefix detection) -/
theorem mpz_text_roundtrip0 (x dest : Int) (rest : List Nat) (hrest : Base0Rest rest) :
    mpz_inp_str_rd dest (mpzText 0 x ++ rest) 0 = ((mpzText 0 x).length, x, rest) := by
  obtain ⟨c0, t, ht, hsp, hnw⟩ := mpz_text_nowhite0 x dest rest hrest 1
  unfold mpz_inp_str_rd
  rw [ht] at hnw ⊢
  simp only [List.cons_append, skipWs, hsp, Bool.false_eq_true, if_false, hnw]
  congr 1
  simp

theorem mpqText_base0 (num den : Int) : mpqText 0 num den = mpqText 10 num den := by
  unfold mpqText; rw [mpzText_base0, mpzText_base0]

theorem mpq_text_roundtrip0 (num den : Int) (q : Int × Int) (rest : List Nat) (hrest : Base0Rest rest)
    (hslash : rest.head? ≠ some 47) :
    mpq_inp_str_rd q (mpqText 0 num den ++ rest) 0 = ((mpqText 0 num den).length, (num, den), rest) := by
  have hnl : 0 < (mpzText 0 num).length := by
    obtain ⟨c0, t, h, _⟩ := mpz_text_nowhite0 num 0 [] (by intro c hc; simp at hc) 0
    rw [h]; simp
  have hslashrest : ∀ l : List Nat, Base0Rest (47 :: l) := by
    intro l c hc
    simp at hc; subst hc
    exact ⟨by decide, by decide, by decide, by decide, by decide⟩
  unfold mpq_inp_str_rd mpqText
  by_cases hd : den ≠ 1
  · simp only [hd, ne_eq, not_false_eq_true, if_true, List.append_assoc, List.cons_append]
    rw [mpz_text_roundtrip0 num q.1 (47 :: (mpzText 0 den ++ rest)) (hslashrest _)]
    obtain ⟨c0, t, ht, _, hnw⟩ := mpz_text_nowhite0 den 1 rest hrest ((mpzText 0 num).length + 1 + 1)
    have hne : ¬ (mpzText 0 num).length = 0 := by omega
    simp only [hne, if_false, getc, if_true, ht, List.cons_append, hnw]
    have hne2 : ¬ ((mpzText 0 num).length + 1 + 1 + (c0 :: t).length - 1 = 0) := by simp
    simp only [hne2, if_false]
    congr 1
    simp; omega
  · have hd1 : den = 1 := by simpa using hd
    subst hd1
    simp only [ne_eq, not_true_eq_false, if_false, List.append_nil]
    rw [mpz_text_roundtrip0 num q.1 rest hrest]
    have hne : ¬ (mpzText 0 num).length = 0 := by omega
    simp only [hne, if_false]
    cases rest with
    | nil => simp [getc, ungetc]
    | cons c r =>
      have hc47 : ¬ (some c = some 47) := by simpa using hslash
      simp [getc, ungetc, hc47]

/-! ### raw format: headers beyond 31 bits -/

/-- the four header bytes decode to the byte count wrapped into [−2^31, 2^31) -/
theorem csizeOf_hdrBytes_wrap (s : Int) :
    csizeOf (hdrBytes s) = (s + 2147483648) % 4294967296 - 2147483648 := by
  unfold hdrBytes csizeOf
  generalize hm : (s % 4294967296).toNat = m
  have hm4 : m < 4294967296 := by omega
  simp only [beBytes, leBytes, List.reverse_cons, List.reverse_nil, List.nil_append, List.cons_append,
    List.getD_cons_zero, List.getD_cons_succ]
  have hc : ((m / 256 / 256 / 256 % 256 * 256 + m / 256 / 256 % 256) * 256 + m / 256 % 256) * 256 + m % 256 = m := by
    omega
  rw [hc]
  split <;> omega

/-- the pieces of the record written for `v`, for EVERY size -/
theorem outRaw_pieces (v : Int) (rest : List Nat) :
    (outRawBytes v ++ rest).take 4 = hdrBytes (if v < 0 then -(byteLen v.natAbs : Int) else byteLen v.natAbs) ∧
    ((outRawBytes v ++ rest).drop 4).take (byteLen v.natAbs) = beBytes (byteLen v.natAbs) v.natAbs ∧
    beVal (beBytes (byteLen v.natAbs) v.natAbs) = v.natAbs := by
  set n := byteLen v.natAbs with hn
  have hh : (hdrBytes (if v < 0 then -(n : Int) else (n : Int))).length = 4 := by simp [hdrBytes]
  have hd : (beBytes n v.natAbs).length = n := by simp
  have e : outRawBytes v ++ rest = hdrBytes (if v < 0 then -(n : Int) else (n : Int)) ++ (beBytes n v.natAbs ++ rest) := by
    simp [outRawBytes, ← hn]
  refine ⟨?_, ?_, ?_⟩
  · rw [e, List.take_append_of_le_length (by omega), List.take_of_length_le (by omega)]
  · have hdrop : (outRawBytes v ++ rest).drop 4 = beBytes n v.natAbs ++ rest := by
      rw [e, List.drop_append_of_le_length (by omega), List.drop_of_length_le (by omega)]; simp
    rw [hdrop, List.take_append_of_le_length (by omega), List.take_of_length_le (by omega)]
  · rw [beVal_beBytes]; exact Nat.mod_eq_of_lt (lt_pow_byteLen _)

end Mpir.Io
