/- C20 lemmas: the expression-template strategy on mpz-typed trees equals evaluation into temporaries (`evalZ_correct`). -/
import MpirProofs.Lemmas.Cxx
namespace Mpir.Cxx

theorem fnBinZ_ll (cst : Bool) (o : Bin) (p w v : ZLoc) (h : Heap) :
    fnBinZ cst o p (.loc w) (.loc v) h = (binZ o (h w) (h v)).map (fun r => h.set p r) := by
  rw [fnBinZ_spec cst o p (.loc w) (.loc v) h trivial trivial (by simp [ZArg.isBi])]; rfl

theorem fnBinZ_lb (cst : Bool) (o : Bin) (p w : ZLoc) (c : Bi) (h : Heap) (hc : c.ok = true) :
    fnBinZ cst o p (.loc w) (.bi c) h = ((biZ c).bind fun y => binZ o (h w) y).map (fun r => h.set p r) := by
  rw [fnBinZ_spec cst o p (.loc w) (.bi c) h trivial hc (by simp [ZArg.isBi])]; rfl

theorem fnBinZ_bl (cst : Bool) (o : Bin) (p : ZLoc) (c : Bi) (w : ZLoc) (h : Heap) (hc : c.ok = true) :
    fnBinZ cst o p (.bi c) (.loc w) h = ((biZ c).bind fun x => binZ o x (h w)).map (fun r => h.set p r) := by
  rw [fnBinZ_spec cst o p (.bi c) (.loc w) h hc trivial (by simp [ZArg.isBi])]
  simp only [argZ, Option.bind_some]

theorem wt_bin_z {o : Bin} {a b : E} (hty : (E.bin o a b).ty = .z) (hwt : (E.bin o a b).wt = true) :
    a.ty = .z ∧ b.ty = .z ∧ a.wt = true ∧ b.wt = true := by
  simp only [E.ty] at hty
  have h2 : a.ty = .z ∧ b.ty = .z := by
    by_cases hc : a.ty = .z ∧ b.ty = .z
    · exact hc
    · simp [hc] at hty
  simp only [E.wt, Bool.and_eq_true] at hwt
  exact ⟨h2.1, h2.2, hwt.1.1, hwt.1.2⟩

/-- The template strategy is evaluation into temporaries (mpz-typed trees): for every well-typed
    tree `e`, every destination object `p` that exists before the evaluation (in particular one that
    occurs in `e`), every heap and both answers of `__builtin_constant_p`: `evalZ` raises exactly when
    the temporaries semantics raises, otherwise `p` ends with the value `evalTmp` gives and every other
    pre-existing object is unchanged. -/
theorem evalZ_correct (cst : Bool) : ∀ (e : E), e.ty = .z → e.wt = true →
    ∀ (k : Nat) (p : ZLoc) (h : Heap), p.below k → e.zbelow k →
      Post k p h (evalTmpZ h.get e) (evalZ cst k p e h) := by
  intro e
  induction e with
  | zv i =>
    intro _ _ k p h _ _
    simp only [evalZ, evalTmpZ, mpz_set]
    exact Post.of_set (r := some (h (.v i)))
  | qv i => intro hty; simp [E.ty] at hty
  | zn i =>
    intro _ _ k p h _ _
    simp only [evalZ, evalTmpZ, mpz_set]
    exact Post.of_set (r := some (h (.num i)))
  | zd i =>
    intro _ _ k p h _ _
    simp only [evalZ, evalTmpZ, mpz_set]
    exact Post.of_set (r := some (h (.den i)))
  | un o a ih =>
    intro hty hwt k p h hp hb
    simp only [E.ty] at hty
    simp only [E.wt, Bool.and_eq_true] at hwt
    simp only [E.zbelow] at hb
    simp only [evalZ, evalTmpZ]
    cases hl : a.zleaf? with
    | some i =>
      rw [zleaf?_eval hl]
      simp only [Option.bind_some, fnUnZ_spec]
      exact Post.of_set
    | none =>
      simp only []
      have IH := ih hty hwt.1 k p h hp hb
      cases hr : evalTmpZ h.get a with
      | none => rw [hr] at IH; simp only [Post] at IH; simp [IH, Post]
      | some x =>
        rw [hr] at IH
        obtain ⟨h1, e1, hx, hfr⟩ := IH
        simp only [e1, Option.bind_some, fnUnZ_spec, hx]
        cases hu : unZ o x with
        | none => simp [Post]
        | some r =>
          refine ⟨_, rfl, by simp, fun l hl hne => ?_⟩
          try dsimp only
          rw [Heap.set_get_ne _ _ _ _ hne]; exact hfr l hl hne
  | bin o a b iha ihb =>
    intro hty hwt k p h hp hb
    obtain ⟨hta, htb, hwa, hwb⟩ := wt_bin_z hty hwt
    simp only [E.zbelow] at hb
    simp only [evalZ, evalTmpZ]
    cases hla : a.zleaf? with
    | some i =>
      have hbi : i.below k := zleaf?_below hla hb.1
      rw [zleaf?_eval hla]
      cases hlb : b.zleaf? with
      | some j =>
        rw [zleaf?_eval hlb]
        simp only [Option.bind_some]
        rw [fnBinZ_ll]
        exact Post.of_set
      | none =>
        simp only [Option.bind_some]
        by_cases hpi : p ≠ i
        · simp only [hpi, ne_eq, not_false_eq_true, if_true]
          have IH := ihb htb hwb k p h hp hb.2
          cases hr : evalTmpZ h.get b with
          | none => rw [hr] at IH; simp only [Post] at IH; simp [IH, Post]
          | some y =>
            rw [hr] at IH
            obtain ⟨h1, e1, hy, hfr⟩ := IH
            simp only [e1, Option.bind_some]
            rw [fnBinZ_ll]
            have hi : h1 i = h i := hfr _ hbi (Ne.symm hpi)
            simp only [hy, hi]
            cases hu : binZ o (h i) y with
            | none => simp [Post]
            | some r =>
              refine ⟨_, rfl, by simp, fun l hl hne => ?_⟩
              try dsimp only
              rw [Heap.set_get_ne _ _ _ _ hne]; exact hfr l hl hne
        · simp only [hpi, if_false]
          have IH := ihb htb hwb (k + 1) (.v k) h (by simp [ZLoc.below]) (E.zbelow_mono (by omega) _ hb.2)
          cases hr : evalTmpZ h.get b with
          | none => rw [hr] at IH; simp only [Post] at IH; simp [IH, Post]
          | some y =>
            rw [hr] at IH
            obtain ⟨h1, e1, hy, hfr⟩ := IH
            simp only [e1, Option.bind_some]
            rw [fnBinZ_ll]
            have hi : h1 i = h i := hfr _ (ZLoc.below_mono (by omega) hbi) (ZLoc.ne_of_below hbi)
            simp only [hy, hi]
            cases hu : binZ o (h i) y with
            | none => simp [Post]
            | some r =>
              refine ⟨_, rfl, by simp, fun l hl hne => ?_⟩
              try dsimp only
              rw [Heap.set_get_ne _ _ _ _ hne]
              exact hfr l (ZLoc.below_mono (by omega) hl) (ZLoc.ne_of_below hl)
    | none =>
      cases hlb : b.zleaf? with
      | some j =>
        have hbj : j.below k := zleaf?_below hlb hb.2
        rw [zleaf?_eval hlb]
        by_cases hpj : p ≠ j
        · simp only [hpj, ne_eq, not_false_eq_true, if_true]
          have IH := iha hta hwa k p h hp hb.1
          cases hr : evalTmpZ h.get a with
          | none => rw [hr] at IH; simp only [Post] at IH; simp [IH, Post]
          | some x =>
            rw [hr] at IH
            obtain ⟨h1, e1, hx, hfr⟩ := IH
            simp only [e1, Option.bind_some]
            rw [fnBinZ_ll]
            have hj : h1 j = h j := hfr _ hbj (Ne.symm hpj)
            simp only [hx, hj]
            cases hu : binZ o x (h j) with
            | none => simp [Post]
            | some r =>
              refine ⟨_, rfl, by simp, fun l hl hne => ?_⟩
              try dsimp only
              rw [Heap.set_get_ne _ _ _ _ hne]; exact hfr l hl hne
        · simp only [hpj, if_false]
          have IH := iha hta hwa (k + 1) (.v k) h (by simp [ZLoc.below]) (E.zbelow_mono (by omega) _ hb.1)
          cases hr : evalTmpZ h.get a with
          | none => rw [hr] at IH; simp only [Post] at IH; simp [IH, Post]
          | some x =>
            rw [hr] at IH
            obtain ⟨h1, e1, hx, hfr⟩ := IH
            simp only [e1, Option.bind_some]
            rw [fnBinZ_ll]
            have hj : h1 j = h j := hfr _ (ZLoc.below_mono (by omega) hbj) (ZLoc.ne_of_below hbj)
            simp only [hx, hj]
            cases hu : binZ o x (h j) with
            | none => simp [Post]
            | some r =>
              refine ⟨_, rfl, by simp, fun l hl hne => ?_⟩
              try dsimp only
              rw [Heap.set_get_ne _ _ _ _ hne]
              exact hfr l (ZLoc.below_mono (by omega) hl) (ZLoc.ne_of_below hl)
      | none =>
        simp only []
        -- temp2 := b ; a.eval(p) ; Op::eval(p, p, temp2)
        have IHb := ihb htb hwb (k + 1) (.v k) h (by simp [ZLoc.below]) (E.zbelow_mono (by omega) _ hb.2)
        cases hrb : evalTmpZ h.get b with
        | none =>
          rw [hrb] at IHb; simp only [Post] at IHb
          cases evalTmpZ h.get a <;> simp [IHb, Post]
        | some y =>
          rw [hrb] at IHb
          obtain ⟨h1, e1, hy, hfr1⟩ := IHb
          simp only [e1, Option.bind_some]
          have hag : ∀ l : ZLoc, l.below k → h1 l = h l := fun l hl =>
            hfr1 _ (ZLoc.below_mono (by omega) hl) (ZLoc.ne_of_below hl)
          have IHa := iha hta hwa (k + 1) p h1 (ZLoc.below_mono (by omega) hp) (E.zbelow_mono (by omega) _ hb.1)
          rw [evalTmpZ_frame hag a hb.1] at IHa
          cases hra : evalTmpZ h.get a with
          | none => rw [hra] at IHa; simp only [Post] at IHa; simp [IHa, Post]
          | some x =>
            rw [hra] at IHa
            obtain ⟨h2, e2, hx, hfr2⟩ := IHa
            simp only [e2, Option.bind_some]
            rw [fnBinZ_ll]
            have hk : h2 (.v k) = y := by
              rw [hfr2 _ (by simp [ZLoc.below]) (Ne.symm (ZLoc.ne_of_below hp)), hy]
            simp only [hx, hk]
            cases hu : binZ o x y with
            | none => simp [Post]
            | some r =>
              refine ⟨_, rfl, by simp, fun l hl hne => ?_⟩
              try dsimp only
              rw [Heap.set_get_ne _ _ _ _ hne, hfr2 l (ZLoc.below_mono (by omega) hl) hne]
              exact hfr1 l (ZLoc.below_mono (by omega) hl) (ZLoc.ne_of_below hl)
  | binL o c b ih =>
    intro hty hwt k p h hp hb
    simp only [E.ty] at hty
    simp only [E.wt, Bool.and_eq_true] at hwt
    simp only [E.zbelow] at hb
    simp only [evalZ, evalTmpZ]
    cases hl : b.zleaf? with
    | some j =>
      rw [zleaf?_eval hl]
      simp only [Option.bind_some]
      rw [fnBinZ_bl _ _ _ _ _ _ hwt.1.1]
      cases biZ c with
      | none => simp [Post]
      | some x => simp only [Option.bind_some]; exact Post.of_set
    | none =>
      simp only []
      have IH := ih hty hwt.1.2 k p h hp hb
      cases hr : evalTmpZ h.get b with
      | none => rw [hr] at IH; simp only [Post] at IH; simp [IH, Post]
      | some y =>
        rw [hr] at IH
        obtain ⟨h1, e1, hy, hfr⟩ := IH
        simp only [e1, Option.bind_some]
        rw [fnBinZ_bl _ _ _ _ _ _ hwt.1.1]
        simp only [hy]
        cases biZ c with
        | none => simp [Post]
        | some x =>
          simp only [Option.bind_some]
          cases hu : binZ o x y with
          | none => simp [Post]
          | some r =>
            refine ⟨_, rfl, by simp, fun l hl hne => ?_⟩
            try dsimp only
            rw [Heap.set_get_ne _ _ _ _ hne]; exact hfr l hl hne
  | binR o a c ih =>
    intro hty hwt k p h hp hb
    simp only [E.ty] at hty
    simp only [E.wt, Bool.and_eq_true] at hwt
    simp only [E.zbelow] at hb
    simp only [evalZ, evalTmpZ]
    cases hl : a.zleaf? with
    | some i =>
      rw [zleaf?_eval hl]
      simp only [Option.bind_some]
      rw [fnBinZ_lb _ _ _ _ _ _ hwt.1.1]
      exact Post.of_set
    | none =>
      simp only []
      have IH := ih hty hwt.1.2 k p h hp hb
      cases hr : evalTmpZ h.get a with
      | none => rw [hr] at IH; simp only [Post] at IH; simp [IH, Post]
      | some x =>
        rw [hr] at IH
        obtain ⟨h1, e1, hx, hfr⟩ := IH
        simp only [e1, Option.bind_some]
        rw [fnBinZ_lb _ _ _ _ _ _ hwt.1.1]
        simp only [hx]
        cases hu : (biZ c).bind fun y => binZ o x y with
        | none => simp [Post]
        | some r =>
          refine ⟨_, rfl, by simp, fun l hl hne => ?_⟩
          try dsimp only
          rw [Heap.set_get_ne _ _ _ _ hne]; exact hfr l hl hne
  | sh o a n ih =>
    intro hty hwt k p h hp hb
    simp only [E.ty] at hty
    simp only [E.wt, Bool.and_eq_true] at hwt
    simp only [E.zbelow] at hb
    simp only [evalZ, evalTmpZ]
    cases hl : a.zleaf? with
    | some i =>
      rw [zleaf?_eval hl]
      simp only [Option.map_some, fnShZ_spec]
      exact Post.of_set (r := some _)
    | none =>
      simp only []
      have IH := ih hty hwt.1 k p h hp hb
      cases hr : evalTmpZ h.get a with
      | none => rw [hr] at IH; simp only [Post] at IH; simp [IH, Post]
      | some x =>
        rw [hr] at IH
        obtain ⟨h1, e1, hx, hfr⟩ := IH
        simp only [e1, Option.bind_some, fnShZ_spec, hx, Option.map_some]
        refine ⟨_, rfl, by simp, fun l hl hne => ?_⟩
        try dsimp only
        rw [Heap.set_get_ne _ _ _ _ hne]; exact hfr l hl hne



end Mpir.Cxx
