/- Helper lemmas for the size-aware models of Mpir/Model/AllocSafeMpz5.lean (mpz/import.c, gcd.c, lcm.c). -/
import MpirProofs.Lemmas.AllocSafeSetD
import MpirProofs.Lemmas.AllocSafeMpqInv
import MpirProofs.Lemmas.KernelsMem
import MpirProofs.Lemmas.AliasMem
import MpirProofs.Lemmas.Powm
import MpirProofs.Lemmas.Gcd
import MpirProofs.Lemmas.Bits
import Mathlib.Data.Nat.GCD.Basic
import Mpir.Model.AllocSafeMpz5
namespace Mpir.AllocSafe5
open Mpir Mpir.AllocSafe
open Mpir.Mpz (sgn Norm natAbs_sgn)

/-! ## mpz/import.c: the byte loop stores one limb per 64 accumulated bits -/

/-- the loop invariant of import.c:119-120 (`lbits < GMP_NUMB_BITS`), limbs are limbs -/
def AccInv (a : Acc) : Prop := a.lbits < 64 ∧ a.limb < B ∧ Limbs a.out

/-- bits accumulated so far -/
def Acc.bits (a : Acc) : Nat := 64 * a.out.length + a.lbits

theorem accumulate_inv (a : Acc) (byte N : Nat) (h : AccInv a) (hb : byte < B) (hN : N ≤ 64) :
    AccInv (accumulate a byte N) ∧ (accumulate a byte N).bits = a.bits + N := by
  obtain ⟨h1, h2, h3⟩ := h
  unfold accumulate
  simp only []
  split
  · rename_i hge
    refine ⟨⟨by simp only []; omega, ?_, ?_⟩, ?_⟩
    · exact Nat.lt_of_le_of_lt (Nat.shiftRight_le _ _) hb
    · exact Limbs_append.mpr ⟨h3, limb_singleton (Nat.mod_lt _ B_pos)⟩
    · simp only [Acc.bits, List.length_append, List.length_singleton]; omega
  · rename_i hlt
    refine ⟨⟨by simp only []; omega, Nat.mod_lt _ B_pos, h3⟩, ?_⟩
    simp only [Acc.bits]; omega

theorem byteAt_lt (data : List Nat) (dp : Int) : byteAt data dp < B := by
  have : byteAt data dp < 256 := by
    unfold byteAt; split
    · exact Nat.mod_lt _ (by decide)
    · decide
  unfold B; omega

theorem wordBytes_inv (data : List Nat) (endian : Int) : ∀ (j : Nat) (st : LoopSt), AccInv st.1 →
    AccInv (wordBytes data endian j st).1 ∧ (wordBytes data endian j st).1.bits = st.1.bits + 8 * j := by
  intro j
  induction j with
  | zero => intro st h; exact ⟨h, rfl⟩
  | succ j ih =>
    intro st h
    obtain ⟨i1, e1⟩ := accumulate_inv st.1 (byteAt data st.2.1) 8 h (byteAt_lt _ _) (by decide)
    obtain ⟨i2, e2⟩ := ih (accumulate st.1 (byteAt data st.2.1) 8, st.2.1 - endian, st.2.2 && inData data st.2.1) i1
    simp only [wordBytes]
    refine ⟨i2, ?_⟩
    rw [e2]; simp only []; rw [e1]; omega

theorem oneWord_inv (data : List Nat) (endian : Int) (wbytes wbits : Nat) (woffset : Int) (st : LoopSt) (h : AccInv st.1)
    (hw : wbits < 8) :
    AccInv (oneWord data endian wbytes wbits woffset st).1 ∧
    (oneWord data endian wbytes wbits woffset st).1.bits = st.1.bits + (8 * wbytes + wbits) := by
  obtain ⟨i1, e1⟩ := wordBytes_inv data endian wbytes st h
  unfold oneWord
  simp only []
  by_cases h0 : wbits = 0
  · subst h0
    simp only [bne_self_eq_false, Bool.false_eq_true, if_false]
    exact ⟨i1, by rw [e1]; omega⟩
  · have hb : (wbits != 0) = true := by simpa using h0
    simp only [hb, if_true]
    have hlt : byteAt data (wordBytes data endian wbytes st).2.1 &&& (2 ^ wbits - 1) < B :=
      Nat.lt_of_le_of_lt Nat.and_le_left (byteAt_lt _ _)
    obtain ⟨i2, e2⟩ := accumulate_inv (wordBytes data endian wbytes st).1 _ wbits i1 hlt (by omega)
    exact ⟨i2, by rw [e2, e1]; omega⟩

theorem words_inv (data : List Nat) (endian : Int) (wbytes wbits : Nat) (woffset : Int) (hw : wbits < 8) :
    ∀ (i : Nat) (st : LoopSt), AccInv st.1 →
    AccInv (words data endian wbytes wbits woffset i st).1 ∧
    (words data endian wbytes wbits woffset i st).1.bits = st.1.bits + i * (8 * wbytes + wbits) := by
  intro i
  induction i with
  | zero => intro st h; exact ⟨h, by simp [words]⟩
  | succ i ih =>
    intro st h
    obtain ⟨i1, e1⟩ := oneWord_inv data endian wbytes wbits woffset st h hw
    obtain ⟨i2, e2⟩ := ih _ i1
    simp only [words]
    refine ⟨i2, ?_⟩
    have hm := Nat.add_one_mul i (8 * wbytes + wbits)
    rw [e2, e1]; omega

theorem importGeneric_spec (count : Nat) (order : Int) (size : Nat) (endian : Int) (nail : Nat) (data : List Nat) :
    (importGeneric count order size endian nail data).1.length = (count * (size * 8 - nail) + 63) / 64 ∧
    Limbs (importGeneric count order size endian nail data).1 := by
  unfold importGeneric
  simp only []
  generalize hdp : ((if order ≥ 0 then ((count : Int) - 1) * (size : Int) else 0) + (if endian ≥ 0 then (size : Int) - 1 else 0)) = dp
  generalize hwo : ((if endian ≥ 0 then (((size * 8 - nail + 7) / 8 : Nat) : Int) else -(((size * 8 - nail + 7) / 8 : Nat) : Int))
    + (if order < 0 then (size : Int) else -(size : Int))) = wo
  have h0 : AccInv (⟨0, 0, []⟩ : Acc) := ⟨by decide, B_pos, by intro x hx; cases hx⟩
  obtain ⟨⟨i1, i2, i3⟩, e⟩ := words_inv data endian ((size * 8 - nail) / 8) ((size * 8 - nail) % 8) wo
    (Nat.mod_lt _ (by decide)) count (⟨0, 0, []⟩, dp, true) h0
  rw [Nat.div_add_mod] at e
  simp only [Acc.bits, List.length_nil] at e
  generalize count * (size * 8 - nail) = T at e ⊢
  generalize (words data endian ((size * 8 - nail) / 8) ((size * 8 - nail) % 8) wo count (⟨0, 0, []⟩, dp, true)).1 = a at *
  by_cases hl : a.lbits = 0
  · have : (a.lbits != 0) = false := by simpa using hl
    simp only [this, Bool.false_eq_true, if_false]
    exact ⟨by omega, i3⟩
  · have : (a.lbits != 0) = true := by simpa using hl
    simp only [this, if_true, List.length_append, List.length_singleton]
    exact ⟨by omega, Limbs_append.mpr ⟨i3, limb_singleton i2⟩⟩

theorem leLimb_lt (data : List Nat) (i : Nat) : leLimb data i < B := by
  unfold leLimb B; omega

theorem beLimb_lt (data : List Nat) (i : Nat) : beLimb data i < B := by
  unfold beLimb B; omega

theorem Limbs_map_range (f : Nat → Nat) (n : Nat) (hf : ∀ i, f i < B) : Limbs ((List.range n).map f) := by
  intro x hx
  obtain ⟨i, _, rfl⟩ := List.mem_map.mp hx
  exact hf i

/-! ## mpz/lcm.c, the one-limb arm -/

/-- value-level result of lcm.c:50-63 (label `one`) with the allocation: u * (vl / gcd (u, vl)) -/
def Spec.lcmOne (r u : Mpz.Mpz) (vl : Nat) : Mpz.Mpz :=
  let n := u.size.natAbs
  let p := Mpir.mul_1 u.d (vl / Nat.gcd (val u.d) vl)
  let n' := n + (if p.2 != 0 then 1 else 0)
  ⟨(Mpz.grow r (n + 1)).alloc, (n' : Nat), (p.1 ++ [p.2]).take n'⟩

theorem lcmOne_refines (s : St) (r u v : Nat) (hs : s.ok = true) (hr : OWF (s.h r)) (hu : OWF (s.h u)) (hv : OWF (s.h v))
    (hv1 : 1 ≤ (s.h v).size.natAbs) :
    Refines s (lcmOne 1 s r u v (s.h u).size.natAbs) r
      (Spec.lcmOne (view (s.h r)) (view (s.h u)) ((view (s.h v)).d.headD junk)) := by
  unfold lcmOne Spec.lcmOne
  have G := MPZ_REALLOC_grown s r ((s.h u).size.natAbs + 1) hr
  obtain ⟨ea, oka⟩ := grown_rd G u (s.h u).size.natAbs hu (Nat.le_refl _)
  obtain ⟨ev, okv⟩ := grown_rd G v 1 hv hv1
  have hul := view_d_length hu
  have hvl := view_d_length hv
  rw [List.take_of_length_le (by omega)] at ea
  obtain ⟨x, xs, hd⟩ : ∃ x xs, (view (s.h v)).d = x :: xs := by
    cases h : (view (s.h v)).d with
    | nil => rw [h] at hvl; simp at hvl; omega
    | cons x xs => exact ⟨x, xs, rfl⟩
  have hx : x < B := view_limbs hv x (by rw [hd]; simp)
  rw [hd] at ev
  simp only [List.take_succ_cons, List.take_zero] at ev
  have hm : x / Nat.gcd (val (view (s.h u)).d) x < B := Nat.lt_of_le_of_lt (Nat.div_le_self _ _) hx
  obtain ⟨_, mc, ml, mn⟩ := Mpz.K.mul_1_val (view (s.h u)).d (x / Nat.gcd (val (view (s.h u)).d) x) (view_limbs hu) hm
  have halloc : (Mpz.grow (view (s.h r)) ((s.h u).size.natAbs + 1)).alloc =
    ((MPZ_REALLOC s r ((s.h u).size.natAbs + 1)).h r).buf.alloc := G.alloc.symm
  have e1 : (view (s.h u)).size = (s.h u).size := rfl
  simp only [e1, hd, List.headD_cons]
  rw [halloc]
  refine Refines.of_grown G ?_
  simp only [St.load, add_zero_ptr, mpn_gcd_1, mpn_mul_1, ea, oka, ev, okv, List.headD_cons, chk_true]
  have T := tail_carry (MPZ_REALLOC s r ((s.h u).size.natAbs + 1)) r
    (Mpir.mul_1 (view (s.h u)).d (x / Nat.gcd (val (view (s.h u)).d) x)).1
    (Mpir.mul_1 (view (s.h u)).d (x / Nat.gcd (val (view (s.h u)).d) x)).2
    ((s.h u).size.natAbs + (if (Mpir.mul_1 (view (s.h u)).d (x / Nat.gcd (val (view (s.h u)).d) x)).2 != 0 then 1 else 0)) false true
    (by rw [G.ok]; exact hs) rfl (G.bwf r hr.1) ml mc (by rw [mn, hul]; exact G.room) (by rw [mn, hul]; split <;> omega)
  simp only [mn, hul, chk_true, sgn, Bool.false_eq_true, if_false] at T
  exact T

/-- the list-level result of the `one` arm is a well-formed mpz, and it is the least common multiple -/
theorem Spec.lcmOne_spec (r u : Mpz.Mpz) (vl : Nat) (hr : 1 ≤ r.alloc) (hu : Mpz.WF u) (hu0 : u.size ≠ 0) (hvl : vl < B)
    (hv0 : vl ≠ 0) :
    Mpz.WF (Spec.lcmOne r u vl) ∧ Mpz.toInt (Spec.lcmOne r u vl) = (Nat.lcm (val u.d) vl : Nat) := by
  have hg : 0 < Nat.gcd (val u.d) vl := Nat.gcd_pos_of_pos_right _ (Nat.pos_of_ne_zero hv0)
  have hm0 : vl / Nat.gcd (val u.d) vl ≠ 0 :=
    Nat.pos_iff_ne_zero.mp (Nat.div_pos (Nat.le_of_dvd (Nat.pos_of_ne_zero hv0) (Nat.gcd_dvd_right _ _)) hg)
  have hm : vl / Nat.gcd (val u.d) vl < B := Nat.lt_of_le_of_lt (Nat.div_le_self _ _) hvl
  have key : Spec.lcmOne r u vl = Mpz.mul_ui r ⟨u.alloc, (u.size.natAbs : Nat), u.d⟩ (vl / Nat.gcd (val u.d) vl) := by
    have habs : ¬ |u.size| < 0 := not_lt.mpr (abs_nonneg _)
    simp [Spec.lcmOne, Mpz.mul_ui, Mpz.mul_i, hm0, hu0, habs, Int.natAbs_abs, sgn]
  have hWFa : Mpz.WF ⟨u.alloc, (u.size.natAbs : Nat), u.d⟩ := by
    obtain ⟨a, b, c, d, e⟩ := hu
    exact ⟨a, by simpa [Int.natAbs_abs] using b, by simpa [Int.natAbs_abs] using c, d, e⟩
  obtain ⟨e2, e1⟩ := Mpz.mul_i_spec r ⟨u.alloc, (u.size.natAbs : Nat), u.d⟩ (vl / Nat.gcd (val u.d) vl) false hr hWFa hm
  rw [key]
  unfold Mpz.mul_ui
  refine ⟨e2, ?_⟩
  rw [e1]
  have hl : val u.d * (vl / Nat.gcd (val u.d) vl) = Nat.lcm (val u.d) vl := by
    unfold Nat.lcm; exact (Nat.mul_div_assoc _ (Nat.gcd_dvd_right _ _)).symm
  rw [← hl]
  simp [Mpz.toInt]

/-! ## mpz/gcd.c: the zero and one-limb arms -/

theorem gcdOne_tail (s : St) (g gl : Nat) (c1 c2 : Bool) (hs : s.ok = true) (hg : OWF (s.h g)) (hgl : gl < B)
    (h1 : c1 = true) (h2 : c2 = true) :
    Refines s ((((s.setSize g 1).chk c1).chk c2).store (s.PTR g) 0 gl) g ⟨(s.h g).buf.alloc, 1, [gl]⟩ := by
  subst h1 h2
  simp only [chk_true]
  have ha : 1 ≤ (s.h g).buf.alloc := by have := hg.2.1; simpa [view] using this
  have hb : BWF ((s.setSize g 1).h g).buf := by simpa using hg.1
  have W0 := Wrote.refl (s.setSize g 1) g 1 (by simpa using hs) hb (by simpa using ha)
  have hlen : (((s.setSize g 1).h g).buf.limbs.take 1).length = 1 := by
    rw [List.length_take, hb.1]; simp; omega
  generalize ((s.setSize g 1).h g).buf.limbs.take 1 = R0 at W0 hlen
  obtain ⟨r, hr⟩ := List.length_eq_one_iff.mp hlen
  subst hr
  have W1 := W0.store_set 0 gl (by simp) hgl
  have hp : (s.setSize g 1).PTR g = s.PTR g := by simp [St.PTR]
  rw [hp] at W1
  have R := W1.refines 1 (by simp [St.store]) (by simp)
  simp only [List.set_cons_zero, setSize_buf] at R
  exact ⟨R.ok, by simpa using R.view, R.bwf, fun x hx => (R.frame x hx).trans (setSize_other _ _ _ hx)⟩


/-- gcd.c:65-70: u has one limb, v ≠ 0 -/
theorem gcdOneU_refines (s : St) (g u v : Nat) (hs : s.ok = true) (hg : OWF (s.h g)) (hu : OWF (s.h u)) (hv : OWF (s.h v))
    (hu1 : (s.h u).size.natAbs = 1) (hv0 : (s.h v).size ≠ 0) :
    Refines s (mpz_gcd s g u v) g
      ⟨(s.h g).buf.alloc, 1, [Nat.gcd (val (view (s.h v)).d) ((view (s.h u)).d.headD junk)]⟩ := by
  have hvn : ¬ (s.h v).size.natAbs = 0 := by omega
  have hfu := view_fit hu
  have hfv := view_fit hv
  have hul := view_d_length hu
  obtain ⟨x, hd⟩ := List.length_eq_one_iff.mp (hul.trans hu1)
  have hx : x < B := view_limbs hu x (by rw [hd]; simp)
  have hx0 : 0 < x := by
    have := hu.2.2.2.2.2
    rw [hd] at this
    rcases Nat.eq_zero_or_pos x with h | h
    · subst h; simp at this
    · exact h
  have hgl : Nat.gcd (val (view (s.h v)).d) x < B := Nat.lt_of_le_of_lt (Nat.gcd_le_right _ hx0) hx
  have T := gcdOne_tail s g (Nat.gcd (val (view (s.h v)).d) x)
    ((s.setSize g 1).rdOk ((s.PTR u).add 0) 1) (((s.setSize g 1).chk ((s.setSize g 1).rdOk ((s.PTR u).add 0) 1)).rdOk (s.PTR v) (s.h v).size.natAbs)
    hs hg hgl
    (by simp [St.rdOk, St.live, St.PTR, Ptr.add, Buf.read]; omega)
    (by simp [St.rdOk, St.live, St.PTR, Ptr.add, Buf.read]; omega)
  rw [hd]
  simp only [List.headD_cons]
  have hd' : (s.h u).buf.limbs.take 1 = [x] := by
    have : (view (s.h u)).d = (s.h u).buf.limbs.take (s.h u).size.natAbs := rfl
    rw [this, hu1] at hd; exact hd
  have e : mpz_gcd s g u v = ((((s.setSize g 1).chk ((s.setSize g 1).rdOk ((s.PTR u).add 0) 1)).chk
      (((s.setSize g 1).chk ((s.setSize g 1).rdOk ((s.PTR u).add 0) 1)).rdOk (s.PTR v) (s.h v).size.natAbs)).store (s.PTR g) 0
      (Nat.gcd (val (view (s.h v)).d) x)) := by
    unfold mpz_gcd gcd_
    simp [St.ABSIZ, hu1, hvn, St.load, mpn_gcd_1, St.rd, Buf.read, St.PTR, Ptr.add, hd', view]
  rw [e]; exact T

/-- gcd.c:72-77: v has one limb, u at least two -/
theorem gcdOneV_refines (s : St) (g u v : Nat) (hs : s.ok = true) (hg : OWF (s.h g)) (hu : OWF (s.h u)) (hv : OWF (s.h v))
    (hv1 : (s.h v).size.natAbs = 1) (hu2 : 2 ≤ (s.h u).size.natAbs) :
    Refines s (mpz_gcd s g u v) g
      ⟨(s.h g).buf.alloc, 1, [Nat.gcd (val (view (s.h u)).d) ((view (s.h v)).d.headD junk)]⟩ := by
  have hun : ¬ (s.h u).size.natAbs = 0 := by omega
  have hun1 : ¬ (s.h u).size.natAbs = 1 := by omega
  have hfu := view_fit hu
  have hfv := view_fit hv
  have hvl := view_d_length hv
  obtain ⟨x, hd⟩ := List.length_eq_one_iff.mp (hvl.trans hv1)
  have hx : x < B := view_limbs hv x (by rw [hd]; simp)
  have hx0 : 0 < x := by
    have := hv.2.2.2.2.2
    rw [hd] at this
    rcases Nat.eq_zero_or_pos x with h | h
    · subst h; simp at this
    · exact h
  have hgl : Nat.gcd (val (view (s.h u)).d) x < B := Nat.lt_of_le_of_lt (Nat.gcd_le_right _ hx0) hx
  have T := gcdOne_tail s g (Nat.gcd (val (view (s.h u)).d) x)
    ((s.setSize g 1).rdOk ((s.PTR v).add 0) 1) (((s.setSize g 1).chk ((s.setSize g 1).rdOk ((s.PTR v).add 0) 1)).rdOk (s.PTR u) (s.h u).size.natAbs)
    hs hg hgl
    (by simp [St.rdOk, St.live, St.PTR, Ptr.add, Buf.read]; omega)
    (by simp [St.rdOk, St.live, St.PTR, Ptr.add, Buf.read]; omega)
  rw [hd]
  simp only [List.headD_cons]
  have hd' : (s.h v).buf.limbs.take 1 = [x] := by
    have : (view (s.h v)).d = (s.h v).buf.limbs.take (s.h v).size.natAbs := rfl
    rw [this, hv1] at hd; exact hd
  have e : mpz_gcd s g u v = ((((s.setSize g 1).chk ((s.setSize g 1).rdOk ((s.PTR v).add 0) 1)).chk
      (((s.setSize g 1).chk ((s.setSize g 1).rdOk ((s.PTR v).add 0) 1)).rdOk (s.PTR u) (s.h u).size.natAbs)).store (s.PTR g) 0
      (Nat.gcd (val (view (s.h u)).d) x)) := by
    unfold mpz_gcd gcd_
    simp [St.ABSIZ, hv1, hun, hun1, St.load, mpn_gcd_1, St.rd, Buf.read, St.PTR, Ptr.add, hd', view]
  rw [e]; exact T

/-- gcd.c:44-52 / 55-63: one operand is zero, the other (`x`) is copied; `SIZ (g)` is stored BEFORE `MPZ_REALLOC (g, n)` -/
theorem gcdZero_refines (s : St) (g x : Nat) (hs : s.ok = true) (hg : OWF (s.h g)) (hx : OWF (s.h x)) :
    Refines s
      (if g == x then s.setSize g ((s.h x).size.natAbs : Nat)
       else MPN_COPY (MPZ_REALLOC (s.setSize g ((s.h x).size.natAbs : Nat)) g (s.h x).size.natAbs)
         ((MPZ_REALLOC (s.setSize g ((s.h x).size.natAbs : Nat)) g (s.h x).size.natAbs).PTR g) (s.PTR x) (s.h x).size.natAbs) g
      ⟨max (s.h g).buf.alloc (s.h x).size.natAbs, ((s.h x).size.natAbs : Nat), (view (s.h x)).d⟩ := by
  have hfx := view_fit hx
  have ha : 1 ≤ (s.h g).buf.alloc := by have := hg.2.1; simpa [view] using this
  by_cases h : g = x
  · subst h
    simp only [beq_self_eq_true, if_true]
    refine ⟨by simpa using hs, ?_, by simpa using hg.1, fun y hy => setSize_other _ _ _ hy⟩
    simp [view, Nat.max_eq_left hfx, Int.natAbs_abs]
  · have h' : (g == x) = false := by simpa using h
    simp only [h', Bool.false_eq_true, if_false]
    have hxg : x ≠ g := fun e => h e.symm
    generalize hn : (s.h x).size.natAbs = n at *
    have G := MPZ_REALLOC_grown2 (s.setSize g (n : Nat)) g n (by simp)
    have hox : (MPZ_REALLOC (s.setSize g (n : Nat)) g n).h x = s.h x := by
      rw [G.other x hxg, setSize_other _ _ _ hxg]
    have hrd : (MPZ_REALLOC (s.setSize g (n : Nat)) g n).rd (s.PTR x) n = (view (s.h x)).d := by
      simp [St.rd, St.PTR, Buf.read, hox, view, hn]
    have hok : (MPZ_REALLOC (s.setSize g (n : Nat)) g n).rdOk (s.PTR x) n = true := by
      simp [St.rdOk, St.live, St.PTR, Buf.read, hox]; omega
    have hb := G.bwf g (by simpa using hg.1)
    have hsz : ((MPZ_REALLOC (s.setSize g (n : Nat)) g n).h g).size = (n : Nat) := by rw [G.size]; simp
    have hal : ((MPZ_REALLOC (s.setSize g (n : Nat)) g n).h g).buf.alloc = max (s.h g).buf.alloc n := by
      rw [G.alloc, grow_alloc_max _ _ (by simpa [view] using ha)]; simp [view]
    have hl : (view (s.h x)).d.length = n := by rw [view_d_length hx, hn]
    unfold MPN_COPY
    rw [hrd, hok]
    have W := Wrote.fresh (MPZ_REALLOC (s.setSize g (n : Nat)) g n) g (view (s.h x)).d true (by rw [G.ok]; simpa using hs) rfl hb
      (view_limbs hx) (by rw [hl]; exact G.room)
    have R := W.refines (n : Nat) (by simpa using hsz) (by simp [hl])
    rw [hal] at R
    simp only [Int.natAbs_natCast] at R
    rw [List.take_of_length_le (by omega)] at R
    refine ⟨R.ok, R.view, R.bwf, fun y hy => ?_⟩
    rw [R.frame y hy, G.other y hy, setSize_other _ _ _ hy]

theorem WF_one (a gl : Nat) (ha : 1 ≤ a) (h0 : 0 < gl) (hB : gl < B) : Mpz.WF ⟨a, 1, [gl]⟩ :=
  ⟨ha, by simpa using ha, by simp, limb_singleton hB, by simp; omega⟩

/-- the one-limb arms of mpz_gcd (gcd.c:65-77) in one statement -/
theorem gcdOne_refines (s : St) (g u v : Nat) (hs : s.ok = true) (hg : OWF (s.h g)) (hu : OWF (s.h u)) (hv : OWF (s.h v))
    (hu0 : (s.h u).size ≠ 0) (hv0 : (s.h v).size ≠ 0) (h1 : (s.h u).size.natAbs = 1 ∨ (s.h v).size.natAbs = 1) :
    Refines s (mpz_gcd s g u v) g ⟨(s.h g).buf.alloc, 1, [Nat.gcd (val (view (s.h u)).d) (val (view (s.h v)).d)]⟩ ∧
    Mpz.WF ⟨(s.h g).buf.alloc, 1, [Nat.gcd (val (view (s.h u)).d) (val (view (s.h v)).d)]⟩ := by
  have ha : 1 ≤ (s.h g).buf.alloc := by have := hg.2.1; simpa [view] using this
  have one : ∀ {y : Nat}, OWF (s.h y) → (s.h y).size.natAbs = 1 →
      val (view (s.h y)).d = (view (s.h y)).d.headD junk ∧ 0 < val (view (s.h y)).d ∧ val (view (s.h y)).d < B := by
    intro y hy hy1
    obtain ⟨x, hd⟩ := List.length_eq_one_iff.mp ((view_d_length hy).trans hy1)
    have hx : x < B := view_limbs hy x (by rw [hd]; simp)
    have hx0 : 0 < x := by
      have := hy.2.2.2.2.2
      rw [hd] at this
      rcases Nat.eq_zero_or_pos x with h | h
      · subst h; simp at this
      · exact h
    rw [hd]; simp [val, hx, hx0]
  by_cases hu1 : (s.h u).size.natAbs = 1
  · obtain ⟨e, p, b⟩ := one hu hu1
    have R := gcdOneU_refines s g u v hs hg hu hv hu1 hv0
    rw [← e, Nat.gcd_comm] at R
    exact ⟨R, WF_one _ _ ha (Nat.gcd_pos_of_pos_left _ p) (Nat.lt_of_le_of_lt (Nat.gcd_le_left _ p) b)⟩
  · have hv1 : (s.h v).size.natAbs = 1 := by rcases h1 with h | h; exact absurd h hu1; exact h
    obtain ⟨e, p, b⟩ := one hv hv1
    have R := gcdOneV_refines s g u v hs hg hu hv hv1 (by omega)
    rw [← e] at R
    exact ⟨R, WF_one _ _ ha (Nat.gcd_pos_of_pos_right _ p) (Nat.lt_of_le_of_lt (Nat.gcd_le_right _ p) b)⟩

/-! ## mpz/gcd.c: the re-shift into g (gcd.c:133-154) -/

/-- the bits mpn_lshift shifts out are the top bits of the top limb -/
theorem lshift_carry (G : List Nat) (c : Nat) (hne : G ≠ []) : (Mpir.lshift G c).2 = Mpz.topLimb G >>> (64 - c) := by
  obtain ⟨xs, x, rfl⟩ : ∃ xs x, G = xs ++ [x] := ⟨G.dropLast, G.getLast hne, (List.dropLast_append_getLast hne).symm⟩
  unfold Mpir.lshift
  rw [Mem.lshiftGo_snoc]
  simp [Mpz.topLimb]

theorem ptr_add_add (p : Ptr) (a b : Nat) : (p.add a).add b = p.add (a + b) := by
  cases p; simp [Ptr.add, Nat.add_assoc]

/-- gcd.c:133-154, the destination side: `MPZ_REALLOC (g, gsize)` covers the zero fill, the shifted limbs and the conditional
    `tp[vsize] = cy_limb` -/
theorem gcdTail_mem (s : St) (g : Nat) (G : List Nat) (gzl gzb : Nat) (hs : s.ok = true) (hg : OWF (s.h g))
    (hG : Limbs G) (hne : G ≠ []) (hb : gzb ≤ 63) :
    (gcdTail 0 false s g G gzl gzb).ok = true ∧ BWF ((gcdTail 0 false s g G gzl gzb).h g).buf ∧
    ((gcdTail 0 false s g G gzl gzb).h g).size.natAbs ≤ ((gcdTail 0 false s g G gzl gzb).h g).buf.alloc ∧
    (∀ x, x ≠ g → (gcdTail 0 false s g G gzl gzb).h x = s.h x) := by
  unfold gcdTail
  simp only [Nat.sub_zero, Bool.false_or]
  by_cases h0 : gzb = 0
  · subst h0
    simp only [bne_self_eq_false, Bool.false_eq_true, if_false]
    have Gr := MPZ_REALLOC_grown s g (G.length + gzl) hg
    have hok1 : (MPZ_REALLOC s g (G.length + gzl)).ok = true := by rw [Gr.ok]; exact hs
    have hb1 := Gr.bwf g hg.1
    have hroom := Gr.room
    generalize MPZ_REALLOC s g (G.length + gzl) = s1 at *
    have W0 := Wrote.refl s1 g 0 hok1 hb1 (Nat.zero_le _)
    have W1 := W0.wr 0 (List.replicate gzl 0) (Limbs_rep0 _) (by simp) (by simp; omega)
    simp only [List.take_zero, add_zero_ptr, List.nil_append, List.drop_nil, List.append_nil] at W1
    have W2 := W1.wr gzl G hG (by simp) (by omega)
    have W3 := W2.setSize ((G.length + gzl : Nat) : Int)
    simp only [MPN_ZERO, wr_PTR]
    refine ⟨W3.ok, W3.bwf, ?_, fun x hx => (W3.frame x hx).trans (Gr.other x hx)⟩
    rw [W3.alloc]; simp; omega
  · have hb0 : (gzb != 0) = true := by simpa using h0
    simp only [hb0, if_true]
    obtain ⟨_, _, hl, hn⟩ := Mpz.K.lshift_val G gzb hG (by omega) hb
    have hc := lshift_carry G gzb hne
    generalize hgs : G.length + gzl + (if (Mpz.topLimb G >>> (64 - gzb) != 0) = true then 1 else 0) = gsize
    have Gr := MPZ_REALLOC_grown s g gsize hg
    have hok1 : (MPZ_REALLOC s g gsize).ok = true := by rw [Gr.ok]; exact hs
    have hb1 := Gr.bwf g hg.1
    have hroom := Gr.room
    generalize MPZ_REALLOC s g gsize = s1 at *
    have W0 := Wrote.refl s1 g 0 hok1 hb1 (Nat.zero_le _)
    have W1 := W0.wr 0 (List.replicate gzl 0) (Limbs_rep0 _) (by simp) (by simp; split at hgs <;> omega)
    simp only [List.take_zero, add_zero_ptr, List.nil_append, List.drop_nil, List.append_nil] at W1
    have W2 := W1.wr gzl (Mpir.lshift G gzb).1 hl (by simp) (by rw [hn]; split at hgs <;> omega)
    simp only [MPN_ZERO, wr_PTR]
    by_cases hcy : (Mpir.lshift G gzb).2 = 0
    · have : ((Mpir.lshift G gzb).2 != 0) = false := by simpa using hcy
      simp only [this, Bool.false_eq_true, if_false]
      have W3 := W2.setSize ((gsize : Nat) : Int)
      refine ⟨W3.ok, W3.bwf, ?_, fun x hx => (W3.frame x hx).trans (Gr.other x hx)⟩
      rw [W3.alloc]; simp; omega
    · have hcb : ((Mpir.lshift G gzb).2 != 0) = true := by simpa using hcy
      simp only [hcb, if_true]
      have hcy' : (Mpz.topLimb G >>> (64 - gzb) != 0) = true := by rw [← hc]; exact hcb
      rw [hcy'] at hgs
      simp only [if_true] at hgs
      have hcB : (Mpir.lshift G gzb).2 < B := by
        have : (Mpir.lshift G gzb).2 < 2 ^ gzb := by assumption
        exact Nat.lt_of_lt_of_le this (by unfold B; exact Nat.pow_le_pow_right (by decide) (by omega))
      have W3 := W2.wr (gzl + G.length) [(Mpir.lshift G gzb).2] (limb_singleton hcB) (by simp [hn]) (by simp; omega)
      have W4 := W3.setSize ((gsize : Nat) : Int)
      simp only [St.store, ptr_add_add]
      refine ⟨W4.ok, W4.bwf, ?_, fun x hx => (W4.frame x hx).trans (Gr.other x hx)⟩
      rw [W4.alloc]; simp; omega

/-- the top limb mpn_lshift stores is at least `(top << cnt) mod B` -/
theorem lshift_last (c x : Nat) : ∀ (xs : List Nat) (lo : Nat),
    ∃ m, (Mpir.lshiftGo c (xs ++ [x]) lo).1.getLast? = some m ∧ (x <<< c) % B ≤ m := by
  intro xs
  induction xs with
  | nil => intro lo; exact ⟨(x <<< c) % B ||| lo, by simp [Mpir.lshiftGo], Nat.left_le_or⟩
  | cons y ys ih =>
    intro lo
    obtain ⟨m, hm, hle⟩ := ih (y >>> (64 - c))
    refine ⟨m, ?_, hle⟩
    simp only [List.cons_append, Mpir.lshiftGo]
    have hne : (Mpir.lshiftGo c (ys ++ [x]) (y >>> (64 - c))).1 ≠ [] := by
      intro h; rw [h] at hm; simp at hm
    rw [List.getLast?_cons_of_ne_nil hne] <;> exact hm

/-- the common ending: everything written, `SIZ (g) = gsize` -/
theorem Wrote.fin_full {s s1 s2 : St} {g gsize : Nat} {R : List Nat} (Gr : Grown s s1 g gsize) (hg : OWF (s.h g))
    (W : Wrote s1 s2 g R) (hlen : R.length = gsize) (hlast : R.getLast? ≠ some 0) :
    Refines s (s2.setSize g (gsize : Nat)) g ⟨max (s.h g).buf.alloc gsize, (gsize : Nat), R⟩ ∧
    Mpz.WF ⟨max (s.h g).buf.alloc gsize, (gsize : Nat), R⟩ := by
  have ha : 1 ≤ (s.h g).buf.alloc := by have := hg.2.1; simpa [view] using this
  have hal : (s1.h g).buf.alloc = max (s.h g).buf.alloc gsize := by
    rw [Gr.alloc, grow_alloc_max _ _ (by simpa [view] using ha)]; simp [view]
  have R1 := (W.setSize ((gsize : Nat) : Int)).refines ((gsize : Nat) : Int) (by simp) (by simp [hlen])
  simp only [Int.natAbs_natCast, ← hlen, List.take_length] at R1
  rw [hlen, hal] at R1
  refine ⟨Refines.of_grown Gr R1, Nat.le_trans ha (Nat.le_max_left _ _), ?_, ?_, W.limbs, hlast⟩
  · simp only [Int.natAbs_natCast]; exact Nat.le_max_right _ _
  · simp only [Int.natAbs_natCast]; exact hlen

theorem shl_top_ne_zero (x c : Nat) (hx : x ≠ 0) (hz : x >>> (64 - c) = 0) (hc : c ≤ 63) : (x <<< c) % B ≠ 0 := by
  rw [Nat.shiftRight_eq_div_pow] at hz
  have hlt : x < 2 ^ (64 - c) := by
    rcases (Nat.div_eq_zero_iff).mp hz with h | h
    · exact absurd h (by positivity)
    · exact h
  have hB : x * 2 ^ c < B := by
    have : (2 : Nat) ^ (64 - c) * 2 ^ c = B := by rw [← Nat.pow_add]; unfold B; congr 1; omega
    rw [← this]; exact Nat.mul_lt_mul_of_pos_right hlt (by positivity)
  rw [Nat.shiftLeft_eq, Nat.mod_eq_of_lt hB]
  exact Nat.mul_ne_zero hx (by positivity)

theorem B_pow (k : Nat) : B ^ k = 2 ^ (64 * k) := by unfold B; rw [← Nat.pow_mul]

/-- gcd.c:133-154 in full: the limbs written, well formed, and their value `G << (64 * g_zero_limbs + g_zero_bits)` -/
theorem gcdTail_refines (s : St) (g : Nat) (G : List Nat) (gzl gzb : Nat) (hs : s.ok = true) (hg : OWF (s.h g))
    (hG : Limbs G) (hN : G.getLast? ≠ some 0) (hne : G ≠ []) (hb : gzb ≤ 63) :
    ∃ R, Refines s (gcdTail 0 false s g G gzl gzb) g ⟨max (s.h g).buf.alloc R.length, (R.length : Nat), R⟩ ∧
      Mpz.WF ⟨max (s.h g).buf.alloc R.length, (R.length : Nat), R⟩ ∧ val R = val G * 2 ^ (64 * gzl + gzb) := by
  unfold gcdTail
  simp only [Nat.sub_zero, Bool.false_or]
  by_cases h0 : gzb = 0
  · subst h0
    simp only [bne_self_eq_false, Bool.false_eq_true, if_false]
    have Gr := MPZ_REALLOC_grown s g (G.length + gzl) hg
    have hok1 : (MPZ_REALLOC s g (G.length + gzl)).ok = true := by rw [Gr.ok]; exact hs
    have hb1 := Gr.bwf g hg.1
    have hroom := Gr.room
    generalize MPZ_REALLOC s g (G.length + gzl) = s1 at *
    have W0 := Wrote.refl s1 g 0 hok1 hb1 (Nat.zero_le _)
    have W1 := W0.wr 0 (List.replicate gzl 0) (Limbs_rep0 _) (by simp) (by simp; omega)
    simp only [List.take_zero, add_zero_ptr, List.nil_append, List.drop_nil, List.append_nil] at W1
    have W2 := W1.append G hG (by simp; omega)
    simp only [List.length_replicate] at W2
    simp only [MPN_ZERO, wr_PTR]
    have hlen : (List.replicate gzl 0 ++ G).length = G.length + gzl := by simp; omega
    obtain ⟨F1, F2⟩ := Wrote.fin_full Gr hg W2 hlen (by rw [List.getLast?_append_of_ne_nil _ hne]; exact hN)
    refine ⟨_, by rw [hlen]; exact F1, by rw [hlen]; exact F2, ?_⟩
    rw [val_append, Mpz.val_replicate_zero, List.length_replicate, B_pow, Nat.add_zero, Nat.zero_add, Nat.mul_comm]
  · have hb0 : (gzb != 0) = true := by simpa using h0
    simp only [hb0, if_true]
    obtain ⟨hv, hclt, hl, hn⟩ := Mpz.K.lshift_val G gzb hG (by omega) hb
    have hc := lshift_carry G gzb hne
    obtain ⟨xs, x, hGx⟩ : ∃ xs x, G = xs ++ [x] := ⟨G.dropLast, G.getLast hne, (List.dropLast_append_getLast hne).symm⟩
    have hx0 : x ≠ 0 := by
      intro h; apply hN; rw [hGx, h]; simp
    have htop : Mpz.topLimb G = x := by rw [hGx]; simp [Mpz.topLimb]
    generalize hgs : G.length + gzl + (if (Mpz.topLimb G >>> (64 - gzb) != 0) = true then 1 else 0) = gsize
    have Gr := MPZ_REALLOC_grown s g gsize hg
    have hok1 : (MPZ_REALLOC s g gsize).ok = true := by rw [Gr.ok]; exact hs
    have hb1 := Gr.bwf g hg.1
    have hroom := Gr.room
    generalize MPZ_REALLOC s g gsize = s1 at *
    have W0 := Wrote.refl s1 g 0 hok1 hb1 (Nat.zero_le _)
    have W1 := W0.wr 0 (List.replicate gzl 0) (Limbs_rep0 _) (by simp) (by simp; split at hgs <;> omega)
    simp only [List.take_zero, add_zero_ptr, List.nil_append, List.drop_nil, List.append_nil] at W1
    have W2 := W1.append (Mpir.lshift G gzb).1 hl (by simp [hn]; split at hgs <;> omega)
    simp only [List.length_replicate] at W2
    simp only [MPN_ZERO, wr_PTR]
    have hne2 : (Mpir.lshift G gzb).1 ≠ [] := by
      intro h; rw [h] at hn; simp at hn; exact hne (List.eq_nil_of_length_eq_zero hn.symm)
    by_cases hcy : (Mpir.lshift G gzb).2 = 0
    · have : ((Mpir.lshift G gzb).2 != 0) = false := by simpa using hcy
      simp only [this, Bool.false_eq_true, if_false]
      have hz : (Mpz.topLimb G >>> (64 - gzb) != 0) = false := by rw [← hc]; exact this
      rw [hz] at hgs
      simp only [Bool.false_eq_true, if_false, Nat.add_zero] at hgs
      have hlen : (List.replicate gzl 0 ++ (Mpir.lshift G gzb).1).length = gsize := by simp [hn]; omega
      have hlast : (List.replicate gzl 0 ++ (Mpir.lshift G gzb).1).getLast? ≠ some 0 := by
        rw [List.getLast?_append_of_ne_nil _ hne2]
        obtain ⟨m, hm, hle⟩ := lshift_last gzb x xs 0
        have : (Mpir.lshift G gzb).1.getLast? = some m := by rw [hGx]; exact hm
        rw [this]
        have hx' : x >>> (64 - gzb) = 0 := by rw [← htop, ← hc]; exact hcy
        have := shl_top_ne_zero x gzb hx0 hx' hb
        intro h; injection h with h; omega
      obtain ⟨F1, F2⟩ := Wrote.fin_full Gr hg W2 hlen hlast
      refine ⟨_, by rw [hlen]; exact F1, by rw [hlen]; exact F2, ?_⟩
      rw [hcy, Nat.mul_zero, Nat.add_zero] at hv
      rw [val_append, Mpz.val_replicate_zero, List.length_replicate, B_pow, hv, Nat.pow_add]
      ring
    · have hcb : ((Mpir.lshift G gzb).2 != 0) = true := by simpa using hcy
      simp only [hcb, if_true]
      have hcy' : (Mpz.topLimb G >>> (64 - gzb) != 0) = true := by rw [← hc]; exact hcb
      rw [hcy'] at hgs
      simp only [if_true] at hgs
      have hcB : (Mpir.lshift G gzb).2 < B :=
        Nat.lt_of_lt_of_le hclt (by unfold B; exact Nat.pow_le_pow_right (by decide) (by omega))
      have W3 := W2.append [(Mpir.lshift G gzb).2] (limb_singleton hcB) (by simp [hn]; omega)
      simp only [List.length_append, List.length_replicate, hn] at W3
      simp only [St.store, ptr_add_add]
      have hlen : (List.replicate gzl 0 ++ (Mpir.lshift G gzb).1 ++ [(Mpir.lshift G gzb).2]).length = gsize := by
        simp [hn]; omega
      obtain ⟨F1, F2⟩ := Wrote.fin_full Gr hg W3 hlen (by simp; exact hcy)
      refine ⟨_, by rw [hlen]; exact F1, by rw [hlen]; exact F2, ?_⟩
      rw [List.append_assoc, val_append, val_append, Mpz.val_replicate_zero, List.length_replicate, B_pow, hn]
      have : val [(Mpir.lshift G gzb).2] = (Mpir.lshift G gzb).2 := by simp [val]
      rw [this, hv, Nat.pow_add]
      ring

/-! ## mpz/gcd.c: the TMP side and the general arm composed -/

theorem val_take_top_zero (r : List Nat) (h : Mpz.topLimb r = 0) : val (r.take (r.length - 1)) = val r := by
  by_cases hne : r = []
  · subst hne; rfl
  · have e := List.dropLast_append_getLast hne
    have hl : r.getLast hne = 0 := by
      have : Mpz.topLimb r = r.getLast hne := by
        unfold Mpz.topLimb; rw [List.getLastD_eq_getLast?, List.getLast?_eq_some_getLast hne]; rfl
      rw [← this]; exact h
    rw [← List.dropLast_eq_take]
    conv_rhs => rw [← e, val_append, hl]
    simp [val]

theorem odd_shift (x vx zb : Nat) (hzb : zb ≤ 63) (hodd : (x / 2 ^ zb) % 2 = 1) (hx : x = 2 ^ zb * (x / 2 ^ zb)) :
    (x + B * vx) / 2 ^ zb % 2 = 1 ∧ x + B * vx = (x + B * vx) / 2 ^ zb * 2 ^ zb := by
  generalize x / 2 ^ zb = o at *
  have hB : B = 2 ^ zb * (2 * 2 ^ (63 - zb)) := by
    unfold B; rw [← pow_succ', ← Nat.pow_add]; congr 1; omega
  have e : x + B * vx = 2 ^ zb * (o + 2 * (2 ^ (63 - zb) * vx)) := by rw [hx, hB]; ring
  have hd : (x + B * vx) / 2 ^ zb = o + 2 * (2 ^ (63 - zb) * vx) := by
    rw [e]; exact Nat.mul_div_cancel_left _ (by positivity)
  rw [hd]
  exact ⟨by omega, by rw [e]; ring⟩

theorem new_write_full (r : List Nat) (n : Nat) (h : r.length = n) : (Buf.new n).write 0 r = (⟨n, r⟩, true) := by
  subst h; simp [Buf.write, Buf.new]

/-- gcd.c:82-95: what the stripped copy holds: an odd number `u'` with `U = u' << (64 * zero_limbs + zero_bits)` -/
theorem stripLow_spec (U : List Nat) (hU : Limbs U) (hN : Norm U) (hne : U ≠ []) :
    ∃ zl zb blk n, stripLow U = (zl, zb, blk, n, true) ∧ zb ≤ 63 ∧ blk.alloc ≤ U.length ∧ n ≤ blk.alloc ∧
      val U = val (blk.read 0 n).1 * 2 ^ (64 * zl + zb) ∧ val (blk.read 0 n).1 % 2 = 1 ∧
      Limbs (blk.read 0 n).1 ∧ (blk.read 0 n).1.length ≤ n := by
  obtain ⟨hval, hzl, hhead⟩ := Powm.strip_zero_limbs U
  have hpos : 0 < val U := Mpz.Norm.pos hN hne
  unfold stripLow
  simp only []
  generalize (U.takeWhile (· == 0)).length = zl at *
  have hTl : Limbs (U.drop zl) := Limbs_drop hU _
  obtain ⟨x, xs, hT⟩ : ∃ x xs, U.drop zl = x :: xs := by
    cases hT : U.drop zl with
    | nil => rw [hT] at hval; simp [val] at hval; omega
    | cons x xs => exact ⟨x, xs, rfl⟩
  have hx0 : 0 < x := Nat.pos_of_ne_zero (hhead x xs hT)
  have hxB : x < B := hTl x (by rw [hT]; simp)
  have hget : U.getD zl 0 = x := by
    have : U[zl]? = some x := by
      have := List.getElem?_drop (xs := U) (i := zl) (j := 0)
      rw [hT] at this; simpa using this.symm
    simp [List.getD_eq_getElem?_getD, this]
  have hzb : Gcd.ctz x < 64 := Gcd.ctz_lt_of_lt_pow x 64 hx0 hxB
  obtain ⟨hx2, hodd⟩ := Gcd.ctz_spec x hx0
  have hvT : val (U.drop zl) = x + B * val xs := by rw [hT]; rfl
  have hlen : (U.drop zl).length = U.length - zl := List.length_drop
  rw [hget]
  generalize Gcd.ctz x = zb at *
  obtain ⟨ho, hmul⟩ := odd_shift x (val xs) zb (by omega) hodd hx2
  by_cases h0 : zb = 0
  · subst h0
    simp only [bne_self_eq_false, Bool.false_eq_true, if_false]
    rw [new_write_full _ _ hlen]
    refine ⟨zl, 0, _, _, rfl, by omega, by simp, by simp, ?_, ?_, ?_, ?_⟩
    · simp only [Buf.read, List.drop_zero, ← hlen, List.take_length]
      rw [hval, B_pow, Nat.add_zero]; ring
    · simp only [Buf.read, List.drop_zero, ← hlen, List.take_length]
      rw [hvT]; simpa using ho
    · simp only [Buf.read, List.drop_zero]; exact Limbs_take hTl _
    · simp only [Buf.read, List.drop_zero, List.length_take]; omega
  · have hb0 : (zb != 0) = true := by simpa using h0
    simp only [hb0, if_true]
    obtain ⟨hrv, hrl, hrn⟩ := Powm.rshift_val (U.drop zl) zb hTl (by omega) (by omega)
    generalize (Mpir.rshift (U.drop zl) zb).1 = r at *
    rw [new_write_full r _ (hrn.trans hlen)]
    refine ⟨zl, zb, _, _, rfl, by omega, by simp, by simp, ?_, ?_, ?_, ?_⟩
    rotate_left 2
    · simp only [Buf.read, List.drop_zero]; exact Limbs_take hrl _
    · simp only [Buf.read, List.drop_zero, List.length_take]; omega
    all_goals
      simp only [Buf.read, List.drop_zero]
      have hv' : val (r.take (U.length - zl - if (Mpz.topLimb r == 0) = true then 1 else 0)) = val r := by
        by_cases ht : Mpz.topLimb r = 0
        · have : (Mpz.topLimb r == 0) = true := by simpa using ht
          rw [this, if_pos rfl, ← hlen, ← hrn]; exact val_take_top_zero r ht
        · have : (Mpz.topLimb r == 0) = false := by simpa using ht
          rw [this]; simp only [Bool.false_eq_true, if_false, Nat.sub_zero]
          rw [← hlen, ← hrn, List.take_length]
      rw [hv', hrv, hvT]
    · rw [hval, hvT, B_pow, Nat.pow_add]
      conv_lhs => rw [hmul]
      ring
    · exact ho


theorem natLimbs_len_le' (n k : Nat) (h : n < B ^ k) : (natLimbs n).length ≤ k := by
  obtain ⟨hv, hl, hN⟩ := Bits.natLimbs_spec n
  by_contra hc
  have hne : natLimbs n ≠ [] := by intro e; rw [e] at hc; simp at hc
  have h1 := Mpz.Norm.lower ⟨hl, hN⟩ hne
  have h2 : B ^ k ≤ B ^ ((natLimbs n).length - 1) := Nat.pow_le_pow_right B_pos (by omega)
  omega

theorem gcd_odd_shift_le (a b x y : Nat) (hx : x % 2 = 1) (hab : a ≤ b) :
    Nat.gcd (x * 2 ^ a) (y * 2 ^ b) = Nat.gcd x y * 2 ^ a := by
  have e : y * 2 ^ b = (y * 2 ^ (b - a)) * 2 ^ a := by rw [Nat.mul_assoc, ← Nat.pow_add]; congr 2; omega
  rw [e, Nat.gcd_mul_right]
  congr 1
  have hc2 : Nat.Coprime 2 x := by
    unfold Nat.Coprime
    have h1 := Nat.gcd_dvd_left 2 x
    have h2 := Nat.gcd_dvd_right 2 x
    have h3 : Nat.gcd 2 x ≤ 2 := Nat.le_of_dvd (by decide) h1
    have h4 : 0 < Nat.gcd 2 x := Nat.gcd_pos_of_pos_left _ (by decide)
    rcases Nat.lt_or_ge (Nat.gcd 2 x) 2 with h | h
    · omega
    · have h5 : Nat.gcd 2 x = 2 := by omega
      rw [h5] at h2; omega
  have hc : Nat.Coprime (2 ^ (b - a)) x := Nat.Coprime.pow_left _ hc2
  exact Nat.Coprime.gcd_mul_right_cancel_right y hc

theorem gcd_odd_shift (a b x y : Nat) (hx : x % 2 = 1) (hy : y % 2 = 1) :
    Nat.gcd (x * 2 ^ a) (y * 2 ^ b) = Nat.gcd x y * 2 ^ (min a b) := by
  rcases Nat.le_total a b with h | h
  · rw [Nat.min_eq_left h]; exact gcd_odd_shift_le a b x y hx h
  · rw [Nat.min_eq_right h, Nat.gcd_comm, Nat.gcd_comm x y]; exact gcd_odd_shift_le b a y x hy h


/-- gcd.c:79-155, the general arm composed: TMP copies, mpn_gcd (value = gcd, by contract), the re-shift into g -/
theorem gcdGeneral_refines (s : St) (g u v : Nat) (hs : s.ok = true) (hg : OWF (s.h g)) (hu : OWF (s.h u)) (hv : OWF (s.h v))
    (hu2 : 2 ≤ (s.h u).size.natAbs) (hv2 : 2 ≤ (s.h v).size.natAbs) :
    ∃ R, Refines s (mpz_gcd s g u v) g ⟨max (s.h g).buf.alloc R.length, (R.length : Nat), R⟩ ∧
      Mpz.WF ⟨max (s.h g).buf.alloc R.length, (R.length : Nat), R⟩ ∧
      val R = Nat.gcd (val (view (s.h u)).d) (val (view (s.h v)).d) := by
  have hU : s.rd (s.PTR u) (s.h u).size.natAbs = (view (s.h u)).d := by rw [rd_PTR]; rfl
  have hV : s.rd (s.PTR v) (s.h v).size.natAbs = (view (s.h v)).d := by rw [rd_PTR]; rfl
  have hUok : s.rdOk (s.PTR u) (s.h u).size.natAbs = true := by rw [rdOk_PTR]; simpa using view_fit hu
  have hVok : s.rdOk (s.PTR v) (s.h v).size.natAbs = true := by rw [rdOk_PTR]; simpa using view_fit hv
  have hne : ∀ {x : Nat}, OWF (s.h x) → 2 ≤ (s.h x).size.natAbs → (view (s.h x)).d ≠ [] := by
    intro x hx h2 e; have := view_d_length hx; rw [e] at this; simp at this; omega
  obtain ⟨uzl, uzb, ub, un, eU, hub, hua, hun, hUv, hUo, hUl, hUn⟩ :=
    stripLow_spec _ (view_limbs hu) ⟨view_limbs hu, hu.2.2.2.2.2⟩ (hne hu hu2)
  obtain ⟨vzl, vzb, vb, vn, eV, hvb, hva, hvn, hVv, hVo, hVl, hVn⟩ :=
    stripLow_spec _ (view_limbs hv) ⟨view_limbs hv, hv.2.2.2.2.2⟩ (hne hv hv2)
  have c1 : ((s.h u).size.natAbs == 0) = false := by simp; omega
  have c2 : ((s.h v).size.natAbs == 0) = false := by simp; omega
  have c3 : ((s.h u).size.natAbs == 1) = false := by simp; omega
  have c4 : ((s.h v).size.natAbs == 1) = false := by simp; omega
  unfold mpz_gcd gcd_
  simp only [St.ABSIZ, c1, c2, c3, c4, Bool.false_eq_true, if_false]
  unfold gcdGeneral
  simp only [hU, hV, hUok, hVok, eU, eV, Bool.and_self, chk_true]
  generalize hgz : (if uzl > vzl then (vzl, vzb) else if uzl < vzl then (uzl, uzb) else (uzl, min uzb vzb)) = p
  have hp : p.2 ≤ 63 ∧ 64 * p.1 + p.2 = min (64 * uzl + uzb) (64 * vzl + vzb) := by
    rw [← hgz]; split_ifs <;> simp only [] <;> omega
  obtain ⟨gzl, gzb⟩ := p
  simp only [] at hp ⊢
  generalize hu' : val (ub.read 0 un).1 = u' at *
  generalize hv' : val (vb.read 0 vn).1 = v' at *
  obtain ⟨gv, gl, gN⟩ := Bits.natLimbs_spec (Nat.gcd u' v')
  have hv0 : 0 < v' := by omega
  have hgpos : 0 < Nat.gcd u' v' := Nat.gcd_pos_of_pos_right _ hv0
  have gne : natLimbs (Nat.gcd u' v') ≠ [] := by
    intro e; rw [e] at gv; simp [val] at gv; omega
  have hfit : (natLimbs (Nat.gcd u' v')).length ≤ vb.alloc := by
    apply natLimbs_len_le'
    have h1 : Nat.gcd u' v' ≤ v' := Nat.gcd_le_right _ hv0
    have h2 : v' < B ^ (vb.read 0 vn).1.length := by rw [← hv']; exact val_lt _ hVl
    have h3 : B ^ (vb.read 0 vn).1.length ≤ B ^ vb.alloc := Nat.pow_le_pow_right B_pos (by omega)
    omega
  simp only [hfit, decide_true, chk_true]
  obtain ⟨R, r1, r2, r3⟩ := gcdTail_refines s g (natLimbs (Nat.gcd u' v')) gzl gzb hs hg gl gN gne hp.1
  refine ⟨R, r1, r2, ?_⟩
  rw [r3, gv, hp.2, ← gcd_odd_shift _ _ _ _ hUo hVo, ← hUv, ← hVv]

/-! ## mpz/lcm.c, the general arm: the temporary g is never reallocated; mpz/divexact.c on it -/

/-- the block of `x` is still the same block (same generation, same length), or it was replaced by a longer one -/
def GenOk (s s' : St) (x : Nat) : Prop :=
  ((s'.h x).gen = (s.h x).gen ∧ (s'.h x).buf.alloc = (s.h x).buf.alloc) ∨ (s.h x).buf.alloc < (s'.h x).buf.alloc

theorem MPZ_REALLOC_genOk (s : St) (w n x : Nat) : GenOk s (MPZ_REALLOC s w n) x := by
  unfold MPZ_REALLOC GenOk St.ALLOC
  split
  · rename_i h
    by_cases hx : x = w
    · subst hx; right; simp [_mpz_realloc]; omega
    · left; simp [_mpz_realloc, upd, hx]
  · left; exact ⟨rfl, rfl⟩

theorem gcdTail_genOk (s : St) (g : Nat) (G : List Nat) (gzl gzb x : Nat) : GenOk s (gcdTail 0 false s g G gzl gzb) x := by
  have key : ∀ n, GenOk s (MPZ_REALLOC s g n) x := fun n => MPZ_REALLOC_genOk s g n x
  unfold gcdTail
  simp only [Nat.sub_zero, Bool.false_or, MPN_ZERO, St.store]
  split
  · split
    · have := key (G.length + gzl + if (Mpz.topLimb G >>> (64 - gzb) != 0) = true then 1 else 0)
      unfold GenOk at this ⊢; simpa using this
    · have := key (G.length + gzl + if (Mpz.topLimb G >>> (64 - gzb) != 0) = true then 1 else 0)
      unfold GenOk at this ⊢; simpa using this
  · have := key (G.length + gzl)
    unfold GenOk at this ⊢; simpa using this

/-- in the general arm mpz_gcd is `gcdTail` on a state with the same heap -/
theorem gcd_general_shape (s : St) (g u v : Nat) (hu2 : 2 ≤ (s.h u).size.natAbs) (hv2 : 2 ≤ (s.h v).size.natAbs) :
    ∃ c G gzl gzb, mpz_gcd s g u v = gcdTail 0 false (s.chk c) g G gzl gzb := by
  have c1 : ((s.h u).size.natAbs == 0) = false := by simp; omega
  have c2 : ((s.h v).size.natAbs == 0) = false := by simp; omega
  have c3 : ((s.h u).size.natAbs == 1) = false := by simp; omega
  have c4 : ((s.h v).size.natAbs == 1) = false := by simp; omega
  unfold mpz_gcd gcd_
  simp only [St.ABSIZ, c1, c2, c3, c4, Bool.false_eq_true, if_false]
  unfold gcdGeneral
  simp only []
  generalize stripLow (s.rd (s.PTR u) (s.h u).size.natAbs) = a
  generalize stripLow (s.rd (s.PTR v) (s.h v).size.natAbs) = b
  obtain ⟨a1, a2, a3, a4, a5⟩ := a
  obtain ⟨b1, b2, b3, b4, b5⟩ := b
  simp only []
  generalize (if a1 > b1 then (b1, b2) else if a1 < b1 then (a1, a2) else (a1, min a2 b2)) = p
  obtain ⟨p1, p2⟩ := p
  simp only []
  have chk3 : ∀ (s : St) (a b c : Bool), ((s.chk a).chk b).chk c = s.chk (a && b && c) := by
    intro s a b c; cases s; simp [St.chk, Bool.and_assoc]
  rw [chk3]
  exact ⟨_, _, _, _, rfl⟩

theorem mpz_gcd_genOk (s : St) (g u v x : Nat) (hu2 : 2 ≤ (s.h u).size.natAbs) (hv2 : 2 ≤ (s.h v).size.natAbs) :
    GenOk s (mpz_gcd s g u v) x := by
  obtain ⟨c, G, gzl, gzb, e⟩ := gcd_general_shape s g u v hu2 hv2
  rw [e]
  exact gcdTail_genOk (s.chk c) g G gzl gzb x


theorem toInt_natAbs' (m : Mpz.Mpz) : (Mpz.toInt m).natAbs = val m.d := by
  unfold Mpz.toInt; split <;> simp

theorem MPZ_REALLOC_noop' (s : St) (w n : Nat) (h : n ≤ (s.h w).buf.alloc) : MPZ_REALLOC s w n = s := by
  unfold MPZ_REALLOC St.ALLOC; rw [if_neg (by omega)]

/-- mpz_divexact (q, num, q) on a quotient variable that must not be reallocated (mpz_lcm's temporary g) -/
theorem divexact_tmp (s : St) (q num : Nat) (hs : s.ok = true) (hq : OWF (s.h q)) (hn : OWF (s.h num))
    (hle : (s.h q).size.natAbs ≤ (s.h num).size.natAbs) (hd1 : 1 ≤ (s.h q).size.natAbs)
    (hfit : (s.h num).size.natAbs + 1 - (s.h q).size.natAbs ≤ (s.h q).buf.alloc) :
    (divexact s q num q).ok = true ∧ OWF ((divexact s q num q).h q) ∧ (∀ x, x ≠ q → (divexact s q num q).h x = s.h x) ∧
    ((divexact s q num q).h q).gen = (s.h q).gen ∧ ((divexact s q num q).h q).buf.alloc = (s.h q).buf.alloc ∧
    (Mpz.toInt (view ((divexact s q num q).h q))).natAbs = val (view (s.h num)).d / val (view (s.h q)).d := by
  have hN : s.rd (s.PTR num) (s.h num).size.natAbs = (view (s.h num)).d := by rw [rd_PTR]; rfl
  have hD : s.rd (s.PTR q) (s.h q).size.natAbs = (view (s.h q)).d := by rw [rd_PTR]; rfl
  have hNok : s.rdOk (s.PTR num) (s.h num).size.natAbs = true := by rw [rdOk_PTR]; simpa using view_fit hn
  have hDok : s.rdOk (s.PTR q) (s.h q).size.natAbs = true := by rw [rdOk_PTR]; simpa using view_fit hq
  unfold divexact
  simp only [St.ABSIZ]
  have hlt : ¬ (s.h num).size.natAbs < (s.h q).size.natAbs := by omega
  rw [MPZ_REALLOC_noop' s q _ hfit]
  simp only [hlt, ↓reduceIte]
  simp only [beq_self_eq_true, Bool.or_true, if_true, hN, hD, hNok, hDok, Bool.and_self, chk_true]
  generalize hQ : toLimbs ((s.h num).size.natAbs - (s.h q).size.natAbs + 1) (val (view (s.h num)).d / val (view (s.h q)).d) = Q
  have hQl : Q.length = (s.h num).size.natAbs - (s.h q).size.natAbs + 1 := by rw [← hQ]; exact AliasMem.toLimbs_length _ _
  have hQL : Limbs Q := by rw [← hQ]; exact AliasMem.Limbs_toLimbs _ _
  rw [new_write_full Q _ hQl]
  simp only [chk_true, Buf.read, List.drop_zero, ← hQl, List.take_length, take_normalize_length]
  generalize Mpz.diffSign (s.SIZ num) (s.SIZ q) = neg
  have hNl := Mpz.Norm_normalize hQL
  have hnle := Mpz.normalize_length_le Q
  have hqa : Q.length ≤ (s.h q).buf.alloc := by rw [hQl]; omega
  have hs2 : (s.setSize q (sgn neg (normalize Q).length)).ok = true := by simpa using hs
  have hb2 : BWF ((s.setSize q (sgn neg (normalize Q).length)).h q).buf := by simpa using hq.1
  have W := Wrote.fresh (s.setSize q (sgn neg (normalize Q).length)) q (normalize Q) true hs2 rfl hb2 hNl.1
    (by simp only [setSize_buf]; omega)
  simp only [chk_true] at W
  have R := W.refines (sgn neg (normalize Q).length) (by simp) (by rw [natAbs_sgn])
  rw [natAbs_sgn, List.take_length] at R
  have ha : 1 ≤ (s.h q).buf.alloc := by have := hq.2.1; simpa [view] using this
  refine ⟨W.ok, ⟨W.bwf, ?_⟩, fun x hx => (W.frame x hx).trans (setSize_other _ _ _ hx), ?_, ?_, ?_⟩
  · rw [R.view]
    exact ⟨by simpa using ha, by rw [natAbs_sgn]; simp only [setSize_buf]; omega, by rw [natAbs_sgn], hNl.1, hNl.2⟩
  · rw [W.gen]; simp
  · rw [W.alloc]; simp
  · rw [R.view, toInt_natAbs', Mpz.val_normalize, ← hQ, AliasMem.val_toLimbs]
    apply Nat.mod_eq_of_lt
    have hNlt : val (view (s.h num)).d < B ^ (s.h num).size.natAbs := by
      have := val_lt _ (view_limbs hn); rwa [view_d_length hn] at this
    have hqne : (view (s.h q)).d ≠ [] := by
      intro e; have := view_d_length hq; rw [e] at this; simp at this; omega
    have hDge : B ^ ((s.h q).size.natAbs - 1) ≤ val (view (s.h q)).d := by
      have := Mpz.Norm.lower ⟨view_limbs hq, hq.2.2.2.2.2⟩ hqne; rwa [view_d_length hq] at this
    apply Nat.div_lt_of_lt_mul
    calc val (view (s.h num)).d < B ^ (s.h num).size.natAbs := hNlt
      _ = B ^ ((s.h q).size.natAbs - 1) * B ^ ((s.h num).size.natAbs - (s.h q).size.natAbs + 1) := by
          rw [← Nat.pow_add]; congr 1; omega
      _ ≤ val (view (s.h q)).d * B ^ ((s.h num).size.natAbs - (s.h q).size.natAbs + 1) := Nat.mul_le_mul_right _ hDge


end Mpir.AllocSafe5
