/- Helper lemmas for the size-aware models of Mpir/Model/AllocSafeMpz5.lean (mpz/import.c, gcd.c, lcm.c). -/
import MpirProofs.Lemmas.AllocSafeSetD
import MpirProofs.Lemmas.AllocSafeMpqInv
import MpirProofs.Lemmas.KernelsMem
import Mpir.Model.AllocSafeMpz5
namespace Mpir.AllocSafe5
open Mpir Mpir.AllocSafe
open Mpir.Mpz (sgn Norm natAbs_sgn)

/-! ## mpz/import.c: the byte loop stores one limb per 64 accumulated bits -/

/-- the loop invariant of import.c:119-120 (`lbits < GMP_NUMB_BITS`), limbs are limbs -/
def AccInv (a : Acc) : Prop := a.lbits < 64 ∧ a.limb < B ∧ Limbs a.out

/-- bits accumulated so far -/
def Acc.bits (a : Acc) : Nat := 64 * a.out.length + a.lbits

theorem accumulate_inv (a : Acc) (byte N : Nat) (h : AccInv a) (hb : byte < B) (hN : N ≤ 64) :
    AccInv (accumulate a byte N) ∧ (accumulate a byte N).bits = a.bits + N := by
  obtain ⟨h1, h2, h3⟩ := h
  unfold accumulate
  simp only []
  split
  · rename_i hge
    refine ⟨⟨by simp only []; omega, ?_, ?_⟩, ?_⟩
    · exact Nat.lt_of_le_of_lt (Nat.shiftRight_le _ _) hb
    · exact Limbs_append.mpr ⟨h3, limb_singleton (Nat.mod_lt _ B_pos)⟩
    · simp only [Acc.bits, List.length_append, List.length_singleton]; omega
  · rename_i hlt
    refine ⟨⟨by simp only []; omega, Nat.mod_lt _ B_pos, h3⟩, ?_⟩
    simp only [Acc.bits]; omega

theorem byteAt_lt (data : List Nat) (dp : Int) : byteAt data dp < B := by
  have : byteAt data dp < 256 := by
    unfold byteAt; split
    · exact Nat.mod_lt _ (by decide)
    · decide
  unfold B; omega

theorem wordBytes_inv (data : List Nat) (endian : Int) : ∀ (j : Nat) (st : LoopSt), AccInv st.1 →
    AccInv (wordBytes data endian j st).1 ∧ (wordBytes data endian j st).1.bits = st.1.bits + 8 * j := by
  intro j
  induction j with
  | zero => intro st h; exact ⟨h, rfl⟩
  | succ j ih =>
    intro st h
    obtain ⟨i1, e1⟩ := accumulate_inv st.1 (byteAt data st.2.1) 8 h (byteAt_lt _ _) (by decide)
    obtain ⟨i2, e2⟩ := ih (accumulate st.1 (byteAt data st.2.1) 8, st.2.1 - endian, st.2.2 && inData data st.2.1) i1
    simp only [wordBytes]
    refine ⟨i2, ?_⟩
    rw [e2]; simp only []; rw [e1]; omega

theorem oneWord_inv (data : List Nat) (endian : Int) (wbytes wbits : Nat) (woffset : Int) (st : LoopSt) (h : AccInv st.1)
    (hw : wbits < 8) :
    AccInv (oneWord data endian wbytes wbits woffset st).1 ∧
    (oneWord data endian wbytes wbits woffset st).1.bits = st.1.bits + (8 * wbytes + wbits) := by
  obtain ⟨i1, e1⟩ := wordBytes_inv data endian wbytes st h
  unfold oneWord
  simp only []
  by_cases h0 : wbits = 0
  · subst h0
    simp only [bne_self_eq_false, Bool.false_eq_true, if_false]
    exact ⟨i1, by rw [e1]; omega⟩
  · have hb : (wbits != 0) = true := by simpa using h0
    simp only [hb, if_true]
    have hlt : byteAt data (wordBytes data endian wbytes st).2.1 &&& (2 ^ wbits - 1) < B :=
      Nat.lt_of_le_of_lt Nat.and_le_left (byteAt_lt _ _)
    obtain ⟨i2, e2⟩ := accumulate_inv (wordBytes data endian wbytes st).1 _ wbits i1 hlt (by omega)
    exact ⟨i2, by rw [e2, e1]; omega⟩

theorem words_inv (data : List Nat) (endian : Int) (wbytes wbits : Nat) (woffset : Int) (hw : wbits < 8) :
    ∀ (i : Nat) (st : LoopSt), AccInv st.1 →
    AccInv (words data endian wbytes wbits woffset i st).1 ∧
    (words data endian wbytes wbits woffset i st).1.bits = st.1.bits + i * (8 * wbytes + wbits) := by
  intro i
  induction i with
  | zero => intro st h; exact ⟨h, by simp [words]⟩
  | succ i ih =>
    intro st h
    obtain ⟨i1, e1⟩ := oneWord_inv data endian wbytes wbits woffset st h hw
    obtain ⟨i2, e2⟩ := ih _ i1
    simp only [words]
    refine ⟨i2, ?_⟩
    have hm := Nat.add_one_mul i (8 * wbytes + wbits)
    rw [e2, e1]; omega

theorem importGeneric_spec (count : Nat) (order : Int) (size : Nat) (endian : Int) (nail : Nat) (data : List Nat) :
    (importGeneric count order size endian nail data).1.length = (count * (size * 8 - nail) + 63) / 64 ∧
    Limbs (importGeneric count order size endian nail data).1 := by
  unfold importGeneric
  simp only []
  generalize hdp : ((if order ≥ 0 then ((count : Int) - 1) * (size : Int) else 0) + (if endian ≥ 0 then (size : Int) - 1 else 0)) = dp
  generalize hwo : ((if endian ≥ 0 then (((size * 8 - nail + 7) / 8 : Nat) : Int) else -(((size * 8 - nail + 7) / 8 : Nat) : Int))
    + (if order < 0 then (size : Int) else -(size : Int))) = wo
  have h0 : AccInv (⟨0, 0, []⟩ : Acc) := ⟨by decide, B_pos, by intro x hx; cases hx⟩
  obtain ⟨⟨i1, i2, i3⟩, e⟩ := words_inv data endian ((size * 8 - nail) / 8) ((size * 8 - nail) % 8) wo
    (Nat.mod_lt _ (by decide)) count (⟨0, 0, []⟩, dp, true) h0
  rw [Nat.div_add_mod] at e
  simp only [Acc.bits, List.length_nil] at e
  generalize count * (size * 8 - nail) = T at e ⊢
  generalize (words data endian ((size * 8 - nail) / 8) ((size * 8 - nail) % 8) wo count (⟨0, 0, []⟩, dp, true)).1 = a at *
  by_cases hl : a.lbits = 0
  · have : (a.lbits != 0) = false := by simpa using hl
    simp only [this, Bool.false_eq_true, if_false]
    exact ⟨by omega, i3⟩
  · have : (a.lbits != 0) = true := by simpa using hl
    simp only [this, if_true, List.length_append, List.length_singleton]
    exact ⟨by omega, Limbs_append.mpr ⟨i3, limb_singleton i2⟩⟩

theorem leLimb_lt (data : List Nat) (i : Nat) : leLimb data i < B := by
  unfold leLimb B; omega

theorem beLimb_lt (data : List Nat) (i : Nat) : beLimb data i < B := by
  unfold beLimb B; omega

theorem Limbs_map_range (f : Nat → Nat) (n : Nat) (hf : ∀ i, f i < B) : Limbs ((List.range n).map f) := by
  intro x hx
  obtain ⟨i, _, rfl⟩ := List.mem_map.mp hx
  exact hf i

/-! ## mpz/lcm.c, the one-limb arm -/

/-- value-level result of lcm.c:50-63 (label `one`) with the allocation: u * (vl / gcd (u, vl)) -/
def Spec.lcmOne (r u : Mpz.Mpz) (vl : Nat) : Mpz.Mpz :=
  let n := u.size.natAbs
  let p := Mpir.mul_1 u.d (vl / Nat.gcd (val u.d) vl)
  let n' := n + (if p.2 != 0 then 1 else 0)
  ⟨(Mpz.grow r (n + 1)).alloc, (n' : Nat), (p.1 ++ [p.2]).take n'⟩

theorem lcmOne_refines (s : St) (r u v : Nat) (hs : s.ok = true) (hr : OWF (s.h r)) (hu : OWF (s.h u)) (hv : OWF (s.h v))
    (hv1 : 1 ≤ (s.h v).size.natAbs) :
    Refines s (lcmOne 1 s r u v (s.h u).size.natAbs) r
      (Spec.lcmOne (view (s.h r)) (view (s.h u)) ((view (s.h v)).d.headD junk)) := by
  unfold lcmOne Spec.lcmOne
  have G := MPZ_REALLOC_grown s r ((s.h u).size.natAbs + 1) hr
  obtain ⟨ea, oka⟩ := grown_rd G u (s.h u).size.natAbs hu (Nat.le_refl _)
  obtain ⟨ev, okv⟩ := grown_rd G v 1 hv hv1
  have hul := view_d_length hu
  have hvl := view_d_length hv
  rw [List.take_of_length_le (by omega)] at ea
  obtain ⟨x, xs, hd⟩ : ∃ x xs, (view (s.h v)).d = x :: xs := by
    cases h : (view (s.h v)).d with
    | nil => rw [h] at hvl; simp at hvl; omega
    | cons x xs => exact ⟨x, xs, rfl⟩
  have hx : x < B := view_limbs hv x (by rw [hd]; simp)
  rw [hd] at ev
  simp only [List.take_succ_cons, List.take_zero] at ev
  have hm : x / Nat.gcd (val (view (s.h u)).d) x < B := Nat.lt_of_le_of_lt (Nat.div_le_self _ _) hx
  obtain ⟨_, mc, ml, mn⟩ := Mpz.K.mul_1_val (view (s.h u)).d (x / Nat.gcd (val (view (s.h u)).d) x) (view_limbs hu) hm
  have halloc : (Mpz.grow (view (s.h r)) ((s.h u).size.natAbs + 1)).alloc =
    ((MPZ_REALLOC s r ((s.h u).size.natAbs + 1)).h r).buf.alloc := G.alloc.symm
  have e1 : (view (s.h u)).size = (s.h u).size := rfl
  simp only [e1, hd, List.headD_cons]
  rw [halloc]
  refine Refines.of_grown G ?_
  simp only [St.load, add_zero_ptr, mpn_gcd_1, mpn_mul_1, ea, oka, ev, okv, List.headD_cons, chk_true]
  have T := tail_carry (MPZ_REALLOC s r ((s.h u).size.natAbs + 1)) r
    (Mpir.mul_1 (view (s.h u)).d (x / Nat.gcd (val (view (s.h u)).d) x)).1
    (Mpir.mul_1 (view (s.h u)).d (x / Nat.gcd (val (view (s.h u)).d) x)).2
    ((s.h u).size.natAbs + (if (Mpir.mul_1 (view (s.h u)).d (x / Nat.gcd (val (view (s.h u)).d) x)).2 != 0 then 1 else 0)) false true
    (by rw [G.ok]; exact hs) rfl (G.bwf r hr.1) ml mc (by rw [mn, hul]; exact G.room) (by rw [mn, hul]; split <;> omega)
  simp only [mn, hul, chk_true, sgn, Bool.false_eq_true, if_false] at T
  exact T

/-- the list-level result of the `one` arm is a well-formed mpz, and it is the least common multiple -/
theorem Spec.lcmOne_spec (r u : Mpz.Mpz) (vl : Nat) (hr : 1 ≤ r.alloc) (hu : Mpz.WF u) (hu0 : u.size ≠ 0) (hvl : vl < B)
    (hv0 : vl ≠ 0) :
    Mpz.WF (Spec.lcmOne r u vl) ∧ Mpz.toInt (Spec.lcmOne r u vl) = (Nat.lcm (val u.d) vl : Nat) := by
  have hg : 0 < Nat.gcd (val u.d) vl := Nat.gcd_pos_of_pos_right _ (Nat.pos_of_ne_zero hv0)
  have hm0 : vl / Nat.gcd (val u.d) vl ≠ 0 :=
    Nat.pos_iff_ne_zero.mp (Nat.div_pos (Nat.le_of_dvd (Nat.pos_of_ne_zero hv0) (Nat.gcd_dvd_right _ _)) hg)
  have hm : vl / Nat.gcd (val u.d) vl < B := Nat.lt_of_le_of_lt (Nat.div_le_self _ _) hvl
  have key : Spec.lcmOne r u vl = Mpz.mul_ui r ⟨u.alloc, (u.size.natAbs : Nat), u.d⟩ (vl / Nat.gcd (val u.d) vl) := by
    have habs : ¬ |u.size| < 0 := not_lt.mpr (abs_nonneg _)
    simp [Spec.lcmOne, Mpz.mul_ui, Mpz.mul_i, hm0, hu0, habs, Int.natAbs_abs, sgn]
  have hWFa : Mpz.WF ⟨u.alloc, (u.size.natAbs : Nat), u.d⟩ := by
    obtain ⟨a, b, c, d, e⟩ := hu
    exact ⟨a, by simpa [Int.natAbs_abs] using b, by simpa [Int.natAbs_abs] using c, d, e⟩
  obtain ⟨e2, e1⟩ := Mpz.mul_i_spec r ⟨u.alloc, (u.size.natAbs : Nat), u.d⟩ (vl / Nat.gcd (val u.d) vl) false hr hWFa hm
  rw [key]
  unfold Mpz.mul_ui
  refine ⟨e2, ?_⟩
  rw [e1]
  have hl : val u.d * (vl / Nat.gcd (val u.d) vl) = Nat.lcm (val u.d) vl := by
    unfold Nat.lcm; exact (Nat.mul_div_assoc _ (Nat.gcd_dvd_right _ _)).symm
  rw [← hl]
  simp [Mpz.toInt]

/-! ## mpz/gcd.c: the zero and one-limb arms -/

theorem gcdOne_tail (s : St) (g gl : Nat) (c1 c2 : Bool) (hs : s.ok = true) (hg : OWF (s.h g)) (hgl : gl < B)
    (h1 : c1 = true) (h2 : c2 = true) :
    Refines s ((((s.setSize g 1).chk c1).chk c2).store (s.PTR g) 0 gl) g ⟨(s.h g).buf.alloc, 1, [gl]⟩ := by
  subst h1 h2
  simp only [chk_true]
  have ha : 1 ≤ (s.h g).buf.alloc := by have := hg.2.1; simpa [view] using this
  have hb : BWF ((s.setSize g 1).h g).buf := by simpa using hg.1
  have W0 := Wrote.refl (s.setSize g 1) g 1 (by simpa using hs) hb (by simpa using ha)
  have hlen : (((s.setSize g 1).h g).buf.limbs.take 1).length = 1 := by
    rw [List.length_take, hb.1]; simp; omega
  generalize ((s.setSize g 1).h g).buf.limbs.take 1 = R0 at W0 hlen
  obtain ⟨r, hr⟩ := List.length_eq_one_iff.mp hlen
  subst hr
  have W1 := W0.store_set 0 gl (by simp) hgl
  have hp : (s.setSize g 1).PTR g = s.PTR g := by simp [St.PTR]
  rw [hp] at W1
  have R := W1.refines 1 (by simp [St.store]) (by simp)
  simp only [List.set_cons_zero, setSize_buf] at R
  exact ⟨R.ok, by simpa using R.view, R.bwf, fun x hx => (R.frame x hx).trans (setSize_other _ _ _ hx)⟩


/-- gcd.c:65-70: u has one limb, v ≠ 0 -/
theorem gcdOneU_refines (s : St) (g u v : Nat) (hs : s.ok = true) (hg : OWF (s.h g)) (hu : OWF (s.h u)) (hv : OWF (s.h v))
    (hu1 : (s.h u).size.natAbs = 1) (hv0 : (s.h v).size ≠ 0) :
    Refines s (mpz_gcd s g u v) g
      ⟨(s.h g).buf.alloc, 1, [Nat.gcd (val (view (s.h v)).d) ((view (s.h u)).d.headD junk)]⟩ := by
  have hvn : ¬ (s.h v).size.natAbs = 0 := by omega
  have hfu := view_fit hu
  have hfv := view_fit hv
  have hul := view_d_length hu
  obtain ⟨x, hd⟩ := List.length_eq_one_iff.mp (hul.trans hu1)
  have hx : x < B := view_limbs hu x (by rw [hd]; simp)
  have hx0 : 0 < x := by
    have := hu.2.2.2.2.2
    rw [hd] at this
    rcases Nat.eq_zero_or_pos x with h | h
    · subst h; simp at this
    · exact h
  have hgl : Nat.gcd (val (view (s.h v)).d) x < B := Nat.lt_of_le_of_lt (Nat.gcd_le_right _ hx0) hx
  have T := gcdOne_tail s g (Nat.gcd (val (view (s.h v)).d) x)
    ((s.setSize g 1).rdOk ((s.PTR u).add 0) 1) (((s.setSize g 1).chk ((s.setSize g 1).rdOk ((s.PTR u).add 0) 1)).rdOk (s.PTR v) (s.h v).size.natAbs)
    hs hg hgl
    (by simp [St.rdOk, St.live, St.PTR, Ptr.add, Buf.read]; omega)
    (by simp [St.rdOk, St.live, St.PTR, Ptr.add, Buf.read]; omega)
  rw [hd]
  simp only [List.headD_cons]
  have hd' : (s.h u).buf.limbs.take 1 = [x] := by
    have : (view (s.h u)).d = (s.h u).buf.limbs.take (s.h u).size.natAbs := rfl
    rw [this, hu1] at hd; exact hd
  have e : mpz_gcd s g u v = ((((s.setSize g 1).chk ((s.setSize g 1).rdOk ((s.PTR u).add 0) 1)).chk
      (((s.setSize g 1).chk ((s.setSize g 1).rdOk ((s.PTR u).add 0) 1)).rdOk (s.PTR v) (s.h v).size.natAbs)).store (s.PTR g) 0
      (Nat.gcd (val (view (s.h v)).d) x)) := by
    unfold mpz_gcd gcd_
    simp [St.ABSIZ, hu1, hvn, St.load, mpn_gcd_1, St.rd, Buf.read, St.PTR, Ptr.add, hd', view]
  rw [e]; exact T

/-- gcd.c:72-77: v has one limb, u at least two -/
theorem gcdOneV_refines (s : St) (g u v : Nat) (hs : s.ok = true) (hg : OWF (s.h g)) (hu : OWF (s.h u)) (hv : OWF (s.h v))
    (hv1 : (s.h v).size.natAbs = 1) (hu2 : 2 ≤ (s.h u).size.natAbs) :
    Refines s (mpz_gcd s g u v) g
      ⟨(s.h g).buf.alloc, 1, [Nat.gcd (val (view (s.h u)).d) ((view (s.h v)).d.headD junk)]⟩ := by
  have hun : ¬ (s.h u).size.natAbs = 0 := by omega
  have hun1 : ¬ (s.h u).size.natAbs = 1 := by omega
  have hfu := view_fit hu
  have hfv := view_fit hv
  have hvl := view_d_length hv
  obtain ⟨x, hd⟩ := List.length_eq_one_iff.mp (hvl.trans hv1)
  have hx : x < B := view_limbs hv x (by rw [hd]; simp)
  have hx0 : 0 < x := by
    have := hv.2.2.2.2.2
    rw [hd] at this
    rcases Nat.eq_zero_or_pos x with h | h
    · subst h; simp at this
    · exact h
  have hgl : Nat.gcd (val (view (s.h u)).d) x < B := Nat.lt_of_le_of_lt (Nat.gcd_le_right _ hx0) hx
  have T := gcdOne_tail s g (Nat.gcd (val (view (s.h u)).d) x)
    ((s.setSize g 1).rdOk ((s.PTR v).add 0) 1) (((s.setSize g 1).chk ((s.setSize g 1).rdOk ((s.PTR v).add 0) 1)).rdOk (s.PTR u) (s.h u).size.natAbs)
    hs hg hgl
    (by simp [St.rdOk, St.live, St.PTR, Ptr.add, Buf.read]; omega)
    (by simp [St.rdOk, St.live, St.PTR, Ptr.add, Buf.read]; omega)
  rw [hd]
  simp only [List.headD_cons]
  have hd' : (s.h v).buf.limbs.take 1 = [x] := by
    have : (view (s.h v)).d = (s.h v).buf.limbs.take (s.h v).size.natAbs := rfl
    rw [this, hv1] at hd; exact hd
  have e : mpz_gcd s g u v = ((((s.setSize g 1).chk ((s.setSize g 1).rdOk ((s.PTR v).add 0) 1)).chk
      (((s.setSize g 1).chk ((s.setSize g 1).rdOk ((s.PTR v).add 0) 1)).rdOk (s.PTR u) (s.h u).size.natAbs)).store (s.PTR g) 0
      (Nat.gcd (val (view (s.h u)).d) x)) := by
    unfold mpz_gcd gcd_
    simp [St.ABSIZ, hv1, hun, hun1, St.load, mpn_gcd_1, St.rd, Buf.read, St.PTR, Ptr.add, hd', view]
  rw [e]; exact T

/-- gcd.c:44-52 / 55-63: one operand is zero, the other (`x`) is copied; `SIZ (g)` is stored BEFORE `MPZ_REALLOC (g, n)` -/
theorem gcdZero_refines (s : St) (g x : Nat) (hs : s.ok = true) (hg : OWF (s.h g)) (hx : OWF (s.h x)) :
    Refines s
      (if g == x then s.setSize g ((s.h x).size.natAbs : Nat)
       else MPN_COPY (MPZ_REALLOC (s.setSize g ((s.h x).size.natAbs : Nat)) g (s.h x).size.natAbs)
         ((MPZ_REALLOC (s.setSize g ((s.h x).size.natAbs : Nat)) g (s.h x).size.natAbs).PTR g) (s.PTR x) (s.h x).size.natAbs) g
      ⟨max (s.h g).buf.alloc (s.h x).size.natAbs, ((s.h x).size.natAbs : Nat), (view (s.h x)).d⟩ := by
  have hfx := view_fit hx
  have ha : 1 ≤ (s.h g).buf.alloc := by have := hg.2.1; simpa [view] using this
  by_cases h : g = x
  · subst h
    simp only [beq_self_eq_true, if_true]
    refine ⟨by simpa using hs, ?_, by simpa using hg.1, fun y hy => setSize_other _ _ _ hy⟩
    simp [view, Nat.max_eq_left hfx, Int.natAbs_abs]
  · have h' : (g == x) = false := by simpa using h
    simp only [h', Bool.false_eq_true, if_false]
    have hxg : x ≠ g := fun e => h e.symm
    generalize hn : (s.h x).size.natAbs = n at *
    have G := MPZ_REALLOC_grown2 (s.setSize g (n : Nat)) g n (by simp)
    have hox : (MPZ_REALLOC (s.setSize g (n : Nat)) g n).h x = s.h x := by
      rw [G.other x hxg, setSize_other _ _ _ hxg]
    have hrd : (MPZ_REALLOC (s.setSize g (n : Nat)) g n).rd (s.PTR x) n = (view (s.h x)).d := by
      simp [St.rd, St.PTR, Buf.read, hox, view, hn]
    have hok : (MPZ_REALLOC (s.setSize g (n : Nat)) g n).rdOk (s.PTR x) n = true := by
      simp [St.rdOk, St.live, St.PTR, Buf.read, hox]; omega
    have hb := G.bwf g (by simpa using hg.1)
    have hsz : ((MPZ_REALLOC (s.setSize g (n : Nat)) g n).h g).size = (n : Nat) := by rw [G.size]; simp
    have hal : ((MPZ_REALLOC (s.setSize g (n : Nat)) g n).h g).buf.alloc = max (s.h g).buf.alloc n := by
      rw [G.alloc, grow_alloc_max _ _ (by simpa [view] using ha)]; simp [view]
    have hl : (view (s.h x)).d.length = n := by rw [view_d_length hx, hn]
    unfold MPN_COPY
    rw [hrd, hok]
    have W := Wrote.fresh (MPZ_REALLOC (s.setSize g (n : Nat)) g n) g (view (s.h x)).d true (by rw [G.ok]; simpa using hs) rfl hb
      (view_limbs hx) (by rw [hl]; exact G.room)
    have R := W.refines (n : Nat) (by simpa using hsz) (by simp [hl])
    rw [hal] at R
    simp only [Int.natAbs_natCast] at R
    rw [List.take_of_length_le (by omega)] at R
    refine ⟨R.ok, R.view, R.bwf, fun y hy => ?_⟩
    rw [R.frame y hy, G.other y hy, setSize_other _ _ _ hy]

theorem WF_one (a gl : Nat) (ha : 1 ≤ a) (h0 : 0 < gl) (hB : gl < B) : Mpz.WF ⟨a, 1, [gl]⟩ :=
  ⟨ha, by simpa using ha, by simp, limb_singleton hB, by simp; omega⟩

/-- the one-limb arms of mpz_gcd (gcd.c:65-77) in one statement -/
theorem gcdOne_refines (s : St) (g u v : Nat) (hs : s.ok = true) (hg : OWF (s.h g)) (hu : OWF (s.h u)) (hv : OWF (s.h v))
    (hu0 : (s.h u).size ≠ 0) (hv0 : (s.h v).size ≠ 0) (h1 : (s.h u).size.natAbs = 1 ∨ (s.h v).size.natAbs = 1) :
    Refines s (mpz_gcd s g u v) g ⟨(s.h g).buf.alloc, 1, [Nat.gcd (val (view (s.h u)).d) (val (view (s.h v)).d)]⟩ ∧
    Mpz.WF ⟨(s.h g).buf.alloc, 1, [Nat.gcd (val (view (s.h u)).d) (val (view (s.h v)).d)]⟩ := by
  have ha : 1 ≤ (s.h g).buf.alloc := by have := hg.2.1; simpa [view] using this
  have one : ∀ {y : Nat}, OWF (s.h y) → (s.h y).size.natAbs = 1 →
      val (view (s.h y)).d = (view (s.h y)).d.headD junk ∧ 0 < val (view (s.h y)).d ∧ val (view (s.h y)).d < B := by
    intro y hy hy1
    obtain ⟨x, hd⟩ := List.length_eq_one_iff.mp ((view_d_length hy).trans hy1)
    have hx : x < B := view_limbs hy x (by rw [hd]; simp)
    have hx0 : 0 < x := by
      have := hy.2.2.2.2.2
      rw [hd] at this
      rcases Nat.eq_zero_or_pos x with h | h
      · subst h; simp at this
      · exact h
    rw [hd]; simp [val, hx, hx0]
  by_cases hu1 : (s.h u).size.natAbs = 1
  · obtain ⟨e, p, b⟩ := one hu hu1
    have R := gcdOneU_refines s g u v hs hg hu hv hu1 hv0
    rw [← e, Nat.gcd_comm] at R
    exact ⟨R, WF_one _ _ ha (Nat.gcd_pos_of_pos_left _ p) (Nat.lt_of_le_of_lt (Nat.gcd_le_left _ p) b)⟩
  · have hv1 : (s.h v).size.natAbs = 1 := by rcases h1 with h | h; exact absurd h hu1; exact h
    obtain ⟨e, p, b⟩ := one hv hv1
    have R := gcdOneV_refines s g u v hs hg hu hv hv1 (by omega)
    rw [← e] at R
    exact ⟨R, WF_one _ _ ha (Nat.gcd_pos_of_pos_right _ p) (Nat.lt_of_le_of_lt (Nat.gcd_le_right _ p) b)⟩

/-! ## mpz/gcd.c: the re-shift into g (gcd.c:133-154) -/

/-- the bits mpn_lshift shifts out are the top bits of the top limb -/
theorem lshift_carry (G : List Nat) (c : Nat) (hne : G ≠ []) : (Mpir.lshift G c).2 = Mpz.topLimb G >>> (64 - c) := by
  obtain ⟨xs, x, rfl⟩ : ∃ xs x, G = xs ++ [x] := ⟨G.dropLast, G.getLast hne, (List.dropLast_append_getLast hne).symm⟩
  unfold Mpir.lshift
  rw [Mem.lshiftGo_snoc]
  simp [Mpz.topLimb]

theorem ptr_add_add (p : Ptr) (a b : Nat) : (p.add a).add b = p.add (a + b) := by
  cases p; simp [Ptr.add, Nat.add_assoc]

/-- gcd.c:133-154, the destination side: `MPZ_REALLOC (g, gsize)` covers the zero fill, the shifted limbs and the conditional
    `tp[vsize] = cy_limb` -/
theorem gcdTail_mem (s : St) (g : Nat) (G : List Nat) (gzl gzb : Nat) (hs : s.ok = true) (hg : OWF (s.h g))
    (hG : Limbs G) (hne : G ≠ []) (hb : gzb ≤ 63) :
    (gcdTail 0 false s g G gzl gzb).ok = true ∧ BWF ((gcdTail 0 false s g G gzl gzb).h g).buf ∧
    ((gcdTail 0 false s g G gzl gzb).h g).size.natAbs ≤ ((gcdTail 0 false s g G gzl gzb).h g).buf.alloc ∧
    (∀ x, x ≠ g → (gcdTail 0 false s g G gzl gzb).h x = s.h x) := by
  unfold gcdTail
  simp only [Nat.sub_zero, Bool.false_or]
  by_cases h0 : gzb = 0
  · subst h0
    simp only [bne_self_eq_false, Bool.false_eq_true, if_false]
    have Gr := MPZ_REALLOC_grown s g (G.length + gzl) hg
    have hok1 : (MPZ_REALLOC s g (G.length + gzl)).ok = true := by rw [Gr.ok]; exact hs
    have hb1 := Gr.bwf g hg.1
    have hroom := Gr.room
    generalize MPZ_REALLOC s g (G.length + gzl) = s1 at *
    have W0 := Wrote.refl s1 g 0 hok1 hb1 (Nat.zero_le _)
    have W1 := W0.wr 0 (List.replicate gzl 0) (Limbs_rep0 _) (by simp) (by simp; omega)
    simp only [List.take_zero, add_zero_ptr, List.nil_append, List.drop_nil, List.append_nil] at W1
    have W2 := W1.wr gzl G hG (by simp) (by omega)
    have W3 := W2.setSize ((G.length + gzl : Nat) : Int)
    simp only [MPN_ZERO, wr_PTR]
    refine ⟨W3.ok, W3.bwf, ?_, fun x hx => (W3.frame x hx).trans (Gr.other x hx)⟩
    rw [W3.alloc]; simp; omega
  · have hb0 : (gzb != 0) = true := by simpa using h0
    simp only [hb0, if_true]
    obtain ⟨_, _, hl, hn⟩ := Mpz.K.lshift_val G gzb hG (by omega) hb
    have hc := lshift_carry G gzb hne
    generalize hgs : G.length + gzl + (if (Mpz.topLimb G >>> (64 - gzb) != 0) = true then 1 else 0) = gsize
    have Gr := MPZ_REALLOC_grown s g gsize hg
    have hok1 : (MPZ_REALLOC s g gsize).ok = true := by rw [Gr.ok]; exact hs
    have hb1 := Gr.bwf g hg.1
    have hroom := Gr.room
    generalize MPZ_REALLOC s g gsize = s1 at *
    have W0 := Wrote.refl s1 g 0 hok1 hb1 (Nat.zero_le _)
    have W1 := W0.wr 0 (List.replicate gzl 0) (Limbs_rep0 _) (by simp) (by simp; split at hgs <;> omega)
    simp only [List.take_zero, add_zero_ptr, List.nil_append, List.drop_nil, List.append_nil] at W1
    have W2 := W1.wr gzl (Mpir.lshift G gzb).1 hl (by simp) (by rw [hn]; split at hgs <;> omega)
    simp only [MPN_ZERO, wr_PTR]
    by_cases hcy : (Mpir.lshift G gzb).2 = 0
    · have : ((Mpir.lshift G gzb).2 != 0) = false := by simpa using hcy
      simp only [this, Bool.false_eq_true, if_false]
      have W3 := W2.setSize ((gsize : Nat) : Int)
      refine ⟨W3.ok, W3.bwf, ?_, fun x hx => (W3.frame x hx).trans (Gr.other x hx)⟩
      rw [W3.alloc]; simp; omega
    · have hcb : ((Mpir.lshift G gzb).2 != 0) = true := by simpa using hcy
      simp only [hcb, if_true]
      have hcy' : (Mpz.topLimb G >>> (64 - gzb) != 0) = true := by rw [← hc]; exact hcb
      rw [hcy'] at hgs
      simp only [if_true] at hgs
      have hcB : (Mpir.lshift G gzb).2 < B := by
        have : (Mpir.lshift G gzb).2 < 2 ^ gzb := by assumption
        exact Nat.lt_of_lt_of_le this (by unfold B; exact Nat.pow_le_pow_right (by decide) (by omega))
      have W3 := W2.wr (gzl + G.length) [(Mpir.lshift G gzb).2] (limb_singleton hcB) (by simp [hn]) (by simp; omega)
      have W4 := W3.setSize ((gsize : Nat) : Int)
      simp only [St.store, ptr_add_add]
      refine ⟨W4.ok, W4.bwf, ?_, fun x hx => (W4.frame x hx).trans (Gr.other x hx)⟩
      rw [W4.alloc]; simp; omega

end Mpir.AllocSafe5
