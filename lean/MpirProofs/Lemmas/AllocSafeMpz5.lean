/- Helper lemmas for the size-aware models of Mpir/Model/AllocSafeMpz5.lean (mpz/import.c, gcd.c, lcm.c). -/
import MpirProofs.Lemmas.AllocSafeSetD
import Mpir.Model.AllocSafeMpz5
namespace Mpir.AllocSafe5
open Mpir Mpir.AllocSafe
open Mpir.Mpz (sgn Norm natAbs_sgn)

/-! ## mpz/import.c: the byte loop stores one limb per 64 accumulated bits -/

/-- the loop invariant of import.c:119-120 (`lbits < GMP_NUMB_BITS`), limbs are limbs -/
def AccInv (a : Acc) : Prop := a.lbits < 64 ∧ a.limb < B ∧ Limbs a.out

/-- bits accumulated so far -/
def Acc.bits (a : Acc) : Nat := 64 * a.out.length + a.lbits

theorem accumulate_inv (a : Acc) (byte N : Nat) (h : AccInv a) (hb : byte < B) (hN : N ≤ 64) :
    AccInv (accumulate a byte N) ∧ (accumulate a byte N).bits = a.bits + N := by
  obtain ⟨h1, h2, h3⟩ := h
  unfold accumulate
  simp only []
  split
  · rename_i hge
    refine ⟨⟨by simp only []; omega, ?_, ?_⟩, ?_⟩
    · exact Nat.lt_of_le_of_lt (Nat.shiftRight_le _ _) hb
    · exact Limbs_append.mpr ⟨h3, limb_singleton (Nat.mod_lt _ B_pos)⟩
    · simp only [Acc.bits, List.length_append, List.length_singleton]; omega
  · rename_i hlt
    refine ⟨⟨by simp only []; omega, Nat.mod_lt _ B_pos, h3⟩, ?_⟩
    simp only [Acc.bits]; omega

theorem byteAt_lt (data : List Nat) (dp : Int) : byteAt data dp < B := by
  have : byteAt data dp < 256 := by
    unfold byteAt; split
    · exact Nat.mod_lt _ (by decide)
    · decide
  unfold B; omega

theorem wordBytes_inv (data : List Nat) (endian : Int) : ∀ (j : Nat) (st : LoopSt), AccInv st.1 →
    AccInv (wordBytes data endian j st).1 ∧ (wordBytes data endian j st).1.bits = st.1.bits + 8 * j := by
  intro j
  induction j with
  | zero => intro st h; exact ⟨h, rfl⟩
  | succ j ih =>
    intro st h
    obtain ⟨i1, e1⟩ := accumulate_inv st.1 (byteAt data st.2.1) 8 h (byteAt_lt _ _) (by decide)
    obtain ⟨i2, e2⟩ := ih (accumulate st.1 (byteAt data st.2.1) 8, st.2.1 - endian, st.2.2 && inData data st.2.1) i1
    simp only [wordBytes]
    refine ⟨i2, ?_⟩
    rw [e2]; simp only []; rw [e1]; omega

theorem oneWord_inv (data : List Nat) (endian : Int) (wbytes wbits : Nat) (woffset : Int) (st : LoopSt) (h : AccInv st.1)
    (hw : wbits < 8) :
    AccInv (oneWord data endian wbytes wbits woffset st).1 ∧
    (oneWord data endian wbytes wbits woffset st).1.bits = st.1.bits + (8 * wbytes + wbits) := by
  obtain ⟨i1, e1⟩ := wordBytes_inv data endian wbytes st h
  unfold oneWord
  simp only []
  by_cases h0 : wbits = 0
  · subst h0
    simp only [bne_self_eq_false, Bool.false_eq_true, if_false]
    exact ⟨i1, by rw [e1]; omega⟩
  · have hb : (wbits != 0) = true := by simpa using h0
    simp only [hb, if_true]
    have hlt : byteAt data (wordBytes data endian wbytes st).2.1 &&& (2 ^ wbits - 1) < B :=
      Nat.lt_of_le_of_lt Nat.and_le_left (byteAt_lt _ _)
    obtain ⟨i2, e2⟩ := accumulate_inv (wordBytes data endian wbytes st).1 _ wbits i1 hlt (by omega)
    exact ⟨i2, by rw [e2, e1]; omega⟩

theorem words_inv (data : List Nat) (endian : Int) (wbytes wbits : Nat) (woffset : Int) (hw : wbits < 8) :
    ∀ (i : Nat) (st : LoopSt), AccInv st.1 →
    AccInv (words data endian wbytes wbits woffset i st).1 ∧
    (words data endian wbytes wbits woffset i st).1.bits = st.1.bits + i * (8 * wbytes + wbits) := by
  intro i
  induction i with
  | zero => intro st h; exact ⟨h, by simp [words]⟩
  | succ i ih =>
    intro st h
    obtain ⟨i1, e1⟩ := oneWord_inv data endian wbytes wbits woffset st h hw
    obtain ⟨i2, e2⟩ := ih _ i1
    simp only [words]
    refine ⟨i2, ?_⟩
    have hm := Nat.add_one_mul i (8 * wbytes + wbits)
    rw [e2, e1]; omega

theorem importGeneric_spec (count : Nat) (order : Int) (size : Nat) (endian : Int) (nail : Nat) (data : List Nat) :
    (importGeneric count order size endian nail data).1.length = (count * (size * 8 - nail) + 63) / 64 ∧
    Limbs (importGeneric count order size endian nail data).1 := by
  unfold importGeneric
  simp only []
  generalize hdp : ((if order ≥ 0 then ((count : Int) - 1) * (size : Int) else 0) + (if endian ≥ 0 then (size : Int) - 1 else 0)) = dp
  generalize hwo : ((if endian ≥ 0 then (((size * 8 - nail + 7) / 8 : Nat) : Int) else -(((size * 8 - nail + 7) / 8 : Nat) : Int))
    + (if order < 0 then (size : Int) else -(size : Int))) = wo
  have h0 : AccInv (⟨0, 0, []⟩ : Acc) := ⟨by decide, B_pos, by intro x hx; cases hx⟩
  obtain ⟨⟨i1, i2, i3⟩, e⟩ := words_inv data endian ((size * 8 - nail) / 8) ((size * 8 - nail) % 8) wo
    (Nat.mod_lt _ (by decide)) count (⟨0, 0, []⟩, dp, true) h0
  rw [Nat.div_add_mod] at e
  simp only [Acc.bits, List.length_nil] at e
  generalize count * (size * 8 - nail) = T at e ⊢
  generalize (words data endian ((size * 8 - nail) / 8) ((size * 8 - nail) % 8) wo count (⟨0, 0, []⟩, dp, true)).1 = a at *
  by_cases hl : a.lbits = 0
  · have : (a.lbits != 0) = false := by simpa using hl
    simp only [this, Bool.false_eq_true, if_false]
    exact ⟨by omega, i3⟩
  · have : (a.lbits != 0) = true := by simpa using hl
    simp only [this, if_true, List.length_append, List.length_singleton]
    exact ⟨by omega, Limbs_append.mpr ⟨i3, limb_singleton i2⟩⟩

theorem leLimb_lt (data : List Nat) (i : Nat) : leLimb data i < B := by
  unfold leLimb B; omega

theorem beLimb_lt (data : List Nat) (i : Nat) : beLimb data i < B := by
  unfold beLimb B; omega

theorem Limbs_map_range (f : Nat → Nat) (n : Nat) (hf : ∀ i, f i < B) : Limbs ((List.range n).map f) := by
  intro x hx
  obtain ⟨i, _, rfl⟩ := List.mem_map.mp hx
  exact hf i

end Mpir.AllocSafe5
