/-
  Lemmas for C02 part c02_sbq (mpn_sb_div_q): invariant of the truncating loop sb_div_q.c:115-196.

  Level j: divisor V on j+2 limbs, window W on j+3 limbs, t divisor limbs already dropped (value L < B^t), so the divisor the
  loops started with is d = V·B^t + L; E = (error accumulated by the digits above)/B^j.  Hypothesis (the true partial
  remainder is reduced):  B^t·W < B·d + E.  With Q = the j+1 digits produced:
    flag still ~0:  Q·V + B^j·R = B^j·W + terr   (exact bookkeeping; terr = what "Compensate for triangularization" subtracts)
                    B^(j+t)·W < (Q+1)·d + B^j·E   (Q is not too small)
    flag = 0:       the digits from the event on are all B-1 and
                    Q·d + B^j·E + d ≤ B^(j+t)·W + (m+j+1)·B^(j+t+1) and B^(j+t)·W < (Q+1)·d + B^j·E
-/
import MpirProofs.Lemmas.SbDivQExact
namespace Mpir.SbDivQ
open Mpir Mpir.DivWord Mpir.SbDiv

/-- Σ_i q_i·B^i·(V mod B^(j-i)) over the digits below the top one; digits most significant first -/
def terrM : List Nat → List Nat → Nat
  | [], _ => 0
  | _ :: rest, dp => B * terrM rest (dp.drop 1) + dp.headD 0 * val rest.reverse

theorem stepH (Bt W W' V q d L E : Nat) (hd : V * Bt + L = d) (hW : W = q * V + W')
    (hH : Bt * (W + 1) ≤ B * d + E) (hr : W' < V ∨ q + 1 = B) :
    B * Bt * (W' + 1) ≤ B * d + (B * E + B * q * L) := by
  have hB := B_pos
  subst hW hd
  rcases hr with h | h
  · have h1 : B * Bt * (W' + 1) ≤ B * Bt * V := Nat.mul_le_mul_left _ h
    nlinarith [Nat.zero_le (B * L), Nat.zero_le (B * E), Nat.zero_le (B * q * L)]
  · have h1 : B * (Bt * (q * V + W' + 1)) ≤ B * (B * (V * Bt + L) + E) := Nat.mul_le_mul_left _ hH
    have h2 : B * (B * (V * Bt + L)) = B * ((q + 1) * (V * Bt + L)) := by rw [h]
    nlinarith

theorem stepHE (Bj Bt E q L m : Nat) (hE : B * Bj * E ≤ m * (B * Bj * Bt * B)) (hq : q < B) (hL : L < Bt) :
    Bj * (B * E + B * q * L) ≤ (m + 1) * (Bj * (B * Bt) * B) := by
  have h1 : q * L ≤ B * Bt := Nat.mul_le_mul hq.le hL.le
  have h2 : Bj * B * (q * L) ≤ Bj * B * (B * Bt) := Nat.mul_le_mul_left _ h1
  nlinarith

theorem stepUp (Bj Bt W W' V q d L E Q' : Nat) (hd : V * Bt + L = d) (hW : W = q * V + W')
    (ih : Bj * (B * Bt) * (W' + 1) ≤ (Q' + 1) * d + Bj * (B * E + B * q * L)) :
    B * Bj * Bt * (W + 1) ≤ (Q' + B * Bj * q + 1) * d + B * Bj * E := by
  subst hW hd
  nlinarith

theorem stepLo (Bj Bt W W' V q d L E Q' S : Nat) (hd : V * Bt + L = d) (hW : W = q * V + W')
    (ih : Q' * d + Bj * (B * E + B * q * L) + d ≤ Bj * (B * Bt) * W' + S) :
    (Q' + B * Bj * q) * d + B * Bj * E + d ≤ B * Bj * Bt * W + S := by
  subst hW hd
  nlinarith

theorem stepF1 (Bj W W' V V' q c Q' R T' : Nat) (hV : V = c + B * V') (hW : W = q * V + W')
    (ih : Q' * V' + Bj * R = Bj * W' + T') :
    (Q' + B * Bj * q) * V + B * Bj * R = B * Bj * W + (B * T' + c * Q') := by
  subst hW hV
  have : B * (Q' * V' + Bj * R) = B * (Bj * W' + T') := by rw [ih]
  nlinarith

theorem lt_pow_succ (c L Bt : Nat) (hc : c < B) (hL : L < Bt) : c * Bt + L < B * Bt := by
  have : (c + 1) * Bt ≤ B * Bt := Nat.mul_le_mul_right _ hc
  nlinarith

/-- the `flag = 0` event at a level whose window has modulus Bj·B·B: lower and upper bound for Q = Bj·B - 1 -/
theorem eventBounds (Bj Bt W V d L E m b2 : Nat) (hb : B = b2 + 2) (hd : V * Bt + L = d) (hL : L < Bt) (hV : V < Bj * B * B)
    (hev : (b2 + 1) * V + Bj * B * B ≤ W) (hH : Bt * (W + 1) ≤ B * d + E) (hE : Bj * E ≤ m * (Bj * Bt * B)) :
    Bj * Bt * (W + 1) ≤ (Bj * B - 1 + 1) * d + Bj * E ∧
    (Bj * B - 1) * d + Bj * E + d ≤ Bj * Bt * W + (m + 1) * (Bj * Bt * B) := by
  have hB := B_pos
  rcases Nat.eq_zero_or_pos Bj with h0 | hBj
  · subst h0; simp at hV
  have hP : 1 ≤ Bj * B := Nat.mul_pos hBj hB
  have e1 : Bj * B - 1 + 1 = Bj * B := by omega
  constructor
  · rw [e1]
    have : Bj * (Bt * (W + 1)) ≤ Bj * (B * d + E) := Nat.mul_le_mul_left _ hH
    nlinarith
  · have e2 : (Bj * B - 1) * d + d = Bj * B * d := by
      have : (Bj * B - 1 + 1) * d = Bj * B * d := by rw [e1]
      linarith
    have h1 : Bj * Bt * ((b2 + 1) * V + Bj * B * B) ≤ Bj * Bt * W := Nat.mul_le_mul_left _ hev
    have h2 : Bj * (B * L) ≤ Bj * (B * Bt) := Nat.mul_le_mul_left _ (Nat.mul_le_mul_left _ hL.le)
    have h3 : Bj * Bt * (V + 1) ≤ Bj * Bt * (Bj * B * B) := Nat.mul_le_mul_left _ hV
    have hk : Bj * B * (V * Bt) = Bj * Bt * ((b2 + 1) * V) + Bj * Bt * V := by rw [hb]; ring
    subst hd
    have e3 : Bj * B * (V * Bt + L) = Bj * B * (V * Bt) + Bj * (B * L) := by ring
    have e4 : Bj * Bt * ((b2 + 1) * V + Bj * B * B) = Bj * Bt * ((b2 + 1) * V) + Bj * Bt * (Bj * B * B) := by ring
    have e5 : Bj * Bt * (V + 1) = Bj * Bt * V + Bj * Bt := by ring
    have e6 : (m + 1) * (Bj * Bt * B) = m * (Bj * Bt * B) + Bj * (B * Bt) := by ring
    have z := Nat.zero_le (Bj * Bt)
    omega

theorem dqLoopB_zero (d1 d0 dinv : Nat) (dp a : List Nat) (n1 : Nat) (flag : Bool) (qs : List Nat) :
    dqLoopB d1 d0 dinv 0 dp a n1 flag qs =
      ((dqLast d1 d0 dinv a n1 flag).1 :: qs, (dqLast d1 d0 dinv a n1 flag).2.1,
        (dqLast d1 d0 dinv a n1 flag).2.2.1, (dqLast d1 d0 dinv a n1 flag).2.2.2) := rfl

theorem dqLoopB_succ (d1 d0 dinv k : Nat) (dp a : List Nat) (n1 : Nat) (flag : Bool) (qs : List Nat) :
    dqLoopB d1 d0 dinv (k + 1) dp a n1 flag qs =
      dqLoopB d1 d0 dinv k (dp.drop 1) (dqStepB dp d1 d0 dinv a n1 flag).2.1 (dqStepB dp d1 d0 dinv a n1 flag).2.2.1
        (dqStepB dp d1 d0 dinv a n1 flag).2.2.2 ((dqStepB dp d1 d0 dinv a n1 flag).1 :: qs) := rfl

/-- once flag = 0 every remaining quotient limb is B-1 -/
theorem dqLoopB_false (d1 d0 dinv : Nat) : ∀ (j : Nat) (dp a : List Nat) (n1 : Nat) (qs : List Nat),
    ∃ np01 n1f, dqLoopB d1 d0 dinv j dp a n1 false qs = (List.replicate (j + 1) (B - 1) ++ qs, np01, n1f, false)
  | 0, dp, a, n1, qs => by
    obtain ⟨e1, e2⟩ := dqLast_false d1 d0 dinv a n1
    rw [dqLoopB_zero, e1, e2]
    exact ⟨_, _, rfl⟩
  | j + 1, dp, a, n1, qs => by
    obtain ⟨e1, e2⟩ := dqStepB_false dp a d1 d0 dinv n1
    rw [dqLoopB_succ, e1, e2]
    obtain ⟨np01, n1f, e⟩ := dqLoopB_false d1 d0 dinv j (dp.drop 1) (dqStepB dp d1 d0 dinv a n1 false).2.1
      (dqStepB dp d1 d0 dinv a n1 false).2.2.1 ((B - 1) :: qs)
    rw [e]
    refine ⟨np01, n1f, ?_⟩
    rw [List.replicate_succ' (n := j + 1), List.append_assoc]
    rfl

/-- invariant of the truncating loop of mpn_sb_div_q started with flag = ~0 (see the header of this file) -/
theorem dqLoopB_spec (d0 d1 dinv : Nat) (hd0 : d0 < B) (hd1 : d1 < B) (hnorm : B / 2 ≤ d1)
    (hdinv : dinv = invert_pi1 d1 d0) :
    ∀ (j : Nat) (dlo a : List Nat) (n1 : Nat) (qs : List Nat) (t L E m : Nat), dlo.length = j → a.length = j + 2 →
      Limbs dlo → Limbs a → n1 < B → L < B ^ t →
      B ^ t * (val a + B ^ (j + 2) * n1 + 1) ≤ B * (val (dlo ++ [d0, d1]) * B ^ t + L) + E →
      B ^ j * E ≤ m * B ^ (j + t + 1) →
      ∃ ql np01 n1f fl, dqLoopB d1 d0 dinv j (dlo ++ [d0, d1]) a n1 true qs = (ql ++ qs, np01, n1f, fl) ∧
        ql.length = j + 1 ∧ Limbs ql ∧
        (fl = true → ∃ r0 r1, np01 = [r0, r1] ∧ n1f = r1 ∧ r0 < B ∧ r1 < B ∧
          val ql * val (dlo ++ [d0, d1]) + B ^ j * (r0 + B * r1)
            = B ^ j * (val a + B ^ (j + 2) * n1) + terrM ql.reverse (dlo ++ [d0, d1]) ∧
          B ^ (j + t) * (val a + B ^ (j + 2) * n1 + 1)
            ≤ (val ql + 1) * (val (dlo ++ [d0, d1]) * B ^ t + L) + B ^ j * E) ∧
        (fl = false →
          B ^ (j + t) * (val a + B ^ (j + 2) * n1 + 1)
            ≤ (val ql + 1) * (val (dlo ++ [d0, d1]) * B ^ t + L) + B ^ j * E ∧
          val ql * (val (dlo ++ [d0, d1]) * B ^ t + L) + B ^ j * E + (val (dlo ++ [d0, d1]) * B ^ t + L)
            ≤ B ^ (j + t) * (val a + B ^ (j + 2) * n1) + (m + j + 1) * B ^ (j + t + 1))
  | 0, dlo, a, n1, qs, t, L, E, m, hdl, hal, _, ha, hn1, hL, hH, hE => by
    have hB := B_pos
    obtain ⟨b2, hb2⟩ := B_eq_succ2
    have hbm1 : B - 1 = b2 + 1 := by omega
    match dlo, hdl with
    | [], _ =>
      obtain ⟨a0, a1, rfl⟩ := list_len2 a hal
      have ha0 : a0 < B := ha a0 (by simp)
      have ha1 : a1 < B := ha a1 (by simp)
      obtain ⟨q, r0, r1, fl, e, hq, hr0, hr1, ht, hf⟩ := dqLast_true a0 a1 d0 d1 dinv n1 ha0 ha1 hd0 hd1 hn1 hnorm hdinv
      rw [dqLoopB_zero, List.nil_append, e]
      simp only [val_cons, val_nil, Nat.mul_zero, Nat.add_zero, List.nil_append, pow_zero, Nat.one_mul, Nat.zero_add,
        show B ^ 2 = B * B from pow_two B, Nat.add_zero] at hH hE ⊢
      have hW : a0 + B * a1 + B * B * n1 = a0 + B * a1 + B * B * n1 := rfl
      refine ⟨[q], [r0, r1], r1, fl, rfl, rfl, ?_, ?_, ?_⟩
      · intro x hx; simp at hx; subst hx; exact hq
      · intro hfl
        obtain ⟨h1, h2⟩ := ht hfl
        refine ⟨r0, r1, rfl, rfl, hr0, hr1, ?_, ?_⟩
        · simp only [val_cons, val_nil, Nat.mul_zero, Nat.add_zero, List.reverse_cons, List.reverse_nil, List.nil_append,
            terrM, List.headD, List.reverse_nil, val_nil, Nat.mul_zero, Nat.add_zero]
          linarith
        · simp only [val_cons, val_nil, Nat.mul_zero, Nat.add_zero]
          rcases h2 with h2 | h2
          · have : B ^ t * (r0 + B * r1 + 1) ≤ B ^ t * (d0 + B * d1) := Nat.mul_le_mul_left _ h2
            rw [h1]
            nlinarith [Nat.zero_le (q * L), Nat.zero_le E, Nat.zero_le L]
          · have : q + 1 = B := by omega
            rw [this]; exact hH
      · intro hfl
        obtain ⟨h1, h2⟩ := hf hfl
        subst h1
        simp only [val_cons, val_nil, Nat.mul_zero, Nat.add_zero]
        obtain ⟨k1, k2⟩ := eventBounds 1 (B ^ t) (a0 + B * a1 + B * B * n1) (d0 + B * d1) _ L E m b2 hb2 rfl hL
          (by nlinarith) (by rw [← hbm1]; linarith) hH (by rw [pow_succ] at hE; simpa using hE)
        simp only [Nat.one_mul] at k1 k2
        refine ⟨k1, ?_⟩
        have : (m + 1) * (B ^ t * B) = (m + 1) * B ^ (t + 1) := by rw [pow_succ]
        linarith
  | j + 1, dlo, a, n1, qs, t, L, E, m, hdl, hal, hdlo, ha, hn1, hL, hH, hE => by
    have hB := B_pos
    obtain ⟨b2, hb2⟩ := B_eq_succ2
    have hbm1 : B - 1 = b2 + 1 := by omega
    -- powers in terms of Bj = B^j, Bt = B^t
    have p1 : B ^ (j + 1) = B * B ^ j := by rw [pow_succ]; ring
    have p2 : B ^ (j + 1 + 2) = B * B ^ j * B * B := by rw [pow_succ, pow_succ, pow_succ]; ring
    have p3 : B ^ (j + 1 + t) = B * B ^ j * B ^ t := by rw [pow_add, pow_succ]; ring
    have p4 : B ^ (j + 1 + t + 1) = B * B ^ j * B ^ t * B := by rw [pow_succ, pow_add, pow_succ]; ring
    have p5 : B ^ (t + 1) = B * B ^ t := by rw [pow_succ]; ring
    have p6 : B ^ (j + (t + 1)) = B ^ j * (B * B ^ t) := by rw [pow_add, pow_succ]; ring
    have p7 : B ^ (j + (t + 1) + 1) = B ^ j * (B * B ^ t) * B := by rw [pow_succ, pow_add, pow_succ]; ring
    have p8 : B ^ (j + 2) = B ^ j * B * B := by rw [pow_succ, pow_succ]
    have hBj : 0 < B ^ j := by positivity
    have hBt : 0 < B ^ t := by positivity
    obtain ⟨q, w, n1', fls, es, hq, hw, hwl, hn1', ht, hf⟩ :=
      dqStepB_true dlo a d0 d1 dinv n1 (by rw [hal, hdl]) hdlo ha hd0 hd1 hn1 hnorm hdinv
    rw [hdl] at hwl ht hf
    rw [show j + 1 + 1 = j + 2 from rfl] at ht
    rw [dqLoopB_succ, es]
    simp only []
    rw [p2] at hH ht hf ⊢
    rw [p1] at hE ⊢
    rw [p3, p4]
    rw [p4] at hE
    have hVlt := val_lt (dlo ++ [d0, d1]) (Limbs_append.mpr ⟨hdlo, Limbs_pair hd0 hd1⟩)
    rw [show (dlo ++ [d0, d1]).length = j + 1 + 2 by simp [hdl], p2] at hVlt
    cases fls with
    | false =>
      obtain ⟨hqe, hev⟩ := hf rfl
      subst hqe
      obtain ⟨np01, n1f, e⟩ := dqLoopB_false d1 d0 dinv j ((dlo ++ [d0, d1]).drop 1) w n1' ((B - 1) :: qs)
      rw [e]
      have hv := val_replicate_max (j + 1 + 1)
      rw [show j + 1 + 1 = j + 2 from rfl, p8] at hv
      obtain ⟨k1, k2⟩ := eventBounds (B * B ^ j) (B ^ t) (val a + B * B ^ j * B * B * n1) (val (dlo ++ [d0, d1])) _ L E m b2
        hb2 rfl hL hVlt (by rw [← hbm1]; exact hev) hH hE
      refine ⟨List.replicate (j + 1 + 1) (B - 1), np01, n1f, false, ?_, by simp, Limbs_replicate_max _,
        (fun h => by cases h), fun _ => ?_⟩
      · rw [List.replicate_succ' (n := j + 1), List.append_assoc]; rfl
      · have e1 : val (List.replicate (j + 1 + 1) (B - 1)) = B * B ^ j * B - 1 := by
          rw [show j + 1 + 1 = j + 2 from rfl]
          have : B ^ j * B * B = B * B ^ j * B := by ring
          omega
        rw [e1]
        refine ⟨k1, ?_⟩
        have : (m + 1) * (B * B ^ j * B ^ t * B) ≤ (m + (j + 1) + 1) * (B * B ^ j * B ^ t * B) :=
          Nat.mul_le_mul_right _ (by omega)
        linarith
    | true =>
      obtain ⟨h1, h2⟩ := ht rfl
      match dlo, hdl, hdlo with
      | c :: dlo', hdl', hdlo' =>
        have ⟨hc, hdlo''⟩ := Limbs_cons.mp hdlo'
        have hdl'' : dlo'.length = j := by simpa using hdl'
        have edrop : ((c :: dlo') ++ [d0, d1]).drop 1 = dlo' ++ [d0, d1] := rfl
        have eV : val ((c :: dlo') ++ [d0, d1]) = c + B * val (dlo' ++ [d0, d1]) := by
          rw [List.cons_append, val_cons]
        rw [edrop]
        have hL' : c * B ^ t + L < B ^ (t + 1) := by
          rw [p5]; exact lt_pow_succ c L (B ^ t) hc hL
        have hd' : val (dlo' ++ [d0, d1]) * B ^ (t + 1) + (c * B ^ t + L)
            = val ((c :: dlo') ++ [d0, d1]) * B ^ t + L := by rw [eV, p5]; ring
        have hH' := stepH (B ^ t) (val a + B * B ^ j * B * B * n1) (val w + B ^ (j + 2) * n1')
          (val ((c :: dlo') ++ [d0, d1])) q (val ((c :: dlo') ++ [d0, d1]) * B ^ t + L) L E rfl h1 hH
          (by rcases h2 with h | h
              · exact Or.inl h
              · exact Or.inr (by omega))
        have hE' := stepHE (B ^ j) (B ^ t) E q L m hE hq hL
        obtain ⟨ql', np01, n1f, fl, el, hqll, hql, it, iff⟩ :=
          dqLoopB_spec d0 d1 dinv hd0 hd1 hnorm hdinv j dlo' w n1' (q :: qs) (t + 1) (c * B ^ t + L)
            (B * E + B * q * L) (m + 1) hdl'' hwl hdlo'' hw hn1' hL' (by rw [hd', p5]; exact hH') (by rw [p7]; exact hE')
        rw [el]
        have hvq : val (ql' ++ [q]) = val ql' + B * B ^ j * q := by rw [val_top1, hqll, p1]
        refine ⟨ql' ++ [q], np01, n1f, fl, by simp, by simp [hqll], Limbs_snoc hql hq, fun hfl => ?_, fun hfl => ?_⟩
        · obtain ⟨r0, r1, enp, en1, hr0, hr1, f1, up⟩ := it hfl
          refine ⟨r0, r1, enp, en1, hr0, hr1, ?_, ?_⟩
          · have eT : terrM (ql' ++ [q]).reverse ((c :: dlo') ++ [d0, d1])
                = B * terrM ql'.reverse (dlo' ++ [d0, d1]) + c * val ql' := by
              rw [List.reverse_append, List.reverse_cons, List.reverse_nil, List.nil_append, List.singleton_append]
              simp only [terrM, List.cons_append, List.drop_succ_cons, List.drop_zero, List.headD_cons,
                List.reverse_reverse]
            rw [eT, hvq]
            exact stepF1 (B ^ j) _ (val w + B ^ (j + 2) * n1') _ (val (dlo' ++ [d0, d1])) q c (val ql') (r0 + B * r1) _
              eV h1 f1
          · rw [hvq]
            rw [hd', p6] at up
            exact stepUp (B ^ j) (B ^ t) _ (val w + B ^ (j + 2) * n1') _ q _ L E (val ql') rfl h1 up
        · obtain ⟨up, lo⟩ := iff hfl
          rw [hd', p6] at up
          rw [hd', p6, p7] at lo
          rw [hvq]
          refine ⟨stepUp (B ^ j) (B ^ t) _ (val w + B ^ (j + 2) * n1') _ q _ L E (val ql') rfl h1 up, ?_⟩
          have := stepLo (B ^ j) (B ^ t) _ (val w + B ^ (j + 2) * n1') _ q _ L E (val ql') _ rfl h1 lo
          have e9 : (m + 1 + j + 1) * (B ^ j * (B * B ^ t) * B) = (m + (j + 1) + 1) * (B * B ^ j * B ^ t * B) := by ring
          rw [e9] at this
          exact this

end Mpir.SbDivQ
