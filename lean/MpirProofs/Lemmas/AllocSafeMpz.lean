/- Proofs about the size-aware mpz models (Mpir/Model/AllocSafeMpz.lean): refinement of the value-level
   models of Mpir/Model/Mpz.lean, with `ok = true`. -/
import Mpir.Model.AllocSafeMpz
import MpirProofs.Lemmas.AllocSafe
import Mathlib.Tactic.Set
import MpirProofs.Lemmas.Kernels
namespace Mpir.AllocSafe
open Mpir
open Mpir.Mpz (sgn diffSign Norm natAbs_sgn)

/-! ## common endings -/

/-- what a function establishes: no bad access, the destination refines the value-level result `m`, the
    block is still a block, no other variable is touched -/
structure Refines (s s' : St) (w : Nat) (m : Mpz.Mpz) : Prop where
  ok : s'.ok = true
  view : view (s'.h w) = m
  bwf : BWF (s'.h w).buf
  frame : ∀ x, x ≠ w → s'.h x = s.h x

/-- store `r` at wp[0, |r|), MPN_NORMALIZE, set the size -/
theorem tail_norm (s : St) (w : Nat) (r : List Nat) (neg c : Bool) (hs : s.ok = true) (hc : c = true)
    (hb : BWF (s.h w).buf) (hl : Limbs r) (hr : r.length ≤ (s.h w).buf.alloc) :
    let s1 := (s.chk c).wr (s.PTR w) r
    let ns := MPN_NORMALIZE s1 (s.PTR w) r.length
    Refines s (ns.2.setSize w (sgn neg ns.1)) w ⟨(s.h w).buf.alloc, sgn neg (normalize r).length, normalize r⟩ := by
  intro s1 ns
  have hlimbs : (s1.h w).buf.limbs = r ++ (s.h w).buf.limbs.drop r.length := by
    have := wr_limbs (s.chk c) (s.PTR w) r (by simpa using hr)
    simpa using this
  have hrd : s1.rd (s.PTR w) r.length = r := by
    have : s.PTR w = s1.PTR w := by simp [s1]
    rw [this, rd_PTR, hlimbs]; simp
  have hns1 : ns.1 = (normalize r).length := by simp [ns, MPN_NORMALIZE, hrd]
  have hle := Mpz.normalize_length_le r
  refine ⟨?_, ?_, ?_, ?_⟩
  · have : s.PTR w = s1.PTR w := by simp [s1]
    simp only [ns, MPN_NORMALIZE, setSize_ok, chk_ok]
    rw [this, rdOk_PTR]
    simp [s1, wr_ok, hs, hc, hr]
  · simp only [view, setSize_size, setSize_buf, natAbs_sgn]
    simp only [ns, MPN_NORMALIZE, chk_h, hlimbs, hrd]
    simp only [s1, wr_alloc, chk_h]
    rw [List.take_append_of_le_length hle, take_normalize_length]
  · simp only [setSize_buf, ns, MPN_NORMALIZE, chk_h]
    exact wr_BWF _ _ hl _ hb
  · intro x hx
    rw [setSize_other _ _ _ hx]
    simp only [ns, MPN_NORMALIZE, chk_h, s1]
    rw [wr_other _ _ _ (by simpa using hx)]; rfl

/-- store `r` at wp[0, |r|), the carry limb at wp[|r|], size = k ≤ |r| + 1 -/
theorem tail_carry (s : St) (w : Nat) (r : List Nat) (cy k : Nat) (neg c : Bool) (hs : s.ok = true) (hc : c = true)
    (hb : BWF (s.h w).buf) (hl : Limbs r) (hcy : cy < B) (hr : r.length + 1 ≤ (s.h w).buf.alloc)
    (hk : k ≤ r.length + 1) :
    let s1 := (s.chk c).wr (s.PTR w) r
    let s2 := s1.store (s.PTR w) r.length cy
    Refines s (s2.setSize w (sgn neg k)) w ⟨(s.h w).buf.alloc, sgn neg k, (r ++ [cy]).take k⟩ := by
  intro s1 s2
  have hl1 : (s1.h w).buf.limbs = r ++ (s.h w).buf.limbs.drop r.length := by
    have := wr_limbs (s.chk c) (s.PTR w) r (by simp; omega)
    simpa using this
  have hb1 : BWF (s1.h w).buf := wr_BWF _ _ hl _ hb
  have hlen : r.length + 1 ≤ (s.h w).buf.limbs.length := by rw [hb.1]; exact hr
  have hl2 : (s2.h w).buf.limbs = r ++ [cy] ++ (s.h w).buf.limbs.drop (r.length + 1) := by
    have := wr_limbs s1 ((s.PTR w).add r.length) [cy] (by simp [s1]; omega)
    simp only [add_id, PTR_id, add_off, PTR_off, Nat.zero_add, List.length_cons, List.length_nil] at this
    simp only [s2, St.store, this, hl1]
    simp [List.drop_drop]
  refine ⟨?_, ?_, ?_, ?_⟩
  · simp [s2, St.store, wr_ok, s1, hs, hc]; omega
  · simp only [view, setSize_size, setSize_buf, natAbs_sgn, hl2]
    simp only [s2, St.store, wr_alloc, s1, chk_h]
    rw [List.take_append_of_le_length (by simpa using hk)]
  · simp only [setSize_buf, s2, St.store]
    exact wr_BWF _ _ (by intro x hx; simp at hx; omega) _ hb1
  · intro x hx
    rw [setSize_other _ _ _ hx]
    simp only [s2, St.store, s1]
    rw [wr_other _ _ _ (by simpa using hx), wr_other _ _ _ (by simpa using hx)]; rfl

@[simp] theorem setSize_chk_h (s : St) (b : Bool) (x : Nat) (n : Int) : ((s.chk b).setSize x n).h = (s.setSize x n).h := rfl
@[simp] theorem add_zero_ptr (p : Ptr) : p.add 0 = p := by cases p; rfl

/-- store `r` at wp[0, |r|), set the size to z with |z| ≤ |r| -/
theorem tail_take (s : St) (w : Nat) (r : List Nat) (z : Int) (c : Bool) (hs : s.ok = true) (hc : c = true)
    (hb : BWF (s.h w).buf) (hl : Limbs r) (hr : r.length ≤ (s.h w).buf.alloc) (hz : z.natAbs ≤ r.length) :
    Refines s (((s.chk c).wr (s.PTR w) r).setSize w z) w ⟨(s.h w).buf.alloc, z, r.take z.natAbs⟩ := by
  have hlimbs : (((s.chk c).wr (s.PTR w) r).h w).buf.limbs = r ++ (s.h w).buf.limbs.drop r.length := by
    have := wr_limbs (s.chk c) (s.PTR w) r (by simpa using hr)
    simpa using this
  refine ⟨?_, ?_, ?_, ?_⟩
  · simp [wr_ok, hs, hc, hr]
  · simp only [view, setSize_size, setSize_buf, hlimbs, wr_alloc, chk_h]
    rw [List.take_append_of_le_length hz]
  · simp only [setSize_buf]; exact wr_BWF _ _ hl _ hb
  · intro x hx
    rw [setSize_other _ _ _ hx, wr_other _ _ _ (by simpa using hx)]; rfl

/-- store `r` (n ≥ 1 limbs) at wp[0, n), read wp[n-1], size = n - (wp[n-1] == 0) -/
theorem tail_strip (s : St) (w : Nat) (r : List Nat) (neg c : Bool) (hs : s.ok = true) (hc : c = true)
    (hb : BWF (s.h w).buf) (hl : Limbs r) (hr : r.length ≤ (s.h w).buf.alloc) (hne : r ≠ []) :
    let s1 := (s.chk c).wr (s.PTR w) r
    let ld := s1.load (s.PTR w) (r.length - 1)
    let n := r.length - (if ld.1 == 0 then 1 else 0)
    ld.1 = Mpz.topLimb r ∧
    Refines s (ld.2.setSize w (sgn neg n)) w ⟨(s.h w).buf.alloc, sgn neg n, r.take n⟩ := by
  intro s1 ld n
  have hpos : 1 ≤ r.length := List.length_pos_iff.mpr hne
  have hlimbs : (s1.h w).buf.limbs = r ++ (s.h w).buf.limbs.drop r.length := by
    have := wr_limbs (s.chk c) (s.PTR w) r (by simpa using hr)
    simpa using this
  have hp : s.PTR w = s1.PTR w := by simp [s1]
  have hld : ld.1 = Mpz.topLimb r := by
    simp only [ld, St.load, hp, rd_PTR_add, hlimbs, Mpz.topLimb]
    rw [List.drop_append_of_le_length (by omega)]
    rcases List.eq_nil_or_concat r with h0 | ⟨l, b, rfl⟩
    · exact absurd h0 hne
    · simp
  have R := tail_take s w r (sgn neg n) c hs hc hb hl hr (by rw [natAbs_sgn]; omega)
  refine ⟨hld, ?_, ?_, ?_, ?_⟩
  · simp only [ld, St.load, setSize_ok, chk_ok, hp, rdOk_PTR_add]
    simp [s1, wr_ok, hs, hc, hr]; omega
  · have := R.view; simpa [natAbs_sgn, ld, St.load, s1] using this
  · have := R.bwf; simpa [ld, St.load, s1] using this
  · intro x hx; have := R.frame x hx
    simpa [ld, St.load, s1] using this

/-! ## reading a source after MPZ_REALLOC -/

/-- after `MPZ_REALLOC (w, n)`, `PTR (x)[0, k)` for k ≤ |SIZ x| is in range and holds the limbs it held
    before, whether or not x is w -/
theorem grown_rd {s s' : St} {w n : Nat} (G : Grown s s' w n) (x k : Nat) (hx : OWF (s.h x))
    (hk : k ≤ (s.h x).size.natAbs) :
    s'.rd (s'.PTR x) k = (view (s.h x)).d.take k ∧ s'.rdOk (s'.PTR x) k = true := by
  have hfit : (s.h x).size.natAbs ≤ (s.h x).buf.alloc := by simpa [view] using hx.2.2.1
  refine ⟨?_, ?_⟩
  · rw [rd_PTR, G.take x k hx.1 (by omega)]
    simp [view, List.take_take, Nat.min_eq_left hk]
  · rw [rdOk_PTR]; have := G.mono x; simp; omega

theorem view_d_length {o : Obj} (h : OWF o) : (view o).d.length = o.size.natAbs := by
  simpa [view] using h.2.2.2.1

/-! ## mpz_add / mpz_sub -/

theorem aorsCore_refines (s : St) (w u v : Nat) (us vs : Int) (hs : s.ok = true)
    (hw : OWF (s.h w)) (hu : OWF (s.h u)) (hv : OWF (s.h v))
    (hus : us.natAbs = (s.h u).size.natAbs) (hvs : vs.natAbs = (s.h v).size.natAbs)
    (hle : vs.natAbs ≤ us.natAbs) :
    Refines s (aorsCore false 1 s w u v us vs) w
      (Mpz.aorsCore (view (s.h w)) (view (s.h u)) (view (s.h v)) us vs) := by
  have G := MPZ_REALLOC_grown s w (us.natAbs + 1) hw
  obtain ⟨ea, oka⟩ := grown_rd G u us.natAbs hu (by omega)
  obtain ⟨eb, okb⟩ := grown_rd G v vs.natAbs hv (by omega)
  have hul := view_d_length hu
  have hvl := view_d_length hv
  rw [List.take_of_length_le (by omega)] at ea eb
  have hLu : Limbs (view (s.h u)).d := hu.2.2.2.2.1
  have hLv : Limbs (view (s.h v)).d := hv.2.2.2.2.1
  have hbw := G.bwf w hw.1
  have hroom := G.room
  have hfr : ∀ s2 : St, (∀ x, x ≠ w → s2.h x = (MPZ_REALLOC s w (us.natAbs + 1)).h x) → ∀ x, x ≠ w → s2.h x = s.h x :=
    fun s2 h x hx => (h x hx).trans (G.other x hx)
  have fin : ∀ (s2 : St) (m : Mpz.Mpz), Refines (MPZ_REALLOC s w (us.natAbs + 1)) s2 w m → Refines s s2 w m :=
    fun s2 m R => ⟨R.ok, R.view, R.bwf, hfr s2 R.frame⟩
  unfold aorsCore Mpz.aorsCore
  simp only [Bool.false_eq_true, if_false]
  generalize hs1 : MPZ_REALLOC s w (us.natAbs + 1) = s1 at *
  have hok1 : s1.ok = true := by rw [G.ok]; exact hs
  have halloc : (Mpz.grow (view (s.h w)) (us.natAbs + 1)).alloc = (s1.h w).buf.alloc := G.alloc.symm
  rw [halloc]
  split
  · split
    · -- mpn_sub
      rename_i hne
      have hne' : us.natAbs ≠ vs.natAbs := by simpa using hne
      obtain ⟨_, _, sl, sn⟩ := Mpz.K.sub_val _ _ hLu hLv (by omega : (view (s.h v)).d.length ≤ (view (s.h u)).d.length)
      simp only [mpn_sub, ea, eb, oka, okb, Bool.and_self]
      have := tail_norm s1 w (Mpir.sub (view (s.h u)).d (view (s.h v)).d).1 (decide (us < 0)) true hok1 rfl hbw sl (by omega)
      simp only [sn, hul, ← hus] at this
      exact fin _ _ this
    · rename_i hne
      have heq : us.natAbs = vs.natAbs := by simpa using hne
      obtain ⟨eb', okb'⟩ := grown_rd G v us.natAbs hv (by omega)
      rw [List.take_of_length_le (by omega)] at eb'
      simp only [mpn_cmp, ea, eb', oka, okb', Bool.and_self]
      split
      · obtain ⟨_, _, sl, sn⟩ := Mpz.K.sub_n_val _ _ hLv hLu (by omega : (view (s.h v)).d.length = (view (s.h u)).d.length)
        simp only [mpn_sub_n, chk_rd, chk_rdOk, ea, eb', oka, okb', Bool.and_self]
        have := tail_norm (s1.chk true) w (Mpir.sub_n (view (s.h v)).d (view (s.h u)).d).1 (decide (us ≥ 0)) true (by simpa using hok1) rfl hbw sl (by simp; omega)
        simp only [sn, hvl, ← hvs, ← heq, chk_PTR, chk_h] at this
        exact fin _ _ ⟨this.ok, this.view, this.bwf, this.frame⟩
      · obtain ⟨_, _, sl, sn⟩ := Mpz.K.sub_n_val _ _ hLu hLv (by omega : (view (s.h u)).d.length = (view (s.h v)).d.length)
        simp only [mpn_sub_n, chk_rd, chk_rdOk, ea, eb', oka, okb', Bool.and_self]
        have := tail_norm (s1.chk true) w (Mpir.sub_n (view (s.h u)).d (view (s.h v)).d).1 (decide (us < 0)) true (by simpa using hok1) rfl hbw sl (by simp; omega)
        simp only [sn, hul, ← hus, chk_PTR, chk_h] at this
        exact fin _ _ ⟨this.ok, this.view, this.bwf, this.frame⟩
  · obtain ⟨_, ac, al, an⟩ := Mpz.K.add_val _ _ hLu hLv (by omega : (view (s.h v)).d.length ≤ (view (s.h u)).d.length)
    simp only [mpn_add, ea, eb, oka, okb, Bool.and_self]
    have := tail_carry s1 w (Mpir.add (view (s.h u)).d (view (s.h v)).d).1 (Mpir.add (view (s.h u)).d (view (s.h v)).d).2
      (us.natAbs + (Mpir.add (view (s.h u)).d (view (s.h v)).d).2) (decide (us < 0)) true hok1 rfl hbw al
      (by have := B_eq; omega) (by omega) (by omega)
    simp only [an, hul, ← hus] at this
    exact fin _ _ this

theorem aors_aux (s : St) (w u v : Nat) (vs : Int) (hs : s.ok = true)
    (hw : OWF (s.h w)) (hu : OWF (s.h u)) (hv : OWF (s.h v)) (hn : vs.natAbs = (s.h v).size.natAbs) :
    Refines s
      (if (s.h u).size.natAbs < vs.natAbs then aorsCore false 1 s w v u vs (s.h u).size
        else aorsCore false 1 s w u v (s.h u).size vs) w
      (if (s.h u).size.natAbs < vs.natAbs then
          Mpz.aorsCore (view (s.h w)) (view (s.h v)) (view (s.h u)) vs (s.h u).size
        else Mpz.aorsCore (view (s.h w)) (view (s.h u)) (view (s.h v)) (s.h u).size vs) := by
  by_cases h : (s.h u).size.natAbs < vs.natAbs
  · rw [if_pos h, if_pos h]; exact aorsCore_refines s w v u _ _ hs hw hv hu hn rfl (Nat.le_of_lt h)
  · rw [if_neg h, if_neg h]; exact aorsCore_refines s w u v _ _ hs hw hu hv rfl hn (Nat.le_of_not_lt h)

theorem aors_refines (isSub : Bool) (s : St) (w u v : Nat) (hs : s.ok = true)
    (hw : OWF (s.h w)) (hu : OWF (s.h u)) (hv : OWF (s.h v)) :
    Refines s (aors false 1 isSub s w u v) w (Mpz.aors isSub (view (s.h w)) (view (s.h u)) (view (s.h v))) := by
  unfold aors Mpz.aors
  simp only [St.SIZ]
  have e1 : (view (s.h u)).size = (s.h u).size := rfl
  have e2 : (view (s.h v)).size = (s.h v).size := rfl
  rw [e1, e2]
  cases isSub
  · simp only [Bool.false_eq_true, if_false]; exact aors_aux s w u v _ hs hw hu hv rfl
  · simp only [if_true]; exact aors_aux s w u v _ hs hw hu hv (by simp)

theorem Refines.of_grown {s s1 s2 : St} {w n : Nat} {m : Mpz.Mpz} (G : Grown s s1 w n)
    (R : Refines s1 s2 w m) : Refines s s2 w m :=
  ⟨R.ok, R.view, R.bwf, fun x hx => (R.frame x hx).trans (G.other x hx)⟩

theorem view_limbs {o : Obj} (h : OWF o) : Limbs (view o).d := h.2.2.2.2.1
theorem view_fit {o : Obj} (h : OWF o) : o.size.natAbs ≤ o.buf.alloc := by simpa [view] using h.2.2.1

/-! ## mpz_set, mpz_neg, mpz_abs -/

/-- `MPZ_REALLOC (w, |usize|); MPN_COPY (wp, up, |usize|); SIZ (w) = z` with |z| = |usize| -/
theorem copy_refines (s : St) (w u : Nat) (z : Int) (hs : s.ok = true) (hw : OWF (s.h w)) (hu : OWF (s.h u))
    (hz : z.natAbs = (s.h u).size.natAbs) :
    let s1 := MPZ_REALLOC s w (s.h u).size.natAbs
    Refines s ((MPN_COPY s1 (s1.PTR w) (s1.PTR u) (s.h u).size.natAbs).setSize w z) w
      ⟨(Mpz.grow (view (s.h w)) (s.h u).size.natAbs).alloc, z, (view (s.h u)).d⟩ := by
  intro s1
  have G := MPZ_REALLOC_grown s w (s.h u).size.natAbs hw
  obtain ⟨ea, oka⟩ := grown_rd G u (s.h u).size.natAbs hu (Nat.le_refl _)
  have hul := view_d_length hu
  rw [List.take_of_length_le (by omega)] at ea
  have T := tail_take s1 w (view (s.h u)).d z (s1.rdOk (s1.PTR u) (s.h u).size.natAbs) (by rw [G.ok]; exact hs) oka
    (G.bwf w hw.1) (view_limbs hu) (by rw [hul]; exact G.room) (by omega)
  rw [List.take_of_length_le (by omega)] at T
  have ha : (s1.h w).buf.alloc = (Mpz.grow (view (s.h w)) (s.h u).size.natAbs).alloc := G.alloc
  rw [ha] at T
  have ea' : s1.rd (s1.PTR u) (s.h u).size.natAbs = (view (s.h u)).d := ea
  simp only [MPN_COPY, ea']
  exact T.of_grown G

theorem set_refines (s : St) (w u : Nat) (hs : s.ok = true) (hw : OWF (s.h w)) (hu : OWF (s.h u)) :
    Refines s (mpz_set s w u) w (Mpz.set (view (s.h w)) (view (s.h u))) :=
  copy_refines s w u (s.h u).size hs hw hu rfl

theorem neg_refines (s : St) (w u : Nat) (hs : s.ok = true) (hw : OWF (s.h w)) (hu : OWF (s.h u)) :
    Refines s (mpz_neg s w u) w (Mpz.neg (decide (u = w)) (view (s.h w)) (view (s.h u))) := by
  unfold mpz_neg Mpz.neg
  by_cases h : u = w
  · subst h
    simp only [bne_self_eq_false, Bool.false_eq_true, if_false, decide_true, Bool.not_true, St.SIZ]
    refine ⟨by simpa using hs, ?_, by simpa using hw.1, fun x hx => setSize_other _ _ _ hx⟩
    simp [view]
  · have h' : (u != w) = true := by simpa using h
    simp only [h', if_true, h, decide_false, Bool.not_false, St.SIZ]
    exact copy_refines s w u (-(s.h u).size) hs hw hu (by simp)

theorem abs_refines (s : St) (w u : Nat) (hs : s.ok = true) (hw : OWF (s.h w)) (hu : OWF (s.h u)) :
    Refines s (mpz_abs s w u) w (Mpz.abs (decide (u = w)) (view (s.h w)) (view (s.h u))) := by
  unfold mpz_abs Mpz.abs
  by_cases h : u = w
  · subst h
    simp only [bne_self_eq_false, Bool.false_eq_true, if_false, decide_true, Bool.not_true, St.SIZ]
    refine ⟨by simpa using hs, ?_, by simpa using hw.1, fun x hx => setSize_other _ _ _ hx⟩
    simp [view, Int.natAbs_abs]
  · have h' : (u != w) = true := by simpa using h
    simp only [h', if_true, h, decide_false, Bool.not_false, St.SIZ]
    exact copy_refines s w u ((s.h u).size.natAbs : Int) hs hw hu (Int.natAbs_natCast _)

/-! ## mpz_set_ui, mpz_set_si -/

/-- `dest->_mp_d[0] = v; SIZ = ±(v != 0)`: safe because alloc ≥ 1 -/
theorem set1_refines (s : St) (w : Nat) (v : Nat) (neg : Bool) (hs : s.ok = true) (hb : BWF (s.h w).buf)
    (h1 : 1 ≤ (s.h w).buf.alloc) (hv : v < B) :
    Refines s ((s.store (s.PTR w) 0 v).setSize w (sgn neg (if v != 0 then 1 else 0))) w
      ⟨(s.h w).buf.alloc, sgn neg (if v != 0 then 1 else 0), [v].take (if v != 0 then 1 else 0)⟩ := by
  have T := tail_take s w [v] (sgn neg (if v != 0 then 1 else 0)) true hs rfl hb
    (by intro x hx; simp at hx; omega) (by simpa using h1) (by rw [natAbs_sgn]; split <;> simp)
  rw [natAbs_sgn] at T
  simpa [St.store, St.chk] using T

/-! ## mpz_add_ui, mpz_sub_ui -/

theorem Refines.of_chk {s s' : St} {c : Bool} {w : Nat} {m : Mpz.Mpz} (R : Refines (s.chk c) s' w m) :
    Refines s s' w m := ⟨R.ok, R.view, R.bwf, R.frame⟩

/-- aors_ui.h:106-111 -/
theorem aors_ui_sub_refines (isSub : Bool) (s : St) (w u : Nat) (d : List Nat) (vval : Nat) (hs : s.ok = true)
    (hb : BWF (s.h w).buf) (hd : Limbs d) (hne : d ≠ []) (hv : vval < B) (hr : d.length ≤ (s.h w).buf.alloc)
    (ea : s.rd (s.PTR u) d.length = d) (oka : s.rdOk (s.PTR u) d.length = true) :
    Refines s (aors_ui_sub isSub s w (s.PTR w) (s.PTR u) d.length vval) w
      ⟨(s.h w).buf.alloc, sgn (!isSub) (d.length - (if Mpz.topLimb (Mpir.sub_1 d vval).1 == 0 then 1 else 0)),
        (Mpir.sub_1 d vval).1.take (d.length - (if Mpz.topLimb (Mpir.sub_1 d vval).1 == 0 then 1 else 0))⟩ := by
  obtain ⟨_, _, sl, sn⟩ := Mpz.K.sub_1_val d vval hd hv hne
  have hne' : (Mpir.sub_1 d vval).1 ≠ [] := by intro h; rw [h] at sn; simp at sn; exact hne (List.length_eq_zero_iff.mp sn.symm)
  obtain ⟨hld, R⟩ := tail_strip s w (Mpir.sub_1 d vval).1 (!isSub) true hs rfl hb sl (by omega) hne'
  unfold aors_ui_sub
  simp only [mpn_sub_1, ea, oka]
  simp only [sn] at hld R
  simp only [hld] at R ⊢
  exact R

/-- aors_ui.h:79-114 on any state in which w has room for |usize| + 1 limbs and `PTR (u)[0, |usize|)` holds `d` -/
theorem aors_ui_body_refines (isSub : Bool) (s1 : St) (w u : Nat) (usize : Int) (d : List Nat) (vval : Nat)
    (hok1 : s1.ok = true) (hbw : BWF (s1.h w).buf) (hLu : Limbs d) (hul : d.length = usize.natAbs) (hv : vval < B)
    (hroom : usize.natAbs + 1 ≤ (s1.h w).buf.alloc)
    (ea : s1.rd (s1.PTR u) usize.natAbs = d) (oka : s1.rdOk (s1.PTR u) usize.natAbs = true) :
    Refines s1 (aors_ui_body isSub s1 w u usize vval) w
      (if usize.natAbs == 0 then ⟨(s1.h w).buf.alloc, sgn isSub (if vval != 0 then 1 else 0), [vval].take (if vval != 0 then 1 else 0)⟩
       else if (if isSub then decide (usize < 0) else decide (usize ≥ 0)) then
         ⟨(s1.h w).buf.alloc, sgn isSub (usize.natAbs + (Mpir.add_1 d vval).2),
           ((Mpir.add_1 d vval).1 ++ [(Mpir.add_1 d vval).2]).take (usize.natAbs + (Mpir.add_1 d vval).2)⟩
       else if usize.natAbs == 1 && d.headD 0 < vval then ⟨(s1.h w).buf.alloc, sgn isSub 1, [vval - d.headD 0]⟩
       else ⟨(s1.h w).buf.alloc, sgn (!isSub) (usize.natAbs - (if Mpz.topLimb (Mpir.sub_1 d vval).1 == 0 then 1 else 0)),
          (Mpir.sub_1 d vval).1.take (usize.natAbs - (if Mpz.topLimb (Mpir.sub_1 d vval).1 == 0 then 1 else 0))⟩) := by
  unfold aors_ui_body
  by_cases h0 : usize.natAbs = 0
  · simp only [h0, beq_self_eq_true, if_true]
    exact set1_refines s1 w vval isSub hok1 hbw (by omega) hv
  · have h0' : (usize.natAbs == 0) = false := by simpa using h0
    have hne : d ≠ [] := by intro h; rw [h] at hul; simp at hul; omega
    simp only [h0', Bool.false_eq_true, if_false]
    have SUB := aors_ui_sub_refines isSub s1 w u d vval hok1 hbw hLu hne hv (by omega)
      (by rw [hul]; exact ea) (by rw [hul]; exact oka)
    rw [hul] at SUB
    by_cases hc : (if isSub = true then decide (usize < 0) else decide (usize ≥ 0)) = true
    · -- add_1
      rw [if_pos hc, if_pos hc]
      obtain ⟨_, ac, al, an⟩ := Mpz.K.add_1_val _ vval hLu hv hne
      simp only [mpn_add_1, ea, oka]
      have := tail_carry s1 w (Mpir.add_1 d vval).1 (Mpir.add_1 d vval).2
        (usize.natAbs + (Mpir.add_1 d vval).2) isSub true hok1 rfl hbw al
        (by have := B_eq; omega) (by omega) (by omega)
      simp only [an, hul] at this
      exact this
    · rw [if_neg hc, if_neg hc]
      by_cases h1 : usize.natAbs = 1
      · simp only [h1, beq_self_eq_true, if_true, Bool.true_and]
        rw [h1] at ea oka hul SUB
        obtain ⟨a, ha⟩ := List.length_eq_one_iff.mp hul
        have hld : (s1.load (s1.PTR u) 0).1 = d.headD 0 := by
          simp [St.load, ea, ha]
        have hld2 : (s1.load (s1.PTR u) 0).2 = s1.chk true := by simp [St.load, oka]
        rw [show s1.load (s1.PTR u) 0 = ((s1.load (s1.PTR u) 0).1, (s1.load (s1.PTR u) 0).2) from rfl]
        simp only [hld, hld2]
        by_cases hlt : d.headD 0 < vval
        · simp only [hlt, if_true, decide_true]
          have T := tail_take s1 w [vval - d.headD 0] (sgn isSub 1) true hok1 rfl hbw
            (by intro x hx; simp at hx; omega) (by simp; omega) (by rw [natAbs_sgn]; simp)
          rw [natAbs_sgn] at T
          simp only [List.take_one, List.head?_cons] at T
          simpa [St.store] using T
        · simp only [hlt, if_false, decide_false, Bool.false_eq_true]
          have SUB' := aors_ui_sub_refines isSub (s1.chk true) w u d vval (by simpa using hok1) hbw hLu hne hv
            (by simp; omega) (by rw [hul]; exact ea) (by rw [hul]; exact oka)
          rw [hul] at SUB'
          exact SUB'.of_chk
      · have h1' : (usize.natAbs == 1) = false := by simpa using h1
        simp only [h1', Bool.false_eq_true, if_false, Bool.false_and]
        exact SUB

theorem aors_ui_refines (isSub : Bool) (s : St) (w u : Nat) (vval : Nat) (hs : s.ok = true)
    (hw : OWF (s.h w)) (hu : OWF (s.h u)) (hv : vval < B) :
    Refines s (aors_ui 1 isSub s w u vval) w (Mpz.aors_ui isSub (view (s.h w)) (view (s.h u)) vval) := by
  have G := MPZ_REALLOC_grown s w ((s.h u).size.natAbs + 1) hw
  obtain ⟨ea, oka⟩ := grown_rd G u (s.h u).size.natAbs hu (Nat.le_refl _)
  have hul := view_d_length hu
  rw [List.take_of_length_le (by omega)] at ea
  have B1 := aors_ui_body_refines isSub _ w u (s.h u).size (view (s.h u)).d vval (by rw [G.ok]; exact hs) (G.bwf w hw.1)
    (view_limbs hu) hul hv G.room ea oka
  have halloc : (Mpz.grow (view (s.h w)) ((s.h u).size.natAbs + 1)).alloc =
      ((MPZ_REALLOC s w ((s.h u).size.natAbs + 1)).h w).buf.alloc := G.alloc.symm
  unfold aors_ui Mpz.aors_ui
  simp only [St.SIZ]
  have e1 : (view (s.h u)).size = (s.h u).size := rfl
  rw [e1, halloc]
  exact B1.of_grown G

/-! ## mpz_mul_2exp -/

/-- store `r` at wp[k, k+|r|), then (carry case) `e` right above it, then zeros at wp[0, k), set the size -/
theorem tail_shift (s : St) (w k : Nat) (r e : List Nat) (neg c : Bool) (hs : s.ok = true) (hc : c = true)
    (hb : BWF (s.h w).buf) (hl : Limbs r) (he : Limbs e) (hr : k + r.length + e.length ≤ (s.h w).buf.alloc) :
    let s1 := (s.chk c).wr ((s.PTR w).add k) r
    let s2 := s1.wr ((s.PTR w).add (r.length + k)) e
    let s3 := MPN_ZERO s2 (s.PTR w) k
    Refines s (s3.setSize w (sgn neg (r.length + k + e.length))) w
      ⟨(s.h w).buf.alloc, sgn neg (r.length + k + e.length), List.replicate k 0 ++ (r ++ e)⟩ := by
  intro s1 s2 s3
  obtain ⟨A, X, R, hL, hA, hX⟩ := decomp3 (s.h w).buf.limbs k r.length (by rw [hb.1]; omega)
  have hRlen : e.length ≤ R.length := by
    have := congrArg List.length hL; simp [hb.1] at this; omega
  obtain ⟨A', Y, R', hR, hA', hY⟩ := decomp3 R 0 e.length (by omega)
  have hA'0 : A' = [] := List.length_eq_zero_iff.mp hA'
  subst hA'0
  simp only [List.nil_append] at hR
  have hb1 : BWF (s1.h w).buf := wr_BWF _ _ hl _ hb
  have hb2 : BWF (s2.h w).buf := wr_BWF _ _ he _ hb1
  obtain ⟨L1, ok1⟩ := wr_decomp (s.chk c) ((s.PTR w).add k) r A X R (by simpa using hL) (by simpa using hb.1)
    (by simpa using hA) hX
  simp only [add_id, PTR_id] at L1
  obtain ⟨L2, ok2⟩ := wr_decomp s1 ((s.PTR w).add (r.length + k)) e (A ++ r) Y R'
    (by simp only [add_id, PTR_id]; rw [L1, hR]; simp) (by simpa using hb1.1) (by simp [hA]; omega) hY
  simp only [add_id, PTR_id] at L2
  obtain ⟨L3, ok3⟩ := wr_decomp s2 (s.PTR w) (List.replicate k 0) [] A (r ++ e ++ R')
    (by simp only [PTR_id]; rw [L2]; simp) (by simpa using hb2.1) (by simp) (by simp [hA])
  simp only [PTR_id, List.nil_append] at L3
  have hp1 : s.PTR w = s1.PTR w := by simp [s1]
  have hp2 : s.PTR w = s2.PTR w := by simp [s2, s1]
  refine ⟨?_, ?_, ?_, ?_⟩
  · simp only [setSize_ok, s3, MPN_ZERO, ok3]
    rw [ok2, ok1]
    simp [hs, hc, s2, s1]
  · simp only [view, setSize_size, setSize_buf, natAbs_sgn, s3, MPN_ZERO, L3, wr_alloc]
    simp only [s2, s1, wr_alloc, chk_h]
    congr 1
    rw [← List.append_assoc, ← List.append_assoc, List.take_append_of_le_length (by simp; omega)]
    exact List.take_of_length_le (by simp; omega)
  · simp only [setSize_buf, s3, MPN_ZERO]
    exact wr_BWF _ _ (Mpz.Limbs_replicate_zero k) _ hb2
  · intro x hx
    rw [setSize_other _ _ _ hx]
    simp only [s3, MPN_ZERO, s2, s1]
    rw [wr_other _ _ _ (by simpa using hx), wr_other _ _ _ (by simpa using hx), wr_other _ _ _ (by simpa using hx)]; rfl

/-- mul_2exp.c:46-68 on any state in which w has room for |usize| + limb_cnt + 1 limbs -/
theorem mul_2exp_body_refines (s1 : St) (w u : Nat) (usize : Int) (d : List Nat) (k c : Nat)
    (hok1 : s1.ok = true) (hbw : BWF (s1.h w).buf) (hLu : Limbs d) (hul : d.length = usize.natAbs) (hc : c < 64)
    (hroom : usize.natAbs + k + 1 ≤ (s1.h w).buf.alloc)
    (ea : s1.rd (s1.PTR u) usize.natAbs = d) (oka : s1.rdOk (s1.PTR u) usize.natAbs = true) :
    Refines s1 (mul_2exp_body s1 w u usize k c) w
      ⟨(s1.h w).buf.alloc, sgn (usize < 0) (List.replicate k 0 ++ Mpz.mul_2exp_hi d c).length,
        List.replicate k 0 ++ Mpz.mul_2exp_hi d c⟩ := by
  unfold mul_2exp_body Mpz.mul_2exp_hi
  have hlive : ∀ (r : List Nat), ((s1.chk true).wr ((s1.PTR w).add k) r).live ((s1.PTR w).add (r.length + k)) = true := by
    intro r; simp
  by_cases h0 : c = 0
  · subst h0
    simp only [bne_self_eq_false, Bool.false_eq_true, if_false, MPN_COPY, ea, oka]
    have T := tail_shift s1 w k d [] (decide (usize < 0)) true hok1 rfl hbw hLu (by intro x hx; cases hx)
      (by simp; omega)
    simp only [List.length_nil, Nat.add_zero, List.append_nil] at T
    rw [wr_nil _ _ (hlive d) (by simp; omega)] at T
    have e : (List.replicate k 0 ++ d).length = d.length + k := by simp; omega
    rw [e, ← hul]; exact T
  · have h0' : (c != 0) = true := by simpa using h0
    obtain ⟨_, _, ll, ln⟩ := Mpz.K.lshift_val d c hLu (by omega) (by omega)
    simp only [h0', if_true, mpn_lshift, ea, oka]
    by_cases hcy : (Mpir.lshift d c).2 = 0
    · simp only [hcy, bne_self_eq_false, Bool.false_eq_true, if_false]
      have T := tail_shift s1 w k (Mpir.lshift d c).1 [] (decide (usize < 0)) true hok1 rfl hbw ll (by intro x hx; cases hx)
        (by simp; omega)
      simp only [List.length_nil, Nat.add_zero, List.append_nil] at T
      rw [wr_nil _ _ (hlive _) (by simp; omega)] at T
      have e : (List.replicate k 0 ++ (Mpir.lshift d c).1).length = (Mpir.lshift d c).1.length + k := by simp; omega
      rw [e, ln, ← hul]; rw [ln] at T; exact T
    · have hcy' : ((Mpir.lshift d c).2 != 0) = true := by simpa using hcy
      simp only [hcy', if_true]
      have hcyB : (Mpir.lshift d c).2 < B := by
        have := (Mpz.K.lshift_val d c hLu (by omega) (by omega)).2.1
        have h2 : 2 ^ c ≤ 2 ^ 64 := Nat.pow_le_pow_right (by omega) (by omega)
        unfold B; omega
      have T := tail_shift s1 w k (Mpir.lshift d c).1 [(Mpir.lshift d c).2] (decide (usize < 0)) true hok1 rfl hbw ll
        (by intro x hx; simp at hx; omega) (by simp; omega)
      have e : (List.replicate k 0 ++ ((Mpir.lshift d c).1 ++ [(Mpir.lshift d c).2])).length = (Mpir.lshift d c).1.length + k + 1 := by
        simp; omega
      rw [e, ln, ← hul]
      simp only [List.length_cons, List.length_nil, Nat.zero_add] at T
      rw [ln] at T
      simpa [St.store] using T

theorem mul_2exp_refines (s : St) (w u : Nat) (cnt : Nat) (hs : s.ok = true) (hw : OWF (s.h w)) (hu : OWF (s.h u)) :
    Refines s (mul_2exp 1 s w u cnt) w (Mpz.mul_2exp (view (s.h w)) (view (s.h u)) cnt) := by
  unfold mul_2exp Mpz.mul_2exp
  simp only [St.SIZ]
  have e1 : (view (s.h u)).size = (s.h u).size := rfl
  rw [e1]
  by_cases h0 : (s.h u).size = 0
  · simp only [h0, beq_self_eq_true, if_true]
    refine ⟨by simpa using hs, by simp [view], by simpa using hw.1, fun x hx => setSize_other _ _ _ hx⟩
  · have h0' : ((s.h u).size == 0) = false := by simpa using h0
    simp only [h0', Bool.false_eq_true, if_false]
    have G := MPZ_REALLOC_grown s w ((s.h u).size.natAbs + cnt / 64 + 1) hw
    obtain ⟨ea, oka⟩ := grown_rd G u (s.h u).size.natAbs hu (Nat.le_refl _)
    have hul := view_d_length hu
    rw [List.take_of_length_le (by omega)] at ea
    have B1 := mul_2exp_body_refines _ w u (s.h u).size (view (s.h u)).d (cnt / 64) (cnt % 64) (by rw [G.ok]; exact hs)
      (G.bwf w hw.1) (view_limbs hu) hul (Nat.mod_lt _ (by omega)) G.room ea oka
    have halloc : (Mpz.grow (view (s.h w)) ((s.h u).size.natAbs + cnt / 64 + 1)).alloc =
      ((MPZ_REALLOC s w ((s.h u).size.natAbs + cnt / 64 + 1)).h w).buf.alloc := G.alloc.symm
    rw [halloc]
    exact B1.of_grown G

/-! ## mpz_com -/

theorem com_refines (s : St) (w u : Nat) (hs : s.ok = true) (hw : OWF (s.h w)) (hu : OWF (s.h u)) :
    Refines s (com 1 s w u) w (Spec.com (view (s.h w)) (view (s.h u))) := by
  unfold com Spec.com
  simp only [St.SIZ]
  have e1 : (view (s.h u)).size = (s.h u).size := rfl
  rw [e1]
  have hul := view_d_length hu
  have hLu := view_limbs hu
  by_cases hpos : (s.h u).size ≥ 0
  · simp only [hpos, ↓reduceIte]
    have G := MPZ_REALLOC_grown s w ((s.h u).size.natAbs + 1) hw
    obtain ⟨ea, oka⟩ := grown_rd G u (s.h u).size.natAbs hu (Nat.le_refl _)
    rw [List.take_of_length_le (by omega)] at ea
    have hok1 : (MPZ_REALLOC s w ((s.h u).size.natAbs + 1)).ok = true := by rw [G.ok]; exact hs
    have hbw := G.bwf w hw.1
    have hroom := G.room
    have halloc : (Mpz.grow (view (s.h w)) ((s.h u).size.natAbs + 1)).alloc =
      ((MPZ_REALLOC s w ((s.h u).size.natAbs + 1)).h w).buf.alloc := G.alloc.symm
    rw [halloc]
    refine Refines.of_grown G ?_
    unfold com_pos_body
    by_cases h0 : (s.h u).size.natAbs = 0
    · simp only [h0, beq_self_eq_true, if_true]
      have := set1_refines _ w 1 true hok1 hbw (by omega) (by unfold B; omega)
      simpa [h0] using this
    · have h0' : ((s.h u).size.natAbs == 0) = false := by simpa using h0
      have hne : (view (s.h u)).d ≠ [] := by intro h; rw [h] at hul; simp at hul; omega
      obtain ⟨_, ac, al, an⟩ := Mpz.K.add_1_val _ 1 hLu (by unfold B; omega) hne
      simp only [h0', Bool.false_eq_true, if_false, mpn_add_1, ea, oka]
      by_cases hcy : (Mpir.add_1 (view (s.h u)).d 1).2 = 0
      · simp only [hcy, bne_self_eq_false, Bool.false_eq_true, if_false]
        have T := tail_take _ w (Mpir.add_1 (view (s.h u)).d 1).1 (sgn true (s.h u).size.natAbs) true hok1 rfl hbw al
          (by omega) (by rw [natAbs_sgn]; omega)
        rw [natAbs_sgn, List.take_of_length_le (by omega)] at T
        exact T
      · have hcy' : ((Mpir.add_1 (view (s.h u)).d 1).2 != 0) = true := by simpa using hcy
        simp only [hcy', if_true]
        have T := tail_carry _ w (Mpir.add_1 (view (s.h u)).d 1).1 (Mpir.add_1 (view (s.h u)).d 1).2
          ((s.h u).size.natAbs + 1) true true hok1 rfl hbw al (by have := B_eq; omega) (by omega) (by omega)
        rw [List.take_of_length_le (by simp; omega)] at T
        simp only [an, hul] at T
        exact T
  · simp only [hpos, ↓reduceIte]
    have G := MPZ_REALLOC_grown s w (s.h u).size.natAbs hw
    obtain ⟨ea, oka⟩ := grown_rd G u (s.h u).size.natAbs hu (Nat.le_refl _)
    rw [List.take_of_length_le (by omega)] at ea
    have hok1 : (MPZ_REALLOC s w (s.h u).size.natAbs).ok = true := by rw [G.ok]; exact hs
    have hbw := G.bwf w hw.1
    have hroom := G.room
    have halloc : (Mpz.grow (view (s.h w)) (s.h u).size.natAbs).alloc =
      ((MPZ_REALLOC s w (s.h u).size.natAbs).h w).buf.alloc := G.alloc.symm
    rw [halloc]
    refine Refines.of_grown G ?_
    have hne : (view (s.h u)).d ≠ [] := by intro h; rw [h] at hul; simp at hul; omega
    have SUB := aors_ui_sub_refines true _ w u (view (s.h u)).d 1 hok1 hbw hLu hne (by unfold B; omega) (by omega)
      (by rw [hul]; exact ea) (by rw [hul]; exact oka)
    rw [hul] at SUB
    simpa [aors_ui_sub, com_neg_body] using SUB

/-! ## mpz_tdiv_q_2exp -/

/-- after `MPZ_REALLOC (w, n)`, `(PTR (x) + k)[0, m)` for k + m ≤ |SIZ x| -/
theorem grown_rd_off {s s' : St} {w n : Nat} (G : Grown s s' w n) (x k m : Nat) (hx : OWF (s.h x))
    (hk : k + m ≤ (s.h x).size.natAbs) :
    s'.rd ((s'.PTR x).add k) m = ((view (s.h x)).d.drop k).take m ∧ s'.rdOk ((s'.PTR x).add k) m = true := by
  have hfit := view_fit hx
  refine ⟨?_, ?_⟩
  · rw [rd_PTR_add]
    have h1 := G.take x (k + m) hx.1 (by omega)
    have : ((s'.h x).buf.limbs.drop k).take m = ((s'.h x).buf.limbs.take (k + m)).drop k := by
      rw [List.drop_take]; congr 1; omega
    rw [this, h1]
    simp only [view]
    rw [List.drop_take, List.drop_take, List.take_take]
    congr 1; omega
  · rw [rdOk_PTR_add]; have := G.mono x; simp; omega

theorem tdiv_q_2exp_refines (s : St) (w u : Nat) (cnt : Nat) (hs : s.ok = true) (hw : OWF (s.h w)) (hu : OWF (s.h u)) :
    Refines s (mpz_tdiv_q_2exp s w u cnt) w (Spec.tdiv_q_2exp (view (s.h w)) (view (s.h u)) cnt) := by
  unfold mpz_tdiv_q_2exp Spec.tdiv_q_2exp
  simp only [St.SIZ]
  have e1 : (view (s.h u)).size = (s.h u).size := rfl
  rw [e1]
  have hul := view_d_length hu
  have hLu := view_limbs hu
  by_cases hle : (s.h u).size.natAbs ≤ cnt / 64
  · simp only [hle, ↓reduceIte]
    refine ⟨by simpa using hs, by simp [view], by simpa using hw.1, fun x hx => setSize_other _ _ _ hx⟩
  · simp only [hle, ↓reduceIte]
    have G := MPZ_REALLOC_grown s w ((s.h u).size.natAbs - cnt / 64) hw
    obtain ⟨ea, oka⟩ := grown_rd_off G u (cnt / 64) ((s.h u).size.natAbs - cnt / 64) hu (by omega)
    rw [List.take_of_length_le (by simp; omega)] at ea
    have hok1 : (MPZ_REALLOC s w ((s.h u).size.natAbs - cnt / 64)).ok = true := by rw [G.ok]; exact hs
    have hbw := G.bwf w hw.1
    have hroom := G.room
    have halloc : (Mpz.grow (view (s.h w)) ((s.h u).size.natAbs - cnt / 64)).alloc =
      ((MPZ_REALLOC s w ((s.h u).size.natAbs - cnt / 64)).h w).buf.alloc := G.alloc.symm
    rw [halloc]
    refine Refines.of_grown G ?_
    have hLd : Limbs ((view (s.h u)).d.drop (cnt / 64)) := Limbs_drop hLu _
    have hdl : ((view (s.h u)).d.drop (cnt / 64)).length = (s.h u).size.natAbs - cnt / 64 := by simp; omega
    unfold tdiv_q_2exp_body
    by_cases h0 : cnt % 64 = 0
    · simp only [h0, bne_self_eq_false, Bool.false_eq_true, if_false, MPN_COPY, ea, oka]
      have T := tail_take _ w ((view (s.h u)).d.drop (cnt / 64)) (sgn (decide ((s.h u).size < 0)) ((s.h u).size.natAbs - cnt / 64))
        true hok1 rfl hbw hLd (by omega) (by rw [natAbs_sgn]; omega)
      rw [natAbs_sgn, List.take_of_length_le (by omega)] at T
      exact T
    · have h0' : (cnt % 64 != 0) = true := by simpa using h0
      simp only [h0', if_true, mpn_rshift, ea, oka]
      have hc : cnt % 64 < 64 := Nat.mod_lt _ (by omega)
      obtain ⟨x, xs, hxs⟩ : ∃ x xs, (view (s.h u)).d.drop (cnt / 64) = x :: xs := by
        cases h : (view (s.h u)).d.drop (cnt / 64) with
        | nil => rw [h] at hdl; simp at hdl; omega
        | cons x xs => exact ⟨x, xs, rfl⟩
      obtain ⟨_, _, rl, rn, _, _⟩ := Mpir.rshift_val' x xs (cnt % 64) (by rw [← hxs]; exact hLd) (by omega) (by omega)
      rw [← hxs] at rl rn
      have hne : (Mpir.rshift ((view (s.h u)).d.drop (cnt / 64)) (cnt % 64)).1 ≠ [] := by
        intro h; rw [h] at rn; simp at rn; omega
      obtain ⟨hld, R⟩ := tail_strip _ w (Mpir.rshift ((view (s.h u)).d.drop (cnt / 64)) (cnt % 64)).1
        (decide ((s.h u).size < 0)) true hok1 rfl hbw rl (by omega) hne
      simp only [rn, hdl] at hld R
      simp only [hld] at R ⊢
      exact R

end Mpir.AllocSafe
