/- Proofs about the size-aware mpz models (Mpir/Model/AllocSafeMpz.lean): refinement of the value-level
   models of Mpir/Model/Mpz.lean, with `ok = true`. -/
import Mpir.Model.AllocSafeMpz
import MpirProofs.Lemmas.AllocSafe
namespace Mpir.AllocSafe
open Mpir
open Mpir.Mpz (sgn diffSign Norm natAbs_sgn)

/-! ## common endings -/

/-- what a function establishes: no bad access, the destination refines the value-level result `m`, the
    block is still a block, no other variable is touched -/
structure Refines (s s' : St) (w : Nat) (m : Mpz.Mpz) : Prop where
  ok : s'.ok = true
  view : view (s'.h w) = m
  bwf : BWF (s'.h w).buf
  frame : ∀ x, x ≠ w → s'.h x = s.h x

/-- store `r` at wp[0, |r|), MPN_NORMALIZE, set the size -/
theorem tail_norm (s : St) (w : Nat) (r : List Nat) (neg c : Bool) (hs : s.ok = true) (hc : c = true)
    (hb : BWF (s.h w).buf) (hl : Limbs r) (hr : r.length ≤ (s.h w).buf.alloc) :
    let s1 := (s.chk c).wr (s.PTR w) r
    let ns := MPN_NORMALIZE s1 (s.PTR w) r.length
    Refines s (ns.2.setSize w (sgn neg ns.1)) w ⟨(s.h w).buf.alloc, sgn neg (normalize r).length, normalize r⟩ := by
  intro s1 ns
  have hlimbs : (s1.h w).buf.limbs = r ++ (s.h w).buf.limbs.drop r.length := by
    have := wr_limbs (s.chk c) (s.PTR w) r (by simpa using hr)
    simpa using this
  have hrd : s1.rd (s.PTR w) r.length = r := by
    have : s.PTR w = s1.PTR w := by simp [s1]
    rw [this, rd_PTR, hlimbs]; simp
  have hns1 : ns.1 = (normalize r).length := by simp [ns, MPN_NORMALIZE, hrd]
  have hle := Mpz.normalize_length_le r
  refine ⟨?_, ?_, ?_, ?_⟩
  · have : s.PTR w = s1.PTR w := by simp [s1]
    simp only [ns, MPN_NORMALIZE, setSize_ok, chk_ok]
    rw [this, rdOk_PTR]
    simp [s1, wr_ok, hs, hc, hr]
  · simp only [view, setSize_size, setSize_buf, natAbs_sgn]
    simp only [ns, MPN_NORMALIZE, chk_h, hlimbs, hrd]
    simp only [s1, wr_alloc, chk_h]
    rw [List.take_append_of_le_length hle, take_normalize_length]
  · simp only [setSize_buf, ns, MPN_NORMALIZE, chk_h]
    exact wr_BWF _ _ hl _ hb
  · intro x hx
    rw [setSize_other _ _ _ hx]
    simp only [ns, MPN_NORMALIZE, chk_h, s1]
    rw [wr_other _ _ _ (by simpa using hx)]; rfl

/-- store `r` at wp[0, |r|), the carry limb at wp[|r|], size = k ≤ |r| + 1 -/
theorem tail_carry (s : St) (w : Nat) (r : List Nat) (cy k : Nat) (neg c : Bool) (hs : s.ok = true) (hc : c = true)
    (hb : BWF (s.h w).buf) (hl : Limbs r) (hcy : cy < B) (hr : r.length + 1 ≤ (s.h w).buf.alloc)
    (hk : k ≤ r.length + 1) :
    let s1 := (s.chk c).wr (s.PTR w) r
    let s2 := s1.store (s.PTR w) r.length cy
    Refines s (s2.setSize w (sgn neg k)) w ⟨(s.h w).buf.alloc, sgn neg k, (r ++ [cy]).take k⟩ := by
  intro s1 s2
  have hl1 : (s1.h w).buf.limbs = r ++ (s.h w).buf.limbs.drop r.length := by
    have := wr_limbs (s.chk c) (s.PTR w) r (by simp; omega)
    simpa using this
  have hb1 : BWF (s1.h w).buf := wr_BWF _ _ hl _ hb
  have hlen : r.length + 1 ≤ (s.h w).buf.limbs.length := by rw [hb.1]; exact hr
  have hl2 : (s2.h w).buf.limbs = r ++ [cy] ++ (s.h w).buf.limbs.drop (r.length + 1) := by
    have := wr_limbs s1 ((s.PTR w).add r.length) [cy] (by simp [s1]; omega)
    simp only [add_id, PTR_id, add_off, PTR_off, Nat.zero_add, List.length_cons, List.length_nil] at this
    simp only [s2, St.store, this, hl1]
    simp [List.drop_drop]
  refine ⟨?_, ?_, ?_, ?_⟩
  · simp [s2, St.store, wr_ok, s1, hs, hc]; omega
  · simp only [view, setSize_size, setSize_buf, natAbs_sgn, hl2]
    simp only [s2, St.store, wr_alloc, s1, chk_h]
    rw [List.take_append_of_le_length (by simpa using hk)]
  · simp only [setSize_buf, s2, St.store]
    exact wr_BWF _ _ (by intro x hx; simp at hx; omega) _ hb1
  · intro x hx
    rw [setSize_other _ _ _ hx]
    simp only [s2, St.store, s1]
    rw [wr_other _ _ _ (by simpa using hx), wr_other _ _ _ (by simpa using hx)]; rfl

/-! ## reading a source after MPZ_REALLOC -/

/-- after `MPZ_REALLOC (w, n)`, `PTR (x)[0, k)` for k ≤ |SIZ x| is in range and holds the limbs it held
    before, whether or not x is w -/
theorem grown_rd {s s' : St} {w n : Nat} (G : Grown s s' w n) (x k : Nat) (hx : OWF (s.h x))
    (hk : k ≤ (s.h x).size.natAbs) :
    s'.rd (s'.PTR x) k = (view (s.h x)).d.take k ∧ s'.rdOk (s'.PTR x) k = true := by
  have hfit : (s.h x).size.natAbs ≤ (s.h x).buf.alloc := by simpa [view] using hx.2.2.1
  refine ⟨?_, ?_⟩
  · rw [rd_PTR, G.take x k hx.1 (by omega)]
    simp [view, List.take_take, Nat.min_eq_left hk]
  · rw [rdOk_PTR]; have := G.mono x; simp; omega

theorem view_d_length {o : Obj} (h : OWF o) : (view o).d.length = o.size.natAbs := by
  simpa [view] using h.2.2.2.1

/-! ## mpz_add / mpz_sub -/

theorem aorsCore_refines (s : St) (w u v : Nat) (us vs : Int) (hs : s.ok = true)
    (hw : OWF (s.h w)) (hu : OWF (s.h u)) (hv : OWF (s.h v))
    (hus : us.natAbs = (s.h u).size.natAbs) (hvs : vs.natAbs = (s.h v).size.natAbs)
    (hle : vs.natAbs ≤ us.natAbs) :
    Refines s (aorsCore false 1 s w u v us vs) w
      (Mpz.aorsCore (view (s.h w)) (view (s.h u)) (view (s.h v)) us vs) := by
  have G := MPZ_REALLOC_grown s w (us.natAbs + 1) hw
  obtain ⟨ea, oka⟩ := grown_rd G u us.natAbs hu (by omega)
  obtain ⟨eb, okb⟩ := grown_rd G v vs.natAbs hv (by omega)
  have hul := view_d_length hu
  have hvl := view_d_length hv
  rw [List.take_of_length_le (by omega)] at ea eb
  have hLu : Limbs (view (s.h u)).d := hu.2.2.2.2.1
  have hLv : Limbs (view (s.h v)).d := hv.2.2.2.2.1
  have hbw := G.bwf w hw.1
  have hroom := G.room
  have hfr : ∀ s2 : St, (∀ x, x ≠ w → s2.h x = (MPZ_REALLOC s w (us.natAbs + 1)).h x) → ∀ x, x ≠ w → s2.h x = s.h x :=
    fun s2 h x hx => (h x hx).trans (G.other x hx)
  have fin : ∀ (s2 : St) (m : Mpz.Mpz), Refines (MPZ_REALLOC s w (us.natAbs + 1)) s2 w m → Refines s s2 w m :=
    fun s2 m R => ⟨R.ok, R.view, R.bwf, hfr s2 R.frame⟩
  unfold aorsCore Mpz.aorsCore
  simp only [Bool.false_eq_true, if_false]
  generalize hs1 : MPZ_REALLOC s w (us.natAbs + 1) = s1 at *
  have hok1 : s1.ok = true := by rw [G.ok]; exact hs
  have halloc : (Mpz.grow (view (s.h w)) (us.natAbs + 1)).alloc = (s1.h w).buf.alloc := G.alloc.symm
  rw [halloc]
  split
  · split
    · -- mpn_sub
      rename_i hne
      have hne' : us.natAbs ≠ vs.natAbs := by simpa using hne
      obtain ⟨_, _, sl, sn⟩ := Mpz.K.sub_val _ _ hLu hLv (by omega : (view (s.h v)).d.length ≤ (view (s.h u)).d.length)
      simp only [mpn_sub, ea, eb, oka, okb, Bool.and_self]
      have := tail_norm s1 w (Mpir.sub (view (s.h u)).d (view (s.h v)).d).1 (decide (us < 0)) true hok1 rfl hbw sl (by omega)
      simp only [sn, hul, ← hus] at this
      exact fin _ _ this
    · rename_i hne
      have heq : us.natAbs = vs.natAbs := by simpa using hne
      obtain ⟨eb', okb'⟩ := grown_rd G v us.natAbs hv (by omega)
      rw [List.take_of_length_le (by omega)] at eb'
      simp only [mpn_cmp, ea, eb', oka, okb', Bool.and_self]
      split
      · obtain ⟨_, _, sl, sn⟩ := Mpz.K.sub_n_val _ _ hLv hLu (by omega : (view (s.h v)).d.length = (view (s.h u)).d.length)
        simp only [mpn_sub_n, chk_rd, chk_rdOk, ea, eb', oka, okb', Bool.and_self, chk_PTR]
        have := tail_norm (s1.chk true) w (Mpir.sub_n (view (s.h v)).d (view (s.h u)).d).1 (decide (us ≥ 0)) true (by simpa using hok1) rfl hbw sl (by simp; omega)
        simp only [sn, hvl, ← hvs, ← heq, chk_PTR, chk_h] at this
        exact fin _ _ ⟨this.ok, this.view, this.bwf, this.frame⟩
      · obtain ⟨_, _, sl, sn⟩ := Mpz.K.sub_n_val _ _ hLu hLv (by omega : (view (s.h u)).d.length = (view (s.h v)).d.length)
        simp only [mpn_sub_n, chk_rd, chk_rdOk, ea, eb', oka, okb', Bool.and_self, chk_PTR]
        have := tail_norm (s1.chk true) w (Mpir.sub_n (view (s.h u)).d (view (s.h v)).d).1 (decide (us < 0)) true (by simpa using hok1) rfl hbw sl (by simp; omega)
        simp only [sn, hul, ← hus, chk_PTR, chk_h] at this
        exact fin _ _ ⟨this.ok, this.view, this.bwf, this.frame⟩
  · obtain ⟨_, ac, al, an⟩ := Mpz.K.add_val _ _ hLu hLv (by omega : (view (s.h v)).d.length ≤ (view (s.h u)).d.length)
    simp only [mpn_add, ea, eb, oka, okb, Bool.and_self]
    have := tail_carry s1 w (Mpir.add (view (s.h u)).d (view (s.h v)).d).1 (Mpir.add (view (s.h u)).d (view (s.h v)).d).2
      (us.natAbs + (Mpir.add (view (s.h u)).d (view (s.h v)).d).2) (decide (us < 0)) true hok1 rfl hbw al
      (by have := B_eq; omega) (by omega) (by omega)
    simp only [an, hul, ← hus] at this
    exact fin _ _ this

theorem aors_aux (s : St) (w u v : Nat) (vs : Int) (hs : s.ok = true)
    (hw : OWF (s.h w)) (hu : OWF (s.h u)) (hv : OWF (s.h v)) (hn : vs.natAbs = (s.h v).size.natAbs) :
    Refines s
      (if (s.h u).size.natAbs < vs.natAbs then aorsCore false 1 s w v u vs (s.h u).size
        else aorsCore false 1 s w u v (s.h u).size vs) w
      (if (s.h u).size.natAbs < vs.natAbs then
          Mpz.aorsCore (view (s.h w)) (view (s.h v)) (view (s.h u)) vs (s.h u).size
        else Mpz.aorsCore (view (s.h w)) (view (s.h u)) (view (s.h v)) (s.h u).size vs) := by
  by_cases h : (s.h u).size.natAbs < vs.natAbs
  · rw [if_pos h, if_pos h]; exact aorsCore_refines s w v u _ _ hs hw hv hu hn rfl (Nat.le_of_lt h)
  · rw [if_neg h, if_neg h]; exact aorsCore_refines s w u v _ _ hs hw hu hv rfl hn (Nat.le_of_not_lt h)

theorem aors_refines (isSub : Bool) (s : St) (w u v : Nat) (hs : s.ok = true)
    (hw : OWF (s.h w)) (hu : OWF (s.h u)) (hv : OWF (s.h v)) :
    Refines s (aors false 1 isSub s w u v) w (Mpz.aors isSub (view (s.h w)) (view (s.h u)) (view (s.h v))) := by
  unfold aors Mpz.aors
  simp only [St.SIZ]
  have e1 : (view (s.h u)).size = (s.h u).size := rfl
  have e2 : (view (s.h v)).size = (s.h v).size := rfl
  rw [e1, e2]
  cases isSub
  · simp only [Bool.false_eq_true, if_false]; exact aors_aux s w u v _ hs hw hu hv rfl
  · simp only [if_true]; exact aors_aux s w u v _ hs hw hu hv (by simp)

end Mpir.AllocSafe
