/- Helper lemmas for the number-theoretic models (Mpir/Model/Numth.lean), property C16. -/
import MpirProofs.Lemmas.Base
import Mpir.Model.Numth
import Mpir.Ops.Numth
import Mathlib.NumberTheory.Primorial
import Mathlib.NumberTheory.Padics.PadicVal.Basic
import Mathlib.Data.Nat.Factorization.Basic
import Mathlib.Data.Nat.Fib.Basic
import Mathlib.Data.Nat.Factorial.Basic
import Mathlib.Data.Nat.Factorial.DoubleFactorial
import Mathlib.Data.Nat.Choose.Basic
import Mathlib.Data.Nat.Prime.Basic
import Mathlib.Data.Nat.Bitwise
import Mathlib.FieldTheory.Finite.Basic
import Mathlib.Tactic.Ring
import Mathlib.Tactic.Linarith
import Mathlib.Tactic.LinearCombination
import Mathlib.Tactic.IntervalCases
import Mathlib.Tactic.NormNum
namespace Mpir.Numth
open Mpir Mpir.Gen.NumthTabs

/-! ## The executable specs are the Mathlib functions -/

theorem factorial_eq (n : ℕ) : factorial n = n.factorial := by
  induction n with
  | zero => rfl
  | succ n ih => simp [factorial, ih, Nat.factorial_succ]

open Nat in
theorem doubleFactorial_eq : ∀ n : ℕ, doubleFactorial n = n‼
  | 0 => rfl
  | 1 => rfl
  | n + 2 => by simp [doubleFactorial, doubleFactorial_eq n]

theorem fibLoop_eq (n m : ℕ) : fibLoop n (Nat.fib m) (Nat.fib (m + 1)) = Nat.fib (n + m) := by
  induction n generalizing m with
  | zero => simp [fibLoop]
  | succ n ih =>
    have h : Nat.fib m + Nat.fib (m + 1) = Nat.fib (m + 1 + 1) := by rw [Nat.fib_add_two]
    rw [fibLoop, h, ih (m + 1)]; congr 1; omega

theorem fibSpec_eq (n : ℕ) : fibSpec n = Nat.fib n := by
  have := fibLoop_eq n 0; simpa [fibSpec] using this

theorem fibLoop_add (n a b a' b' : ℕ) : fibLoop n (a + a') (b + b') = fibLoop n a b + fibLoop n a' b' := by
  induction n generalizing a b a' b' with
  | zero => simp [fibLoop]
  | succ n ih => simp only [fibLoop]; rw [← ih]; congr 1; omega

/-- L(n) + F(n) = 2 F(n+1) characterises the Lucas numbers -/
theorem lucSpec_add_fib (n : ℕ) : lucSpec n + Nat.fib n = 2 * Nat.fib (n + 1) := by
  have h1 : fibLoop n 2 2 = lucSpec n + fibSpec n := by
    have := fibLoop_add n 2 1 0 1; simpa [lucSpec, fibSpec] using this
  have h2 : fibLoop n 2 2 = 2 * fibLoop n 1 1 := by
    have := fibLoop_add n 1 1 1 1; norm_num at this; omega
  have h3 : fibLoop n 1 1 = Nat.fib (n + 1) := by
    have := fibLoop_eq n 1; simpa using this
  rw [← fibSpec_eq]; omega

/-! ## trial-division primality is `Nat.Prime` -/

theorem noDivisorFrom_iff (n : ℕ) : ∀ fuel d, 1 ≤ d →
    (noDivisorFrom n fuel d = true ↔ ∀ m, d ≤ m → m < d + fuel → m * m ≤ n → ¬ m ∣ n) := by
  intro fuel
  induction fuel with
  | zero => intro d _; simp [noDivisorFrom]; intro m h1 h2; omega
  | succ fuel ih =>
    intro d hd
    rw [noDivisorFrom]
    by_cases h1 : d * d > n
    · simp only [h1, if_true, true_iff]
      intro m hm _ hmm
      have : d * d ≤ m * m := Nat.mul_le_mul hm hm
      omega
    · simp only [h1, if_false]
      by_cases h2 : n % d = 0
      · simp only [beq_iff_eq, h2, if_true]
        constructor
        · intro h; cases h
        · intro h; exact absurd (Nat.dvd_of_mod_eq_zero h2) (h d le_rfl (by omega) (by omega))
      · simp only [beq_iff_eq, h2, if_false]
        rw [ih (d + 1) (by omega)]
        constructor
        · intro h m hm hlt hmm
          rcases Nat.eq_or_lt_of_le hm with rfl | hgt
          · intro hdv; exact h2 (Nat.mod_eq_zero_of_dvd hdv)
          · exact h m hgt (by omega) hmm
        · intro h m hm hlt hmm; exact h m (by omega) (by omega) hmm

theorem isPrimeTD_iff (n : ℕ) : isPrimeTD n = true ↔ n.Prime := by
  unfold isPrimeTD
  rw [Bool.and_eq_true, decide_eq_true_eq, noDivisorFrom_iff n n 2 (by omega), Nat.prime_def_le_sqrt]
  constructor
  · rintro ⟨h2, h⟩
    refine ⟨h2, fun m hm hs => h m hm ?_ (Nat.le_sqrt.mp hs)⟩
    have := Nat.le_sqrt.mp hs
    nlinarith
  · rintro ⟨h2, h⟩
    exact ⟨h2, fun m hm _ hmm => h m hm (Nat.le_sqrt.mpr hmm)⟩

/-! ## odd part -/

/-- odd part of a natural number, computed by halving (0 for 0) -/
def oddPartAux : ℕ → ℕ → ℕ
  | 0, m => m
  | fuel + 1, m => if m % 2 = 0 ∧ m ≠ 0 then oddPartAux fuel (m / 2) else m
def oddPart (m : ℕ) : ℕ := oddPartAux m m

theorem oddPartAux_spec : ∀ fuel m, m ≠ 0 → m < 2 ^ fuel →
    oddPartAux fuel m % 2 = 1 ∧ ∃ t, m = 2 ^ t * oddPartAux fuel m := by
  intro fuel
  induction fuel with
  | zero => intro m h0 h; simp at h; omega
  | succ fuel ih =>
    intro m h0 hlt
    rw [oddPartAux]
    by_cases h : m % 2 = 0 ∧ m ≠ 0
    · rw [if_pos h]
      have hm2 : m / 2 ≠ 0 := by omega
      have hlt2 : m / 2 < 2 ^ fuel := by rw [pow_succ] at hlt; omega
      obtain ⟨ho, t, ht⟩ := ih (m / 2) hm2 hlt2
      refine ⟨ho, t + 1, ?_⟩
      generalize oddPartAux fuel (m / 2) = X at *
      have hm : m = 2 * (m / 2) := by omega
      rw [hm, ht, pow_succ]; ring
    · rw [if_neg h]
      exact ⟨by omega, 0, by simp⟩

/-- `oddPart m` is odd and `m = 2^t * oddPart m` for some t: this determines it -/
theorem oddPart_spec (m : ℕ) (h : m ≠ 0) : oddPart m % 2 = 1 ∧ ∃ t, m = 2 ^ t * oddPart m :=
  oddPartAux_spec m m h (Nat.lt_two_pow_self)

theorem odd_part_unique {a b s t : ℕ} (ha : a % 2 = 1) (hb : b % 2 = 1) (h : 2 ^ s * a = 2 ^ t * b) : s = t ∧ a = b := by
  induction s generalizing t with
  | zero =>
    cases t with
    | zero => simpa using h
    | succ t =>
      exfalso; simp only [pow_zero, one_mul, pow_succ] at h
      have : a = 2 * (2 ^ t * b) := by rw [h]; ring
      omega
  | succ s ih =>
    cases t with
    | zero =>
      exfalso; simp only [pow_zero, one_mul, pow_succ] at h
      have : b = 2 * (2 ^ s * a) := by rw [← h]; ring
      omega
    | succ t =>
      have : 2 ^ s * a = 2 ^ t * b := by
        simp only [pow_succ] at h; nlinarith
      obtain ⟨h1, h2⟩ := ih this
      exact ⟨by omega, h2⟩

/-! ## Fibonacci identities -/

theorem and_two_pow_ne_zero (n j : ℕ) : n &&& 2 ^ j ≠ 0 ↔ n / 2 ^ j % 2 = 1 := by
  rw [Nat.and_two_pow, Nat.testBit_eq_decide_div_mod_eq]
  by_cases h : n / 2 ^ j % 2 = 1
  · simp [h]
  · simp [h]

/-- Cassini in the form c² - c a - a² = (-1)^k for a = F(k), c = F(k+1) -/
theorem cassini_int (k : ℕ) :
    ((Nat.fib (k + 1) : ℤ)) ^ 2 - Nat.fib (k + 1) * Nat.fib k - (Nat.fib k : ℤ) ^ 2 = (-1) ^ k := by
  induction k with
  | zero => simp
  | succ k ih =>
    rw [Nat.fib_add_two, pow_succ]
    push_cast
    linear_combination (-1 : ℤ) * ih

theorem cassini_nat (k : ℕ) (a c : ℕ) (ha : a = Nat.fib k) (hc : c = Nat.fib (k + 1)) :
    (k % 2 = 0 → c * c = a * c + a * a + 1) ∧ (k % 2 = 1 → c * c + 1 = a * c + a * a) := by
  have h := cassini_int k
  rw [← ha, ← hc] at h
  constructor
  · intro hk
    have : (-1 : ℤ) ^ k = 1 := Even.neg_one_pow (Nat.even_iff.mpr hk)
    rw [this] at h
    have : (c : ℤ) * c = a * c + a * a + 1 := by linear_combination h
    exact_mod_cast this
  · intro hk
    have : (-1 : ℤ) ^ k = -1 := Odd.neg_one_pow (Nat.odd_iff.mpr hk)
    rw [this] at h
    have : (c : ℤ) * c + 1 = a * c + a * a := by linear_combination h
    exact_mod_cast this

/-- the doubling identities behind mpn_fib2_ui, for a = F(k), b = "F(k-1)" (b + a = F(k+1)) -/
theorem fib_doubling (k a b : ℕ) (ha : a = Nat.fib k) (hb : b + a = Nat.fib (k + 1)) :
    (k % 2 = 0 → 4 * (a * a) + 2 = Nat.fib (2 * k + 1) + b * b) ∧
    (k % 2 = 1 → 4 * (a * a) = Nat.fib (2 * k + 1) + b * b + 2) ∧
    a * a + b * b + Nat.fib (2 * k) = Nat.fib (2 * k + 1) := by
  have h1 := Nat.fib_two_mul_add_one k
  have h2 := Nat.fib_two_mul k
  obtain ⟨c1, c2⟩ := cassini_nat k a (b + a) ha hb
  rw [← ha, ← hb] at h1 h2
  have e : 2 * (b + a) - a = 2 * b + a := by omega
  rw [e] at h2
  refine ⟨fun hk => ?_, fun hk => ?_, ?_⟩
  · have := c1 hk; nlinarith
  · have := c2 hk; nlinarith
  · nlinarith
theorem fib_add_twelve_mod8 (n : ℕ) : Nat.fib (n + 12) % 8 = Nat.fib n % 8 := by
  have h := Nat.fib_add n 11
  have e11 : Nat.fib 11 = 89 := by decide
  have e12 : Nat.fib 12 = 144 := by decide
  rw [show n + 11 + 1 = n + 12 by omega, e11, show 11 + 1 = 12 by rfl, e12] at h
  omega

/-- F(4m+3) is 1, 2 or 5 modulo 8 (fib2_ui.c:52-58) -/
theorem fib_four_mul_add_three_mod8 (m : ℕ) :
    Nat.fib (4 * m + 3) % 8 = 1 ∨ Nat.fib (4 * m + 3) % 8 = 2 ∨ Nat.fib (4 * m + 3) % 8 = 5 := by
  induction m using Nat.strong_induction_on with
  | _ m ih =>
    match m with
    | 0 => decide
    | 1 => decide
    | 2 => decide
    | m + 3 =>
      have := ih m (by omega)
      rw [show 4 * (m + 3) + 3 = 4 * m + 3 + 12 by ring, fib_add_twelve_mod8]
      exact this

theorem lowLimbSub_zero (v : ℕ) : lowLimbSub v 0 = v := by
  unfold lowLimbSub; simp only [B_eq]; omega

theorem lowLimbSub_two (v : ℕ) (h : 3 ≤ v % 8) : lowLimbSub v 2 = v - 2 := by
  unfold lowLimbSub; simp only [B_eq]; omega

theorem four_mul_or_two (x : ℕ) : 4 * x ||| 2 = 4 * x + 2 := by
  have := Nat.shiftLeft_add_eq_or_of_lt (i := 2) (b := 2) (by decide) x
  rw [Nat.shiftLeft_eq] at this
  rw [mul_comm]; exact this.symm

/-- invariant of the doubling loop: p = (F(k), "F(k-1)") with F(-1) = 1 -/
def FibPair (k : ℕ) (p : ℕ × ℕ) : Prop := p.1 = Nat.fib k ∧ p.2 + Nat.fib k = Nat.fib (k + 1)

theorem fib2Step_spec (n j : ℕ) (p : ℕ × ℕ) (h : FibPair (n / 2 ^ (j + 1)) p) :
    FibPair (n / 2 ^ j) (fib2Step n (2 ^ (j + 1)) p.1 p.2) := by
  obtain ⟨f, f1⟩ := p
  obtain ⟨hf, hf1⟩ := h
  simp only at hf hf1
  generalize hk : n / 2 ^ (j + 1) = k at hf hf1
  have hk' : n / 2 ^ j = 2 * k + n / 2 ^ j % 2 := by
    rw [← hk, pow_succ, ← Nat.div_div_eq_div_mul]; omega
  obtain ⟨d1, d2, d3⟩ := fib_doubling k f f1 hf (by rw [hf]; exact hf1)
  have hshift : 2 ^ (j + 1) >>> 1 = 2 ^ j := by rw [Nat.shiftRight_eq_div_pow, pow_succ]; simp
  have hadd : Nat.fib (2 * k) + Nat.fib (2 * k + 1) = Nat.fib (2 * k + 1 + 1) := by rw [Nat.fib_add_two]
  simp only [fib2Step, hshift, and_two_pow_ne_zero, hk]
  -- the value F(2k+1) after the ±2 corrections
  have hFP : lowLimbSub ((4 * (f * f) ||| if k % 2 = 1 then 0 else 2) - f1 * f1) (if k % 2 = 1 then 2 else 0)
      = Nat.fib (2 * k + 1) := by
    by_cases hko : k % 2 = 1
    · simp only [hko, if_true, Nat.or_zero]
      have := d2 hko
      have hm := fib_four_mul_add_three_mod8 (k / 2)
      rw [show 4 * (k / 2) + 3 = 2 * k + 1 by omega] at hm
      rw [lowLimbSub_two] <;> omega
    · have hke : k % 2 = 0 := by omega
      simp only [hko, if_false, four_mul_or_two, lowLimbSub_zero]
      have := d1 hke
      omega
  rw [hFP]
  by_cases hb : n / 2 ^ j % 2 = 1
  · simp only [hb, if_true]
    rw [hk', hb]
    exact ⟨rfl, by simp only; omega⟩
  · have hb0 : n / 2 ^ j % 2 = 0 := by omega
    simp only [hb, if_false]
    rw [hk', hb0, Nat.add_zero]
    exact ⟨by simp only; omega, by simp only; omega⟩

theorem fib2Loop_spec (n : ℕ) : ∀ j p, FibPair (n / 2 ^ j) p → FibPair n (fib2Loop n j p) := by
  intro j
  induction j with
  | zero => intro p h; simpa [fib2Loop] using h
  | succ j ih => intro p h; rw [fib2Loop]; exact ih _ (fib2Step_spec n j p h)

theorem fib2Start_spec (n : ℕ) :
    (fib2Start n).1 = n / 2 ^ (fib2Start n).2 ∧ (fib2Start n).1 ≤ FIB_TABLE_LIMIT := by
  induction n using Nat.strong_induction_on with
  | _ n ih =>
    rw [fib2Start]
    by_cases h : n > FIB_TABLE_LIMIT
    · simp only [h, dite_true]
      have hlt : n / 2 < n := by omega
      obtain ⟨h1, h2⟩ := ih (n / 2) hlt
      refine ⟨?_, h2⟩
      rw [h1, pow_succ, Nat.div_div_eq_div_mul, mul_comm]
    · simp only [h, dite_false]
      exact ⟨by simp, by omega⟩

/-- what the regenerated table gives the loop as its start: the invariant holds for every index ≤ FIB_TABLE_LIMIT -/
theorem fib_table_pair : ∀ k ≤ FIB_TABLE_LIMIT, FIB_TABLE k = Nat.fib k ∧ fibTab k + Nat.fib k = Nat.fib (k + 1) := by
  decide +kernel

theorem mpn_fib2_ui_pair (n : ℕ) : FibPair n (mpn_fib2_ui n) := by
  unfold mpn_fib2_ui
  obtain ⟨h1, h2⟩ := fib2Start_spec n
  apply fib2Loop_spec
  rw [← h1]
  exact fib_table_pair _ h2

theorem and_two_ne_zero (n : ℕ) : n &&& 2 ≠ 0 ↔ n / 2 % 2 = 1 := by
  have := and_two_pow_ne_zero n 1
  simpa using this

theorem and_one_ne_zero (n : ℕ) : n &&& 1 ≠ 0 ↔ n % 2 = 1 := by
  rw [Nat.and_one_is_mod]; omega

theorem fib_add_six_mod4 (n : ℕ) : Nat.fib (n + 6) % 4 = Nat.fib n % 4 := by
  have h := Nat.fib_add n 5
  have e5 : Nat.fib 5 = 5 := by decide
  have e6 : Nat.fib 6 = 8 := by decide
  rw [show n + 5 + 1 = n + 6 by omega, e5, show 5 + 1 = 6 by rfl, e6] at h
  omega

/-- F(n) is not divisible by 4 for odd n -/
theorem fib_odd_mod4 (n : ℕ) (hn : n % 2 = 1) : Nat.fib n % 4 ≠ 0 := by
  induction n using Nat.strong_induction_on with
  | _ n ih =>
    match n, hn with
    | 1, _ => decide
    | 3, _ => decide
    | 5, _ => decide
    | n + 6, hn =>
      rw [fib_add_six_mod4]; exact ih n (by omega) (by omega)
    | 0, hn => omega
    | 2, hn => omega
    | 4, hn => omega

theorem lowLimbAdd_two (v : ℕ) (h : 2 ≤ (v + 2) % B) : lowLimbAdd v 2 = v + 2 := by
  unfold lowLimbAdd; simp only [B_eq] at *; omega

/-- FibPair with k ≥ 1: the second component is F(k-1) ≤ F(k) -/
theorem FibPair.le {k : ℕ} {p : ℕ × ℕ} (h : FibPair k p) (hk : 1 ≤ k) : p.2 ≤ p.1 := by
  obtain ⟨h1, h2⟩ := h
  obtain ⟨k', rfl⟩ : ∃ k', k = k' + 1 := ⟨k - 1, by omega⟩
  rw [Nat.fib_add_two] at h2
  have := @Nat.fib_le_fib_succ k'
  omega

theorem FIB_TABLE_LIMIT_ge : 2 ≤ FIB_TABLE_LIMIT := by decide

theorem mpz_fib_ui_eq (n : ℕ)
    (hclaim : n % 4 = 1 → FIB_TABLE_LIMIT < n → Nat.fib n % B ≠ 1) : mpz_fib_ui n = Nat.fib n := by
  unfold mpz_fib_ui
  by_cases hs : n ≤ FIB_TABLE_LIMIT
  · simp only [hs, if_true]; exact (fib_table_pair n hs).1
  · simp only [hs, if_false]
    have hbig : FIB_TABLE_LIMIT < n := by omega
    have hpair := mpn_fib2_ui_pair (n / 2)
    generalize mpn_fib2_ui (n / 2) = p at hpair
    obtain ⟨x, y⟩ := p
    have hk1 : 1 ≤ n / 2 := by have := FIB_TABLE_LIMIT_ge; omega
    have hle : y ≤ x := hpair.le hk1
    obtain ⟨hx, hy⟩ := hpair
    simp only at hx hy hle ⊢
    obtain ⟨d1, d2, d3⟩ := fib_doubling (n / 2) x y hx (by rw [hx]; exact hy)
    simp only [and_one_ne_zero, and_two_ne_zero]
    by_cases hodd : n % 2 = 1
    · simp only [hodd, if_true]
      have hn2 : 2 * (n / 2) + 1 = n := by omega
      rw [hn2] at d1 d2
      obtain ⟨z, hz⟩ : ∃ z, 2 * x = z + y := ⟨2 * x - y, by omega⟩
      have e1 : 2 * x - y = z := by omega
      have e2 : 2 * x + y = z + 2 * y := by omega
      have hpr : (2 * x + y) * (2 * x - y) + y * y = 4 * (x * x) := by
        rw [e1, e2]; have : 4 * (x * x) = (2 * x) * (2 * x) := by ring
        rw [this, hz]; ring
      by_cases hko : n / 2 % 2 = 1
      · simp only [hko, if_true]
        have := d2 hko
        have hm := fib_four_mul_add_three_mod8 (n / 4)
        rw [show 4 * (n / 4) + 3 = n by omega] at hm
        rw [lowLimbSub_two] <;> omega
      · simp only [hko, if_false]
        have hke : n / 2 % 2 = 0 := by omega
        have := d1 hke
        have h4 := fib_odd_mod4 n hodd
        have h1 := hclaim (by omega) hbig
        have hP : (2 * x + y) * (2 * x - y) + 2 = Nat.fib n := by omega
        rw [lowLimbAdd_two _ (by rw [hP]; simp only [B_eq] at *; omega), hP]
    · simp only [hodd, if_false]
      have hn2 : 2 * (n / 2) = n := by omega
      have h2 := Nat.fib_two_mul (n / 2)
      rw [hn2, ← hy, ← hx] at h2
      rw [h2]
      have : 2 * (y + x) - x = 2 * y + x := by omega
      rw [this]; ring

/-- l is the Lucas number L(k): L(k) + F(k) = 2 F(k+1) -/
def LucVal (k l : ℕ) : Prop := l + Nat.fib k = 2 * Nat.fib (k + 1)

/-- L(2k+1) = 5 F(k-1) (2F(k) + F(k-1)) - 4 (-1)^k, for a = F(k), b = "F(k-1)" -/
theorem luc_odd_formula (k a b : ℕ) (ha : a = Nat.fib k) (hb : b + a = Nat.fib (k + 1)) :
    (k % 2 = 1 → LucVal (2 * k + 1) (5 * ((2 * a + b) * b) + 4)) ∧
    (k % 2 = 0 → 4 ≤ 5 * ((2 * a + b) * b) ∧ LucVal (2 * k + 1) (5 * ((2 * a + b) * b) - 4)) := by
  have h1 := Nat.fib_two_mul_add_one k
  have h2 := Nat.fib_two_mul k
  have h3 : Nat.fib (2 * k + 1 + 1) = Nat.fib (2 * k) + Nat.fib (2 * k + 1) := Nat.fib_add_two
  obtain ⟨c1, c2⟩ := cassini_nat k a (b + a) ha hb
  rw [← ha, ← hb] at h1 h2
  have e : 2 * (b + a) - a = 2 * b + a := by omega
  rw [e] at h2
  unfold LucVal
  rw [h3, h1, h2]
  constructor
  · intro hk; have := c2 hk; nlinarith
  · intro hk; have := c1 hk
    have h5 : 5 * ((2 * a + b) * b) = 4 + (4 * (a * a) + 6 * (a * b) + b * b) := by nlinarith
    constructor
    · omega
    · rw [h5, Nat.add_sub_cancel_left]; nlinarith

/-- L(2k) = L(k)^2 - 2 (-1)^k -/
theorem luc_sq_aux (k l a c : ℕ) (ha : a = Nat.fib k) (hc : c = Nat.fib (k + 1)) (hl : l + a = 2 * c) :
    (k % 2 = 1 → l * l + 2 + Nat.fib (2 * k) = 2 * Nat.fib (2 * k + 1)) ∧
    (k % 2 = 0 → 2 ≤ l * l ∧ l * l - 2 + Nat.fib (2 * k) = 2 * Nat.fib (2 * k + 1)) := by
  have h1 := Nat.fib_two_mul_add_one k
  have h2 := Nat.fib_two_mul k
  obtain ⟨c1, c2⟩ := cassini_nat k a c ha hc
  rw [← ha, ← hc] at h1 h2
  have e : a * (2 * c - a) + a * a = 2 * (a * c) := by
    have : 2 * c - a + a = 2 * c := by omega
    calc a * (2 * c - a) + a * a = a * (2 * c - a + a) := by ring
      _ = 2 * (a * c) := by rw [this]; ring
  have el : l * l + 4 * (a * c) = 4 * (c * c) + a * a := by
    have h4 : (l + a) * (l + a) = 4 * (c * c) := by rw [hl]; ring
    have h5 : l * a + a * a = 2 * (a * c) := by
      calc l * a + a * a = (l + a) * a := by ring
        _ = 2 * (a * c) := by rw [hl]; ring
    nlinarith
  rw [h1, h2]
  constructor
  · intro hk; have := c2 hk; nlinarith
  · intro hk; have := c1 hk
    have h6 : l * l = 2 + (2 * (c * c) + 3 * (a * a) - 2 * (a * c)) := by
      have : 2 * (a * c) ≤ 2 * (c * c) + 3 * (a * a) := by nlinarith
      omega
    constructor
    · omega
    · rw [h6, Nat.add_sub_cancel_left]
      have : 2 * (a * c) ≤ 2 * (c * c) + 3 * (a * a) := by nlinarith
      nlinarith

theorem luc_sq_formula (k l : ℕ) (h : LucVal k l) :
    (k % 2 = 1 → LucVal (2 * k) (l * l + 2)) ∧ (k % 2 = 0 → 2 ≤ l * l ∧ LucVal (2 * k) (l * l - 2)) :=
  luc_sq_aux k l _ _ rfl rfl h

/-- L(4m+3) is 4, 5 or 7 modulo 8 (lucnum_ui.c:30-32), in the additive form used for `LucVal` -/
theorem luc_four_mul_add_three_mod8 (m : ℕ) : ∃ r, (r = 4 ∨ r = 5 ∨ r = 7) ∧
    (r + Nat.fib (4 * m + 3)) % 8 = (2 * Nat.fib (4 * m + 3 + 1)) % 8 := by
  induction m using Nat.strong_induction_on with
  | _ m ih =>
    match m with
    | 0 => exact ⟨4, by decide⟩
    | 1 => exact ⟨5, by decide⟩
    | 2 => exact ⟨7, by decide⟩
    | m + 3 =>
      obtain ⟨r, hr, h⟩ := ih m (by omega)
      refine ⟨r, hr, ?_⟩
      have e1 := fib_add_twelve_mod8 (4 * m + 3)
      have e2 := fib_add_twelve_mod8 (4 * m + 3 + 1)
      rw [show 4 * (m + 3) + 3 = 4 * m + 3 + 12 by ring, show 4 * m + 3 + 12 + 1 = 4 * m + 3 + 1 + 12 by ring]
      omega

theorem lowLimbAdd_four (v : ℕ) (h : 4 ≤ (v + 4) % 8) : lowLimbAdd v 4 = v + 4 := by
  unfold lowLimbAdd; simp only [B_eq] at *; omega

theorem sq_mod_four (l : ℕ) : l * l % 4 = 0 ∨ l * l % 4 = 1 := by
  rw [Nat.mul_mod]
  have : l % 4 < 4 := Nat.mod_lt _ (by decide)
  interval_cases (l % 4) <;> simp

theorem lowLimbAdd_two_sq (l : ℕ) : lowLimbAdd (l * l) 2 = l * l + 2 := by
  apply lowLimbAdd_two
  have := sq_mod_four l
  simp only [B_eq]; omega

/-- what the table gives: L[n] = F[n] + 2F[n-1] fits a limb up to FIB_TABLE_LUCNUM_LIMIT, and so does 2F[n] -/
theorem luc_table_fits : ∀ n ≤ FIB_TABLE_LUCNUM_LIMIT,
    n ≤ FIB_TABLE_LIMIT ∧ FIB_TABLE n + 2 * fibTab n < B ∧ 2 * FIB_TABLE n < B := by decide +kernel

theorem lucTab_spec (n : ℕ) (h : n ≤ FIB_TABLE_LUCNUM_LIMIT) : LucVal n (lucTab n) := by
  obtain ⟨h1, h2, _⟩ := luc_table_fits n h
  obtain ⟨e1, e2⟩ := fib_table_pair n h1
  unfold LucVal lucTab
  rw [Nat.mod_eq_of_lt h2, e1]; omega

theorem lucSquare_spec : ∀ z k p l, p % 2 = k % 2 → LucVal k l → LucVal (k * 2 ^ z) (lucSquare z l p) := by
  intro z
  induction z with
  | zero => intro k p l _ h; simpa [lucSquare] using h
  | succ z ih =>
    intro k p l hp h
    obtain ⟨s1, s2⟩ := luc_sq_formula k l h
    rw [lucSquare]
    simp only [and_one_ne_zero]
    rw [show k * 2 ^ (z + 1) = (2 * k) * 2 ^ z by rw [pow_succ]; ring]
    by_cases hk : k % 2 = 1
    · have hp1 : p % 2 = 1 := by omega
      simp only [hp1, if_true, lowLimbAdd_two_sq]
      exact ih (2 * k) 0 _ (by omega) (s1 hk)
    · have hp0 : ¬ p % 2 = 1 := by omega
      simp only [hp0, if_false]
      exact ih (2 * k) p _ (by omega) (s2 (by omega)).2

theorem lucStrip_spec (n : ℕ) (hn : FIB_TABLE_LUCNUM_LIMIT < n) :
    n = (lucStrip n).2.2 * 2 ^ (lucStrip n).2.1 ∧ LucVal (lucStrip n).2.2 (lucStrip n).1 := by
  induction n using Nat.strong_induction_on with
  | _ n ih =>
    rw [lucStrip]
    simp only [and_one_ne_zero, and_two_ne_zero]
    by_cases hodd : n % 2 = 1
    · simp only [hodd, if_true]
      refine ⟨by simp, ?_⟩
      have hpair := mpn_fib2_ui_pair (n / 2)
      generalize mpn_fib2_ui (n / 2) = p at hpair
      obtain ⟨x, y⟩ := p
      obtain ⟨hx, hy⟩ := hpair
      simp only at hx hy ⊢
      obtain ⟨o1, o2⟩ := luc_odd_formula (n / 2) x y hx (by rw [hx]; exact hy)
      rw [show 2 * (n / 2) + 1 = n by omega] at o1 o2
      by_cases hko : n / 2 % 2 = 1
      · simp only [hko, if_true]
        have hv := o1 hko
        obtain ⟨r, hr, hm⟩ := luc_four_mul_add_three_mod8 (n / 4)
        rw [show 4 * (n / 4) + 3 = n by omega] at hm
        have : 4 ≤ (5 * ((2 * x + y) * y) + 4) % 8 := by
          unfold LucVal at hv; omega
        rw [lowLimbAdd_four _ this]; exact hv
      · simp only [hko, if_false]
        exact (o2 (by omega)).2
    · simp only [hodd, if_false]
      by_cases hs : n / 2 ≤ FIB_TABLE_LUCNUM_LIMIT
      · simp only [hs, dite_true]
        exact ⟨by omega, lucTab_spec _ hs⟩
      · simp only [hs, dite_false]
        obtain ⟨h1, h2⟩ := ih (n / 2) (by omega) (by omega)
        refine ⟨?_, h2⟩
        rw [pow_succ, ← mul_assoc, ← h1]; omega

theorem mpz_lucnum_ui_val (n : ℕ) : LucVal n (mpz_lucnum_ui n) := by
  unfold mpz_lucnum_ui
  by_cases hs : n ≤ FIB_TABLE_LUCNUM_LIMIT
  · simp only [hs, if_true]; exact lucTab_spec n hs
  · simp only [hs, if_false]
    obtain ⟨h1, h2⟩ := lucStrip_spec n (by omega)
    have := lucSquare_spec (lucStrip n).2.1 (lucStrip n).2.2 (lucStrip n).2.2 (lucStrip n).1 rfl h2
    rw [← h1] at this; exact this

/-- FibPair with k ≥ 1: the second component is F(k-1) -/
theorem FibPair.pred {k : ℕ} {p : ℕ × ℕ} (h : FibPair k p) (hk : 1 ≤ k) : p.2 = Nat.fib (k - 1) := by
  obtain ⟨h1, h2⟩ := h
  obtain ⟨k', rfl⟩ : ∃ k', k = k' + 1 := ⟨k - 1, by omega⟩
  rw [Nat.fib_add_two] at h2
  simp only [Nat.add_sub_cancel]; omega

/-- from (F(n), F(n-1)): L(n) = F(n) + 2F(n-1) and, for n ≥ 1, L(n-1) = 2F(n) - F(n-1) -/
theorem luc_pair_of_fib_pair {n x y : ℕ} (h : FibPair n (x, y)) :
    LucVal n (x + 2 * y) ∧ (1 ≤ n → y ≤ 2 * x ∧ LucVal (n - 1) (2 * x - y)) := by
  have hle := fun hn => h.le hn
  have hpred := fun hn => h.pred hn
  obtain ⟨h1, h2⟩ := h
  simp only at h1 h2 hle hpred
  refine ⟨by unfold LucVal; omega, fun hn => ?_⟩
  have := hle hn; have hp := hpred hn
  refine ⟨by omega, ?_⟩
  unfold LucVal
  rw [show n - 1 + 1 = n by omega, ← hp, ← h1]; omega

theorem sub_mod_limb (a b : ℕ) (ha : a < B) (hb : b ≤ a) : (a + B - b) % B = a - b := by
  simp only [B_eq] at *; omega

theorem mpz_lucnum2_ui_val (n : ℕ) :
    (∃ l : ℕ, (mpz_lucnum2_ui n).1 = (l : ℤ) ∧ LucVal n l) ∧ (n = 0 → (mpz_lucnum2_ui n).2 = -1) ∧
    (1 ≤ n → ∃ l1 : ℕ, (mpz_lucnum2_ui n).2 = (l1 : ℤ) ∧ LucVal (n - 1) l1) := by
  unfold mpz_lucnum2_ui
  by_cases hs : n ≤ FIB_TABLE_LUCNUM_LIMIT
  · simp only [hs, if_true]
    obtain ⟨h1, h2, h3⟩ := luc_table_fits n hs
    have hp : FibPair n (FIB_TABLE n, fibTab n) := fib_table_pair n h1
    obtain ⟨l1, l2⟩ := luc_pair_of_fib_pair hp
    refine ⟨⟨FIB_TABLE n + 2 * fibTab n, by rw [Nat.mod_eq_of_lt h2]; rfl, l1⟩, fun h0 => by simp [h0], fun hn => ?_⟩
    obtain ⟨hle, hv⟩ := l2 hn
    have hn0 : n ≠ 0 := by omega
    refine ⟨2 * FIB_TABLE n - fibTab n, ?_, hv⟩
    simp only [hn0, if_false]
    rw [Nat.mod_eq_of_lt h3]
    rw [sub_mod_limb _ _ h3 hle]; rfl
  · simp only [hs, if_false]
    have hp := mpn_fib2_ui_pair n
    generalize mpn_fib2_ui n = p at hp
    obtain ⟨x, y⟩ := p
    obtain ⟨l1, l2⟩ := luc_pair_of_fib_pair hp
    have hn : 1 ≤ n := by omega
    refine ⟨⟨2 * y + x, rfl, by rw [show 2 * y + x = x + 2 * y by ring]; exact l1⟩, fun h0 => by omega, fun _ => ?_⟩
    exact ⟨2 * x - y, rfl, (l2 hn).2⟩

/-! ## Miller–Rabin never rejects a prime -/

theorem powMod_eq (a n : ℕ) : ∀ e, powMod a e n = a ^ e % n := by
  intro e
  induction e using Nat.strong_induction_on with
  | _ e ih =>
    rw [powMod]
    by_cases h0 : e = 0
    · simp [h0]
    · simp only [h0, dite_false]
      have hr := ih (e / 2) (by omega)
      rw [hr]
      have hsq : a ^ (e / 2) % n * (a ^ (e / 2) % n) % n = a ^ (e / 2 + e / 2) % n := by
        rw [← Nat.mul_mod, ← pow_add]
      by_cases he : e % 2 = 0
      · simp only [he, if_true]
        rw [hsq]; congr 2; omega
      · simp only [he, if_false]
        rw [hsq, Nat.mod_mul_mod, ← pow_succ]; congr 2; omega

theorem fermat_nat (p a : ℕ) (hp : p.Prime) (ha : ¬ p ∣ a) : a ^ (p - 1) % p = 1 := by
  have hc : Nat.Coprime a p := ((Nat.Prime.coprime_iff_not_dvd hp).2 ha).symm
  have := Nat.ModEq.pow_totient hc
  rw [Nat.totient_prime hp] at this
  unfold Nat.ModEq at this
  rw [this]; exact Nat.mod_eq_of_lt hp.one_lt

/-- in a prime field only ±1 square to 1 -/
theorem sq_mod_prime_eq_one (p y : ℕ) (hp : p.Prime) (hy : y < p) (h : y * y % p = 1) : y = 1 ∨ y = p - 1 := by
  have hy0 : y ≠ 0 := by rintro rfl; simp at h
  have hdvd : p ∣ (y - 1) * (y + 1) := by
    have e : (y - 1) * (y + 1) = y * y - 1 := by
      obtain ⟨z, rfl⟩ : ∃ z, y = z + 1 := ⟨y - 1, by omega⟩
      simp only [Nat.add_sub_cancel]; ring_nf; omega
    rw [e]
    have := Nat.div_add_mod (y * y) p
    rw [h] at this
    exact ⟨y * y / p, by omega⟩
  rcases (Nat.Prime.dvd_mul hp).1 hdvd with h1 | h1
  · left
    rcases Nat.eq_zero_or_pos (y - 1) with h0 | hpos
    · omega
    · have := Nat.le_of_dvd hpos h1; omega
  · right
    have := Nat.le_of_dvd (by omega) h1; omega

theorem pow_two_pow_succ_mod (y p c : ℕ) : (y * y % p) ^ 2 ^ (c + 1) % p = y ^ 2 ^ (c + 2) % p := by
  rw [← Nat.pow_mod, ← pow_two, ← pow_mul]; congr 2; rw [pow_succ 2 (c + 1)]; ring

/-- the squaring loop of `mill_rab` reaches n-1 before 1 when n is prime and y^(2^(c+1)) = 1, y ≠ ±1 -/
theorem millRabLoop_true (p : ℕ) (hp : p.Prime) : ∀ c y, y < p → y ≠ 1 → y ≠ p - 1 →
    y ^ 2 ^ (c + 1) % p = 1 → millRabLoop p c y = true := by
  intro c
  induction c with
  | zero =>
    intro y hy h1 h2 h
    rw [show (2 : ℕ) ^ (0 + 1) = 2 by rfl, pow_two] at h
    rcases sq_mod_prime_eq_one p y hp hy h with h | h <;> contradiction
  | succ c ih =>
    intro y hy h1 h2 h
    rw [millRabLoop]
    have hlt : y * y % p < p := Nat.mod_lt _ hp.pos
    by_cases e1 : y * y % p = p - 1
    · simp [e1]
    · simp only [e1, if_false]
      by_cases e2 : y * y % p = 1
      · rcases sq_mod_prime_eq_one p y hp hy e2 with h | h <;> contradiction
      · simp only [e2, if_false]
        exact ih _ hlt e2 e1 (by rw [pow_two_pow_succ_mod]; exact h)

theorem sprpLoop_true (p : ℕ) (hp : p.Prime) : ∀ c y, y < p → y ≠ 1 → y ≠ p - 1 →
    y ^ 2 ^ (c + 1) % p = 1 → sprpLoop p c y = true := by
  intro c
  induction c with
  | zero =>
    intro y hy h1 h2 h
    rw [show (2 : ℕ) ^ (0 + 1) = 2 by rfl, pow_two] at h
    rcases sq_mod_prime_eq_one p y hp hy h with h | h <;> contradiction
  | succ c ih =>
    intro y hy h1 h2 h
    rw [sprpLoop]
    have hlt : y * y % p < p := Nat.mod_lt _ hp.pos
    by_cases e1 : y * y % p = p - 1
    · simp [e1]
    · simp only [e1, if_false]
      by_cases e2 : y * y % p = 1
      · rcases sq_mod_prime_eq_one p y hp hy e2 with h | h <;> contradiction
      · exact ih _ hlt e2 e1 (by rw [pow_two_pow_succ_mod]; exact h)

/-- common core: for prime p with p - 1 = 2^k q and p ∤ a, y = a^q mod p is 1, or p-1, or its
    (k-1)-fold squaring sequence satisfies the loop precondition -/
theorem strong_core (p a q k : ℕ) (hp : p.Prime) (hqk : p - 1 = 2 ^ k * q) (ha : ¬ p ∣ a)
    (h1 : a ^ q % p ≠ 1) (_h2 : a ^ q % p ≠ p - 1) : 1 ≤ k ∧ (a ^ q % p) ^ 2 ^ (k - 1 + 1) % p = 1 := by
  have hf := fermat_nat p a hp ha
  have hk : 1 ≤ k := by
    rcases Nat.eq_zero_or_pos k with rfl | h
    · simp only [pow_zero, one_mul] at hqk; rw [hqk] at hf; contradiction
    · exact h
  refine ⟨hk, ?_⟩
  rw [show k - 1 + 1 = k by omega, ← Nat.pow_mod, ← pow_mul, mul_comm, ← hqk]; exact hf

theorem mill_rab_prime (p : ℕ) (hp : p.Prime) (a q k : ℕ) (hqk : p - 1 = 2 ^ k * q) (ha : ¬ p ∣ a) :
    mill_rab p a q k = true := by
  unfold mill_rab
  by_cases h : a ^ q % p = 1 ∨ a ^ q % p = p - 1
  · simp [h]
  · simp only [h, if_false]
    rw [not_or] at h
    obtain ⟨hk, hpow⟩ := strong_core p a q k hp hqk ha h.1 h.2
    exact millRabLoop_true p hp (k - 1) _ (Nat.mod_lt _ hp.pos) h.1 h.2 hpow

theorem twoAdic_spec : ∀ fuel m, m = 2 ^ (twoAdic fuel m).1 * (twoAdic fuel m).2 := by
  intro fuel
  induction fuel with
  | zero => intro m; simp [twoAdic]
  | succ fuel ih =>
    intro m
    rw [twoAdic]
    by_cases h : m % 2 = 0 ∧ m ≠ 0
    · simp only [h, and_self, if_true, ne_eq, not_false_eq_true]
      have := ih (m / 2)
      rw [pow_succ, mul_assoc, mul_comm 2, ← mul_assoc]
      omega
    · simp only [h, if_false]; simp

theorem mill_rab_exec_eq (n x q k : ℕ) : mill_rab_exec n x q k = mill_rab n x q k := by
  unfold mill_rab_exec mill_rab; rw [powMod_eq]

theorem prime_gt_seven_not_dvd_210 (p : ℕ) (hp : p.Prime) (h : 7 < p) : ¬ p ∣ 210 := by
  intro hd
  rw [show (210 : ℕ) = 2 * (3 * (5 * 7)) by norm_num] at hd
  rcases (Nat.Prime.dvd_mul hp).1 hd with h1 | h1
  · have := Nat.le_of_dvd (by norm_num) h1; omega
  rcases (Nat.Prime.dvd_mul hp).1 h1 with h1 | h1
  · have := Nat.le_of_dvd (by norm_num) h1; omega
  rcases (Nat.Prime.dvd_mul hp).1 h1 with h1 | h1
  · have := Nat.le_of_dvd (by norm_num) h1; omega
  · have := Nat.le_of_dvd (by norm_num) h1; omega

theorem miller_rabin_with_prime (p : ℕ) (hp : p.Prime) (bases : List ℕ) (hb : ∀ x ∈ bases, ¬ p ∣ x) :
    miller_rabin_with p bases = true := by
  unfold miller_rabin_with
  by_cases h7 : p ≤ 7
  · simp only [h7, if_true]
    have h2 := hp.two_le
    interval_cases p <;> first | decide | (exfalso; revert hp; decide)
  · simp only [h7, if_false]
    have hf := fermat_nat p 210 hp (prime_gt_seven_not_dvd_210 p hp (by omega))
    rw [powMod_eq]
    simp only [hf, ne_eq, not_true_eq_false, if_false]
    have hs := twoAdic_spec (p - 1) (p - 1)
    rw [List.all_eq_true]
    intro x hx
    rw [mill_rab_exec_eq]
    exact mill_rab_prime p hp x _ _ hs (hb x hx)

theorem sprp_prime (p a : ℕ) (hp : p.Prime) (ha : ¬ p ∣ a) : sprp p a = true := by
  unfold sprp
  have hs := twoAdic_spec (p - 1) (p - 1)
  generalize twoAdic (p - 1) (p - 1) = kq at hs
  obtain ⟨k, q⟩ := kq
  simp only at hs ⊢
  rw [powMod_eq, ← Nat.pow_mod]
  by_cases h : a ^ q % p = 1 ∨ a ^ q % p = p - 1
  · rcases h with h | h <;> simp [h]
  · rw [not_or] at h
    obtain ⟨hk, hpow⟩ := strong_core p a q k hp hs ha h.1 h.2
    simp [sprpLoop_true p hp (k - 1) _ (Nat.mod_lt _ hp.pos) h.1 h.2 hpow]

/-- the spec oracle never calls a prime composite (so "isPrime n = false" is a proof of compositeness) -/
theorem isPrime_of_prime (p : ℕ) (hp : p.Prime) : isPrime p = true := by
  unfold isPrime
  by_cases hs : p < 1048576
  · simp only [hs, if_true]; exact (isPrimeTD_iff p).2 hp
  · simp only [hs, if_false]
    have hodd : ¬ p % 2 = 0 := by
      intro h
      have := (Nat.Prime.eq_one_or_self_of_dvd hp 2 (Nat.dvd_of_mod_eq_zero h))
      omega
    simp only [hodd, if_false]
    rw [List.all_eq_true]
    intro a _
    by_cases ha : a % p = 0
    · simp [ha]
    · have : ¬ p ∣ a := fun hd => ha (Nat.mod_eq_zero_of_dvd hd)
      simp [sprp_prime p a hp this]

section Fac
open Nat
/-! ## Factorials: odd part and power of two -/

/-- product of the odd numbers ≤ n -/
def oddDF (n : ℕ) : ℕ := (2 * ((n + 1) / 2) - 1)‼

theorem doubleFactorial_odd (k : ℕ) : (2 * k + 1)‼ % 2 = 1 := by
  induction k with
  | zero => rfl
  | succ k ih =>
    rw [show 2 * (k + 1) + 1 = 2 * k + 1 + 2 by ring, Nat.doubleFactorial_add_two, Nat.mul_mod, ih]
    omega

theorem oddDF_odd (n : ℕ) : oddDF n % 2 = 1 := by
  unfold oddDF
  rcases Nat.eq_zero_or_pos ((n + 1) / 2) with h | h
  · rw [h]; rfl
  · obtain ⟨k, hk⟩ : ∃ k, (n + 1) / 2 = k + 1 := ⟨(n + 1) / 2 - 1, by omega⟩
    rw [hk, show 2 * (k + 1) - 1 = 2 * k + 1 by omega]; exact doubleFactorial_odd k

/-- n! = 2^(n/2) (n/2)! (product of the odd numbers ≤ n) -/
theorem factorial_split (n : ℕ) : n ! = 2 ^ (n / 2) * (n / 2)! * oddDF n := by
  unfold oddDF
  rcases Nat.even_or_odd' n with ⟨m, rfl | rfl⟩
  · rcases m with _ | m
    · rfl
    · rw [show 2 * (m + 1) = 2 * m + 1 + 1 by ring, Nat.factorial_eq_mul_doubleFactorial,
        show 2 * m + 1 + 1 = 2 * (m + 1) by ring, Nat.doubleFactorial_two_mul]
      have e1 : 2 * (m + 1) / 2 = m + 1 := by omega
      have e2 : 2 * ((2 * (m + 1) + 1) / 2) - 1 = 2 * m + 1 := by omega
      rw [e1, e2]
  · rw [Nat.factorial_eq_mul_doubleFactorial, Nat.doubleFactorial_two_mul]
    have e1 : (2 * m + 1) / 2 = m := by omega
    have e2 : 2 * ((2 * m + 1 + 1) / 2) - 1 = 2 * m + 1 := by omega
    rw [e1, e2]; ring

theorem oddPart_of_eq {m t x : ℕ} (hx : x % 2 = 1) (h : m = 2 ^ t * x) : oddPart m = x := by
  have hm : m ≠ 0 := by
    rw [h]; have : 0 < 2 ^ t := Nat.two_pow_pos t
    have : 0 < x := by omega
    positivity
  obtain ⟨ho, s, hs⟩ := oddPart_spec m hm
  have := odd_part_unique ho hx (by rw [← hs, h])
  exact this.2

theorem oddPart_factorial_rec (n : ℕ) : oddPart (n !) = oddDF n * oddPart ((n / 2)!) := by
  obtain ⟨ho, t, ht⟩ := oddPart_spec ((n / 2)!) (Nat.factorial_ne_zero _)
  apply oddPart_of_eq (t := n / 2 + t)
  · rw [Nat.mul_mod, oddDF_odd, ho]
  · rw [factorial_split n]
    conv_lhs => rw [ht]
    rw [pow_add]; ring

theorem popc_le : ∀ fuel n, popc fuel n ≤ n := by
  intro fuel
  induction fuel with
  | zero => intro n; simp [popc]
  | succ f ih =>
    intro n; rw [popc]
    by_cases h : n = 0
    · simp [h]
    · simp only [h, if_false]; have := ih (n / 2); omega

/-- Legendre for p = 2: n! = 2^(n - popcount n) · (odd part of n!) -/
theorem factorial_two_adic_aux : ∀ fuel n, n < 2 ^ fuel → n ! = 2 ^ (n - popc fuel n) * oddPart (n !) := by
  intro fuel
  induction fuel with
  | zero =>
    intro n hn
    have : n = 0 := by simpa using hn
    subst this; decide
  | succ f ih =>
    intro n hn
    rw [popc]
    by_cases h : n = 0
    · subst h; simp only [if_true, Nat.sub_zero, pow_zero, one_mul]; decide
    · simp only [h, if_false]
      have hlt : n / 2 < 2 ^ f := by rw [pow_succ] at hn; omega
      have h2 := ih (n / 2) hlt
      have hp := popc_le f (n / 2)
      rw [oddPart_factorial_rec n]
      conv_lhs => rw [factorial_split n, h2]
      have e : n - (n % 2 + popc f (n / 2)) = n / 2 + (n / 2 - popc f (n / 2)) := by omega
      rw [e, pow_add]; ring

theorem factorial_two_adic (n : ℕ) (hn : n < B) : n ! = 2 ^ (n - popcount n) * oddPart (n !) :=
  factorial_two_adic_aux 64 n (by rw [B_eq] at hn; norm_num; omega)

/-! ## Factor lists (FACTOR_LIST_STORE) never overflow a limb -/

/-- the number a factor-list state stands for: stored limbs times the running limb -/
def flVal (st : FL) : ℕ := prodList (st.2 :: st.1)

theorem flVal_mk (l : List ℕ) (p : ℕ) : flVal (l, p) = p * prodList l := rfl

/-- FACTOR_LIST_STORE multiplies the represented number by p, provided the limb product cannot wrap
    when the running limb is at most MAX_PR -/
theorem flStore_val (p M : ℕ) (st : FL) (h : st.2 ≤ M → st.2 * p < B) :
    flVal (flStore p M st) = flVal st * p := by
  obtain ⟨l, pr⟩ := st
  unfold flStore
  by_cases hgt : pr > M
  · simp only [hgt, if_true, flVal_mk, prodList]; ring
  · simp only [hgt, if_false, flVal_mk]
    rw [Nat.mod_eq_of_lt (h (by simpa using hgt))]; ring

/-- fac_ui.c:88-89: the factors n-1, n-2, ..., lo -/
theorem facStoreDown_val (M lo : ℕ) (hlo : 1 ≤ lo) : ∀ fuel n st, n ≤ fuel → lo ≤ n → M * n < B →
    flVal (facStoreDown M lo fuel n st) * (lo - 1)! = flVal st * (n - 1)! := by
  intro fuel
  induction fuel with
  | zero => intro n st h1 h2; omega
  | succ fuel ih =>
    intro n st hf hn hM
    rw [facStoreDown]
    by_cases hc : n - 1 ≥ lo ∧ n ≥ 1
    · simp only [hc, and_self, if_true]
      have hv := flStore_val (n - 1) M st (fun hle => by
        calc st.2 * (n - 1) ≤ M * n := Nat.mul_le_mul hle (by omega)
          _ < B := hM)
      have hM' : M * (n - 1) < B := lt_of_le_of_lt (Nat.mul_le_mul_left _ (by omega)) hM
      rw [ih (n - 1) _ (by omega) hc.1 hM', hv]
      obtain ⟨k, rfl⟩ : ∃ k, n = k + 2 := ⟨n - 2, by omega⟩
      simp only [show k + 2 - 1 = k + 1 by omega, show k + 1 - 1 = k by omega, Nat.factorial_succ]; ring
    · simp only [hc, if_false]
      have : n = lo := by omega
      rw [this]

theorem fac_table_entry : ∀ i < facTable.length, facTable.getD i 0 = i ! := by
  simp only [← factorial_eq]; decide +kernel

theorem fac2cnt_entry : ∀ n ≤ TABLE_LIMIT_2N_MINUS_POPC_2N, 2 ≤ n → fac2cntTab (n / 2 - 1) = n - popcount n := by
  decide +kernel

theorem facShift_eq (n : ℕ) (h : 2 ≤ n) : facShift n = n - popcount n := by
  unfold facShift
  by_cases hs : n ≤ TABLE_LIMIT_2N_MINUS_POPC_2N
  · simp only [hs, if_true]; exact fac2cnt_entry n hs h
  · simp only [hs, if_false]

theorem facTable_length_pos : 2 ≤ facTable.length := by decide

/-- mpz_fac_ui = n!, given that mpz_oddfac_1 returns the odd part of n! on the branch that uses it -/
theorem mpz_fac_ui_eq (n : ℕ) (hn : n < B)
    (hodd : facTable.length ≤ n → aboveThreshold n FAC_ODD_THRESHOLD = true → mpz_oddfac_1 n 0 = oddPart (n !)) :
    mpz_fac_ui n = n ! := by
  unfold mpz_fac_ui
  simp only
  by_cases h1 : n < facTable.length
  · simp only [h1, if_true]; exact fac_table_entry n h1
  · simp only [h1, if_false]
    have hlen := facTable_length_pos
    by_cases h2 : aboveThreshold n FAC_ODD_THRESHOLD = true
    · simp only [h2, Bool.not_true, Bool.false_eq_true, if_false]
      rw [hodd (by omega) h2, facShift_eq n (by omega), mul_comm]
      exact (factorial_two_adic n hn).symm
    · simp only [h2, Bool.not_false, if_true]
      -- the limb-product basecase fac_ui.c:72-97
      have hthr : FAC_ODD_THRESHOLD ≠ 0 ∧ n < FAC_ODD_THRESHOLD := by
        unfold aboveThreshold at h2
        simp only [Bool.or_eq_true, decide_eq_true_eq, not_or, not_le] at h2
        exact h2
      have hM : (B - 1) / (FAC_ODD_THRESHOLD ||| 1) * n < B := by
        have hle : n ≤ FAC_ODD_THRESHOLD ||| 1 := le_trans (le_of_lt hthr.2) Nat.left_le_or
        calc (B - 1) / (FAC_ODD_THRESHOLD ||| 1) * n ≤ (B - 1) / (FAC_ODD_THRESHOLD ||| 1) * (FAC_ODD_THRESHOLD ||| 1) :=
              Nat.mul_le_mul_left _ hle
          _ ≤ B - 1 := Nat.div_mul_le_self _ _
          _ < B := by rw [B_eq]; norm_num
      have hv := facStoreDown_val ((B - 1) / (FAC_ODD_THRESHOLD ||| 1)) facTable.length (by omega) n n
        ([facTable.getD (facTable.length - 1) 0], n) le_rfl (by omega) hM
      have e0 : flVal ([facTable.getD (facTable.length - 1) 0], n) = n * (facTable.length - 1)! := by
        rw [flVal_mk, prodList, prodList, fac_table_entry _ (by omega)]; ring
      rw [e0] at hv
      have hpos : 0 < (facTable.length - 1)! := Nat.factorial_pos _
      have : n * (n - 1)! = n ! := by
        obtain ⟨k, rfl⟩ : ∃ k, n = k + 1 := ⟨n - 1, by omega⟩
        simp [Nat.factorial_succ]
      have h3 : flVal (facStoreDown ((B - 1) / (FAC_ODD_THRESHOLD ||| 1)) facTable.length n n
          ([facTable.getD (facTable.length - 1) 0], n)) * (facTable.length - 1)! = n ! * (facTable.length - 1)! := by
        rw [hv, ← this]; ring
      exact Nat.eq_of_mul_eq_mul_right hpos h3

/-- product of i, i+2, i+4, ... while ≤ tn (at least i), mirroring the do-while of oddfac_1.c:355-358 -/
def oddProdFrom (tn : ℕ) : ℕ → ℕ → ℕ
  | 0, _ => 1
  | fuel + 1, i => i * (if i + 2 ≤ tn then oddProdFrom tn fuel (i + 2) else 1)

theorem oddStore_val (M tn : ℕ) (hM : M * tn < B) : ∀ fuel i st, i ≤ tn →
    flVal (oddStore M tn fuel i st) = flVal st * oddProdFrom tn fuel i := by
  intro fuel
  induction fuel with
  | zero => intro i st _; simp [oddStore, oddProdFrom]
  | succ fuel ih =>
    intro i st hi
    rw [oddStore, oddProdFrom]
    have hv := flStore_val i M st (fun hle => by
      calc st.2 * i ≤ M * tn := Nat.mul_le_mul hle hi
        _ < B := hM)
    by_cases hc : i + 2 ≤ tn
    · simp only [hc, if_true]
      rw [ih (i + 2) _ hc, hv]; ring
    · simp only [hc, if_false]; rw [hv]; ring

/-- i odd, i ≤ tn, enough fuel: (i-2)!! * (i (i+2) ... ≤ tn) = product of all odd numbers ≤ tn -/
theorem oddProdFrom_eq (tn : ℕ) : ∀ fuel i, i % 2 = 1 → i ≤ tn → tn < i + 2 * fuel →
    (i - 2)‼ * oddProdFrom tn fuel i = oddDF tn := by
  intro fuel
  induction fuel with
  | zero => intro i _ h1 h2; omega
  | succ fuel ih =>
    intro i hodd hi hf
    rw [oddProdFrom]
    have hdf : (i - 2)‼ * i = i‼ := by
      rcases Nat.lt_or_ge i 2 with h | h
      · have : i = 1 := by omega
        subst this; rfl
      · obtain ⟨k, rfl⟩ : ∃ k, i = k + 2 := ⟨i - 2, by omega⟩
        rw [Nat.doubleFactorial_add_two]; simp only [Nat.add_sub_cancel]; ring
    by_cases hc : i + 2 ≤ tn
    · simp only [hc, if_true]
      have := ih (i + 2) (by omega) hc (by omega)
      simp only [Nat.add_sub_cancel] at this
      rw [← this, ← hdf]; ring
    · simp only [hc, if_false, mul_one]
      rw [hdf]; unfold oddDF
      congr 1; omega

theorem odd2fac_entry : ∀ i < odd2facTable.length, odd2facTab i = (2 * i + 1)‼ := by
  simp only [← doubleFactorial_eq]; decide +kernel

theorem oddfac_entry : ∀ i ≤ ODD_FACTORIAL_TABLE_LIMIT, oddfacTab i = oddPart (i !) := by
  simp only [← factorial_eq]; decide +kernel

theorem oddfac_consts : ODD_DOUBLEFACTORIAL_TABLE_LIMIT % 2 = 1 ∧
    ODD_DOUBLEFACTORIAL_TABLE_MAX = (ODD_DOUBLEFACTORIAL_TABLE_LIMIT)‼ ∧
    2 * odd2facTable.length = ODD_DOUBLEFACTORIAL_TABLE_LIMIT + 1 ∧
    ODD_DOUBLEFACTORIAL_TABLE_LIMIT + 1 ≤ 2 * ODD_FACTORIAL_TABLE_LIMIT + 1 ∧ 1 ≤ ODD_FACTORIAL_TABLE_LIMIT := by
  simp only [← doubleFactorial_eq]; decide +kernel

/-- for tn up to ODD_DOUBLEFACTORIAL_TABLE_LIMIT + 1 the two tables give the odd part of tn! (oddfac_1.c:307-314, :364-366) -/
theorem oddfac_two_tables (tn : ℕ) (h1 : 1 ≤ tn) (h : tn ≤ ODD_DOUBLEFACTORIAL_TABLE_LIMIT + 1) :
    odd2facTab ((tn - 1) / 2) * oddfacTab (tn / 2) = oddPart (tn !) := by
  obtain ⟨c1, c2, c3, c4, c5⟩ := oddfac_consts
  rw [oddPart_factorial_rec, odd2fac_entry _ (by omega), oddfac_entry _ (by omega)]
  unfold oddDF
  congr 2; omega

/-- the outer do-while of the basecase, oddfac_1.c:351-362 -/
theorem oddfacBase_val : ∀ fuel M tn st, ODD_DOUBLEFACTORIAL_TABLE_LIMIT + 2 ≤ tn → M * tn < B → tn < 2 ^ fuel →
    (oddfacBase fuel M tn st).2 ≤ ODD_DOUBLEFACTORIAL_TABLE_LIMIT + 1 ∧ 1 ≤ (oddfacBase fuel M tn st).2 ∧
    flVal (oddfacBase fuel M tn st).1 * oddPart ((oddfacBase fuel M tn st).2 !) = flVal st * oddPart (tn !) := by
  intro fuel
  induction fuel with
  | zero => intro M tn st h1 _ h3; simp at h3; omega
  | succ fuel ih =>
    intro M tn st h1 hM hf
    obtain ⟨c1, c2, c3, c4, c5⟩ := oddfac_consts
    rw [oddfacBase]
    have hst : flVal (ODD_DOUBLEFACTORIAL_TABLE_MAX :: st.1, st.2) = flVal st * (ODD_DOUBLEFACTORIAL_TABLE_LIMIT)‼ := by
      simp only [flVal, prodList, c2]; ring
    have hstore := oddStore_val M tn hM tn (ODD_DOUBLEFACTORIAL_TABLE_LIMIT + 2) (ODD_DOUBLEFACTORIAL_TABLE_MAX :: st.1, st.2) h1
    have hprod := oddProdFrom_eq tn tn (ODD_DOUBLEFACTORIAL_TABLE_LIMIT + 2) (by omega) h1 (by omega)
    simp only [Nat.add_sub_cancel] at hprod
    have hlevel : flVal (oddStore M tn tn (ODD_DOUBLEFACTORIAL_TABLE_LIMIT + 2) (ODD_DOUBLEFACTORIAL_TABLE_MAX :: st.1, st.2))
        = flVal st * oddDF tn := by
      rw [hstore, hst, mul_assoc, hprod]
    have hrec := oddPart_factorial_rec tn
    have h2M : M * 2 < B := lt_of_le_of_lt (Nat.mul_le_mul_left _ (by omega)) hM
    have hM2 : M * 2 % B * (tn / 2) < B := by
      rw [Nat.mod_eq_of_lt h2M]
      calc M * 2 * (tn / 2) = M * (2 * (tn / 2)) := by ring
        _ ≤ M * tn := Nat.mul_le_mul_left _ (by omega)
        _ < B := hM
    by_cases hc : tn / 2 > ODD_DOUBLEFACTORIAL_TABLE_LIMIT + 1
    · simp only [hc, if_true]
      have hlt : tn / 2 < 2 ^ fuel := by rw [pow_succ] at hf; omega
      obtain ⟨r1, r2, r3⟩ := ih (M * 2 % B) (tn / 2) _ (by omega) hM2 hlt
      refine ⟨r1, r2, ?_⟩
      rw [r3, hlevel, hrec]; ring
    · simp only [hc, if_false]
      refine ⟨by omega, by omega, ?_⟩
      rw [hlevel, hrec]; ring

theorem dscSteps_zero (n : ℕ) (h : aboveThreshold n FAC_DSC_THRESHOLD = false) : dscSteps 64 n 0 = (n, 0) := by
  rw [dscSteps]; simp [h]

/-- mpz_oddfac_1 below FAC_DSC_THRESHOLD (tables and the limb-product basecase, no sieve): the odd part of n! -/
theorem mpz_oddfac_1_below_dsc (n flag : ℕ) (hn : n < B) (h : aboveThreshold n FAC_DSC_THRESHOLD = false) :
    mpz_oddfac_1 n flag = oddPart (n !) := by
  obtain ⟨c1, c2, c3, c4, c5⟩ := oddfac_consts
  unfold mpz_oddfac_1
  by_cases h1 : n ≤ ODD_FACTORIAL_TABLE_LIMIT
  · simp only [h1, if_true]; exact oddfac_entry n h1
  · simp only [h1, if_false]
    by_cases h2 : n ≤ ODD_DOUBLEFACTORIAL_TABLE_LIMIT + 1
    · simp only [h2, if_true]; exact oddfac_two_tables n (by omega) h2
    · simp only [h2, if_false, dscSteps_zero n h]
      have hthr : FAC_DSC_THRESHOLD ≠ 0 ∧ n < FAC_DSC_THRESHOLD := by
        unfold aboveThreshold at h
        simp only [Bool.or_eq_false_iff, decide_eq_false_iff_not, not_le] at h
        exact h
      have hM : (B - 1) / FAC_DSC_THRESHOLD * n < B := by
        calc (B - 1) / FAC_DSC_THRESHOLD * n ≤ (B - 1) / FAC_DSC_THRESHOLD * FAC_DSC_THRESHOLD :=
              Nat.mul_le_mul_left _ (le_of_lt hthr.2)
          _ ≤ B - 1 := Nat.div_mul_le_self _ _
          _ < B := by rw [B_eq]; norm_num
      have hf : n < 2 ^ 64 := by rw [B_eq] at hn; norm_num; omega
      obtain ⟨r1, r2, r3⟩ := oddfacBase_val 64 ((B - 1) / FAC_DSC_THRESHOLD) n ([], 1) (by omega) hM hf
      generalize oddfacBase 64 ((B - 1) / FAC_DSC_THRESHOLD) n ([], 1) = res at r1 r2 r3
      obtain ⟨st, tn⟩ := res
      simp only at r1 r2 r3 ⊢
      have e1 : flVal (([] : List ℕ), 1) = 1 := rfl
      rw [e1, one_mul] at r3
      rw [← r3, ← oddfac_two_tables tn r2 r1]
      simp only [prodList, flVal, ne_eq, not_true_eq_false, if_false]; ring

theorem dsc_consts : FAC_DSC_THRESHOLD ≠ 0 ∧ 2 * (ODD_DOUBLEFACTORIAL_TABLE_LIMIT + 2) ≤ FAC_DSC_THRESHOLD ∧
    ODD_FACTORIAL_TABLE_LIMIT ≤ ODD_DOUBLEFACTORIAL_TABLE_LIMIT + 1 := by decide

theorem aboveThreshold_dsc (m : ℕ) : aboveThreshold m FAC_DSC_THRESHOLD = true ↔ FAC_DSC_THRESHOLD ≤ m := by
  unfold aboveThreshold
  have := dsc_consts.1
  simp [this]

/-- oddfac_1.c:331-332: s halvings bring n below the threshold, not fewer -/
theorem dscSteps_spec : ∀ fuel tn s, tn < 2 ^ fuel →
    ∃ d, dscSteps fuel tn s = (tn / 2 ^ d, s + d) ∧ tn / 2 ^ d < FAC_DSC_THRESHOLD ∧
      ∀ e < d, FAC_DSC_THRESHOLD ≤ tn / 2 ^ e := by
  intro fuel
  induction fuel with
  | zero =>
    intro tn s h
    have h0 : tn = 0 := by simpa using h
    have := dsc_consts.1
    exact ⟨0, by simp [dscSteps], by simp [h0]; omega, by intro e he; omega⟩
  | succ fuel ih =>
    intro tn s h
    rw [dscSteps]
    by_cases ha : aboveThreshold tn FAC_DSC_THRESHOLD = true
    · simp only [ha, if_true]
      have hlt : tn / 2 < 2 ^ fuel := by rw [pow_succ] at h; omega
      obtain ⟨d, h1, h2, h3⟩ := ih (tn / 2) (s + 1) hlt
      refine ⟨d + 1, ?_, ?_, ?_⟩
      · rw [h1, pow_succ, Nat.div_div_eq_div_mul, mul_comm]; congr 1; omega
      · rw [pow_succ, mul_comm, ← Nat.div_div_eq_div_mul]; exact h2
      · intro e he
        rcases e with _ | e
        · simpa using (aboveThreshold_dsc tn).1 ha
        · have := h3 e (by omega)
          rw [pow_succ, mul_comm, ← Nat.div_div_eq_div_mul]; exact this
    · simp only [ha]
      refine ⟨0, by simp, ?_, by intro e he; omega⟩
      have := (aboveThreshold_dsc tn).not.1 ha
      simpa using this

/-- oddfac_1.c:394-426 with flag = 0: squaring and multiplying by the swing factor climbs from
    (n >> s)! back to n!, given that each swing factor is the right one -/
theorem dscLoop_val (n : ℕ) : ∀ s x, x = oddPart ((n >>> s)!) →
    (∀ j < s, mpz_2multiswing_1 (n >>> j) * oddPart (((n >>> j) / 2)!) ^ 2 = oddPart ((n >>> j)!)) →
    dscLoop n none s x = oddPart (n !) := by
  intro s
  induction s with
  | zero => intro x hx _; simpa [dscLoop, iterDown] using hx
  | succ s ih =>
    intro x hx hsw
    have hstep : dscLoop n none (s + 1) x = dscLoop n none s (dscStep n none s x) := by
      unfold dscLoop; rw [iterDown]
    rw [hstep]
    unfold dscStep
    simp only [reduceCtorEq, if_false]
    apply ih
    · have := hsw s (by omega)
      have e : (n >>> s) / 2 = n >>> (s + 1) := by
        rw [Nat.shiftRight_succ]
      rw [e, ← hx] at this
      rw [← this]; ring
    · intro j hj; exact hsw j (by omega)

/-- above the threshold mpz_oddfac_1 is the DSC loop started from the odd part of (n >> d)! -/
theorem mpz_oddfac_1_above (n flag : ℕ) (hn : n < B) (ha : FAC_DSC_THRESHOLD ≤ n) :
    ∃ d, d ≠ 0 ∧ (∀ e < d, FAC_DSC_THRESHOLD ≤ n / 2 ^ e) ∧
      mpz_oddfac_1 n flag = dscLoop n (if flag = 0 then none else some (flag - 1)) d (oddPart ((n / 2 ^ d)!)) := by
  obtain ⟨c1, c2, c3, c4, c5⟩ := oddfac_consts
  obtain ⟨d1, d2, d3⟩ := dsc_consts
  unfold mpz_oddfac_1
  have h1 : ¬ n ≤ ODD_FACTORIAL_TABLE_LIMIT := by omega
  have h2 : ¬ n ≤ ODD_DOUBLEFACTORIAL_TABLE_LIMIT + 1 := by omega
  simp only [h1, h2, if_false]
  have hf : n < 2 ^ 64 := by rw [B_eq] at hn; norm_num; omega
  obtain ⟨d, e1, e2, e3⟩ := dscSteps_spec 64 n 0 hf
  rw [e1]
  simp only [Nat.zero_add]
  have hd : d ≠ 0 := by
    rintro rfl; simp at e2; omega
  refine ⟨d, hd, e3, ?_⟩
  have htn : ODD_DOUBLEFACTORIAL_TABLE_LIMIT + 2 ≤ n / 2 ^ d := by
    obtain ⟨d', rfl⟩ : ∃ d', d = d' + 1 := ⟨d - 1, by omega⟩
    have := e3 d' (by omega)
    rw [pow_succ, ← Nat.div_div_eq_div_mul]; omega
  have hM : (B - 1) / FAC_DSC_THRESHOLD * (n / 2 ^ d) < B := by
    calc (B - 1) / FAC_DSC_THRESHOLD * (n / 2 ^ d) ≤ (B - 1) / FAC_DSC_THRESHOLD * FAC_DSC_THRESHOLD :=
          Nat.mul_le_mul_left _ (le_of_lt e2)
      _ ≤ B - 1 := Nat.div_mul_le_self _ _
      _ < B := by rw [B_eq]; norm_num
  have hf2 : n / 2 ^ d < 2 ^ 64 := lt_of_le_of_lt (Nat.div_le_self _ _) hf
  obtain ⟨r1, r2, r3⟩ := oddfacBase_val 64 ((B - 1) / FAC_DSC_THRESHOLD) (n / 2 ^ d) ([], 1) htn hM hf2
  generalize oddfacBase 64 ((B - 1) / FAC_DSC_THRESHOLD) (n / 2 ^ d) ([], 1) = res at r1 r2 r3
  obtain ⟨st, tn⟩ := res
  simp only at r1 r2 r3 ⊢
  have e0 : flVal (([] : List ℕ), 1) = 1 := rfl
  rw [e0, one_mul] at r3
  simp only [hd, ne_eq, not_false_eq_true, if_true]
  congr 1
  rw [← r3, ← oddfac_two_tables tn r2 r1]
  simp only [prodList, flVal]; ring

/-- mpz_oddfac_1 n 0 is the odd part of n! for EVERY n, given the correctness of the sieve-based swing
    factor for the arguments at or above FAC_DSC_THRESHOLD -/
theorem mpz_oddfac_1_of_swing (n : ℕ) (hn : n < B)
    (hsw : ∀ m, FAC_DSC_THRESHOLD ≤ m → m ≤ n →
      mpz_2multiswing_1 m * oddPart ((m / 2)!) ^ 2 = oddPart (m !)) :
    mpz_oddfac_1 n 0 = oddPart (n !) := by
  by_cases hb : aboveThreshold n FAC_DSC_THRESHOLD = false
  · exact mpz_oddfac_1_below_dsc n 0 hn hb
  · have ha : FAC_DSC_THRESHOLD ≤ n := (aboveThreshold_dsc n).1 (by simpa using hb)
    obtain ⟨d, hd, e3, heq⟩ := mpz_oddfac_1_above n 0 hn ha
    rw [heq]
    simp only [if_true]
    apply dscLoop_val
    · rw [Nat.shiftRight_eq_div_pow]
    · intro j hj
      rw [Nat.shiftRight_eq_div_pow]
      exact hsw _ (e3 j hj) (Nat.div_le_self _ _)

theorem popc_fuel : ∀ f n, n < 2 ^ f → popc (f + 1) n = popc f n := by
  intro f
  induction f with
  | zero => intro n h; have : n = 0 := by simpa using h
            subst this; simp [popc]
  | succ f ih =>
    intro n h
    have e1 : popc (f + 1 + 1) n = if n = 0 then 0 else n % 2 + popc (f + 1) (n / 2) := rfl
    have e2 : popc (f + 1) n = if n = 0 then 0 else n % 2 + popc f (n / 2) := rfl
    rw [e1, e2]
    by_cases h0 : n = 0
    · simp [h0]
    · simp only [h0, if_false]
      rw [ih (n / 2) (by rw [pow_succ] at h; omega)]

theorem popcount_two_mul (k : ℕ) (hk : 2 * k < B) : popcount (2 * k) = popcount k := by
  unfold popcount
  rcases Nat.eq_zero_or_pos k with rfl | hpos
  · rfl
  · have e1 : popc 64 (2 * k) = if 2 * k = 0 then 0 else 2 * k % 2 + popc 63 (2 * k / 2) := rfl
    have h0 : 2 * k ≠ 0 := by omega
    rw [e1]
    simp only [h0, if_false]
    rw [show 2 * k % 2 = 0 by omega, show 2 * k / 2 = k by omega, Nat.zero_add]
    exact (popc_fuel 63 k (by rw [B_eq] at hk; norm_num; omega)).symm

/-- the even case of mpz_2fac_ui: (2k)!! = k! 2^k (2fac_ui.c:62-71) -/
theorem two_fac_even (k : ℕ) (hk : 2 * k < B) (hodd : mpz_oddfac_1 k 0 = oddPart (k !)) :
    mpz_2fac_ui (2 * k) = (2 * k)‼ := by
  unfold mpz_2fac_ui
  have e0 : 2 * k % 2 = 0 := by omega
  have hkB : k < B := by omega
  have hcount : (if 2 * k ≤ TABLE_LIMIT_2N_MINUS_POPC_2N ∧ 2 * k ≠ 0 then fac2cntTab (2 * k / 2 - 1) else 2 * k - popcount (2 * k))
      = 2 * k - popcount (2 * k) := by
    split_ifs with hc
    · exact fac2cnt_entry (2 * k) hc.1 (by omega)
    · rfl
  simp only [e0, if_true]
  rw [hcount, show 2 * k / 2 = k by omega, hodd, Nat.doubleFactorial_two_mul, popcount_two_mul k hk]
  have hp : popcount k ≤ k := popc_le 64 k
  conv_rhs => rw [factorial_two_adic k hkB]
  rw [show 2 * k - popcount k = k + (k - popcount k) by omega, pow_add]; ring

/-- 2fac_ui.c:91-92: the factors n-2, n-4, ... above ODD_DOUBLEFACTORIAL_TABLE_LIMIT -/
theorem fac2StoreDown_val (M : ℕ) : ∀ fuel n st, n ≤ 2 * fuel + ODD_DOUBLEFACTORIAL_TABLE_LIMIT + 2 → n % 2 = 1 →
    ODD_DOUBLEFACTORIAL_TABLE_LIMIT + 2 ≤ n → M * n < B →
    flVal (fac2StoreDown M fuel n st) * (ODD_DOUBLEFACTORIAL_TABLE_LIMIT)‼ = flVal st * (n - 2)‼ := by
  have hLodd := oddfac_consts.1
  intro fuel
  induction fuel with
  | zero =>
    intro n st h1 _ h3 _
    have : n - 2 = ODD_DOUBLEFACTORIAL_TABLE_LIMIT := by omega
    rw [this]; rfl
  | succ fuel ih =>
    intro n st h1 hodd h3 hM
    rw [fac2StoreDown]
    by_cases hc : n - 2 > ODD_DOUBLEFACTORIAL_TABLE_LIMIT
    · simp only [hc, if_true]
      have hv := flStore_val (n - 2) M st (fun hle => by
        calc st.2 * (n - 2) ≤ M * n := Nat.mul_le_mul hle (by omega)
          _ < B := hM)
      have hM' : M * (n - 2) < B := lt_of_le_of_lt (Nat.mul_le_mul_left _ (by omega)) hM
      rw [ih (n - 2) _ (by omega) (by omega) (by omega) hM', hv]
      obtain ⟨k, rfl⟩ : ∃ k, n = k + 4 := ⟨n - 4, by omega⟩
      simp only [show k + 4 - 2 = k + 2 by omega, show k + 2 - 2 = k by omega, Nat.doubleFactorial_add_two]; ring
    · simp only [hc, if_false]
      have : n - 2 = ODD_DOUBLEFACTORIAL_TABLE_LIMIT := by omega
      rw [this]

theorem oddDF_of_odd (n : ℕ) (h : n % 2 = 1) : oddDF n = n‼ := by
  unfold oddDF; congr 1; omega

/-- DSC loop with the last square skipped (flag = 1): odd part of (n/2)! times the swing factor of n -/
theorem dscLoop_skip_val (n : ℕ) : ∀ s x, x = oddPart ((n >>> (s + 1))!) →
    (∀ j, 1 ≤ j → j ≤ s → mpz_2multiswing_1 (n >>> j) * oddPart (((n >>> j) / 2)!) ^ 2 = oddPart ((n >>> j)!)) →
    dscLoop n (some 0) (s + 1) x = oddPart ((n / 2)!) * mpz_2multiswing_1 n := by
  intro s
  induction s with
  | zero =>
    intro x hx _
    have : dscLoop n (some 0) 1 x = dscStep n (some 0) 0 x := by
      unfold dscLoop; rw [iterDown, iterDown]
    rw [this]; unfold dscStep
    simp only [if_true, Nat.shiftRight_zero]
    rw [hx, Nat.shiftRight_eq_div_pow]
  | succ s ih =>
    intro x hx hsw
    have hstep : dscLoop n (some 0) (s + 1 + 1) x = dscLoop n (some 0) (s + 1) (dscStep n (some 0) (s + 1) x) := by
      unfold dscLoop; rw [iterDown]
    rw [hstep]
    apply ih
    · unfold dscStep
      have hne : ¬ (some 0 = some (s + 1)) := by simp
      simp only [hne, if_false]
      have := hsw (s + 1) (by omega) le_rfl
      have e : (n >>> (s + 1)) / 2 = n >>> (s + 1 + 1) := (Nat.shiftRight_succ _ _).symm
      rw [e, ← hx] at this
      rw [← this]; ring
    · intro j h1 h2; exact hsw j h1 (by omega)

/-- mpz_2fac_ui for odd n (table, limb-product basecase, or mpz_oddfac_1 with flag 1), given the swing factors -/
theorem two_fac_odd (n : ℕ) (hn : n < B) (hodd : n % 2 = 1)
    (hsw : FAC_2DSC_THRESHOLD ≤ n → ∀ m, FAC_DSC_THRESHOLD ≤ m → m ≤ n →
      mpz_2multiswing_1 m * oddPart ((m / 2)!) ^ 2 = oddPart (m !)) :
    mpz_2fac_ui n = n‼ := by
  obtain ⟨c1, c2, c3, c4, c5⟩ := oddfac_consts
  obtain ⟨d1, d2, d3⟩ := dsc_consts
  unfold mpz_2fac_ui
  have e0 : ¬ n % 2 = 0 := by omega
  simp only [e0, if_false]
  by_cases h1 : n ≤ ODD_DOUBLEFACTORIAL_TABLE_LIMIT
  · simp only [h1, if_true]
    rw [odd2fac_entry _ (by omega)]; congr 1; omega
  · simp only [h1, if_false]
    have h2dsc : FAC_2DSC_THRESHOLD = 2 * FAC_DSC_THRESHOLD ∨ FAC_2DSC_THRESHOLD = 2 * FAC_DSC_THRESHOLD + 1 := by
      unfold FAC_2DSC_THRESHOLD
      have : FAC_DSC_THRESHOLD &&& 1 = FAC_DSC_THRESHOLD % 2 := Nat.and_one_is_mod _
      rw [this]
      have h := Nat.shiftLeft_add_eq_or_of_lt (i := 1) (b := FAC_DSC_THRESHOLD % 2) (by omega) FAC_DSC_THRESHOLD
      rw [Nat.shiftLeft_eq, pow_one] at h
      rw [← h]; omega
    by_cases h2 : aboveThreshold n FAC_2DSC_THRESHOLD = true
    · simp only [h2, Bool.not_true, Bool.false_eq_true, if_false]
      -- mpz_oddfac_1 (x, n, 1)
      have h2' : FAC_2DSC_THRESHOLD ≤ n := by
        unfold aboveThreshold at h2
        have : FAC_2DSC_THRESHOLD ≠ 0 := by omega
        simpa [this] using h2
      have ha : FAC_DSC_THRESHOLD ≤ n := by omega
      have hsw := hsw h2'
      obtain ⟨d, hd, e3, heq⟩ := mpz_oddfac_1_above n 1 hn ha
      rw [heq]
      simp only [one_ne_zero, if_false, Nat.sub_self]
      obtain ⟨s, rfl⟩ : ∃ s, d = s + 1 := ⟨d - 1, by omega⟩
      rw [dscLoop_skip_val n s _ (by rw [Nat.shiftRight_eq_div_pow])
        (fun j h1 h2 => by rw [Nat.shiftRight_eq_div_pow]; exact hsw _ (e3 j (by omega)) (Nat.div_le_self _ _))]
      have hs := hsw n ha le_rfl
      have hrec := oddPart_factorial_rec n
      rw [oddDF_of_odd n hodd] at hrec
      have hpos : 0 < oddPart ((n / 2)!) := by
        have := (oddPart_spec ((n / 2)!) (Nat.factorial_ne_zero _)).1; omega
      have : oddPart ((n / 2)!) * mpz_2multiswing_1 n * oddPart ((n / 2)!) = n‼ * oddPart ((n / 2)!) := by
        rw [← hrec, ← hs]; ring
      exact Nat.eq_of_mul_eq_mul_right hpos this
    · simp only [h2, Bool.not_false, if_true]
      have hthr : n < FAC_2DSC_THRESHOLD := by
        unfold aboveThreshold at h2
        simp only [Bool.or_eq_true, decide_eq_true_eq, not_or, not_le] at h2
        exact h2.2
      have h0 : FAC_2DSC_THRESHOLD ≠ 0 := by omega
      have hM : (B - 1) / FAC_2DSC_THRESHOLD * n < B := by
        calc (B - 1) / FAC_2DSC_THRESHOLD * n ≤ (B - 1) / FAC_2DSC_THRESHOLD * FAC_2DSC_THRESHOLD :=
              Nat.mul_le_mul_left _ (le_of_lt hthr)
          _ ≤ B - 1 := Nat.div_mul_le_self _ _
          _ < B := by rw [B_eq]; norm_num
      have hv := fac2StoreDown_val ((B - 1) / FAC_2DSC_THRESHOLD) n n ([ODD_DOUBLEFACTORIAL_TABLE_MAX], n)
        (by omega) hodd (by omega) hM
      have e1 : flVal ([ODD_DOUBLEFACTORIAL_TABLE_MAX], n) = n * (ODD_DOUBLEFACTORIAL_TABLE_LIMIT)‼ := by
        simp only [flVal, prodList, c2]; ring
      rw [e1] at hv
      have hpos : 0 < (ODD_DOUBLEFACTORIAL_TABLE_LIMIT)‼ := Nat.doubleFactorial_pos _
      have hdf : n * (n - 2)‼ = n‼ := by
        obtain ⟨k, rfl⟩ : ∃ k, n = k + 2 := ⟨n - 2, by omega⟩
        rw [Nat.doubleFactorial_add_two]; simp
      have : flVal (fac2StoreDown ((B - 1) / FAC_2DSC_THRESHOLD) n n ([ODD_DOUBLEFACTORIAL_TABLE_MAX], n)) *
          (ODD_DOUBLEFACTORIAL_TABLE_LIMIT)‼ = n‼ * (ODD_DOUBLEFACTORIAL_TABLE_LIMIT)‼ := by
        rw [hv, ← hdf]; ring
      exact Nat.eq_of_mul_eq_mul_right hpos this

theorem FAC_2DSC_ge : 2 * FAC_DSC_THRESHOLD ≤ FAC_2DSC_THRESHOLD := by decide

end Fac

/-! ## mpz_remove -/

/-- [F^(2^(p-1)), ..., F^2, F^1]: the powers the second phase of mpz_remove walks through -/
def downList (F : ℕ) : ℕ → List ℕ
  | 0 => []
  | p + 1 => F ^ 2 ^ p :: downList F p

/-- fpow[p], ..., fpow[0] -/
def powList (F p : ℕ) : List ℕ := F ^ 2 ^ p :: downList F p

theorem removeUp_spec (F a : ℕ) (hF : 2 ≤ F) : ∀ fuel dest p, 1 ≤ dest → a = dest * F ^ (2 ^ p - 1) →
    a < 2 ^ (2 ^ (fuel + p) - 1) →
    ∃ dest' p', removeUp fuel dest (powList F p) p = (dest', powList F p', p') ∧ 1 ≤ dest' ∧
      a = dest' * F ^ (2 ^ p' - 1) ∧ ¬ F ^ 2 ^ p' ∣ dest' := by
  intro fuel
  induction fuel with
  | zero =>
    intro dest p hd ha hlt
    exfalso
    simp only [Nat.zero_add] at hlt
    have h1 : 2 ^ (2 ^ p - 1) ≤ F ^ (2 ^ p - 1) := Nat.pow_le_pow_left hF _
    have h2 : F ^ (2 ^ p - 1) ≤ dest * F ^ (2 ^ p - 1) := Nat.le_mul_of_pos_left _ hd
    omega
  | succ fuel ih =>
    intro dest p hd ha hlt
    rw [powList, removeUp]
    by_cases hdiv : dest % F ^ 2 ^ p ≠ 0
    · simp only [hdiv, ne_eq, not_false_eq_true, if_true]
      exact ⟨dest, p, rfl, hd, ha, fun h => hdiv (Nat.mod_eq_zero_of_dvd h)⟩
    · simp only [hdiv, if_false]
      have hdvd : F ^ 2 ^ p ∣ dest := Nat.dvd_of_mod_eq_zero (by simpa using hdiv)
      have hFpos : 0 < F ^ 2 ^ p := Nat.pow_pos (by omega)
      have hd' : 1 ≤ dest / F ^ 2 ^ p := Nat.div_pos (Nat.le_of_dvd hd hdvd) hFpos
      have hsq : F ^ 2 ^ p * F ^ 2 ^ p = F ^ 2 ^ (p + 1) := by rw [← pow_add, pow_succ]; congr 1; ring
      have ha' : a = dest / F ^ 2 ^ p * F ^ (2 ^ (p + 1) - 1) := by
        have hpos : 1 ≤ 2 ^ p := Nat.one_le_two_pow
        rw [show 2 ^ (p + 1) - 1 = 2 ^ p + (2 ^ p - 1) by rw [pow_succ]; omega, pow_add, ← mul_assoc,
          Nat.div_mul_cancel hdvd]
        exact ha
      have := ih (dest / F ^ 2 ^ p) (p + 1) hd' ha' (by rw [show fuel + (p + 1) = fuel + 1 + p by ring]; exact hlt)
      rw [powList] at this
      rw [hsq]; exact this

theorem removeDown_spec (F : ℕ) (hF : 2 ≤ F) : ∀ p dest pwr, 1 ≤ dest → ¬ F ^ 2 ^ p ∣ dest →
    dest * F ^ pwr = (removeDown (downList F p) p dest pwr).1 * F ^ (removeDown (downList F p) p dest pwr).2 ∧
    ¬ F ∣ (removeDown (downList F p) p dest pwr).1 := by
  intro p
  induction p with
  | zero => intro dest pwr _ h; simpa [downList, removeDown] using h
  | succ p ih =>
    intro dest pwr hd hnd
    rw [downList, removeDown]
    simp only [Nat.add_sub_cancel]
    have hFpos : 0 < F ^ 2 ^ p := Nat.pow_pos (by omega)
    by_cases hdiv : dest % F ^ 2 ^ p = 0
    · simp only [hdiv, if_true]
      have hdvd : F ^ 2 ^ p ∣ dest := Nat.dvd_of_mod_eq_zero hdiv
      have hd' : 1 ≤ dest / F ^ 2 ^ p := Nat.div_pos (Nat.le_of_dvd hd hdvd) hFpos
      have hnd' : ¬ F ^ 2 ^ p ∣ dest / F ^ 2 ^ p := by
        intro h
        apply hnd
        have : F ^ 2 ^ p * F ^ 2 ^ p ∣ dest := by
          rw [← Nat.div_mul_cancel hdvd]; exact Nat.mul_dvd_mul_right h _
        rwa [← pow_add, show 2 ^ p + 2 ^ p = 2 ^ (p + 1) by rw [pow_succ]; ring] at this
      obtain ⟨h1, h2⟩ := ih (dest / F ^ 2 ^ p) (pwr + 2 ^ p) hd' hnd'
      refine ⟨?_, h2⟩
      rw [← h1, pow_add]
      conv_lhs => rw [← Nat.div_mul_cancel hdvd]
      ring
    · simp only [hdiv, if_false]
      exact ih dest pwr hd (fun h => hdiv (Nat.mod_eq_zero_of_dvd h))

theorem ctzAux_spec : ∀ fuel a, a ≠ 0 → a < 2 ^ fuel →
    a = (a >>> ctzAux fuel a) * 2 ^ ctzAux fuel a ∧ (a >>> ctzAux fuel a) % 2 = 1 := by
  intro fuel
  induction fuel with
  | zero => intro a h0 h; simp at h; omega
  | succ fuel ih =>
    intro a h0 hlt
    rw [ctzAux]
    by_cases h : a % 2 = 1 ∨ a = 0
    · simp only [h, if_true, Nat.shiftRight_zero, pow_zero, mul_one, true_and]; omega
    · simp only [h, if_false]
      have h2 : a / 2 ≠ 0 := by omega
      obtain ⟨e1, e2⟩ := ih (a / 2) h2 (by rw [pow_succ] at hlt; omega)
      have hs : a >>> (1 + ctzAux fuel (a / 2)) = (a / 2) >>> ctzAux fuel (a / 2) := by
        rw [Nat.shiftRight_add, Nat.shiftRight_one]
      rw [hs]
      refine ⟨?_, e2⟩
      rw [pow_add, pow_one, ← mul_assoc, mul_comm _ 2, mul_assoc, ← e1]; omega

theorem mpz_remove_nat (a F : ℕ) (ha : a ≠ 0) (hF : 3 ≤ F) :
    a = (removeDown ((removeUp (a.log2 + 2) a [F] 0).2.1.drop 1) (removeUp (a.log2 + 2) a [F] 0).2.2
          (removeUp (a.log2 + 2) a [F] 0).1 (2 ^ (removeUp (a.log2 + 2) a [F] 0).2.2 - 1)).1 *
        F ^ (removeDown ((removeUp (a.log2 + 2) a [F] 0).2.1.drop 1) (removeUp (a.log2 + 2) a [F] 0).2.2
          (removeUp (a.log2 + 2) a [F] 0).1 (2 ^ (removeUp (a.log2 + 2) a [F] 0).2.2 - 1)).2 ∧
    ¬ F ∣ (removeDown ((removeUp (a.log2 + 2) a [F] 0).2.1.drop 1) (removeUp (a.log2 + 2) a [F] 0).2.2
          (removeUp (a.log2 + 2) a [F] 0).1 (2 ^ (removeUp (a.log2 + 2) a [F] 0).2.2 - 1)).1 := by
  have hlt : a < 2 ^ (2 ^ (a.log2 + 2 + 0) - 1) := by
    have h1 : a < 2 ^ (a.log2 + 1) := Nat.lt_log2_self
    have h2 : a.log2 + 1 ≤ 2 ^ (a.log2 + 2 + 0) - 1 := by
      have : a.log2 + 2 < 2 ^ (a.log2 + 2) := Nat.lt_two_pow_self
      simp only [Nat.add_zero]; omega
    exact lt_of_lt_of_le h1 (Nat.pow_le_pow_right (by norm_num) h2)
  have hinit : [F] = powList F 0 := by simp [powList, downList]
  obtain ⟨dest', p', e, hd, ha', hnd⟩ := removeUp_spec F a (by omega) (a.log2 + 2) a 0 (by omega) (by simp) hlt
  rw [hinit, e]
  simp only [powList, List.drop_one, List.tail_cons]
  obtain ⟨h1, h2⟩ := removeDown_spec F (by omega) p' dest' (2 ^ p' - 1) hd hnd
  exact ⟨by rw [← h1]; exact ha', h2⟩

theorem signed_factor (x : ℤ) (d F w : ℕ) (ha : x.natAbs = d * F ^ w) (hnd : ¬ F ∣ d) :
    x = (if x < 0 then -(Int.ofNat d) else Int.ofNat d) * (F : ℤ) ^ w ∧
    ¬ (F : ℤ) ∣ (if x < 0 then -(Int.ofNat d) else Int.ofNat d) := by
  have hnd' : ¬ (F : ℤ) ∣ (d : ℤ) := fun h => hnd (Int.natCast_dvd_natCast.mp h)
  by_cases hx : x < 0
  · simp only [hx, if_true, Int.ofNat_eq_natCast]
    refine ⟨?_, fun h => hnd' ((dvd_neg).mp h)⟩
    have : x = -(x.natAbs : ℤ) := by omega
    rw [this, ha]; push_cast; ring
  · simp only [hx, if_false, Int.ofNat_eq_natCast]
    refine ⟨?_, hnd'⟩
    have : x = (x.natAbs : ℤ) := by omega
    rw [this, ha]; push_cast; ring


/-! ## Binomials -/

theorem binomAux_eq (n : ℕ) : ∀ i, binomAux n i = n.choose i := by
  intro i
  induction i with
  | zero => simp [binomAux]
  | succ i ih =>
    rw [binomAux, ih, ← Nat.choose_succ_right_eq]
    exact Nat.mul_div_cancel _ (Nat.succ_pos i)

theorem binom_eq_choose (n k : ℕ) : binom n k = n.choose k := by
  unfold binom
  by_cases h : k > n
  · simp [h, Nat.choose_eq_zero_of_lt h]
  · simp only [h, if_false, binomAux_eq]
    split_ifs with h2
    · exact Nat.choose_symm (by omega)
    · rfl


/-- the accumulate-and-divide loop of mpz_bin_ui (bin_ui.c:84-124) computes binomial(ni0 + k, k):
    invariant r·nacc = binomial(ni0 + j, j)·kacc after j steps, so every DIVIDE is exact -/
theorem binUiLoop_spec (k ni0 : ℕ) : ∀ fuel i ni nacc kacc r, 1 ≤ i → i ≤ k + 1 → k + 1 ≤ fuel + i → 1 ≤ kacc →
    ni = ni0 + (i - 1) → r * nacc = (ni0 + (i - 1)).choose (i - 1) * kacc →
    (binUiLoop k fuel i ni nacc kacc r).2.2 * (binUiLoop k fuel i ni nacc kacc r).1 /
      (binUiLoop k fuel i ni nacc kacc r).2.1 = (ni0 + k).choose k := by
  intro fuel
  induction fuel with
  | zero =>
    intro i ni nacc kacc r h1 h2 h3 hk hni hinv
    have : i = k + 1 := by omega
    subst this
    simp only [binUiLoop, Nat.add_sub_cancel] at *
    rw [hinv]; exact Nat.mul_div_cancel _ hk
  | succ fuel ih =>
    intro i ni nacc kacc r h1 h2 h3 hk hni hinv
    rw [binUiLoop]
    by_cases hend : i > k
    · simp only [hend, if_true]
      have : i = k + 1 := by omega
      subst this
      simp only [Nat.add_sub_cancel] at hinv
      rw [hinv]; exact Nat.mul_div_cancel _ hk
    · simp only [hend, if_false]
      obtain ⟨j, rfl⟩ : ∃ j, i = j + 1 := ⟨i - 1, by omega⟩
      simp only [Nat.add_sub_cancel] at hni hinv ih ⊢
      subst hni
      -- C(m, j) (m+1) = C(m+1, j+1) (j+1)
      have hch := Nat.add_one_mul_choose_eq (ni0 + j) j
      have hstep : r * (nacc * (ni0 + j + 1)) = (ni0 + (j + 1)).choose (j + 1) * (kacc * (j + 1)) := by
        rw [show ni0 + (j + 1) = ni0 + j + 1 by omega]
        calc r * (nacc * (ni0 + j + 1)) = (r * nacc) * (ni0 + j + 1) := by ring
          _ = (ni0 + j).choose j * kacc * (ni0 + j + 1) := by rw [hinv]
          _ = ((ni0 + j + 1) * (ni0 + j).choose j) * kacc := by ring
          _ = (ni0 + j + 1).choose (j + 1) * (kacc * (j + 1)) := by rw [hch]; ring
      by_cases hov : kacc * (j + 1) / B ≠ 0
      · simp only [hov, ne_eq, not_false_eq_true, if_true]
        apply ih (j + 1 + 1) (ni0 + j + 1) 1 (j + 1) _ (by omega) (by omega) (by omega) (by omega) (by omega)
        simp only [Nat.add_sub_cancel, mul_one]
        rw [hstep, show (ni0 + (j + 1)).choose (j + 1) * (kacc * (j + 1)) = (ni0 + (j + 1)).choose (j + 1) * (j + 1) * kacc by ring,
          Nat.mul_div_cancel _ hk]
      · simp only [hov, if_false]
        have hlt : kacc * (j + 1) < B := by
          have hB : 0 < B := B_pos
          by_contra hge
          exact hov (Nat.pos_iff_ne_zero.mp (Nat.div_pos (by omega) hB))
        rw [Nat.mod_eq_of_lt hlt]
        apply ih (j + 1 + 1) (ni0 + j + 1) _ _ r (by omega) (by omega) (by omega)
          (Nat.mul_pos hk (by omega)) (by omega)
        simp only [Nat.add_sub_cancel]
        exact hstep

theorem mpz_bin_ui_eq (n : ℤ) (k : ℕ) :
    mpz_bin_ui n k = if 0 ≤ n then ((n.toNat.choose k : ℕ) : ℤ)
      else (-1) ^ k * ((((-n).toNat + k - 1).choose k : ℕ) : ℤ) := by
  unfold mpz_bin_ui
  have hloop : ∀ k' ni' : ℕ, (binUiLoop k' k' 1 ni' 1 1 1).2.2 * (binUiLoop k' k' 1 ni' 1 1 1).1 /
      (binUiLoop k' k' 1 ni' 1 1 1).2.1 = (ni' + k').choose k' := fun k' ni' =>
    binUiLoop_spec k' ni' k' 1 ni' 1 1 1 le_rfl (by omega) (by omega) le_rfl (by simp) (by simp)
  by_cases hneg : n < 0
  · have h0 : ¬ 0 ≤ n := by omega
    simp only [hneg, h0, if_true, if_false]
    have hval : ∀ k' ni' : ℕ, (k', ni') = (if (-n - 1).toNat < k then ((-n - 1).toNat, k) else (k, (-n - 1).toNat)) →
        (ni' + k').choose k' = ((-n).toNat + k - 1).choose k := by
      intro k' ni' h
      have e : (-n).toNat + k - 1 = (-n - 1).toNat + k := by omega
      rw [e]
      split_ifs at h with hc
      · obtain ⟨h1, h2⟩ := Prod.mk.inj h
        rw [h1, h2, add_comm]; exact Nat.choose_symm_add
      · obtain ⟨h1, h2⟩ := Prod.mk.inj h
        rw [h1, h2]
    generalize hsw : (if (-n - 1).toNat < k then ((-n - 1).toNat, k) else (k, (-n - 1).toNat)) = sw
    obtain ⟨k', ni'⟩ := sw
    simp only
    have := hval k' ni' hsw.symm
    have hl := hloop k' ni'
    generalize binUiLoop k' k' 1 ni' 1 1 1 = res at hl
    obtain ⟨nacc, kacc, r⟩ := res
    simp only at hl ⊢
    rw [hl, this]
    rcases Nat.even_or_odd k with he | ho
    · have : k % 2 ≠ 1 := by have := Nat.even_iff.mp he; omega
      simp [this, he.neg_one_pow]
    · have : k % 2 = 1 := Nat.odd_iff.mp ho
      simp [this, ho.neg_one_pow]
  · have h0 : 0 ≤ n := by omega
    simp only [hneg, h0, if_true, if_false]
    by_cases hlt : n.toNat < k
    · simp [hlt, Nat.choose_eq_zero_of_lt hlt]
    · simp only [hlt, if_false]
      have hval : ∀ k' ni' : ℕ, (k', ni') = (if n.toNat - k < k then (n.toNat - k, k) else (k, n.toNat - k)) →
          (ni' + k').choose k' = n.toNat.choose k := by
        intro k' ni' h
        split_ifs at h with hc
        · obtain ⟨h1, h2⟩ := Prod.mk.inj h
          rw [h1, h2, show k + (n.toNat - k) = n.toNat by omega]; exact Nat.choose_symm (by omega)
        · obtain ⟨h1, h2⟩ := Prod.mk.inj h
          rw [h1, h2, show n.toNat - k + k = n.toNat by omega]
      generalize hsw : (if n.toNat - k < k then (n.toNat - k, k) else (k, n.toNat - k)) = sw
      obtain ⟨k', ni'⟩ := sw
      simp only
      have := hval k' ni' hsw.symm
      have hl := hloop k' ni'
      generalize binUiLoop k' k' 1 ni' 1 1 1 = res at hl
      obtain ⟨nacc, kacc, r⟩ := res
      simp only at hl ⊢
      rw [hl, this]; rfl

/-! ## spec connections for primorial / multifactorial / nextprime, predicate soundness -/

theorem primorial_eq (n : ℕ) : primorial n = _root_.primorial n := by
  induction n with
  | zero => rfl
  | succ n ih =>
    rw [primorial, ih]
    unfold _root_.primorial
    rw [Finset.range_add_one (n := n + 1), Finset.filter_insert]
    by_cases hp : (n + 1).Prime
    · have : isPrimeTD (n + 1) = true := (isPrimeTD_iff _).2 hp
      simp only [this, if_true, hp]
      rw [Finset.prod_insert (by simp)]
    · have : ¬ isPrimeTD (n + 1) = true := fun h => hp ((isPrimeTD_iff _).1 h)
      simp only [this, if_false, hp, Bool.false_eq_true]

/-- defining recursion of the multifactorial spec: n!^(m) = n · (n-m)!^(m), and n (or 1) once n ≤ m -/
theorem multiFactorial_rec (n m : ℕ) (hm : 1 ≤ m) :
    multiFactorial n m = if n ≤ m then (if n = 0 then 1 else n) else n * multiFactorial (n - m) m := by
  have aux : ∀ n fuel, n ≤ fuel → mfacAux m fuel n = mfacAux m n n := by
    intro n
    induction n using Nat.strong_induction_on with
    | _ n ih =>
      intro fuel h
      rcases Nat.eq_zero_or_pos n with rfl | hpos
      · cases fuel <;> simp [mfacAux]
      · obtain ⟨k, rfl⟩ : ∃ k, n = k + 1 := ⟨n - 1, by omega⟩
        obtain ⟨f, rfl⟩ : ∃ f, fuel = f + 1 := ⟨fuel - 1, by omega⟩
        rw [mfacAux, mfacAux]
        by_cases hc : k + 1 ≤ m
        · simp [hc]
        · simp only [hc, if_false]
          rw [ih (k + 1 - m) (by omega) f (by omega), ih (k + 1 - m) (by omega) k (by omega)]
  unfold multiFactorial
  rcases Nat.eq_zero_or_pos n with rfl | hpos
  · simp [mfacAux]
  · obtain ⟨k, rfl⟩ : ∃ k, n = k + 1 := ⟨n - 1, by omega⟩
    rw [mfacAux]
    by_cases hc : k + 1 ≤ m
    · simp [hc]
    · simp only [hc, if_false]
      rw [aux (k + 1 - m) k (by omega)]

theorem firstPrimeFrom_spec : ∀ fuel m, m ≤ firstPrimeFrom fuel m ∧ firstPrimeFrom fuel m ≤ m + fuel ∧
    (∀ j, m ≤ j → j < firstPrimeFrom fuel m → isPrime j = false) := by
  intro fuel
  induction fuel with
  | zero => intro m; simp only [firstPrimeFrom]; exact ⟨le_rfl, le_rfl, fun j h1 h2 => by omega⟩
  | succ fuel ih =>
    intro m
    rw [firstPrimeFrom]
    by_cases hp : isPrime m = true
    · simp only [hp, if_true]; exact ⟨le_rfl, by omega, fun j h1 h2 => by omega⟩
    · simp only [hp, if_false, Bool.false_eq_true]
      obtain ⟨h1, h2, h3⟩ := ih (m + 1)
      refine ⟨by omega, by omega, fun j hj1 hj2 => ?_⟩
      rcases Nat.eq_or_lt_of_le hj1 with rfl | hlt
      · simpa using hp
      · exact h3 j hlt hj2

open Mpir.Ops.Numth in
/-- acceptance by the nextprime predicate is sound for real primes: no prime lies strictly between -/
theorem nextOk_none (n r : ℤ) (h : nextOk n r = none) :
    n < r ∧ ∀ j : ℕ, n < (j : ℤ) → (j : ℤ) < r → ¬ j.Prime := by
  unfold nextOk at h
  by_cases h1 : r ≤ n
  · simp [h1] at h
  · simp only [h1, if_false] at h
    refine ⟨by omega, fun j hj1 hj2 hp => ?_⟩
    generalize hlo : (if n < 0 then 0 else n.toNat) = lo at h
    have hlo' : (lo : ℤ) ≤ max n 0 := by
      subst hlo; split_ifs <;> omega
    by_cases h2 : r.toNat ≤ nextPrime lo
    · unfold nextPrime at h2
      obtain ⟨_, _, h3⟩ := firstPrimeFrom_spec (lo + 2) (lo + 1)
      have hjpos : 1 ≤ j := hp.one_lt.le
      have := h3 j (by omega) (by omega)
      rw [isPrime_of_prime j hp] at this
      exact absurd this (by simp)
    · simp [h2] at h

open Mpir.Ops.Numth in
/-- acceptance by the primality-code predicate is sound for real primes: a prime never gets code 0;
    code 2 is accepted only when the oracle says prime -/
theorem codeOk_none (n : ℕ) (r : ℤ) (codes : List ℤ) (strict : Bool) (h : codeOk n r codes strict = none) :
    (n.Prime → r ≠ 0) ∧ (r = 2 → isPrime n = true) ∧ (strict = true → isPrime n = false → r = 0) := by
  unfold codeOk at h
  split_ifs at h with h1 h2 h3 h4 h5
  · exact ⟨fun _ => h3, fun _ => h2, fun _ hc => by rw [h2] at hc; exact absurd hc (by simp)⟩
  · refine ⟨fun hp => absurd (isPrime_of_prime n hp) h2, fun h2' => absurd h2' h4, fun hs _ => ?_⟩
    by_contra hne
    exact h5 (by simp [hs, hne])

/-! ## The low-limb claim of mpz/fib_ui.c: F(n) mod 2^64 ≠ 1 for n ≡ 1 (mod 4), 1 < n < 2^64 -/

/-- Lucas number L(m) for m ≥ 1 -/
def lucN (m : ℕ) : ℕ := Nat.fib (m + 1) + Nat.fib (m - 1)

theorem fib_two_mul_luc (m : ℕ) (hm : 1 ≤ m) : Nat.fib (2 * m) = Nat.fib m * lucN m := by
  obtain ⟨k, rfl⟩ : ∃ k, m = k + 1 := ⟨m - 1, by omega⟩
  rw [Nat.fib_two_mul, lucN]
  simp only [Nat.add_sub_cancel]
  have h1 : Nat.fib (k + 1 + 1) = Nat.fib k + Nat.fib (k + 1) := Nat.fib_add_two
  congr 1; omega

/-- F(4j+1) - 1 = F(2j) L(2j+1) -/
theorem fib_four_mul_add_one (j : ℕ) : Nat.fib (4 * j + 1) = Nat.fib (2 * j) * lucN (2 * j + 1) + 1 := by
  have h1 := Nat.fib_two_mul_add_one (2 * j)
  rw [show 2 * (2 * j) + 1 = 4 * j + 1 by ring] at h1
  obtain ⟨c1, _⟩ := cassini_nat (2 * j) (Nat.fib (2 * j)) (Nat.fib (2 * j + 1)) rfl rfl
  have hc := c1 (by omega)
  have h2 : Nat.fib (2 * j + 1 + 1) = Nat.fib (2 * j) + Nat.fib (2 * j + 1) := Nat.fib_add_two
  rw [h1, lucN, h2]
  simp only [Nat.add_sub_cancel]
  nlinarith

theorem fib_add_three_mod2 (n : ℕ) : Nat.fib (n + 3) % 2 = Nat.fib n % 2 := by
  have h := Nat.fib_add n 2
  have e2 : Nat.fib 2 = 1 := by decide
  have e3 : Nat.fib 3 = 2 := by decide
  rw [show n + 2 + 1 = n + 3 by omega, e2, show 2 + 1 = 3 by rfl, e3] at h
  omega

/-- F(m) is even exactly when 3 ∣ m -/
theorem fib_even_iff (m : ℕ) : Nat.fib m % 2 = 0 ↔ m % 3 = 0 := by
  induction m using Nat.strong_induction_on with
  | _ m ih =>
    match m with
    | 0 => decide
    | 1 => decide
    | 2 => decide
    | m + 3 => rw [fib_add_three_mod2, ih m (by omega)]; omega

theorem lucN_mod2 (m : ℕ) (hm : 1 ≤ m) : lucN m % 2 = Nat.fib m % 2 := by
  obtain ⟨k, rfl⟩ : ∃ k, m = k + 1 := ⟨m - 1, by omega⟩
  unfold lucN
  simp only [Nat.add_sub_cancel]
  have h1 : Nat.fib (k + 1 + 1) = Nat.fib k + Nat.fib (k + 1) := Nat.fib_add_two
  omega

/-- L(m) is never divisible by 8, and L(m) is not divisible by 4 for even m -/
theorem lucN_mod8 (m : ℕ) (hm : 1 ≤ m) : lucN m % 8 ≠ 0 ∧ (m % 2 = 0 → lucN m % 4 ≠ 0) := by
  induction m using Nat.strong_induction_on with
  | _ m ih =>
    by_cases hs : m ≤ 13
    · interval_cases m <;> decide
    · obtain ⟨k, rfl⟩ : ∃ k, m = k + 12 := ⟨m - 12, by omega⟩
      obtain ⟨h1, h2⟩ := ih k (by omega) (by omega)
      have e1 := fib_add_twelve_mod8 (k + 1)
      have e2 := fib_add_twelve_mod8 (k - 1)
      have : lucN (k + 12) % 8 = lucN k % 8 := by
        unfold lucN
        rw [show k + 12 + 1 = k + 1 + 12 by ring, show k + 12 - 1 = k - 1 + 12 by omega]
        omega
      constructor
      · rw [this]; exact h1
      · intro he; have := h2 (by omega); omega

instance : Fact (Nat.Prime 2) := ⟨Nat.prime_two⟩

theorem v2_le_of_not_dvd (x k : ℕ) (hx : x ≠ 0) (h : ¬ 2 ^ (k + 1) ∣ x) : padicValNat 2 x ≤ k := by
  by_contra hc
  exact h ((padicValNat_dvd_iff_le hx).2 (by omega))

theorem fib_ne_zero (m : ℕ) (hm : 1 ≤ m) : Nat.fib m ≠ 0 := by
  have := Nat.fib_pos.2 (by omega : 0 < m); omega

theorem lucN_ne_zero (m : ℕ) : lucN m ≠ 0 := by
  unfold lucN; have := Nat.fib_pos.2 (by omega : 0 < m + 1); omega

/-- v₂(F(2^k u)) ≤ 1 for k = 0 and ≤ k + 2 for k ≥ 1 (u odd) -/
theorem v2_fib_le (u : ℕ) (hu : u % 2 = 1) : ∀ k, padicValNat 2 (Nat.fib (2 ^ k * u)) ≤ if k = 0 then 1 else k + 2 := by
  intro k
  induction k with
  | zero =>
    simp only [pow_zero, one_mul, if_true]
    apply v2_le_of_not_dvd _ _ (fib_ne_zero u (by omega))
    intro h
    exact fib_odd_mod4 u hu (Nat.mod_eq_zero_of_dvd (by simpa using h))
  | succ k ih =>
    have hpos : 1 ≤ 2 ^ k * u := Nat.mul_pos (Nat.two_pow_pos k) (by omega)
    rw [show 2 ^ (k + 1) * u = 2 * (2 ^ k * u) by rw [pow_succ]; ring, fib_two_mul_luc _ hpos,
      padicValNat.mul (fib_ne_zero _ hpos) (lucN_ne_zero _)]
    simp only [Nat.add_one_ne_zero, if_false]
    rcases Nat.eq_zero_or_pos k with rfl | hk
    · simp only [pow_zero, one_mul, if_true] at ih ⊢
      obtain ⟨l8, _⟩ := lucN_mod8 u (by omega)
      have : padicValNat 2 (lucN u) ≤ 2 :=
        v2_le_of_not_dvd _ _ (lucN_ne_zero u) (fun h => l8 (Nat.mod_eq_zero_of_dvd (by simpa using h)))
      omega
    · have hk0 : k ≠ 0 := by omega
      simp only [hk0, if_false] at ih
      obtain ⟨_, l4⟩ := lucN_mod8 (2 ^ k * u) hpos
      have heven : 2 ^ k * u % 2 = 0 := by
        obtain ⟨k', rfl⟩ : ∃ k', k = k' + 1 := ⟨k - 1, by omega⟩
        have : 2 ^ (k' + 1) * u = 2 * (2 ^ k' * u) := by rw [pow_succ]; ring
        omega
      have : padicValNat 2 (lucN (2 ^ k * u)) ≤ 1 :=
        v2_le_of_not_dvd _ _ (lucN_ne_zero _) (fun h => l4 heven (Nat.mod_eq_zero_of_dvd (by simpa using h)))
      omega

/-- mpz/fib_ui.c:36-43 "No proof for this claim": for n ≡ 1 (mod 4), 1 < n < 2^64, the low limb of F(n) is not 1 -/
theorem fib_low_limb_ne_one (n : ℕ) (hn : n < B) (h4 : n % 4 = 1) (h1 : 1 < n) : Nat.fib n % B ≠ 1 := by
  intro hmod
  obtain ⟨j, rfl⟩ : ∃ j, n = 4 * j + 1 := ⟨n / 4, by omega⟩
  have hj : 1 ≤ j := by omega
  have hid := fib_four_mul_add_one j
  have hdvd : B ∣ Nat.fib (2 * j) * lucN (2 * j + 1) := by
    have := Nat.div_add_mod (Nat.fib (4 * j + 1)) B
    rw [hmod, hid] at this
    exact ⟨(Nat.fib (2 * j) * lucN (2 * j + 1) + 1) / B, by omega⟩
  have hF0 := fib_ne_zero (2 * j) (by omega)
  have hL0 := lucN_ne_zero (2 * j + 1)
  have hv : 64 ≤ padicValNat 2 (Nat.fib (2 * j)) + padicValNat 2 (lucN (2 * j + 1)) := by
    rw [← padicValNat.mul hF0 hL0]
    exact (padicValNat_dvd_iff_le (Nat.mul_ne_zero hF0 hL0)).1 (by rw [B] at hdvd; exact hdvd)
  have hLpar := lucN_mod2 (2 * j + 1) (by omega)
  by_cases h3 : (2 * j + 1) % 3 = 0
  · -- F(2j) odd, v2(L) ≤ 2
    have hFodd : ¬ 2 ∣ Nat.fib (2 * j) := by
      intro hd
      have := (fib_even_iff (2 * j)).1 (Nat.mod_eq_zero_of_dvd hd); omega
    have e0 : padicValNat 2 (Nat.fib (2 * j)) = 0 := padicValNat.eq_zero_of_not_dvd hFodd
    obtain ⟨l8, _⟩ := lucN_mod8 (2 * j + 1) (by omega)
    have : padicValNat 2 (lucN (2 * j + 1)) ≤ 2 :=
      v2_le_of_not_dvd _ _ hL0 (fun h => l8 (Nat.mod_eq_zero_of_dvd (by simpa using h)))
    omega
  · -- L(2j+1) odd
    have hLodd : ¬ 2 ∣ lucN (2 * j + 1) := by
      intro hd
      have h0 : lucN (2 * j + 1) % 2 = 0 := Nat.mod_eq_zero_of_dvd hd
      rw [hLpar] at h0
      exact h3 ((fib_even_iff _).1 h0)
    have e0 : padicValNat 2 (lucN (2 * j + 1)) = 0 := padicValNat.eq_zero_of_not_dvd hLodd
    have hv64 : 64 ≤ padicValNat 2 (Nat.fib (2 * j)) := by omega
    -- 3 ∣ j
    have h3j : j % 3 = 0 := by
      have : 2 ∣ Nat.fib (2 * j) := by
        have := (padicValNat_dvd_iff_le (p := 2) (n := 1) hF0).2 (by omega)
        simpa using this
      have := (fib_even_iff (2 * j)).1 (Nat.mod_eq_zero_of_dvd this); omega
    obtain ⟨k, u, hu, hku⟩ := Nat.exists_eq_two_pow_mul_odd (n := 2 * j) (by omega)
    have hu' : u % 2 = 1 := Nat.odd_iff.mp hu
    have hb := v2_fib_le u hu' k
    rw [← hku] at hb
    have hk62 : 62 ≤ k := by
      by_cases hk0 : k = 0
      · simp only [hk0, if_true] at hb; omega
      · simp only [hk0, if_false] at hb; omega
    -- 2^61 ∣ j and 3 ∣ j, so j ≥ 3 * 2^61
    have h2j : 2 ^ 62 ∣ 2 * j := by
      rw [hku]; exact Dvd.dvd.mul_right (Nat.pow_dvd_pow 2 hk62) u
    have hdj : 2 ^ 61 ∣ j := by
      obtain ⟨c, hc⟩ := h2j
      have e : (2 : ℕ) ^ 62 = 2 * 2 ^ 61 := by norm_num
      rw [e, mul_assoc] at hc
      exact ⟨c, Nat.eq_of_mul_eq_mul_left (by norm_num) hc⟩
    have h3d : 3 ∣ j := Nat.dvd_of_mod_eq_zero h3j
    have hcop : Nat.Coprime 3 (2 ^ 61) := Nat.Coprime.pow_right 61 (by norm_num)
    have hdiv : 3 * 2 ^ 61 ∣ j := Nat.Coprime.mul_dvd_of_dvd_of_dvd hcop h3d hdj
    have hle := Nat.le_of_dvd hj hdiv
    rw [B_eq] at hn
    norm_num at hle
    clear h2j hdj hdiv hcop hb hku hdvd
    omega

end Mpir.Numth
