/- Helper lemmas for the number-theoretic models (Mpir/Model/Numth.lean), property C16. -/
import MpirProofs.Lemmas.Base
import Mpir.Model.Numth
import Mathlib.Data.Nat.Fib.Basic
import Mathlib.Data.Nat.Factorial.Basic
import Mathlib.Data.Nat.Factorial.DoubleFactorial
import Mathlib.Data.Nat.Choose.Basic
import Mathlib.Data.Nat.Prime.Basic
import Mathlib.Data.Nat.Bitwise
import Mathlib.Tactic.Ring
import Mathlib.Tactic.Linarith
import Mathlib.Tactic.LinearCombination
import Mathlib.Tactic.IntervalCases
import Mathlib.Tactic.NormNum
namespace Mpir.Numth
open Mpir Mpir.Gen.NumthTabs

/-! ## The executable specs are the Mathlib functions -/

theorem factorial_eq (n : ℕ) : factorial n = n.factorial := by
  induction n with
  | zero => rfl
  | succ n ih => simp [factorial, ih, Nat.factorial_succ]

open Nat in
theorem doubleFactorial_eq : ∀ n : ℕ, doubleFactorial n = n‼
  | 0 => rfl
  | 1 => rfl
  | n + 2 => by simp [doubleFactorial, doubleFactorial_eq n]

theorem fibLoop_eq (n m : ℕ) : fibLoop n (Nat.fib m) (Nat.fib (m + 1)) = Nat.fib (n + m) := by
  induction n generalizing m with
  | zero => simp [fibLoop]
  | succ n ih =>
    have h : Nat.fib m + Nat.fib (m + 1) = Nat.fib (m + 1 + 1) := by rw [Nat.fib_add_two]
    rw [fibLoop, h, ih (m + 1)]; congr 1; omega

theorem fibSpec_eq (n : ℕ) : fibSpec n = Nat.fib n := by
  have := fibLoop_eq n 0; simpa [fibSpec] using this

theorem fibLoop_add (n a b a' b' : ℕ) : fibLoop n (a + a') (b + b') = fibLoop n a b + fibLoop n a' b' := by
  induction n generalizing a b a' b' with
  | zero => simp [fibLoop]
  | succ n ih => simp only [fibLoop]; rw [← ih]; congr 1; omega

/-- L(n) + F(n) = 2 F(n+1) characterises the Lucas numbers -/
theorem lucSpec_add_fib (n : ℕ) : lucSpec n + Nat.fib n = 2 * Nat.fib (n + 1) := by
  have h1 : fibLoop n 2 2 = lucSpec n + fibSpec n := by
    have := fibLoop_add n 2 1 0 1; simpa [lucSpec, fibSpec] using this
  have h2 : fibLoop n 2 2 = 2 * fibLoop n 1 1 := by
    have := fibLoop_add n 1 1 1 1; norm_num at this; omega
  have h3 : fibLoop n 1 1 = Nat.fib (n + 1) := by
    have := fibLoop_eq n 1; simpa using this
  rw [← fibSpec_eq]; omega

/-! ## trial-division primality is `Nat.Prime` -/

theorem noDivisorFrom_iff (n : ℕ) : ∀ fuel d, 1 ≤ d →
    (noDivisorFrom n fuel d = true ↔ ∀ m, d ≤ m → m < d + fuel → m * m ≤ n → ¬ m ∣ n) := by
  intro fuel
  induction fuel with
  | zero => intro d _; simp [noDivisorFrom]; intro m h1 h2; omega
  | succ fuel ih =>
    intro d hd
    rw [noDivisorFrom]
    by_cases h1 : d * d > n
    · simp only [h1, if_true, true_iff]
      intro m hm _ hmm
      have : d * d ≤ m * m := Nat.mul_le_mul hm hm
      omega
    · simp only [h1, if_false]
      by_cases h2 : n % d = 0
      · simp only [beq_iff_eq, h2, if_true]
        constructor
        · intro h; cases h
        · intro h; exact absurd (Nat.dvd_of_mod_eq_zero h2) (h d le_rfl (by omega) (by omega))
      · simp only [beq_iff_eq, h2, if_false]
        rw [ih (d + 1) (by omega)]
        constructor
        · intro h m hm hlt hmm
          rcases Nat.eq_or_lt_of_le hm with rfl | hgt
          · intro hdv; exact h2 (Nat.mod_eq_zero_of_dvd hdv)
          · exact h m hgt (by omega) hmm
        · intro h m hm hlt hmm; exact h m (by omega) (by omega) hmm

theorem isPrimeTD_iff (n : ℕ) : isPrimeTD n = true ↔ n.Prime := by
  unfold isPrimeTD
  rw [Bool.and_eq_true, decide_eq_true_eq, noDivisorFrom_iff n n 2 (by omega), Nat.prime_def_le_sqrt]
  constructor
  · rintro ⟨h2, h⟩
    refine ⟨h2, fun m hm hs => h m hm ?_ (Nat.le_sqrt.mp hs)⟩
    have := Nat.le_sqrt.mp hs
    nlinarith
  · rintro ⟨h2, h⟩
    exact ⟨h2, fun m hm _ hmm => h m hm (Nat.le_sqrt.mpr hmm)⟩

/-! ## odd part -/

/-- odd part of a natural number, computed by halving (0 for 0) -/
def oddPartAux : ℕ → ℕ → ℕ
  | 0, m => m
  | fuel + 1, m => if m % 2 = 0 ∧ m ≠ 0 then oddPartAux fuel (m / 2) else m
def oddPart (m : ℕ) : ℕ := oddPartAux m m

theorem oddPartAux_spec : ∀ fuel m, m ≠ 0 → m < 2 ^ fuel →
    oddPartAux fuel m % 2 = 1 ∧ ∃ t, m = 2 ^ t * oddPartAux fuel m := by
  intro fuel
  induction fuel with
  | zero => intro m h0 h; simp at h; omega
  | succ fuel ih =>
    intro m h0 hlt
    rw [oddPartAux]
    by_cases h : m % 2 = 0 ∧ m ≠ 0
    · rw [if_pos h]
      have hm2 : m / 2 ≠ 0 := by omega
      have hlt2 : m / 2 < 2 ^ fuel := by rw [pow_succ] at hlt; omega
      obtain ⟨ho, t, ht⟩ := ih (m / 2) hm2 hlt2
      refine ⟨ho, t + 1, ?_⟩
      generalize oddPartAux fuel (m / 2) = X at *
      have hm : m = 2 * (m / 2) := by omega
      rw [hm, ht, pow_succ]; ring
    · rw [if_neg h]
      exact ⟨by omega, 0, by simp⟩

/-- `oddPart m` is odd and `m = 2^t * oddPart m` for some t: this determines it -/
theorem oddPart_spec (m : ℕ) (h : m ≠ 0) : oddPart m % 2 = 1 ∧ ∃ t, m = 2 ^ t * oddPart m :=
  oddPartAux_spec m m h (Nat.lt_two_pow_self)

theorem odd_part_unique {a b s t : ℕ} (ha : a % 2 = 1) (hb : b % 2 = 1) (h : 2 ^ s * a = 2 ^ t * b) : s = t ∧ a = b := by
  induction s generalizing t with
  | zero =>
    cases t with
    | zero => simpa using h
    | succ t =>
      exfalso; simp only [pow_zero, one_mul, pow_succ] at h
      have : a = 2 * (2 ^ t * b) := by rw [h]; ring
      omega
  | succ s ih =>
    cases t with
    | zero =>
      exfalso; simp only [pow_zero, one_mul, pow_succ] at h
      have : b = 2 * (2 ^ s * a) := by rw [← h]; ring
      omega
    | succ t =>
      have : 2 ^ s * a = 2 ^ t * b := by
        simp only [pow_succ] at h; nlinarith
      obtain ⟨h1, h2⟩ := ih this
      exact ⟨by omega, h2⟩

end Mpir.Numth
