/- Helper lemmas for the number-theoretic models (Mpir/Model/Numth.lean), property C16. -/
import MpirProofs.Lemmas.Base
import Mpir.Model.Numth
namespace Mpir.Numth

end Mpir.Numth
