/- Helper lemmas for the number-theoretic models (Mpir/Model/Numth.lean), property C16. -/
import MpirProofs.Lemmas.Base
import Mpir.Model.Numth
import Mathlib.Data.Nat.Fib.Basic
import Mathlib.Data.Nat.Factorial.Basic
import Mathlib.Data.Nat.Factorial.DoubleFactorial
import Mathlib.Data.Nat.Choose.Basic
import Mathlib.Data.Nat.Prime.Basic
import Mathlib.Data.Nat.Bitwise
import Mathlib.FieldTheory.Finite.Basic
import Mathlib.Tactic.Ring
import Mathlib.Tactic.Linarith
import Mathlib.Tactic.LinearCombination
import Mathlib.Tactic.IntervalCases
import Mathlib.Tactic.NormNum
namespace Mpir.Numth
open Mpir Mpir.Gen.NumthTabs

/-! ## The executable specs are the Mathlib functions -/

theorem factorial_eq (n : ℕ) : factorial n = n.factorial := by
  induction n with
  | zero => rfl
  | succ n ih => simp [factorial, ih, Nat.factorial_succ]

open Nat in
theorem doubleFactorial_eq : ∀ n : ℕ, doubleFactorial n = n‼
  | 0 => rfl
  | 1 => rfl
  | n + 2 => by simp [doubleFactorial, doubleFactorial_eq n]

theorem fibLoop_eq (n m : ℕ) : fibLoop n (Nat.fib m) (Nat.fib (m + 1)) = Nat.fib (n + m) := by
  induction n generalizing m with
  | zero => simp [fibLoop]
  | succ n ih =>
    have h : Nat.fib m + Nat.fib (m + 1) = Nat.fib (m + 1 + 1) := by rw [Nat.fib_add_two]
    rw [fibLoop, h, ih (m + 1)]; congr 1; omega

theorem fibSpec_eq (n : ℕ) : fibSpec n = Nat.fib n := by
  have := fibLoop_eq n 0; simpa [fibSpec] using this

theorem fibLoop_add (n a b a' b' : ℕ) : fibLoop n (a + a') (b + b') = fibLoop n a b + fibLoop n a' b' := by
  induction n generalizing a b a' b' with
  | zero => simp [fibLoop]
  | succ n ih => simp only [fibLoop]; rw [← ih]; congr 1; omega

/-- L(n) + F(n) = 2 F(n+1) characterises the Lucas numbers -/
theorem lucSpec_add_fib (n : ℕ) : lucSpec n + Nat.fib n = 2 * Nat.fib (n + 1) := by
  have h1 : fibLoop n 2 2 = lucSpec n + fibSpec n := by
    have := fibLoop_add n 2 1 0 1; simpa [lucSpec, fibSpec] using this
  have h2 : fibLoop n 2 2 = 2 * fibLoop n 1 1 := by
    have := fibLoop_add n 1 1 1 1; norm_num at this; omega
  have h3 : fibLoop n 1 1 = Nat.fib (n + 1) := by
    have := fibLoop_eq n 1; simpa using this
  rw [← fibSpec_eq]; omega

/-! ## trial-division primality is `Nat.Prime` -/

theorem noDivisorFrom_iff (n : ℕ) : ∀ fuel d, 1 ≤ d →
    (noDivisorFrom n fuel d = true ↔ ∀ m, d ≤ m → m < d + fuel → m * m ≤ n → ¬ m ∣ n) := by
  intro fuel
  induction fuel with
  | zero => intro d _; simp [noDivisorFrom]; intro m h1 h2; omega
  | succ fuel ih =>
    intro d hd
    rw [noDivisorFrom]
    by_cases h1 : d * d > n
    · simp only [h1, if_true, true_iff]
      intro m hm _ hmm
      have : d * d ≤ m * m := Nat.mul_le_mul hm hm
      omega
    · simp only [h1, if_false]
      by_cases h2 : n % d = 0
      · simp only [beq_iff_eq, h2, if_true]
        constructor
        · intro h; cases h
        · intro h; exact absurd (Nat.dvd_of_mod_eq_zero h2) (h d le_rfl (by omega) (by omega))
      · simp only [beq_iff_eq, h2, if_false]
        rw [ih (d + 1) (by omega)]
        constructor
        · intro h m hm hlt hmm
          rcases Nat.eq_or_lt_of_le hm with rfl | hgt
          · intro hdv; exact h2 (Nat.mod_eq_zero_of_dvd hdv)
          · exact h m hgt (by omega) hmm
        · intro h m hm hlt hmm; exact h m (by omega) (by omega) hmm

theorem isPrimeTD_iff (n : ℕ) : isPrimeTD n = true ↔ n.Prime := by
  unfold isPrimeTD
  rw [Bool.and_eq_true, decide_eq_true_eq, noDivisorFrom_iff n n 2 (by omega), Nat.prime_def_le_sqrt]
  constructor
  · rintro ⟨h2, h⟩
    refine ⟨h2, fun m hm hs => h m hm ?_ (Nat.le_sqrt.mp hs)⟩
    have := Nat.le_sqrt.mp hs
    nlinarith
  · rintro ⟨h2, h⟩
    exact ⟨h2, fun m hm _ hmm => h m hm (Nat.le_sqrt.mpr hmm)⟩

/-! ## odd part -/

/-- odd part of a natural number, computed by halving (0 for 0) -/
def oddPartAux : ℕ → ℕ → ℕ
  | 0, m => m
  | fuel + 1, m => if m % 2 = 0 ∧ m ≠ 0 then oddPartAux fuel (m / 2) else m
def oddPart (m : ℕ) : ℕ := oddPartAux m m

theorem oddPartAux_spec : ∀ fuel m, m ≠ 0 → m < 2 ^ fuel →
    oddPartAux fuel m % 2 = 1 ∧ ∃ t, m = 2 ^ t * oddPartAux fuel m := by
  intro fuel
  induction fuel with
  | zero => intro m h0 h; simp at h; omega
  | succ fuel ih =>
    intro m h0 hlt
    rw [oddPartAux]
    by_cases h : m % 2 = 0 ∧ m ≠ 0
    · rw [if_pos h]
      have hm2 : m / 2 ≠ 0 := by omega
      have hlt2 : m / 2 < 2 ^ fuel := by rw [pow_succ] at hlt; omega
      obtain ⟨ho, t, ht⟩ := ih (m / 2) hm2 hlt2
      refine ⟨ho, t + 1, ?_⟩
      generalize oddPartAux fuel (m / 2) = X at *
      have hm : m = 2 * (m / 2) := by omega
      rw [hm, ht, pow_succ]; ring
    · rw [if_neg h]
      exact ⟨by omega, 0, by simp⟩

/-- `oddPart m` is odd and `m = 2^t * oddPart m` for some t: this determines it -/
theorem oddPart_spec (m : ℕ) (h : m ≠ 0) : oddPart m % 2 = 1 ∧ ∃ t, m = 2 ^ t * oddPart m :=
  oddPartAux_spec m m h (Nat.lt_two_pow_self)

theorem odd_part_unique {a b s t : ℕ} (ha : a % 2 = 1) (hb : b % 2 = 1) (h : 2 ^ s * a = 2 ^ t * b) : s = t ∧ a = b := by
  induction s generalizing t with
  | zero =>
    cases t with
    | zero => simpa using h
    | succ t =>
      exfalso; simp only [pow_zero, one_mul, pow_succ] at h
      have : a = 2 * (2 ^ t * b) := by rw [h]; ring
      omega
  | succ s ih =>
    cases t with
    | zero =>
      exfalso; simp only [pow_zero, one_mul, pow_succ] at h
      have : b = 2 * (2 ^ s * a) := by rw [← h]; ring
      omega
    | succ t =>
      have : 2 ^ s * a = 2 ^ t * b := by
        simp only [pow_succ] at h; nlinarith
      obtain ⟨h1, h2⟩ := ih this
      exact ⟨by omega, h2⟩

/-! ## Fibonacci identities -/

theorem and_two_pow_ne_zero (n j : ℕ) : n &&& 2 ^ j ≠ 0 ↔ n / 2 ^ j % 2 = 1 := by
  rw [Nat.and_two_pow, Nat.testBit_eq_decide_div_mod_eq]
  by_cases h : n / 2 ^ j % 2 = 1
  · simp [h]
  · simp [h]

/-- Cassini in the form c² - c a - a² = (-1)^k for a = F(k), c = F(k+1) -/
theorem cassini_int (k : ℕ) :
    ((Nat.fib (k + 1) : ℤ)) ^ 2 - Nat.fib (k + 1) * Nat.fib k - (Nat.fib k : ℤ) ^ 2 = (-1) ^ k := by
  induction k with
  | zero => simp
  | succ k ih =>
    rw [Nat.fib_add_two, pow_succ]
    push_cast
    linear_combination (-1 : ℤ) * ih

theorem cassini_nat (k : ℕ) (a c : ℕ) (ha : a = Nat.fib k) (hc : c = Nat.fib (k + 1)) :
    (k % 2 = 0 → c * c = a * c + a * a + 1) ∧ (k % 2 = 1 → c * c + 1 = a * c + a * a) := by
  have h := cassini_int k
  rw [← ha, ← hc] at h
  constructor
  · intro hk
    have : (-1 : ℤ) ^ k = 1 := Even.neg_one_pow (Nat.even_iff.mpr hk)
    rw [this] at h
    have : (c : ℤ) * c = a * c + a * a + 1 := by linear_combination h
    exact_mod_cast this
  · intro hk
    have : (-1 : ℤ) ^ k = -1 := Odd.neg_one_pow (Nat.odd_iff.mpr hk)
    rw [this] at h
    have : (c : ℤ) * c + 1 = a * c + a * a := by linear_combination h
    exact_mod_cast this

/-- the doubling identities behind mpn_fib2_ui, for a = F(k), b = "F(k-1)" (b + a = F(k+1)) -/
theorem fib_doubling (k a b : ℕ) (ha : a = Nat.fib k) (hb : b + a = Nat.fib (k + 1)) :
    (k % 2 = 0 → 4 * (a * a) + 2 = Nat.fib (2 * k + 1) + b * b) ∧
    (k % 2 = 1 → 4 * (a * a) = Nat.fib (2 * k + 1) + b * b + 2) ∧
    a * a + b * b + Nat.fib (2 * k) = Nat.fib (2 * k + 1) := by
  have h1 := Nat.fib_two_mul_add_one k
  have h2 := Nat.fib_two_mul k
  obtain ⟨c1, c2⟩ := cassini_nat k a (b + a) ha hb
  rw [← ha, ← hb] at h1 h2
  have e : 2 * (b + a) - a = 2 * b + a := by omega
  rw [e] at h2
  refine ⟨fun hk => ?_, fun hk => ?_, ?_⟩
  · have := c1 hk; nlinarith
  · have := c2 hk; nlinarith
  · nlinarith
theorem fib_add_twelve_mod8 (n : ℕ) : Nat.fib (n + 12) % 8 = Nat.fib n % 8 := by
  have h := Nat.fib_add n 11
  have e11 : Nat.fib 11 = 89 := by decide
  have e12 : Nat.fib 12 = 144 := by decide
  rw [show n + 11 + 1 = n + 12 by omega, e11, show 11 + 1 = 12 by rfl, e12] at h
  omega

/-- F(4m+3) is 1, 2 or 5 modulo 8 (fib2_ui.c:52-58) -/
theorem fib_four_mul_add_three_mod8 (m : ℕ) :
    Nat.fib (4 * m + 3) % 8 = 1 ∨ Nat.fib (4 * m + 3) % 8 = 2 ∨ Nat.fib (4 * m + 3) % 8 = 5 := by
  induction m using Nat.strong_induction_on with
  | _ m ih =>
    match m with
    | 0 => decide
    | 1 => decide
    | 2 => decide
    | m + 3 =>
      have := ih m (by omega)
      rw [show 4 * (m + 3) + 3 = 4 * m + 3 + 12 by ring, fib_add_twelve_mod8]
      exact this

theorem lowLimbSub_zero (v : ℕ) : lowLimbSub v 0 = v := by
  unfold lowLimbSub; simp only [B_eq]; omega

theorem lowLimbSub_two (v : ℕ) (h : 3 ≤ v % 8) : lowLimbSub v 2 = v - 2 := by
  unfold lowLimbSub; simp only [B_eq]; omega

theorem four_mul_or_two (x : ℕ) : 4 * x ||| 2 = 4 * x + 2 := by
  have := Nat.shiftLeft_add_eq_or_of_lt (i := 2) (b := 2) (by decide) x
  rw [Nat.shiftLeft_eq] at this
  rw [mul_comm]; exact this.symm

/-- invariant of the doubling loop: p = (F(k), "F(k-1)") with F(-1) = 1 -/
def FibPair (k : ℕ) (p : ℕ × ℕ) : Prop := p.1 = Nat.fib k ∧ p.2 + Nat.fib k = Nat.fib (k + 1)

theorem fib2Step_spec (n j : ℕ) (p : ℕ × ℕ) (h : FibPair (n / 2 ^ (j + 1)) p) :
    FibPair (n / 2 ^ j) (fib2Step n (2 ^ (j + 1)) p.1 p.2) := by
  obtain ⟨f, f1⟩ := p
  obtain ⟨hf, hf1⟩ := h
  simp only at hf hf1
  generalize hk : n / 2 ^ (j + 1) = k at hf hf1
  have hk' : n / 2 ^ j = 2 * k + n / 2 ^ j % 2 := by
    rw [← hk, pow_succ, ← Nat.div_div_eq_div_mul]; omega
  obtain ⟨d1, d2, d3⟩ := fib_doubling k f f1 hf (by rw [hf]; exact hf1)
  have hshift : 2 ^ (j + 1) >>> 1 = 2 ^ j := by rw [Nat.shiftRight_eq_div_pow, pow_succ]; simp
  have hadd : Nat.fib (2 * k) + Nat.fib (2 * k + 1) = Nat.fib (2 * k + 1 + 1) := by rw [Nat.fib_add_two]
  simp only [fib2Step, hshift, and_two_pow_ne_zero, hk]
  -- the value F(2k+1) after the ±2 corrections
  have hFP : lowLimbSub ((4 * (f * f) ||| if k % 2 = 1 then 0 else 2) - f1 * f1) (if k % 2 = 1 then 2 else 0)
      = Nat.fib (2 * k + 1) := by
    by_cases hko : k % 2 = 1
    · simp only [hko, if_true, Nat.or_zero]
      have := d2 hko
      have hm := fib_four_mul_add_three_mod8 (k / 2)
      rw [show 4 * (k / 2) + 3 = 2 * k + 1 by omega] at hm
      rw [lowLimbSub_two] <;> omega
    · have hke : k % 2 = 0 := by omega
      simp only [hko, if_false, four_mul_or_two, lowLimbSub_zero]
      have := d1 hke
      omega
  rw [hFP]
  by_cases hb : n / 2 ^ j % 2 = 1
  · simp only [hb, if_true]
    rw [hk', hb]
    exact ⟨rfl, by simp only; omega⟩
  · have hb0 : n / 2 ^ j % 2 = 0 := by omega
    simp only [hb, if_false]
    rw [hk', hb0, Nat.add_zero]
    exact ⟨by simp only; omega, by simp only; omega⟩

theorem fib2Loop_spec (n : ℕ) : ∀ j p, FibPair (n / 2 ^ j) p → FibPair n (fib2Loop n j p) := by
  intro j
  induction j with
  | zero => intro p h; simpa [fib2Loop] using h
  | succ j ih => intro p h; rw [fib2Loop]; exact ih _ (fib2Step_spec n j p h)

theorem fib2Start_spec (n : ℕ) :
    (fib2Start n).1 = n / 2 ^ (fib2Start n).2 ∧ (fib2Start n).1 ≤ FIB_TABLE_LIMIT := by
  induction n using Nat.strong_induction_on with
  | _ n ih =>
    rw [fib2Start]
    by_cases h : n > FIB_TABLE_LIMIT
    · simp only [h, dite_true]
      have hlt : n / 2 < n := by omega
      obtain ⟨h1, h2⟩ := ih (n / 2) hlt
      refine ⟨?_, h2⟩
      rw [h1, pow_succ, Nat.div_div_eq_div_mul, mul_comm]
    · simp only [h, dite_false]
      exact ⟨by simp, by omega⟩

/-- what the regenerated table gives the loop as its start: the invariant holds for every index ≤ FIB_TABLE_LIMIT -/
theorem fib_table_pair : ∀ k ≤ FIB_TABLE_LIMIT, FIB_TABLE k = Nat.fib k ∧ fibTab k + Nat.fib k = Nat.fib (k + 1) := by
  decide +kernel

theorem mpn_fib2_ui_pair (n : ℕ) : FibPair n (mpn_fib2_ui n) := by
  unfold mpn_fib2_ui
  obtain ⟨h1, h2⟩ := fib2Start_spec n
  apply fib2Loop_spec
  rw [← h1]
  exact fib_table_pair _ h2

theorem and_two_ne_zero (n : ℕ) : n &&& 2 ≠ 0 ↔ n / 2 % 2 = 1 := by
  have := and_two_pow_ne_zero n 1
  simpa using this

theorem and_one_ne_zero (n : ℕ) : n &&& 1 ≠ 0 ↔ n % 2 = 1 := by
  rw [Nat.and_one_is_mod]; omega

theorem fib_add_six_mod4 (n : ℕ) : Nat.fib (n + 6) % 4 = Nat.fib n % 4 := by
  have h := Nat.fib_add n 5
  have e5 : Nat.fib 5 = 5 := by decide
  have e6 : Nat.fib 6 = 8 := by decide
  rw [show n + 5 + 1 = n + 6 by omega, e5, show 5 + 1 = 6 by rfl, e6] at h
  omega

/-- F(n) is not divisible by 4 for odd n -/
theorem fib_odd_mod4 (n : ℕ) (hn : n % 2 = 1) : Nat.fib n % 4 ≠ 0 := by
  induction n using Nat.strong_induction_on with
  | _ n ih =>
    match n, hn with
    | 1, _ => decide
    | 3, _ => decide
    | 5, _ => decide
    | n + 6, hn =>
      rw [fib_add_six_mod4]; exact ih n (by omega) (by omega)
    | 0, hn => omega
    | 2, hn => omega
    | 4, hn => omega

theorem lowLimbAdd_two (v : ℕ) (h : 2 ≤ (v + 2) % B) : lowLimbAdd v 2 = v + 2 := by
  unfold lowLimbAdd; simp only [B_eq] at *; omega

/-- FibPair with k ≥ 1: the second component is F(k-1) ≤ F(k) -/
theorem FibPair.le {k : ℕ} {p : ℕ × ℕ} (h : FibPair k p) (hk : 1 ≤ k) : p.2 ≤ p.1 := by
  obtain ⟨h1, h2⟩ := h
  obtain ⟨k', rfl⟩ : ∃ k', k = k' + 1 := ⟨k - 1, by omega⟩
  rw [Nat.fib_add_two] at h2
  have := @Nat.fib_le_fib_succ k'
  omega

theorem mpz_fib_ui_eq (n : ℕ)
    (hclaim : n % 4 = 1 → FIB_TABLE_LIMIT < n → Nat.fib n % B ≠ 1) : mpz_fib_ui n = Nat.fib n := by
  unfold mpz_fib_ui
  by_cases hs : n ≤ FIB_TABLE_LIMIT
  · simp only [hs, if_true]; exact (fib_table_pair n hs).1
  · simp only [hs, if_false]
    have hbig : FIB_TABLE_LIMIT < n := by omega
    have hpair := mpn_fib2_ui_pair (n / 2)
    generalize mpn_fib2_ui (n / 2) = p at hpair
    obtain ⟨x, y⟩ := p
    have hk1 : 1 ≤ n / 2 := by have : FIB_TABLE_LIMIT = 93 := rfl; omega
    have hle : y ≤ x := hpair.le hk1
    obtain ⟨hx, hy⟩ := hpair
    simp only at hx hy hle ⊢
    obtain ⟨d1, d2, d3⟩ := fib_doubling (n / 2) x y hx (by rw [hx]; exact hy)
    simp only [and_one_ne_zero, and_two_ne_zero]
    by_cases hodd : n % 2 = 1
    · simp only [hodd, if_true]
      have hn2 : 2 * (n / 2) + 1 = n := by omega
      rw [hn2] at d1 d2
      obtain ⟨z, hz⟩ : ∃ z, 2 * x = z + y := ⟨2 * x - y, by omega⟩
      have e1 : 2 * x - y = z := by omega
      have e2 : 2 * x + y = z + 2 * y := by omega
      have hpr : (2 * x + y) * (2 * x - y) + y * y = 4 * (x * x) := by
        rw [e1, e2]; have : 4 * (x * x) = (2 * x) * (2 * x) := by ring
        rw [this, hz]; ring
      by_cases hko : n / 2 % 2 = 1
      · simp only [hko, if_true]
        have := d2 hko
        have hm := fib_four_mul_add_three_mod8 (n / 4)
        rw [show 4 * (n / 4) + 3 = n by omega] at hm
        rw [lowLimbSub_two] <;> omega
      · simp only [hko, if_false]
        have hke : n / 2 % 2 = 0 := by omega
        have := d1 hke
        have h4 := fib_odd_mod4 n hodd
        have h1 := hclaim (by omega) hbig
        have hP : (2 * x + y) * (2 * x - y) + 2 = Nat.fib n := by omega
        rw [lowLimbAdd_two _ (by rw [hP]; simp only [B_eq] at *; omega), hP]
    · simp only [hodd, if_false]
      have hn2 : 2 * (n / 2) = n := by omega
      have h2 := Nat.fib_two_mul (n / 2)
      rw [hn2, ← hy, ← hx] at h2
      rw [h2]
      have : 2 * (y + x) - x = 2 * y + x := by omega
      rw [this]; ring

/-- l is the Lucas number L(k): L(k) + F(k) = 2 F(k+1) -/
def LucVal (k l : ℕ) : Prop := l + Nat.fib k = 2 * Nat.fib (k + 1)

/-- L(2k+1) = 5 F(k-1) (2F(k) + F(k-1)) - 4 (-1)^k, for a = F(k), b = "F(k-1)" -/
theorem luc_odd_formula (k a b : ℕ) (ha : a = Nat.fib k) (hb : b + a = Nat.fib (k + 1)) :
    (k % 2 = 1 → LucVal (2 * k + 1) (5 * ((2 * a + b) * b) + 4)) ∧
    (k % 2 = 0 → 4 ≤ 5 * ((2 * a + b) * b) ∧ LucVal (2 * k + 1) (5 * ((2 * a + b) * b) - 4)) := by
  have h1 := Nat.fib_two_mul_add_one k
  have h2 := Nat.fib_two_mul k
  have h3 : Nat.fib (2 * k + 1 + 1) = Nat.fib (2 * k) + Nat.fib (2 * k + 1) := Nat.fib_add_two
  obtain ⟨c1, c2⟩ := cassini_nat k a (b + a) ha hb
  rw [← ha, ← hb] at h1 h2
  have e : 2 * (b + a) - a = 2 * b + a := by omega
  rw [e] at h2
  unfold LucVal
  rw [h3, h1, h2]
  constructor
  · intro hk; have := c2 hk; nlinarith
  · intro hk; have := c1 hk
    have h5 : 5 * ((2 * a + b) * b) = 4 + (4 * (a * a) + 6 * (a * b) + b * b) := by nlinarith
    constructor
    · omega
    · rw [h5, Nat.add_sub_cancel_left]; nlinarith

/-- L(2k) = L(k)^2 - 2 (-1)^k -/
theorem luc_sq_aux (k l a c : ℕ) (ha : a = Nat.fib k) (hc : c = Nat.fib (k + 1)) (hl : l + a = 2 * c) :
    (k % 2 = 1 → l * l + 2 + Nat.fib (2 * k) = 2 * Nat.fib (2 * k + 1)) ∧
    (k % 2 = 0 → 2 ≤ l * l ∧ l * l - 2 + Nat.fib (2 * k) = 2 * Nat.fib (2 * k + 1)) := by
  have h1 := Nat.fib_two_mul_add_one k
  have h2 := Nat.fib_two_mul k
  obtain ⟨c1, c2⟩ := cassini_nat k a c ha hc
  rw [← ha, ← hc] at h1 h2
  have e : a * (2 * c - a) + a * a = 2 * (a * c) := by
    have : 2 * c - a + a = 2 * c := by omega
    calc a * (2 * c - a) + a * a = a * (2 * c - a + a) := by ring
      _ = 2 * (a * c) := by rw [this]; ring
  have el : l * l + 4 * (a * c) = 4 * (c * c) + a * a := by
    have h4 : (l + a) * (l + a) = 4 * (c * c) := by rw [hl]; ring
    have h5 : l * a + a * a = 2 * (a * c) := by
      calc l * a + a * a = (l + a) * a := by ring
        _ = 2 * (a * c) := by rw [hl]; ring
    nlinarith
  rw [h1, h2]
  constructor
  · intro hk; have := c2 hk; nlinarith
  · intro hk; have := c1 hk
    have h6 : l * l = 2 + (2 * (c * c) + 3 * (a * a) - 2 * (a * c)) := by
      have : 2 * (a * c) ≤ 2 * (c * c) + 3 * (a * a) := by nlinarith
      omega
    constructor
    · omega
    · rw [h6, Nat.add_sub_cancel_left]
      have : 2 * (a * c) ≤ 2 * (c * c) + 3 * (a * a) := by nlinarith
      nlinarith

theorem luc_sq_formula (k l : ℕ) (h : LucVal k l) :
    (k % 2 = 1 → LucVal (2 * k) (l * l + 2)) ∧ (k % 2 = 0 → 2 ≤ l * l ∧ LucVal (2 * k) (l * l - 2)) :=
  luc_sq_aux k l _ _ rfl rfl h

/-- L(4m+3) is 4, 5 or 7 modulo 8 (lucnum_ui.c:30-32), in the additive form used for `LucVal` -/
theorem luc_four_mul_add_three_mod8 (m : ℕ) : ∃ r, (r = 4 ∨ r = 5 ∨ r = 7) ∧
    (r + Nat.fib (4 * m + 3)) % 8 = (2 * Nat.fib (4 * m + 3 + 1)) % 8 := by
  induction m using Nat.strong_induction_on with
  | _ m ih =>
    match m with
    | 0 => exact ⟨4, by decide⟩
    | 1 => exact ⟨5, by decide⟩
    | 2 => exact ⟨7, by decide⟩
    | m + 3 =>
      obtain ⟨r, hr, h⟩ := ih m (by omega)
      refine ⟨r, hr, ?_⟩
      have e1 := fib_add_twelve_mod8 (4 * m + 3)
      have e2 := fib_add_twelve_mod8 (4 * m + 3 + 1)
      rw [show 4 * (m + 3) + 3 = 4 * m + 3 + 12 by ring, show 4 * m + 3 + 12 + 1 = 4 * m + 3 + 1 + 12 by ring]
      omega

theorem lowLimbAdd_four (v : ℕ) (h : 4 ≤ (v + 4) % 8) : lowLimbAdd v 4 = v + 4 := by
  unfold lowLimbAdd; simp only [B_eq] at *; omega

theorem sq_mod_four (l : ℕ) : l * l % 4 = 0 ∨ l * l % 4 = 1 := by
  rw [Nat.mul_mod]
  have : l % 4 < 4 := Nat.mod_lt _ (by decide)
  interval_cases (l % 4) <;> simp

theorem lowLimbAdd_two_sq (l : ℕ) : lowLimbAdd (l * l) 2 = l * l + 2 := by
  apply lowLimbAdd_two
  have := sq_mod_four l
  simp only [B_eq]; omega

/-- what the table gives: L[n] = F[n] + 2F[n-1] fits a limb up to FIB_TABLE_LUCNUM_LIMIT, and so does 2F[n] -/
theorem luc_table_fits : ∀ n ≤ FIB_TABLE_LUCNUM_LIMIT,
    n ≤ FIB_TABLE_LIMIT ∧ FIB_TABLE n + 2 * fibTab n < B ∧ 2 * FIB_TABLE n < B := by decide +kernel

theorem lucTab_spec (n : ℕ) (h : n ≤ FIB_TABLE_LUCNUM_LIMIT) : LucVal n (lucTab n) := by
  obtain ⟨h1, h2, _⟩ := luc_table_fits n h
  obtain ⟨e1, e2⟩ := fib_table_pair n h1
  unfold LucVal lucTab
  rw [Nat.mod_eq_of_lt h2, e1]; omega

theorem lucSquare_spec : ∀ z k p l, p % 2 = k % 2 → LucVal k l → LucVal (k * 2 ^ z) (lucSquare z l p) := by
  intro z
  induction z with
  | zero => intro k p l _ h; simpa [lucSquare] using h
  | succ z ih =>
    intro k p l hp h
    obtain ⟨s1, s2⟩ := luc_sq_formula k l h
    rw [lucSquare]
    simp only [and_one_ne_zero]
    rw [show k * 2 ^ (z + 1) = (2 * k) * 2 ^ z by rw [pow_succ]; ring]
    by_cases hk : k % 2 = 1
    · have hp1 : p % 2 = 1 := by omega
      simp only [hp1, if_true, lowLimbAdd_two_sq]
      exact ih (2 * k) 0 _ (by omega) (s1 hk)
    · have hp0 : ¬ p % 2 = 1 := by omega
      simp only [hp0, if_false]
      exact ih (2 * k) p _ (by omega) (s2 (by omega)).2

theorem lucStrip_spec (n : ℕ) (hn : FIB_TABLE_LUCNUM_LIMIT < n) :
    n = (lucStrip n).2.2 * 2 ^ (lucStrip n).2.1 ∧ LucVal (lucStrip n).2.2 (lucStrip n).1 := by
  induction n using Nat.strong_induction_on with
  | _ n ih =>
    rw [lucStrip]
    simp only [and_one_ne_zero, and_two_ne_zero]
    by_cases hodd : n % 2 = 1
    · simp only [hodd, if_true]
      refine ⟨by simp, ?_⟩
      have hpair := mpn_fib2_ui_pair (n / 2)
      generalize mpn_fib2_ui (n / 2) = p at hpair
      obtain ⟨x, y⟩ := p
      obtain ⟨hx, hy⟩ := hpair
      simp only at hx hy ⊢
      obtain ⟨o1, o2⟩ := luc_odd_formula (n / 2) x y hx (by rw [hx]; exact hy)
      rw [show 2 * (n / 2) + 1 = n by omega] at o1 o2
      by_cases hko : n / 2 % 2 = 1
      · simp only [hko, if_true]
        have hv := o1 hko
        obtain ⟨r, hr, hm⟩ := luc_four_mul_add_three_mod8 (n / 4)
        rw [show 4 * (n / 4) + 3 = n by omega] at hm
        have : 4 ≤ (5 * ((2 * x + y) * y) + 4) % 8 := by
          unfold LucVal at hv; omega
        rw [lowLimbAdd_four _ this]; exact hv
      · simp only [hko, if_false]
        exact (o2 (by omega)).2
    · simp only [hodd, if_false]
      by_cases hs : n / 2 ≤ FIB_TABLE_LUCNUM_LIMIT
      · simp only [hs, dite_true]
        exact ⟨by omega, lucTab_spec _ hs⟩
      · simp only [hs, dite_false]
        obtain ⟨h1, h2⟩ := ih (n / 2) (by omega) (by omega)
        refine ⟨?_, h2⟩
        rw [pow_succ, ← mul_assoc, ← h1]; omega

theorem mpz_lucnum_ui_val (n : ℕ) : LucVal n (mpz_lucnum_ui n) := by
  unfold mpz_lucnum_ui
  by_cases hs : n ≤ FIB_TABLE_LUCNUM_LIMIT
  · simp only [hs, if_true]; exact lucTab_spec n hs
  · simp only [hs, if_false]
    obtain ⟨h1, h2⟩ := lucStrip_spec n (by omega)
    have := lucSquare_spec (lucStrip n).2.1 (lucStrip n).2.2 (lucStrip n).2.2 (lucStrip n).1 rfl h2
    rw [← h1] at this; exact this

/-- FibPair with k ≥ 1: the second component is F(k-1) -/
theorem FibPair.pred {k : ℕ} {p : ℕ × ℕ} (h : FibPair k p) (hk : 1 ≤ k) : p.2 = Nat.fib (k - 1) := by
  obtain ⟨h1, h2⟩ := h
  obtain ⟨k', rfl⟩ : ∃ k', k = k' + 1 := ⟨k - 1, by omega⟩
  rw [Nat.fib_add_two] at h2
  simp only [Nat.add_sub_cancel]; omega

/-- from (F(n), F(n-1)): L(n) = F(n) + 2F(n-1) and, for n ≥ 1, L(n-1) = 2F(n) - F(n-1) -/
theorem luc_pair_of_fib_pair {n x y : ℕ} (h : FibPair n (x, y)) :
    LucVal n (x + 2 * y) ∧ (1 ≤ n → y ≤ 2 * x ∧ LucVal (n - 1) (2 * x - y)) := by
  have hle := fun hn => h.le hn
  have hpred := fun hn => h.pred hn
  obtain ⟨h1, h2⟩ := h
  simp only at h1 h2 hle hpred
  refine ⟨by unfold LucVal; omega, fun hn => ?_⟩
  have := hle hn; have hp := hpred hn
  refine ⟨by omega, ?_⟩
  unfold LucVal
  rw [show n - 1 + 1 = n by omega, ← hp, ← h1]; omega

theorem sub_mod_limb (a b : ℕ) (ha : a < B) (hb : b ≤ a) : (a + B - b) % B = a - b := by
  simp only [B_eq] at *; omega

theorem mpz_lucnum2_ui_val (n : ℕ) :
    (∃ l : ℕ, (mpz_lucnum2_ui n).1 = (l : ℤ) ∧ LucVal n l) ∧ (n = 0 → (mpz_lucnum2_ui n).2 = -1) ∧
    (1 ≤ n → ∃ l1 : ℕ, (mpz_lucnum2_ui n).2 = (l1 : ℤ) ∧ LucVal (n - 1) l1) := by
  unfold mpz_lucnum2_ui
  by_cases hs : n ≤ FIB_TABLE_LUCNUM_LIMIT
  · simp only [hs, if_true]
    obtain ⟨h1, h2, h3⟩ := luc_table_fits n hs
    have hp : FibPair n (FIB_TABLE n, fibTab n) := fib_table_pair n h1
    obtain ⟨l1, l2⟩ := luc_pair_of_fib_pair hp
    refine ⟨⟨FIB_TABLE n + 2 * fibTab n, by rw [Nat.mod_eq_of_lt h2]; rfl, l1⟩, fun h0 => by simp [h0], fun hn => ?_⟩
    obtain ⟨hle, hv⟩ := l2 hn
    have hn0 : n ≠ 0 := by omega
    refine ⟨2 * FIB_TABLE n - fibTab n, ?_, hv⟩
    simp only [hn0, if_false]
    rw [Nat.mod_eq_of_lt h3]
    rw [sub_mod_limb _ _ h3 hle]; rfl
  · simp only [hs, if_false]
    have hp := mpn_fib2_ui_pair n
    generalize mpn_fib2_ui n = p at hp
    obtain ⟨x, y⟩ := p
    obtain ⟨l1, l2⟩ := luc_pair_of_fib_pair hp
    have hn : 1 ≤ n := by omega
    refine ⟨⟨2 * y + x, rfl, by rw [show 2 * y + x = x + 2 * y by ring]; exact l1⟩, fun h0 => by omega, fun _ => ?_⟩
    exact ⟨2 * x - y, rfl, (l2 hn).2⟩

/-! ## Miller–Rabin never rejects a prime -/

theorem powMod_eq (a n : ℕ) : ∀ e, powMod a e n = a ^ e % n := by
  intro e
  induction e using Nat.strong_induction_on with
  | _ e ih =>
    rw [powMod]
    by_cases h0 : e = 0
    · simp [h0]
    · simp only [h0, dite_false]
      have hr := ih (e / 2) (by omega)
      rw [hr]
      have hsq : a ^ (e / 2) % n * (a ^ (e / 2) % n) % n = a ^ (e / 2 + e / 2) % n := by
        rw [← Nat.mul_mod, ← pow_add]
      by_cases he : e % 2 = 0
      · simp only [he, if_true]
        rw [hsq]; congr 2; omega
      · simp only [he, if_false]
        rw [hsq, Nat.mod_mul_mod, ← pow_succ]; congr 2; omega

theorem fermat_nat (p a : ℕ) (hp : p.Prime) (ha : ¬ p ∣ a) : a ^ (p - 1) % p = 1 := by
  have hc : Nat.Coprime a p := ((Nat.Prime.coprime_iff_not_dvd hp).2 ha).symm
  have := Nat.ModEq.pow_totient hc
  rw [Nat.totient_prime hp] at this
  unfold Nat.ModEq at this
  rw [this]; exact Nat.mod_eq_of_lt hp.one_lt

/-- in a prime field only ±1 square to 1 -/
theorem sq_mod_prime_eq_one (p y : ℕ) (hp : p.Prime) (hy : y < p) (h : y * y % p = 1) : y = 1 ∨ y = p - 1 := by
  have hy0 : y ≠ 0 := by rintro rfl; simp at h
  have hdvd : p ∣ (y - 1) * (y + 1) := by
    have e : (y - 1) * (y + 1) = y * y - 1 := by
      obtain ⟨z, rfl⟩ : ∃ z, y = z + 1 := ⟨y - 1, by omega⟩
      simp only [Nat.add_sub_cancel]; ring_nf; omega
    rw [e]
    have := Nat.div_add_mod (y * y) p
    rw [h] at this
    exact ⟨y * y / p, by omega⟩
  rcases (Nat.Prime.dvd_mul hp).1 hdvd with h1 | h1
  · left
    rcases Nat.eq_zero_or_pos (y - 1) with h0 | hpos
    · omega
    · have := Nat.le_of_dvd hpos h1; omega
  · right
    have := Nat.le_of_dvd (by omega) h1; omega

theorem pow_two_pow_succ_mod (y p c : ℕ) : (y * y % p) ^ 2 ^ (c + 1) % p = y ^ 2 ^ (c + 2) % p := by
  rw [← Nat.pow_mod, ← pow_two, ← pow_mul]; congr 2; rw [pow_succ 2 (c + 1)]; ring

/-- the squaring loop of `mill_rab` reaches n-1 before 1 when n is prime and y^(2^(c+1)) = 1, y ≠ ±1 -/
theorem millRabLoop_true (p : ℕ) (hp : p.Prime) : ∀ c y, y < p → y ≠ 1 → y ≠ p - 1 →
    y ^ 2 ^ (c + 1) % p = 1 → millRabLoop p c y = true := by
  intro c
  induction c with
  | zero =>
    intro y hy h1 h2 h
    rw [show (2 : ℕ) ^ (0 + 1) = 2 by rfl, pow_two] at h
    rcases sq_mod_prime_eq_one p y hp hy h with h | h <;> contradiction
  | succ c ih =>
    intro y hy h1 h2 h
    rw [millRabLoop]
    have hlt : y * y % p < p := Nat.mod_lt _ hp.pos
    by_cases e1 : y * y % p = p - 1
    · simp [e1]
    · simp only [e1, if_false]
      by_cases e2 : y * y % p = 1
      · rcases sq_mod_prime_eq_one p y hp hy e2 with h | h <;> contradiction
      · simp only [e2, if_false]
        exact ih _ hlt e2 e1 (by rw [pow_two_pow_succ_mod]; exact h)

theorem sprpLoop_true (p : ℕ) (hp : p.Prime) : ∀ c y, y < p → y ≠ 1 → y ≠ p - 1 →
    y ^ 2 ^ (c + 1) % p = 1 → sprpLoop p c y = true := by
  intro c
  induction c with
  | zero =>
    intro y hy h1 h2 h
    rw [show (2 : ℕ) ^ (0 + 1) = 2 by rfl, pow_two] at h
    rcases sq_mod_prime_eq_one p y hp hy h with h | h <;> contradiction
  | succ c ih =>
    intro y hy h1 h2 h
    rw [sprpLoop]
    have hlt : y * y % p < p := Nat.mod_lt _ hp.pos
    by_cases e1 : y * y % p = p - 1
    · simp [e1]
    · simp only [e1, if_false]
      by_cases e2 : y * y % p = 1
      · rcases sq_mod_prime_eq_one p y hp hy e2 with h | h <;> contradiction
      · exact ih _ hlt e2 e1 (by rw [pow_two_pow_succ_mod]; exact h)

/-- common core: for prime p with p - 1 = 2^k q and p ∤ a, y = a^q mod p is 1, or p-1, or its
    (k-1)-fold squaring sequence satisfies the loop precondition -/
theorem strong_core (p a q k : ℕ) (hp : p.Prime) (hqk : p - 1 = 2 ^ k * q) (ha : ¬ p ∣ a)
    (h1 : a ^ q % p ≠ 1) (_h2 : a ^ q % p ≠ p - 1) : 1 ≤ k ∧ (a ^ q % p) ^ 2 ^ (k - 1 + 1) % p = 1 := by
  have hf := fermat_nat p a hp ha
  have hk : 1 ≤ k := by
    rcases Nat.eq_zero_or_pos k with rfl | h
    · simp only [pow_zero, one_mul] at hqk; rw [hqk] at hf; contradiction
    · exact h
  refine ⟨hk, ?_⟩
  rw [show k - 1 + 1 = k by omega, ← Nat.pow_mod, ← pow_mul, mul_comm, ← hqk]; exact hf

theorem mill_rab_prime (p : ℕ) (hp : p.Prime) (a q k : ℕ) (hqk : p - 1 = 2 ^ k * q) (ha : ¬ p ∣ a) :
    mill_rab p a q k = true := by
  unfold mill_rab
  by_cases h : a ^ q % p = 1 ∨ a ^ q % p = p - 1
  · simp [h]
  · simp only [h, if_false]
    rw [not_or] at h
    obtain ⟨hk, hpow⟩ := strong_core p a q k hp hqk ha h.1 h.2
    exact millRabLoop_true p hp (k - 1) _ (Nat.mod_lt _ hp.pos) h.1 h.2 hpow

theorem twoAdic_spec : ∀ fuel m, m = 2 ^ (twoAdic fuel m).1 * (twoAdic fuel m).2 := by
  intro fuel
  induction fuel with
  | zero => intro m; simp [twoAdic]
  | succ fuel ih =>
    intro m
    rw [twoAdic]
    by_cases h : m % 2 = 0 ∧ m ≠ 0
    · simp only [h, and_self, if_true, ne_eq, not_false_eq_true]
      have := ih (m / 2)
      rw [pow_succ, mul_assoc, mul_comm 2, ← mul_assoc]
      omega
    · simp only [h, if_false]; simp

theorem mill_rab_exec_eq (n x q k : ℕ) : mill_rab_exec n x q k = mill_rab n x q k := by
  unfold mill_rab_exec mill_rab; rw [powMod_eq]

theorem prime_gt_seven_not_dvd_210 (p : ℕ) (hp : p.Prime) (h : 7 < p) : ¬ p ∣ 210 := by
  intro hd
  rw [show (210 : ℕ) = 2 * (3 * (5 * 7)) by norm_num] at hd
  rcases (Nat.Prime.dvd_mul hp).1 hd with h1 | h1
  · have := Nat.le_of_dvd (by norm_num) h1; omega
  rcases (Nat.Prime.dvd_mul hp).1 h1 with h1 | h1
  · have := Nat.le_of_dvd (by norm_num) h1; omega
  rcases (Nat.Prime.dvd_mul hp).1 h1 with h1 | h1
  · have := Nat.le_of_dvd (by norm_num) h1; omega
  · have := Nat.le_of_dvd (by norm_num) h1; omega

theorem miller_rabin_with_prime (p : ℕ) (hp : p.Prime) (bases : List ℕ) (hb : ∀ x ∈ bases, ¬ p ∣ x) :
    miller_rabin_with p bases = true := by
  unfold miller_rabin_with
  by_cases h7 : p ≤ 7
  · simp only [h7, if_true]
    have h2 := hp.two_le
    interval_cases p <;> first | decide | (exfalso; revert hp; decide)
  · simp only [h7, if_false]
    have hf := fermat_nat p 210 hp (prime_gt_seven_not_dvd_210 p hp (by omega))
    rw [powMod_eq]
    simp only [hf, ne_eq, not_true_eq_false, if_false]
    have hs := twoAdic_spec (p - 1) (p - 1)
    rw [List.all_eq_true]
    intro x hx
    rw [mill_rab_exec_eq]
    exact mill_rab_prime p hp x _ _ hs (hb x hx)

theorem sprp_prime (p a : ℕ) (hp : p.Prime) (ha : ¬ p ∣ a) : sprp p a = true := by
  unfold sprp
  have hs := twoAdic_spec (p - 1) (p - 1)
  generalize twoAdic (p - 1) (p - 1) = kq at hs
  obtain ⟨k, q⟩ := kq
  simp only at hs ⊢
  rw [powMod_eq, ← Nat.pow_mod]
  by_cases h : a ^ q % p = 1 ∨ a ^ q % p = p - 1
  · rcases h with h | h <;> simp [h]
  · rw [not_or] at h
    obtain ⟨hk, hpow⟩ := strong_core p a q k hp hs ha h.1 h.2
    simp [sprpLoop_true p hp (k - 1) _ (Nat.mod_lt _ hp.pos) h.1 h.2 hpow]

/-- the spec oracle never calls a prime composite (so "isPrime n = false" is a proof of compositeness) -/
theorem isPrime_of_prime (p : ℕ) (hp : p.Prime) : isPrime p = true := by
  unfold isPrime
  by_cases hs : p < 1048576
  · simp only [hs, if_true]; exact (isPrimeTD_iff p).2 hp
  · simp only [hs, if_false]
    have hodd : ¬ p % 2 = 0 := by
      intro h
      have := (Nat.Prime.eq_one_or_self_of_dvd hp 2 (Nat.dvd_of_mod_eq_zero h))
      omega
    simp only [hodd, if_false]
    rw [List.all_eq_true]
    intro a _
    by_cases ha : a % p = 0
    · simp [ha]
    · have : ¬ p ∣ a := fun hd => ha (Nat.mod_eq_zero_of_dvd hd)
      simp [sprp_prime p a hp this]

end Mpir.Numth
