/- Lemmas for C20, mpq part: canonical mpq objects on the heap, the mpq function objects of mpirxx.h compute
   their operator for every alias pattern and built-in value (`fnBinQ_spec`). -/
import MpirProofs.Lemmas.Cxx
import Mathlib.Data.Rat.Lemmas
import Mathlib.Tactic.FieldSimp
namespace Mpir.Cxx
theorem Canon_setQ (h : Heap) (p : Nat) (r : Rat) : Canon (h.setQ p r) p := by
  unfold Canon Heap.setQ
  simp only [Heap.set, ZLoc.den.injEq, ZLoc.num.injEq, reduceCtorEq, if_true, if_false]
  refine ⟨by have := r.den_pos; simp only [Int.ofNat_eq_natCast]; omega, ?_⟩
  simpa using r.reduced
theorem qval_setQ (h : Heap) (p : Nat) (r : Rat) : qval (h.setQ p r) p = r := by
  unfold qval Heap.setQ
  simp only [Heap.set, ZLoc.den.injEq, ZLoc.num.injEq, reduceCtorEq, if_true, if_false]
  exact Rat.num_divInt_den r
theorem setQ_get_ne (h : Heap) (p : Nat) (r : Rat) (l : ZLoc) (h1 : l ≠ .num p) (h2 : l ≠ .den p) :
    (h.setQ p r) l = h l := by
  unfold Heap.setQ
  rw [Heap.set_get_ne _ _ _ _ h2, Heap.set_get_ne _ _ _ _ h1]

theorem setQ_fields (h : Heap) (p : Nat) {N D : Int} (hD : 0 < D) (hc : Nat.Coprime N.natAbs D.natAbs) :
    (h.set (.num p) N).set (.den p) D = h.setQ p (Rat.divInt N D) := by
  unfold Heap.setQ
  rw [Rat.divInt_eq_div, Rat.num_div_eq_of_coprime hD hc]
  have := Rat.den_div_eq_of_coprime hD hc
  simp only [Int.ofNat_eq_natCast, this]
theorem setQ_self {h : Heap} {i : Nat} (hc : Canon h i) : h.setQ i (qval h i) = h := by
  have := qval_num_den hc
  unfold Heap.setQ
  simp only [Int.ofNat_eq_natCast, this.1, this.2]
  rw [Heap.set_self, Heap.set_self]

/-- the field-by-field result of `q = r ± m` (`m` an integer): numerator `num r + den r * m`, same denominator -/
theorem poke_add {h : Heap} {r : Nat} (p : Nat) (m : Int) (hc : Canon h r) :
    (h.set (.num p) (h (.num r) + h (.den r) * m)).set (.den p) (h (.den r)) = h.setQ p (qval h r + (m : Rat)) := by
  have hd := hc.1
  have hcop : Nat.Coprime (h (.num r) + h (.den r) * m).natAbs (h (.den r)).natAbs := by
    have : Int.gcd (h (.num r) + h (.den r) * m) (h (.den r)) = 1 := by
      rw [Int.gcd_add_mul_left_left]; exact hc.2
    exact this
  rw [setQ_fields h p hd hcop]
  congr 1
  unfold qval
  rw [Rat.divInt_eq_div, Rat.divInt_eq_div]
  have hd' : ((h (.den r) : Int) : ℚ) ≠ 0 := by exact_mod_cast hd.ne'
  push_cast; field_simp

theorem copyQ_eq {h : Heap} {r : Nat} (p : Nat) (hc : Canon h r) : copyQ p r h = some (h.setQ p (qval h r)) := by
  unfold copyQ
  by_cases hpr : p = r
  · subst hpr; simp [setQ_self hc]
  · simp only [hpr, ne_eq, not_false_eq_true, if_true, mpq_set]
    have := qval_num_den hc
    unfold Heap.setQ
    simp only [Int.ofNat_eq_natCast, this.1, this.2]

theorem mpq_neg_eq {h : Heap} {r : Nat} (p : Nat) (hc : Canon h r) : mpq_neg p r h = h.setQ p (-(qval h r)) := by
  unfold mpq_neg
  have hcop : Nat.Coprime (-(h (.num r))).natAbs (h (.den r)).natAbs := by simpa using hc.2
  rw [setQ_fields h p hc.1 hcop]
  congr 1
  unfold qval; rw [Rat.neg_divInt]

theorem mpq_abs_eq {h : Heap} {r : Nat} (p : Nat) (hc : Canon h r) : mpq_abs p r h = h.setQ p (qabs (qval h r)) := by
  unfold mpq_abs
  have hcop : Nat.Coprime (zabs (h (.num r))).natAbs (h (.den r)).natAbs := by
    unfold zabs; split <;> simpa using hc.2
  rw [setQ_fields h p hc.1 hcop]
  congr 1
  have hn : (qval h r < 0) ↔ h (.num r) < 0 := by rw [← (qval_num_den hc).1]; exact Rat.num_neg.symm
  unfold qabs zabs
  by_cases hlt : h (.num r) < 0
  · simp only [hlt, if_true, hn.mpr hlt]; unfold qval; rw [Rat.neg_divInt]
  · simp only [hlt, if_false, mt hn.mp hlt]; rfl

theorem mpq_set_z_eq (h : Heap) (p : Nat) (z : ZLoc) : mpq_set_z p z h = h.setQ p ((h z : Int) : Rat) := by
  unfold mpq_set_z Heap.setQ
  simp


theorem setQ_setQ (h : Heap) (p : Nat) (a b : Rat) : (h.setQ p a).setQ p b = h.setQ p b := by
  apply Heap.ext'; intro l
  unfold Heap.setQ
  simp only [Heap.set]
  split <;> [rfl; (split <;> rfl)]

theorem neg_after_setQ (h : Heap) (p : Nat) (x : Rat) : mpq_neg p p (h.setQ p x) = h.setQ p (-x) := by
  rw [mpq_neg_eq p (Canon_setQ h p x), qval_setQ, setQ_setQ]

theorem set_den_same (h : Heap) (p : Nat) (N : Int) :
    h.set (.num p) N = (h.set (.num p) N).set (.den p) (h (.den p)) := by
  have : h (.den p) = (h.set (.num p) N) (.den p) := by rw [Heap.set_get_ne]; simp
  rw [this, Heap.set_self]

theorem poke3 (h : Heap) (p r : Nat) (hpr : p ≠ r) (X : Int) (f : Int → Int → Int) :
    mpz_set (.den p) (.den r) ((h.set (.num p) X).set (.num p) (f ((h.set (.num p) X) (.num p)) ((h.set (.num p) X) (.num r))))
      = (h.set (.num p) (f X (h (.num r)))).set (.den p) (h (.den r)) := by
  have h1 : (ZLoc.num r) ≠ ZLoc.num p := by intro e; injection e with e; exact hpr e.symm
  unfold mpz_set
  rw [Heap.set_set, Heap.set_get, Heap.set_get_ne _ _ _ _ h1, Heap.set_get_ne _ _ (.den r) _ (by simp)]

theorem Plus.q_z_spec (p r : Nat) (z : ZLoc) (h : Heap) (hc : Canon h r) :
    Plus.q_z p r z h = some (h.setQ p (qval h r + ((h z : Int) : Rat))) := by
  unfold Plus.q_z
  by_cases hpr : p = r
  · subst hpr
    simp only [if_true, mpz_addmul]
    rw [set_den_same, poke_add p (h z) hc]
  · simp only [hpr, if_false, mpz_mul, mpz_add]
    have := poke3 h p r hpr (h (.den r) * h z) (fun a b => a + b)
    rw [this, ← poke_add p (h z) hc]
    congr 2; ring_nf

theorem Plus.q_ui_spec (cst : Bool) (p r : Nat) (l : Nat) (h : Heap) (hc : Canon h r) :
    Plus.q_ui cst p r l h = some (h.setQ p (qval h r + ((Int.ofNat l : Int) : Rat))) := by
  unfold Plus.q_ui
  split
  · rename_i hcst; simp only [Bool.and_eq_true, beq_iff_eq] at hcst
    rw [copyQ_eq p hc, hcst.2]; simp
  · by_cases hpr : p = r
    · subst hpr
      simp only [if_true, mpz_addmul_ui]
      rw [set_den_same, poke_add p (Int.ofNat l) hc]
    · simp only [hpr, if_false, mpz_mul_ui, mpz_add]
      have := poke3 h p r hpr (h (.den r) * Int.ofNat l) (fun a b => a + b)
      rw [this, ← poke_add p (Int.ofNat l) hc]
      congr 2; ring_nf

theorem Minus.q_z_spec (p r : Nat) (z : ZLoc) (h : Heap) (hc : Canon h r) :
    Minus.q_z p r z h = some (h.setQ p (qval h r - ((h z : Int) : Rat))) := by
  unfold Minus.q_z
  have e : qval h r - ((h z : Int) : Rat) = qval h r + ((-(h z) : Int) : Rat) := by push_cast; ring
  by_cases hpr : p = r
  · subst hpr
    simp only [if_true, mpz_submul]
    rw [set_den_same, e, ← poke_add p (-(h z)) hc]
    congr 2; ring_nf
  · simp only [hpr, if_false, mpz_mul, mpz_sub]
    have := poke3 h p r hpr (h (.den r) * h z) (fun a b => b - a)
    rw [this, e, ← poke_add p (-(h z)) hc]
    congr 2; ring_nf

theorem Minus.q_ui_spec (cst : Bool) (p r : Nat) (l : Nat) (h : Heap) (hc : Canon h r) :
    Minus.q_ui cst p r l h = some (h.setQ p (qval h r - ((Int.ofNat l : Int) : Rat))) := by
  unfold Minus.q_ui
  have e : qval h r - ((Int.ofNat l : Int) : Rat) = qval h r + ((-(Int.ofNat l) : Int) : Rat) := by push_cast; ring
  split
  · rename_i hcst; simp only [Bool.and_eq_true, beq_iff_eq] at hcst
    rw [copyQ_eq p hc, hcst.2]; simp
  · by_cases hpr : p = r
    · subst hpr
      simp only [if_true, mpz_submul_ui]
      rw [set_den_same, e, ← poke_add p (-(Int.ofNat l)) hc]
      congr 2; ring_nf
    · simp only [hpr, if_false, mpz_mul_ui, mpz_sub]
      have := poke3 h p r hpr (h (.den r) * Int.ofNat l) (fun a b => b - a)
      rw [this, e, ← poke_add p (-(Int.ofNat l)) hc]
      congr 2; ring_nf

theorem Plus.q_si_spec (cst : Bool) (p r : Nat) (l : Int) (h : Heap) (hc : Canon h r) (hr : SiRange l) :
    Plus.q_si cst p r l h = some (h.setQ p (qval h r + (l : Rat))) := by
  unfold Plus.q_si
  split
  · rw [Plus.q_ui_spec _ _ _ _ _ hc, toUi_of_nonneg hr (by omega)]
  · rw [Minus.q_ui_spec _ _ _ _ _ hc, negUi_eq hr (by omega)]; congr 2; push_cast; ring

theorem Minus.q_si_spec (cst : Bool) (p r : Nat) (l : Int) (h : Heap) (hc : Canon h r) (hr : SiRange l) :
    Minus.q_si cst p r l h = some (h.setQ p (qval h r - (l : Rat))) := by
  unfold Minus.q_si
  split
  · rw [Minus.q_ui_spec _ _ _ _ _ hc, toUi_of_nonneg hr (by omega)]
  · rw [Plus.q_ui_spec _ _ _ _ _ hc, negUi_eq hr (by omega)]; congr 2; push_cast; ring


theorem Lshift.q_spec (cst : Bool) (p r n : Nat) (h : Heap) (hc : Canon h r) :
    Lshift.q cst p r n h = some (h.setQ p (qshl (qval h r) n)) := by
  unfold Lshift.q
  split
  · rename_i hcst; simp only [Bool.and_eq_true, beq_iff_eq] at hcst
    rw [copyQ_eq p hc, hcst.2]; simp [qshl]
  · rfl

theorem Rshift.q_spec (cst : Bool) (p r n : Nat) (h : Heap) (hc : Canon h r) :
    Rshift.q cst p r n h = some (h.setQ p (qshr (qval h r) n)) := by
  unfold Rshift.q
  split
  · rename_i hcst; simp only [Bool.and_eq_true, beq_iff_eq] at hcst
    rw [copyQ_eq p hc, hcst.2]; simp [qshr]
  · rfl

theorem two_pow_ctz_rat {l : Nat} (ht : pow2Test l = true) (h0 : l ≠ 0) (hr : UiRange l) :
    (((2 : Int) ^ ctz l : Int) : Rat) = ((Int.ofNat l : Int) : Rat) := by
  have := pow2Test_ctz ht h0 hr
  have e : ((2 : Int) ^ ctz l) = Int.ofNat (2 ^ ctz l) := by simp
  rw [e, this]

theorem Multiplies.q_ui_spec (cst : Bool) (p r : Nat) (l : Nat) (h : Heap) (hc : Canon h r) (hr : UiRange l) :
    Multiplies.q_ui cst p r l h = some (h.setQ p (qval h r * ((Int.ofNat l : Int) : Rat))) := by
  unfold Multiplies.q_ui
  split
  · rename_i hcst; simp only [Bool.and_eq_true] at hcst
    split
    · rename_i h0; subst h0
      simp only [mpq_set_ui, Heap.setQ]
      simp
    · rename_i h0
      rw [Lshift.q_spec _ _ _ _ _ hc]; unfold qshl; rw [two_pow_ctz_rat hcst.2 h0 hr]
  · rfl

theorem toUi_range {l : Int} (hr : SiRange l) (h0 : 0 ≤ l) : UiRange (toUi l) := by
  have e := toUi_of_nonneg hr h0
  unfold SiRange LONG_MIN LONG_MAX at hr
  unfold UiRange; rw [two64_eq]; simp only [Int.ofNat_eq_natCast] at e; omega

theorem negUi_range {l : Int} (hr : SiRange l) (h0 : l < 0) : UiRange (negUi l) := by
  have e := negUi_eq hr h0
  unfold SiRange LONG_MIN LONG_MAX at hr
  unfold UiRange; rw [two64_eq]; simp only [Int.ofNat_eq_natCast] at e; omega

theorem tmpqSi_eq {l : Int} (hr : SiRange l) : tmpqSi l = (l : Rat) := by
  unfold tmpqSi; rw [tmpzSi_eq hr]

theorem Multiplies.q_si_spec (cst : Bool) (p r : Nat) (l : Int) (h : Heap) (hc : Canon h r) (hr : SiRange l) :
    Multiplies.q_si cst p r l h = some (h.setQ p (qval h r * (l : Rat))) := by
  unfold Multiplies.q_si
  split
  · split
    · rw [Multiplies.q_ui_spec _ _ _ _ _ hc (toUi_range hr (by omega)), toUi_of_nonneg hr (by omega)]
    · rw [Multiplies.q_ui_spec _ _ _ _ _ hc (negUi_range hr (by omega)), negUi_eq hr (by omega)]
      simp only [Option.map_some, neg_after_setQ]
      congr 2; push_cast; ring
  · simp only [mpq_opT, tmpqSi_eq hr]

theorem Divides.q_ui_spec (cst : Bool) (p r : Nat) (l : Nat) (h : Heap) (hc : Canon h r) (hr : UiRange l) :
    Divides.q_ui cst p r l h = if l = 0 then none else some (h.setQ p (qval h r / ((Int.ofNat l : Int) : Rat))) := by
  unfold Divides.q_ui
  split
  · rename_i hcst; simp only [Bool.and_eq_true, bne_iff_ne, ne_eq] at hcst
    rw [if_neg hcst.2, Rshift.q_spec _ _ _ _ _ hc]; unfold qshr; rw [two_pow_ctz_rat hcst.1.2 hcst.2 hr]
  · unfold Divides.divT
    by_cases h0 : l = 0
    · subst h0; simp
    · have : ((Int.ofNat l : Int) : Rat) ≠ 0 := by simpa using h0
      simp only [this, h0, if_false]; rfl

theorem Divides.q_si_spec (cst : Bool) (p r : Nat) (l : Int) (h : Heap) (hc : Canon h r) (hr : SiRange l) :
    Divides.q_si cst p r l h = if l = 0 then none else some (h.setQ p (qval h r / (l : Rat))) := by
  unfold Divides.q_si
  split
  · split
    · have e := toUi_of_nonneg hr (by omega)
      rw [Divides.q_ui_spec _ _ _ _ _ hc (toUi_range hr (by omega)), e]
      by_cases h0 : l = 0
      · have : toUi l = 0 := by simp only [Int.ofNat_eq_natCast] at e; omega
        rw [if_pos this, if_pos h0]
      · have : toUi l ≠ 0 := by simp only [Int.ofNat_eq_natCast] at e; omega
        rw [if_neg this, if_neg h0]
    · have e := negUi_eq hr (by omega)
      rw [Divides.q_ui_spec _ _ _ _ _ hc (negUi_range hr (by omega)), e]
      have : negUi l ≠ 0 := by simp only [Int.ofNat_eq_natCast] at e; omega
      have h0 : l ≠ 0 := by omega
      simp only [this, h0, if_false, Option.map_some, neg_after_setQ]
      congr 2; push_cast; rw [div_neg, neg_neg]
  · unfold Divides.divT
    rw [tmpqSi_eq hr]
    by_cases h0 : l = 0
    · subst h0; simp
    · have : (l : Rat) ≠ 0 := by exact_mod_cast h0
      simp only [this, h0, if_false]; rfl


/-! ### the combined statement for the mpq function objects -/

def argR (h : Heap) : QArg → Option Rat
  | .q i => some (qval h i)
  | .z l => some ((h l : Int) : Rat)
  | .bi c => biRat c

def QArg.canon (h : Heap) : QArg → Prop
  | .q i => Canon h i
  | _ => True

def QArg.ok : QArg → Prop
  | .bi c => c.ok = true
  | _ => True

/-- the overload exists (the expression compiles) -/
def fnQdefined (o : Bin) : QArg → QArg → Prop
  | .q _, .q _ | .q _, .bi _ | .bi _, .q _ => o.qOk = true
  | .q _, .z _ | .z _, .q _ => isAddSub o = true
  | _, _ => False

theorem fnBinQ_spec (cst : Bool) (o : Bin) (p : Nat) (a b : QArg) (h : Heap)
    (hd : fnQdefined o a b) (ca : a.canon h) (cb : b.canon h) (oka : a.ok) (okb : b.ok) :
    fnBinQ cst o p a b h =
      ((argR h a).bind fun x => (argR h b).bind fun y => binQ o x y).map (fun r => h.setQ p r) := by
  cases a with
  | q r =>
    cases b with
    | q s =>
      cases o <;> simp [fnQdefined, Bin.qOk] at hd <;>
        simp [fnBinQ, argR, binQ, Plus.qq, Minus.qq, Multiplies.qq, Divides.qq, mpq_div, mpq_op2] <;> (try split) <;> simp_all
    | z i =>
      cases o <;> simp [fnQdefined, isAddSub] at hd <;>
        simp [fnBinQ, argR, binQ, Plus.q_z_spec _ _ _ _ ca, Minus.q_z_spec _ _ _ _ ca]
    | bi c =>
      cases c with
      | ui l =>
        have hr := bi_ok_ui okb
        cases o <;> simp [fnQdefined, Bin.qOk] at hd <;>
          simp [fnBinQ, argR, biRat, binQ, Plus.q_ui_spec _ _ _ _ _ ca, Minus.q_ui_spec _ _ _ _ _ ca, Multiplies.q_ui_spec _ _ _ _ _ ca hr,
            Divides.q_ui_spec _ _ _ _ _ ca hr] <;> (try split) <;> simp_all
      | si l =>
        have hr := bi_ok_si okb
        cases o <;> simp [fnQdefined, Bin.qOk] at hd <;>
          simp [fnBinQ, argR, biRat, binQ, Plus.q_si_spec _ _ _ _ _ ca hr, Minus.q_si_spec _ _ _ _ _ ca hr, Multiplies.q_si_spec _ _ _ _ _ ca hr,
            Divides.q_si_spec _ _ _ _ _ ca hr] <;> (try split) <;> simp_all
      | d d =>
        cases o <;> simp [fnQdefined, Bin.qOk] at hd <;>
          simp [fnBinQ, argR, biRat, binQ, Plus.q_d, Minus.q_d, Multiplies.q_d, Divides.q_d, Divides.divT, mpq_opT] <;>
          cases dval d <;> simp <;> (try split) <;> simp_all
  | z i =>
    cases b with
    | q r =>
      cases o <;> simp [fnQdefined, isAddSub] at hd
      · simp [fnBinQ, argR, binQ, Plus.q_z_spec _ _ _ _ cb, add_comm]
      · simp only [fnBinQ, argR, binQ, Minus.z_q, Minus.q_z_spec _ _ _ _ cb, Option.map_some, neg_after_setQ, Option.bind_some]
        congr 2; ring
    | z j => simp [fnQdefined] at hd
    | bi c => simp [fnQdefined] at hd
  | bi c =>
    cases b with
    | bi c' => simp [fnQdefined] at hd
    | z j => simp [fnQdefined] at hd
    | q r =>
      cases c with
      | ui l =>
        have hr := bi_ok_ui oka
        cases o <;> simp [fnQdefined, Bin.qOk] at hd
        · simp [fnBinQ, argR, biRat, binQ, Plus.q_ui_spec _ _ _ _ _ cb, add_comm]
        · simp only [fnBinQ, argR, biRat, binQ, Minus.ui_q, Minus.q_ui_spec _ _ _ _ _ cb, Option.map_some, neg_after_setQ, Option.bind_some]
          congr 2; ring
        · simp [fnBinQ, argR, biRat, binQ, Multiplies.q_ui_spec _ _ _ _ _ cb hr, mul_comm]
        · simp only [fnBinQ, argR, biRat, binQ, Divides.ui_q, Divides.tDiv, Option.bind_some]
          split <;> simp_all [mpq_opT]
      | si l =>
        have hr := bi_ok_si oka
        cases o <;> simp [fnQdefined, Bin.qOk] at hd
        · simp [fnBinQ, argR, biRat, binQ, Plus.q_si_spec _ _ _ _ _ cb hr, add_comm]
        · simp only [fnBinQ, argR, biRat, binQ, Minus.si_q, Minus.q_si_spec _ _ _ _ _ cb hr, Option.map_some, neg_after_setQ, Option.bind_some]
          congr 2; ring
        · simp [fnBinQ, argR, biRat, binQ, Multiplies.q_si_spec _ _ _ _ _ cb hr, mul_comm]
        · simp only [fnBinQ, argR, biRat, binQ, Divides.si_q, Divides.tDiv, Option.bind_some, tmpqSi_eq hr]
          split <;> simp_all [mpq_opT]
      | d d =>
        cases o <;> simp [fnQdefined, Bin.qOk] at hd <;>
          simp [fnBinQ, argR, biRat, binQ, Plus.q_d, Minus.d_q, Multiplies.q_d, Divides.d_q, Divides.tDiv, mpq_opT] <;>
          cases dval d <;> simp [add_comm, mul_comm] <;> (try split) <;> simp_all

end Mpir.Cxx
