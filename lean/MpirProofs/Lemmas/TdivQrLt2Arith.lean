/- Helper lemmas for the model of mpn_tdiv_qr, part 3: the arithmetic of the "numerator less than twice the
   denominator" branch (tdiv_qr.c:155-369), on natural numbers only.

   Notation.  N, D: dividend and divisor.  W·c = B·Bi with c = 2^cnt, Bi = B^(in-1): the truncation unit, so that
   N = n2·W + nl, D = d2·W + dl with nl, dl < W, where n2 (2qn limbs) and d2 (qn limbs, normalised) are the extracted
   operands.  q1 = ⌊n2/d2⌋, r1 = n2 mod d2 is the approximate quotient; K = B^(qn-1); qt, rt are the top limbs of q1, r1;
   x is the first ignored limb of the normalised divisor (x·Bi ≤ dl·c < (x+1)·Bi) and h = ⌊x·qt/B⌋.
   "q is at most one too large and not too small" is written  q·D ≤ N + D ∧ N < q·D + D. -/
import Mathlib.Tactic.Ring
import Mathlib.Tactic.Linarith
import Mathlib.Tactic.LinearCombination
namespace Mpir.TdivQr

/-- the identity behind every step: N + q·dl = q·D + r·W + nl when n2 = q·d2 + r -/
theorem lt2_identity (N D W n2 d2 nl dl q r : Nat) (hN : N = n2 * W + nl) (hD : D = d2 * W + dl) (hq : n2 = q * d2 + r) :
    N + q * dl = q * D + r * W + nl := by
  subst hN hD hq; ring

/-- the estimate is never too small (tdiv_qr.c:171 "This is either the correct quotient, but might be 1 or 2 too large") -/
theorem lt2_upper (N D W n2 d2 nl dl q r : Nat) (hN : N = n2 * W + nl) (hD : D = d2 * W + dl) (hq : n2 = q * d2 + r)
    (hr : r < d2) (hnl : nl < W) : N < q * D + D := by
  have e := lt2_identity N D W n2 d2 nl dl q r hN hD hq
  have h1 : r * W + W ≤ d2 * W := by
    have : (r + 1) * W ≤ d2 * W := Nat.mul_le_mul_right _ hr
    linarith
  have h2 : d2 * W ≤ D := by omega
  have h3 : 0 ≤ q * dl := Nat.zero_le _
  omega

/-- the estimate is at most 2 too large: q1·D ≤ N + 2·D (d2 normalised: 2·d2 ≥ B·K > q1) -/
theorem lt2_lower2 (N D W n2 d2 nl dl q r BK : Nat) (hN : N = n2 * W + nl) (hD : D = d2 * W + dl)
    (hq : n2 = q * d2 + r) (hdl : dl < W) (hqlt : q < BK) (hnorm : BK ≤ 2 * d2) : q * D ≤ N + 2 * D := by
  have e := lt2_identity N D W n2 d2 nl dl q r hN hD hq
  have h1 : q * dl ≤ BK * W := Nat.mul_le_mul (Nat.le_of_lt hqlt) (Nat.le_of_lt hdl)
  have h2 : BK * W ≤ 2 * d2 * W := Nat.mul_le_mul_right _ hnorm
  have h3 : 2 * d2 * W ≤ 2 * D := by rw [hD]; ring_nf; omega
  have h4 : 0 ≤ r * W + nl := Nat.zero_le _
  omega

/-- tdiv_qr.c:300: if the top limb of the partial remainder is below h, the estimate is too large -/
theorem lt2_fire (B K Bi c W nl dl q1 r1 qt rt x h : Nat) (hW : W * c = B * Bi) (hc : 0 < c)
    (hh : h * B ≤ x * qt) (hrt : rt + 1 ≤ h) (hr1 : r1 < (rt + 1) * K) (hq1 : qt * K ≤ q1)
    (hnl : nl < W) (hx : x * Bi ≤ dl * c) : r1 * W + nl < q1 * dl := by
  have h1 : (r1 + 1) * (B * Bi) ≤ (rt + 1) * K * (B * Bi) := Nat.mul_le_mul_right _ hr1
  have h2 : (rt + 1) * K * (B * Bi) ≤ h * K * (B * Bi) := Nat.mul_le_mul_right _ (Nat.mul_le_mul_right _ hrt)
  have h3 : h * B * (K * Bi) ≤ x * qt * (K * Bi) := Nat.mul_le_mul_right _ hh
  have h4 : qt * K * (x * Bi) ≤ q1 * (dl * c) := Nat.mul_le_mul hq1 hx
  have h5 : (r1 * W + nl) * c < (r1 + 1) * (B * Bi) := by
    have : (r1 * W + nl) * c < (r1 * W + W) * c := Nat.mul_lt_mul_of_pos_right (by omega) hc
    calc (r1 * W + nl) * c < (r1 * W + W) * c := this
      _ = (r1 + 1) * (W * c) := by ring
      _ = (r1 + 1) * (B * Bi) := by rw [hW]
  have h6 : (r1 * W + nl) * c < q1 * dl * c := by
    calc (r1 * W + nl) * c < (r1 + 1) * (B * Bi) := h5
      _ ≤ (rt + 1) * K * (B * Bi) := h1
      _ ≤ h * K * (B * Bi) := h2
      _ = h * B * (K * Bi) := by ring
      _ ≤ x * qt * (K * Bi) := h3
      _ = qt * K * (x * Bi) := by ring
      _ ≤ q1 * (dl * c) := h4
      _ = q1 * dl * c := by ring
  exact Nat.lt_of_mul_lt_mul_right h6

/-- tdiv_qr.c:280-281 "it catches all cases where the quotient is 2 too large": if the test does not fire the
    estimate is at most 1 too large -/
theorem lt2_nofire (B K Bi c W dl d2 q1 r1 qt rt x h : Nat) (hW : W * c = B * Bi) (hc : 0 < c)
    (hh : x * qt < (h + 1) * B) (hqt : qt < B) (hxB : x < B) (hrt : h ≤ rt) (hr1 : rt * K ≤ r1)
    (hq1 : q1 < (qt + 1) * K) (hx : dl * c < (x + 1) * Bi) (hd2 : 3 * K ≤ d2) :
    q1 * dl ≤ (r1 + d2) * W + dl := by
  rcases Nat.eq_zero_or_pos q1 with h0 | hpos
  · rw [h0]; omega
  have h1 : (q1 - 1) * (dl * c) ≤ (qt + 1) * K * ((x + 1) * Bi) :=
    Nat.mul_le_mul (by omega) (Nat.le_of_lt hx)
  have h2 : (qt + 1) * (x + 1) ≤ (h + 3) * B := by
    have : (qt + 1) * (x + 1) = x * qt + qt + x + 1 := by ring
    rw [this]
    have : (h + 3) * B = (h + 1) * B + 2 * B := by ring
    omega
  have h3 : (qt + 1) * (x + 1) * (K * Bi) ≤ (h + 3) * B * (K * Bi) := Nat.mul_le_mul_right _ h2
  have h4 : (h + 3) * K ≤ r1 + d2 := by
    have : h * K ≤ rt * K := Nat.mul_le_mul_right _ hrt
    have : (h + 3) * K = h * K + 3 * K := by ring
    omega
  have h5 : (h + 3) * K * (B * Bi) ≤ (r1 + d2) * (B * Bi) := Nat.mul_le_mul_right _ h4
  have h6 : (q1 - 1) * dl * c ≤ (r1 + d2) * W * c := by
    calc (q1 - 1) * dl * c = (q1 - 1) * (dl * c) := by ring
      _ ≤ (qt + 1) * K * ((x + 1) * Bi) := h1
      _ = (qt + 1) * (x + 1) * (K * Bi) := by ring
      _ ≤ (h + 3) * B * (K * Bi) := h3
      _ = (h + 3) * K * (B * Bi) := by ring
      _ ≤ (r1 + d2) * (B * Bi) := h5
      _ = (r1 + d2) * W * c := by rw [← hW]; ring
  have h7 : (q1 - 1) * dl ≤ (r1 + d2) * W := Nat.le_of_mul_le_mul_right h6 hc
  have h8 : q1 * dl = (q1 - 1) * dl + dl := by
    have : q1 = (q1 - 1) + 1 := by omega
    conv_lhs => rw [this]
    ring
  omega

/-- after the decrement with carry (divisor normalised, cnt = 0): the partial remainder without the carry limb does not
    exceed what is still to be subtracted — r1·(B·Bi) ≤ (q1-1)·dl, so ⌊(q1-1)·dl / B^in⌋ ≥ r1 -/
theorem lt2_fire_small (B K Bi dl q1 r1 qt rt x h : Nat) (hB : 0 < B)
    (hh : h * B ≤ x * qt) (hrt : rt + 1 ≤ h) (hr1 : r1 < (rt + 1) * K) (hq1 : qt * K ≤ q1) (hxB : x ≤ B)
    (hx : x * Bi ≤ dl) : r1 * (B * Bi) ≤ (q1 - 1) * dl := by
  have hK : 0 < K := by
    rcases Nat.eq_zero_or_pos K with h0 | h0
    · rw [h0] at hr1; omega
    · exact h0
  have hqt : 1 ≤ qt := by
    rcases Nat.eq_zero_or_pos qt with h0 | h0
    · rw [h0, Nat.mul_zero] at hh
      have : 1 * B ≤ h * B := Nat.mul_le_mul_right _ (by omega)
      omega
    · exact h0
  have hq1K : K ≤ q1 := by
    have : 1 * K ≤ qt * K := Nat.mul_le_mul_right _ hqt
    omega
  -- (q1 - 1)·dl ≥ (qt·K - 1)·x·Bi = qt·x·K·Bi - x·Bi ≥ h·B·K·Bi - B·Bi
  have h1 : (qt * K - 1) * (x * Bi) ≤ (q1 - 1) * dl := Nat.mul_le_mul (by omega) hx
  have h2 : h * B * (K * Bi) ≤ x * qt * (K * Bi) := Nat.mul_le_mul_right _ hh
  have h3 : x * Bi ≤ B * Bi := Nat.mul_le_mul_right _ hxB
  have h4 : (r1 + 1) * (B * Bi) ≤ h * K * (B * Bi) := by
    have : r1 + 1 ≤ h * K := by
      have : (rt + 1) * K ≤ h * K := Nat.mul_le_mul_right _ hrt
      omega
    exact Nat.mul_le_mul_right _ this
  have h5 : (qt * K - 1) * (x * Bi) + x * Bi = x * qt * (K * Bi) := by
    have : qt * K = (qt * K - 1) + 1 := by
      have : 1 ≤ qt * K := Nat.mul_pos hqt hK
      omega
    calc (qt * K - 1) * (x * Bi) + x * Bi = ((qt * K - 1) + 1) * (x * Bi) := by ring
      _ = qt * K * (x * Bi) := by rw [← this]
      _ = x * qt * (K * Bi) := by ring
  have h6 : (r1 + 1) * (B * Bi) = r1 * (B * Bi) + B * Bi := by ring
  have h7 : h * K * (B * Bi) = h * B * (K * Bi) := by ring
  omega

/-- the reconstruction at the end (tdiv_qr.c:363-368): the dn-limb value S left in rp is N − q·D modulo B^dn, t counts
    the borrows; when q is at most one too large this determines quotient and remainder -/
theorem lt2_finish (N D P S q t : Nat) (hDP : D ≤ P) (hS : S < P) (hlo : q * D ≤ N + D) (hhi : N < q * D + D)
    (hrel : S + q * D = N + t * P) :
    (t = 0 ∧ N = q * D + S ∧ S < D) ∨ (t = 1 ∧ 1 ≤ q ∧ N = (q - 1) * D + (S + D - P) ∧ S + D - P < D ∧ P ≤ S + D) := by
  rcases Nat.lt_or_ge N (q * D) with hneg | hpos
  · -- q one too large
    right
    have hq : 1 ≤ q := by
      rcases Nat.eq_zero_or_pos q with h0 | h0
      · rw [h0] at hneg; omega
      · exact h0
    have ht : t = 1 := by
      rcases Nat.lt_or_ge t 1 with h0 | h1
      · have : t = 0 := by omega
        rw [this] at hrel; omega
      · rcases Nat.lt_or_ge t 2 with h2 | h2
        · omega
        · have : 2 * P ≤ t * P := Nat.mul_le_mul_right _ h2
          omega
    subst ht
    have e : q * D = (q - 1) * D + D := by
      have : q = (q - 1) + 1 := by omega
      conv_lhs => rw [this]
      ring
    refine ⟨rfl, hq, ?_, ?_, ?_⟩ <;> omega
  · left
    have ht : t = 0 := by
      rcases Nat.eq_zero_or_pos t with h0 | h0
      · exact h0
      · have : 1 * P ≤ t * P := Nat.mul_le_mul_right _ h0
        omega
    subst ht
    refine ⟨rfl, ?_, ?_⟩ <;> omega

end Mpir.TdivQr
