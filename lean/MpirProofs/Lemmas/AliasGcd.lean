/- mpz_gcd on the pointer-level model: early pointer fetch, SIZ (g) written before the copy in the zero-operand cases,
   one-limb cases storing through PTR (g) without a realloc, general case via TMP copies. -/
import MpirProofs.Lemmas.AliasUi
import Mathlib.Data.Nat.GCD.Basic
namespace Mpir.AliasMem
open Mpir
open Mpir.DivZ (sizeNat siz sameSign)

theorem realloc_setSize_comm (s : St) (g n : Nat) (z : Int) :
    (s.setSize g z).mpzRealloc g n = (s.mpzRealloc g n).setSize g z := by
  unfold St.mpzRealloc
  have ha : (s.setSize g z).alloc g = s.alloc g := by simp [St.setSize, St.setVar, St.alloc]
  rw [ha]
  by_cases hlt : s.alloc g < n
  · simp only [hlt, if_true]
    cases s with
    | mk nv vars blk next =>
      simp only [St.setSize, St.setVar, St.malloc, St.free, St.setBlk, St.ptr, St.size, St.mk.injEq, true_and, and_true]
      refine ⟨?_, ?_⟩
      · funext j
        by_cases e : j = g <;> simp [e]
      · rfl
  · simp only [hlt, if_false]

theorem gcdCopy_ok {s : St} (h : Inv s) {g w : Nat} (hg : g < s.nv) (hw : w < s.nv) :
    ∃ s', gcdCopy g w (s.ptr w) (s.size w).natAbs s = .ok s' ∧ Res s s' g (s.mag w) := by
  unfold gcdCopy
  simp only [bind, Except.bind, pure, Except.pure]
  set n := (s.size w).natAbs with hn
  by_cases hgw : g = w
  · rw [if_pos hgw]
    subst hgw
    obtain ⟨i1, u1, v1⟩ := flip_spec h hg (n : Int) (by rw [hn]; simp only [Int.natAbs_natCast])
    refine ⟨_, rfl, i1, u1.nv, ?_, fun i hi hig => u1.value_o h hg hi hig⟩
    rw [v1]; unfold sgnv; simp
  · rw [if_neg hgw, realloc_setSize_comm]
    obtain ⟨i1, nv1, size1, val1, a1, _⟩ := realloc_spec h hg n
    set s1 := s.mpzRealloc g n with hs1
    have hg1 : g < s1.nv := by rw [nv1]; exact hg
    have hw1 : w < s1.nv := by rw [nv1]; exact hw
    have hpw : s1.ptr w = s.ptr w := by rw [hs1, realloc_ptr]; simp [Ne.symm hgw]
    have hl := i1.load_var hw1; rw [size1, ← hn, hpw] at hl
    have hl' : (s1.setSize g n).load (s.ptr w) n = .ok (s1.limbs w) := hl
    rw [hl']; simp only []
    have hls := i1.limbs_spec hw1; rw [size1, ← hn] at hls
    obtain ⟨b, hb, hlen, hL, hst⟩ := store_var i1 hg1 (s1.limbs w) (by rw [hls.1]; exact a1)
    have hpg : (s1.setSize g n).ptr g = s1.ptr g := by simp [St.setSize, St.setVar, St.ptr]
    have hst' : (s1.setSize g n).store ((s1.setSize g n).ptr g) (s1.limbs w) =
        .ok (s1.put g (s1.limbs w ++ b.drop (s1.limbs w).length) n) := by
      rw [hpg]; unfold St.store
      have : (s1.setSize g n).blk (s1.ptr g) = some b := hb
      rw [this]; simp only []
      rw [if_pos (by rw [hls.1]; omega)]
      rfl
    rw [hst']
    have hsn := i1.size_natAbs hw1; rw [size1, ← hn] at hsn
    have p := put_upd i1 hg1 (s1.limbs w ++ b.drop (s1.limbs w).length) (s1.mag w) false
      (by rw [length_wr _ _ (by rw [hls.1]; omega)]; exact hlen) (Limbs_wr hls.2 hL) (by rw [← hsn]; exact a1)
      (by rw [← hsn, List.take_append_of_le_length (by rw [hls.1]), List.take_of_length_le (by rw [hls.1])]; rfl)
    simp only [Bool.false_eq_true, if_false, ← hsn] at p
    have hmag : s1.mag w = s.mag w := by rw [← value_natAbs, ← value_natAbs, val1 w hw]
    exact ⟨_, rfl, p.1, p.2.1.nv.trans nv1, by rw [p.2.2, hmag], fun i hi hig =>
      (p.2.1.value_o i1 hg1 (by rw [nv1]; exact hi) hig).trans (val1 i hi)⟩

theorem gcdOne_ok {s : St} (h : Inv s) {g w x : Nat} (hg : g < s.nv) (hw : w < s.nv) (hx : x < s.nv)
    (hx1 : (s.size x).natAbs = 1) (ha : 1 ≤ s.alloc g) :
    ∃ s', gcdOne g (s.ptr w) (s.size w).natAbs (s.ptr x) s = .ok s' ∧ Res s s' g (Nat.gcd (s.mag w) (s.mag x)) := by
  unfold gcdOne
  simp only [bind, Except.bind, pure, Except.pure]
  have hl : (s.setSize g 1).load (s.ptr w) (s.size w).natAbs = .ok (s.limbs w) := h.load_var hw
  rw [hl]; simp only []
  obtain ⟨bx, hbx, hbxl, hbxL⟩ := h.live x hx
  have hfx := h.fits x hx
  have hlx : limbAt (s.setSize g 1) (s.ptr x) 0 = .ok (bx.getD 0 0) :=
    limbAt_of_blk (s := s.setSize g 1) (show (s.setSize g 1).blk (s.ptr x) = some bx from hbx) (by omega)
  rw [hlx]; simp only []
  have hmx : s.mag x = bx.getD 0 0 := by
    unfold St.mag St.limbs; rw [hbx, hx1]; simp only [Option.getD_some]
    cases bx with
    | nil => simp at hbxl; omega
    | cons a as => simp
  have hxB : bx.getD 0 0 < B := by
    cases bx with
    | nil => simp at hbxl; omega
    | cons a as => simp; exact hbxL a (by simp)
  have hx0 : s.mag x ≠ 0 := fun e => by
    have := h.size_natAbs hx; rw [e, DivZ.sizeNat_eq_zero.mpr rfl] at this; omega
  rw [← hmx]
  set G := Nat.gcd (val (s.limbs w)) (s.mag x) with hG
  have hGpos : 0 < G := Nat.gcd_pos_of_pos_right _ (Nat.pos_of_ne_zero hx0)
  have hGle : G ≤ s.mag x := Nat.gcd_le_right _ (Nat.pos_of_ne_zero hx0)
  have hGB : G < B := by rw [hmx] at hGle; omega
  have hGsz : sizeNat G = 1 := sizeNat_eq (by simp; omega) (by simpa using hGB) (Nat.le_refl 1)
  obtain ⟨bg, hbg, hbgl, hbgL⟩ := h.live g hg
  have hpg : (s.setSize g 1).ptr g = s.ptr g := by simp [St.setSize, St.setVar, St.ptr]
  rw [hpg, storeAt_ok (show (s.setSize g 1).blk (s.ptr g) = some bg from hbg) (by simp; omega)]
  have ht : [G] = toLimbs 1 G := by simp [toLimbs, Nat.mod_eq_of_lt hGB]
  rw [ht]
  have p := put_wrAt0 h hg bg hbgl hbgL 1 G (by rw [hGsz]) (by omega) false
  simp only [Bool.false_eq_true, if_false, hGsz] at p
  exact ⟨_, rfl, p.1, p.2.1.nv, p.2.2, fun i hi hig => p.2.1.value_o h hg hi hig⟩

theorem mpz_gcd_ok {s : St} (h : Inv s) {g u v : Nat} (hg : g < s.nv) (hu : u < s.nv) (hv : v < s.nv)
    (ha : 1 ≤ s.alloc g) :
    ∃ s', mpz_gcd g u v s = .ok s' ∧ Res s s' g (Int.gcd (s.value u) (s.value v)) := by
  have hgcd : Int.gcd (s.value u) (s.value v) = Nat.gcd (s.mag u) (s.mag v) := by
    rw [Int.gcd, value_natAbs, value_natAbs]
  rw [hgcd]
  unfold mpz_gcd
  simp only [bind, Except.bind, pure, Except.pure]
  by_cases hu0 : (s.size u).natAbs = 0
  · rw [if_pos hu0]
    have : s.mag u = 0 := h.mag_zero hu (by omega)
    rw [this, Nat.gcd_zero_left]
    exact gcdCopy_ok h hg hv
  · rw [if_neg hu0]
    by_cases hv0 : (s.size v).natAbs = 0
    · rw [if_pos hv0]
      have : s.mag v = 0 := h.mag_zero hv (by omega)
      rw [this, Nat.gcd_zero_right]
      exact gcdCopy_ok h hg hu
    · rw [if_neg hv0]
      by_cases hu1 : (s.size u).natAbs = 1
      · rw [if_pos hu1, Nat.gcd_comm]
        exact gcdOne_ok h hg hv hu hu1 ha
      · rw [if_neg hu1]
        by_cases hv1 : (s.size v).natAbs = 1
        · rw [if_pos hv1]
          exact gcdOne_ok h hg hu hv hv1 ha
        · rw [if_neg hv1, h.load_var hu]; simp only []
          rw [h.load_var hv]; simp only []
          set G := Nat.gcd (val (s.limbs u)) (val (s.limbs v)) with hG
          obtain ⟨i1, nv1, size1, val1, a1, _⟩ := realloc_spec h hg (sizeNat G)
          obtain ⟨s', e', hres, _⟩ := setInt_spec i1 (v := g) (by rw [nv1]; exact hg) (G : Int) (by simpa using a1)
          exact ⟨s', e', hres.1, hres.2.1.trans nv1, hres.2.2.1, fun i hi hig =>
            (hres.2.2.2 i (by rw [nv1]; exact hi) hig).trans (val1 i hi)⟩

end Mpir.AliasMem
