/- first_block_primesieve, block_resieve and gmp_primesieve as wholes (model Mpir/Model/Sieve.lean). -/
import MpirProofs.Lemmas.SieveLoop
import Mathlib.NumberTheory.PrimeCounting
namespace Mpir.Sieve
open Mpir Mpir.Numth

/-! ## the padding of the last limb and the seeded start array -/

/-- the bits above `bits` in the last limb are set -/
def Pad (a : Array ℕ) (bits : ℕ) : Prop := ∀ b, bits < b → b < 64 * a.size → sieveBit a b = true

theorem padMask_testBit (r k : ℕ) (hk : k < 64) :
    (((B - 1) <<< r) % B).testBit k = decide (r ≤ k) := by
  have hB : B = 2 ^ 64 := rfl
  rw [hB, Nat.testBit_mod_two_pow, Nat.testBit_shiftLeft, Nat.testBit_two_pow_sub_one]
  have : k - r < 64 := by omega
  simp [hk, this]

/-- primesieve.c:123-124 and :271-272 -/
theorem pad_spec (a : Array ℕ) (bits limbs : ℕ) (hlimbs : limbs = bits / 64 + 1) (hsz : a.size = limbs) (hl : LimbsA a) :
    (if (bits + 1) % 64 ≠ 0 then orAt a (limbs - 1) (((B - 1) <<< ((bits + 1) % 64)) % B) else a).size = a.size ∧
    LimbsA (if (bits + 1) % 64 ≠ 0 then orAt a (limbs - 1) (((B - 1) <<< ((bits + 1) % 64)) % B) else a) ∧
    ∀ b, sieveBit (if (bits + 1) % 64 ≠ 0 then orAt a (limbs - 1) (((B - 1) <<< ((bits + 1) % 64)) % B) else a) b =
      (sieveBit a b || decide (bits < b ∧ b < 64 * limbs)) := by
  by_cases hr : (bits + 1) % 64 ≠ 0
  · rw [if_pos hr]
    refine ⟨size_orAt _ _ _, limbs_orAt _ _ _ (Nat.mod_lt _ (by rw [B_eq]; norm_num)) hl, fun b => ?_⟩
    unfold sieveBit
    rw [getD_orAt]
    by_cases h : limbs - 1 = b / 64 ∧ b / 64 < a.size
    · simp only [h, and_self, if_true, Nat.testBit_or, padMask_testBit _ _ (Nat.mod_lt b (by norm_num))]
      congr 1
      have : ((bits + 1) % 64 ≤ b % 64) ↔ (bits < b ∧ b < 64 * limbs) := by omega
      simp only [this]
    · simp only [h, if_false]
      have : ¬ (bits < b ∧ b < 64 * limbs) := by omega
      simp [this]
  · rw [if_neg hr]
    refine ⟨rfl, hl, fun b => ?_⟩
    have : ¬ (bits < b ∧ b < 64 * limbs) := by omega
    simp [this]

/-- MPN_ZERO (bit_array, limbs); bit_array[0] = SIEVE_SEED -/
def seedArr (limbs : ℕ) : Array ℕ := (Array.replicate limbs 0).setIfInBounds 0 SIEVE_SEED

theorem seedArr_getD (limbs j : ℕ) (h : 0 < limbs) : (seedArr limbs).getD j 0 = if j = 0 then SIEVE_SEED else 0 := by
  unfold seedArr
  simp only [Array.getD_eq_getD_getElem?, Array.getElem?_setIfInBounds, Array.size_replicate, Array.getElem?_replicate]
  by_cases hj : j = 0
  · subst hj; simp [h]
  · have : ¬ (0 = j) := fun e => hj e.symm
    simp only [this, if_false, hj]
    split <;> rfl

theorem seedArr_bit (limbs b : ℕ) (h : 0 < limbs) :
    sieveBit (seedArr limbs) b = (decide (b < 64) && SIEVE_SEED.testBit b) := by
  unfold sieveBit
  rw [seedArr_getD _ _ h]
  by_cases hb : b < 64
  · have h1 : b / 64 = 0 := by omega
    have h2 : b % 64 = b := by omega
    simp [h1, h2, hb]
  · have h1 : ¬ (b / 64 = 0) := by omega
    simp [h1, hb]

theorem seedArr_limbs (limbs : ℕ) (h : 0 < limbs) : LimbsA (seedArr limbs) := by
  intro j
  rw [seedArr_getD _ _ h]
  split
  · decide
  · rw [B_eq]; norm_num

theorem seedArr_size (limbs : ℕ) : (seedArr limbs).size = limbs := by
  unfold seedArr; simp

/-- SIEVE_SEED marks exactly the composites among the first 64 numbers coprime to 6; the next two (197, 199) are primes -/
theorem seed_ok : ∀ b < 66, (decide (b < 64) && SIEVE_SEED.testBit b) = !isPrimeTD (bit_to_n b) := by
  decide +kernel

theorem seed_prime (b : ℕ) (hb : b < 66) :
    (decide (b < 64) && SIEVE_SEED.testBit b) = true ↔ ¬ (bit_to_n b).Prime := by
  rw [seed_ok b hb, ← isPrimeTD_iff]
  cases isPrimeTD (bit_to_n b) <;> simp

theorem seed_sound (b : ℕ) (h : (decide (b < 64) && SIEVE_SEED.testBit b) = true) : ¬ (bit_to_n b).Prime := by
  have hb : b < 64 := by
    by_contra hge; simp [hge] at h
  exact (seed_prime b (by omega)).1 h

/-! ## first_block_primesieve -/

/-- Bertrand: beyond SEED_LIMIT there is a prime p ≤ n with p² > n -/
theorem exists_break_prime (n : ℕ) (h : 202 < n) :
    ∃ j0, j0 ≤ nb n ∧ (bit_to_n j0).Prime ∧ n < bit_to_n j0 * bit_to_n j0 := by
  have h1 : n.sqrt * n.sqrt ≤ n := by have := Nat.sqrt_le' n; rwa [sq] at this
  have h2 : n < (n.sqrt + 1) * (n.sqrt + 1) := by have := Nat.lt_succ_sqrt' n; rwa [sq] at this
  have h3 : 14 ≤ n.sqrt := Nat.le_sqrt.2 (by omega)
  obtain ⟨p, hp, hlt, hle⟩ := Nat.exists_prime_lt_and_le_two_mul n.sqrt (by omega)
  have hpn : p ≤ n := by nlinarith
  have hsq : n < p * p := by nlinarith
  have e := bit_to_n_nb p (by omega) (prime_mod6 hp (by omega))
  refine ⟨nb p, ?_, by rw [e]; exact hp, by rw [e]; exact hsq⟩
  rw [le_nb_iff _ _ (by omega), e]; exact hpn

theorem first_block_spec (n : ℕ) (h4 : 4 < n) (hn : n < B) :
    ∃ a, first_block_primesieve n = some a ∧ a.size = nb n / 64 + 1 ∧ LimbsA a ∧ Final a 0 (nb n) ∧ Pad a (nb n) := by
  unfold first_block_primesieve
  rw [n_to_bit_eq_nb n (by omega) hn]
  have hlimbs : 0 < nb n / 64 + 1 := by omega
  obtain ⟨p1, p2, p3⟩ := pad_spec (seedArr (nb n / 64 + 1)) (nb n) (nb n / 64 + 1) rfl (seedArr_size _) (seedArr_limbs _ hlimbs)
  simp only [Nat.add_sub_cancel] at p1 p2 p3 ⊢
  rw [show (Array.replicate (nb n / 64 + 1) 0).setIfInBounds 0 SIEVE_SEED = seedArr (nb n / 64 + 1) from rfl]
  generalize hA : (if (nb n + 1) % 64 ≠ 0 then
      orAt (seedArr (nb n / 64 + 1)) (nb n / 64) (((B - 1) <<< ((nb n + 1) % 64)) % B)
    else seedArr (nb n / 64 + 1)) = A at p1 p2 p3 ⊢
  rw [seedArr_size] at p1
  have hbit : ∀ b, sieveBit A b = ((decide (b < 64) && SIEVE_SEED.testBit b) || decide (nb n < b ∧ b < 64 * (nb n / 64 + 1))) := by
    intro b; rw [p3, seedArr_bit _ _ hlimbs]
  have hpad : Pad A (nb n) := by
    intro b h1 h2
    rw [hbit]; rw [p1] at h2; simp [h1, h2]
  have hsound : Sound A 0 (nb n) := by
    intro b hb hm
    rw [hbit] at hm
    have : ¬ (nb n < b ∧ b < 64 * (nb n / 64 + 1)) := by omega
    simp only [this, decide_false, Bool.or_false] at hm
    simpa using seed_sound b hm
  by_cases hseed : n > SEED_LIMIT
  · simp only [hseed, if_true]
    obtain ⟨j0, hj0, hp0, hsq0⟩ := exists_break_prime n hseed
    have htop : bit_to_n (nb n) < bit_to_n j0 * bit_to_n j0 := by
      have := (le_nb_iff (nb n) n (by omega)).1 (Nat.le_refl _); omega
    have hc0 : Compl A 0 (nb n) (bit_to_n 0) := by
      intro b _ q _ h5 hlt
      have : bit_to_n 0 = 5 := by decide
      omega
    obtain ⟨a', e, s', l', so', fin', pad'⟩ := fbLoop_spec (nb n) j0 hj0 hp0 htop (nb n + 2) 0 A (by omega) (by omega)
      (by omega) p2 hsound hc0
    refine ⟨a', e, by rw [s', p1], l', ⟨so', by simpa using fin'⟩, ?_⟩
    intro b h1 h2
    rw [pad' b h1]
    exact hpad b h1 (by rw [← s']; exact h2)
  · simp only [hseed, if_false]
    refine ⟨A, rfl, p1, p2, ⟨hsound, ?_⟩, hpad⟩
    intro b hb hnp
    have hn202 : n ≤ 202 := by unfold SEED_LIMIT at hseed; omega
    have hb66 : b < 66 := by
      have := nb_mono hn202
      have e : nb 202 = 65 := by decide
      omega
    rw [hbit]
    have := (seed_prime b hb66).2 (by simpa using hnp)
    simp [this]

/-! ## block_resieve -/

theorem block_resieve_spec (limbs off sb : ℕ) (sv : Array ℕ) (hlimbs : 0 < limbs)
    (hsv : ∀ j ≤ sb, (sieveBit sv j = true ↔ ¬ (bit_to_n j).Prime))
    (hH : bit_to_n (limbs * 64 - 1 + off) < bit_to_n (sb + 1) * bit_to_n (sb + 1)) :
    (block_resieve limbs off sv sb).size = limbs ∧ LimbsA (block_resieve limbs off sv sb) ∧
    Final (block_resieve limbs off sv sb) off (limbs * 64 - 1) := by
  unfold block_resieve
  have hz : ∀ j, (Array.replicate limbs 0).getD j 0 = 0 := by
    intro j
    simp only [Array.getD_eq_getD_getElem?, Array.getElem?_replicate]
    split <;> rfl
  have hzb : ∀ b, sieveBit (Array.replicate limbs 0) b = false := by
    intro b; unfold sieveBit; rw [hz]; simp
  have h := brLoop_spec (limbs * 64 - 1) off sb sv hsv hH (sb + 2) 0 (Array.replicate limbs 0) (by omega) (by omega)
    (by rw [Array.size_replicate]; omega) (fun j => by rw [hz, B_eq]; norm_num)
    (fun b _ hm => by rw [hzb] at hm; exact absurd hm (by simp))
    (fun b _ q _ h5 hlt => by have : bit_to_n 0 = 5 := by decide
                              omega)
  simp only [Nat.zero_mod, Nat.zero_div, pow_zero, Array.size_replicate] at h
  exact h


/-! ## gmp_primesieve -/

/-- every bit of the array is right: set ⇔ composite -/
def Exact (a : Array ℕ) : Prop := LimbsA a ∧ ∀ b < 64 * a.size, (sieveBit a b = true ↔ ¬ (bit_to_n b).Prime)

theorem getD_append (a c : Array ℕ) (j : ℕ) :
    (a ++ c).getD j 0 = if j < a.size then a.getD j 0 else c.getD (j - a.size) 0 := by
  simp only [Array.getD_eq_getD_getElem?, Array.getElem?_append]
  split <;> rfl

theorem sieveBit_append (a c : Array ℕ) (b : ℕ) :
    sieveBit (a ++ c) b = if b < 64 * a.size then sieveBit a b else sieveBit c (b - 64 * a.size) := by
  unfold sieveBit
  rw [getD_append]
  by_cases h : b < 64 * a.size
  · have : b / 64 < a.size := by omega
    simp [h, this]
  · have h1 : ¬ b / 64 < a.size := by omega
    have h2 : (b - 64 * a.size) / 64 = b / 64 - a.size := by omega
    have h3 : (b - 64 * a.size) % 64 = b % 64 := by omega
    simp [h, h1, h2, h3]

theorem limbs_append {a c : Array ℕ} (ha : LimbsA a) (hc : LimbsA c) : LimbsA (a ++ c) := by
  intro j; rw [getD_append]
  by_cases h : j < a.size
  · rw [if_pos h]; exact ha j
  · rw [if_neg h]; exact hc _

theorem block_top_bound (off : ℕ) (h : BLOCK_SIZE ≤ off) :
    bit_to_n (BLOCK_SIZE * 64 - 1 + off * 64) < bit_to_n (off * 64 - 1 + 1) * bit_to_n (off * 64 - 1 + 1) := by
  simp only [BLOCK_SIZE] at *
  have e : off * 64 - 1 + 1 = off * 64 := by omega
  rw [e, bit_to_n_eq, bit_to_n_eq]
  have h1 : 393220 ≤ 3 * (off * 64) + 5 - off * 64 % 2 := by omega
  have h2 : 192 * off + 4 ≤ 3 * (off * 64) + 5 - off * 64 % 2 := by omega
  generalize 3 * (off * 64) + 5 - off * 64 % 2 = P at *
  have : P * 393220 ≤ P * P := Nat.mul_le_mul_left P h1
  omega

theorem blocks_spec (size : ℕ) :
    ∀ fuel off (a : Array ℕ), Exact a → a.size = off → 2048 ≤ off → off ≤ size →
      (size - off) % 2048 = 0 → size - off ≤ fuel * 2048 →
      Exact (blocks size fuel off a) ∧ (blocks size fuel off a).size = size := by
  intro fuel
  induction fuel with
  | zero =>
    intro off a ha hsz _ hle _ hf
    simp only [blocks]
    exact ⟨ha, by omega⟩
  | succ f ih =>
    intro off a ha hsz hoff hle hmod hf
    simp only [blocks, BLOCK_SIZE]
    by_cases hlt : off < size
    · simp only [hlt, if_true]
      have hge : off + 2048 ≤ size := by omega
      have hsv : ∀ j ≤ off * 64 - 1, (sieveBit a j = true ↔ ¬ (bit_to_n j).Prime) := by
        intro j hj; exact ha.2 j (by omega)
      obtain ⟨bs, bl, bf⟩ := block_resieve_spec 2048 (off * 64) (off * 64 - 1) a (by decide) hsv (block_top_bound off hoff)
      apply ih
      · refine ⟨limbs_append ha.1 bl, fun b hb => ?_⟩
        rw [Array.size_append, bs] at hb
        rw [sieveBit_append]
        by_cases h : b < 64 * a.size
        · simp only [h, if_true]; exact ha.2 b h
        · simp only [h, if_false]
          have hb' : b - 64 * a.size ≤ 2048 * 64 - 1 := by omega
          have e : b - 64 * a.size + off * 64 = b := by omega
          constructor
          · intro hm; have := bf.1 _ hb' hm; rwa [e] at this
          · intro hnp; exact bf.2 _ hb' (by rwa [e])
      · rw [Array.size_append, bs, hsz]
      · omega
      · exact hge
      · omega
      · have : (f + 1) * 2048 = f * 2048 + 2048 := by ring
        omega
    · simp only [hlt, if_false]
      exact ⟨ha, by omega⟩

/-- gmp_primesieve: structure of the result (the count is treated below) -/
theorem gmp_primesieve_struct (n : ℕ) (h4 : 4 < n) (hn : n < B) :
    ∃ a, gmp_primesieve n = some (a, a.size * 64 - popcountArr a) ∧ a.size = nb n / 64 + 1 ∧ LimbsA a ∧
      (∀ b ≤ nb n, (sieveBit a b = true ↔ ¬ (bit_to_n b).Prime)) ∧ Pad a (nb n) := by
  have hB : BLOCK_SIZE = 2048 := rfl
  -- the array before the final padding
  have hmid : ∃ a0, (if nb n / 64 + 1 > BLOCK_SIZE * 2 then
        (first_block_primesieve (id_to_n ((BLOCK_SIZE + (nb n / 64 + 1) % BLOCK_SIZE) * 64))).map
          (blocks (nb n / 64 + 1) (nb n / 64 + 1) (BLOCK_SIZE + (nb n / 64 + 1) % BLOCK_SIZE))
      else first_block_primesieve n) = some a0 ∧ a0.size = nb n / 64 + 1 ∧ LimbsA a0 ∧
      (∀ b ≤ nb n, (sieveBit a0 b = true ↔ ¬ (bit_to_n b).Prime)) := by
    by_cases hbig : nb n / 64 + 1 > BLOCK_SIZE * 2
    · simp only [hbig, if_true]
      set size := nb n / 64 + 1 with hsize
      set off := BLOCK_SIZE + size % BLOCK_SIZE with hoff
      have hofflt : off < size := by rw [hB] at *; omega
      have hn' : id_to_n (off * 64) = bit_to_n (off * 64 - 1) := by
        rw [bit_to_n_eq_id]; congr 1; rw [hB] at hoff; omega
      have hnb' : nb (id_to_n (off * 64)) = off * 64 - 1 := by rw [hn', nb_bit_to_n]
      have hle' : id_to_n (off * 64) ≤ n := by
        rw [hn', ← le_nb_iff _ _ (by omega)]; rw [hB] at *; omega
      obtain ⟨a1, e1, s1, l1, f1, _⟩ := first_block_spec (id_to_n (off * 64)) (by rw [hn']; have := bit_to_n_ge (off * 64 - 1); omega) (by omega)
      rw [hnb'] at s1 f1
      have s1' : a1.size = off := by rw [s1]; rw [hB] at hoff; omega
      have hex : Exact a1 := by
        refine ⟨l1, fun b hb => ?_⟩
        have hb' : b ≤ off * 64 - 1 := by rw [s1'] at hb; omega
        constructor
        · intro hm; simpa using f1.1 b hb' hm
        · intro hnp; exact f1.2 b hb' (by simpa using hnp)
      obtain ⟨bx, bsz⟩ := blocks_spec size size off a1 hex s1' (by rw [hB] at *; omega) (by omega)
        (by rw [hB] at *; omega) (by rw [hB] at *; omega)
      refine ⟨blocks size size off a1, by rw [e1]; rfl, bsz, bx.1, fun b hb => ?_⟩
      exact bx.2 b (by rw [bsz]; omega)
    · simp only [hbig, if_false]
      obtain ⟨a1, e1, s1, l1, f1, _⟩ := first_block_spec n h4 hn
      refine ⟨a1, e1, s1, l1, fun b hb => ?_⟩
      constructor
      · intro hm; simpa using f1.1 b hb hm
      · intro hnp; exact f1.2 b hb (by simpa using hnp)
  obtain ⟨a0, e0, s0, l0, c0⟩ := hmid
  unfold gmp_primesieve
  rw [n_to_bit_eq_nb n (by omega) hn]
  simp only [e0, Option.map_some]
  obtain ⟨p1, p2, p3⟩ := pad_spec a0 (nb n) (nb n / 64 + 1) rfl s0 l0
  generalize (if (nb n + 1) % 64 ≠ 0 then
      orAt a0 (nb n / 64 + 1 - 1) (((B - 1) <<< ((nb n + 1) % 64)) % B) else a0) = A at p1 p2 p3 ⊢
  refine ⟨A, by rw [p1, s0], by rw [p1, s0], p2, fun b hb => ?_, fun b h1 h2 => ?_⟩
  · rw [p3]
    have : ¬ (nb n < b ∧ b < 64 * (nb n / 64 + 1)) := by omega
    simp only [this, decide_false, Bool.or_false]
    exact c0 b hb
  · rw [p3]; rw [p1, s0] at h2; simp [h1, h2]


/-! ## the returned count: size·64 − popcount = π(n) − 2 -/

theorem count_congr_lt (p q : ℕ → Prop) [DecidablePred p] [DecidablePred q] :
    ∀ n, (∀ k < n, p k ↔ q k) → Nat.count p n = Nat.count q n := by
  intro n
  induction n with
  | zero => intro _; rfl
  | succ m ih =>
    intro h
    rw [Nat.count_succ, Nat.count_succ, ih (fun k hk => h k (by omega))]
    have := h m (by omega)
    by_cases hp : p m
    · simp [hp, this.1 hp]
    · have hq : ¬ q m := fun hq => hp (this.2 hq)
      simp [hp, hq]

theorem count_add_count_not (p : ℕ → Prop) [DecidablePred p] :
    ∀ n, Nat.count p n + Nat.count (fun k => ¬ p k) n = n := by
  intro n
  induction n with
  | zero => rfl
  | succ m ih =>
    rw [Nat.count_succ, Nat.count_succ]
    by_cases hp : p m <;> simp [hp] <;> omega

theorem count_false (n : ℕ) : Nat.count (fun _ => False) n = 0 := by
  induction n with
  | zero => rfl
  | succ m ih => rw [Nat.count_succ, ih]; simp

theorem popc_zero (f : ℕ) : popc f 0 = 0 := by cases f <;> simp [popc]

theorem popc_eq_count : ∀ f x, x < 2 ^ f → popc f x = Nat.count (fun k => x.testBit k = true) f := by
  intro f
  induction f with
  | zero => intro x _; rfl
  | succ f ih =>
    intro x hx
    rw [Nat.count_succ']
    have h2 : x / 2 < 2 ^ f := by rw [Nat.pow_succ] at hx; omega
    have e : Nat.count (fun k => x.testBit (k + 1) = true) f = popc f (x / 2) := by
      rw [ih (x / 2) h2]
      exact count_congr_lt _ _ f (fun k _ => by rw [Nat.testBit_succ])
    rw [e, Nat.testBit_zero]
    simp only [popc]
    by_cases h0 : x = 0
    · subst h0; simp [popc_zero]
    · simp only [h0, if_false, decide_eq_true_eq]
      have : x % 2 = 0 ∨ x % 2 = 1 := by omega
      rcases this with h | h
      · simp [h]
      · simp [h]; omega

def bitOfL (l : List ℕ) (b : ℕ) : Bool := (l.getD (b / 64) 0).testBit (b % 64)

theorem sum_popcount_eq_count : ∀ l : List ℕ, (∀ x ∈ l, x < B) →
    (l.map popcount).sum = Nat.count (fun b => bitOfL l b = true) (64 * l.length) := by
  intro l
  induction l with
  | nil => intro _; rfl
  | cons x xs ih =>
    intro h
    have e : 64 * (x :: xs).length = 64 + 64 * xs.length := by simp; ring
    rw [e, Nat.count_add, List.map_cons, List.sum_cons, ih (fun y hy => h y (List.mem_cons_of_mem _ hy))]
    congr 1
    · unfold popcount
      rw [popc_eq_count 64 x (h x (by simp))]
      apply count_congr_lt
      intro k hk
      have h1 : k / 64 = 0 := by omega
      have h2 : k % 64 = k := by omega
      simp [bitOfL, h1, h2]
    · apply count_congr_lt
      intro k _
      have h1 : (64 + k) / 64 = k / 64 + 1 := by omega
      have h2 : (64 + k) % 64 = k % 64 := by omega
      simp [bitOfL, h1, h2]

theorem foldl_popcount (l : List ℕ) : ∀ s0, l.foldl (fun s x => s + popcount x) s0 = s0 + (l.map popcount).sum := by
  induction l with
  | nil => intro s0; simp
  | cons x xs ih => intro s0; simp [ih]; omega

theorem sieveBit_eq_bitOfL (a : Array ℕ) (b : ℕ) : sieveBit a b = bitOfL a.toList b := by
  unfold sieveBit bitOfL
  simp [Array.getD_eq_getD_getElem?, List.getD_eq_getElem?_getD]

theorem popcountArr_eq (a : Array ℕ) (hl : LimbsA a) :
    popcountArr a = Nat.count (fun b => sieveBit a b = true) (64 * a.size) := by
  unfold popcountArr
  rw [← Array.foldl_toList, foldl_popcount, Nat.zero_add, sum_popcount_eq_count]
  · simp only [sieveBit_eq_bitOfL, Array.length_toList]
  · intro x hx
    obtain ⟨i, hi, rfl⟩ := List.getElem_of_mem hx
    have := hl i
    simp only [Array.getD_eq_getD_getElem?] at this
    rw [Array.length_toList] at hi
    simpa [hi] using this

/-- the primes among the sieve's numbers up to n, plus 2 and 3, are the primes up to n -/
theorem count_sieve_primes (n : ℕ) (h5 : 5 ≤ n) :
    Nat.count (fun b => (bit_to_n b).Prime) (nb n + 1) + 2 = Nat.primeCounting n := by
  induction n, h5 using Nat.le_induction with
  | base =>
    have e : nb 5 = 0 := by decide
    rw [e]
    show _ = Nat.count Nat.Prime 6
    simp only [Nat.count_succ, Nat.count_zero]
    have : bit_to_n 0 = 5 := by decide
    rw [this]
    norm_num
  | succ n hn ih =>
    show _ = Nat.count Nat.Prime (n + 1 + 1)
    have hR : Nat.count Nat.Prime (n + 1 + 1) = Nat.count Nat.Prime (n + 1) + if (n + 1).Prime then 1 else 0 :=
      Nat.count_succ _ _
    have ih' : Nat.count (fun b => (bit_to_n b).Prime) (nb n + 1) + 2 = Nat.count Nat.Prime (n + 1) := ih
    by_cases h6 : (n + 1) % 6 = 1 ∨ (n + 1) % 6 = 5
    · have e1 : nb (n + 1) = nb n + 1 := by rw [nb_eq, nb_eq]; omega
      have e2 := bit_to_n_nb (n + 1) (by omega) h6
      rw [e1] at e2
      have hL : Nat.count (fun b => (bit_to_n b).Prime) (nb n + 1 + 1) =
          Nat.count (fun b => (bit_to_n b).Prime) (nb n + 1) + if (bit_to_n (nb n + 1)).Prime then 1 else 0 :=
        Nat.count_succ _ _
      rw [e1, hL, e2, hR]
      omega
    · have e1 : nb (n + 1) = nb n := by rw [nb_eq, nb_eq]; omega
      have hnp : ¬ (n + 1).Prime := fun hp => h6 (prime_mod6 hp (by omega))
      rw [e1, hR, if_neg hnp]
      omega

theorem sieve_count (a : Array ℕ) (n : ℕ) (h5 : 5 ≤ n) (hsz : a.size = nb n / 64 + 1) (hl : LimbsA a)
    (hbits : ∀ b ≤ nb n, (sieveBit a b = true ↔ ¬ (bit_to_n b).Prime)) (hpad : Pad a (nb n)) :
    a.size * 64 - popcountArr a = Nat.primeCounting n - 2 := by
  rw [popcountArr_eq a hl, ← count_sieve_primes n h5]
  have hsum := count_add_count_not (fun b => sieveBit a b = true) (64 * a.size)
  have hsplit : 64 * a.size = (nb n + 1) + (64 * a.size - (nb n + 1)) := by omega
  have hz : Nat.count (fun b => ¬ sieveBit a b = true) (64 * a.size) = Nat.count (fun b => (bit_to_n b).Prime) (nb n + 1) := by
    rw [hsplit, Nat.count_add]
    have t : Nat.count (fun k => ¬ sieveBit a (nb n + 1 + k) = true) (64 * a.size - (nb n + 1)) = 0 := by
      rw [← count_false (64 * a.size - (nb n + 1))]
      apply count_congr_lt
      intro k hk
      have := hpad (nb n + 1 + k) (by omega) (by omega)
      simp [this]
    rw [t, Nat.add_zero]
    apply count_congr_lt
    intro k hk
    have := hbits k (by omega)
    rw [this]
    exact Decidable.not_not
  omega

end Mpir.Sieve
