/- Value identities and well-formedness of the list-level results `Spec.com`, `Spec.tdiv_q_2exp`
   (Mpir/Model/AllocSafeMpz.lean) — what the two `_partial` theorems of C04_allocsafe.lean were missing. -/
import Mpir.Model.AllocSafeMpz
import MpirProofs.Lemmas.Mpz
import MpirProofs.Lemmas.Kernels
import Mathlib.Tactic.Ring
import Mathlib.Tactic.Linarith
namespace Mpir.AllocSafe
open Mpir
open Mpir.Mpz (sgn Norm natAbs_sgn WF toInt mk_spec grow_alloc WF_iff)

theorem Spec.com_spec (w u : Mpz.Mpz) (hu : WF u) :
    WF (Spec.com w u) ∧ toInt (Spec.com w u) = -toInt u - 1 := by
  obtain ⟨_, _, hul, hun⟩ := (WF_iff u).mp hu
  rw [Mpz.toInt_eq u]
  unfold Spec.com
  dsimp only
  by_cases hpos : u.size ≥ 0
  · rw [if_pos hpos]
    obtain ⟨ga1, ga2⟩ := grow_alloc w (u.size.natAbs + 1)
    have hns : ¬ u.size < 0 := by omega
    by_cases h0 : (u.size.natAbs == 0) = true
    · rw [if_pos h0]
      have h0' : u.size = 0 := by simpa using h0
      have hd : u.d = [] := List.length_eq_zero_iff.mp (by rw [hul, h0']; rfl)
      obtain ⟨wf, ti⟩ := mk_spec (Mpz.grow w (u.size.natAbs + 1)).alloc 1 true [1] rfl
        ⟨Limbs_cons.mpr ⟨by unfold B; omega, Limbs_nil⟩, by simp⟩ (by omega) (by omega)
      refine ⟨wf, ?_⟩
      rw [ti, hd]; simp [Mpz.sval, h0']
    · rw [if_neg h0]
      have hn0 : u.size.natAbs ≠ 0 := by simpa using h0
      have hne : u.d ≠ [] := by intro h; rw [h] at hul; simp at hul; omega
      obtain ⟨av, ac, al, an⟩ := Mpz.K.add_1_val u.d 1 hun.1 (by unfold B; omega) hne
      have hlow := hun.lower hne
      rw [hul] at av an hlow
      by_cases hcy : (Mpir.add_1 u.d 1).2 = 0
      · have hcy' : ((Mpir.add_1 u.d 1).2 != 0) = false := by simp [hcy]
        rw [hcy'] ; simp only [Bool.false_eq_true, if_false]
        rw [hcy] at av
        obtain ⟨wf, ti⟩ := mk_spec (Mpz.grow w (u.size.natAbs + 1)).alloc u.size.natAbs true _ an
          (Norm.of_lower al (Or.inr (by rw [an]; omega))) (by omega) (by omega)
        refine ⟨wf, ?_⟩
        rw [ti]; simp only [Mpz.sval, hns, if_false, if_true]; omega
      · have hcy' : ((Mpir.add_1 u.d 1).2 != 0) = true := by simp [hcy]
        rw [hcy']; simp only [if_true]
        have h1 : (Mpir.add_1 u.d 1).2 = 1 := by omega
        rw [h1] at av ⊢
        obtain ⟨wf, ti⟩ := mk_spec (Mpz.grow w (u.size.natAbs + 1)).alloc (u.size.natAbs + 1) true
          ((Mpir.add_1 u.d 1).1 ++ [1]) (by simp [an])
          ⟨Limbs_append.mpr ⟨al, Limbs_cons.mpr ⟨by unfold B; omega, Limbs_nil⟩⟩, by simp⟩ (by omega) (by omega)
        refine ⟨wf, ?_⟩
        have key : val ((Mpir.add_1 u.d 1).1 ++ [1]) = val u.d + 1 := by
          rw [val_append, an]; simp only [val_cons, val_nil]; omega
        rw [ti, key]; simp only [Mpz.sval, hns, if_false, if_true]
        omega
  · rw [if_neg hpos]
    have hs : u.size < 0 := by omega
    obtain ⟨ga1, ga2⟩ := grow_alloc w u.size.natAbs
    have hne : u.d ≠ [] := by intro h; rw [h] at hul; simp at hul; omega
    obtain ⟨tv, tl, tn⟩ := Mpz.sub_1_strip u.d 1 hun hne (by unfold B; omega) (hun.pos hne)
    rw [hul] at tv tl tn
    obtain ⟨wf, ti⟩ := mk_spec (Mpz.grow w u.size.natAbs).alloc _ false _ tl tn
      (by split_ifs <;> omega) (by omega)
    refine ⟨wf, ?_⟩
    rw [ti]; simp only [Mpz.sval, hs, if_true, Bool.false_eq_true, if_false]; omega

theorem val_drop_div (d : List Nat) (k : Nat) (hd : Limbs d) (hk : k ≤ d.length) :
    val (d.drop k) = val d / B ^ k := by
  have h := val_take_drop d k hk
  have hlt : val (d.take k) < B ^ k := by
    have := val_lt (d.take k) (Limbs_take hd k)
    rwa [List.length_take, Nat.min_eq_left hk] at this
  rw [h, Nat.add_mul_div_left _ _ (pow_pos B_pos k), Nat.div_eq_of_lt hlt]
  simp

theorem Norm_drop {d : List Nat} (hd : Norm d) (k : Nat) (hk : k < d.length) : Norm (d.drop k) := by
  refine ⟨Limbs_drop hd.1 k, ?_⟩
  rw [List.getLast?_drop]
  have : ¬ d.length ≤ k := by omega
  simp only [this, if_false]; exact hd.2

theorem sval_tdiv (s : Int) (a b q : Nat) (h : q = a / b) :
    (if s < 0 then -(q : Int) else (q : Int)) = Int.tdiv (if s < 0 then -(a : Int) else (a : Int)) (b : Int) := by
  subst h
  split
  · rw [Int.neg_tdiv]; congr 1
  · rfl

theorem Spec.tdiv_q_2exp_spec (w u : Mpz.Mpz) (cnt : Nat) (hw : 1 ≤ w.alloc) (hu : WF u) :
    WF (Spec.tdiv_q_2exp w u cnt) ∧ toInt (Spec.tdiv_q_2exp w u cnt) = Int.tdiv (toInt u) (2 ^ cnt) := by
  obtain ⟨_, _, hul, hun⟩ := (WF_iff u).mp hu
  have hcnt : (2 : Nat) ^ cnt = B ^ (cnt / 64) * 2 ^ (cnt % 64) := by
    rw [Mpz.B_pow, ← pow_add]; congr 1; omega
  have hpow : ((2 : Int) ^ cnt) = (((2 : Nat) ^ cnt : Nat) : Int) := by push_cast; rfl
  rw [Mpz.toInt_eq u, hpow]
  unfold Spec.tdiv_q_2exp
  dsimp only
  by_cases hle : u.size.natAbs ≤ cnt / 64
  · rw [if_pos hle]
    refine ⟨(Mpz.WF_zero w hw).1, ?_⟩
    have hlt : val u.d < 2 ^ cnt := by
      have h1 := hun.upper
      rw [hul] at h1
      have h2 : B ^ u.size.natAbs ≤ B ^ (cnt / 64) := Nat.pow_le_pow_right B_pos hle
      have h3 : 1 ≤ 2 ^ (cnt % 64) := Nat.one_le_two_pow
      calc val u.d < B ^ (cnt / 64) := by omega
        _ = B ^ (cnt / 64) * 1 := by ring
        _ ≤ B ^ (cnt / 64) * 2 ^ (cnt % 64) := Nat.mul_le_mul_left _ h3
        _ = 2 ^ cnt := hcnt.symm
    have := sval_tdiv u.size (val u.d) (2 ^ cnt) 0 (by rw [Nat.div_eq_of_lt hlt])
    unfold Mpz.sval
    rw [← this]; simp [toInt]
  · rw [if_neg hle]
    obtain ⟨ga1, ga2⟩ := grow_alloc w (u.size.natAbs - cnt / 64)
    have hk : cnt / 64 < u.d.length := by omega
    have hND := Norm_drop hun (cnt / 64) hk
    have hdl : (u.d.drop (cnt / 64)).length = u.size.natAbs - cnt / 64 := by simp; omega
    have hvd := val_drop_div u.d (cnt / 64) hun.1 (by omega)
    have hne : u.d.drop (cnt / 64) ≠ [] := by intro h; rw [h] at hdl; simp at hdl; omega
    by_cases h0 : cnt % 64 = 0
    · have h0' : (cnt % 64 != 0) = false := by simp [h0]
      rw [h0']; simp only [Bool.false_eq_true, if_false]
      obtain ⟨wf, ti⟩ := mk_spec (Mpz.grow w (u.size.natAbs - cnt / 64)).alloc _ (decide (u.size < 0)) _ hdl hND
        (by omega) (by omega)
      refine ⟨wf, ?_⟩
      rw [ti]
      have := sval_tdiv u.size (val u.d) (2 ^ cnt) (val (u.d.drop (cnt / 64)))
        (by rw [hvd, hcnt, h0]; simp)
      unfold Mpz.sval; rw [← this]; simp
    · have h0' : (cnt % 64 != 0) = true := by simp [h0]
      rw [h0']; simp only [if_true]
      have hc : cnt % 64 < 64 := Nat.mod_lt _ (by omega)
      obtain ⟨x, xs, hxs⟩ : ∃ x xs, u.d.drop (cnt / 64) = x :: xs := by
        cases h : u.d.drop (cnt / 64) with
        | nil => exact absurd h hne
        | cons x xs => exact ⟨x, xs, rfl⟩
      obtain ⟨_, _, rl, rn, rv, _⟩ := Mpir.rshift_val' x xs (cnt % 64) (by rw [← hxs]; exact hND.1) (by omega) (by omega)
      rw [← hxs] at rl rn rv
      rw [hdl] at rn
      have hlow := hND.lower hne
      rw [hdl] at hlow
      obtain ⟨tv, tl, tn⟩ := Mpz.strip_top _ (u.size.natAbs - cnt / 64) rn rl (by
        by_cases h2 : u.size.natAbs - cnt / 64 ≤ 1
        · left; exact h2
        · right
          rw [rv, Nat.le_div_iff_mul_le (by positivity)]
          have e : B ^ (u.size.natAbs - cnt / 64 - 1) = B ^ (u.size.natAbs - cnt / 64 - 2) * B := by
            rw [← pow_succ]; congr 1; omega
          have h2c : 2 ^ (cnt % 64) ≤ B := by
            unfold B; exact Nat.pow_le_pow_right (by omega) (by omega)
          calc B ^ (u.size.natAbs - cnt / 64 - 2) * 2 ^ (cnt % 64)
              ≤ B ^ (u.size.natAbs - cnt / 64 - 2) * B := Nat.mul_le_mul_left _ h2c
            _ = B ^ (u.size.natAbs - cnt / 64 - 1) := e.symm
            _ ≤ _ := hlow)
      obtain ⟨wf, ti⟩ := mk_spec (Mpz.grow w (u.size.natAbs - cnt / 64)).alloc _ (decide (u.size < 0)) _ tl tn
        (by split_ifs <;> omega) (by omega)
      refine ⟨wf, ?_⟩
      rw [ti, tv, rv, hvd]
      have := sval_tdiv u.size (val u.d) (2 ^ cnt) (val u.d / B ^ (cnt / 64) / 2 ^ (cnt % 64))
        (by rw [hcnt, Nat.div_div_eq_div_mul])
      unfold Mpz.sval; rw [← this]; simp

end Mpir.AllocSafe
