/- C20, stream I/O: lemmas for Props/C20_io.lean (model: Mpir/Model/CxxIo.lean). -/
import MpirProofs.Lemmas.Printf
import Mpir.Model.CxxIo
namespace Mpir.CxxIo
open Mpir.Printf

/-! ### streams -/

/-- a stream that ran into the end of its input -/
def mkE (d : List Char) (f : Fmt) : IStream := { rest := [], done := d, eof := true, fail := true, fmt := f }

@[simp] theorem get_mkG_cons (x : Char) (r d : List Char) (f : Fmt) (c : Char) :
    (mkG (x :: r) d f).get c = (mkG r (x :: d) f, x) := rfl
@[simp] theorem get_mkG_nil (d : List Char) (f : Fmt) (c : Char) : (mkG [] d f).get c = (mkE d f, c) := rfl
@[simp] theorem get_mkE (d : List Char) (f : Fmt) (c : Char) : (mkE d f).get c = (mkE d f, c) := rfl
@[simp] theorem good_mkG (r d : List Char) (f : Fmt) : (mkG r d f).good = true := rfl
@[simp] theorem good_mkE (d : List Char) (f : Fmt) : (mkE d f).good = false := rfl
@[simp] theorem failed_mkG (r d : List Char) (f : Fmt) : (mkG r d f).failed = false := rfl
@[simp] theorem failed_mkE (d : List Char) (f : Fmt) : (mkE d f).failed = true := rfl
@[simp] theorem eof_mkE (d : List Char) (f : Fmt) : (mkE d f).eof = true := rfl
@[simp] theorem fmt_mkG (r d : List Char) (f : Fmt) : (mkG r d f).fmt = f := rfl
@[simp] theorem fmt_mkE (d : List Char) (f : Fmt) : (mkE d f).fmt = f := rfl
@[simp] theorem rest_mkG (r d : List Char) (f : Fmt) : (mkG r d f).rest = r := rfl
@[simp] theorem rest_mkE (d : List Char) (f : Fmt) : (mkE d f).rest = [] := rfl
@[simp] theorem putback_mkG (c : Char) (r d : List Char) (f : Fmt) : (mkG r (c :: d) f).putback c = mkG (c :: r) d f := by
  simp [IStream.putback, mkG]
@[simp] theorem clear_mkE (d : List Char) (f : Fmt) : (mkE d f).clear = mkG [] d f := rfl

theorem finish_mkG (c : Char) (r d : List Char) (f : Fmt) (a : Bool) : finish (mkG r (c :: d) f) c a = mkG (c :: r) d f := by
  simp [finish]
theorem finish_mkE (c : Char) (d : List Char) (f : Fmt) (a : Bool) :
    finish (mkE d f) c a = if a then mkG [] d f else mkE d f := by
  cases a <;> simp [finish]

/-! ### the digit loop -/

/-- the loop on a good stream whose last character read is `c`: it collects the longest run of digits of `c :: r`;
    either a further character `x` stops it (and has been read), or the input ends (`c'` is the stale last digit) -/
theorem digitsLoop_spec (test : Char → Bool) (f : Fmt) : ∀ (r : List Char) (n : Nat) (s : List Char) (c : Char) (d : List Char) (ok : Bool),
    r.length + 1 ≤ n →
    (∃ x tl, (c :: r).dropWhile test = x :: tl ∧
      digitsLoop test n s (mkG r (c :: d) f) c ok =
        (s ++ (c :: r).takeWhile test, mkG tl (x :: (((c :: r).takeWhile test).reverse ++ d)) f, x,
         ok || !((c :: r).takeWhile test).isEmpty)) ∨
    ((c :: r).dropWhile test = [] ∧ ∃ c', test c' = true ∧
      digitsLoop test n s (mkG r (c :: d) f) c ok = (s ++ (c :: r).takeWhile test, mkE (((c :: r).takeWhile test).reverse ++ d) f, c', true)) := by
  intro r
  induction r with
  | nil =>
    intro n s c d ok hn
    obtain ⟨m, rfl⟩ : ∃ m, n = m + 1 := ⟨n - 1, by simp at hn; omega⟩
    by_cases hc : test c = true
    · right
      refine ⟨by simp [hc], c, hc, ?_⟩
      simp [digitsLoop, hc]
    · left
      refine ⟨c, [], by simp [hc], ?_⟩
      simp [digitsLoop, hc]
  | cons y r ih =>
    intro n s c d ok hn
    obtain ⟨m, rfl⟩ : ∃ m, n = m + 1 := ⟨n - 1, by simp at hn; omega⟩
    by_cases hc : test c = true
    · have hm : r.length + 1 ≤ m := by simp at hn; omega
      rcases ih m (s ++ [c]) y (c :: d) true hm with ⟨x, tl, h1, h2⟩ | ⟨h1, c', hc', h2⟩
      · left
        refine ⟨x, tl, by simp [hc, h1], ?_⟩
        simp only [digitsLoop, hc, if_true, get_mkG_cons, failed_mkG, Bool.false_eq_true, if_false, h2]
        simp [hc]
      · right
        refine ⟨by simp [hc, h1], c', hc', ?_⟩
        simp only [digitsLoop, hc, if_true, get_mkG_cons, failed_mkG, Bool.false_eq_true, if_false, h2]
        simp [hc]
    · left
      refine ⟨c, y :: r, by simp [hc], ?_⟩
      simp [digitsLoop, hc]

/-- the loop on a stream at the end of its input with a stale character that is no digit -/
theorem digitsLoop_mkE (test : Char → Bool) (f : Fmt) (n : Nat) (s : List Char) (c : Char) (d : List Char) (ok : Bool)
    (hc : test c = false) : digitsLoop test n s (mkE d f) c ok = (s, mkE d f, c, ok) := by
  cases n <;> simp [digitsLoop, hc]

/-! ### character classes -/

theorem char_le_iff (a b : Char) : a ≤ b ↔ a.toNat ≤ b.toNat := by
  rw [Char.le_def, UInt32.le_iff_toNat_le]; rfl
theorem char_eq_iff (a b : Char) : a = b ↔ a.toNat = b.toNat := by
  constructor
  · intro h; rw [h]
  · intro h; apply Char.ext; apply UInt32.toNat_inj.mp; exact h

theorem digitTest10_iff (c : Char) : digitTest 10 c = true ↔ 48 ≤ c.toNat ∧ c.toNat ≤ 57 := by
  simp [digitTest, isdigit, char_le_iff]
theorem digitTest8_iff (c : Char) : digitTest 8 c = true ↔ 48 ≤ c.toNat ∧ c.toNat ≤ 55 := by
  simp [digitTest, isdigit, char_le_iff, char_eq_iff]; omega
theorem digitTest16_iff (c : Char) : digitTest 16 c = true ↔
    (48 ≤ c.toNat ∧ c.toNat ≤ 57) ∨ (97 ≤ c.toNat ∧ c.toNat ≤ 102) ∨ (65 ≤ c.toNat ∧ c.toNat ≤ 70) := by
  simp [digitTest, isxdigit, isdigit, char_le_iff]; omega
theorem digitValue_eq (c : Char) : Scanf.digitValue c =
    if 48 ≤ c.toNat ∧ c.toNat ≤ 57 then c.toNat - 48 else if 97 ≤ c.toNat ∧ c.toNat ≤ 122 then c.toNat - 97 + 10
    else if 65 ≤ c.toNat ∧ c.toNat ≤ 90 then c.toNat - 65 + 10 else 255 := by
  simp [Scanf.digitValue, char_le_iff]

theorem digitTest_value (b : Nat) (hb : b = 8 ∨ b = 10 ∨ b = 16) (c : Char) (h : digitTest b c = true) :
    Scanf.digitValue c < b := by
  rw [digitValue_eq]
  rcases hb with rfl | rfl | rfl
  · rw [digitTest8_iff] at h; split_ifs <;> omega
  · rw [digitTest10_iff] at h; split_ifs <;> omega
  · rw [digitTest16_iff] at h; split_ifs <;> omega

/-- a character that is no hex digit is a digit in no base -/
theorem digitTest_of_not_xdigit (b : Nat) (c : Char) (h : isxdigit c = false) : digitTest b c = false := by
  unfold isxdigit at h
  simp only [Bool.or_eq_false_iff] at h
  obtain ⟨⟨h1, h2⟩, h3⟩ := h
  unfold digitTest isxdigit
  split_ifs <;> simp [h1, h2, h3]

/-! ### mpz_set_str on what the scanner collected -/

theorem setStr_digits (b : Nat) (hb : b = 8 ∨ b = 10 ∨ b = 16) (neg : Bool) (ds : List Char) (hne : ds ≠ [])
    (hall : ∀ c ∈ ds, digitTest b c = true) :
    Scanf.setStr ((if neg then ['-'] else []) ++ ds) b =
      some (if neg then -(digitsVal b ds : Int) else (digitsVal b ds : Int)) := by
  have hb0 : b ≠ 0 := by rcases hb with rfl | rfl | rfl <;> decide
  have hv : ∀ c ∈ ds, Scanf.digitValue c < b := fun c hc => digitTest_value b hb c (hall c hc)
  cases ds with
  | nil => exact absurd rfl hne
  | cons a t =>
    have ha : a ≠ '-' := by
      intro h
      have := hv a List.mem_cons_self
      rw [h] at this
      have e : Scanf.digitValue '-' = 255 := by decide
      rw [e] at this
      rcases hb with rfl | rfl | rfl <;> omega
    have hda : Scanf.digitValue a < b := hv a List.mem_cons_self
    have hallb : (a :: t).all (fun c => decide (Scanf.digitValue c < b)) = true := by
      simp only [List.all_eq_true, decide_eq_true_eq]; exact hv
    cases neg with
    | true =>
      simp only [if_true, Scanf.setStr, List.cons_append, List.nil_append, List.head?_cons, decide_true, List.tail_cons, hb0, if_false]
      simp only [show ¬ Scanf.digitValue a ≥ b by omega, if_false, hallb, if_true, digitsVal]
    | false =>
      simp only [Bool.false_eq_true, if_false, Scanf.setStr, List.nil_append, List.head?_cons, Option.some.injEq, ha, decide_false, hb0]
      simp only [show ¬ Scanf.digitValue a ≥ b by omega, if_false, hallb, if_true, digitsVal]

/-! ### the specification side -/

theorem after_cons (f : Fmt) (d u : List Char) (x : Char) (n : Nat) (e fl : Bool) :
    after f d (x :: u) (n + 1) e fl = after f (x :: d) u n e fl := by
  simp [after]

theorem after_zero (f : Fmt) (d u : List Char) : after f d u 0 false false = mkG u d f := by
  simp [after, mkG]

theorem after_all (f : Fmt) (d u : List Char) : after f d u u.length true true = mkE (u.reverse ++ d) f := by
  simp [after, mkE]

theorem digitsPart_pre (b : Nat) (neg : Bool) (pre : Nat) (zero : Bool) (t : List Char) :
    digitsPart b neg pre zero t =
      { digitsPart b neg 0 zero t with n := pre + (digitsPart b neg 0 zero t).n } := by
  unfold digitsPart
  simp only
  split_ifs <;> simp

/-- where a scanning stage starts: a good stream whose last character read is `c` (the text from there on is `u`, its
    first character `c`), or a stream at the end of its input with a stale `c` satisfying `P` -/
def Cursor (P : Char → Prop) (f : Fmt) (d u : List Char) (i : IStream) (c : Char) : Prop :=
  (∃ r, u = c :: r ∧ i = mkG r (c :: d) f) ∨ (u = [] ∧ i = mkE d f ∧ P c)

theorem drop_takeWhile_length (p : Char → Bool) (l : List Char) : l.drop (l.takeWhile p).length = l.dropWhile p := by
  induction l with
  | nil => rfl
  | cons a t ih => by_cases h : p a = true <;> simp [h, ih]

theorem take_takeWhile_length (p : Char → Bool) (l : List Char) : l.take (l.takeWhile p).length = l.takeWhile p := by
  induction l with
  | nil => rfl
  | cons a t ih => by_cases h : p a = true <;> simp [h, ih]

theorem mem_takeWhile_imp' (p : Char → Bool) : ∀ (l : List Char) (x : Char), x ∈ l.takeWhile p → p x = true := by
  intro l
  induction l with
  | nil => intro x h; simp at h
  | cons a t ih =>
    intro x h
    by_cases ha : p a = true
    · simp only [List.takeWhile_cons, ha, if_true, List.mem_cons] at h
      rcases h with rfl | h
      · exact ha
      · exact ih x h
    · simp [ha] at h

theorem length_takeWhile_le' (p : Char → Bool) (l : List Char) : (l.takeWhile p).length ≤ l.length := by
  induction l with
  | nil => simp
  | cons a t ih => by_cases h : p a = true <;> simp [h]; omega

theorem takeWhile_all (p : Char → Bool) (l : List Char) (h : l.dropWhile p = []) : l.takeWhile p = l := by
  have := List.takeWhile_append_dropWhile (p := p) (l := l)
  rw [h, List.append_nil] at this; exact this

/-- ismpznw.cc:212-224 with the results of `__gmp_istream_set_base` given -/
def digitsRun (s : List Char) (i : IStream) (c : Char) (b : Nat) (zero : Bool) : IStream × Val :=
  let r := setDigits s i c false b
  let i4 := finish r.2.1 r.2.2.1 (r.2.2.2 || zero)
  if r.2.2.2 then (i4, Val.ofOpt (Scanf.setStr r.1 b))
  else if zero then (i4, Val.value 0) else (i4.setFail, Val.unchanged)

/-- the digits stage (`__gmp_istream_set_digits`, the putback / clear, the conversion) against `digitsPart` -/
theorem digits_stage (f : Fmt) (b : Nat) (hb : b = 8 ∨ b = 10 ∨ b = 16) (neg zero : Bool) (d u : List Char) (i : IStream) (c : Char)
    (h : Cursor (fun c => isxdigit c = false) f d u i c) :
    digitsRun (if neg then ['-'] else []) i c b zero =
    (after f d u (digitsPart b neg 0 zero u).n (digitsPart b neg 0 zero u).eof (digitsPart b neg 0 zero u).fail,
     (digitsPart b neg 0 zero u).val) := by
  unfold digitsRun
  simp only []
  rcases h with ⟨r, rfl, rfl⟩ | ⟨rfl, rfl, hc⟩
  · unfold setDigits
    simp only [rest_mkG]
    rcases digitsLoop_spec (digitTest b) f r (r.length + 1) (if neg then ['-'] else []) c d false (Nat.le_refl _) with
      ⟨x, tl, h1, h2⟩ | ⟨h1, c', hc', h2⟩
    · simp only [h2]
      simp only [finish_mkG, Bool.false_or]
      unfold digitsPart
      simp only [Nat.zero_add]
      generalize hds : List.takeWhile (digitTest b) (c :: r) = ds at *
      have hdrop : (c :: r).drop ds.length = x :: tl := by rw [← hds, drop_takeWhile_length, h1]
      have htake : (c :: r).take ds.length = ds := by rw [← hds, take_takeWhile_length]
      by_cases hne : ds = []
      · subst hne
        cases zero <;> simp [after, mkG, IStream.setFail] at hdrop htake ⊢
        all_goals simp_all
      · have hall : ∀ c' ∈ ds, digitTest b c' = true := by
          intro c' hc'; rw [← hds] at hc'; exact mem_takeWhile_imp' _ _ _ hc'
        have he : ds.isEmpty = false := by cases ds <;> simp_all
        simp only [he, Bool.not_false, if_true, hne, ne_eq, not_false_eq_true, setStr_digits b hb neg ds hne hall, Val.ofOpt]
        simp [after, mkG, hdrop, htake]
    · simp only [h2]
      have hds : List.takeWhile (digitTest b) (c :: r) = c :: r := takeWhile_all _ _ h1
      rw [hds]
      have hall : ∀ c' ∈ (c :: r), digitTest b c' = true := by
        intro c' hc'; rw [← hds] at hc'; exact mem_takeWhile_imp' _ _ _ hc'
      simp only [finish_mkE, Bool.true_or, if_true, setStr_digits b hb neg (c :: r) (by simp) hall, Val.ofOpt]
      unfold digitsPart
      simp only [hds, Nat.zero_add]
      simp [after, mkG]
  · unfold setDigits
    rw [digitsLoop_mkE _ _ _ _ _ _ _ (digitTest_of_not_xdigit b c hc)]
    simp only [finish_mkE, Bool.false_or, Bool.false_eq_true, if_false]
    unfold digitsPart
    cases zero <;> simp [after, mkG, mkE, IStream.setFail]

/-! ### base selection, sign, the whole of `__gmpz_operator_in_nowhite` -/

/-- ismpznw.cc:211-224 -/
def bodyRun (i : IStream) (c : Char) (s : List Char) : IStream × Val :=
  digitsRun s (setBase i c).1 (setBase i c).2.1 (setBase i c).2.2.2.2 (setBase i c).2.2.1

theorem extractZNowhite_eq (i : IStream) (c : Char) :
    extractZNowhite i c = bodyRun (readSign i c).2.1 (readSign i c).2.2 (readSign i c).1 := rfl

theorem base?_cases (f : Fmt) (b : Nat) (h : f.base? = some b) : b = 8 ∨ b = 10 ∨ b = 16 := by
  unfold Fmt.base? at h
  split_ifs at h <;> simp_all

theorem setBase_fixed (i : IStream) (c : Char) (b : Nat) (h : i.fmt.base? = some b) : setBase i c = (i, c, false, false, b) := by
  unfold Fmt.base? at h
  unfold setBase
  split_ifs at h ⊢ <;> simp_all

theorem setBase_auto (i : IStream) (c : Char) (h : i.fmt.base? = none) : setBase i c =
    if c = '0' then
      (let g1 := i.get c
       let c1 := if g1.1.failed then '\x00' else g1.2
       if c1 = 'x' ∨ c1 = 'X' then ((g1.1.get c1).1, (g1.1.get c1).2, false, true, 16)
       else (g1.1, c1, true, true, 8))
    else (i, c, false, true, 10) := by
  unfold Fmt.base? at h
  split_ifs at h with h1 h2 h3
  unfold setBase
  simp only [if_neg h1, if_neg h2, if_neg h3]

def Stale (c : Char) : Prop := c ≠ '0' ∧ isxdigit c = false

theorem body_stage (f : Fmt) (neg : Bool) (d u : List Char) (i : IStream) (c : Char) (h : Cursor Stale f d u i c) :
    bodyRun i c (if neg then ['-'] else []) =
      (after f d u (bodySpec f neg 0 u).n (bodySpec f neg 0 u).eof (bodySpec f neg 0 u).fail, (bodySpec f neg 0 u).val) := by
  have hfmt : i.fmt = f := by rcases h with ⟨r, _, rfl⟩ | ⟨_, rfl, _⟩ <;> rfl
  cases hb : f.base? with
  | some b =>
    have h' : Cursor (fun c => isxdigit c = false) f d u i c := by
      rcases h with h | ⟨h1, h2, h3⟩
      · exact Or.inl h
      · exact Or.inr ⟨h1, h2, h3.2⟩
    unfold bodyRun
    rw [setBase_fixed i c b (by rw [hfmt]; exact hb)]
    simp only [bodySpec, hb]
    exact digits_stage f b (base?_cases f b hb) neg false d u i c h'
  | none =>
    have hx : isxdigit 'x' = false := by decide
    have hX : isxdigit 'X' = false := by decide
    have h0 : isxdigit '\x00' = false := by decide
    unfold bodyRun
    rw [setBase_auto i c (by rw [hfmt]; exact hb)]
    rcases h with ⟨r, rfl, rfl⟩ | ⟨rfl, rfl, hc⟩
    · by_cases hc0 : c = '0'
      · subst hc0
        cases r with
        | nil =>
          -- "0" then the end of the input
          have key := digits_stage f 8 (Or.inl rfl) neg true ('0' :: d) [] (mkE ('0' :: d) f) '\x00' (Or.inr ⟨rfl, rfl, h0⟩)
          simp only [if_true, get_mkG_nil, failed_mkE, show ¬ (('\x00' : Char) = 'x' ∨ ('\x00' : Char) = 'X') by decide, if_false]
          rw [key]
          simp only [bodySpec, hb]
          rw [digitsPart_pre 8 neg (0 + 1) true []]
          simp only [Nat.zero_add, Nat.add_comm 1, after_cons]
        | cons y r' =>
          simp only [if_true, get_mkG_cons, failed_mkG, Bool.false_eq_true, if_false]
          by_cases hy : y = 'x' ∨ y = 'X'
          · simp only [hy, if_true]
            have hyx : isxdigit y = false := by rcases hy with rfl | rfl <;> assumption
            have hspec : bodySpec f neg 0 ('0' :: y :: r') = digitsPart 16 neg (0 + 2) false r' := by
              rcases hy with rfl | rfl <;> simp [bodySpec, hb]
            rw [hspec, digitsPart_pre 16 neg (0 + 2) false r']
            cases r' with
            | nil =>
              have key := digits_stage f 16 (Or.inr (Or.inr rfl)) neg false (y :: '0' :: d) [] (mkE (y :: '0' :: d) f) y (Or.inr ⟨rfl, rfl, hyx⟩)
              simp only [get_mkG_nil]
              rw [key]
              simp only [Nat.zero_add, Nat.add_comm 2, after_cons]
            | cons z r'' =>
              have key := digits_stage f 16 (Or.inr (Or.inr rfl)) neg false (y :: '0' :: d) (z :: r'') (mkG r'' (z :: y :: '0' :: d) f) z (Or.inl ⟨r'', rfl, rfl⟩)
              simp only [get_mkG_cons]
              rw [key]
              simp only [Nat.zero_add, Nat.add_comm 2, after_cons]
          · simp only [hy, if_false]
            have hspec : bodySpec f neg 0 ('0' :: y :: r') = digitsPart 8 neg (0 + 1) true (y :: r') := by
              have h1 : y ≠ 'x' := fun e => hy (Or.inl e)
              have h2 : y ≠ 'X' := fun e => hy (Or.inr e)
              simp only [bodySpec, hb]
              split <;> simp_all
            have key := digits_stage f 8 (Or.inl rfl) neg true ('0' :: d) (y :: r') (mkG r' (y :: '0' :: d) f) y (Or.inl ⟨r', rfl, rfl⟩)
            rw [key, hspec, digitsPart_pre 8 neg (0 + 1) true (y :: r')]
            simp only [Nat.zero_add, Nat.add_comm 1, after_cons]
      · simp only [hc0, if_false]
        have hspec : bodySpec f neg 0 (c :: r) = digitsPart 10 neg 0 false (c :: r) := by
          simp only [bodySpec, hb]
          split <;> simp_all
        rw [hspec]
        exact digits_stage f 10 (Or.inr (Or.inl rfl)) neg false d (c :: r) (mkG r (c :: d) f) c (Or.inl ⟨r, rfl, rfl⟩)
    · simp only [hc.1, if_false]
      have hspec : bodySpec f neg 0 [] = digitsPart 10 neg 0 false [] := by simp [bodySpec, hb]
      rw [hspec]
      exact digits_stage f 10 (Or.inr (Or.inl rfl)) neg false d [] (mkE d f) c (Or.inr ⟨rfl, rfl, hc.2⟩)

theorem bodySpec_pre (f : Fmt) (neg : Bool) (k : Nat) (u : List Char) :
    bodySpec f neg k u = { bodySpec f neg 0 u with n := k + (bodySpec f neg 0 u).n } := by
  unfold bodySpec
  split
  · exact digitsPart_pre _ _ _ _ _
  · split
    · rw [digitsPart_pre 16 neg (k + 2), digitsPart_pre 16 neg (0 + 2)]; simp; omega
    · rw [digitsPart_pre 16 neg (k + 2), digitsPart_pre 16 neg (0 + 2)]; simp; omega
    · rw [digitsPart_pre 8 neg (k + 1), digitsPart_pre 8 neg (0 + 1)]; simp; omega
    · exact digitsPart_pre _ _ _ _ _

/-- a stale character that cannot be taken for part of a number -/
def Stale0 (c : Char) : Prop := c ≠ '-' ∧ c ≠ '+' ∧ Stale c

theorem stale_minus : Stale '-' := by constructor <;> decide
theorem stale_plus : Stale '+' := by constructor <;> decide

theorem nowhite_spec (f : Fmt) (d u : List Char) (i : IStream) (c : Char) (h : Cursor Stale0 f d u i c) :
    extractZNowhite i c =
      (after f d u (numSpec f u).n (numSpec f u).eof (numSpec f u).fail, (numSpec f u).val) := by
  rw [extractZNowhite_eq]
  rcases h with ⟨r, rfl, rfl⟩ | ⟨rfl, rfl, hc⟩
  · by_cases hm : c = '-'
    · subst hm
      have hn : numSpec f ('-' :: r) = bodySpec f true 1 r := rfl
      rw [hn, bodySpec_pre f true 1 r]
      cases r with
      | nil =>
        have key := body_stage f true ('-' :: d) [] (mkE ('-' :: d) f) '-' (Or.inr ⟨rfl, rfl, stale_minus⟩)
        simp only [readSign, true_or, if_true, get_mkG_nil]
        simp only [if_true] at key
        rw [key]
        simp only [Nat.add_comm 1, after_cons]
      | cons y r' =>
        have key := body_stage f true ('-' :: d) (y :: r') (mkG r' (y :: '-' :: d) f) y (Or.inl ⟨r', rfl, rfl⟩)
        simp only [readSign, true_or, if_true, get_mkG_cons]
        simp only [if_true] at key
        rw [key]
        simp only [Nat.add_comm 1, after_cons]
    · by_cases hp : c = '+'
      · subst hp
        have hn : numSpec f ('+' :: r) = bodySpec f false 1 r := rfl
        rw [hn, bodySpec_pre f false 1 r]
        have e1 : ¬ (('+' : Char) = '-') := by decide
        cases r with
        | nil =>
          have key := body_stage f false ('+' :: d) [] (mkE ('+' :: d) f) '+' (Or.inr ⟨rfl, rfl, stale_plus⟩)
          simp only [readSign, or_true, if_true, get_mkG_nil, e1, if_false]
          simp only [Bool.false_eq_true, if_false] at key
          rw [key]
          simp only [Nat.add_comm 1, after_cons]
        | cons y r' =>
          have key := body_stage f false ('+' :: d) (y :: r') (mkG r' (y :: '+' :: d) f) y (Or.inl ⟨r', rfl, rfl⟩)
          simp only [readSign, or_true, if_true, get_mkG_cons, e1, if_false]
          simp only [Bool.false_eq_true, if_false] at key
          rw [key]
          simp only [Nat.add_comm 1, after_cons]
      · have hn : numSpec f (c :: r) = bodySpec f false 0 (c :: r) := by
          unfold numSpec; split <;> simp_all
        have key := body_stage f false d (c :: r) (mkG r (c :: d) f) c (Or.inl ⟨r, rfl, rfl⟩)
        simp only [Bool.false_eq_true, if_false] at key
        simp only [readSign, hm, hp, or_self, if_false]
        rw [key, hn]
  · have hn : numSpec f [] = bodySpec f false 0 [] := rfl
    have key := body_stage f false d [] (mkE d f) c (Or.inr ⟨rfl, rfl, hc.2.2⟩)
    simp only [Bool.false_eq_true, if_false] at key
    simp only [readSign, hc.1, hc.2.1, or_self, if_false]
    rw [key, hn]

/-! ### white space, `operator>>` for mpz and mpq -/

theorem isspace_iff (c : Char) : isspace c = true ↔ c.toNat = 32 ∨ (9 ≤ c.toNat ∧ c.toNat ≤ 13) := by
  simp [isspace, Scanf.isSpace, char_eq_iff]; omega

theorem stale0_of_space (c : Char) (h : isspace c = true) : Stale0 c := by
  rw [isspace_iff] at h
  have hx : isxdigit c = false := by
    have h16 : ¬ digitTest 16 c = true := by rw [digitTest16_iff]; omega
    simpa [digitTest] using h16
  refine ⟨?_, ?_, ?_, hx⟩ <;> (intro e; rw [e] at h; revert h; decide)

theorem stale0_nul : Stale0 '\x00' := by refine ⟨?_, ?_, ?_, ?_⟩ <;> decide
theorem stale0_slash : Stale0 '/' := by refine ⟨?_, ?_, ?_, ?_⟩ <;> decide

theorem skipWs_spec (f : Fmt) : ∀ (r : List Char) (n : Nat) (c : Char) (d : List Char), r.length + 1 ≤ n →
    Cursor Stale0 f (((c :: r).takeWhile isspace).reverse ++ d) ((c :: r).dropWhile isspace)
      (skipWs n (mkG r (c :: d) f) c).1 (skipWs n (mkG r (c :: d) f) c).2 := by
  intro r
  induction r with
  | nil =>
    intro n c d hn
    obtain ⟨m, rfl⟩ : ∃ m, n = m + 1 := ⟨n - 1, by simp at hn; omega⟩
    by_cases hc : isspace c = true
    · right
      simp [skipWs, hc, stale0_of_space c hc]
    · have e : skipWs (m + 1) (mkG [] (c :: d) f) c = (mkG [] (c :: d) f, c) := by simp [skipWs, hc]
      rw [e]
      left
      exact ⟨[], by simp [hc], by simp [hc]⟩
  | cons y r ih =>
    intro n c d hn
    obtain ⟨m, rfl⟩ : ∃ m, n = m + 1 := ⟨n - 1, by simp at hn; omega⟩
    by_cases hc : isspace c = true
    · have hm : r.length + 1 ≤ m := by simp at hn; omega
      have := ih m y (c :: d) hm
      simp only [skipWs, hc, if_true, get_mkG_cons, failed_mkG, Bool.false_eq_true, if_false]
      simpa [hc] using this
    · have e : skipWs (m + 1) (mkG (y :: r) (c :: d) f) c = (mkG (y :: r) (c :: d) f, c) := by simp [skipWs, hc]
      rw [e]
      left
      exact ⟨y :: r, by simp [hc], by simp [hc]⟩

/-- ismpz.cc:146-160: where the number starts -/
theorem start_spec (f : Fmt) (t d : List Char) :
    Cursor Stale0 f ((wsPrefix f t).reverse ++ d) (t.drop (wsPrefix f t).length) (start (mkG t d f)).1 (start (mkG t d f)).2 := by
  cases t with
  | nil =>
    right
    simp [start, wsPrefix, skipWs, stale0_nul, show isspace '\x00' = false by decide]
  | cons x r =>
    by_cases hs : f.skipws = true
    · have := skipWs_spec f r (r.length + 1) x d (Nat.le_refl _)
      simp only [start, get_mkG_cons, fmt_mkG, hs, if_true, rest_mkG, wsPrefix, drop_takeWhile_length]
      exact this
    · left
      simp only [start, get_mkG_cons, fmt_mkG, hs, wsPrefix]
      exact ⟨r, by simp, by simp⟩

theorem extractZ_at (f : Fmt) (t d : List Char) :
    extractZ (mkG t d f) =
      (after f ((wsPrefix f t).reverse ++ d) (t.drop (wsPrefix f t).length)
          (numSpec f (t.drop (wsPrefix f t).length)).n (numSpec f (t.drop (wsPrefix f t).length)).eof
          (numSpec f (t.drop (wsPrefix f t).length)).fail,
       (numSpec f (t.drop (wsPrefix f t).length)).val) := by
  have h := start_spec f t d
  have : extractZ (mkG t d f) = extractZNowhite (start (mkG t d f)).1 (start (mkG t d f)).2 := rfl
  rw [this]
  exact nowhite_spec f _ _ _ _ h


theorem digitsPart_eof_fail (b : Nat) (neg : Bool) (pre : Nat) (zero : Bool) (t : List Char) :
    (digitsPart b neg pre zero t).fail = false → (digitsPart b neg pre zero t).eof = false := by
  unfold digitsPart
  simp only
  split_ifs <;> simp

theorem bodySpec_eof_fail (f : Fmt) (neg : Bool) (k : Nat) (u : List Char) :
    (bodySpec f neg k u).fail = false → (bodySpec f neg k u).eof = false := by
  unfold bodySpec
  split
  · exact digitsPart_eof_fail _ _ _ _ _
  · split <;> exact digitsPart_eof_fail _ _ _ _ _

theorem numSpec_eof_fail (f : Fmt) (u : List Char) : (numSpec f u).fail = false → (numSpec f u).eof = false := by
  unfold numSpec
  split <;> exact bodySpec_eof_fail _ _ _ _

theorem extractQ_spec' (f : Fmt) (t : List Char) : extractQ (mkG t [] f) = specQ f t := by
  unfold extractQ specQ
  rw [extractZ_at f t []]
  simp only [List.append_nil]
  generalize hu : t.drop (wsPrefix f t).length = u
  generalize hw : (wsPrefix f t).reverse = wr
  cases hf : (numSpec f u).fail with
  | true => simp [after, IStream.failed]
  | false =>
    have he := numSpec_eof_fail f u hf
    simp only [he, Bool.false_eq_true, if_false]
    have hfailed : (after f wr u (numSpec f u).n false false).failed = false := by simp [after, IStream.failed]
    simp only [hfailed, Bool.false_eq_true, if_false]
    generalize (numSpec f u).n = n
    generalize (numSpec f u).val = v
    have ha : after f wr u n false false = mkG (u.drop n) ((u.take n).reverse ++ wr) f := by simp [after, mkG]
    rw [ha]
    cases hd : u.drop n with
    | nil =>
      simp [show ¬ (('\x00' : Char) = '/') by decide]
    | cons x v' =>
      by_cases hx : x = '/'
      · subst hx
        simp only [get_mkG_cons, if_true]
        cases v' with
        | nil =>
          have key := nowhite_spec f ('/' :: ((u.take n).reverse ++ wr)) [] (mkE ('/' :: ((u.take n).reverse ++ wr)) f) '/' (Or.inr ⟨rfl, rfl, stale0_slash⟩)
          simp only [get_mkG_nil]
          rw [key]
        | cons y v'' =>
          have key := nowhite_spec f ('/' :: ((u.take n).reverse ++ wr)) (y :: v'') (mkG v'' (y :: '/' :: ((u.take n).reverse ++ wr)) f) y (Or.inl ⟨v'', rfl, rfl⟩)
          simp only [get_mkG_cons]
          rw [key]
      · simp only [get_mkG_cons, hx, if_false, good_mkG, if_true, putback_mkG]
        split
        · rename_i heq; simp_all
        · rfl

theorem get_not_good (i : IStream) (c : Char) (h : i.good = false) : i.get c = ({ i with fail := true }, c) := by
  simp [IStream.get, h]

theorem extractZ_not_good' (i : IStream) (h : i.good = false) : extractZ i = ({ i with fail := true }, Val.unchanged) := by
  have hg : ({ i with fail := true } : IStream).good = false := by simp [IStream.good]
  have hfailed : ({ i with fail := true } : IStream).failed = true := by simp [IStream.failed]
  have hsp : isspace '\x00' = false := by decide
  have hdt : ∀ b, digitTest b '\x00' = false := fun b => digitTest_of_not_xdigit b _ (by decide)
  have hstart : start i = ({ i with fail := true }, '\x00') := by
    unfold start
    rw [get_not_good i _ h]
    simp only
    split
    · cases hn : ({ i with fail := true } : IStream).rest.length + 1 with
      | zero => simp [skipWs]
      | succ n => simp [skipWs, hsp]
    · rfl
  unfold extractZ
  rw [hstart]
  simp only
  rw [extractZNowhite_eq]
  have hrs : readSign { i with fail := true } '\x00' = ([], { i with fail := true }, '\x00') := by
    simp [readSign, show ¬ (('\x00' : Char) = '-' ∨ ('\x00' : Char) = '+') by decide]
  rw [hrs]
  simp only
  unfold bodyRun
  have hsb : ∃ b z sb, setBase { i with fail := true } '\x00' = ({ i with fail := true }, '\x00', z, sb, b) ∧ z = false := by
    unfold setBase
    simp only [show ¬ (('\x00' : Char) = '0') by decide, if_false]
    split_ifs <;> exact ⟨_, _, _, rfl, rfl⟩
  obtain ⟨b, z, sb, e, rfl⟩ := hsb
  rw [e]
  simp only
  unfold digitsRun setDigits
  have hl : ∀ n, digitsLoop (digitTest b) n [] { i with fail := true } '\x00' false = ([], { i with fail := true }, '\x00', false) := by
    intro n; cases n <;> simp [digitsLoop, hdt]
  rw [hl]
  simp [finish, hg, IStream.setFail]
/-! ### `operator<<` -/

section
open List

theorem int_bytes (P : Params) (neg : Bool) (ds : List Char) (hds : ∀ c ∈ ds, c ≠ '/' ∧ c ≠ '-') (hp : P.prec = -1) :
    callsBytes (doprntInteger P ((if neg then ['-'] else []) ++ ds)) =
      closedCore P (if neg then some '-' else P.sign).toList ds (showbaseStr P) := by
  have hhead : ds.head? ≠ some '-' := by
    cases ds with
    | nil => simp
    | cons a t => simp; exact (hds a mem_cons_self).2
  unfold doprntInteger
  rw [doprntIntegerG_signed P neg ds hhead]
  have e : (if ds.head? = some '0' ∧ P.prec = 0 then ds.tail else ds) = ds := by
    rw [hp]; simp
  rw [e, core_bytes P _ ds _ (splitSlash_none ds (fun c hc => (hds c hc).1))]

/-- `closedCore` without precision zeros -/
theorem closedCore_noprec (P : Params) (sign s sb : List Char) (hp : P.prec = -1) (hj : P.justify ≠ .none) :
    closedCore P sign s sb =
      (let sb1 := if P.showbase = .nonzero ∧ s.head? = some '0' then [] else sb
       let pad := replicate (P.width - ((sign.length + sb1.length + s.length : Nat) : Int)).toNat P.fill
       match P.justify with
       | .left => sign ++ sb1 ++ s ++ pad
       | .internal => sign ++ sb1 ++ pad ++ s
       | _ => pad ++ sign ++ sb1 ++ s) := by
  unfold closedCore
  have hz : (P.prec - (s.length : Int)).toNat = 0 := by rw [hp]; omega
  simp only [hz, Nat.lt_irrefl, false_and, if_false, replicate_zero, append_nil, Nat.add_zero]
  generalize (if P.showbase = .nonzero ∧ s.head? = some '0' then [] else sb) = sb1
  have e : (s.length + sign.length + sb1.length : Nat) = sign.length + sb1.length + s.length := by omega
  rw [e]
  generalize (P.width - ((sign.length + sb1.length + s.length : Nat) : Int)).toNat = pad
  by_cases h0 : pad = 0
  · subst h0; cases hjj : P.justify <;> simp_all
  · cases hjj : P.justify <;> simp_all

/-- the parameters `operator<<` for integers works with -/
def intParams (o : OStream) : Params := { (paramsFromIos o).1 with prec := -1 }

theorem intParams_base (o : OStream) :
    (intParams o).base.natAbs = o.fmt.outBase ∧ decide ((intParams o).base < 0) = o.fmt.outUpper ∧
    (paramsFromIos o).1.base = (intParams o).base := by
  rcases o with ⟨out, e, fl, b, f, w, fi, pr⟩
  rcases f with ⟨dec, oct, hex, sb, sp, up, l, r, it, fx, sc, spt, sk⟩
  cases dec <;> cases oct <;> cases hex <;> cases up <;> simp [intParams, paramsFromIos, Fmt.outBase, Fmt.outUpper, Fmt.hexOnly, Fmt.octOnly]

theorem intParams_prefix (o : OStream) (s : List Char) (isZero : Bool) (hz : s.head? = some '0' ↔ isZero = true) :
    (if (intParams o).showbase = .nonzero ∧ s.head? = some '0' then [] else showbaseStr (intParams o)) = prefixStr o.fmt isZero := by
  rcases o with ⟨out, e, fl, b, f, w, fi, pr⟩
  rcases f with ⟨dec, oct, hex, sb, sp, up, l, r, it, fx, sc, spt, sk⟩
  cases isZero <;> simp at hz <;>
  cases dec <;> cases oct <;> cases hex <;> cases up <;> cases sb <;>
    simp [intParams, paramsFromIos, prefixStr, showbaseStr, Fmt.hexOnly, Fmt.octOnly, hz]

theorem intParams_sign (o : OStream) (neg : Bool) :
    (if neg then some '-' else (intParams o).sign).toList = signStr o.fmt neg := by
  rcases o with ⟨out, e, fl, b, f, w, fi, pr⟩
  rcases f with ⟨dec, oct, hex, sb, sp, up, l, r, it, fx, sc, spt, sk⟩
  cases neg <;> cases sp <;> simp [intParams, paramsFromIos, signStr]

theorem intParams_layout (o : OStream) (sign pre body : List Char) :
    (let pad := replicate ((intParams o).width - ((sign.length + pre.length + body.length : Nat) : Int)).toNat (intParams o).fill
     match (intParams o).justify with
     | .left => sign ++ pre ++ body ++ pad
     | .internal => sign ++ pre ++ pad ++ body
     | _ => pad ++ sign ++ pre ++ body) = fieldLayout o.fmt o.width o.fill sign pre body := by
  rcases o with ⟨out, e, fl, b, f, w, fi, pr⟩
  rcases f with ⟨dec, oct, hex, sb, sp, up, l, r, it, fx, sc, spt, sk⟩
  cases l <;> cases r <;> cases it <;> simp [intParams, paramsFromIos, fieldLayout]

theorem intParams_justify (o : OStream) : (intParams o).justify ≠ .none := by
  rcases o with ⟨out, e, fl, b, f, w, fi, pr⟩
  rcases f with ⟨dec, oct, hex, sb, sp, up, l, r, it, fx, sc, spt, sk⟩
  cases l <;> cases r <;> cases it <;> simp [intParams, paramsFromIos]

theorem outBase_range (f : Fmt) : 2 ≤ f.outBase ∧ f.outBase ≤ 36 := by
  unfold Fmt.outBase; split_ifs <;> omega

theorem natDigits_head_zero_iff (b : Nat) (u : Bool) (hb : 2 ≤ b) (hb' : b ≤ 36) (n : Nat) :
    (natDigits b u n).head? = some '0' ↔ n = 0 := by
  constructor
  · intro h; by_contra hn; exact natDigits_head_ne_zero b u hb hb' n hn h
  · rintro rfl; rw [natDigits_zero]; rfl

theorem insertZ_eq (o : OStream) (z : Int) :
    insertZ o z = ({ o with width := 0 } : OStream).write (fieldLayout o.fmt o.width o.fill (signStr o.fmt (decide (z < 0)))
        (prefixStr o.fmt (decide (z = 0))) (natDigits o.fmt.outBase o.fmt.outUpper z.natAbs)) := by
  have hb := intParams_base o
  have hr := outBase_range o.fmt
  have hmem : ∀ c ∈ natDigits o.fmt.outBase o.fmt.outUpper z.natAbs, c ≠ '/' ∧ c ≠ '-' := fun c hc =>
    digitTab_ne _ c (natDigits_mem _ _ hr.1 hr.2 _ c hc)
  have hz : (natDigits o.fmt.outBase o.fmt.outUpper z.natAbs).head? = some '0' ↔ decide (z = 0) = true := by
    rw [natDigits_head_zero_iff _ _ hr.1 hr.2]; simp
  have e1 : insertZ o z = ({ o with width := 0 } : OStream).write (callsBytes (doprntInteger (intParams o) (mpzGetStr (intParams o).base z))) := by
    simp only [insertZ, doprntIntegerOstream, intParams, ← hb.2.2]
    rfl
  rw [e1]
  have e2 : mpzGetStr (intParams o).base z = (if decide (z < 0) then ['-'] else []) ++ natDigits o.fmt.outBase o.fmt.outUpper z.natAbs := by
    unfold mpzGetStr; rw [hb.1, hb.2.1]; simp
  rw [e2, int_bytes (intParams o) _ _ hmem rfl, closedCore_noprec _ _ _ _ rfl (intParams_justify o)]
  simp only [intParams_prefix o _ _ hz, intParams_sign]
  rw [intParams_layout]
def justLayout (j : Justify) (pad sign pre body : List Char) : List Char :=
  match j with
  | .left => sign ++ pre ++ body ++ pad
  | .internal => sign ++ pre ++ pad ++ body
  | _ => pad ++ sign ++ pre ++ body

theorem intParams_layout2 (o : OStream) (sign pre body : List Char) :
    justLayout (intParams o).justify
      (replicate ((intParams o).width - ((sign.length + pre.length + body.length : Nat) : Int)).toNat (intParams o).fill)
      sign pre body = fieldLayout o.fmt o.width o.fill sign pre body := by
  rcases o with ⟨out, e, fl, b, f, w, fi, pr⟩
  rcases f with ⟨dec, oct, hex, sb, sp, up, l, r, it, fx, sc, spt, sk⟩
  cases l <;> cases r <;> cases it <;> simp [intParams, paramsFromIos, fieldLayout, justLayout]

theorem core_bytes_slash (P : Params) (sign : Option Char) (s sb num den : List Char)
    (hs : splitSlash s = some (num, den)) (hsn : s = num ++ den) (hp : P.prec = -1) (hj : P.justify ≠ .none) :
    callsBytes (doprntIntegerCore false P sign s sb) =
      (let sb1 := if P.showbase = .nonzero ∧ s.head? = some '0' then [] else sb
       let dsb := if P.showbase = .nonzero ∧ den.head? = some '0' then [] else sb
       justLayout P.justify
         (replicate (P.width - ((sign.toList.length + sb1.length + (num ++ dsb ++ den).length : Nat) : Int)).toNat P.fill)
         sign.toList sb1 (num ++ dsb ++ den)) := by
  unfold doprntIntegerCore justLayout
  simp only [hs]
  generalize hsb1 : (if P.showbase = .nonzero ∧ s.head? = some '0' then [] else sb) = sb1
  generalize hdsb : (if P.showbase = .nonzero ∧ den.head? = some '0' then [] else sb) = dsb
  have e1 : (if P.showbase = .nonzero ∧ s.head? = some '0' then (0 : Int) else (sb.length : Int)) = (sb1.length : Int) := by
    rw [← hsb1]; split <;> simp
  have e2 : (if P.showbase = .nonzero ∧ den.head? = some '0' then (0 : Int) else (sb.length : Int)) = (dsb.length : Int) := by
    rw [← hdsb]; split <;> simp
  rw [e1, e2]
  have ez : max 0 (P.prec - (s.length : Int)) = 0 := by rw [hp]; omega
  rw [ez]
  have htake : take sb1.length sb = sb1 := by rw [← hsb1]; split <;> simp
  have htake2 : take dsb.length sb = dsb := by rw [← hdsb]; split <;> simp
  have hlen : (P.width - ((s.length : Int) + (if sign.isSome = true then 1 else 0) + (sb1.length : Int) + (dsb.length : Int) + 0)) =
      P.width - ((sign.toList.length + sb1.length + (num ++ dsb ++ den).length : Nat) : Int) := by
    rw [hsn]; cases sign <;> simp <;> omega
  simp only [show ¬ ((0 : Int) > 0 ∧ (sb1.length : Int) = 1) by omega, if_false, not_false_eq_true, and_false, and_true, true_and, hlen]
  generalize (P.width - ((sign.toList.length + sb1.length + (num ++ dsb ++ den).length : Nat) : Int)) = jl
  clear hlen e1 e2 ez hsb1 hdsb
  subst hsn
  have hdl : (dsb.length : Int) = 0 ↔ dsb = [] := by
    cases dsb with
    | nil => simp
    | cons a t => simp; omega
  by_cases hjl : jl ≤ 0
  · have ht : jl.toNat = 0 := by omega
    simp only [if_pos hjl, ht]
    cases sign <;> cases hjj : P.justify <;> by_cases hd0 : dsb = [] <;> simp_all [Call.bytes]
  · simp only [if_neg hjl]
    cases sign <;> cases hjj : P.justify <;> by_cases hd0 : dsb = [] <;> simp_all [Call.bytes]

theorem splitSlash_append (a b : List Char) (h : ∀ c ∈ a, c ≠ '/') : splitSlash (a ++ '/' :: b) = some (a ++ ['/'], b) := by
  induction a with
  | nil => simp [splitSlash]
  | cons x t ih =>
    have hx : x ≠ '/' := h x mem_cons_self
    have := ih (fun c hc => h c (mem_cons_of_mem _ hc))
    simp [splitSlash, hx, this]

theorem head?_append_ne_nil (a b : List Char) (h : a ≠ []) : (a ++ b).head? = a.head? := by
  cases a with
  | nil => exact absurd rfl h
  | cons x t => rfl

theorem insertQ_eq (o : OStream) (n d : Int) (hd : 0 < d) :
    insertQ o n d = ({ o with width := 0 } : OStream).write (fieldLayout o.fmt o.width o.fill (signStr o.fmt (decide (n < 0)))
        (prefixStr o.fmt (decide (n = 0)))
        (natDigits o.fmt.outBase o.fmt.outUpper n.natAbs ++
          (if d = 1 then [] else '/' :: (prefixStr o.fmt false ++ natDigits o.fmt.outBase o.fmt.outUpper d.natAbs)))) := by
  by_cases h1 : d = 1
  · subst h1
    have : insertQ o n 1 = insertZ o n := by simp [insertQ, insertZ, mpqGetStr]
    rw [this, insertZ_eq]; simp
  have hb := intParams_base o
  have hr := outBase_range o.fmt
  generalize hnd : natDigits o.fmt.outBase o.fmt.outUpper n.natAbs = nd
  generalize hdd : natDigits o.fmt.outBase o.fmt.outUpper d.natAbs = dd
  have hmemn : ∀ c ∈ nd, c ≠ '/' ∧ c ≠ '-' := fun c hc =>
    digitTab_ne _ c (natDigits_mem _ _ hr.1 hr.2 _ c (by rw [hnd]; exact hc))
  have hmemd : ∀ c ∈ dd, c ≠ '/' ∧ c ≠ '-' := fun c hc =>
    digitTab_ne _ c (natDigits_mem _ _ hr.1 hr.2 _ c (by rw [hdd]; exact hc))
  have hnne : nd ≠ [] := by rw [← hnd]; exact natDigits_ne_nil _ _ _
  have hzn : nd.head? = some '0' ↔ decide (n = 0) = true := by
    rw [← hnd, natDigits_head_zero_iff _ _ hr.1 hr.2]; simp
  have hzd : dd.head? = some '0' ↔ false = true := by
    rw [← hdd, natDigits_head_zero_iff _ _ hr.1 hr.2]; simp; omega
  have e1 : insertQ o n d = ({ o with width := 0 } : OStream).write (callsBytes (doprntInteger (intParams o) (mpqGetStr (intParams o).base n d))) := by
    simp only [insertQ, doprntIntegerOstream, intParams]
    rfl
  rw [e1]
  have e2 : mpqGetStr (intParams o).base n d = (if decide (n < 0) then ['-'] else []) ++ (nd ++ '/' :: dd) := by
    unfold mpqGetStr mpzGetStr; rw [hb.1, hb.2.1, hnd, hdd]
    simp [h1, show ¬ d < 0 by omega]
  rw [e2]
  have hhead : (nd ++ '/' :: dd).head? ≠ some '-' := by
    rw [head?_append_ne_nil _ _ hnne]
    cases nd with
    | nil => exact absurd rfl hnne
    | cons a t => simp; exact (hmemn a mem_cons_self).2
  unfold doprntInteger
  rw [doprntIntegerG_signed (intParams o) _ _ hhead]
  have e3 : (if (nd ++ '/' :: dd).head? = some '0' ∧ (intParams o).prec = 0 then (nd ++ '/' :: dd).tail else nd ++ '/' :: dd) = nd ++ '/' :: dd := by
    simp [intParams]
  rw [e3, core_bytes_slash (intParams o) _ (nd ++ '/' :: dd) _ (nd ++ ['/']) dd
    (splitSlash_append nd dd (fun c hc => (hmemn c hc).1)) (by simp) rfl (intParams_justify o)]
  have hzs : (nd ++ '/' :: dd).head? = some '0' ↔ decide (n = 0) = true := by
    rw [head?_append_ne_nil _ _ hnne]; exact hzn
  simp only [intParams_prefix o _ _ hzs, intParams_prefix o _ _ hzd, intParams_sign]
  rw [intParams_layout2]
  simp [h1]

/-! ### reading back what was written -/

theorem digitChar_spec (b : Nat) (hb : b = 8 ∨ b = 10 ∨ b = 16) (u : Bool) (d : Nat) (hd : d < b) :
    digitTest b (digitChar u d) = true ∧ Scanf.digitValue (digitChar u d) = d := by
  rcases hb with rfl | rfl | rfl <;> cases u <;> interval_cases d <;> decide

theorem natDigits_spec (b : Nat) (hb : b = 8 ∨ b = 10 ∨ b = 16) (u : Bool) :
    ∀ n : Nat, (∀ c ∈ natDigits b u n, digitTest b c = true) ∧ digitsVal b (natDigits b u n) = n := by
  have hb2 : 2 ≤ b := by rcases hb with rfl | rfl | rfl <;> omega
  intro n
  induction n using Nat.strong_induction_on with
  | _ n ih =>
    rw [natDigits]
    split
    · rename_i h
      have hn : n < b := by rcases h with h | h <;> omega
      have := digitChar_spec b hb u n hn
      simp [digitsVal, this.1, this.2]
    · rename_i h
      have hn : ¬ n < b := fun h' => h (Or.inl h')
      obtain ⟨ih1, ih2⟩ := ih (n / b) (Nat.div_lt_self (by omega) (by omega))
      have hm : n % b < b := Nat.mod_lt _ (by omega)
      have hs := digitChar_spec b hb u (n % b) hm
      refine ⟨?_, ?_⟩
      · intro c hc
        rcases mem_append.mp hc with h1 | h1
        · exact ih1 c h1
        · simp only [mem_singleton] at h1; rw [h1]; exact hs.1
      · have : digitsVal b (natDigits b u (n / b) ++ [digitChar u (n % b)]) = digitsVal b (natDigits b u (n / b)) * b + Scanf.digitValue (digitChar u (n % b)) := by
          simp [digitsVal, foldl_append]
        rw [this, ih2, hs.2]
        exact Nat.div_add_mod' n b

theorem takeWhile_eq_self' (p : Char → Bool) (l : List Char) (h : ∀ c ∈ l, p c = true) : l.takeWhile p = l := by
  induction l with
  | nil => rfl
  | cons a t ih => simp [h a mem_cons_self, ih (fun c hc => h c (mem_cons_of_mem _ hc))]

/-- a whole digit string, nothing after it -/
theorem digitsPart_all (b : Nat) (neg : Bool) (pre : Nat) (zero : Bool) (ds : List Char) (hne : ds ≠ [])
    (hall : ∀ c ∈ ds, digitTest b c = true) :
    digitsPart b neg pre zero ds = ⟨pre + ds.length, .value (if neg then -(digitsVal b ds : Int) else digitsVal b ds), false, false⟩ := by
  unfold digitsPart
  simp only [takeWhile_eq_self' _ _ hall, hne, ne_eq, not_false_eq_true, if_true]

theorem digit_ge_48 (b : Nat) (hb : b = 8 ∨ b = 10 ∨ b = 16) (c : Char) (h : digitTest b c = true) : 48 ≤ c.toNat := by
  rcases hb with rfl | rfl | rfl
  · have := (digitTest8_iff c).mp h; omega
  · have := (digitTest10_iff c).mp h; omega
  · have := (digitTest16_iff c).mp h; omega

theorem cstr_id (l : List Char) (h : ∀ c ∈ l, 1 ≤ c.toNat) : cstr l = l := by
  unfold cstr
  apply takeWhile_eq_self'
  intro c hc
  have := h c hc
  simp only [ne_eq, decide_not, Bool.not_eq_eq_eq_not, Bool.not_true, decide_eq_false_iff_not, char_eq_iff]
  have e : ('\x00' : Char).toNat = 0 := rfl
  omega

/-- the text of a number in a fixed base, read back by a stream set to that base -/
theorem numSpec_fixed_roundtrip (fi : Fmt) (b : Nat) (hb : b = 8 ∨ b = 10 ∨ b = 16) (hfi : fi.base? = some b)
    (sg bd : List Char) (neg : Bool) (hsg : sg = [] ∧ neg = false ∨ sg = ['-'] ∧ neg = true ∨ sg = ['+'] ∧ neg = false)
    (hne : bd ≠ []) (hall : ∀ c ∈ bd, digitTest b c = true) :
    numSpec fi (sg ++ bd) = ⟨(sg ++ bd).length, .value (if neg then -(digitsVal b bd : Int) else digitsVal b bd), false, false⟩ := by
  rcases hsg with ⟨rfl, rfl⟩ | ⟨rfl, rfl⟩ | ⟨rfl, rfl⟩
  · cases bd with
    | nil => exact absurd rfl hne
    | cons a t =>
      have ha := digit_ge_48 b hb a (hall a mem_cons_self)
      have h1 : a ≠ '-' := by rw [Ne, char_eq_iff]; have : ('-' : Char).toNat = 45 := rfl; omega
      have h2 : a ≠ '+' := by rw [Ne, char_eq_iff]; have : ('+' : Char).toNat = 43 := rfl; omega
      have : numSpec fi ([] ++ a :: t) = bodySpec fi false 0 (a :: t) := by
        unfold numSpec; split <;> simp_all
      rw [this]
      simp only [bodySpec, hfi]
      rw [digitsPart_all b false 0 false (a :: t) hne hall]
      simp
  · have : numSpec fi (['-'] ++ bd) = bodySpec fi true 1 bd := rfl
    rw [this]
    simp only [bodySpec, hfi]
    rw [digitsPart_all b true 1 false bd hne hall]
    simp; omega
  · have : numSpec fi (['+'] ++ bd) = bodySpec fi false 1 bd := rfl
    rw [this]
    simp only [bodySpec, hfi]
    rw [digitsPart_all b false 1 false bd hne hall]
    simp; omega

theorem outBase_cases (f : Fmt) : f.outBase = 8 ∨ f.outBase = 10 ∨ f.outBase = 16 := by
  unfold Fmt.outBase; split_ifs <;> simp

end

end Mpir.CxxIo
