/- FFT ring layer: mpn_mulmod_2expp1_internal / _basecase for b not a multiple of 64 (the masked, shifted path). -/
import MpirProofs.Lemmas.FftRingMulmod
namespace Mpir.Fft
open Mpir

theorem setAt_parts (x : List Nat) (i v : Nat) (hi : i < x.length) :
    (setAt x i v).take (i + 1) = x.take i ++ [v] ∧ (setAt x i v).drop (i + 1) = x.drop (i + 1) ∧
    (setAt x i v).length = x.length := by
  have hl : (x.take i ++ [v]).length = i + 1 := by simp; omega
  unfold setAt
  refine ⟨?_, ?_, ?_⟩
  · rw [List.take_append_of_le_length (by rw [hl])]
    exact List.take_of_length_le (by rw [hl])
  · rw [List.drop_append_of_le_length (by rw [hl])]
    rw [List.drop_of_length_le (by rw [hl])]; rfl
  · simp; omega

theorem take_succ_getD (x : List Nat) (i : Nat) (hi : i < x.length) : x.take (i + 1) = x.take i ++ [x.getD i 0] := by
  rw [List.take_add_one, List.getD_eq_getElem?_getD, List.getElem?_eq_getElem hi]; simp

theorem or_low (a x k : Nat) (ha : 2 ^ k ∣ a) (hx : x < 2 ^ k) : a ||| x = a + x := by
  obtain ⟨m, rfl⟩ := ha
  exact (Nat.two_pow_add_eq_or_of_lt hx m).symm

/-- masking limb n−1 of an n-limb vector to 64−k bits reduces it modulo 2^(64n−k) -/
theorem mask_top_mod (x : List Nat) (n k : Nat) (hx : Limbs x) (hl : x.length = n) (hn : 1 ≤ n) (hk : k ≤ 64) :
    val (setAt x (n - 1) (x.getD (n - 1) 0 &&& (2 ^ (64 - k) - 1))) = val x % 2 ^ (64 * n - k) ∧
    (setAt x (n - 1) (x.getD (n - 1) 0 &&& (2 ^ (64 - k) - 1))).length = n ∧
    Limbs (setAt x (n - 1) (x.getD (n - 1) 0 &&& (2 ^ (64 - k) - 1))) := by
  have e : setAt x (n - 1) (x.getD (n - 1) 0 &&& (2 ^ (64 - k) - 1)) = maskTop x (2 ^ (64 - k) - 1) := by
    unfold setAt maskTop
    rw [hl, show n - 1 + 1 = n by omega, List.drop_of_length_le (by omega)]; simp
  rw [e]
  obtain ⟨v, l, L⟩ := val_maskTop x (64 - k) hx (by omega)
  rw [hl] at v l
  refine ⟨?_, l, L⟩
  rw [v, B_pow_two', ← pow_add]; congr 2; omega

/-- the final reduction of the masked path: from lo − hi over n limbs to the canonical residue modulo Q + 1,
    Q = 2^b, B^n = Q·2^k -/
theorem masked_fold (Q K lo hi xp c2 x' cc : Nat) (_hQ : 0 < Q) (hK : 1 ≤ K) (hlo : lo < Q) (hhi : hi < Q)
    (hc2 : c2 ≤ 1) (hcc : cc ≤ 1) (hx' : x' < Q * K)
    (h7 : xp + hi = lo + Q * K * c2) (hxp : xp < Q * K) (h8 : x' + Q * K * cc = xp + c2) :
    x' % Q + Q * cc ≤ Q ∧
    ∃ q : Int, ((x' % Q : Nat) : Int) + (Q : Int) * cc = (lo : Int) - hi + q * ((Q : Int) + 1) := by
  have hc : c2 = 0 ∨ c2 = 1 := by omega
  rcases hc with h0 | h1
  · subst h0
    simp only [Nat.mul_zero, Nat.add_zero] at h7 h8
    have hcc0 : cc = 0 := by
      by_contra hne
      have : cc = 1 := by omega
      subst this; simp only [Nat.mul_one] at h8; omega
    subst hcc0
    simp only [Nat.mul_zero, Nat.add_zero] at h8 ⊢
    have hxq : x' < Q := by omega
    rw [Nat.mod_eq_of_lt hxq]
    refine ⟨by omega, 0, ?_⟩
    push_cast; omega
  · subst h1
    simp only [Nat.mul_one] at h7 h8
    by_cases hz : lo + 1 = hi
    · have hcc1 : cc = 1 := by
        by_contra hne
        have : cc = 0 := by omega
        subst this; simp only [Nat.mul_zero, Nat.add_zero] at h8; omega
      subst hcc1
      simp only [Nat.mul_one] at h8 ⊢
      have hx0 : x' = 0 := by omega
      subst hx0
      refine ⟨by simp, 1, ?_⟩
      simp only [Nat.zero_mod]; push_cast; omega
    · have hcc0 : cc = 0 := by
        by_contra hne
        have : cc = 1 := by omega
        subst this; simp only [Nat.mul_one] at h8; omega
      subst hcc0
      simp only [Nat.mul_zero, Nat.add_zero] at h8 ⊢
      obtain ⟨K', rfl⟩ : ∃ K', K = K' + 1 := ⟨K - 1, by omega⟩
      have hform : x' = (Q + lo + 1 - hi) + Q * K' := by
        have : Q * (K' + 1) = Q * K' + Q := by ring
        omega
      have hr : Q + lo + 1 - hi < Q := by omega
      rw [hform, Nat.add_mul_mod_self_left, Nat.mod_eq_of_lt hr]
      refine ⟨by omega, 1, ?_⟩
      have : ((Q + lo + 1 - hi : Nat) : Int) = (Q : Int) + lo + 1 - hi := by omega
      rw [this]; ring

theorem size_facts_k (n k : Nat) (hn : 1 ≤ n) (hk1 : 1 ≤ k) (hk : k ≤ 63) :
    (64 * n - k + 63) / 64 = n ∧ 64 * n - (64 * n - k) = k := by
  constructor <;> omega

theorem two_pow_b (n k : Nat) (hn : 1 ≤ n) (hk : k ≤ 63) : 2 ^ (64 * n - k) = B ^ (n - 1) * 2 ^ (64 - k) := by
  rw [B_pow_two', ← pow_add]; congr 1; omega

theorem Bn_eq (n k : Nat) (hn : 1 ≤ n) (hk : k ≤ 63) : B ^ n = 2 ^ (64 * n - k) * 2 ^ k := by
  rw [B_pow_two', ← pow_add]; congr 1; omega

/-- mpn_mulmod_2expp1_internal, b = 64·n − k with 0 < k < 64 (mulmod_2expp1_basecase.c:96-99, 108-123) -/
theorem internal_spec_k (yp zp : List Nat) (n k : Nat) (hn : 1 ≤ n) (hk1 : 1 ≤ k) (hk : k ≤ 63)
    (hyb : val yp < 2 ^ (64 * n - k)) (hzb : val zp < 2 ^ (64 * n - k)) :
    (mulmod_2expp1_internal yp zp (64 * n - k)).1.length = n ∧ Limbs (mulmod_2expp1_internal yp zp (64 * n - k)).1 ∧
    (mulmod_2expp1_internal yp zp (64 * n - k)).2 ≤ 1 ∧
    val (mulmod_2expp1_internal yp zp (64 * n - k)).1 + 2 ^ (64 * n - k) * (mulmod_2expp1_internal yp zp (64 * n - k)).2
      ≤ 2 ^ (64 * n - k) ∧
    ∃ q : Int, (val (mulmod_2expp1_internal yp zp (64 * n - k)).1 : Int) +
      2 ^ (64 * n - k) * (mulmod_2expp1_internal yp zp (64 * n - k)).2 =
        (val yp : Int) * val zp + q * (2 ^ (64 * n - k) + 1) := by
  obtain ⟨s1, s2⟩ := size_facts_k n k hn hk1 hk
  have hk0 : k ≠ 0 := by omega
  set Q := 2 ^ (64 * n - k) with hQ
  have hQpos : 0 < Q := Nat.two_pow_pos _
  have hBn := Bn_eq n k hn hk
  have hQb := two_pow_b n k hn hk
  rw [← hQ] at hBn hQb
  -- the product
  obtain ⟨tv, tl, tL⟩ := toLimbs_spec (2 * n) (val yp * val zp)
  have hPQ : val yp * val zp < Q * Q := Nat.mul_lt_mul'' hyb hzb
  have hQB : Q ≤ B ^ n := by rw [hBn]; exact Nat.le_mul_of_pos_right _ (Nat.two_pow_pos _)
  have hP : val yp * val zp < B ^ (2 * n) := by
    rw [two_mul, pow_add]; exact lt_of_lt_of_le hPQ (Nat.mul_le_mul hQB hQB)
  rw [Nat.mod_eq_of_lt hP] at tv
  generalize hPdef : val yp * val zp = P at *
  set tp := toLimbs (2 * n) P with htp
  -- the pieces of tp
  set c := tp.getD (n - 1) 0 with hc
  have hcB : c < B := Limbs_getD tp tL _
  have hidx : n - 1 < tp.length := by omega
  have hn1 : n - 1 + 1 = n := by omega
  obtain ⟨p1, p2, p3⟩ := setAt_parts tp (n - 1) (c &&& (2 ^ (64 - k) - 1)) hidx
  rw [hn1] at p1 p2
  set tp1 := setAt tp (n - 1) (c &&& (2 ^ (64 - k) - 1)) with htp1
  have hand : c &&& (2 ^ (64 - k) - 1) = c % 2 ^ (64 - k) := Nat.and_two_pow_sub_one_eq_mod _ _
  -- U = P / B^n and the decomposition P = L + B^(n-1) (c + B U)
  have hLl : (tp.take (n - 1)).length = n - 1 := by simp; omega
  have hLv := val_lt _ (Limbs_take tL (n - 1)); rw [hLl] at hLv
  have hdec : P = val (tp.take (n - 1)) + B ^ (n - 1) * (c + B * val (tp.drop n)) := by
    have e1 := val_take_drop tp n (by omega)
    rw [tv] at e1
    have e2 : val (tp.take n) = val (tp.take (n - 1)) + B ^ (n - 1) * c := by
      have := take_succ_getD tp (n - 1) hidx
      rw [hn1] at this; rw [this, val_snoc, hLl]
    have e3 : B ^ n = B ^ (n - 1) * B := by rw [← pow_succ, hn1]
    rw [e1, e2, e3]; ring
  -- lo = P % Q
  have hlo : val (tp1.take n) = P % Q ∧ (tp1.take n).length = n ∧ Limbs (tp1.take n) := by
    rw [p1, hand]
    refine ⟨?_, by simp [hLl]; omega, Limbs_snoc.mpr ⟨Limbs_take tL _, lt_of_le_of_lt (Nat.mod_le _ _) hcB⟩⟩
    rw [val_snoc, hLl, hdec, hQb, add_mul_mod_mul _ _ _ _ hLv]
    congr 2
    rw [B_split (64 - k) (by omega), Nat.mul_assoc, Nat.add_mul_mod_self_left]
  -- up = tp.drop n
  have hupl : (tp.drop n).length = n := by simp; omega
  have hupL : Limbs (tp.drop n) := Limbs_drop tL _
  -- hiV = P / Q
  have hPdivQ : P / Q = val (tp.drop n) * 2 ^ k + c / 2 ^ (64 - k) := by
    rw [hdec, hQb, ← Nat.div_div_eq_div_mul, Nat.add_mul_div_left _ _ (Bpow_pos _), Nat.div_eq_of_lt hLv, Nat.zero_add]
    have e : B = 2 ^ (64 - k) * 2 ^ k := by
      have := B_split (64 - k) (by omega); rw [show 64 - (64 - k) = k by omega] at this; exact this
    rw [e, Nat.mul_assoc, Nat.add_mul_div_left _ _ (Nat.two_pow_pos _)]; ring
  have hhiVQ : P / Q < Q := (Nat.div_lt_iff_lt_mul hQpos).mpr hPQ
  -- the shift of the upper half
  obtain ⟨lv, lc, ll, ln⟩ := lshiftGo_val k (by omega) (tp.drop n) 0 hupL (Nat.two_pow_pos _)
  rw [hupl, Nat.add_zero] at lv
  rw [hupl] at ln
  have hsh : lshift (tp.drop n) k = ((lshiftGo k (tp.drop n) 0).1, (lshiftGo k (tp.drop n) 0).2) := rfl
  set hi := (lshiftGo k (tp.drop n) 0).1 with hhi
  set c1 := (lshiftGo k (tp.drop n) 0).2 with hc1
  have hc10 : c1 = 0 := by
    by_contra hne
    have h1 : B ^ n * 1 ≤ B ^ n * c1 := Nat.mul_le_mul_left _ (Nat.one_le_iff_ne_zero.mpr hne)
    have h2 : val (tp.drop n) * 2 ^ k < B ^ n :=
      lt_of_le_of_lt (by rw [hPdivQ]; exact Nat.le_add_right _ _) (lt_of_lt_of_le hhiVQ hQB)
    generalize B ^ n = BN at *
    generalize val (tp.drop n) * 2 ^ k = W at *
    omega
  rw [hc10, Nat.mul_zero, Nat.add_zero] at lv
  -- hi1
  obtain ⟨h0, hrest, hhi0⟩ : ∃ h0 hrest, hi = h0 :: hrest := List.exists_cons_of_length_pos (by omega)
  have ⟨hh0B, hrestL⟩ := Limbs_cons.mp (hhi0 ▸ ll)
  have hx : c >>> (64 - k) < 2 ^ k := by
    rw [Nat.shiftRight_eq_div_pow, Nat.div_lt_iff_lt_mul (Nat.two_pow_pos _)]
    have := B_split k (by omega); rw [this] at hcB; exact hcB
  have hdvd : 2 ^ k ∣ h0 := by
    have hv : val hi = h0 + B * val hrest := by rw [hhi0]; rfl
    have d1 : 2 ^ k ∣ val hi := by rw [lv]; exact Dvd.intro_left _ rfl
    have d2 : 2 ^ k ∣ B * val hrest := Dvd.dvd.mul_right (two_pow_dvd_B k (by omega)) _
    rw [hv] at d1
    exact (Nat.dvd_add_left d2).mp d1
  have hset : setAt hi 0 (hi.getD 0 0 ||| (c >>> (64 - k))) = (h0 + c / 2 ^ (64 - k)) :: hrest := by
    rw [hhi0]; unfold setAt
    simp only [List.getD_cons_zero, List.take_zero, List.nil_append, Nat.zero_add, List.drop_succ_cons, List.drop_zero,
      List.singleton_append]
    rw [or_low _ _ k hdvd hx, Nat.shiftRight_eq_div_pow]
  have hnewB : h0 + c / 2 ^ (64 - k) < B := by
    have : h0 ||| (c >>> (64 - k)) < 2 ^ 64 := Nat.or_lt_two_pow hh0B (lt_of_lt_of_le hx (Nat.pow_le_pow_right (by norm_num) (by omega)))
    rw [or_low _ _ k hdvd hx, Nat.shiftRight_eq_div_pow] at this; exact this
  have hhi1 : val ((h0 + c / 2 ^ (64 - k)) :: hrest) = P / Q ∧ ((h0 + c / 2 ^ (64 - k)) :: hrest).length = n ∧
      Limbs ((h0 + c / 2 ^ (64 - k)) :: hrest) := by
    refine ⟨?_, by rw [← ln, hhi0]; simp, Limbs_cons.mpr ⟨hnewB, hrestL⟩⟩
    have hv : val hi = h0 + B * val hrest := by rw [hhi0]; rfl
    rw [hPdivQ, ← lv, hv]; simp only [val_cons]; ring
  -- unfold the model
  have e : mulmod_2expp1_internal yp zp (64 * n - k) =
      (setAt (add_1 (sub_n (tp1.take n) ((h0 + c / 2 ^ (64 - k)) :: hrest)).1
            ((sub_n (tp1.take n) ((h0 + c / 2 ^ (64 - k)) :: hrest)).2 + 0)).1 (n - 1)
          ((add_1 (sub_n (tp1.take n) ((h0 + c / 2 ^ (64 - k)) :: hrest)).1
            ((sub_n (tp1.take n) ((h0 + c / 2 ^ (64 - k)) :: hrest)).2 + 0)).1.getD (n - 1) 0 &&& (2 ^ (64 - k) - 1)),
        (add_1 (sub_n (tp1.take n) ((h0 + c / 2 ^ (64 - k)) :: hrest)).1
            ((sub_n (tp1.take n) ((h0 + c / 2 ^ (64 - k)) :: hrest)).2 + 0)).2) := by
    unfold mulmod_2expp1_internal
    simp only [s1, s2, hk0, ↓reduceIte, hPdef]
    rw [← htp, ← hc, ← htp1, p2, hsh, ← hhi, ← hc1, hset, hc10]
  rw [e]
  -- sub_n and add_1
  obtain ⟨sv, sc, sL, sn⟩ := subNC_val (tp1.take n) ((h0 + c / 2 ^ (64 - k)) :: hrest) 0 hlo.2.2 hhi1.2.2
    (by rw [hlo.2.1, hhi1.2.1]) (by omega)
  have hsub : sub_n (tp1.take n) ((h0 + c / 2 ^ (64 - k)) :: hrest) = subNC (tp1.take n) ((h0 + c / 2 ^ (64 - k)) :: hrest) 0 := rfl
  rw [← hsub, hlo.1, hhi1.1, hlo.2.1] at sv
  rw [← hsub] at sc sL
  rw [← hsub, hlo.2.1] at sn
  generalize sub_n (tp1.take n) ((h0 + c / 2 ^ (64 - k)) :: hrest) = sb at *
  obtain ⟨av, ac, aL, an⟩ := add_1_spec sb.1 (sb.2 + 0) sL (by omega) (by have := B_eq; omega)
  rw [sn] at av an
  generalize add_1 sb.1 (sb.2 + 0) = ad at *
  obtain ⟨mv, ml, mL⟩ := mask_top_mod ad.1 n k aL an hn (by omega)
  rw [← hQ] at mv
  refine ⟨ml, mL, ac, ?_⟩
  rw [mv]
  have hxpv := val_lt sb.1 sL; rw [sn] at hxpv
  have hadv := val_lt ad.1 aL; rw [an] at hadv
  rw [hBn] at sv av hxpv hadv
  have hloQ : P % Q < Q := Nat.mod_lt _ hQpos
  obtain ⟨f1, q, fq⟩ := masked_fold Q (2 ^ k) (P % Q) (P / Q) (val sb.1) sb.2 (val ad.1) ad.2 hQpos
    (Nat.one_le_two_pow) hloQ hhiVQ sc ac hadv (by omega) hxpv (by omega)
  refine ⟨f1, q - (P / Q : Nat), ?_⟩
  have hdm := Nat.div_add_mod P Q
  have hQi : (2 : Int) ^ (64 * n - k) = (Q : Int) := by rw [hQ]; push_cast; rfl
  have hPi : (val yp : Int) * val zp = (P : Int) := by rw [← hPdef]; push_cast; rfl
  rw [hQi, hPi]
  generalize val ad.1 % Q = R at *
  generalize P / Q = D at *
  generalize P % Q = M at *
  have hdm' := congrArg (fun z : Nat => (z : Int)) hdm
  push_cast at hdm' fq ⊢
  rw [fq]
  linear_combination hdm'

/-- the negation branch (:182-184, :191-193) for b = 64·n − k -/
theorem negmask_spec_k (u : List Nat) (n k : Nat) (hn : 1 ≤ n) (hk1 : 1 ≤ k) (hk : k ≤ 63) (hu : Limbs u)
    (hl : u.length = n) (hub : val u < 2 ^ (64 * n - k)) :
    let ad := add_1 (neg_n u).1 (neg_n u).2
    let x := setAt ad.1 (n - 1) (ad.1.getD (n - 1) 0 &&& (2 ^ (64 - k) - 1))
    x.length = n ∧ Limbs x ∧ ad.2 ≤ 1 ∧ val x + 2 ^ (64 * n - k) * ad.2 ≤ 2 ^ (64 * n - k) ∧
    ∃ q : Int, (val x : Int) + 2 ^ (64 * n - k) * ad.2 = -(val u : Int) + q * (2 ^ (64 * n - k) + 1) := by
  intro ad x
  set Q := 2 ^ (64 * n - k) with hQ
  have hQpos : 0 < Q := Nat.two_pow_pos _
  have hBn := Bn_eq n k hn hk
  rw [← hQ] at hBn
  obtain ⟨nv, ncase, nL, nn⟩ := negNC_zero_val u hu
  have hneg : neg_n u = negNC u 0 := rfl
  rw [← hneg, hl] at nv nn
  rw [← hneg] at ncase nL
  have hc1 : (neg_n u).2 ≤ 1 := by rcases ncase with ⟨h, _⟩ | ⟨h, _⟩ <;> omega
  obtain ⟨av, ac, aL, an⟩ := add_1_spec (neg_n u).1 (neg_n u).2 nL (by omega) (by have := B_eq; omega)
  have had : ad = add_1 (neg_n u).1 (neg_n u).2 := rfl
  rw [← had, nn] at av an
  rw [← had] at ac aL
  obtain ⟨mv, ml, mL⟩ := mask_top_mod ad.1 n k aL an hn (by omega)
  have hx : x = setAt ad.1 (n - 1) (ad.1.getD (n - 1) 0 &&& (2 ^ (64 - k) - 1)) := rfl
  rw [← hx, ← hQ] at mv; rw [← hx] at ml mL
  refine ⟨ml, mL, ac, ?_⟩
  rw [mv]
  have hxpv := val_lt (neg_n u).1 nL; rw [nn] at hxpv
  have hadv := val_lt ad.1 aL; rw [an] at hadv
  rw [hBn] at nv av hxpv hadv
  obtain ⟨f1, q, fq⟩ := masked_fold Q (2 ^ k) 0 (val u) (val (neg_n u).1) (neg_n u).2 (val ad.1) ad.2 hQpos
    (Nat.one_le_two_pow) hQpos hub hc1 ac hadv (by omega) hxpv (by omega)
  refine ⟨f1, q, ?_⟩
  have hQi : (2 : Int) ^ (64 * n - k) = (Q : Int) := by rw [hQ]; push_cast; rfl
  rw [hQi]
  generalize val ad.1 % Q = R at *
  push_cast at fq ⊢
  rw [fq]; ring

/-- the operand a flag stands for, modulo 2^b + 1 -/
def flaggedb (flag : Nat) (b : Nat) (u : List Nat) : Int := if flag = 1 then (2 : Int) ^ b else (val u : Int)

theorem basecase_unfold_k (yp zp : List Nat) (c n k : Nat) (hn : 1 ≤ n) (hk1 : 1 ≤ k) (hk : k ≤ 63) :
    mulmod_2expp1_basecase yp zp c (64 * n - k) =
      if c / 2 % 2 = 0 then
        if c % 2 = 0 then mulmod_2expp1_internal yp zp (64 * n - k)
        else (setAt (add_1 (neg_n yp).1 (neg_n yp).2).1 (n - 1)
               ((add_1 (neg_n yp).1 (neg_n yp).2).1.getD (n - 1) 0 &&& (2 ^ (64 - k) - 1)),
              (add_1 (neg_n yp).1 (neg_n yp).2).2)
      else
        if c % 2 = 0 then
          (setAt (add_1 (neg_n zp).1 (neg_n zp).2).1 (n - 1)
             ((add_1 (neg_n zp).1 (neg_n zp).2).1.getD (n - 1) 0 &&& (2 ^ (64 - k) - 1)),
            (add_1 (neg_n zp).1 (neg_n zp).2).2)
        else (1 :: List.replicate (n - 1) 0, 0) := by
  obtain ⟨s1, s2⟩ := size_facts_k n k hn hk1 hk
  unfold mulmod_2expp1_basecase
  simp only [s1, s2]

theorem basecase_spec_k (yp zp : List Nat) (c n k : Nat) (hn : 1 ≤ n) (hk1 : 1 ≤ k) (hk : k ≤ 63)
    (hy : Limbs yp) (hz : Limbs zp) (hly : yp.length = n) (hlz : zp.length = n)
    (hyb : val yp < 2 ^ (64 * n - k)) (hzb : val zp < 2 ^ (64 * n - k)) :
    (mulmod_2expp1_basecase yp zp c (64 * n - k)).1.length = n ∧
    Limbs (mulmod_2expp1_basecase yp zp c (64 * n - k)).1 ∧
    (mulmod_2expp1_basecase yp zp c (64 * n - k)).2 ≤ 1 ∧
    val (mulmod_2expp1_basecase yp zp c (64 * n - k)).1 +
      2 ^ (64 * n - k) * (mulmod_2expp1_basecase yp zp c (64 * n - k)).2 ≤ 2 ^ (64 * n - k) ∧
    ((val (mulmod_2expp1_basecase yp zp c (64 * n - k)).1 : Int) +
      2 ^ (64 * n - k) * (mulmod_2expp1_basecase yp zp c (64 * n - k)).2 ≡
        flaggedb (c / 2 % 2) (64 * n - k) yp * flaggedb (c % 2) (64 * n - k) zp [ZMOD 2 ^ (64 * n - k) + 1]) := by
  rw [basecase_unfold_k _ _ _ _ _ hn hk1 hk]
  have hy2 : c / 2 % 2 = 0 ∨ c / 2 % 2 = 1 := by omega
  have hz2 : c % 2 = 0 ∨ c % 2 = 1 := by omega
  have fl0 : ∀ u, flaggedb 0 (64 * n - k) u = (val u : Int) := fun u => by simp [flaggedb]
  have fl1 : ∀ u, flaggedb 1 (64 * n - k) u = (2 : Int) ^ (64 * n - k) := fun u => by simp [flaggedb]
  have hmod : ∀ a b : Int, (∃ q : Int, a = b + q * (2 ^ (64 * n - k) + 1)) → a ≡ b [ZMOD 2 ^ (64 * n - k) + 1] := by
    intro a b ⟨q, hq⟩
    rw [Int.modEq_iff_dvd]; exact ⟨-q, by rw [hq]; ring⟩
  rcases hy2 with cy | cy <;> rcases hz2 with cz | cz <;>
    simp only [cy, cz, ↓reduceIte, one_ne_zero, fl0, fl1]
  · obtain ⟨i1, i2, i3, i4, q, iq⟩ := internal_spec_k yp zp n k hn hk1 hk hyb hzb
    exact ⟨i1, i2, i3, i4, hmod _ _ ⟨q, iq⟩⟩
  · obtain ⟨f1, f2, f3, f4, q, fq⟩ := negmask_spec_k yp n k hn hk1 hk hy hly hyb
    exact ⟨f1, f2, f3, f4, hmod _ _ ⟨q - val yp, by rw [fq]; ring⟩⟩
  · obtain ⟨f1, f2, f3, f4, q, fq⟩ := negmask_spec_k zp n k hn hk1 hk hz hlz hzb
    exact ⟨f1, f2, f3, f4, hmod _ _ ⟨q - val zp, by rw [fq]; ring⟩⟩
  · have hv : val (1 :: List.replicate (n - 1) 0) = 1 := by simp [val_replicate_zero]
    have hL : Limbs (1 :: List.replicate (n - 1) 0) :=
      Limbs_cons.mpr ⟨by rw [B_eq]; norm_num, Limbs_replicate_zero _⟩
    refine ⟨by simp; omega, hL, by omega, ?_, ?_⟩
    · rw [hv]; simp only [Nat.mul_zero, Nat.add_zero]; exact Nat.one_le_two_pow
    · rw [hv]; exact hmod _ _ ⟨-(2 ^ (64 * n - k) - 1), by push_cast; ring⟩

end Mpir.Fft
