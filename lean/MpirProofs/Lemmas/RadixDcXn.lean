/- C06 — the size `xn` of the power table of mpn_get_str (get_str.c:412), computed in binary64:
   a lower bound that makes the top power large enough, for operands below 2^36 limbs. -/
import MpirProofs.Lemmas.Radix
import Mpir.Model.RadixDc
import Mathlib.Tactic.FieldSimp
import Mathlib.Tactic.Positivity
import Mathlib.Tactic.NormNum
import Mathlib.Algebra.Order.Field.Basic
import Mathlib.Algebra.Order.Ring.Rat
namespace Mpir.RadixDc
open Mpir Mpir.Radix

/-- value of a rounded result `(m, up, down)` = `m·2^up / 2^down` -/
def rv (r : Nat × Nat × Nat) : ℚ := ((r.1 <<< r.2.1 : Nat) : ℚ) / (2 : ℚ) ^ r.2.2

/-- every rounding loses less than this factor -/
def sigma : ℚ := 1 - 1 / 2 ^ 50

theorem sigma_pos : 0 < sigma := by unfold sigma; norm_num

theorem rnRat_ge {num den : Nat} (hn : 0 < num) (hd : 0 < den) :
    (num : ℚ) / den * sigma ≤ rv (rnRat num den) := by
  unfold rnRat
  rw [if_neg (by omega)]
  simp only []
  have hl1 : den < 2 ^ (Nat.log2 den + 1) := Nat.lt_log2_self
  generalize hs : 64 + Nat.log2 den = s at *
  have hN : num <<< s = num * 2 ^ s := Nat.shiftLeft_eq _ _
  rw [hN]
  generalize hNN : num * 2 ^ s = N at *
  have h2s : 2 ^ 63 * den < 2 ^ s := by
    rw [← hs, show 64 + Nat.log2 den = 63 + (Nat.log2 den + 1) by omega, pow_add]
    exact Nat.mul_lt_mul_of_pos_left hl1 (by positivity)
  have hNs : 2 ^ s ≤ N := by rw [← hNN]; exact Nat.le_mul_of_pos_left _ hn
  have hQ63 : 2 ^ 63 ≤ N / den := (Nat.le_div_iff_mul_le hd).mpr (by omega)
  have hdm := Nat.div_add_mod N den
  have hml := Nat.mod_lt N hd
  generalize hQ : N / den = Q at *
  have hQ0 : Q ≠ 0 := by
    have : 0 < 2 ^ 63 := by positivity
    omega
  have hL : 2 ^ Nat.log2 Q ≤ Q := Nat.log2_self_le hQ0
  have hL63 : 63 ≤ Nat.log2 Q := (Nat.le_log2 hQ0).mpr hQ63
  generalize hsh : Nat.log2 Q + 1 - 53 = sh at *
  have hshQ : 2 ^ sh * 2 ^ 52 ≤ Q := by
    rw [← pow_add, show sh + 52 = Nat.log2 Q by omega]; exact hL
  rw [Nat.shiftRight_eq_div_pow]
  have hqd := Nat.div_add_mod Q (2 ^ sh)
  have hqm := Nat.mod_lt Q (show 0 < 2 ^ sh by positivity)
  generalize hq : Q / 2 ^ sh = q at *
  -- the rounded mantissa is at least q
  have hge : ∀ up : Bool, q ≤ (if up = true then q + 1 else q) := by intro up; split <;> omega
  generalize (decide (Q % 2 ^ sh > 2 ^ (sh - 1)) || (Q % 2 ^ sh == 2 ^ (sh - 1) && (N % den != 0 || q % 2 == 1))) = up
  have hm := hge up
  generalize (if up = true then q + 1 else q) = m at *
  unfold rv
  simp only [Nat.shiftLeft_eq]
  -- everything in ℚ
  have c1 : (Q : ℚ) * den ≤ N := by
    have : Q * den ≤ N := by rw [Nat.mul_comm]; omega
    exact_mod_cast this
  have c2 : (N : ℚ) < Q * den + den := by
    have : N < Q * den + den := by rw [Nat.mul_comm]; omega
    exact_mod_cast this
  have c3 : (Q : ℚ) < q * 2 ^ sh + 2 ^ sh := by
    have : Q < q * 2 ^ sh + 2 ^ sh := by rw [Nat.mul_comm]; omega
    exact_mod_cast this
  have c4 : (2 : ℚ) ^ sh * 2 ^ 52 ≤ Q := by exact_mod_cast hshQ
  have c5 : (2 : ℚ) ^ 63 ≤ Q := by exact_mod_cast hQ63
  have c6 : (q : ℚ) ≤ m := by exact_mod_cast hm
  have c7 : (N : ℚ) = num * 2 ^ s := by rw [← hNN]; push_cast; ring
  have dpos : (0 : ℚ) < den := by exact_mod_cast hd
  have spos : (0 : ℚ) < 2 ^ s := by positivity
  have shpos : (0 : ℚ) < 2 ^ sh := by positivity
  push_cast
  rw [div_mul_eq_mul_div, div_le_div_iff₀ dpos spos]
  -- num·σ·2^s ≤ m·2^sh·den
  have e1 : (q : ℚ) * 2 ^ sh * den ≤ m * 2 ^ sh * den := by
    apply mul_le_mul_of_nonneg_right _ dpos.le
    exact mul_le_mul_of_nonneg_right c6 shpos.le
  -- Q·den·(1 - 2^-52) < q·2^sh·den
  have e2 : (Q : ℚ) * den * (1 - 1 / 2 ^ 52) ≤ q * 2 ^ sh * den := by
    have : (Q : ℚ) * (1 - 1 / 2 ^ 52) ≤ q * 2 ^ sh := by
      have : (2 : ℚ) ^ sh ≤ Q / 2 ^ 52 := by rw [le_div_iff₀ (by positivity)]; exact c4
      linarith
    calc (Q : ℚ) * (den : ℚ) * (1 - 1 / 2 ^ 52) = (Q : ℚ) * (1 - 1 / 2 ^ 52) * (den : ℚ) := by ring
      _ ≤ (q : ℚ) * 2 ^ sh * (den : ℚ) := mul_le_mul_of_nonneg_right this dpos.le
  -- den ≤ Q·den / 2^63
  have e3 : (den : ℚ) ≤ Q * den / 2 ^ 63 := by
    rw [le_div_iff₀ (by positivity)]
    calc (den : ℚ) * 2 ^ 63 = 2 ^ 63 * (den : ℚ) := by ring
      _ ≤ (Q : ℚ) * (den : ℚ) := mul_le_mul_of_nonneg_right c5 dpos.le
  rw [show (num : ℚ) * sigma * 2 ^ s = (N : ℚ) * sigma by rw [c7]; ring]
  unfold sigma
  have hA : (0 : ℚ) ≤ (Q : ℚ) * (den : ℚ) := by positivity
  generalize (Q : ℚ) * den = A at *
  generalize (q : ℚ) * 2 ^ sh * den = X at *
  generalize (m : ℚ) * 2 ^ sh * den = Y at *
  -- N < A(1 + 2^-63), A(1 - 2^-52) ≤ X ≤ Y, goal N(1 - 2^-50) ≤ Y
  have hNA : (N : ℚ) ≤ A * (1 + 1 / 2 ^ 63) := by linarith
  have hk : (1 + 1 / 2 ^ 63 : ℚ) * (1 - 1 / 2 ^ 50) ≤ 1 - 1 / 2 ^ 52 := by norm_num
  calc (N : ℚ) * (1 - 1 / 2 ^ 50) ≤ A * (1 + 1 / 2 ^ 63) * (1 - 1 / 2 ^ 50) :=
        mul_le_mul_of_nonneg_right hNA (by norm_num)
    _ = A * ((1 + 1 / 2 ^ 63) * (1 - 1 / 2 ^ 50)) := by ring
    _ ≤ A * (1 - 1 / 2 ^ 52) := mul_le_mul_of_nonneg_left hk hA
    _ ≤ Y := by linarith

theorem rv_pos_num {r : Nat × Nat × Nat} (h : 0 < rv r) : 0 < r.1 <<< r.2.1 := by
  unfold rv at h
  by_contra hcon
  have : r.1 <<< r.2.1 = 0 := Nat.eq_zero_of_not_pos hcon
  rw [this] at h; simp at h

theorem rv_eq (r : Nat × Nat × Nat) : ((r.1 <<< r.2.1 : Nat) : ℚ) = rv r * 2 ^ r.2.2 := by
  unfold rv; field_simp

/-- the binary64 evaluation of `1 + un·(c·64)/chars_per_limb` loses less than four roundings and the
    truncation -/
theorem xnOf_gt {b un : Nat} (hun : 0 < un) (hcpl : 0 < charsPerLimb b) (hM : 0 < dM b) :
    sigma + (un : ℚ) * ((dM b : ℚ) * 64 / 2 ^ dk b) / charsPerLimb b * sigma ^ 4 < (xnOf b un : ℚ) + 1 := by
  have hdec : decodeDouble (cpbeBits b) = (dM b, dk b) := rfl
  have hs := sigma_pos
  unfold xnOf
  simp only [hdec]
  generalize dM b = M at *
  generalize dk b = k at *
  generalize charsPerLimb b = cpl at *
  have hMq : (0 : ℚ) < M := by exact_mod_cast hM
  have hcq : (0 : ℚ) < cpl := by exact_mod_cast hcpl
  have huq : (0 : ℚ) < un := by exact_mod_cast hun
  -- (double) un
  have ha := rnRat_ge hun (show 0 < 1 by omega)
  simp only [Nat.cast_one, div_one] at ha
  generalize rnRat un 1 = a at *
  have hapos : 0 < rv a := lt_of_lt_of_le (by positivity) ha
  have han := rv_pos_num hapos
  -- un·(c·64)
  have h1 := rnRat_ge (num := (a.1 <<< a.2.1) * (M * 64)) (den := 2 ^ (a.2.2 + k))
    (Nat.mul_pos han (by omega)) (by positivity)
  have e1 : (((a.1 <<< a.2.1) * (M * 64) : Nat) : ℚ) / ((2 ^ (a.2.2 + k) : Nat) : ℚ) = rv a * ((M : ℚ) * 64 / 2 ^ k) := by
    push_cast
    rw [rv_eq a, pow_add]; field_simp
  rw [e1] at h1
  generalize rnRat ((a.1 <<< a.2.1) * (M * 64)) (2 ^ (a.2.2 + k)) = t1 at *
  have ht1pos : 0 < rv t1 := lt_of_lt_of_le (by positivity) h1
  have ht1n := rv_pos_num ht1pos
  -- / chars_per_limb
  have h2 := rnRat_ge (num := t1.1 <<< t1.2.1) (den := 2 ^ t1.2.2 * cpl) ht1n (by positivity)
  have e2 : ((t1.1 <<< t1.2.1 : Nat) : ℚ) / ((2 ^ t1.2.2 * cpl : Nat) : ℚ) = rv t1 / cpl := by
    push_cast
    rw [rv_eq t1]; field_simp
  rw [e2] at h2
  generalize rnRat (t1.1 <<< t1.2.1) (2 ^ t1.2.2 * cpl) = t2 at *
  have ht2pos : 0 < rv t2 := lt_of_lt_of_le (by positivity) h2
  -- 1 +
  have h3 := rnRat_ge (num := 2 ^ t2.2.2 + (t2.1 <<< t2.2.1)) (den := 2 ^ t2.2.2)
    (Nat.add_pos_left (by positivity) _) (by positivity)
  have e3 : ((2 ^ t2.2.2 + (t2.1 <<< t2.2.1) : Nat) : ℚ) / ((2 ^ t2.2.2 : Nat) : ℚ) = 1 + rv t2 := by
    push_cast
    rw [rv_eq t2]; field_simp
  rw [e3] at h3
  generalize rnRat (2 ^ t2.2.2 + (t2.1 <<< t2.2.1)) (2 ^ t2.2.2) = t3 at *
  -- truncation
  have h4 : rv t3 < (((t3.1 <<< t3.2.1) / 2 ^ t3.2.2 : Nat) : ℚ) + 1 := by
    have hd : 0 < 2 ^ t3.2.2 := by positivity
    have hdm := Nat.div_add_mod (t3.1 <<< t3.2.1) (2 ^ t3.2.2)
    have hml := Nat.mod_lt (t3.1 <<< t3.2.1) hd
    generalize (t3.1 <<< t3.2.1) / 2 ^ t3.2.2 = x at *
    have : t3.1 <<< t3.2.1 < (x + 1) * 2 ^ t3.2.2 := by
      rw [Nat.add_mul, Nat.one_mul, Nat.mul_comm]; omega
    have hq : ((t3.1 <<< t3.2.1 : Nat) : ℚ) < ((x : ℚ) + 1) * 2 ^ t3.2.2 := by exact_mod_cast this
    unfold rv
    rw [div_lt_iff₀ (by positivity)]; exact hq
  -- chain
  have c1 : rv t1 ≥ un * sigma * ((M : ℚ) * 64 / 2 ^ k) * sigma := by
    have : rv a * ((M : ℚ) * 64 / 2 ^ k) ≥ un * sigma * ((M : ℚ) * 64 / 2 ^ k) :=
      mul_le_mul_of_nonneg_right ha (by positivity)
    calc rv t1 ≥ rv a * ((M : ℚ) * 64 / 2 ^ k) * sigma := h1
      _ ≥ un * sigma * ((M : ℚ) * 64 / 2 ^ k) * sigma := mul_le_mul_of_nonneg_right this hs.le
  have c2 : rv t2 ≥ un * sigma * ((M : ℚ) * 64 / 2 ^ k) * sigma / cpl * sigma := by
    have : rv t1 / cpl ≥ un * sigma * ((M : ℚ) * 64 / 2 ^ k) * sigma / cpl :=
      div_le_div_of_nonneg_right c1 hcq.le
    calc rv t2 ≥ rv t1 / cpl * sigma := h2
      _ ≥ _ := mul_le_mul_of_nonneg_right this hs.le
  have c3 : rv t3 ≥ (1 + un * sigma * ((M : ℚ) * 64 / 2 ^ k) * sigma / cpl * sigma) * sigma := by
    calc rv t3 ≥ (1 + rv t2) * sigma := h3
      _ ≥ _ := mul_le_mul_of_nonneg_right (by linarith) hs.le
  calc sigma + (un : ℚ) * ((M : ℚ) * 64 / 2 ^ k) / cpl * sigma ^ 4
      = (1 + un * sigma * ((M : ℚ) * 64 / 2 ^ k) * sigma / cpl * sigma) * sigma := by ring
    _ ≤ rv t3 := c3
    _ < _ := h4

/-- per-base facts used for `xn` (all small numbers, checked by `decide`): the table constant `c` is at least
    `(u2/v2)(1 - 2^-38)` where `u2/v2 > log_b 2` is the upper Farey neighbour of the sizeinbase certificate,
    and `64·u2/(v2·chars_per_limb) ≥ 1` -/
def XnOk (b : Nat) : Prop :=
  (sibHint b).2.2.2.2.1 * 2 ^ dk b * (2 ^ 38 - 1) ≤ dM b * (sibHint b).2.2.2.2.2 * 2 ^ 38 ∧
  0 < (sibHint b).2.2.2.2.2 ∧ charsPerLimb b * (sibHint b).2.2.2.2.2 ≤ 64 * (sibHint b).2.2.2.2.1 ∧
  0 < dM b ∧ 0 < charsPerLimb b
instance (b : Nat) : Decidable (XnOk b) := by unfold XnOk; infer_instance

/-- the top power of the table is large enough: `B^(un-1) ≤ big_base^xn` for 1 ≤ un ≤ 2^36 -/
theorem xn_large {b : Nat} (hb : 2 ≤ b) (hx : XnOk b) (hbig : 2 ^ (sibHint b).2.2.2.2.2 < b ^ (sibHint b).2.2.2.2.1)
    {un : Nat} (h1 : 1 ≤ un) (hN : un ≤ 2 ^ 36) :
    B ^ (un - 1) ≤ (b ^ charsPerLimb b) ^ xnOf b un := by
  obtain ⟨hc, hv2, hal, hM, hcpl⟩ := hx
  have hgt := xnOf_gt (b := b) (un := un) (by omega) hcpl hM
  generalize (sibHint b).2.2.2.2.1 = u2 at *
  generalize (sibHint b).2.2.2.2.2 = v2 at *
  generalize dM b = M at *
  generalize dk b = k at *
  generalize charsPerLimb b = cpl at *
  generalize xnOf b un = xn at *
  -- (un-1)·64·u2 ≤ xn·cpl·v2
  have key : (un - 1) * 64 * u2 ≤ xn * cpl * v2 := by
    have hv2q : (0 : ℚ) < v2 := by exact_mod_cast hv2
    have hcq : (0 : ℚ) < cpl := by exact_mod_cast hcpl
    have hkq : (0 : ℚ) < 2 ^ k := by positivity
    have hcq' : (u2 : ℚ) * 2 ^ k * (2 ^ 38 - 1) ≤ M * v2 * 2 ^ 38 := by
      have : u2 * 2 ^ k * (2 ^ 38 - 1) ≤ M * v2 * 2 ^ 38 := hc
      have := (Nat.cast_le (α := ℚ)).mpr this
      push_cast at this
      norm_num at this ⊢; exact this
    have halq : (cpl : ℚ) * v2 ≤ 64 * u2 := by exact_mod_cast hal
    have hunq : (un : ℚ) ≤ 2 ^ 36 := by exact_mod_cast hN
    have hun1 : (1 : ℚ) ≤ un := by exact_mod_cast h1
    -- α' = 64 u2 / (v2 cpl) ≥ 1, c·64/cpl ≥ α'(1 - 2^-38)
    set al : ℚ := 64 * u2 / (v2 * cpl) with hal_def
    have hal1 : 1 ≤ al := by
      rw [hal_def, le_div_iff₀ (by positivity)]; linarith
    have hcal : al * (1 - 1 / 2 ^ 38) ≤ (M : ℚ) * 64 / 2 ^ k / cpl := by
      rw [hal_def, le_div_iff₀ hcq, le_div_iff₀ hkq, div_mul_eq_mul_div, div_mul_eq_mul_div, div_mul_eq_mul_div,
        div_le_iff₀ (by positivity)]
      have : (64 : ℚ) * u2 * (1 - 1 / 2 ^ 38) * cpl * 2 ^ k = (u2 * 2 ^ k * (2 ^ 38 - 1)) * (64 * cpl / 2 ^ 38) := by
        field_simp
      rw [this]
      calc (u2 : ℚ) * 2 ^ k * (2 ^ 38 - 1) * (64 * cpl / 2 ^ 38) ≤ M * v2 * 2 ^ 38 * (64 * cpl / 2 ^ 38) :=
            mul_le_mul_of_nonneg_right hcq' (by positivity)
        _ = M * 64 * (v2 * cpl) := by field_simp
    have hxq : al * (un - 1) < xn := by
      have hs4 : (1 - 1 / 2 ^ 38 : ℚ) * sigma ^ 4 ≥ 1 - 1 / 2 ^ 37 := by unfold sigma; norm_num
      have h2 : (un : ℚ) * ((M : ℚ) * 64 / 2 ^ k) / cpl * sigma ^ 4 ≥ un * al * (1 - 1 / 2 ^ 37) := by
        have e : (un : ℚ) * ((M : ℚ) * 64 / 2 ^ k) / cpl = un * ((M : ℚ) * 64 / 2 ^ k / cpl) := by ring
        rw [e]
        have s4 : (0 : ℚ) ≤ sigma ^ 4 := by have := sigma_pos; positivity
        calc (un : ℚ) * ((M : ℚ) * 64 / 2 ^ k / cpl) * sigma ^ 4
            ≥ un * (al * (1 - 1 / 2 ^ 38)) * sigma ^ 4 :=
              mul_le_mul_of_nonneg_right (mul_le_mul_of_nonneg_left hcal (by positivity)) s4
          _ = un * al * ((1 - 1 / 2 ^ 38) * sigma ^ 4) := by ring
          _ ≥ un * al * (1 - 1 / 2 ^ 37) := mul_le_mul_of_nonneg_left hs4 (by positivity)
      have h3 : (un : ℚ) * al ≤ 2 ^ 36 * al := mul_le_mul_of_nonneg_right hunq (by linarith)
      have hsig : sigma = 1 - 1 / 2 ^ 50 := rfl
      have : (un : ℚ) * al * (1 - 1 / 2 ^ 37) = un * al - un * al / 2 ^ 37 := by ring
      have h5 : (un : ℚ) * al / 2 ^ 37 ≤ al / 2 := by
        rw [div_le_div_iff₀ (by positivity) (by positivity)]; nlinarith
      nlinarith
    have : ((un - 1) * 64 * u2 : ℚ) < xn * cpl * v2 := by
      rw [hal_def, div_mul_eq_mul_div, div_lt_iff₀ (by positivity)] at hxq
      linarith
    have hcast : (((un - 1) * 64 * u2 : Nat) : ℚ) < ((xn * cpl * v2 : Nat) : ℚ) := by
      push_cast [Nat.cast_sub h1]; exact this
    exact Nat.le_of_lt (by exact_mod_cast hcast)
  -- from the exponent inequality to the powers
  have hb0 : 0 < b := by omega
  have c1 : (2 ^ v2) ^ (64 * (un - 1)) ≤ (b ^ u2) ^ (64 * (un - 1)) := Nat.pow_le_pow_left (Nat.le_of_lt hbig) _
  have c2 : (b ^ u2) ^ (64 * (un - 1)) ≤ (b ^ (cpl * xn)) ^ v2 := by
    rw [← pow_mul, ← pow_mul]; exact Nat.pow_le_pow_right hb0 (by nlinarith)
  have c3 : (2 ^ v2) ^ (64 * (un - 1)) = (2 ^ (64 * (un - 1))) ^ v2 := by
    rw [← pow_mul, ← pow_mul, Nat.mul_comm]
  rw [B_pow, ← pow_mul]
  exact (Nat.pow_le_pow_iff_left (by omega)).mp (c3 ▸ le_trans c1 c2)

end Mpir.RadixDc
