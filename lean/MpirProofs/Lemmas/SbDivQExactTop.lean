/-
  Lemmas for C02 part c02_sbq (mpn_sb_div_q): assembly — first loop, truncating loop, the test `n1 < dn`, fix-up —
  and the final arithmetic: the returned quotient is exactly ⌊N/D⌋.
-/
import MpirProofs.Lemmas.SbDivQTri
namespace Mpir.SbDivQ
open Mpir Mpir.DivWord Mpir.SbDiv

/-- `flag = 0` at the end: the bounds of the loop invariant pin the quotient down -/
theorem exact_of_bounds (N D V Dlow Nlow X Q S Bk k : Nat) (hBk : 0 < Bk) (hN : N = Nlow + S * Bk * X)
    (hNlow : Nlow < S * Bk) (hD : D = Dlow + S * V) (hDlow : Dlow < S)
    (c1 : Bk * (X + 1) ≤ (Q + 1) * V) (c2 : Q * V + V ≤ Bk * X + (k + 1) * (Bk * B))
    (hV : Bk * B * B ≤ 2 * V) (hQD : Q * Dlow ≤ 2 * (S * (Bk * B))) (hk : 2 * (k + 3) ≤ B) :
    Q = N / D := by
  have hB := B_pos
  have hS : 0 < S := by omega
  have hVpos : 0 < V := by
    have : 0 < Bk * B * B := by positivity
    omega
  have hD0 : 0 < D := by
    have : 0 < S * V := Nat.mul_pos hS hVpos
    omega
  have low : N < (Q + 1) * D := by
    have a : S * (Bk * (X + 1)) ≤ S * ((Q + 1) * V) := Nat.mul_le_mul_left _ c1
    have b := Nat.zero_le ((Q + 1) * Dlow)
    subst hN hD
    nlinarith
  have high : Q * D ≤ N := by
    have a : S * (Q * V + V) ≤ S * (Bk * X + (k + 1) * (Bk * B)) := Nat.mul_le_mul_left _ c2
    have b : 2 * (k + 3) * (S * (Bk * B)) ≤ B * (S * (Bk * B)) := Nat.mul_le_mul_right _ hk
    have c : S * (Bk * B * B) ≤ S * (2 * V) := Nat.mul_le_mul_left _ hV
    subst hN hD
    nlinarith
  have h1 : N / D < Q + 1 := (Nat.div_lt_iff_lt_mul hD0).mpr low
  have h2 : Q ≤ N / D := (Nat.le_div_iff_mul_le hD0).mpr high
  omega

/-- `flag = ~0` at the end: the sign of G - A decides between Q and Q - 1 -/
theorem fix_decide (N D Q G A : Nat) (hID : N + A = Q * D + G) (up : N < (Q + 1) * D) (hA : A ≤ D) (hD0 : 0 < D) :
    (A ≤ G → Q = N / D) ∧ (G < A → Q = N / D + 1) := by
  constructor
  · intro h
    have high : Q * D ≤ N := by omega
    have h1 : N / D < Q + 1 := (Nat.div_lt_iff_lt_mul hD0).mpr up
    have h2 : Q ≤ N / D := (Nat.le_div_iff_mul_le hD0).mpr high
    omega
  · intro h
    have hlt : N < Q * D := by omega
    have hQ : 0 < Q := by
      rcases Nat.eq_zero_or_pos Q with h0 | h0
      · subst h0; simp at hlt
      · exact h0
    obtain ⟨Q', rfl⟩ : ∃ Q', Q = Q' + 1 := ⟨Q - 1, by omega⟩
    have hge : Q' * D ≤ N := by
      have : (Q' + 1) * D = Q' * D + D := by ring
      omega
    have h1 : N / D < Q' + 1 := (Nat.div_lt_iff_lt_mul hD0).mpr hlt
    have h2 : Q' ≤ N / D := (Nat.le_div_iff_mul_le hD0).mpr hge
    omega

/-- the bookkeeping identity N + A = Q'·D + G from the identity of the truncating loop -/
theorem fix_identity (N D V Dlow Nlow X W Qb Qhi R T S Bk : Nat) (hN : N = Nlow + S * Bk * X) (hD : D = Dlow + S * V)
    (hX : X = W + B * (Qhi * V)) (hF : Qb * V + Bk * R = Bk * W + T) :
    N + (S * T + (Qb + B * Bk * Qhi) * Dlow) = (Qb + B * Bk * Qhi) * D + (Nlow + S * Bk * R) := by
  subst hN hD hX
  have : S * (Qb * V + Bk * R) = S * (Bk * W + T) := by rw [hF]
  nlinarith

theorem top_upper (Bk W V Qb Qhi X : Nat) (hl1 : Bk * (W + 1) ≤ (Qb + 1) * V) (hX : X = W + B * (Qhi * V)) :
    Bk * (X + 1) ≤ (Qb + B * Bk * Qhi + 1) * V := by
  subst hX
  nlinarith

theorem top_lower (Bk W V Qb Qhi X k1 : Nat) (hl2 : Qb * V + V ≤ Bk * W + k1 * (Bk * B)) (hX : X = W + B * (Qhi * V)) :
    (Qb + B * Bk * Qhi) * V + V ≤ Bk * X + k1 * (Bk * B) := by
  subst hX
  nlinarith

/-- `dqCore` on a dividend written as (ignored low limbs) ++ x :: (limbs of the first loop ++ top dn limbs) -/
theorem dqCore_eq (nlow mid hi dlo dp0 : List Nat) (x d0 d1 dinv : Nat) (hhi : hi.length = dlo.length + 2)
    (hnl : nlow.length = dp0.length - 2) :
    dqCore (nlow ++ x :: (mid ++ hi)) (dlo ++ [d0, d1]) dp0 (mid.length + dlo.length + 1) dinv =
      (let qh := if cmp hi (dlo ++ [d0, d1]) ≥ 0 then 1 else 0
       let hi' := if qh ≠ 0 then (sub_n hi (dlo ++ [d0, d1])).1 else hi
       let sA := dqLoopA (dlo ++ [d0, d1]) d1 d0 dinv mid.reverse (hi'.take (dlo.length + 1))
         (hi'.getD (dlo.length + 1) 0) []
       let sB := dqLoopB d1 d0 dinv dlo.length (dlo ++ [d0, d1]) (x :: sA.2.1) sA.2.2 true sA.1
       if sB.2.2.1 < andFlag dp0.length sB.2.2.2 then
         dqFixup sB.1 (dlo ++ [d0, d1]) dp0 nlow qh sB.2.2.1 (sB.2.1.getD 0 0)
       else some (sB.1, qh)) := by
  have e0 : (dlo ++ [d0, d1]).length = dlo.length + 2 := by simp
  have e1 : (nlow ++ x :: (mid ++ hi)).length - (dlo.length + 2) = (nlow ++ x :: mid).length := by
    simp [hhi]; omega
  have e2 : nlow ++ x :: (mid ++ hi) = (nlow ++ x :: mid) ++ hi := by simp
  have e3 : (nlow ++ x :: (mid ++ hi)).take (dp0.length - 2) = nlow := by
    rw [← hnl]; exact List.take_left' rfl
  unfold dqCore
  simp only [e0, e1, e3]
  rw [e2, List.drop_left' rfl, List.take_left' rfl]
  simp only [show dlo.length + 2 - 1 = dlo.length + 1 from rfl, show dlo.length + 2 - 2 = dlo.length from rfl,
    getD_top0, getD_top1, show mid.length + dlo.length + 1 + 1 - (dlo.length + 2) = mid.length by omega,
    rev_take_mid, rev_getD_mid, show ¬ (dlo.length + 2 < 2) by omega, if_false]

theorem up_full (N D V Dlow Nlow X Q S Bk : Nat) (hN : N = Nlow + S * Bk * X) (hNlow : Nlow < S * Bk)
    (hD : D = Dlow + S * V) (u2 : Bk * (X + 1) ≤ (Q + 1) * V) : N < (Q + 1) * D := by
  have a : S * (Bk * (X + 1)) ≤ S * ((Q + 1) * V) := Nat.mul_le_mul_left _ u2
  have b := Nat.zero_le ((Q + 1) * Dlow)
  subst hN hD
  nlinarith

theorem A_le (T Q Dlow S Bk k : Nat) (hT : T ≤ k * (Bk * B)) (hQD : Q * Dlow ≤ 2 * (S * (Bk * B))) :
    S * T + Q * Dlow ≤ (k + 2) * (S * (Bk * B)) := by
  have : S * T ≤ S * (k * (Bk * B)) := Nat.mul_le_mul_left _ hT
  nlinarith

theorem D_ge (D V Dlow S Bk k : Nat) (hD : D = Dlow + S * V) (hV : Bk * B * B ≤ 2 * V) (hk : 2 * (k + 3) ≤ B) :
    (k + 3) * (S * (Bk * B)) ≤ D := by
  have b : 2 * (k + 3) * (S * (Bk * B)) ≤ B * (S * (Bk * B)) := Nat.mul_le_mul_right _ hk
  have c : S * (Bk * B * B) ≤ S * (2 * V) := Nat.mul_le_mul_left _ hV
  subst hD
  nlinarith [Nat.zero_le Dlow]

theorem G_ge (A Nlow S Bk r0 r1 k : Nat) (hA : A ≤ (k + 2) * (S * (Bk * B))) (hr : k + 2 ≤ r1) :
    A ≤ Nlow + S * Bk * (r0 + B * r1) := by
  have : (k + 2) * (S * (Bk * B)) ≤ r1 * (S * (Bk * B)) := Nat.mul_le_mul_right _ hr
  nlinarith [Nat.zero_le Nlow, Nat.zero_le (S * Bk * r0)]

theorem first_window (x vw P n1A V : Nat) (hx : x < B) (h4 : vw + P * n1A < V) :
    1 * (x + B * vw + P * B * n1A + 1) ≤ B * (V * 1 + 0) + 0 := by
  have : B * (vw + P * n1A + 1) ≤ B * V := Nat.mul_le_mul_left _ h4
  nlinarith

theorem getD_append_lt (a b : List Nat) (i : Nat) (h : i < a.length) : (a ++ b).getD i 0 = a.getD i 0 := by
  rw [List.getD_eq_getElem?_getD, List.getD_eq_getElem?_getD, List.getElem?_append_left h]

/-- mpn_sb_div_q after the cut of the divisor returns exactly ⌊N/D⌋ -/
theorem dqCore_explicit (nlow mid hi dlo dp0 : List Nat) (x d0 d1 dinv s : Nat) (hhi : hi.length = dlo.length + 2)
    (hdp : dp0.drop s = dlo ++ [d0, d1]) (hdp0l : dp0.length = s + dlo.length + 2)
    (hnl : nlow.length = s + dlo.length) (hnlow : Limbs nlow)
    (hmid : Limbs mid) (hhil : Limbs hi) (hx : x < B) (hdp0 : Limbs dp0) (hdlo : Limbs dlo) (hd0 : d0 < B) (hd1 : d1 < B)
    (hnorm : B / 2 ≤ d1) (hdinv : dinv = invert_pi1 d1 d0) (hcase : s = 0 ∨ mid.length = 0)
    (hsize : 2 * dp0.length + 2 ≤ B) :
    ∃ q qh, dqCore (nlow ++ x :: (mid ++ hi)) (dlo ++ [d0, d1]) dp0 (mid.length + dlo.length + 1) dinv = some (q, qh) ∧
      q.length = mid.length + dlo.length + 1 ∧ Limbs q ∧ qh ≤ 1 ∧
      qh * B ^ (mid.length + dlo.length + 1) + val q = val (nlow ++ x :: (mid ++ hi)) / val dp0 := by
  have hB := B_pos
  have hd : Limbs (dlo ++ [d0, d1]) := Limbs_append.mpr ⟨hdlo, Limbs_pair hd0 hd1⟩
  have hdl : (dlo ++ [d0, d1]).length = dlo.length + 2 := by simp
  have eV : val (dlo ++ [d0, d1]) = val dlo + B ^ dlo.length * (d0 + B * d1) := val_top2 _ _ _
  obtain ⟨qh, hi', e1, e2, hqh, hv, hlt, hl', hll'⟩ :=
    sb_init hi (dlo ++ [d0, d1]) hhil hd (by rw [hdl]; exact hhi) (by rw [hdl]; exact norm_pow dlo d0 d1 hnorm)
  rw [dqCore_eq _ _ _ _ _ _ _ _ _ hhi (by rw [hnl, hdp0l]; omega)]
  simp only []
  rw [e1, e2]
  rw [hdl] at hll'
  have hsp := val_take_top hi' (dlo.length + 1) hll'
  -- first loop
  obtain ⟨qlA, wA, n1A, elA, hqlAl, hqlA, h3, h4, hwA, hwAl, hn1A⟩ :=
    dqLoopA_spec dlo d0 d1 dinv hdlo hd0 hd1 hnorm hdinv mid.reverse (hi'.take (dlo.length + 1))
      (hi'.getD (dlo.length + 1) 0) [] (Limbs_reverse hmid) (Limbs_take hl' _)
      (by rw [List.length_take, hll']; omega) (limb_getD hl' _) (by rw [hsp]; exact hlt)
  rw [elA]
  simp only [List.append_nil]
  rw [hsp, List.reverse_reverse, List.length_reverse] at h3
  rw [List.length_reverse] at hqlAl
  -- truncating loop
  have hW : B ^ 0 * (val (x :: wA) + B ^ (dlo.length + 2) * n1A + 1)
      ≤ B * (val (dlo ++ [d0, d1]) * B ^ 0 + 0) + 0 := by
    rw [pow_zero, val_cons, pow_succ (n := dlo.length + 1)]
    exact first_window x (val wA) (B ^ (dlo.length + 1)) n1A _ hx h4
  obtain ⟨qlB, np01, n1f, fl, elB, hqlBl, hqlB, hT, hF⟩ :=
    dqLoopB_spec d0 d1 dinv hd0 hd1 hnorm hdinv dlo.length dlo (x :: wA) n1A qlA 0 0 0 0 rfl (by simp [hwAl])
      hdlo (Limbs_cons.mpr ⟨hx, hwA⟩) hn1A (by simp) hW (by simp)
  rw [elB]
  simp only []
  -- common arithmetic
  have hq : Limbs (qlB ++ qlA) := Limbs_append.mpr ⟨hqlB, hqlA⟩
  have hql : (qlB ++ qlA).length = mid.length + dlo.length + 1 := by simp [hqlBl, hqlAl]; omega
  have hvq : qh * B ^ (mid.length + dlo.length + 1) + val (qlB ++ qlA)
      = val qlB + B * B ^ dlo.length * (val qlA + B ^ mid.length * qh) := by
    rw [val_append, hqlBl, show mid.length + dlo.length + 1 = mid.length + (dlo.length + 1) from rfl, pow_add,
      pow_succ (n := dlo.length)]
    ring
  have hX : x + B * (val mid + B ^ mid.length * val hi)
      = (val (x :: wA) + B ^ (dlo.length + 2) * n1A)
        + B * ((val qlA + B ^ mid.length * qh) * val (dlo ++ [d0, d1])) := by
    rw [hv, val_cons, pow_succ (n := dlo.length + 1)]
    have : B * (val mid + B ^ mid.length * val hi') = B * (val qlA * val (dlo ++ [d0, d1])
        + (val wA + B ^ (dlo.length + 1) * n1A)) := by rw [h3]
    linarith
  have eN : val (nlow ++ x :: (mid ++ hi))
      = val nlow + B ^ s * B ^ dlo.length * (x + B * (val mid + B ^ mid.length * val hi)) := by
    rw [val_append, val_cons, val_append, hnl, pow_add]
  have hvd := val_take_drop dp0 s (by omega)
  rw [hdp] at hvd
  have hDlow := val_lt (dp0.take s) (Limbs_take hdp0 _)
  rw [List.length_take, Nat.min_eq_left (by omega)] at hDlow
  have hNlow := val_lt nlow hnlow
  rw [hnl, pow_add] at hNlow
  have hVn : B ^ dlo.length * B * B ≤ 2 * val (dlo ++ [d0, d1]) := by
    have := norm_pow dlo d0 d1 hnorm
    rw [pow_k2] at this; exact this
  have hQlt := val_lt _ hq
  rw [hql] at hQlt
  have hQD : (qh * B ^ (mid.length + dlo.length + 1) + val (qlB ++ qlA)) * val (dp0.take s)
      ≤ 2 * (B ^ s * (B ^ dlo.length * B)) := by
    rcases hcase with h0 | h1
    · subst h0; simp
    · have hQ2 : qh * B ^ (mid.length + dlo.length + 1) + val (qlB ++ qlA) ≤ 2 * (B ^ dlo.length * B) := by
        rw [h1, Nat.zero_add, pow_succ] at hQlt ⊢
        have : qh * (B ^ dlo.length * B) ≤ 1 * (B ^ dlo.length * B) := Nat.mul_le_mul_right _ hqh
        omega
      calc _ ≤ (2 * (B ^ dlo.length * B)) * B ^ s := Nat.mul_le_mul hQ2 hDlow.le
        _ = 2 * (B ^ s * (B ^ dlo.length * B)) := by ring
  have hk3 : 2 * (dlo.length + 3) ≤ B := by omega
  have hBk : 0 < B ^ dlo.length := by positivity
  rw [hvq] at hQD
  cases fl with
  | false =>
    obtain ⟨up, lo⟩ := hF rfl
    simp only [andFlag, Bool.false_eq_true, if_false, Nat.not_lt_zero]
    refine ⟨qlB ++ qlA, qh, rfl, hql, hq, hqh, ?_⟩
    rw [hvq, eN, hvd]
    simp only [Nat.add_zero, Nat.zero_add, pow_zero, Nat.mul_one, Nat.mul_zero] at up lo
    have u2 := top_upper (B ^ dlo.length) _ _ (val qlB) (val qlA + B ^ mid.length * qh) _ up hX
    have l2 := top_lower (B ^ dlo.length) _ _ (val qlB) (val qlA + B ^ mid.length * qh) _ (dlo.length + 1)
      (by rw [show B ^ (dlo.length + 1) = B ^ dlo.length * B from pow_succ _ _] at lo; linarith) hX
    exact exact_of_bounds _ _ _ _ _ _ _ (B ^ s) (B ^ dlo.length) dlo.length hBk rfl hNlow rfl hDlow u2 l2 hVn hQD hk3
  | true =>
    obtain ⟨r0, r1, enp, en1, hr0, hr1, f1, up⟩ := hT rfl
    subst enp
    rw [en1]
    clear en1
    simp only [andFlag, if_true, List.getD_cons_zero]
    simp only [Nat.add_zero, Nat.zero_add, pow_zero, Nat.mul_one, Nat.mul_zero] at up
    have u2 := top_upper (B ^ dlo.length) _ _ (val qlB) (val qlA + B ^ mid.length * qh) _ up hX
    rw [terrM_eq_triSum dlo.length qlB (dlo ++ [d0, d1]) hqlBl hdl] at f1
    have hTle := triSum_le qlB (dlo ++ [d0, d1]) dlo.length hqlB hd dlo.length (le_refl _)
    have hID := fix_identity (val (nlow ++ x :: (mid ++ hi))) (val dp0) (val (dlo ++ [d0, d1])) (val (dp0.take s)) (val nlow)
      _ _ (val qlB) (val qlA + B ^ mid.length * qh) (r0 + B * r1) _ (B ^ s) (B ^ dlo.length) eN hvd hX f1
    have hup := up_full _ _ _ _ _ _ (val qlB + B * B ^ dlo.length * (val qlA + B ^ mid.length * qh)) (B ^ s)
      (B ^ dlo.length) eN hNlow hvd u2
    have hAle := A_le (triSum qlB (dlo ++ [d0, d1]) dlo.length dlo.length)
      (val qlB + B * B ^ dlo.length * (val qlA + B ^ mid.length * qh)) (val (dp0.take s)) (B ^ s) (B ^ dlo.length) dlo.length
      (hTle.trans_eq (by rw [pow_succ])) hQD
    have hDge := D_ge (val dp0) _ _ (B ^ s) (B ^ dlo.length) dlo.length hvd hVn hk3
    have hD0 : 0 < val dp0 := by
      have : 0 < B ^ s * (B ^ dlo.length * B) := by positivity
      have h3 : 1 * (B ^ s * (B ^ dlo.length * B)) ≤ (dlo.length + 3) * (B ^ s * (B ^ dlo.length * B)) :=
        Nat.mul_le_mul_right _ (by omega)
      omega
    have hAD : B ^ s * triSum qlB (dlo ++ [d0, d1]) dlo.length dlo.length
        + (val qlB + B * B ^ dlo.length * (val qlA + B ^ mid.length * qh)) * val (dp0.take s) ≤ val dp0 := by
      have h3 : (dlo.length + 2) * (B ^ s * (B ^ dlo.length * B)) ≤ (dlo.length + 3) * (B ^ s * (B ^ dlo.length * B)) :=
        Nat.mul_le_mul_right _ (by omega)
      exact le_trans (le_trans hAle h3) hDge
    obtain ⟨fd1, fd2⟩ := fix_decide _ _ _ _ _ hID hup hAD hD0
    have etri : triSum (qlB ++ qlA) (dp0.drop s) dlo.length dlo.length
        = triSum qlB (dlo ++ [d0, d1]) dlo.length dlo.length := by
      rw [hdp]
      apply triSum_congr
      intro i hi
      exact getD_append_lt qlB qlA i (by omega)
    have eG : val nlow + B ^ (s + dlo.length) * r0 + B ^ (s + dlo.length + 1) * r1
        = val nlow + B ^ s * B ^ dlo.length * (r0 + B * r1) := by
      rw [pow_succ, pow_add]; ring
    by_cases hfix : r1 < dp0.length
    · rw [if_pos hfix]
      obtain ⟨g1, g2⟩ := dqFixup_spec (qlB ++ qlA) dp0 nlow qh r1 r0 s dlo.length hdp0l hnl hq hdp0 hnlow hr0 hqh
        (by rw [hql]; omega) (by rcases hcase with h | h
                                 · exact Or.inl h
                                 · exact Or.inr (by rw [hql, h]; omega))
      rw [hdp] at g1 g2
      rw [← hdp, etri, hql, hvq, eG] at g1 g2
      by_cases hAG : B ^ s * triSum qlB (dlo ++ [d0, d1]) dlo.length dlo.length
          + (val qlB + B * B ^ dlo.length * (val qlA + B ^ mid.length * qh)) * val (dp0.take s)
          ≤ val nlow + B ^ s * B ^ dlo.length * (r0 + B * r1)
      · rw [hdp] at g1
        rw [g1 hAG]
        exact ⟨_, _, rfl, hql, hq, hqh, by rw [hvq]; exact fd1 hAG⟩
      · obtain ⟨q', qh', e, hq'l, hq', hqh', hval⟩ := g2 (by omega)
        rw [hdp] at e
        rw [e]
        have := fd2 (by omega)
        exact ⟨q', qh', rfl, hq'l, hq', hqh', by omega⟩
    · rw [if_neg hfix]
      refine ⟨_, _, rfl, hql, hq, hqh, ?_⟩
      rw [hvq]
      apply fd1
      exact G_ge _ (val nlow) (B ^ s) (B ^ dlo.length) r0 r1 dlo.length hAle (by omega)

/-- full specification of the model of mpn_sb_div_q for nn > dn -/
theorem sb_div_q_spec (n d : List Nat) (dinv : Nat) (hdn : 3 ≤ d.length) (hnn : d.length < n.length)
    (hnorm : B / 2 ≤ d.getD (d.length - 1) 0) (hn : Limbs n) (hd : Limbs d)
    (hdinv : dinv = invert_pi1 (d.getD (d.length - 1) 0) (d.getD (d.length - 2) 0))
    (hsize : 2 * d.length + 2 ≤ B) :
    ∃ q qh, sb_div_q n d dinv = some (q, qh) ∧ q.length = n.length - d.length ∧ Limbs q ∧ qh ≤ 1 ∧
      qh * B ^ (n.length - d.length) + val q = val n / val d := by
  have hB := B_pos
  obtain ⟨qn0, hqn0⟩ : ∃ qn0, n.length = d.length + qn0 := ⟨n.length - d.length, by omega⟩
  have hq1 : 1 ≤ qn0 := by omega
  obtain ⟨s, dn, hsd, hdn2, hdnq, hcase, ecut⟩ : ∃ s dn, s + dn = d.length ∧ 2 ≤ dn ∧ dn ≤ qn0 + 1 ∧
      (s = 0 ∨ dn = qn0 + 1) ∧
      (if qn0 + 1 < d.length then d.drop (d.length - (qn0 + 1)) else d) = d.drop s := by
    by_cases hc : qn0 + 1 < d.length
    · exact ⟨d.length - (qn0 + 1), qn0 + 1, by omega, by omega, le_refl _, Or.inr rfl, by rw [if_pos hc]⟩
    · exact ⟨0, d.length, by omega, by omega, by omega, Or.inl rfl, by rw [if_neg hc]; rfl⟩
  obtain ⟨k, rfl⟩ : ∃ k, dn = k + 2 := ⟨dn - 2, by omega⟩
  have hdpl : (d.drop s).length = k + 2 := by rw [List.length_drop]; omega
  have hdsplit := split_top2 (d.drop s) k hdpl
  have hdlo : Limbs ((d.drop s).take k) := Limbs_take (Limbs_drop hd _) _
  have hdlol : ((d.drop s).take k).length = k := by rw [List.length_take, hdpl]; omega
  have e_d0 : (d.drop s).getD k 0 = d.getD (d.length - 2) 0 := by rw [getD_drop]; congr 1; omega
  have e_d1 : (d.drop s).getD (k + 1) 0 = d.getD (d.length - 1) 0 := by rw [getD_drop]; congr 1; omega
  have hd0 := limb_getD hd (d.length - 2)
  have hd1 := limb_getD hd (d.length - 1)
  rw [e_d0, e_d1] at hdsplit
  generalize d.getD (d.length - 2) 0 = d0 at *
  generalize d.getD (d.length - 1) 0 = d1 at *
  generalize (d.drop s).take k = dlo at *
  have hf : s + k < n.length := by omega
  have hnsplit := split_dividend n (s + k) (qn0 - k - 1) hf
  have hx := limb_getD hn (s + k)
  have hmid : Limbs ((n.drop (s + k + 1)).take (qn0 - k - 1)) := Limbs_take (Limbs_drop hn _) _
  have hmidl : ((n.drop (s + k + 1)).take (qn0 - k - 1)).length = qn0 - k - 1 := by
    rw [List.length_take, List.length_drop]; omega
  have hhil : Limbs (n.drop (s + k + 1 + (qn0 - k - 1))) := Limbs_drop hn _
  have hhill : (n.drop (s + k + 1 + (qn0 - k - 1))).length = k + 2 := by rw [List.length_drop]; omega
  have hnlow : Limbs (n.take (s + k)) := Limbs_take hn _
  have hnlowl : (n.take (s + k)).length = s + k := by rw [List.length_take]; omega
  generalize n.take (s + k) = nlow at *
  generalize n.getD (s + k) 0 = x at *
  generalize (n.drop (s + k + 1)).take (qn0 - k - 1) = mid at *
  generalize n.drop (s + k + 1 + (qn0 - k - 1)) = hi at *
  have hqn : qn0 = mid.length + dlo.length + 1 := by omega
  have hnd : n.length - d.length = qn0 := by omega
  unfold sb_div_q
  simp only []
  rw [hnd, ecut, hdsplit, hqn]
  conv => enter [1, q, 1, qh, 1, 1, 1]; rw [hnsplit]
  obtain ⟨q, qh, e, hql, hq, hqh, hval⟩ := dqCore_explicit nlow mid hi dlo d x d0 d1 dinv s (by rw [hhill, hdlol])
    hdsplit (by rw [hdlol]; omega) (by rw [hnlowl, hdlol]) hnlow hmid hhil hx hd hdlo hd0 hd1 hnorm hdinv
    (by rcases hcase with h | h
        · exact Or.inl h
        · exact Or.inr (by omega)) hsize
  rw [← hnsplit] at hval
  exact ⟨q, qh, e, hql, hq, hqh, hval⟩

/-- mpn_sb_div_q for nn = dn: the divisor is cut to its top limb, every loop is skipped, and the test `n1 < dn` with the
    "ignored tails" code decides qh (sb_div_q.c:60-68, 202, 258-280) -/
theorem sb_div_q_spec0 (n d : List Nat) (dinv : Nat) (hdn : 3 ≤ d.length) (hnn : n.length = d.length)
    (hnorm : B / 2 ≤ d.getD (d.length - 1) 0) (hn : Limbs n) (hd : Limbs d) :
    ∃ qh, sb_div_q n d dinv = some ([], qh) ∧ qh ≤ 1 ∧ qh = val n / val d := by
  have hB := B_pos
  obtain ⟨m, hm⟩ : ∃ m, d.length = m + 1 := ⟨d.length - 1, by omega⟩
  have hdv := val_take_top d m hm
  have hnv := val_take_top n m (by omega)
  have hdt := limb_getD hd m
  have hnt := limb_getD hn m
  have hdr := val_lt _ (Limbs_take hd m)
  have hnr := val_lt _ (Limbs_take hn m)
  rw [List.length_take, Nat.min_eq_left (by omega)] at hdr hnr
  rw [hm, Nat.add_sub_cancel] at hnorm
  have hnormB : B ≤ 2 * d.getD m 0 := norm_two _ hnorm
  -- the model on these sizes
  have ecore : sb_div_q n d dinv =
      (let qh := if cmp [n.getD m 0] [d.getD m 0] ≥ 0 then 1 else 0
       let hi' := if qh ≠ 0 then (sub_n [n.getD m 0] [d.getD m 0]).1 else [n.getD m 0]
       let n1 := hi'.getD 0 0
       if n1 < d.length then
         (let sb := sub_n (n.take m) (d.take m)
          let bor := if qh ≠ 0 then sb.2 else 0
          if bor ≠ 0 ∧ n1 = 0 then some ([], (qh + B - bor) % B) else some ([], qh))
       else some ([], qh)) := by
    have e1 : d.drop m = [d.getD m 0] := by
      have h := split_top1 (d.drop m) 0 (by rw [List.length_drop, hm]; omega)
      rw [List.take_zero, List.nil_append, getD_drop, Nat.add_zero] at h
      exact h
    have e2 : n.drop m = [n.getD m 0] := by
      have h := split_top1 (n.drop m) 0 (by rw [List.length_drop, hnn, hm]; omega)
      rw [List.take_zero, List.nil_append, getD_drop, Nat.add_zero] at h
      exact h
    have e3 : n.take (m - 1) ++ [n.getD (m - 1) 0] = n.take m := by
      have h := split_top1 (n.take m) (m - 1) (by rw [List.length_take, hnn, hm]; omega)
      rw [List.take_take, Nat.min_eq_left (by omega)] at h
      have e : (n.take m).getD (m - 1) 0 = n.getD (m - 1) 0 := by
        rw [List.getD_eq_getElem?_getD, List.getD_eq_getElem?_getD, List.getElem?_take, if_pos (by omega)]
      rw [e] at h
      exact h.symm
    unfold sb_div_q dqCore
    simp only [hnn, hm, Nat.sub_self, Nat.zero_add, show 0 + 1 < m + 1 by omega, if_true,
      show m + 1 - (0 + 1) = m by omega, e1, List.length_cons, List.length_nil, show 0 + 1 - 1 = 0 from rfl,
      show m + 1 - 1 = m from rfl, e2, show (0 + 1 < 2) by omega, List.take_zero, dqLoopA, andFlag,
      show 0 + 1 - 2 = 0 from rfl, show 1 - 1 = 0 from rfl, show 1 - 2 = 0 from rfl]
    rw [dqFixup_eq]
    simp only [List.length_cons, List.length_nil, show 0 + 1 - 2 = 0 from rfl, dqTri, hm,
      show m + 1 - (0 + 1) = m by omega, show m + 1 - 2 = m - 1 by omega, show 0 + 1 < m + 1 by omega, if_true,
      fixTails, ne_eq, not_true_eq_false, if_false, List.drop_zero, List.getD_cons_zero]
    have e4 : (n.take (m - 1)).drop m = [] := by
      apply List.drop_eq_nil_of_le; rw [List.length_take]; omega
    have e5 : (n.take (m - 1)).take m = n.take (m - 1) := by
      apply List.take_of_length_le; rw [List.length_take]; omega
    rw [e4, e5, List.append_nil, e3]
  rw [ecore]
  simp only []
  -- qh
  have hc := cmp_ge_iff [n.getD m 0] [d.getD m 0] (by intro z hz; simp at hz; subst hz; exact hnt)
    (by intro z hz; simp at hz; subst hz; exact hdt) rfl
  simp only [val_cons, val_nil, Nat.mul_zero, Nat.add_zero] at hc
  have hD0 : 0 < val d := by
    rw [← hdv]
    have : 0 < B ^ m * d.getD m 0 := Nat.mul_pos (by positivity) (by omega)
    omega
  by_cases hge : cmp [n.getD m 0] [d.getD m 0] ≥ 0
  · rw [if_pos hge]
    have hle := hc.mp hge
    simp only [ne_eq, Nat.one_ne_zero, not_false_eq_true, if_true]
    obtain ⟨sv, sc, sl, sn⟩ := subNC_val [n.getD m 0] [d.getD m 0] 0
      (by intro z hz; simp at hz; subst hz; exact hnt) (by intro z hz; simp at hz; subst hz; exact hdt) rfl (by omega)
    change val (sub_n _ _).1 + _ + 0 = _ + _ * (sub_n _ _).2 at sv
    change (sub_n _ _).2 ≤ 1 at sc
    change Limbs (sub_n _ _).1 at sl
    change (sub_n _ _).1.length = _ at sn
    generalize sub_n [n.getD m 0] [d.getD m 0] = st at *
    obtain ⟨r, c⟩ := st
    simp only at sv sc sl sn ⊢
    obtain ⟨r0, rfl⟩ : ∃ r0, r = [r0] := by
      match r, sn with
      | [r0], _ => exact ⟨r0, rfl⟩
    have hr0 : r0 < B := sl r0 (by simp)
    simp only [val_cons, val_nil, Nat.mul_zero, Nat.add_zero, List.length_cons, List.length_nil, Nat.zero_add, pow_one,
      List.getD_cons_zero] at sv ⊢
    have hc0 : c = 0 := by
      rcases Nat.eq_zero_or_pos c with h | h
      · exact h
      · exfalso; have : c = 1 := by omega
        subst this; omega
    subst hc0
    have hr : r0 + d.getD m 0 = n.getD m 0 := by omega
    obtain ⟨tv, tc, tl, tn⟩ := subNC_val (n.take m) (d.take m) 0 (Limbs_take hn _) (Limbs_take hd _)
      (by rw [List.length_take, List.length_take, hnn]) (by omega)
    change val (sub_n _ _).1 + _ + 0 = _ + _ * (sub_n _ _).2 at tv
    change (sub_n _ _).2 ≤ 1 at tc
    change Limbs (sub_n _ _).1 at tl
    change (sub_n _ _).1.length = _ at tn
    generalize sub_n (n.take m) (d.take m) = tt at *
    obtain ⟨tr, bor⟩ := tt
    simp only at tv tc tl tn ⊢
    have htr := val_lt _ tl
    rw [tn, List.length_take, Nat.min_eq_left (by omega)] at htr
    rw [List.length_take, Nat.min_eq_left (by omega)] at tv
    -- N < 2·D
    have hN2 : val n < 2 * val d := by
      rw [← hnv, ← hdv]
      have : B ^ m * (n.getD m 0 + 1) ≤ B ^ m * (2 * d.getD m 0) := Nat.mul_le_mul_left _ (by omega)
      nlinarith
    have hq1 : val d ≤ val n → 1 = val n / val d := by
      intro h
      have h1 : val n / val d < 2 := (Nat.div_lt_iff_lt_mul hD0).mpr hN2
      have h2 : 1 ≤ val n / val d := (Nat.le_div_iff_mul_le hD0).mpr (by omega)
      omega
    have hq0 : val n < val d → 0 = val n / val d := by
      intro h; exact (Nat.div_eq_of_lt h).symm
    have hNv : val n + B ^ m * d.getD m 0 + val (d.take m) = val d + val (n.take m) + B ^ m * n.getD m 0 := by
      rw [← hnv, ← hdv]; ring
    have hrr : B ^ m * r0 + B ^ m * d.getD m 0 = B ^ m * n.getD m 0 := by rw [← Nat.mul_add, hr]
    rw [hm]
    by_cases hfx : r0 < m + 1
    · rw [if_pos hfx]
      by_cases hex : ¬bor = 0 ∧ r0 = 0
      · rw [if_pos hex]
        obtain ⟨hb, hr00⟩ := hex
        have hb1 : bor = 1 := by omega
        subst hb1 hr00
        have e : (1 + B - 1) % B = 0 := by rw [Nat.add_sub_cancel_left, Nat.mod_self]
        refine ⟨_, rfl, ?_, ?_⟩
        · rw [e]; omega
        · rw [e]
          apply hq0
          rw [Nat.mul_one] at tv
          rw [Nat.mul_zero, Nat.zero_add] at hrr
          omega
      · rw [if_neg hex]
        refine ⟨1, rfl, le_refl _, hq1 ?_⟩
        by_cases hb : bor = 0
        · subst hb
          rw [Nat.mul_zero, Nat.add_zero] at tv
          have := Nat.zero_le (B ^ m * r0)
          omega
        · have hb1 : bor = 1 := by omega
          have hr1 : 1 ≤ r0 := by
            rcases Nat.eq_zero_or_pos r0 with h | h
            · exact absurd ⟨hb, h⟩ hex
            · exact h
          subst hb1
          rw [Nat.mul_one] at tv
          have : B ^ m * 1 ≤ B ^ m * r0 := Nat.mul_le_mul_left _ hr1
          omega
    · rw [if_neg hfx]
      refine ⟨1, rfl, le_refl _, hq1 ?_⟩
      have : B ^ m * 1 ≤ B ^ m * r0 := Nat.mul_le_mul_left _ (by omega)
      omega
  · rw [if_neg hge]
    have hlt : n.getD m 0 < d.getD m 0 := by
      by_contra h
      exact hge (hc.mpr (by omega))
    simp only [ne_eq, not_true_eq_false, if_false, false_and, List.getD_cons_zero]
    have hq0 : 0 = val n / val d := by
      refine (Nat.div_eq_of_lt ?_).symm
      rw [← hnv, ← hdv]
      have : B ^ m * (n.getD m 0 + 1) ≤ B ^ m * d.getD m 0 := Nat.mul_le_mul_left _ hlt
      nlinarith
    split <;> exact ⟨0, rfl, by omega, hq0⟩

end Mpir.SbDivQ
