/- Helper lemmas for Props/C13_cmp.lean: the three-way comparison of magnitudes behind mpf_cmp, the limb
   window compared by mpf_eq, and the two-rounding error composition of mpf_reldiff. -/
import MpirProofs.Lemmas.Mpf
import Mpir.Model.MpfCmp
import MpirProofs.Lemmas.Conv
namespace Mpir.MpfCmp
open Mpir Mpir.Mpf

/-! ### three-way comparison -/

/-- sign of a − b as −1 / 0 / 1 -/
def sgnCmp (a b : ℚ) : Int := if a < b then -1 else if a = b then 0 else 1

theorem sgnCmp_lt {a b : ℚ} (h : a < b) : sgnCmp a b = -1 := by simp [sgnCmp, h]
theorem sgnCmp_eq {a b : ℚ} (h : a = b) : sgnCmp a b = 0 := by simp [sgnCmp, h]
theorem sgnCmp_gt {a b : ℚ} (h : b < a) : sgnCmp a b = 1 := by
  unfold sgnCmp; rw [if_neg (not_lt.mpr (le_of_lt h)), if_neg (ne_of_gt h)]

theorem sgnCmp_neg (a b : ℚ) : sgnCmp (-a) (-b) = - sgnCmp a b := by
  rcases lt_trichotomy a b with h | h | h
  · rw [sgnCmp_lt h, sgnCmp_gt (by linarith)]; rfl
  · rw [sgnCmp_eq h, sgnCmp_eq (by rw [h])]; rfl
  · rw [sgnCmp_gt h, sgnCmp_lt (by linarith)]

theorem sgnCmp_swap (a b : ℚ) : sgnCmp b a = - sgnCmp a b := by
  rcases lt_trichotomy a b with h | h | h
  · rw [sgnCmp_lt h, sgnCmp_gt h]; rfl
  · rw [sgnCmp_eq h, sgnCmp_eq h.symm]; rfl
  · rw [sgnCmp_gt h, sgnCmp_lt h]

theorem sgnCmp_mul_right (x y s : ℚ) (hs : 0 < s) : sgnCmp (x * s) (y * s) = sgnCmp x y := by
  rcases lt_trichotomy x y with h | h | h
  · rw [sgnCmp_lt h, sgnCmp_lt (mul_lt_mul_of_pos_right h hs)]
  · rw [sgnCmp_eq h, sgnCmp_eq (by rw [h])]
  · rw [sgnCmp_gt h, sgnCmp_gt (mul_lt_mul_of_pos_right h hs)]

theorem sgnCmp_nat (x y : ℕ) : sgnCmp (x : ℚ) (y : ℚ) = if x < y then -1 else if x = y then 0 else 1 := by
  unfold sgnCmp; simp only [Nat.cast_lt, Nat.cast_inj]

/-- cmp.c:89-107 on the low-zero-stripped mantissas -/
def cmpLimbs (up vp : List Nat) (usign : Int) : Int :=
  let usize := up.length
  let vsize := vp.length
  if usize > vsize then
    let c := val (up.drop (usize - vsize))
    if c = val vp then usign else if c > val vp then usign else -usign
  else if vsize > usize then
    let c := val (vp.drop (vsize - usize))
    if val up = c then -usign else if val up > c then usign else -usign
  else
    if val up = val vp then 0 else if val up > val vp then usign else -usign

theorem cmp_eq (u v : F) : Mpf.cmp u v =
    if (decide (u.size < 0) != decide (v.size < 0)) = true then (if u.size ≥ 0 then 1 else -1)
    else if u.size = 0 then (if v.size ≠ 0 then -1 else 0)
    else if v.size = 0 then 1
    else if u.exp > v.exp then (if u.size ≥ 0 then 1 else -1)
    else if u.exp < v.exp then -(if u.size ≥ 0 then 1 else -1)
    else cmpLimbs (stripLow u.d) (stripLow v.d) (if u.size ≥ 0 then 1 else -1) := rfl

theorem val_take_pos (l : List Nat) (k : Nat) (hk : 0 < k) (hne : l ≠ []) (hh : l.head? ≠ some 0) :
    0 < val (l.take k) := by
  cases l with
  | nil => exact absurd rfl hne
  | cons x xs =>
    cases k with
    | zero => omega
    | succ k =>
      simp only [List.take_succ_cons, val]
      have : x ≠ 0 := by intro h; apply hh; simp [h]
      exact Nat.lt_of_lt_of_le (Nat.pos_of_ne_zero this) (Nat.le_add_right _ _)

/-- a longer mantissa against a shorter one aligned at the top: `up` has `k ≥ 1` more limbs, its lowest is non-zero -/
theorem cmp_longer (up vp : List Nat) (e : ℤ) (k : ℕ) (hk0 : 0 < k) (hk : up.length = vp.length + k)
    (hlu : Limbs up) (hnu : up ≠ []) (hhu : up.head? ≠ some 0) :
    sgnCmp (qv up e) (qv vp e) =
      if val (up.drop k) = val vp then 1 else if val (up.drop k) > val vp then 1 else -1 := by
  have hsplit := val_take_drop up k (by omega)
  have hlo := val_take_pos up k hk0 hnu hhu
  have hlo2 := val_take_lt hlu k
  have hv : qv vp e = ((val vp * B ^ k : ℕ) : ℚ) * (B : ℚ) ^ (e - (up.length : ℤ)) := by
    rw [hk]; exact (qv_scaled vp k e).symm
  have hu : qv up e = ((val up : ℕ) : ℚ) * (B : ℚ) ^ (e - (up.length : ℤ)) := rfl
  rw [hu, hv, sgnCmp_mul_right _ _ _ (zpow_pos Bq_pos _), sgnCmp_nat, hsplit]
  generalize val (up.drop k) = c at *
  generalize val (up.take k) = lo at *
  generalize val vp = V at *
  generalize B ^ k = P at *
  by_cases c1 : c = V
  · subst c1
    rw [if_pos rfl, if_neg (by nlinarith), if_neg (by nlinarith)]
  · rw [if_neg c1]
    by_cases c2 : c > V
    · rw [if_pos c2]
      have : P * (V + 1) ≤ P * c := Nat.mul_le_mul_left _ (by omega)
      rw [if_neg (by nlinarith), if_neg (by nlinarith)]
    · rw [if_neg c2]
      have : P * (c + 1) ≤ P * V := Nat.mul_le_mul_left _ (by omega)
      rw [if_pos (by nlinarith)]

theorem cmpLimbs_spec (up vp : List Nat) (usign : Int) (e : ℤ) (hlu : Limbs up) (hlv : Limbs vp)
    (hnu : up ≠ []) (hnv : vp ≠ []) (hhu : up.head? ≠ some 0) (hhv : vp.head? ≠ some 0) :
    cmpLimbs up vp usign = usign * sgnCmp (qv up e) (qv vp e) := by
  unfold cmpLimbs
  dsimp only
  by_cases h1 : up.length > vp.length
  · rw [if_pos h1]
    have hk : up.length = vp.length + (up.length - vp.length) := by omega
    rw [cmp_longer up vp e _ (by omega) hk hlu hnu hhu]
    by_cases c1 : val (up.drop (up.length - vp.length)) = val vp
    · rw [if_pos c1, if_pos c1]; ring
    · rw [if_neg c1, if_neg c1]
      by_cases c2 : val (up.drop (up.length - vp.length)) > val vp
      · rw [if_pos c2, if_pos c2]; ring
      · rw [if_neg c2, if_neg c2]; ring
  · rw [if_neg h1]
    by_cases h2 : vp.length > up.length
    · rw [if_pos h2]
      have hk : vp.length = up.length + (vp.length - up.length) := by omega
      rw [sgnCmp_swap (qv vp e) (qv up e), cmp_longer vp up e _ (by omega) hk hlv hnv hhv]
      generalize val (vp.drop (vp.length - up.length)) = c
      generalize val up = U
      by_cases c1 : U = c
      · rw [if_pos c1, if_pos c1.symm]; ring
      · rw [if_neg c1, if_neg (show ¬ c = U from fun h => c1 h.symm)]
        by_cases c2 : U > c
        · rw [if_pos c2, if_neg (show ¬ c > U by omega)]; ring
        · rw [if_neg c2, if_pos (show c > U by omega)]; ring
    · rw [if_neg h2]
      have hlen : up.length = vp.length := by omega
      have hv : qv vp e = ((val vp : ℕ) : ℚ) * (B : ℚ) ^ (e - (up.length : ℤ)) := by rw [hlen]; rfl
      have hu : qv up e = ((val up : ℕ) : ℚ) * (B : ℚ) ^ (e - (up.length : ℤ)) := rfl
      rw [hu, hv, sgnCmp_mul_right _ _ _ (zpow_pos Bq_pos _), sgnCmp_nat]
      by_cases c1 : val up = val vp
      · rw [if_pos c1, if_neg (by omega), if_pos c1]; ring
      · rw [if_neg c1]
        by_cases c2 : val up > val vp
        · rw [if_pos c2, if_neg (by omega), if_neg c1]; ring
        · rw [if_neg c2, if_pos (by omega)]; ring

/-- the magnitude of a non-zero operand -/
theorem qv_pos_of_opwf {u : F} (hu : OpWF u) (h0 : u.size ≠ 0) : 0 < qv u.d u.exp := by
  have hlen := OpWF.len_pos hu h0
  have hne : u.d ≠ [] := List.ne_nil_of_length_pos hlen
  exact qv_pos_iff.mpr (val_pos_of_top hne hu.2.2.1)

theorem toQ_zero_of_size {u : F} (hu : OpWF u) (h0 : u.size = 0) : toQ u = 0 :=
  toQ_of_size_zero (OpWF.d_nil hu h0)

theorem toQ_pos_of {u : F} (hu : OpWF u) (h : 0 < u.size) : 0 < toQ u := by
  rw [toQ_qv]; unfold sg; rw [if_neg (by omega), one_mul]; exact qv_pos_of_opwf hu (by omega)

theorem toQ_neg_of {u : F} (hu : OpWF u) (h : u.size < 0) : toQ u < 0 := by
  rw [toQ_qv]; unfold sg; rw [if_pos h]
  have := qv_pos_of_opwf hu (by omega); linarith

theorem stripLow_head (l : List Nat) : (stripLow l).head? ≠ some 0 := by
  obtain ⟨_, _, h⟩ := stripLow_spec l
  rcases h with h | h
  · rw [h]; simp
  · exact h


/-- mpf_cmp = sign of the exact difference -/
theorem cmp_sgnCmp (u v : F) (hu : OpWF u) (hv : OpWF v) : Mpf.cmp u v = sgnCmp (toQ u) (toQ v) := by
  rw [cmp_eq]
  have nonneg : ∀ w : F, OpWF w → ¬ w.size < 0 → 0 ≤ toQ w := fun w hw h => by
    by_cases hz : w.size = 0
    · rw [toQ_zero_of_size hw hz]
    · exact le_of_lt (toQ_pos_of hw (by omega))
  by_cases hs : (decide (u.size < 0) != decide (v.size < 0)) = true
  · rw [if_pos hs]
    by_cases a : u.size < 0
    · have b : ¬ v.size < 0 := by intro b; simp [a, b] at hs
      rw [if_neg (by omega)]
      have h1 := toQ_neg_of hu a
      have h2 := nonneg v hv b
      exact (sgnCmp_lt (by linarith)).symm
    · have b : v.size < 0 := by by_contra b; simp [a, b] at hs
      rw [if_pos (by omega)]
      have h1 := toQ_neg_of hv b
      have h2 := nonneg u hu a
      exact (sgnCmp_gt (by linarith)).symm
  · rw [if_neg hs]
    have same : (u.size < 0 ↔ v.size < 0) := by
      by_cases a : u.size < 0 <;> by_cases b : v.size < 0 <;> simp [a, b] at hs ⊢
    by_cases hu0 : u.size = 0
    · rw [if_pos hu0, toQ_zero_of_size hu hu0]
      by_cases hv0 : v.size = 0
      · rw [if_neg (by simpa using hv0), toQ_zero_of_size hv hv0]; exact (sgnCmp_eq rfl).symm
      · rw [if_pos hv0]
        have : 0 < v.size := by
          have : ¬ v.size < 0 := fun h => by have := same.mpr h; omega
          omega
        exact (sgnCmp_lt (toQ_pos_of hv this)).symm
    · rw [if_neg hu0]
      by_cases hv0 : v.size = 0
      · rw [if_pos hv0, toQ_zero_of_size hv hv0]
        have : 0 < u.size := by
          have : ¬ u.size < 0 := fun h => by have := same.mp h; omega
          omega
        exact (sgnCmp_gt (toQ_pos_of hu this)).symm
      · rw [if_neg hv0]
        have hneu : u.d ≠ [] := List.ne_nil_of_length_pos (OpWF.len_pos hu hu0)
        have hnev : v.d ≠ [] := List.ne_nil_of_length_pos (OpWF.len_pos hv hv0)
        have key : ∀ r : Int, r = (if u.size ≥ 0 then 1 else -1) * sgnCmp (qv u.d u.exp) (qv v.d v.exp) →
            r = sgnCmp (toQ u) (toQ v) := by
          intro r hr
          rw [hr, toQ_qv, toQ_qv]; unfold sg
          by_cases a : u.size < 0
          · rw [if_neg (by omega), if_pos a, if_pos (same.mp a),
              show (-1 : ℚ) * qv u.d u.exp = -(qv u.d u.exp) by ring,
              show (-1 : ℚ) * qv v.d v.exp = -(qv v.d v.exp) by ring, sgnCmp_neg]; ring
          · rw [if_pos (by omega), if_neg a, if_neg (fun h => a (same.mpr h)), one_mul, one_mul, one_mul]
        apply key
        by_cases g : u.exp > v.exp
        · rw [if_pos g]
          have h1 := qv_lt v.d v.exp hv.1
          have h2 := qv_ge u.d u.exp hneu hu.2.2.1
          have h3 : (B : ℚ) ^ v.exp ≤ (B : ℚ) ^ (u.exp - 1) := zpow_le_zpow_B (by omega)
          rw [sgnCmp_gt (by linarith)]; ring
        · rw [if_neg g]
          by_cases g2 : u.exp < v.exp
          · rw [if_pos g2]
            have h1 := qv_lt u.d u.exp hu.1
            have h2 := qv_ge v.d v.exp hnev hv.2.2.1
            have h3 : (B : ℚ) ^ u.exp ≤ (B : ℚ) ^ (v.exp - 1) := zpow_le_zpow_B (by omega)
            rw [sgnCmp_lt (by linarith)]; ring
          · rw [if_neg g2]
            have hE : v.exp = u.exp := by omega
            rw [cmpLimbs_spec _ _ _ u.exp (Limbs_stripLow hu.1) (Limbs_stripLow hv.1)
              (stripLow_getLast hneu hu.2.2.1).1 (stripLow_getLast hnev hv.2.2.1).1 (stripLow_head _) (stripLow_head _),
              qv_stripLow, qv_stripLow, hE]

/-! ### mpf_eq: the limb window -/

theorem limbAt_lt {d : List Nat} (hl : Limbs d) (i : Int) : limbAt d i < B := by
  unfold limbAt; split
  · exact Mpir.Conv.top_lt_B hl _
  · exact B_pos

/-- value of the `m` most significant limbs of `d`, extended with zero limbs below when m > length -/
def window (d : List Nat) : Nat → Nat
  | 0 => 0
  | m + 1 => limbAt d ((d.length : Int) - ((m + 1 : Nat) : Int)) + B * window d m

theorem window_eq (d : List Nat) (hl : Limbs d) : ∀ m, window d m = val d * B ^ m / B ^ d.length
  | 0 => by simp only [window, pow_zero, Nat.mul_one]; exact (Nat.div_eq_of_lt (val_lt d hl)).symm
  | m + 1 => by
    simp only [window]
    rw [window_eq d hl m]
    by_cases h : m + 1 ≤ d.length
    · obtain ⟨j, hj⟩ : ∃ j, d.length = j + (m + 1) := ⟨d.length - (m + 1), by omega⟩
      have e1 : limbAt d ((d.length : Int) - ((m + 1 : Nat) : Int)) = d.getD j 0 := by
        unfold limbAt; rw [if_pos (by omega)]; congr 1; omega
      have e2 : val d * B ^ (m + 1) / B ^ d.length = val d / B ^ j := by
        rw [hj, pow_add B j (m + 1)]; exact Nat.mul_div_mul_right _ _ (Bpow_pos _)
      have e3 : val d * B ^ m / B ^ d.length = val d / B ^ j / B := by
        rw [Nat.div_div_eq_div_mul, hj, show j + (m + 1) = (j + 1) + m by ring, pow_add (n := m), pow_succ]
        exact Nat.mul_div_mul_right _ _ (Bpow_pos _)
      rw [e1, e2, e3, ← Mpir.Conv.val_div_mod d j hl]
      exact Nat.mod_add_div _ _
    · have e1 : limbAt d ((d.length : Int) - ((m + 1 : Nat) : Int)) = 0 := by
        unfold limbAt; rw [if_neg (by omega)]
      obtain ⟨j, hj⟩ : ∃ j, m = d.length + j := ⟨m - d.length, by omega⟩
      have e2 : val d * B ^ (m + 1) / B ^ d.length = val d * B ^ (j + 1) := by
        rw [hj, show d.length + j + 1 = (j + 1) + d.length by ring, pow_add, ← Nat.mul_assoc]
        exact Nat.mul_div_cancel _ (Bpow_pos _)
      have e3 : val d * B ^ m / B ^ d.length = val d * B ^ j := by
        rw [hj, show d.length + j = j + d.length by ring, pow_add, ← Nat.mul_assoc]
        exact Nat.mul_div_cancel _ (Bpow_pos _)
      rw [e1, e2, e3, pow_succ]; ring

theorem window_lt_aux (a b x y : ℕ) (ha : a < B) (hb : b < B) : a + B * x = b + B * y ↔ a = b ∧ x = y := by
  constructor
  · intro h
    have h1 : (a + B * x) % B = (b + B * y) % B := by rw [h]
    rw [Nat.add_mul_mod_self_left, Nat.add_mul_mod_self_left, Nat.mod_eq_of_lt ha, Nat.mod_eq_of_lt hb] at h1
    subst h1
    have h2 : B * x = B * y := by omega
    exact ⟨rfl, Nat.eq_of_mul_eq_mul_left B_pos h2⟩
  · rintro ⟨rfl, rfl⟩; rfl

theorem eqLoop_iff (ud vd : List Nat) (hu : Limbs ud) (hv : Limbs vd) :
    ∀ m, eqLoop ud vd m = true ↔ window ud m = window vd m
  | 0 => by simp [eqLoop, window]
  | m + 1 => by
    simp only [eqLoop, window]
    rw [window_lt_aux _ _ _ _ (limbAt_lt hu _) (limbAt_lt hv _), ← eqLoop_iff ud vd hu hv m]
    by_cases h : limbAt ud ((ud.length : Int) - ((m + 1 : Nat) : Int)) = limbAt vd ((vd.length : Int) - ((m + 1 : Nat) : Int))
    · simp
    · simp

/-- the bottom limb shifted right by k, the others exactly: equality of the windows divided by 2^k -/
theorem window_shift (a b x y k : ℕ) (ha : a < B) (hb : b < B) (hk : k < 64) :
    (a / 2 ^ k = b / 2 ^ k ∧ x = y) ↔ (a + B * x) / 2 ^ k = (b + B * y) / 2 ^ k := by
  have hB : B = 2 ^ k * 2 ^ (64 - k) := by
    rw [← pow_add, show k + (64 - k) = 64 by omega]; rfl
  have hp : 0 < 2 ^ k := by positivity
  have e : ∀ c z : ℕ, (c + B * z) / 2 ^ k = c / 2 ^ k + 2 ^ (64 - k) * z := by
    intro c z
    rw [hB, Nat.mul_assoc, Nat.add_mul_div_left _ _ hp]
  have lt : ∀ c : ℕ, c < B → c / 2 ^ k < 2 ^ (64 - k) := by
    intro c hc
    rw [Nat.div_lt_iff_lt_mul hp, Nat.mul_comm, ← hB]; exact hc
  rw [e, e]
  have ha' := lt a ha
  have hb' := lt b hb
  generalize a / 2 ^ k = a' at *
  generalize b / 2 ^ k = b' at *
  generalize 2 ^ (64 - k) = P at *
  constructor
  · rintro ⟨rfl, rfl⟩; rfl
  · intro h
    have h1 : (a' + P * x) % P = (b' + P * y) % P := by rw [h]
    rw [Nat.add_mul_mod_self_left, Nat.add_mul_mod_self_left, Nat.mod_eq_of_lt ha', Nat.mod_eq_of_lt hb'] at h1
    subst h1
    have h2 : P * x = P * y := by omega
    exact ⟨rfl, Nat.eq_of_mul_eq_mul_left (by omega) h2⟩

/-- the top T = 64n − k bits of the zero-extended mantissa -/
theorem window_div (d : List Nat) (hl : Limbs d) (n k : ℕ) (hk : k ≤ 64 * n) :
    window d n / 2 ^ k = val d * 2 ^ (64 * n - k) / B ^ d.length := by
  rw [window_eq d hl, Nat.div_div_eq_div_mul]
  have : B ^ n = 2 ^ (64 * n - k) * 2 ^ k := by
    rw [← pow_add, show 64 * n - k + k = 64 * n by omega, pow_mul]; rfl
  rw [this, ← Nat.mul_assoc]
  exact Nat.mul_div_mul_right _ _ (by positivity)

/-- bit length of a normalised limb vector: 64·len − clz(top limb) -/
theorem log2_val (d : List Nat) (hl : Limbs d) (hne : d ≠ []) (ht : d.getLast? ≠ some 0) :
    Nat.log2 (val d) + 1 = 64 * d.length - clz (topLimb d) ∧ clz (topLimb d) < 64 ∧ 1 ≤ d.length := by
  obtain ⟨n, hn⟩ : ∃ n, d.length = n + 1 := ⟨d.length - 1, by
    have := List.length_pos_of_ne_nil hne; omega⟩
  have hsplit := val_take_top d n hn
  have hlo := val_take_lt hl n
  have htl := getLast?_eq_topLimb d hne
  have ht0 : topLimb d ≠ 0 := by intro h; apply ht; rw [htl, h]
  have htB : topLimb d < B := by
    have : topLimb d ∈ d := by
      have := List.mem_of_getLast? htl; exact this
    exact hl _ this
  have hvpos : val d ≠ 0 := Nat.pos_iff_ne_zero.mp (val_pos_of_top hne ht)
  have hl2 : Nat.log2 (topLimb d) < 64 := (Nat.log2_lt ht0).mpr (by rw [B_eq] at htB; norm_num; omega)
  have key : Nat.log2 (val d) = Nat.log2 (topLimb d) + 64 * n := by
    apply le_antisymm
    · have : Nat.log2 (val d) < Nat.log2 (topLimb d) + 64 * n + 1 := by
        rw [Nat.log2_lt hvpos, hsplit]
        have h1 : topLimb d < 2 ^ (Nat.log2 (topLimb d) + 1) := Nat.lt_log2_self
        have h2 : B ^ n = 2 ^ (64 * n) := by rw [pow_mul]; rfl
        calc val (d.take n) + B ^ n * topLimb d < B ^ n * (topLimb d + 1) := by nlinarith
          _ ≤ B ^ n * 2 ^ (Nat.log2 (topLimb d) + 1) := Nat.mul_le_mul_left _ h1
          _ = 2 ^ (Nat.log2 (topLimb d) + 64 * n + 1) := by rw [h2, ← pow_add]; congr 1; ring
      omega
    · rw [Nat.le_log2 hvpos, hsplit]
      have h1 : 2 ^ Nat.log2 (topLimb d) ≤ topLimb d := Nat.log2_self_le ht0
      have h2 : B ^ n = 2 ^ (64 * n) := by rw [pow_mul]; rfl
      calc 2 ^ (Nat.log2 (topLimb d) + 64 * n) = B ^ n * 2 ^ Nat.log2 (topLimb d) := by rw [h2, ← pow_add]; congr 1; ring
        _ ≤ B ^ n * topLimb d := Nat.mul_le_mul_left _ h1
        _ ≤ val (d.take n) + B ^ n * topLimb d := Nat.le_add_left _ _
  unfold clz
  refine ⟨by rw [key, hn]; omega, by omega, by omega⟩


theorem eq_unfold (u v : F) (nbits : Nat) : eq u v nbits =
    if (decide (u.size < 0) != decide (v.size < 0)) = true then false
    else if u.size = 0 then decide (v.size = 0)
    else if v.size = 0 then false
    else if u.exp > v.exp then false
    else if v.exp > u.exp then false
    else if clz (topLimb u.d) ≠ clz (topLimb v.d) then false
    else eqTail u.d v.d (if nbits > 64 * max u.d.length v.d.length then 64 * max u.d.length v.d.length else nbits)
      (clz (topLimb u.d)) := rfl

theorem W_eq : W = 18446744073709551616 := by unfold W; norm_num

theorem eqTail_spec (ud vd : List Nat) (hu : Limbs ud) (hv : Limbs vd) (nbits cu : Nat) (hc : cu < 64)
    (hn : nbits + 127 ≤ 2 ^ 64) :
    eqTail ud vd nbits cu = true ↔
      val ud * 2 ^ (nbits + cu) / B ^ ud.length = val vd * 2 ^ (nbits + cu) / B ^ vd.length := by
  unfold eqTail
  have hn1 : (((nbits + cu) % W + 63) % W) / 64 = (nbits + cu + 63) / 64 := by rw [W_eq]; omega
  rw [hn1]
  dsimp only
  obtain ⟨n, hN⟩ : ∃ n, (nbits + cu + 63) / 64 = n := ⟨_, rfl⟩
  rw [hN]
  by_cases n0 : n = 0
  · rw [if_pos n0]
    have : nbits + cu = 0 := by omega
    rw [this, pow_zero, Nat.mul_one, Nat.mul_one, Nat.div_eq_of_lt (val_lt ud hu), Nat.div_eq_of_lt (val_lt vd hv)]
    simp
  · rw [if_neg n0]
    obtain ⟨m, rfl⟩ : ∃ m, n = m + 1 := ⟨n - 1, by omega⟩
    obtain ⟨k, hk⟩ : ∃ k, 64 * (m + 1) = nbits + cu + k := ⟨64 * (m + 1) - (nbits + cu), by omega⟩
    have hk64 : k < 64 := by omega
    have hkk : ((m + 1) * 64 + 2 * W - nbits - cu) % W = k := by rw [W_eq]; omega
    rw [hkk, show m + 1 - 1 = m from rfl]
    have hT : nbits + cu = 64 * (m + 1) - k := by omega
    rw [hT, ← window_div ud hu (m + 1) k (by omega), ← window_div vd hv (m + 1) k (by omega)]
    simp only [window]
    rw [← window_shift _ _ _ _ k (limbAt_lt hu _) (limbAt_lt hv _) hk64, ← eqLoop_iff ud vd hu hv m]
    by_cases h : limbAt ud ((ud.length : Int) - ((m + 1 : Nat) : Int)) / 2 ^ k =
        limbAt vd ((vd.length : Int) - ((m + 1 : Nat) : Int)) / 2 ^ k
    · rw [if_neg (not_not.mpr h)]; exact ⟨fun e => ⟨h, e⟩, fun e => e.2⟩
    · rw [if_pos h]; exact ⟨fun e => absurd e Bool.false_ne_true, fun e => absurd e.1 h⟩

/-- beyond the longer operand both expansions continue with zeros: the comparison of the top T bits does not depend on T -/
theorem topbits_clamp (ud vd : List Nat) (T T' : ℕ) (h1 : 64 * max ud.length vd.length ≤ T') (h2 : T' ≤ T) :
    (val ud * 2 ^ T / B ^ ud.length = val vd * 2 ^ T / B ^ vd.length) ↔
    (val ud * 2 ^ T' / B ^ ud.length = val vd * 2 ^ T' / B ^ vd.length) := by
  have e : ∀ (d : List Nat) (S : ℕ), 64 * d.length ≤ S → val d * 2 ^ S / B ^ d.length = val d * 2 ^ (S - 64 * d.length) := by
    intro d S h
    have hB : B ^ d.length = 2 ^ (64 * d.length) := by rw [pow_mul]; rfl
    have : (2 : ℕ) ^ S = 2 ^ (S - 64 * d.length) * 2 ^ (64 * d.length) := by rw [← pow_add]; congr 1; omega
    rw [hB, this, ← Nat.mul_assoc]; exact Nat.mul_div_cancel _ (by positivity)
  have hu : 64 * ud.length ≤ T' := le_trans (Nat.mul_le_mul_left _ (le_max_left _ _)) h1
  have hv : 64 * vd.length ≤ T' := le_trans (Nat.mul_le_mul_left _ (le_max_right _ _)) h1
  rw [e ud T (by omega), e vd T (by omega), e ud T' hu, e vd T' hv]
  have s : ∀ (d : List Nat), 64 * d.length ≤ T' → 2 ^ (T - 64 * d.length) = 2 ^ (T' - 64 * d.length) * 2 ^ (T - T') := by
    intro d h; rw [← pow_add]; congr 1; omega
  rw [s ud hu, s vd hv, ← Nat.mul_assoc, ← Nat.mul_assoc]
  exact ⟨fun h => Nat.eq_of_mul_eq_mul_right (by positivity) h, fun h => by rw [h]⟩

/-- the first n bits of x counted from its leading 1 bit (zero bits supplied below when x is shorter):
    ⌊x · 2^n / 2^(bit length of x)⌋ -/
def firstBits (x n : Nat) : Nat := x * 2 ^ n / 2 ^ (Nat.log2 x + 1)

theorem firstBits_eq (d : List Nat) (hl : Limbs d) (hne : d ≠ []) (ht : d.getLast? ≠ some 0) (nbits : Nat) :
    firstBits (val d) nbits = val d * 2 ^ (nbits + clz (topLimb d)) / B ^ d.length := by
  obtain ⟨h1, h2, h3⟩ := log2_val d hl hne ht
  unfold firstBits
  rw [h1]
  have : B ^ d.length = 2 ^ (64 * d.length - clz (topLimb d)) * 2 ^ clz (topLimb d) := by
    rw [← pow_add, show 64 * d.length - clz (topLimb d) + clz (topLimb d) = 64 * d.length by omega, pow_mul]; rfl
  rw [this, pow_add, ← Nat.mul_assoc]
  exact (Nat.mul_div_mul_right _ _ (by positivity)).symm

theorem firstBits_zero (x : Nat) : firstBits x 0 = 0 := by
  unfold firstBits; rw [pow_zero, Nat.mul_one]; exact Nat.div_eq_of_lt Nat.lt_log2_self


/-! ### mpf_reldiff -/

theorem toQ_abs_size (d : F) : toQ { d with size := (d.size.natAbs : Int) } = |toQ d| := by
  rw [toQ_qv, toQ_qv]
  have h := qv_nonneg d.d d.exp
  unfold sg
  dsimp only
  rw [if_neg (by omega)]
  by_cases a : d.size < 0
  · rw [if_pos a, one_mul, show (-1 : ℚ) * qv d.d d.exp = -(qv d.d d.exp) by ring, abs_neg, abs_of_nonneg h]
  · rw [if_neg a, abs_of_nonneg (by linarith)]

theorem OpWF_abs_size {d : F} (h : WF d) : OpWF { d with size := (d.size.natAbs : Int) } :=
  ⟨h.1, by show d.d.length = ((d.size.natAbs : Int)).natAbs; rw [Int.natAbs_natCast]; exact h.2.1, h.2.2.2.1,
    fun h0 => h.2.2.2.2 (by have h1 : (d.size.natAbs : Int) = 0 := h0; omega)⟩

theorem size_zero_of_toQ {d : F} (hd : OpWF d) (h : toQ d = 0) : d.size = 0 := by
  by_contra h0
  rcases lt_or_gt_of_ne h0 with a | a
  · have := toQ_neg_of hd a; linarith
  · have := toQ_pos_of hd a; linarith

theorem eps_pos (p : ℕ) : 0 < eps p := by unfold eps; exact zpow_pos (by norm_num) _

theorem eps_lt_one (p : ℕ) (h : 2 ≤ p) : eps p < 1 := by
  rw [eps_eq, div_lt_one (by have := Bq_pos; positivity)]
  have h1 : (B : ℚ) ≤ (B : ℚ) ^ (p - 1) := by
    calc (B : ℚ) = (B : ℚ) ^ 1 := (pow_one _).symm
      _ ≤ (B : ℚ) ^ (p - 1) := pow_le_pow_right₀ (by rw [Bq_eq]; norm_num) (by omega)
  have h2 : (4 : ℚ) < B := by rw [Bq_eq]; norm_num
  linarith

/-- two roundings: D ≈ Δ within ed, R ≈ |D|/X within ep -/
theorem reldiff_err (R D Δ X ep ed : ℚ) (hX : X ≠ 0) (hep : 0 < ep) (_hed : 0 < ed)
    (h1 : |D - Δ| < ed * |Δ|) (h2 : |R - |D| / X| < ep * |(|D| / X)|) :
    |R - |Δ| / X| < (ep + ed + ep * ed) * (|Δ| / |X|) := by
  have hXp : 0 < |X| := abs_pos.mpr hX
  have a1 : |(|D| - |Δ|)| < ed * |Δ| := lt_of_le_of_lt (abs_abs_sub_abs_le_abs_sub D Δ) h1
  have a2 : |(|D| / X - |Δ| / X)| = |(|D| - |Δ|)| / |X| := by rw [← sub_div, abs_div]
  have a3 : |(|D| / X)| = |D| / |X| := by rw [abs_div, abs_abs]
  have a4 : |D| < (1 + ed) * |Δ| := by
    have := le_abs_self (|D| - |Δ|); linarith
  have t : |R - |Δ| / X| ≤ |R - |D| / X| + |(|D| / X - |Δ| / X)| := abs_sub_le _ _ _
  have b1 : |(|D| - |Δ|)| / |X| < ed * (|Δ| / |X|) := by
    rw [← mul_div_assoc]; exact div_lt_div_of_pos_right a1 hXp
  have b2 : |D| / |X| < (1 + ed) * (|Δ| / |X|) := by
    rw [← mul_div_assoc]; exact div_lt_div_of_pos_right a4 hXp
  have b3 : ep * (|D| / |X|) < ep * ((1 + ed) * (|Δ| / |X|)) := mul_lt_mul_of_pos_left b2 hep
  rw [a3] at h2; rw [a2] at t
  nlinarith

theorem reldiff_core (prec : ℕ) (hp : 2 ≤ prec) (x y : F) (hx : OpWF x) (hy : OpWF y) (hx0 : x.size ≠ 0) :
    ∃ r, reldiff prec x y = .ok r ∧ WF r ∧
      (toQ x = toQ y → toQ r = 0) ∧
      (toQ x ≠ toQ y →
        |toQ r - |toQ x - toQ y| / toQ x| <
          (eps prec + eps (prec + x.d.length) + eps prec * eps (prec + x.d.length)) * (|toQ x - toQ y| / |toQ x|)) := by
  unfold reldiff
  rw [if_neg hx0]
  dsimp only
  obtain ⟨wfd, hz, hnz⟩ := sub_accurate (prec + x.d.length) (by omega) x y hx hy false false (by simp) (by simp)
  generalize Mpf.sub (prec + x.d.length) false false x y = d at *
  have hd' := OpWF_abs_size wfd
  have hX : toQ x ≠ 0 := by
    rcases lt_or_gt_of_ne hx0 with a | a
    · exact ne_of_lt (toQ_neg_of hx a)
    · exact ne_of_gt (toQ_pos_of hx a)
  by_cases he : toQ x = toQ y
  · have hd0 : toQ d = 0 := hz (by rw [he]; ring)
    have hs0 : d.size = 0 := size_zero_of_toQ ⟨wfd.1, wfd.2.1, wfd.2.2.2.1, wfd.2.2.2.2⟩ hd0
    refine ⟨zero prec, ?_, WF_zero prec, fun _ => toQ_zero prec, fun h => absurd he h⟩
    unfold Mpf.div
    rw [if_neg hx0, if_pos (by dsimp only; rw [hs0]; rfl)]
  · have hΔ : toQ x - toQ y ≠ 0 := sub_ne_zero.mpr he
    have h1 := hnz hΔ
    have hed1 := eps_lt_one (prec + x.d.length) (by omega)
    have hD : toQ d ≠ 0 := by
      intro h0
      rw [h0, zero_sub, abs_neg] at h1
      have := abs_pos.mpr hΔ
      nlinarith
    have hds : ({ d with size := (d.size.natAbs : Int) } : F).size ≠ 0 := by
      intro h0
      have : d.size = 0 := by dsimp only at h0; omega
      have := toQ_zero_of_size ⟨wfd.1, wfd.2.1, wfd.2.2.2.1, wfd.2.2.2.2⟩ this
      exact hD this
    obtain ⟨r, hr, wfr, herr, _⟩ := div_spec prec (by omega) _ x hd' hx hds hx0
    refine ⟨r, hr, wfr, fun h => absurd h he, fun _ => ?_⟩
    rw [toQ_abs_size] at herr
    exact reldiff_err (toQ r) (toQ d) (toQ x - toQ y) (toQ x) _ _ hX (eps_pos _) (eps_pos _) h1 herr

end Mpir.MpfCmp
