/-
  Helper lemmas for the soundness of the TMP data-flow procedure (`Mpir.TmpSkel.balanced`) with respect to
  the path semantics of Mpir/Model/TmpSkelSem.lean.

  Outline:
    * `Sub a b` — bitwise inclusion of packed masks (`a ||| b = b`), a partial order;
      `getMask` is monotone, `addMask` is inflationary, `getMask (addMask st j r) j = getMask st j ||| (r &&& 15)`;
    * every step of `round` (`stepNode`) is inflationary on the packed state and on the error flag, hence a
      state `st` with `round nodes st = (st, false)` is left unchanged by every single step, hence is
      `Closed`: the transfer of every non-empty node raises no flag and is included in the mask of every
      successor;
    * `iterate … = true` produces such a fixpoint above the initial state (which has state 1 at the entry);
    * `xfer` on a mask covers `xferBit` on each of its members (finite check);
    * induction along a path: the concrete marker state at every visited node is a member of that node's mask.
-/
import Mpir.Model.TmpSkelSem
namespace Mpir.TmpSkel
open Mpir.Gen

/-! ### bitwise inclusion -/

/-- bitwise inclusion of (packed) masks -/
def Sub (a b : Nat) : Prop := a ||| b = b

theorem Sub.refl (a : Nat) : Sub a a := Nat.or_self a

theorem Sub.trans {a b c : Nat} (h1 : Sub a b) (h2 : Sub b c) : Sub a c := by
  unfold Sub at *; rw [← h2, ← Nat.or_assoc, h1]

theorem Sub.antisymm {a b : Nat} (h1 : Sub a b) (h2 : Sub b a) : a = b := by
  unfold Sub at *
  calc a = b ||| a := h2.symm
    _ = a ||| b := Nat.or_comm ..
    _ = b := h1

theorem sub_or_left (a c : Nat) : Sub a (a ||| c) := by
  unfold Sub; rw [← Nat.or_assoc, Nat.or_self]

theorem Sub.and_ne_zero {a b s : Nat} (h : Sub a b) (ha : a &&& s ≠ 0) : b &&& s ≠ 0 := by
  unfold Sub at h
  intro hb
  rw [← h, Nat.and_or_distrib_right, Nat.or_eq_zero_iff] at hb
  exact ha hb.1

/-! ### packed fields -/

theorem getMask_mono {a b : Nat} (h : Sub a b) (i : Nat) : Sub (getMask a i) (getMask b i) := by
  unfold Sub at *
  unfold getMask
  rw [← Nat.and_or_distrib_right, ← Nat.shiftRight_or_distrib, h]

theorem sub_addMask (st i m : Nat) : Sub st (addMask st i m) := sub_or_left _ _

theorem getMask_addMask (st j r : Nat) : getMask (addMask st j r) j = getMask st j ||| (r &&& 15) := by
  unfold getMask addMask
  rw [Nat.shiftRight_or_distrib, Nat.shiftLeft_shiftRight, Nat.and_or_distrib_right]

/-- if adding `r` at field `j` changes nothing then `r` (its low four bits) was already there -/
theorem sub_of_addMask_eq {st j r : Nat} (h : addMask st j r = st) : Sub (r &&& 15) (getMask st j) := by
  have := getMask_addMask st j r
  rw [h] at this
  unfold Sub; rw [Nat.or_comm]; exact this.symm

theorem getMask_entry (e : Nat) : getMask (addMask 0 e 1) e &&& 1 ≠ 0 := by
  rw [getMask_addMask]; unfold getMask; simp

/-! ### one round is inflationary; its fixpoints are closed -/

theorem foldl_addMask_sub (r : Nat) : ∀ (succs : List Nat) (st : Nat),
    Sub st (succs.foldl (fun s j => addMask s j r) st) := by
  intro succs
  induction succs with
  | nil => intro st; exact Sub.refl _
  | cons j l ih => intro st; exact (sub_addMask st j r).trans (ih _)

theorem foldl_addMask_fix (r : Nat) : ∀ (succs : List Nat) (st : Nat),
    succs.foldl (fun s j => addMask s j r) st = st → ∀ j ∈ succs, addMask st j r = st := by
  intro succs
  induction succs with
  | nil => intro st _ j hj; cases hj
  | cons k l ih =>
    intro st h j hj
    rw [List.foldl_cons] at h
    have h1 : Sub (addMask st k r) st := by
      have := foldl_addMask_sub r l (addMask st k r); rw [h] at this; exact this
    have hk : addMask st k r = st := (Sub.antisymm (sub_addMask st k r) h1).symm
    rw [hk] at h
    rcases List.mem_cons.1 hj with rfl | hj
    · exact hk
    · exact ih st h j hj

/-- the body of the fold in `round` -/
def stepNode (acc : Nat × Bool) (p : (Nat × List Nat) × Nat) : Nat × Bool :=
  let ((kind, succs), i) := p
  let m := getMask acc.1 i
  if m == 0 then acc else
  let r := xfer kind m
  let st' := if kind == 4 || kind == 5 then acc.1 else succs.foldl (fun s j => addMask s j r.1) acc.1
  (st', acc.2 || r.2)

theorem round_eq (nodes : List (Nat × List Nat)) (st : Nat) :
    round nodes st = (nodes.zipIdx.reverse).foldl stepNode (st, false) := rfl

theorem stepNode_mono (acc : Nat × Bool) (p : (Nat × List Nat) × Nat) :
    Sub acc.1 (stepNode acc p).1 ∧ (acc.2 = true → (stepNode acc p).2 = true) := by
  obtain ⟨⟨kind, succs⟩, i⟩ := p
  simp only [stepNode]
  split
  · exact ⟨Sub.refl _, id⟩
  · refine ⟨?_, fun h => by simp [h]⟩
    split
    · exact Sub.refl _
    · exact foldl_addMask_sub _ _ _

theorem foldl_stepNode_mono : ∀ (l : List ((Nat × List Nat) × Nat)) (acc : Nat × Bool),
    Sub acc.1 (l.foldl stepNode acc).1 ∧ (acc.2 = true → (l.foldl stepNode acc).2 = true) := by
  intro l
  induction l with
  | nil => intro acc; exact ⟨Sub.refl _, id⟩
  | cons p l ih =>
    intro acc
    rw [List.foldl_cons]
    have h1 := stepNode_mono acc p
    have h2 := ih (stepNode acc p)
    exact ⟨h1.1.trans h2.1, fun h => h2.2 (h1.2 h)⟩

/-- a fixpoint of the whole fold (without flag) is a fixpoint of every single step -/
theorem foldl_stepNode_fix : ∀ (l : List ((Nat × List Nat) × Nat)) (st : Nat),
    l.foldl stepNode (st, false) = (st, false) → ∀ p ∈ l, stepNode (st, false) p = (st, false) := by
  intro l
  induction l with
  | nil => intro st _ p hp; cases hp
  | cons q l ih =>
    intro st h p hp
    rw [List.foldl_cons] at h
    have h1 := stepNode_mono (st, false) q
    have h2 := foldl_stepNode_mono l (stepNode (st, false) q)
    rw [h] at h2
    have e1 : (stepNode (st, false) q).1 = st := (Sub.antisymm h1.1 h2.1).symm
    have e2 : (stepNode (st, false) q).2 = false := by
      cases hb : (stepNode (st, false) q).2 with
      | false => rfl
      | true => exact absurd (h2.2 hb) (by simp)
    have hq : stepNode (st, false) q = (st, false) := Prod.ext e1 e2
    rw [hq] at h
    rcases List.mem_cons.1 hp with rfl | hp
    · exact hq
    · exact ih st h p hp

/-- `st` is closed under the transfer function along every edge, without raising a flag -/
def Closed (f : TmpFn) (st : Nat) : Prop :=
  ∀ i kind succs, f.nodes[i]? = some (kind, succs) → getMask st i ≠ 0 →
    (xfer kind (getMask st i)).2 = false ∧
    (¬ (kind = 4 ∨ kind = 5) → ∀ j ∈ succs, Sub ((xfer kind (getMask st i)).1 &&& 15) (getMask st j))

theorem round_fix_closed {f : TmpFn} {st : Nat} (h : round f.nodes st = (st, false)) : Closed f st := by
  intro i kind succs hi hm
  rw [round_eq] at h
  have hmem : ((kind, succs), i) ∈ f.nodes.zipIdx.reverse := by
    rw [List.mem_reverse, List.mem_zipIdx_iff_getElem?]; exact hi
  have hs := foldl_stepNode_fix _ st h _ hmem
  simp only [stepNode] at hs
  have hm' : ¬ ((getMask st i == 0) = true) := by simpa using hm
  rw [if_neg hm'] at hs
  have h1 := congrArg Prod.fst hs
  have h2 := congrArg Prod.snd hs
  simp only [Bool.false_or] at h1 h2
  refine ⟨h2, fun hk j hj => ?_⟩
  have hk' : ¬ ((kind == 4 || kind == 5) = true) := by simpa using hk
  rw [if_neg hk'] at h1
  exact sub_of_addMask_eq (foldl_addMask_fix _ succs st h1 j hj)

theorem round_sub (nodes : List (Nat × List Nat)) (st : Nat) : Sub st (round nodes st).1 := by
  rw [round_eq]; exact (foldl_stepNode_mono _ (st, false)).1

/-- an accepting iteration ends in a flag-free fixpoint of `round` above the initial state -/
theorem iterate_true (nodes : List (Nat × List Nat)) : ∀ (fuel st0 : Nat),
    iterate nodes fuel st0 = true → ∃ st, Sub st0 st ∧ round nodes st = (st, false) := by
  intro fuel
  induction fuel with
  | zero => intro st0 h; simp [iterate] at h
  | succ fuel ih =>
    intro st0 h
    unfold iterate at h
    simp only at h
    split at h
    · cases h
    · rename_i hflag
      split at h
      · rename_i heq
        refine ⟨st0, Sub.refl _, Prod.ext ?_ ?_⟩
        · simpa using heq
        · simpa using hflag
      · obtain ⟨st, hs, hfix⟩ := ih _ h
        exact ⟨st, (round_sub nodes st0).trans hs, hfix⟩

/-! ### the mask transfer covers the transfer of each member -/

/-- the four abstract marker states -/
def IsState (s : Nat) : Prop := s = 1 ∨ s = 2 ∨ s = 4 ∨ s = 8

theorem xferBit_other {kind : Nat} (h1 : kind ≠ 1) (h2 : kind ≠ 2) (h3 : kind ≠ 3) (h4 : kind ≠ 4) :
    xferBit kind = xferBit 0 := by
  funext s
  unfold xferBit
  split <;> first | contradiction | rfl

theorem xfer_other {kind : Nat} (h1 : kind ≠ 1) (h2 : kind ≠ 2) (h3 : kind ≠ 3) (h4 : kind ≠ 4) (m : Nat) :
    xfer kind m = xfer 0 m := by
  unfold xfer; rw [xferBit_other h1 h2 h3 h4]

theorem xfer_sound_fin (kind : Fin 5) : ∀ m : Fin 16, ∀ s ∈ [1, 2, 4, 8], m.val &&& s ≠ 0 →
    (xfer kind.val m.val).2 = false →
    (xferBit kind.val s).2 = false ∧ ((xfer kind.val m.val).1 &&& 15) &&& (xferBit kind.val s).1 ≠ 0 ∧
      (xferBit kind.val s).1 ∈ [1, 2, 4, 8] := by
  revert kind; decide

theorem xfer_sound {kind m s : Nat} (hm : m < 16) (hs : IsState s) (h : m &&& s ≠ 0)
    (hx : (xfer kind m).2 = false) :
    (xferBit kind s).2 = false ∧ ((xfer kind m).1 &&& 15) &&& (xferBit kind s).1 ≠ 0 ∧
      IsState (xferBit kind s).1 := by
  have hs' : s ∈ [1, 2, 4, 8] := by unfold IsState at hs; simp; exact hs
  have key : ∀ k : Fin 5, (xfer k.val m).2 = false →
      (xferBit k.val s).2 = false ∧ ((xfer k.val m).1 &&& 15) &&& (xferBit k.val s).1 ≠ 0 ∧
      IsState (xferBit k.val s).1 := by
    intro k hk
    have := xfer_sound_fin k ⟨m, hm⟩ s hs' h hk
    refine ⟨this.1, this.2.1, ?_⟩
    have h3 := this.2.2
    unfold IsState; simpa using h3
  by_cases h1 : kind = 1
  · subst h1; exact key ⟨1, by decide⟩ hx
  by_cases h2 : kind = 2
  · subst h2; exact key ⟨2, by decide⟩ hx
  by_cases h3 : kind = 3
  · subst h3; exact key ⟨3, by decide⟩ hx
  by_cases h4 : kind = 4
  · subst h4; exact key ⟨4, by decide⟩ hx
  rw [xfer_other h1 h2 h3 h4] at hx ⊢
  rw [xferBit_other h1 h2 h3 h4]
  exact key ⟨0, by decide⟩ hx

theorem getMask_lt (st i : Nat) : getMask st i < 16 := by
  unfold getMask
  exact Nat.lt_of_le_of_lt Nat.and_le_right (by decide)

/-! ### induction along a path -/

theorem run_safe {f : TmpFn} {st : Nat} (hc : Closed f st) : ∀ (p : List Nat) (i s : Nat),
    chain f i p = true → IsState s → getMask st i &&& s ≠ 0 → run f s (i :: p) ≠ none := by
  intro p
  induction p with
  | nil =>
    intro i s _ hs hm
    have hm0 : getMask st i ≠ 0 := by intro h0; rw [h0] at hm; simp at hm
    cases hi : f.nodes[i]? with
    | none =>
      have hkind : kindOf f i = 0 := by simp [kindOf, hi]
      simp [run, hkind, xferBit]
    | some ks =>
      obtain ⟨kind, succs⟩ := ks
      have hx := (hc i kind succs hi hm0).1
      have := (xfer_sound (getMask_lt st i) hs hm hx).1
      have hkind : kindOf f i = kind := by simp [kindOf, hi]
      simp [run, hkind, this]
  | cons j q ih =>
    intro i s hch hs hm
    have hm0 : getMask st i ≠ 0 := by intro h0; rw [h0] at hm; simp at hm
    simp only [chain, Bool.and_eq_true, List.contains_iff_mem] at hch
    obtain ⟨hj, hq⟩ := hch
    unfold succsOf at hj
    cases hi : f.nodes[i]? with
    | none => rw [hi] at hj; cases hj
    | some ks =>
      obtain ⟨kind, succs⟩ := ks
      rw [hi] at hj
      simp only at hj
      split at hj
      · cases hj
      · rename_i hk
        have hk' : ¬ (kind = 4 ∨ kind = 5) := by simpa using hk
        have hcl := hc i kind succs hi hm0
        have hx := xfer_sound (getMask_lt st i) hs hm hcl.1
        have hsub := hcl.2 hk' j hj
        have hkind : kindOf f i = kind := by simp [kindOf, hi]
        rw [run, hkind]
        simp only [hx.1]
        exact ih j _ hq hx.2.2 (hsub.and_ne_zero hx.2.1)

end Mpir.TmpSkel
