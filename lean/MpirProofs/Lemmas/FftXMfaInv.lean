/- The matrix Fourier multiplication (Mpir/Model/FftMfa.lean), inverse part: the inner pass on the whole array, the
   revbin swaps of the truncated columns, the inverse √2 layer, the outer inverse pass, and the chain
   outer → inner → inverse outer = the acyclic convolution. -/
import MpirProofs.Lemmas.FftXMfaMul
set_option linter.unusedSimpArgs false
namespace Mpir.FftX
open Mpir Finset

/-! ### the inner pass on the whole array -/

theorem fft_mfa_inner_spec (e1 e2 w L trunc : Nat) (hL : 2 ^ (e1 + e2 + 1) * w = 64 * L) (hL1 : 1 ≤ L)
    (ht2' : TruncOk e2 ((trunc - 2 * 2 ^ (e1 + e2 + 1)) / 2 ^ (e1 + 1)))
    (Sa Da Sb Db Sx Dx A Bm : List Int) (hlA : A.length = 4 * 2 ^ (e1 + e2 + 1))
    (hA1 : ∀ i < 2 ^ (e1 + 1), ∀ j < 2 ^ (e2 + 1), el A (i + j * 2 ^ (e1 + 1)) = el (mfaCol e2 w (2 ^ (e1 + 1)) Sa i) j)
    (hA2 : ∀ i < 2 ^ (e1 + 1), ∀ s < (trunc - 2 * 2 ^ (e1 + e2 + 1)) / 2 ^ (e1 + 1),
      el A (2 ^ (e1 + 1) * 2 ^ (e2 + 1) + i + rev (e2 + 1) s * 2 ^ (e1 + 1)) =
        el (mfaCol e2 w (2 ^ (e1 + 1)) Da i) (rev (e2 + 1) s))
    (hB1 : ∀ i < 2 ^ (e1 + 1), ∀ j < 2 ^ (e2 + 1), el Bm (i + j * 2 ^ (e1 + 1)) = el (mfaCol e2 w (2 ^ (e1 + 1)) Sb i) j)
    (hB2 : ∀ i < 2 ^ (e1 + 1), ∀ s < (trunc - 2 * 2 ^ (e1 + e2 + 1)) / 2 ^ (e1 + 1),
      el Bm (2 ^ (e1 + 1) * 2 ^ (e2 + 1) + i + rev (e2 + 1) s * 2 ^ (e1 + 1)) =
        el (mfaCol e2 w (2 ^ (e1 + 1)) Db i) (rev (e2 + 1) s))
    (hS : ∀ K < 2 ^ (e1 + e2 + 1 + 1),
      (Int.castRingHom (ZMod (2 ^ (64 * L) + 1))) (el (fft_radix2 (e1 + e2 + 1) w Sx) K) =
      (Int.castRingHom (ZMod (2 ^ (64 * L) + 1))) (el (fft_radix2 (e1 + e2 + 1) w Sa) K) *
      (Int.castRingHom (ZMod (2 ^ (64 * L) + 1))) (el (fft_radix2 (e1 + e2 + 1) w Sb) K))
    (hD : ∀ K < 2 ^ (e1 + e2 + 1 + 1),
      (Int.castRingHom (ZMod (2 ^ (64 * L) + 1))) (el (fft_radix2 (e1 + e2 + 1) w Dx) K) =
      (Int.castRingHom (ZMod (2 ^ (64 * L) + 1))) (el (fft_radix2 (e1 + e2 + 1) w Da) K) *
      (Int.castRingHom (ZMod (2 ^ (64 * L) + 1))) (el (fft_radix2 (e1 + e2 + 1) w Db) K)) :
    (fft_mfa_trunc_sqrt2_inner (e1 + e2 + 1) w (2 ^ (e1 + 1)) trunc A Bm).length = A.length ∧
    (∀ t < 2 ^ (e1 + 1), ∀ j < 2 ^ (e2 + 1),
      (Int.castRingHom (ZMod (2 ^ (64 * L) + 1)))
          (el (fft_mfa_trunc_sqrt2_inner (e1 + e2 + 1) w (2 ^ (e1 + 1)) trunc A Bm) (t + j * 2 ^ (e1 + 1))) =
        2 ^ (e1 + 1) * (Int.castRingHom (ZMod (2 ^ (64 * L) + 1))) (el (mfaCol e2 w (2 ^ (e1 + 1)) Sx t) j)) ∧
    (∀ t < 2 ^ (e1 + 1), ∀ s < (trunc - 2 * 2 ^ (e1 + e2 + 1)) / 2 ^ (e1 + 1),
      (Int.castRingHom (ZMod (2 ^ (64 * L) + 1)))
          (el (fft_mfa_trunc_sqrt2_inner (e1 + e2 + 1) w (2 ^ (e1 + 1)) trunc A Bm)
            (2 ^ (e1 + 1) * 2 ^ (e2 + 1) + t + rev (e2 + 1) s * 2 ^ (e1 + 1))) =
        2 ^ (e1 + 1) * (Int.castRingHom (ZMod (2 ^ (64 * L) + 1))) (el (mfaCol e2 w (2 ^ (e1 + 1)) Dx t) (rev (e2 + 1) s))) := by
  have hN : 2 ^ (e1 + 1) * 2 ^ (e2 + 1) = 2 * 2 ^ (e1 + e2 + 1) := by
    rw [← pow_add, ← pow_succ']; congr 1; ring
  have eL : 2 ^ (e1 + e2 + 1) * w / 64 = L := by rw [hL]; omega
  have hxl : A.length = 2 * (2 ^ (e1 + 1) * 2 ^ (e2 + 1)) := by rw [hlA, hN]; ring
  rw [fft_mfa_inner_unfold, eL]
  have hrows : ∀ i ∈ (List.range ((trunc - 2 * 2 ^ (e1 + e2 + 1)) / 2 ^ (e1 + 1))).map (fun s => revbin s (e2 + 1)),
      i < 2 ^ (e2 + 1) := by
    intro i hi
    obtain ⟨s', hs', rfl⟩ := List.mem_map.mp hi
    have hs' := List.mem_range.mp hs'
    rw [revbin_rev _ _ (lt_of_lt_of_le hs' ht2'.2.2)]; exact rev_lt _ _
  have hnd : ((List.range ((trunc - 2 * 2 ^ (e1 + e2 + 1)) / 2 ^ (e1 + 1))).map (fun s => revbin s (e2 + 1))).Nodup := by
    apply List.Nodup.map_on _ List.nodup_range
    intro a ha b hb hab
    have ha := lt_of_lt_of_le (List.mem_range.mp ha) ht2'.2.2
    have hb := lt_of_lt_of_le (List.mem_range.mp hb) ht2'.2.2
    rw [revbin_rev _ _ ha, revbin_rev _ _ hb] at hab
    rw [← rev_rev _ _ ha, ← rev_rev _ _ hb, hab]
  obtain ⟨l1, o1, v1⟩ := onRowsI_spec (2 ^ (e1 + 1) * 2 ^ (e2 + 1)) (2 ^ (e1 + 1)) (2 ^ (e2 + 1))
    (fun i row => rowConv e1 (w * 2 ^ (e2 + 1)) (2 ^ (e1 + 1)) L row
      ((Bm.drop (2 ^ (e1 + 1) * 2 ^ (e2 + 1) + i * 2 ^ (e1 + 1))).take (2 ^ (e1 + 1))))
    (fun _ _ _ => length_rowConv _ _ _ _ _ _) _ hnd hrows A (by rw [hxl]; omega)
  generalize hR1 : onRowsI A (2 ^ (e1 + 1) * 2 ^ (e2 + 1)) (2 ^ (e1 + 1))
    ((List.range ((trunc - 2 * 2 ^ (e1 + e2 + 1)) / 2 ^ (e1 + 1))).map fun s => revbin s (e2 + 1))
    (fun i row => rowConv e1 (w * 2 ^ (e2 + 1)) (2 ^ (e1 + 1)) L row
      ((Bm.drop (2 ^ (e1 + 1) * 2 ^ (e2 + 1) + i * 2 ^ (e1 + 1))).take (2 ^ (e1 + 1)))) = R1 at *
  obtain ⟨l2, o2, v2⟩ := onRowsI_spec 0 (2 ^ (e1 + 1)) (2 ^ (e2 + 1))
    (fun i row => rowConv e1 (w * 2 ^ (e2 + 1)) (2 ^ (e1 + 1)) L row
      ((Bm.drop (0 + i * 2 ^ (e1 + 1))).take (2 ^ (e1 + 1))))
    (fun _ _ _ => length_rowConv _ _ _ _ _ _) (List.range (2 ^ (e2 + 1))) List.nodup_range
    (fun i hi => List.mem_range.mp hi) R1 (by rw [l1, hxl]; omega)
  refine ⟨by rw [l2, l1], ?_, ?_⟩
  · intro t ht j hj
    have hidx := idx_lt (2 ^ (e1 + 1)) (2 ^ (e2 + 1)) t j ht hj
    have := v2 j hj t ht
    simp only [Nat.zero_add] at this ⊢
    rw [show t + j * 2 ^ (e1 + 1) = j * 2 ^ (e1 + 1) + t by ring, this, if_pos (List.mem_range.mpr hj)]
    apply rowConv_val e1 e2 w L hL hL1 Sa Sb Sx j hj hS _ _ _ _ t ht
    · intro t' ht'
      have hidx' := idx_lt (2 ^ (e1 + 1)) (2 ^ (e2 + 1)) t' j ht' hj
      rw [el_take_drop _ _ _ _ ht', o1 _ (Or.inl (by omega)),
        show j * 2 ^ (e1 + 1) + t' = t' + j * 2 ^ (e1 + 1) by ring, hA1 t' ht' j hj]
    · intro t' ht'
      rw [el_take_drop _ _ _ _ ht', show j * 2 ^ (e1 + 1) + t' = t' + j * 2 ^ (e1 + 1) by ring, hB1 t' ht' j hj]
  · intro t ht s hs
    have hs2 : s < 2 ^ (e2 + 1) := lt_of_lt_of_le hs ht2'.2.2
    have hjr := rev_lt (e2 + 1) s
    have hmem : rev (e2 + 1) s ∈
        (List.range ((trunc - 2 * 2 ^ (e1 + e2 + 1)) / 2 ^ (e1 + 1))).map (fun s => revbin s (e2 + 1)) :=
      List.mem_map.mpr ⟨s, List.mem_range.mpr hs, revbin_rev _ _ hs2⟩
    rw [o2 _ (Or.inr (by omega)),
      show 2 ^ (e1 + 1) * 2 ^ (e2 + 1) + t + rev (e2 + 1) s * 2 ^ (e1 + 1) =
        2 ^ (e1 + 1) * 2 ^ (e2 + 1) + rev (e2 + 1) s * 2 ^ (e1 + 1) + t by ring, v1 _ hjr t ht, if_pos hmem]
    apply rowConv_val e1 e2 w L hL hL1 Da Db Dx _ hjr hD _ _ _ _ t ht
    · intro t' ht'
      rw [el_take_drop _ _ _ _ ht',
        show 2 ^ (e1 + 1) * 2 ^ (e2 + 1) + rev (e2 + 1) s * 2 ^ (e1 + 1) + t' =
          2 ^ (e1 + 1) * 2 ^ (e2 + 1) + t' + rev (e2 + 1) s * 2 ^ (e1 + 1) by ring, hA2 t' ht' s hs]
    · intro t' ht'
      rw [el_take_drop _ _ _ _ ht',
        show 2 ^ (e1 + 1) * 2 ^ (e2 + 1) + rev (e2 + 1) s * 2 ^ (e1 + 1) + t' =
          2 ^ (e1 + 1) * 2 ^ (e2 + 1) + t' + rev (e2 + 1) s * 2 ^ (e1 + 1) by ring, hB2 t' ht' s hs]

/-! ### a fold of first-half column updates -/

theorem fold_lo_cols_val (n1 n2 : Nat) (H : Nat → List Int → List Int) (hH : ∀ i c, (H i c).length = n2)
    (xs : List Int) (hlen : xs.length = 2 * (n1 * n2)) (c : Nat) (hc : c ≤ n1) :
    ((List.range c).foldl (fun xs i => setCol xs i n1 (H i (getCol xs i n1 n2))) xs).length = xs.length ∧
    ∀ i < n1, ∀ j < n2,
      el ((List.range c).foldl (fun xs i => setCol xs i n1 (H i (getCol xs i n1 n2))) xs) (i + j * n1) =
        (if i < c then el (H i (getCol xs i n1 n2)) j else el xs (i + j * n1)) ∧
      el ((List.range c).foldl (fun xs i => setCol xs i n1 (H i (getCol xs i n1 n2))) xs) (n1 * n2 + i + j * n1) =
        el xs (n1 * n2 + i + j * n1) := by
  induction c with
  | zero => simp
  | succ c ih =>
    obtain ⟨hl, hv⟩ := ih (by omega)
    rw [List.range_succ, List.foldl_append, List.foldl_cons, List.foldl_nil]
    set ys := (List.range c).foldl (fun xs i => setCol xs i n1 (H i (getCol xs i n1 n2))) xs with hys
    have ga : getCol ys c n1 n2 = getCol xs c n1 n2 := by
      unfold getCol; apply List.map_congr_left; intro j hj
      have := (hv c (by omega) j (List.mem_range.mp hj)).1
      rw [if_neg (by omega)] at this; exact this
    rw [ga]
    refine ⟨by rw [length_setCol, hl], ?_⟩
    intro i hi j hj
    have hb := idx_lt n1 n2 i j hi hj
    constructor
    · have := el_setCol_same ys 0 n1 n2 c i j _ (hH c (getCol xs c n1 n2)) (by omega) hi hj (by rw [hl, hlen]; omega)
      simp only [Nat.zero_add] at this
      rw [this, (hv i hi j hj).1]
      by_cases hic : i = c
      · subst hic; rw [if_pos rfl, if_pos (by omega)]
      · rw [if_neg hic]
        by_cases h : i < c
        · rw [if_pos h, if_pos (by omega)]
        · rw [if_neg h, if_neg (by omega)]
    · rw [el_setCol_lo_hi ys n1 n2 c i j _ (hH c (getCol xs c n1 n2)) (by omega) hi (by rw [hl, hlen]; omega),
        (hv i hi j hj).2]

/-! ### the partial revbin swaps (ifft_mfa_trunc_sqrt2.c:304-308) -/

theorem el_set' (l : List Int) (i p : Nat) (v : Int) (hi : i < l.length) :
    el (l.set i v) p = if p = i then v else el l p := by
  unfold el
  rw [List.getD_eq_getElem?_getD, List.getD_eq_getElem?_getD, List.getElem?_set]
  by_cases h : i = p
  · subst h; simp [hi]
  · rw [if_neg h, if_neg (fun e => h e.symm)]

theorem revSwaps_succ (D k : Nat) (c : List Int) :
    revSwaps D (k + 1) c =
      if k < revbin k D then ((revSwaps D k c).set k (el (revSwaps D k c) (revbin k D))).set (revbin k D) (el (revSwaps D k c) k)
      else revSwaps D k c := by
  unfold revSwaps
  rw [List.range_succ, List.foldl_append]
  rfl

/-- after the swaps of the pairs {j, rev j}, j < cnt: every position below cnt (and its partner) holds the entry of the
    bit-reversed position -/
theorem revSwaps_spec (D : Nat) (c : List Int) (hc : c.length = 2 ^ D) (cnt : Nat) (hcnt : cnt ≤ 2 ^ D) :
    (revSwaps D cnt c).length = 2 ^ D ∧
    ∀ p < 2 ^ D, el (revSwaps D cnt c) p = if p < cnt ∨ rev D p < cnt then el c (rev D p) else el c p := by
  induction cnt with
  | zero => exact ⟨by simp [revSwaps, hc], fun p _ => by simp [revSwaps]⟩
  | succ k ih =>
    obtain ⟨hl, hv⟩ := ih (by omega)
    have hk : k < 2 ^ D := by omega
    have hs := rev_lt D k
    have rs : rev D (rev D k) = k := rev_rev D k hk
    rw [revSwaps_succ, revbin_rev D k hk]
    generalize hcur : revSwaps D k c = cur at *
    by_cases hks : k < rev D k
    · rw [if_pos hks]
      refine ⟨by simp [hl], ?_⟩
      intro p hp
      rw [el_set' _ _ _ _ (by rw [List.length_set, hl]; exact hs), el_set' _ _ _ _ (by rw [hl]; exact hk),
        hv _ hs, hv k hk, rs]
      by_cases hps : p = rev D k
      · rw [if_pos hps, if_neg (by omega), hps, rs, if_pos (Or.inr (by omega))]
      · rw [if_neg hps]
        by_cases hpk : p = k
        · rw [if_pos hpk, if_neg (by omega), hpk, if_pos (Or.inl (by omega))]
        · rw [if_neg hpk, hv p hp]
          have hrp : rev D p ≠ k := fun h => hps (by rw [← rev_rev D p hp, h])
          have : (p < k + 1 ∨ rev D p < k + 1) ↔ (p < k ∨ rev D p < k) := by omega
          rw [if_congr this rfl rfl]
    · rw [if_neg hks]
      refine ⟨hl, ?_⟩
      intro p hp
      rw [hv p hp]
      by_cases hpk : p = k
      · subst hpk
        have hR : (if p < p + 1 ∨ rev D p < p + 1 then el c (rev D p) else el c p) = el c (rev D p) :=
          if_pos (Or.inl (by omega))
        rw [hR]
        by_cases h : rev D p < p
        · exact if_pos (Or.inr h)
        · have e : rev D p = p := by omega
          have hn : ¬ (p < p ∨ rev D p < p) := by omega
          rw [if_neg hn, e]
      · by_cases hps : p = rev D k
        · have hlt : rev D k < k := by
            rcases Nat.lt_or_ge (rev D k) k with h | h
            · exact h
            · exfalso; apply hpk; omega
          have h1 : p < k ∨ rev D p < k := Or.inl (by omega)
          have h2 : p < k + 1 ∨ rev D p < k + 1 := Or.inl (by omega)
          rw [if_pos h1, if_pos h2]
        · have hrp : rev D p ≠ k := fun h => hps (by rw [← rev_rev D p hp, h])
          have : (p < k + 1 ∨ rev D p < k + 1) ↔ (p < k ∨ rev D p < k) := by omega
          rw [if_congr this rfl rfl]

theorem el_map_lt (l : List Int) (g : Int → Int) (m : Nat) (hm : m < l.length) : el (l.map g) m = g (el l m) := by
  simp [el, List.getD_eq_getElem?_getD, hm]

section ring
variable {S : Type} [CommRing S] (f : ℤ →+* S)

/-! ### one entry of the inverse √2 layer -/

theorem sqrt2_layer_inv (d w u : Nat) (hd : 64 ∣ 2 ^ d * w) (hz : f 2 ^ (2 ^ d * w) = -1) (hu2 : u < 2 * 2 ^ d)
    (a b : Int) (c X Y : S) (ha : f a = c * (X + Y))
    (hb : f b = c * ((X - Y) *
      f (if w % 2 = 0 then 2 ^ (u * (w / 2)) else if u % 2 = 0 then 2 ^ (u / 2 * w) else sq2 (2 ^ d * w) u w))) :
    f (if w % 2 = 1 then (if u % 2 = 1 then ibflySqrt2 (2 ^ d * w) a b u w else ibfly (2 ^ d * w) a b (u / 2) w)
        else ibfly (2 ^ d * w) a b u (w / 2)).1 = 2 * c * X ∧
    f (if w % 2 = 1 then (if u % 2 = 1 then ibflySqrt2 (2 ^ d * w) a b u w else ibfly (2 ^ d * w) a b (u / 2) w)
        else ibfly (2 ^ d * w) a b u (w / 2)).2 = 2 * c * Y := by
  have hu : f 2 ^ (2 * (2 ^ d * w)) = 1 := by rw [pow_mul' (f 2) 2 _, hz]; norm_num
  have h4 := four_dvd_of_64 _ hd
  have huw : u * w ≤ 2 * (2 ^ d * w) := by
    have : u * w ≤ 2 * 2 ^ d * w := Nat.mul_le_mul_right w (le_of_lt hu2)
    rw [Nat.mul_assoc] at this; exact this
  by_cases hw2 : w % 2 = 0
  · rw [if_neg (by omega)]
    rw [if_pos hw2] at hb
    apply ibfly_val f _ _ _ u (w / 2) _ _ _ hu
    · exact le_trans (Nat.mul_le_mul_left u (Nat.div_le_self w 2)) huw
    · exact ha
    · rw [hb]; simp
  · have hw1 : w % 2 = 1 := by omega
    rw [if_pos hw1]
    rw [if_neg hw2] at hb
    by_cases hu0 : u % 2 = 0
    · rw [if_neg (by omega)]
      rw [if_pos hu0] at hb
      apply ibfly_val f _ _ _ (u / 2) w _ _ _ hu
      · exact le_trans (Nat.mul_le_mul_right w (Nat.div_le_self u 2)) huw
      · exact ha
      · rw [hb]; simp
    · rw [if_pos (by omega)]
      rw [if_neg hu0] at hb
      apply ibflySqrt2_val f
      · apply sq2_mul_isq2 f _ _ _ h4 hz
        have e : u * w = 2 * (u / 2 + u * (w / 2)) + 1 := by
          have h1 : u = 2 * (u / 2) + 1 := by omega
          have h2 : w = 2 * (w / 2) + 1 := by omega
          generalize u / 2 = a' at *; generalize w / 2 = b' at *
          rw [h1, h2]; ring
        have hlt : u * w < 2 * (2 ^ d * w) := by
          have : u * w < 2 * 2 ^ d * w := Nat.mul_lt_mul_of_pos_right hu2 (by omega)
          rw [Nat.mul_assoc] at this; exact this
        omega
      · exact ha
      · exact hb

end ring

/-! ### the outer inverse pass -/

/-- first-half column update (ifft_mfa_trunc_sqrt2.c:283-296) -/
def imfaH1 (e1 e2 w : Nat) (i : Nat) (col : List Int) : List Int :=
  ifft_radix2_twiddle e2 (w * 2 ^ (e1 + 1)) w 0 i 1 (revPerm (e2 + 1) col)

/-- the column update of the last loop of mpir_ifft_mfa_trunc_sqrt2 (ifft_mfa_trunc_sqrt2.c:207-260; the same
    statements as :302-354 of the outer variant): swaps, recomputed entries, truncated inverse transform, √2 layer -/
def imfaG2u (e1 e2 w trunc : Nat) (i : Nat) (ca cb0 : List Int) : List Int × List Int :=
  let cb := revSwaps (e2 + 1) ((trunc - 2 * 2 ^ (e1 + e2 + 1)) / 2 ^ (e1 + 1)) cb0
  let cb := (List.range (2 ^ (e2 + 1))).map fun j =>
    if (trunc - 2 * 2 ^ (e1 + e2 + 1)) / 2 ^ (e1 + 1) ≤ j then
      let u := i + j * 2 ^ (e1 + 1)
      if w % 2 = 1 then
        if i % 2 = 1 then adjSqrt2 (wnOf (2 ^ (e1 + e2 + 1)) w) (el ca j) u w
        else adj (el ca j) (u / 2) w
      else adj (el ca j) u (w / 2)
    else el cb j
  let cb := ifft_trunc1_twiddle e2 (w * 2 ^ (e1 + 1)) w 0 i 1 ((trunc - 2 * 2 ^ (e1 + e2 + 1)) / 2 ^ (e1 + 1)) cb
  let h := fun m =>
    let j := i + m * 2 ^ (e1 + 1)
    if j < trunc - 2 * 2 ^ (e1 + e2 + 1) then
      if w % 2 = 1 then
        if j % 2 = 1 then ibflySqrt2 (wnOf (2 ^ (e1 + e2 + 1)) w) (el ca m) (el cb m) j w
        else ibfly (wnOf (2 ^ (e1 + e2 + 1)) w) (el ca m) (el cb m) (j / 2) w
      else ibfly (wnOf (2 ^ (e1 + e2 + 1)) w) (el ca m) (el cb m) j (w / 2)
    else (2 * el ca m, el cb m)
  (fsts (2 ^ (e2 + 1)) h, snds (2 ^ (e2 + 1)) h)

/-- the column update of the second loop of the outer variant (:302-365): the same, then the division by 4n -/
def imfaG2 (e1 e2 w trunc : Nat) (i : Nat) (ca cb0 : List Int) : List Int × List Int :=
  let sc := fun (v : Int) => v * 2 ^ (2 * wnOf (2 ^ (e1 + e2 + 1)) w - (e2 + 1 + (e1 + 1) + 1))
  ((imfaG2u e1 e2 w trunc i ca cb0).1.map sc,
   (List.range (2 ^ (e2 + 1))).map fun j =>
     if j < (trunc - 2 * 2 ^ (e1 + e2 + 1)) / 2 ^ (e1 + 1) then sc (el (imfaG2u e1 e2 w trunc i ca cb0).2 j)
     else el (imfaG2u e1 e2 w trunc i ca cb0).2 j)

theorem ifft_mfa_outer_unfold (e1 e2 w trunc : Nat) (xs : List Int) :
    ifft_mfa_trunc_sqrt2_outer (e1 + e2 + 1) w (2 ^ (e1 + 1)) trunc xs =
      (List.range (2 ^ (e1 + 1))).foldl
        (colStep (2 ^ (e1 + 1)) (2 ^ (e2 + 1)) (2 ^ (e1 + 1) * 2 ^ (e2 + 1)) (imfaG2 e1 e2 w trunc))
        ((List.range (2 ^ (e1 + 1))).foldl
          (fun xs i => setCol xs i (2 ^ (e1 + 1)) (imfaH1 e1 e2 w i (getCol xs i (2 ^ (e1 + 1)) (2 ^ (e2 + 1))))) xs) := by
  have hN : 2 ^ (e1 + 1) * 2 ^ (e2 + 1) = 2 * 2 ^ (e1 + e2 + 1) := by
    rw [← pow_add, ← pow_succ']; congr 1; ring
  have hn2 : 2 * 2 ^ (e1 + e2 + 1) / 2 ^ (e1 + 1) = 2 ^ (e2 + 1) := by
    rw [← hN]; exact Nat.mul_div_cancel_left _ (two_pow_pos' _)
  unfold ifft_mfa_trunc_sqrt2_outer
  simp only [hn2, clog2_pow, Nat.add_sub_cancel]
  rw [hN]
  rfl

/-- the row update of mpir_ifft_mfa_trunc_sqrt2 (ifft_mfa_trunc_sqrt2.c:163-172, :194-204): revbin swaps, mpir_ifft_radix2 -/
def imfaRowF (e1 e2 w : Nat) (row : List Int) : List Int :=
  ifft_radix2 e1 (w * 2 ^ (e2 + 1)) (revPerm (e1 + 1) row)

theorem ifft_mfa_unfold (e1 e2 w trunc : Nat) (xs : List Int) :
    ifft_mfa_trunc_sqrt2 (e1 + e2 + 1) w (2 ^ (e1 + 1)) trunc xs =
      (List.range (2 ^ (e1 + 1))).foldl
        (colStep (2 ^ (e1 + 1)) (2 ^ (e2 + 1)) (2 ^ (e1 + 1) * 2 ^ (e2 + 1)) (imfaG2u e1 e2 w trunc))
        (onRows
          ((List.range (2 ^ (e1 + 1))).foldl
            (fun xs i => setCol xs i (2 ^ (e1 + 1)) (imfaH1 e1 e2 w i (getCol xs i (2 ^ (e1 + 1)) (2 ^ (e2 + 1)))))
            (onRows xs 0 (2 ^ (e1 + 1)) (List.range (2 ^ (e2 + 1))) (imfaRowF e1 e2 w)))
          (2 ^ (e1 + 1) * 2 ^ (e2 + 1)) (2 ^ (e1 + 1))
          ((List.range ((trunc - 2 * 2 ^ (e1 + e2 + 1)) / 2 ^ (e1 + 1))).map fun s => revbin s (e2 + 1))
          (imfaRowF e1 e2 w)) := by
  have hN : 2 ^ (e1 + 1) * 2 ^ (e2 + 1) = 2 * 2 ^ (e1 + e2 + 1) := by
    rw [← pow_add, ← pow_succ']; congr 1; ring
  have hn2 : 2 * 2 ^ (e1 + e2 + 1) / 2 ^ (e1 + 1) = 2 ^ (e2 + 1) := by
    rw [← hN]; exact Nat.mul_div_cancel_left _ (two_pow_pos' _)
  unfold ifft_mfa_trunc_sqrt2
  simp only [hn2, clog2_pow, Nat.add_sub_cancel]
  rw [hN]
  rfl

end Mpir.FftX
