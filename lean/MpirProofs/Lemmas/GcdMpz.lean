/- mpz_gcd, mpz_gcd_ui, mpz_lcm, mpz_lcm_ui models against their specifications. -/
import MpirProofs.Lemmas.Gcd1Spec
import MpirProofs.Lemmas.GcdSize
namespace Mpir.Gcd
open Mpir

/-- mpn_gcd_1 model = gcd on its whole domain (size ≥ 1, {up,size} ≠ 0, vlimb ≠ 0) -/
theorem gcd_1_correct (up : List Nat) (v : Nat) (hl : Limbs up) (hu : val up ≠ 0) (hv0 : 0 < v) (hvB : v < B) :
    gcd_1 up v = Nat.gcd (val up) v := by
  match up, hl, hu with
  | [], _, hu => simp at hu
  | [u0], hl, hu =>
    have h1 := (Limbs_cons.mp hl).1
    have h2 : 0 < u0 := by
      rcases Nat.eq_zero_or_pos u0 with h | h
      · subst h; simp at hu
      · exact h
    have := gcd_1_single u0 v h2 h1 hv0 hvB
    simpa using this
  | u0 :: u1 :: rest, hl, _ => exact gcd_1_multi u0 u1 rest v (Limbs_cons.mp hl).1 hv0 hvB

/-- gcd_1 applied to the limbs of a natural -/
theorem gcd_1_natLimbs (U v : Nat) (hU : 0 < U) (hv0 : 0 < v) (hvB : v < B) :
    gcd_1 (natLimbs U) v = Nat.gcd U v := by
  have := gcd_1_correct (natLimbs U) v (Limbs_natLimbs U) (by rw [val_natLimbs]; omega) hv0 hvB
  rwa [val_natLimbs] at this

theorem odd_pos {x : Nat} (h : x % 2 = 1) : 0 < x := by
  rcases Nat.eq_zero_or_pos x with h0 | h0
  · simp [h0] at h
  · exact h0

/-- what the mpz layer assumes of mpn_gcd: the gcd, on every call satisfying the C's ASSERTs
    (usize ≥ n > 0, vp[n-1] ≠ 0) with V odd. -/
def MpnGcdContract : Prop :=
  ∀ U V : Nat, 0 < V → V % 2 = 1 → nlimbs V ≤ nlimbs U → mpn_gcd U (nlimbs U) V (nlimbs V) = Nat.gcd U V

/-- stripping low zero limbs and then the low zero bits of the next limb (gcd.c:86-120) yields the odd part -/
theorem strip_limbs_bits (U : Nat) (h0 : 0 < U) :
    ctz ((U / B ^ lowZeroLimbs U) % B) = ctz U % 64 ∧
    (U / B ^ lowZeroLimbs U) >>> (ctz U % 64) = U >>> ctz U := by
  have hB : B = 2 ^ 64 := rfl
  obtain ⟨h1, hodd⟩ := ctz_spec U h0
  unfold lowZeroLimbs
  rw [shiftRight_ctz]
  generalize ctz U = k at *
  generalize U / 2 ^ k = o at *
  have hk : 64 * (k / 64) + k % 64 = k := Nat.div_add_mod k 64
  have hBp : B ^ (k / 64) = 2 ^ (64 * (k / 64)) := by rw [hB, ← pow_mul]
  have hU1 : U / B ^ (k / 64) = 2 ^ (k % 64) * o := by
    rw [hBp]
    have : U = 2 ^ (64 * (k / 64)) * (2 ^ (k % 64) * o) := by
      rw [← Nat.mul_assoc, ← Nat.pow_add, hk]; exact h1
    conv_lhs => rw [this]
    exact Nat.mul_div_cancel_left _ (by positivity)
  rw [hU1]
  have hr : k % 64 < 64 := Nat.mod_lt _ (by norm_num)
  generalize k % 64 = r at *
  constructor
  · apply ctz_unique _ r (o % 2 ^ (64 - r))
    · obtain ⟨j, hj⟩ : ∃ j, 64 - r = j + 1 := ⟨63 - r, by omega⟩
      rw [hj, pow_succ, Nat.mod_mul_left_mod]; exact hodd
    · rw [hB]
      have : (2:Nat) ^ 64 = 2 ^ r * 2 ^ (64 - r) := by rw [← Nat.pow_add]; congr 1; omega
      rw [this, Nat.mul_mod_mul_left]
  · rw [Nat.shiftRight_eq_div_pow]; exact Nat.mul_div_cancel_left _ (by positivity)

theorem mpz_gcd_correct (hc : MpnGcdContract) (u v : Int) : mpz_gcd u v = gcdSpec u v := by
  have hB : B = 2 ^ 64 := rfl
  have hspec : gcdSpec u v = ((Nat.gcd u.natAbs v.natAbs : Nat) : Int) := rfl
  rw [hspec]
  unfold mpz_gcd
  simp only
  generalize u.natAbs = U
  generalize v.natAbs = V
  by_cases hU0 : nlimbs U = 0
  · rw [if_pos hU0]
    have := (nlimbs_eq_zero_iff U).mp hU0
    subst this; simp
  rw [if_neg hU0]
  by_cases hV0 : nlimbs V = 0
  · rw [if_pos hV0]
    have := (nlimbs_eq_zero_iff V).mp hV0
    subst this; simp
  rw [if_neg hV0]
  have hUpos : 0 < U := Nat.pos_of_ne_zero (fun h => hU0 ((nlimbs_eq_zero_iff U).mpr h))
  have hVpos : 0 < V := Nat.pos_of_ne_zero (fun h => hV0 ((nlimbs_eq_zero_iff V).mpr h))
  by_cases hU1 : nlimbs U = 1
  · rw [if_pos hU1]
    obtain ⟨_, hlt⟩ := (nlimbs_eq_one_iff U).mp hU1
    rw [gcd_1_natLimbs V U hVpos hUpos hlt, Nat.gcd_comm]
  rw [if_neg hU1]
  by_cases hV1 : nlimbs V = 1
  · rw [if_pos hV1]
    obtain ⟨_, hlt⟩ := (nlimbs_eq_one_iff V).mp hV1
    rw [gcd_1_natLimbs U V hUpos hVpos hlt]
  rw [if_neg hV1]
  -- general case
  obtain ⟨eu1, eu2⟩ := strip_limbs_bits U hUpos
  obtain ⟨ev1, ev2⟩ := strip_limbs_bits V hVpos
  rw [eu1, ev1, eu2, ev2]
  have hou : (U >>> ctz U) % 2 = 1 := ctz_odd U hUpos
  have hov : (V >>> ctz V) % 2 = 1 := ctz_odd V hVpos
  have hmu := ctz_mul U hUpos
  have hmv := ctz_mul V hVpos
  have houpos : 0 < U >>> ctz U := odd_pos hou
  have hovpos : 0 < V >>> ctz V := odd_pos hov
  -- the mpn_gcd call
  have hg : (if nlimbs (U >>> ctz U) < nlimbs (V >>> ctz V) ∨
        nlimbs (U >>> ctz U) = nlimbs (V >>> ctz V) ∧
          limbAt (U >>> ctz U) (nlimbs (U >>> ctz U) - 1) < limbAt (V >>> ctz V) (nlimbs (V >>> ctz V) - 1)
      then mpn_gcd (V >>> ctz V) (nlimbs (V >>> ctz V)) (U >>> ctz U) (nlimbs (U >>> ctz U))
      else mpn_gcd (U >>> ctz U) (nlimbs (U >>> ctz U)) (V >>> ctz V) (nlimbs (V >>> ctz V)))
      = Nat.gcd (U >>> ctz U) (V >>> ctz V) := by
    split
    · rename_i h
      rw [hc _ _ houpos hou (by omega), Nat.gcd_comm]
    · rename_i h
      rw [hc _ _ hovpos hov (by omega)]
  rw [hg]
  -- the common power of two
  have hz : (if lowZeroLimbs U > lowZeroLimbs V then (lowZeroLimbs V, ctz V % 64)
      else if lowZeroLimbs U < lowZeroLimbs V then (lowZeroLimbs U, ctz U % 64)
      else (lowZeroLimbs U, min (ctz U % 64) (ctz V % 64))).1 * 64 +
      (if lowZeroLimbs U > lowZeroLimbs V then (lowZeroLimbs V, ctz V % 64)
      else if lowZeroLimbs U < lowZeroLimbs V then (lowZeroLimbs U, ctz U % 64)
      else (lowZeroLimbs U, min (ctz U % 64) (ctz V % 64))).2 = min (ctz U) (ctz V) := by
    unfold lowZeroLimbs
    split
    · simp only; omega
    · split
      · simp only; omega
      · simp only; omega
  rw [hz, Nat.shiftLeft_eq]
  congr 1
  conv_rhs => rw [← hmu, ← hmv]
  rw [gcd_pow_two _ _ _ _ hou hov, Nat.mul_comm]

theorem mpz_gcd_ui_correct (u : Int) (v : Nat) (hv : v < B) :
    (mpz_gcd_ui u v).1 = ((Nat.gcd u.natAbs v : Nat) : Int) ∧
    (mpz_gcd_ui u v).2 = (if Nat.gcd u.natAbs v < B then Nat.gcd u.natAbs v else 0) := by
  unfold mpz_gcd_ui
  simp only
  generalize u.natAbs = U
  by_cases hU0 : nlimbs U = 0
  · rw [if_pos hU0]
    have := (nlimbs_eq_zero_iff U).mp hU0
    subst this; simp [hv]
  rw [if_neg hU0]
  have hUpos : 0 < U := Nat.pos_of_ne_zero (fun h => hU0 ((nlimbs_eq_zero_iff U).mpr h))
  by_cases hv0 : v = 0
  · rw [if_pos hv0]; subst hv0
    simp only [Nat.gcd_zero_right, true_and]
    by_cases h1 : nlimbs U = 1
    · rw [if_pos h1, if_pos ((nlimbs_eq_one_iff U).mp h1).2]
    · rw [if_neg h1, if_neg]
      intro hlt; exact h1 ((nlimbs_eq_one_iff U).mpr ⟨hUpos, hlt⟩)
  · rw [if_neg hv0]
    have hvpos : 0 < v := Nat.pos_of_ne_zero hv0
    rw [gcd_1_natLimbs U v hUpos hvpos hv]
    exact ⟨rfl, by rw [if_pos (gcd_le_right_lt hvpos hv)]⟩

theorem lcm_aux (U V : Nat) : U * (V / Nat.gcd U V) = U * V / Nat.gcd U V :=
  (Nat.mul_div_assoc U (Nat.gcd_dvd_right U V)).symm

theorem lcmSpec_eq (u v : Int) (hu : u ≠ 0) (hv : v ≠ 0) :
    lcmSpec u v = ((u.natAbs * v.natAbs / Nat.gcd u.natAbs v.natAbs : Nat) : Int) := by
  unfold lcmSpec
  rw [if_neg (by simp [hu, hv]), Int.natAbs_mul]
  rfl

theorem mpz_lcm_ui_correct (u : Int) (v : Nat) (hv : v < B) : mpz_lcm_ui u v = lcmSpec u v := by
  unfold mpz_lcm_ui
  by_cases h : u = 0 ∨ v = 0
  · rw [if_pos h]; unfold lcmSpec; rw [if_pos (by rcases h with h | h <;> simp [h])]
  · rw [if_neg h]
    have hu : u ≠ 0 := fun e => h (Or.inl e)
    have hv0 : v ≠ 0 := fun e => h (Or.inr e)
    rw [lcmSpec_eq u v hu (by exact_mod_cast hv0), Int.natAbs_natCast,
        gcd_1_natLimbs u.natAbs v (Int.natAbs_pos.mpr hu) (Nat.pos_of_ne_zero hv0) hv, lcm_aux]

theorem mpz_lcm_correct (hc : MpnGcdContract) (u v : Int) : mpz_lcm u v = lcmSpec u v := by
  unfold mpz_lcm
  simp only
  by_cases h0 : nlimbs u.natAbs = 0 ∨ nlimbs v.natAbs = 0
  · rw [if_pos h0]; unfold lcmSpec
    rw [if_pos]
    rcases h0 with h | h
    · left; exact Int.natAbs_eq_zero.mp ((nlimbs_eq_zero_iff _).mp h)
    · right; exact Int.natAbs_eq_zero.mp ((nlimbs_eq_zero_iff _).mp h)
  rw [if_neg h0]
  have hu : u ≠ 0 := fun e => h0 (Or.inl (by rw [e]; exact nlimbs_zero))
  have hv : v ≠ 0 := fun e => h0 (Or.inr (by rw [e]; exact nlimbs_zero))
  have hU : 0 < u.natAbs := Int.natAbs_pos.mpr hu
  have hV : 0 < v.natAbs := Int.natAbs_pos.mpr hv
  rw [lcmSpec_eq u v hu hv]
  by_cases hv1 : nlimbs v.natAbs = 1
  · rw [if_pos hv1, gcd_1_natLimbs _ _ hU hV ((nlimbs_eq_one_iff _).mp hv1).2, lcm_aux]
  rw [if_neg hv1]
  by_cases hu1 : nlimbs u.natAbs = 1
  · rw [if_pos hu1, gcd_1_natLimbs _ _ hV hU ((nlimbs_eq_one_iff _).mp hu1).2, lcm_aux,
        Nat.mul_comm, Nat.gcd_comm]
  rw [if_neg hu1, mpz_gcd_correct hc]
  show (((u / ((Nat.gcd u.natAbs v.natAbs : Nat) : Int)) * v).natAbs : Int) = _
  congr 1
  rw [Int.natAbs_mul]
  have hg : Nat.gcd u.natAbs v.natAbs ∣ u.natAbs := Nat.gcd_dvd_left _ _
  have hgpos : 0 < Nat.gcd u.natAbs v.natAbs := Nat.gcd_pos_of_pos_left _ hU
  have hdiv : ((Nat.gcd u.natAbs v.natAbs : Nat) : Int) ∣ u := Int.natCast_dvd.mpr hg
  have : (u / ((Nat.gcd u.natAbs v.natAbs : Nat) : Int)).natAbs = u.natAbs / Nat.gcd u.natAbs v.natAbs := by
    rw [Int.natAbs_ediv_of_dvd hdiv, Int.natAbs_natCast]
  rw [this, Nat.div_mul_right_comm hg]

end Mpir.Gcd
