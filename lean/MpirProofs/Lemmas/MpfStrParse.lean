/- mpf_set_str's reading of its argument (MpfStr.parse): facts about the accepted strings. -/
import MpirProofs.Lemmas.MpfStrConv
import MpirProofs.Lemmas.Radix
namespace Mpir.MpfStr
open Mpir Mpir.Radix

theorem scanMant_spec (dv : ℕ → ℕ) (b : ℕ) : ∀ (l ds : List ℕ) (dot : Option ℕ),
    scanMant dv b l = some (ds, dot) → (∀ d ∈ ds, d < b) ∧ (∀ k, dot = some k → k ≤ ds.length)
  | [], ds, dot, h => by
      simp only [scanMant, Option.some.injEq, Prod.mk.injEq] at h
      obtain ⟨h1, h2⟩ := h; subst h1; subst h2; simp
  | c :: cs, ds, dot, h => by
      simp only [scanMant] at h
      cases hr : scanMant dv b cs with
      | none => rw [hr] at h; simp at h
      | some r =>
        obtain ⟨ds0, dot0⟩ := r
        have ih := scanMant_spec dv b cs ds0 dot0 hr
        rw [hr] at h
        simp only at h
        split at h
        · simp only [Option.some.injEq, Prod.mk.injEq] at h
          obtain ⟨h1, h2⟩ := h; subst h1; subst h2; exact ih
        · split at h
          · cases dot0 with
            | some _ => simp at h
            | none =>
              simp only [Option.some.injEq, Prod.mk.injEq] at h
              obtain ⟨h1, h2⟩ := h; subst h1; subst h2
              refine ⟨ih.1, ?_⟩
              intro k hk; simp at hk; omega
          · split at h
            · simp only [Option.some.injEq, Prod.mk.injEq] at h
              obtain ⟨h1, h2⟩ := h; subst h1; subst h2
              rename_i hlt
              refine ⟨?_, ?_⟩
              · intro d hd
                rcases List.mem_cons.mp hd with e | e
                · rw [e]; exact hlt
                · exact ih.1 d e
              · intro k hk
                have := ih.2 k hk
                simp; omega
            · simp at h

theorem parseBody_wf (neg : Bool) (b eb : ℕ) (s : List ℕ) (p : Parsed) (h : parseBody neg b eb s = some p) :
    p.neg = neg ∧ p.base = b ∧ (∀ d ∈ p.digits, d < b) ∧ p.frac ≤ p.digits.length := by
  unfold parseBody at h
  simp only at h
  generalize digitValue (if 36 < b then 224 else 0) = dv at h
  cases s with
  | nil => simp at h
  | cons c rest =>
    simp only at h
    split at h
    · simp at h
    · split at h
      · simp at h
      · rename_i ds dot hm
        have sm := scanMant_spec _ _ _ _ _ hm
        have hfrac : dot.getD 0 ≤ ds.length := by
          cases dot with
          | none => simp
          | some k => simpa using sm.2 k rfl
        split at h
        · simp only [Option.some.injEq] at h
          subst h; exact ⟨rfl, rfl, sm.1, hfrac⟩
        · split at h
          · simp only [Option.some.injEq] at h
            subst h; exact ⟨rfl, rfl, sm.1, hfrac⟩
          · split at h
            · simp at h
            · simp only [Option.some.injEq] at h
              subst h; exact ⟨rfl, rfl, sm.1, hfrac⟩

/-- what an accepted string yields: a legal base (|base|, or 10 for base 0), digits of that base, a fraction
    length within the digits, the sign read after the leading white space -/
theorem parse_wf (base : ℤ) (s : List ℕ) (p : Parsed) (h : parse base s = some p) :
    2 ≤ p.base ∧ p.base ≤ 62 ∧ p.base = baseOf base ∧
    (∀ d ∈ p.digits, d < p.base) ∧ p.frac ≤ p.digits.length ∧
    p.neg = (((s.takeWhile (· != 0)).dropWhile isSpace).head? == some 45) := by
  unfold parse at h
  simp only at h
  split at h
  · simp at h
  · rename_i hb
    obtain ⟨a, b, c, d⟩ := parseBody_wf _ _ _ _ _ h
    rw [b]
    exact ⟨by omega, by omega, rfl, c, d, a⟩

end Mpir.MpfStr
