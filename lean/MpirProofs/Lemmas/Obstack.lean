/- Helper lemmas for MpirProofs/Props/C18_obstack.lean: the obstack callbacks of lean/Mpir/Model/Obstack.lean append exactly
   the bytes of the call, inside the chunk, whatever the chunk geometry; `__gmp_doprnt` counts exactly the bytes it hands out. -/
import Mpir.Model.Obstack
import MpirProofs.Lemmas.Printf
namespace Mpir.Obstack
open Mpir.Printf

/-- `_obstack_newchunk (h, n)` moves the object unchanged and leaves at least `n` bytes of room -/
theorem newchunk_fields (o : Ob) (n : Nat) :
    (newchunk o n).obj = o.obj ∧ (newchunk o n).ok = o.ok ∧ (newchunk o n).stale = o.stale ∧
    (newchunk o n).chunkSize = o.chunkSize ∧ n ≤ (newchunk o n).room := by
  refine ⟨rfl, rfl, rfl, rfl, ?_⟩
  simp only [newchunk, chunkHeader, alignMask]
  omega

theorem ensure_fields (o : Ob) (n : Nat) :
    (ensure o n).obj = o.obj ∧ (ensure o n).ok = o.ok ∧ (ensure o n).stale = o.stale ∧
    (ensure o n).chunkSize = o.chunkSize ∧ n ≤ (ensure o n).room := by
  unfold ensure
  split
  · exact newchunk_fields o n
  · exact ⟨rfl, rfl, rfl, rfl, by omega⟩

theorem grow_spec (o : Ob) (s : List Char) :
    (grow o s).obj = o.obj ++ s.map some ∧ (grow o s).ok = o.ok ∧ (grow o s).stale = o.stale ∧
    (grow o s).chunkSize = o.chunkSize := by
  obtain ⟨h1, h2, h3, h4, h5⟩ := ensure_fields o s.length
  simp only [grow, h1, h2, h3, h4, h5, decide_true, Bool.and_true, and_self]

theorem blank_spec (o : Ob) (n : Nat) :
    (blank o n).obj = o.obj ++ List.replicate n none ∧ (blank o n).ok = o.ok ∧ (blank o n).stale = o.stale ∧
    (blank o n).chunkSize = o.chunkSize ∧ ((blank o n).cur = o.cur ↔ n ≤ o.room) := by
  obtain ⟨h1, h2, h3, h4, h5⟩ := ensure_fields o n
  simp only [blank, h1, h2, h3, h4, h5, decide_true, Bool.and_true, true_and]
  unfold ensure
  split
  · simp only [newchunk]; omega
  · simp only [true_iff]; omega

theorem memset_tail (o : Ob) (pre : List (Option Char)) (c : Char) (n : Nat)
    (h : o.obj = pre ++ List.replicate n none) :
    memset o { chunk := o.cur, off := o.obj.length - n } c n = { o with obj := pre ++ List.replicate n (some c) } := by
  have hl : o.obj.length - n = pre.length := by simp [h]
  unfold memset
  simp only [hl]
  have hc : pre.length + n ≤ o.obj.length := by simp [h]
  simp only [true_and, hc, if_true]
  rw [h]
  simp

theorem obReps_spec (o : Ob) (c : Char) (n : Nat) :
    (obReps o c n).1.obj = o.obj ++ List.replicate n (some c) ∧ (obReps o c n).1.ok = o.ok ∧
    (obReps o c n).1.stale = o.stale ∧ (obReps o c n).1.chunkSize = o.chunkSize ∧ (obReps o c n).2 = n := by
  obtain ⟨h1, h2, h3, h4, _⟩ := blank_spec o n
  have e : obReps o c n = (memset (blank o n) { chunk := (blank o n).cur, off := (blank o n).obj.length - n } c n, n) := rfl
  rw [e, memset_tail (blank o n) o.obj c n h1]
  exact ⟨rfl, h2, h3, h4, rfl⟩

/-- every callback appends exactly its bytes to the object, stores nothing outside, returns their number -/
theorem obCall_spec (o : Ob) (c : Call) :
    (obCall o c).1.obj = o.obj ++ c.bytes.map some ∧ (obCall o c).1.ok = o.ok ∧ (obCall o c).1.stale = o.stale ∧
    (obCall o c).1.chunkSize = o.chunkSize ∧ (obCall o c).2 = c.bytes.length := by
  cases c with
  | format out => obtain ⟨a, b, c, d⟩ := grow_spec o out; exact ⟨a, b, c, d, rfl⟩
  | memory s => obtain ⟨a, b, c, d⟩ := grow_spec o s; exact ⟨a, b, c, d, rfl⟩
  | reps ch n =>
    obtain ⟨a, b, c, d, e⟩ := obReps_spec o ch n
    refine ⟨?_, b, c, d, ?_⟩
    · simpa [obCall, Call.bytes] using a
    · simpa [obCall, Call.bytes] using e

theorem obCalls_spec (cs : List Call) : ∀ (o : Ob) (ret : Nat),
    (obCalls o cs ret).1.obj = o.obj ++ (callsBytes cs).map some ∧ (obCalls o cs ret).1.ok = o.ok ∧
    (obCalls o cs ret).1.stale = o.stale ∧ (obCalls o cs ret).1.chunkSize = o.chunkSize ∧
    (obCalls o cs ret).2 = ret + (callsBytes cs).length := by
  induction cs with
  | nil => intro o ret; simp [obCalls, callsBytes]
  | cons c cs ih =>
    intro o ret
    obtain ⟨a, b, d, e, f⟩ := obCall_spec o c
    obtain ⟨a', b', d', e', f'⟩ := ih (obCall o c).1 (ret + (obCall o c).2)
    have hstep : obCalls o (c :: cs) ret = obCalls (obCall o c).1 cs (ret + (obCall o c).2) := rfl
    rw [hstep]
    refine ⟨?_, by rw [b', b], by rw [d', d], by rw [e', e], ?_⟩
    · rw [a', a]; simp [callsBytes]
    · rw [f', f]; simp [callsBytes]; omega

theorem obSeq_spec (css : List (List Call)) : ∀ (o : Ob) (sum : Nat),
    (obSeq o css sum).1.obj = o.obj ++ (css.flatMap callsBytes).map some ∧ (obSeq o css sum).1.ok = o.ok ∧
    (obSeq o css sum).1.stale = o.stale ∧
    (obSeq o css sum).2 = sum + (css.map (fun cs => (callsBytes cs).length)).sum := by
  induction css with
  | nil => intro o sum; simp [obSeq]
  | cons cs css ih =>
    intro o sum
    obtain ⟨a, b, d, _, f⟩ := obCalls_spec cs o 0
    obtain ⟨a', b', d', f'⟩ := ih (obCalls o cs 0).1 (sum + (obCalls o cs 0).2)
    have hstep : obSeq o (cs :: css) sum = obSeq (obCalls o cs 0).1 css (sum + (obCalls o cs 0).2) := rfl
    rw [hstep]
    refine ⟨?_, by rw [b', b], by rw [d', d], ?_⟩
    · rw [a', a]; simp
    · rw [f', f]; simp; omega

theorem text_of_some (o : Ob) (t : List Char) (h : o.obj = t.map some) : o.text = t ∧ o.initialised = true := by
  unfold Ob.text Ob.initialised
  rw [h]
  constructor
  · simp [Function.comp_def]
  · simp

/-! ### `__gmp_doprnt` returns the number of bytes it handed to the callbacks -/

/-- DOPRNT_ACCUMULATE: the running total is the number of bytes handed out so far -/
def Counted (st : DS) : Prop := st.retval = (callsBytes st.calls).length

theorem counted_emit (st : DS) (cs : List Call) (h : Counted st) : Counted (st.emit cs) := by
  unfold Counted DS.emit at *
  simp [callsBytes, h] at *

theorem counted_sync (st : DS) (h : Counted st) : Counted st.sync := h

theorem counted_flush (st : DS) (tp : List Char) (st' : DS) (h : Counted st) (e : flush st tp = some st') : Counted st' := by
  unfold flush at e
  split at e
  · cases e; exact h
  · split at e
    · cases e; exact counted_emit _ _ h
    · cases e

theorem ofOpt_cont {m m' : Mode} {o : Option DS} {st : DS} (e : Step.ofOpt m o = .cont m' st) : o = some st := by
  cases o with
  | none => cases e
  | some x => simp only [Step.ofOpt, Step.cont.injEq] at e; rw [e.2]

/-- closes `Counted (… built from the flushed state by emit / sync / field updates)` given `h : Counted st`
    (shapes are matched syntactically: a failing `exact` would unfold the layout functions) -/
macro "counted_close" h:ident : tactic =>
  `(tactic| first
      | (have hc := counted_flush _ _ _ $h ‹flush _ _ = some _›
         first
           | (refine counted_sync _ (counted_emit _ _ ?_); exact hc)
           | (refine counted_sync _ ?_; exact hc))
      | exact $h)

theorem counted_doInteger (old : Bool) (ps : PS) (tp : List Char) (base : Int) (st st' : DS)
    (h : Counted st) (e : doInteger old ps tp base st = some st') : Counted st' := by
  unfold doInteger at e
  simp only [] at e
  repeat' split at e
  all_goals first
    | (cases e; done)
    | (cases e; counted_close h)

theorem counted_doN (ps : PS) (tp : List Char) (st st' : DS)
    (h : Counted st) (e : doN ps tp st = some st') : Counted st' := by
  unfold doN at e
  simp only [] at e
  repeat' split at e
  all_goals first
    | (cases e; done)
    | (cases e; counted_close h)

theorem counted_doFloat (old : Bool) (ps : PS) (tp : List Char) (c : Char) (st st' : DS)
    (h : Counted st) (e : doFloat old ps tp c st = some st') : Counted st' := by
  unfold doFloat at e
  simp only [] at e
  split at e
  · split at e
    · split at e
      · cases e; counted_close h
      · cases e
    · cases e
  · cases e

/-- the state a step continues with (if it does) is counted -/
def StepCounted : Step → Prop
  | .fail => True
  | .cont _ st => Counted st

theorem stepCounted_ite {p : Prop} [Decidable p] {a b : Step}
    (ha : p → StepCounted a) (hb : ¬ p → StepCounted b) : StepCounted (if p then a else b) := by
  split
  · exact ha ‹_›
  · exact hb ‹_›

theorem stepCounted_ofOpt (m : Mode) (o : Option DS) (h : ∀ st, o = some st → Counted st) :
    StepCounted (Step.ofOpt m o) := by
  cases o with
  | none => trivial
  | some st => exact h st rfl

theorem stepCounted_specStep (old : Bool) (c : Char) (ps : PS) (tp : List Char) (st0 : DS) (h : Counted st0) :
    StepCounted (specStep old c ps tp st0) := by
  have hp : Counted { st0 with pending := c :: st0.pending } := h
  unfold specStep
  simp only []
  repeat' (apply stepCounted_ite <;> intro _)
  all_goals first
    | exact h
    | exact hp
    | (apply stepCounted_ofOpt; intro st e
       first
         | exact counted_doInteger _ _ _ _ _ _ hp e
         | exact counted_doN _ _ _ _ hp e
         | exact counted_doFloat _ _ _ _ _ _ hp e)
    | (split <;> trivial)

theorem counted_specStep (old : Bool) (c : Char) (ps : PS) (tp : List Char) (st0 : DS) (m : Mode) (st : DS)
    (h : Counted st0) (e : specStep old c ps tp st0 = .cont m st) : Counted st := by
  have := stepCounted_specStep old c ps tp st0 h
  rw [e] at this
  exact this

theorem counted_run (old : Bool) : ∀ (cs : List Char) (m : Mode) (st st' : DS),
    Counted st → run old cs m st = some st' → Counted st' := by
  intro cs
  induction cs with
  | nil =>
    intro m st st' h e
    cases m with
    | text =>
      unfold run at e
      split at e
      · cases e; exact h
      · split at e
        · cases e; exact counted_emit _ _ h
        · cases e
    | spec ps tp => simp [run] at e
  | cons c cs ih =>
    intro m st st' h e
    cases m with
    | text =>
      unfold run at e
      split at e
      · exact ih _ _ _ (show Counted { st with pending := c :: st.pending } from h) e
      · exact ih _ _ _ (show Counted { st with pending := c :: st.pending } from h) e
    | spec ps tp =>
      unfold run at e
      split at e
      · cases e
      · exact ih _ _ _ (counted_specStep _ _ _ _ _ _ _ h (by assumption)) e

/-- `__gmp_doprnt` returns the number of bytes it handed to the callbacks (for every format and argument list the model
    covers, both before and after the flag repairs) -/
theorem doprnt_counted (old : Bool) (fmt : List Char) (args : List Arg) (r : DoprntResult)
    (e : doprntG old fmt args = some r) : r.retval = (callsBytes r.calls).length := by
  unfold doprntG at e
  split at e
  · cases e
    exact counted_run old fmt .text { ap := args, lastAp := args } _ (by simp [Counted, callsBytes]) (by assumption)
  · cases e

end Mpir.Obstack
