/- Helper lemmas for the model of mpn_tdiv_qr, part 4: the extraction of the normalised top parts and the approximate
   quotient in the "numerator less than twice the denominator" branch (tdiv_qr.c:199-274). -/
import MpirProofs.Lemmas.TdivQrSmall
namespace Mpir.TdivQr
open Mpir Mpir.DivWord Mpir.SbDiv

/-! ### limb vectors cut at a limb and at a bit -/

theorem getD_drop (l : List Nat) (i j : Nat) : (l.drop i).getD j 0 = l.getD (i + j) 0 := by
  simp [List.getD_eq_getElem?_getD, List.getElem?_drop]

theorem drop_cons_getD (l : List Nat) (i : Nat) (h : i < l.length) : l.drop i = l.getD i 0 :: l.drop (i + 1) := by
  rw [List.drop_eq_getElem_cons h]
  simp [List.getD_eq_getElem?_getD, h]

/-- a vector cut below and above limb i -/
theorem split_at (a : List Nat) (i : Nat) (hi : i < a.length) :
    val a = val (a.take i) + B ^ i * a.getD i 0 + B ^ (i + 1) * val (a.drop (i + 1)) := by
  rw [val_take_drop a i (by omega), drop_cons_getD a i hi, val_cons, pow_succ]; ring

theorem shr_eq_div (x s : Nat) : x >>> s = x / 2 ^ s := Nat.shiftRight_eq_div_pow x s

/-- a vector cut at bit 64-c of limb i: the part above, shifted left by c, times the unit W = 2^(64-c)·B^i, plus the
    part below, which is smaller than W -/
theorem split_W (a : List Nat) (i c : Nat) (hi : i < a.length) (ha : Limbs a) (hc : c ≤ 64) :
    val a = (val (a.drop (i + 1)) * 2 ^ c + a.getD i 0 >>> (64 - c)) * (2 ^ (64 - c) * B ^ i) +
      (a.getD i 0 % 2 ^ (64 - c) * B ^ i + val (a.take i)) ∧
    a.getD i 0 % 2 ^ (64 - c) * B ^ i + val (a.take i) < 2 ^ (64 - c) * B ^ i := by
  have hs := split_at a i hi
  have hB := Mpir.B_split c hc
  have hdm := Nat.div_add_mod (a.getD i 0) (2 ^ (64 - c))
  have hlt := val_lt (a.take i) (Limbs_take ha i)
  rw [List.length_take, Nat.min_eq_left (by omega)] at hlt
  have hm : a.getD i 0 % 2 ^ (64 - c) < 2 ^ (64 - c) := Nat.mod_lt _ (by positivity)
  constructor
  · rw [shr_eq_div, hs, pow_succ]
    generalize a.getD i 0 / 2 ^ (64 - c) = hi' at *
    generalize a.getD i 0 % 2 ^ (64 - c) = lo' at *
    generalize val (a.drop (i + 1)) = up at *
    generalize val (a.take i) = low at *
    generalize a.getD i 0 = x at *
    rw [← hdm, hB]; ring
  · have : (a.getD i 0 % 2 ^ (64 - c) + 1) * B ^ i ≤ 2 ^ (64 - c) * B ^ i := Nat.mul_le_mul_right _ hm
    have e : (a.getD i 0 % 2 ^ (64 - c) + 1) * B ^ i = a.getD i 0 % 2 ^ (64 - c) * B ^ i + B ^ i := by ring
    omega

/-- `d2p[0] |= v` after mpn_lshift is mpn_lshift with v shifted in at the bottom (tdiv_qr.c:220-221, :232, :321-322) -/
theorem orLow_lshift (u : List Nat) (c v : Nat) (hne : u ≠ []) :
    orLow (lshift u c).1 v = (lshiftGo c u v).1 ∧ (lshift u c).2 = (lshiftGo c u v).2 := by
  match u, hne with
  | x :: xs, _ => simp [lshift, lshiftGo, orLow]

theorem orLow_lshift_val (u : List Nat) (c v : Nat) (hne : u ≠ []) (hu : Limbs u) (hc : c ≤ 64) (hv : v < 2 ^ c) :
    val (orLow (lshift u c).1 v) + B ^ u.length * (lshift u c).2 = val u * 2 ^ c + v ∧
    (lshift u c).2 < 2 ^ c ∧ Limbs (orLow (lshift u c).1 v) ∧ (orLow (lshift u c).1 v).length = u.length := by
  obtain ⟨e1, e2⟩ := orLow_lshift u c v hne
  rw [e1, e2]
  exact lshiftGo_val c hc u v hu hv

/-- `(lshift (x :: us)).1 ++ [cy]` without its lowest limb (tdiv_qr.c:227-228 `n2p[2 * qn] = cy; n2p++`) -/
theorem drop_one_lshift (x : Nat) (us : List Nat) (c : Nat) (hx : x < B) (hu : Limbs us) (hc : c ≤ 64) :
    val (((lshift (x :: us) c).1 ++ [(lshift (x :: us) c).2]).drop 1) = val us * 2 ^ c + x >>> (64 - c) ∧
    Limbs (((lshift (x :: us) c).1 ++ [(lshift (x :: us) c).2]).drop 1) ∧
    (((lshift (x :: us) c).1 ++ [(lshift (x :: us) c).2]).drop 1).length = us.length + 1 := by
  have e : ((lshift (x :: us) c).1 ++ [(lshift (x :: us) c).2]).drop 1 =
      (lshiftGo c us (x >>> (64 - c))).1 ++ [(lshiftGo c us (x >>> (64 - c))).2] := by
    simp [lshift, lshiftGo]
  obtain ⟨hv, hcy, hl, hlen⟩ := lshiftGo_val c hc us (x >>> (64 - c)) hu (shr_lt x c hc hx)
  have h2 : (2 : Nat) ^ c ≤ B := by
    have := Mpir.B_split c hc
    have hp : 0 < 2 ^ (64 - c) := by positivity
    rw [this]; exact Nat.le_mul_of_pos_right _ hp
  rw [e]
  refine ⟨?_, Limbs_snoc hl (by omega), by simp [hlen]⟩
  rw [val_top1, hlen]; exact hv

theorem shr_64 (x : Nat) (hx : x < B) : x >>> 64 = 0 := by
  rw [shr_eq_div]; exact Nat.div_eq_of_lt hx

/-! ### tdiv_qr.c:214-247 -/

/-- the numerator is below dtop·B^(nn+adjust-1): what `adjust` tests (tdiv_qr.c:105) -/
theorem fit_top (n d : List Nat) (hn : Limbs n) (hnn : 1 ≤ n.length)
    (htop : d.getD (d.length - 1) 0 ≠ 0) (adjust : Nat)
    (hadj : adjust = if n.getD (n.length - 1) 0 ≥ d.getD (d.length - 1) 0 then 1 else 0) :
    val n < d.getD (d.length - 1) 0 * B ^ (n.length + adjust - 1) := by
  obtain ⟨j, hj⟩ : ∃ j, n.length = j + 1 := ⟨n.length - 1, by omega⟩
  rw [hj] at hadj ⊢
  simp only [Nat.add_sub_cancel] at hadj
  obtain ⟨_, hn2⟩ := top_bounds n j hn hj
  by_cases hge : n.getD j 0 ≥ d.getD (d.length - 1) 0
  · rw [if_pos hge] at hadj
    subst hadj
    have hnlt := val_lt n hn
    rw [hj] at hnlt
    have : 1 * B ^ (j + 1) ≤ d.getD (d.length - 1) 0 * B ^ (j + 1) :=
      Nat.mul_le_mul_right _ (Nat.pos_of_ne_zero htop)
    have e : j + 1 + 1 - 1 = j + 1 := by omega
    rw [e]; omega
  · rw [if_neg hge] at hadj
    subst hadj
    have h1 : (n.getD j 0 + 1) * B ^ j ≤ d.getD (d.length - 1) 0 * B ^ j := Nat.mul_le_mul_right _ (by omega)
    have e : j + 1 + 0 - 1 = j := by omega
    rw [e]; omega

/-- what the extraction step delivers, `i = in - 1` -/
def ExtractSpec (n d : List Nat) (qn i : Nat) (ex : Nat × List Nat × List Nat) : Prop :=
  ex.1 ≤ 63 ∧
  val ex.2.1 = val (d.drop (i + 1)) * 2 ^ ex.1 + d.getD i 0 >>> (64 - ex.1) ∧
  Limbs ex.2.1 ∧ ex.2.1.length = qn ∧ B ^ qn ≤ 2 * val ex.2.1 ∧
  val ex.2.2 = val (n.drop (i + 1)) * 2 ^ ex.1 + n.getD i 0 >>> (64 - ex.1) ∧
  Limbs ex.2.2 ∧ ex.2.2.length = 2 * qn ∧
  d.getD (d.length - 1) 0 * 2 ^ ex.1 * B ^ (qn - 1) ≤ val ex.2.1 ∧ d.getD (d.length - 1) 0 * 2 ^ ex.1 < B

theorem lt2Extract_spec (n d : List Nat) (hn : Limbs n) (hd : Limbs d) (qn i adjust : Nat) (hqn : 1 ≤ qn)
    (hdn : d.length = qn + (i + 1)) (hnn : n.length + adjust = d.length + qn) (hadj01 : adjust = 0 ∨ adjust = 1)
    (htop : d.getD (d.length - 1) 0 ≠ 0)
    (hfit : val n < d.getD (d.length - 1) 0 * B ^ (n.length + adjust - 1)) :
    ExtractSpec n d qn i (lt2Extract n d adjust qn (i + 1)) := by
  have htB : d.getD (d.length - 1) 0 < B := limb_getD hd _
  -- the top part of d
  have hud : (d.drop (i + 1)).length = (qn - 1) + 1 := by rw [List.length_drop, hdn]; omega
  have hudtop : (d.drop (i + 1)).getD (qn - 1) 0 = d.getD (d.length - 1) 0 := by
    rw [getD_drop]; congr 1; omega
  have hudl : Limbs (d.drop (i + 1)) := Limbs_drop hd _
  obtain ⟨hub1, _⟩ := top_bounds (d.drop (i + 1)) (qn - 1) hudl hud
  rw [hudtop] at hub1
  have hqn1 : qn - 1 + 1 = qn := by omega
  -- the W-form of n, to bound the extracted numerator
  have hin : i < n.length := by omega
  have hnlimb : n.getD i 0 < B := limb_getD hn i
  have hdlimb : d.getD i 0 < B := limb_getD hd i
  have hnn1 : n.length + adjust - 1 = i + 2 * qn := by omega
  unfold lt2Extract ExtractSpec
  simp only [Nat.add_sub_cancel]
  by_cases hlt : d.getD (d.length - 1) 0 < B / 2
  · rw [if_pos ((highbit_zero _ htB).mpr hlt)]
    simp only []
    obtain ⟨hc63, hclo, hchi⟩ := clz_spec _ htop htB
    obtain ⟨_, hnv, hnl, hnlen⟩ := lshift_norm (d.drop (i + 1)) (qn - 1) hudl hud (by rw [hudtop]; exact htop)
    rw [hudtop] at hnv hnl hnlen
    generalize count_leading_zeros (d.getD (d.length - 1) 0) = c at *
    have hp : 0 < 2 ^ c := by positivity
    have hc64 : c ≤ 64 := by omega
    have hBs := Mpir.B_split c hc64
    -- divisor
    obtain ⟨dv, _, dl, dlen⟩ := orLow_lshift_val (d.drop (i + 1)) c (d.getD i 0 >>> (64 - c))
      (by intro h; rw [h] at hud; simp at hud) hudl hc64 (shr_lt _ c hc64 hdlimb)
    obtain ⟨hsv, _, _, _⟩ := lshift_val (d.drop (i + 1)) c hudl hc64
    have hdcy : (lshift (d.drop (i + 1)) c).2 = 0 := by
      rw [hnv] at hsv
      have hP := Bpow_pos (d.drop (i + 1)).length
      by_contra hne
      have : B ^ (d.drop (i + 1)).length * 1 ≤ B ^ (d.drop (i + 1)).length * (lshift (d.drop (i + 1)) c).2 :=
        Nat.mul_le_mul_left _ (Nat.pos_of_ne_zero hne)
      omega
    rw [hdcy, Nat.mul_zero, Nat.add_zero] at dv
    rw [hqn1] at hnl
    have hdtopb : d.getD (d.length - 1) 0 * 2 ^ c * B ^ (qn - 1) ≤ val (d.drop (i + 1)) * 2 ^ c := by
      calc d.getD (d.length - 1) 0 * 2 ^ c * B ^ (qn - 1) = d.getD (d.length - 1) 0 * B ^ (qn - 1) * 2 ^ c := by ring
        _ ≤ val (d.drop (i + 1)) * 2 ^ c := Nat.mul_le_mul_right _ hub1
    -- numerator: the value that has to fit into 2qn limbs
    obtain ⟨hWn, _⟩ := split_W n i c hin hn hc64
    have hfitv : val (n.drop (i + 1)) * 2 ^ c + n.getD i 0 >>> (64 - c) < B ^ (2 * qn) := by
      have h1 : (val (n.drop (i + 1)) * 2 ^ c + n.getD i 0 >>> (64 - c)) * (2 ^ (64 - c) * B ^ i) ≤ val n := by omega
      have h2 : d.getD (d.length - 1) 0 < 2 ^ (64 - c) := by
        rw [hBs, Nat.mul_comm (2 ^ c)] at hchi; exact Nat.lt_of_mul_lt_mul_right hchi
      have h3 : val n < 2 ^ (64 - c) * B ^ (i + 2 * qn) := by
        rw [hnn1] at hfit
        calc val n < d.getD (d.length - 1) 0 * B ^ (i + 2 * qn) := hfit
          _ ≤ 2 ^ (64 - c) * B ^ (i + 2 * qn) := Nat.mul_le_mul_right _ (Nat.le_of_lt h2)
      have h4 : 2 ^ (64 - c) * B ^ (i + 2 * qn) = B ^ (2 * qn) * (2 ^ (64 - c) * B ^ i) := by rw [pow_add]; ring
      have hWpos : 0 < 2 ^ (64 - c) * B ^ i := Nat.mul_pos (by positivity) (Bpow_pos i)
      rw [h4] at h3
      exact Nat.lt_of_mul_lt_mul_right (Nat.lt_of_le_of_lt h1 h3)
    refine ⟨hc63, dv, dl, by rw [dlen, hud, hqn1], ?_, ?_, ?_, ?_, ?_, hchi⟩
    · -- normalised
      rw [dv]; rw [hnv] at hnl
      exact Nat.le_trans hnl (Nat.mul_le_mul_left _ (Nat.le_add_right _ _))
    · -- value of n2p
      rcases hadj01 with h | h
      · subst h
        rw [if_neg (by decide)]
        have e1 : n.length - 2 * qn = i + 1 := by omega
        rw [e1, Nat.add_sub_cancel]
        have hun : (n.drop (i + 1)).length = 2 * qn := by rw [List.length_drop]; omega
        obtain ⟨nv, _, _, _⟩ := orLow_lshift_val (n.drop (i + 1)) c (n.getD i 0 >>> (64 - c))
          (by intro h; rw [h] at hun; simp at hun; omega) (Limbs_drop hn _) hc64 (shr_lt _ c hc64 hnlimb)
        rw [hun] at nv
        have hncy : (lshift (n.drop (i + 1)) c).2 = 0 := by
          have hP := Bpow_pos (2 * qn)
          by_contra hne
          have : B ^ (2 * qn) * 1 ≤ B ^ (2 * qn) * (lshift (n.drop (i + 1)) c).2 :=
            Nat.mul_le_mul_left _ (Nat.pos_of_ne_zero hne)
          omega
        rw [hncy, Nat.mul_zero, Nat.add_zero] at nv
        exact nv
      · subst h
        rw [if_pos (by decide)]
        have e1 : n.length - 2 * qn = i := by omega
        rw [e1, drop_cons_getD n i hin]
        exact (drop_one_lshift _ _ c hnlimb (Limbs_drop hn _) hc64).1
    · rcases hadj01 with h | h
      · subst h
        rw [if_neg (by decide)]
        have e1 : n.length - 2 * qn = i + 1 := by omega
        rw [e1, Nat.add_sub_cancel]
        have hun : (n.drop (i + 1)).length = 2 * qn := by rw [List.length_drop]; omega
        exact (orLow_lshift_val (n.drop (i + 1)) c (n.getD i 0 >>> (64 - c))
          (by intro h; rw [h] at hun; simp at hun; omega) (Limbs_drop hn _) hc64 (shr_lt _ c hc64 hnlimb)).2.2.1
      · subst h
        rw [if_pos (by decide)]
        have e1 : n.length - 2 * qn = i := by omega
        rw [e1, drop_cons_getD n i hin]
        exact (drop_one_lshift _ _ c hnlimb (Limbs_drop hn _) hc64).2.1
    · rcases hadj01 with h | h
      · subst h
        rw [if_neg (by decide)]
        have e1 : n.length - 2 * qn = i + 1 := by omega
        rw [e1, Nat.add_sub_cancel]
        have hun : (n.drop (i + 1)).length = 2 * qn := by rw [List.length_drop]; omega
        rw [(orLow_lshift_val (n.drop (i + 1)) c (n.getD i 0 >>> (64 - c))
          (by intro h; rw [h] at hun; simp at hun; omega) (Limbs_drop hn _) hc64 (shr_lt _ c hc64 hnlimb)).2.2.2, hun]
      · subst h
        rw [if_pos (by decide)]
        have e1 : n.length - 2 * qn = i := by omega
        rw [e1, drop_cons_getD n i hin, (drop_one_lshift _ _ c hnlimb (Limbs_drop hn _) hc64).2.2, List.length_drop]
        omega
    · rw [dv]; exact Nat.le_trans hdtopb (Nat.le_add_right _ _)
  · rw [if_neg (fun h => hlt ((highbit_zero _ htB).mp h))]
    simp only [pow_zero, Nat.mul_one, Nat.sub_zero]
    rw [shr_64 _ hdlimb, shr_64 _ hnlimb]
    simp only [Nat.add_zero]
    have hnorm : B ^ qn ≤ 2 * val (d.drop (i + 1)) := by
      have := norm_of_top (d.drop (i + 1)) (qn - 1) hudl hud (by rw [hudtop]; omega)
      rwa [hqn1] at this
    refine ⟨by omega, trivial, hudl, by rw [hud, hqn1], hnorm, ?_, ?_, ?_, hub1, htB⟩
    · rcases hadj01 with h | h
      · subst h
        rw [if_neg (by decide)]
        have e1 : n.length - 2 * qn = i + 1 := by omega
        rw [e1]
      · subst h
        rw [if_pos (by decide)]
        have e1 : n.length - 2 * qn = i := by omega
        rw [e1, drop_cons_getD n i hin]
        simp [val_snoc_zero]
    · rcases hadj01 with h | h
      · subst h
        rw [if_neg (by decide)]; exact Limbs_drop hn _
      · subst h
        rw [if_pos (by decide)]; exact Limbs_drop (Limbs_snoc (Limbs_drop hn _) B_pos) _
    · rcases hadj01 with h | h
      · subst h
        rw [if_neg (by decide), List.length_drop]; omega
      · subst h
        rw [if_pos (by decide)]; simp; omega

end Mpir.TdivQr
