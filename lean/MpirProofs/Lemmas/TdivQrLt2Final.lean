/- Helper lemmas for the model of mpn_tdiv_qr, part 6: the partially used limb (tdiv_qr.c:316-339) and the subtraction of
   q × (ignored low limbs of d) (tdiv_qr.c:342-362) in the "numerator less than twice the denominator" branch. -/
import MpirProofs.Lemmas.TdivQrLt2Steps
namespace Mpir.TdivQr
open Mpir Mpir.DivWord Mpir.SbDiv

theorem take_all (l : List Nat) (k : Nat) (h : l.length = k) : l.take k = l := by
  rw [← h]; exact List.take_length

/-- the value of a vector that fits into its k low limbs is the value of those limbs -/
theorem val_take_of_lt (l : List Nat) (k : Nat) (hk : k ≤ l.length) (h : val l < B ^ k) : val (l.take k) = val l := by
  have e := val_take_drop l k hk
  have hP := Bpow_pos k
  rcases Nat.eq_zero_or_pos (val (l.drop k)) with h0 | h0
  · rw [h0, Nat.mul_zero, Nat.add_zero] at e; exact e.symm
  · have : B ^ k * 1 ≤ B ^ k * val (l.drop k) := Nat.mul_le_mul_left _ h0
    omega

/-! ### tdiv_qr.c:316-339 (cnt ≠ 0) -/

/-- The partially used limbs: with s = 64 - cnt, m_n = n[in-1] mod 2^s, m_d = d[in-1] mod 2^s the new partial remainder
    is P = r·2^s + m_n − q·m_d, stored on qn+1 limbs as P + f·B^(qn+1), f = quotient_too_large; the ASSERT_ALWAYS holds. -/
theorem lt2Partial_spec (n d : List Nat) (i c qn : Nat) (qp rem : List Nat) (hqn : 1 ≤ qn) (hc1 : 1 ≤ c) (hc : c ≤ 63)
    (hqp : Limbs qp) (hlq : qn ≤ qp.length) (hrem : Limbs rem)
    (hlr : rem.length = qn ∨ (rem.length = qn + 1 ∧ B ^ qn ≤ val rem ∧ val rem < 2 * B ^ qn)) :
    val (lt2Partial n d (i + 1) c qn qp rem).1 + val (qp.take qn) * (d.getD i 0 % 2 ^ (64 - c)) =
      val rem * 2 ^ (64 - c) + n.getD i 0 % 2 ^ (64 - c) + (lt2Partial n d (i + 1) c qn qp rem).2.1 * B ^ (qn + 1) ∧
    (lt2Partial n d (i + 1) c qn qp rem).2.1 ≤ 1 ∧ Limbs (lt2Partial n d (i + 1) c qn qp rem).1 ∧
    (lt2Partial n d (i + 1) c qn qp rem).1.length = qn + 1 ∧ (lt2Partial n d (i + 1) c qn qp rem).2.2 = true := by
  have hs64 : 64 - c ≤ 64 := by omega
  have hmn : n.getD i 0 % 2 ^ (64 - c) < 2 ^ (64 - c) := Nat.mod_lt _ (by positivity)
  have hmd : d.getD i 0 % 2 ^ (64 - c) < 2 ^ (64 - c) := Nat.mod_lt _ (by positivity)
  have h2B : (2 : Nat) ^ (64 - c) * 2 ≤ B := by
    have : B = 2 ^ (64 - c) * 2 ^ c := by rw [← pow_add]; unfold B; congr 1; omega
    rw [this]; exact Nat.mul_le_mul_left _ (by calc 2 = 2 ^ 1 := rfl
                                               _ ≤ 2 ^ c := Nat.pow_le_pow_right (by decide) hc1)
  have hmdB : d.getD i 0 % 2 ^ (64 - c) < B := by omega
  have hrne : rem ≠ [] := by
    intro h; rw [h] at hlr; simp at hlr; omega
  unfold lt2Partial
  simp only [Nat.add_sub_cancel, mask_eq_mod _ c (by omega : c ≤ 64)]
  obtain ⟨lv, lcy, ll, llen⟩ := orLow_lshift_val rem (64 - c) (n.getD i 0 % 2 ^ (64 - c)) hrne hrem hs64 hmn
  generalize orLow (lshift rem (64 - c)).1 (n.getD i 0 % 2 ^ (64 - c)) = l at *
  generalize (lshift rem (64 - c)).2 = cy1 at *
  have hqt : (qp.take qn).length = qn := by rw [List.length_take]; omega
  have hlt : (l.take qn).length = qn := by
    rw [List.length_take, llen]; rcases hlr with h | h <;> omega
  obtain ⟨sv, scy, sl, slen⟩ := submul1C_val (d.getD i 0 % 2 ^ (64 - c)) hmdB (l.take qn) (qp.take qn) 0
    (Limbs_take ll _) (Limbs_take hqp _) (by rw [hlt, hqt]) B_pos
  rw [Nat.add_zero, hqt] at sv
  rw [hqt] at slen
  have hsm : submul_1 (l.take qn) (qp.take qn) (d.getD i 0 % 2 ^ (64 - c)) =
      submul1C (l.take qn) (qp.take qn) (d.getD i 0 % 2 ^ (64 - c)) 0 := rfl
  rw [hsm]
  generalize submul1C (l.take qn) (qp.take qn) (d.getD i 0 % 2 ^ (64 - c)) 0 = sm at *
  have hq2lt := val_lt _ (Limbs_take hqp qn)
  rw [hqt] at hq2lt
  generalize val (qp.take qn) = q2 at *
  generalize d.getD i 0 % 2 ^ (64 - c) = md at *
  generalize n.getD i 0 % 2 ^ (64 - c) = mn at *
  have hP := Bpow_pos qn
  have hcy1B : cy1 < B := by omega
  rcases hlr with hlr | ⟨hlr, hrlo, hrhi⟩
  · -- rn = qn: the shifted-out bits against the borrow of submul_1
    rw [if_neg (by rw [hlr]; simp)]
    rw [take_all l qn (by rw [llen, hlr])] at sv
    rw [hlr] at lv
    simp only []
    by_cases hlt12 : cy1 < sm.2
    · rw [if_pos hlt12]
      have ht : (cy1 + B - sm.2) % B = cy1 + B - sm.2 := Nat.mod_eq_of_lt (by omega)
      rw [ht]
      refine ⟨?_, by omega, Limbs_snoc sl (by omega), by simp [slen], trivial⟩
      rw [val_top1, slen, pow_succ]
      have e : B ^ qn * (cy1 + B - sm.2) + B ^ qn * sm.2 = B ^ qn * cy1 + B ^ qn * B := by
        rw [← Nat.mul_add, ← Nat.mul_add]; congr 1; omega
      omega
    · rw [if_neg hlt12]
      have ht : (cy1 + B - sm.2) % B = cy1 - sm.2 := by
        have : cy1 + B - sm.2 = (cy1 - sm.2) + B := by omega
        rw [this, Nat.add_mod_right]; exact Nat.mod_eq_of_lt (by omega)
      rw [ht]
      refine ⟨?_, by omega, Limbs_snoc sl (by omega), by simp [slen], trivial⟩
      rw [val_top1, slen]
      have e : B ^ qn * (cy1 - sm.2) + B ^ qn * sm.2 = B ^ qn * cy1 := by
        rw [← Nat.mul_add]; congr 1; omega
      omega
  · -- rn = qn + 1: nothing is shifted out and the top limb absorbs the borrow
    rw [if_pos (by rw [hlr]; omega)]
    simp only []
    rw [hlr] at lv llen
    have etop := val_take_top l qn llen
    have hltop := val_lt _ (Limbs_take ll qn)
    rw [hlt] at hltop
    have hs1 : rem.length = qn + 1 := hlr
    -- cy1 = 0
    have hbound : val rem * 2 ^ (64 - c) + mn < B ^ (qn + 1) := by
      have h1 : (val rem + 1) * 2 ^ (64 - c) ≤ 2 * B ^ qn * 2 ^ (64 - c) := Nat.mul_le_mul_right _ (by omega)
      have h2 : 2 * B ^ qn * 2 ^ (64 - c) = B ^ qn * (2 ^ (64 - c) * 2) := by ring
      have h3 : B ^ qn * (2 ^ (64 - c) * 2) ≤ B ^ qn * B := Nat.mul_le_mul_left _ h2B
      have h4 : (val rem + 1) * 2 ^ (64 - c) = val rem * 2 ^ (64 - c) + 2 ^ (64 - c) := by ring
      rw [pow_succ]; omega
    have hcy10 : cy1 = 0 := by
      by_contra hne
      have : B ^ (qn + 1) * 1 ≤ B ^ (qn + 1) * cy1 := Nat.mul_le_mul_left _ (Nat.pos_of_ne_zero hne)
      omega
    rw [hcy10, Nat.mul_zero, Nat.add_zero] at lv
    -- the top limb is at least 2^s
    have htop : 2 ^ (64 - c) ≤ l.getD qn 0 := by
      have h1 : B ^ qn * 2 ^ (64 - c) ≤ val rem * 2 ^ (64 - c) := Nat.mul_le_mul_right _ hrlo
      by_contra hcon
      have : B ^ qn * (l.getD qn 0 + 1) ≤ B ^ qn * 2 ^ (64 - c) := Nat.mul_le_mul_left _ (by omega)
      have e : B ^ qn * (l.getD qn 0 + 1) = B ^ qn * l.getD qn 0 + B ^ qn := by ring
      omega
    -- the borrow is at most 2^s
    have hcy2 : sm.2 ≤ 2 ^ (64 - c) := by
      have h1 : q2 * md < B ^ qn * 2 ^ (64 - c) := by
        calc q2 * md ≤ q2 * 2 ^ (64 - c) := Nat.mul_le_mul_left _ (Nat.le_of_lt hmd)
          _ < B ^ qn * 2 ^ (64 - c) := Nat.mul_lt_mul_of_pos_right hq2lt (by positivity)
      have h2 := val_lt _ sl
      rw [slen] at h2
      by_contra hcon
      have : B ^ qn * (2 ^ (64 - c) + 1) ≤ B ^ qn * sm.2 := Nat.mul_le_mul_left _ (by omega)
      have e : B ^ qn * (2 ^ (64 - c) + 1) = B ^ qn * 2 ^ (64 - c) + B ^ qn := by ring
      omega
    have htopB : l.getD qn 0 < B := limb_getD ll qn
    have ht : (l.getD qn 0 + B - sm.2) % B = l.getD qn 0 - sm.2 := by
      have : l.getD qn 0 + B - sm.2 = (l.getD qn 0 - sm.2) + B := by omega
      rw [this, Nat.add_mod_right]; exact Nat.mod_eq_of_lt (by omega)
    rw [ht]
    refine ⟨?_, by omega, Limbs_snoc sl (by omega), by simp [slen], decide_eq_true (by omega)⟩
    rw [val_top1, slen, Nat.zero_mul, Nat.add_zero]
    have e : B ^ qn * (l.getD qn 0 - sm.2) + B ^ qn * sm.2 = B ^ qn * l.getD qn 0 := by
      rw [← Nat.mul_add]; congr 1; omega
    omega

/-! ### tdiv_qr.c:342-362 (in ≠ 0) -/

theorem lor_01 (a b : Nat) (ha : a ≤ 1) (hb : b ≤ 1) : a ||| b ≤ 1 ∧ (a ||| b = 0 ↔ a + b = 0) := by
  interval_cases a <;> interval_cases b <;> decide

/-- Subtraction of tp = q × (the `in2` ignored low limbs of d).  m = dn - in2 limbs of rp lie above rp + in2; the partial
    remainder `rem` has m limbs, or (divisor normalised, carry out of the add-back) m+1 limbs with value in
    [tph + 1, tph + B^m) — then mpn_sub_1, called with m+1 limbs, never gets to the limb rp[dn].
    Result: rp + q·dlow = rem·B^in2 + nlow + (cyA + cyB)·B^dn and quotient_too_large |= cyA | cyB. -/
theorem lt2Final_spec (n d : List Nat) (in2 qn m : Nat) (qp rem : List Nat) (f : Nat) (hn : Limbs n) (hd : Limbs d)
    (hqp : Limbs qp) (hrem : Limbs rem) (hlq : qn ≤ qp.length) (hinn : in2 ≤ n.length)
    (hdn : d.length = m + in2) (hqm : qn ≤ m) (hm : 1 ≤ m)
    (hlr : rem.length = m ∨ (rem.length = m + 1 ∧
      val (qp.take qn) * val (d.take in2) / B ^ in2 + 1 ≤ val rem ∧
      val rem < val (qp.take qn) * val (d.take in2) / B ^ in2 + B ^ m)) :
    ∃ cyA cyB, cyA ≤ 1 ∧ cyB ≤ 1 ∧
      val (lt2Final n d in2 qn qp rem f).1 + val (qp.take qn) * val (d.take in2) =
        val rem * B ^ in2 + val (n.take in2) + (cyA + cyB) * B ^ (m + in2) ∧
      (lt2Final n d in2 qn qp rem f).2.1 = (f ||| cyA) ||| cyB ∧
      Limbs (lt2Final n d in2 qn qp rem f).1 ∧ (lt2Final n d in2 qn qp rem f).1.length = m + in2 ∧
      (lt2Final n d in2 qn qp rem f).2.2 = true := by
  have hqt : (qp.take qn).length = qn := by rw [List.length_take]; omega
  have hdt : (d.take in2).length = in2 := by rw [List.length_take]; omega
  have hnt : (n.take in2).length = in2 := by rw [List.length_take]; omega
  have hq2lt := val_lt _ (Limbs_take hqp qn)
  have hdllt := val_lt _ (Limbs_take hd in2)
  rw [hqt] at hq2lt
  rw [hdt] at hdllt
  have hPi := Bpow_pos in2
  have hPm := Bpow_pos m
  -- tp
  have htplt : val (qp.take qn) * val (d.take in2) < B ^ (qn + in2) := by
    rw [pow_add]; exact Nat.mul_lt_mul'' hq2lt hdllt
  obtain ⟨t1, t2, t3⟩ := val_toLimbs (qn + in2) (val (qp.take qn) * val (d.take in2))
  rw [Nat.mod_eq_of_lt htplt] at t1
  unfold lt2Final
  simp only []
  generalize toLimbs (qn + in2) (val (qp.take qn) * val (d.take in2)) = tp at *
  have htd : (tp.drop in2).length = qn := by rw [List.length_drop, t2]; omega
  have htt : (tp.take in2).length = in2 := by rw [List.length_take, t2]; omega
  have hsplit := val_take_drop tp in2 (by omega)
  have htllt := val_lt _ (Limbs_take t3 in2)
  rw [htt] at htllt
  -- tph = tp / B^in2
  have htph : val (qp.take qn) * val (d.take in2) / B ^ in2 = val (tp.drop in2) := by
    rw [← t1, hsplit, Nat.add_mul_div_left _ _ hPi, Nat.div_eq_of_lt htllt, Nat.zero_add]
  rw [htph] at hlr
  rw [← t1, hsplit]
  -- mpn_sub
  have hqrn : (tp.drop in2).length ≤ rem.length := by rw [htd]; rcases hlr with h | h <;> omega
  obtain ⟨sv, sc, sl, slen⟩ := sub_val' rem (tp.drop in2) hrem (Limbs_drop t3 _) hqrn
  generalize Mpir.sub rem (tp.drop in2) = s at *
  -- mpn_sub_n on the low limbs
  obtain ⟨lv, lc, ll, llen⟩ := subNC_val (n.take in2) (tp.take in2) 0 (Limbs_take hn _) (Limbs_take t3 _)
    (by rw [hnt, htt]) (by omega)
  rw [Nat.add_zero, hnt] at lv
  rw [hnt] at llen
  have hlo : sub_n (n.take in2) (tp.take in2) = subNC (n.take in2) (tp.take in2) 0 := rfl
  rw [hlo]
  generalize subNC (n.take in2) (tp.take in2) 0 = lo at *
  have hdm : d.length - in2 = m := by omega
  rw [hdm]
  -- mpn_sub_1 on the limbs above
  have hhl : (s.1.take m).length = m := by rw [List.length_take, slen]; rcases hlr with h | h <;> omega
  obtain ⟨x, xs, hx⟩ : ∃ x xs, s.1.take m = x :: xs := by
    match hh : s.1.take m with
    | [] => rw [hh] at hhl; simp at hhl; omega
    | x :: xs => exact ⟨x, xs, rfl⟩
  have hloB : lo.2 < B := lt_B_of_le_one lc
  have hxl : Limbs (x :: xs) := hx ▸ Limbs_take sl m
  obtain ⟨s1v, s1c, s1l, s1len⟩ := sub_1_val' x xs lo.2 hxl hloB
  rw [← hx] at s1v s1c s1l s1len
  have hxsl : xs.length + 1 = m := by
    have := congrArg List.length hx; simp at this; omega
  rw [hxsl] at s1v s1len
  generalize sub_1 (s.1.take m) lo.2 = s1 at *
  have hvapp : val (lo.1 ++ s1.1) = val lo.1 + B ^ in2 * val s1.1 := by rw [val_append, llen]
  rcases hlr with hlr | ⟨hlr, hrlo, hrhi⟩
  · -- rn = m
    rw [take_all s.1 m (by rw [slen, hlr])] at s1v
    rw [hlr] at sv
    refine ⟨s.2, s1.2, sc, s1c, ?_, ?_, Limbs_append.mpr ⟨ll, s1l⟩, by rw [List.length_append, llen, s1len]; omega, ?_⟩
    · rw [hvapp, pow_add]
      generalize val lo.1 = a1 at *
      generalize val s1.1 = a2 at *
      generalize val s.1 = a3 at *
      generalize val (tp.take in2) = tl at *
      generalize val (tp.drop in2) = th at *
      generalize val (n.take in2) = nl at *
      generalize val rem = r at *
      generalize B ^ in2 = Pi at *
      generalize B ^ m = Pm at *
      zify at *
      linear_combination lv + (Pi : Int) * s1v + (Pi : Int) * sv
    · rw [if_neg (by omega)]
    · simp [hlr]
  · -- rn = m + 1: no borrow leaves the m limbs
    rw [hlr] at sv
    have hslt := val_lt _ sl
    rw [slen, hlr] at hslt
    have hs20 : s.2 = 0 := by
      by_contra hne
      have : B ^ (m + 1) * 1 ≤ B ^ (m + 1) * s.2 := Nat.mul_le_mul_left _ (Nat.pos_of_ne_zero hne)
      omega
    rw [hs20, Nat.mul_zero, Nat.add_zero] at sv
    have hsm : val s.1 < B ^ m := by omega
    rw [val_take_of_lt s.1 m (by rw [slen, hlr]; omega) hsm] at s1v
    have hs1lt := val_lt _ s1l
    rw [s1len] at hs1lt
    have hs120 : s1.2 = 0 := by
      by_contra hne
      have : B ^ m * 1 ≤ B ^ m * s1.2 := Nat.mul_le_mul_left _ (Nat.pos_of_ne_zero hne)
      omega
    rw [hs120, Nat.mul_zero, Nat.add_zero] at s1v
    refine ⟨0, 0, by omega, by omega, ?_, ?_, Limbs_append.mpr ⟨ll, s1l⟩,
      by rw [List.length_append, llen, s1len]; omega, ?_⟩
    · rw [hvapp, Nat.add_zero, Nat.zero_mul, Nat.add_zero]
      generalize val lo.1 = a1 at *
      generalize val s1.1 = a2 at *
      generalize val s.1 = a3 at *
      generalize val (tp.take in2) = tl at *
      generalize val (tp.drop in2) = th at *
      generalize val (n.take in2) = nl at *
      generalize val rem = r at *
      generalize B ^ in2 = Pi at *
      have e1 : Pi * a2 + Pi * lo.2 = Pi * a3 := by rw [← Nat.mul_add, s1v]
      have e2 : Pi * a3 + Pi * th = Pi * r := by rw [← Nat.mul_add, sv]
      rw [Nat.mul_comm r Pi]
      omega
    · rw [if_pos (by omega), hs20]
    · simp [hlr, hs120]

end Mpir.TdivQr
