/- mpn_gcd_1 model = Nat.gcd.  Word-level lemmas for the masks of GCD_1_METHOD 2, the binary loop,
   the modexact contract, and the power-of-two bookkeeping of the wrapper. -/
import MpirProofs.Lemmas.Gcd
import Mathlib.Tactic.IntervalCases
import Mathlib.Data.Nat.ModEq
namespace Mpir.Gcd
open Mpir

theorem xor_mask (t : Nat) (h : t < B) : t ^^^ (B - 1) = B - 1 - t := by
  apply Nat.eq_of_testBit_eq
  intro i
  have hB : B = 2 ^ 64 := rfl
  rw [Nat.testBit_xor, hB, Nat.testBit_two_pow_sub_one]
  have e : 2 ^ 64 - 1 - t = 2 ^ 64 - (t + 1) := by omega
  rw [e, Nat.testBit_two_pow_sub_succ (by rw [← hB]; exact h)]
  by_cases hi : i < 64
  · simp [hi]
  · have : t.testBit i = false := Nat.testBit_lt_two_pow (lt_of_lt_of_le h (by rw [hB]; exact Nat.pow_le_pow_right (by norm_num) (by omega)))
    simp [hi, this]

theorem and_mask (t : Nat) (h : t < B) : (B - 1) &&& t = t := by
  have hB : B = 2 ^ 64 := rfl
  rw [Nat.and_comm, hB, Nat.and_two_pow_sub_one_eq_mod, Nat.mod_eq_of_lt (by rw [← hB]; exact h)]

/-- trailing zeros of the two's complement negation -/
theorem ctz_neg (x : Nat) (h0 : 0 < x) (h : x < B) : ctz (B - x) = ctz x := by
  have hB : B = 2 ^ 64 := rfl
  obtain ⟨h1, hodd⟩ := ctz_spec x h0
  have hk : ctz x < 64 := ctz_lt_of_lt_pow x 64 h0 (by rw [← hB]; exact h)
  generalize ctz x = k at *
  generalize x / 2 ^ k = o at *
  apply ctz_unique (B - x) k (2 ^ (64 - k) - o)
  · have hpos : o < 2 ^ (64 - k) := by
      have : 2 ^ k * o < 2 ^ k * 2 ^ (64 - k) := by
        rw [← Nat.pow_add, ← h1]; have : k + (64 - k) = 64 := by omega
        rw [this, ← hB]; exact h
      exact Nat.lt_of_mul_lt_mul_left this
    have heven : 2 ^ (64 - k) % 2 = 0 := by
      obtain ⟨j, hj⟩ : ∃ j, 64 - k = j + 1 := ⟨63 - k, by omega⟩
      rw [hj, pow_succ]; exact Nat.mul_mod_left _ _
    omega
  · rw [Nat.mul_sub, ← Nat.pow_add, ← h1]
    have : k + (64 - k) = 64 := by omega
    rw [this, hB]

/-- one subtract-and-shift step of the binary algorithm on odd numbers -/
theorem bin_step (x y : Nat) (h : x < y) :
    Nat.gcd (2 * ((y - x) >>> (ctz (y - x) + 1)) + 1) (2 * x + 1) = Nat.gcd (2 * y + 1) (2 * x + 1) := by
  have h0 : 0 < y - x := by omega
  obtain ⟨h1, hodd⟩ := ctz_spec (y - x) h0
  have e : 2 * ((y - x) >>> (ctz (y - x) + 1)) + 1 = (y - x) / 2 ^ ctz (y - x) := by
    rw [Nat.shiftRight_eq_div_pow, pow_succ, ← Nat.div_div_eq_div_mul]; omega
  rw [e]
  generalize ctz (y - x) = k at *
  generalize (y - x) / 2 ^ k = o at *
  have e2 : 2 * y + 1 = 2 ^ (k + 1) * o + (2 * x + 1) := by
    have : 2 ^ (k + 1) * o = 2 * (y - x) := by rw [pow_succ, h1]; ring
    omega
  rw [e2, Nat.gcd_add_self_left]
  have hc : Nat.Coprime (2 ^ (k + 1)) (2 * x + 1) := by
    apply Nat.Coprime.pow_left
    show Nat.gcd 2 (2 * x + 1) = 1
    rw [Nat.gcd_rec, show (2 * x + 1) % 2 = 1 by omega, Nat.gcd_one_left]
  exact (Nat.Coprime.gcd_mul_left_cancel o hc).symm

theorem shift_sum_lt (d : Nat) (k : Nat) (h : 0 < d) : d >>> (k + 1) ≤ d - 1 := by
  rw [Nat.shiftRight_eq_div_pow]
  have : d / 2 ^ (k + 1) ≤ d / 2 := by
    apply Nat.div_le_div_left _ (by norm_num)
    calc 2 = 2 ^ 1 := by norm_num
      _ ≤ 2 ^ (k + 1) := Nat.pow_le_pow_right (by norm_num) (by omega)
  omega

theorem highMask_lo (t : Nat) (h : t < 2 ^ 63) : highMask t = 0 := by
  unfold highMask; rw [if_neg (by omega)]
theorem highMask_hi (t : Nat) (h : 2 ^ 63 ≤ t) : highMask t = B - 1 := by
  unfold highMask; rw [if_pos h]

/-- unfolding of one iteration of the loop in arithmetic terms -/
theorem gcd1Loop_succ (f u v : Nat) (huv : u ≠ v) (hu : u < 2 ^ 63) (hv : v < 2 ^ 63) :
    gcd1Loop (f + 1) u v =
      if v < u then gcd1Loop f ((u - v) >>> (ctz (u - v) + 1)) v
      else gcd1Loop f ((v - u) >>> (ctz (v - u) + 1)) u := by
  conv_lhs => unfold gcd1Loop
  rw [if_neg huv]
  dsimp only
  have hmask : B - 1 < B := by simp only [B_eq]; omega
  split
  · rename_i hlt
    have ht : (u + B - v) % B = u - v := by simp only [B_eq]; omega
    rw [ht, highMask_lo (u - v) (by omega)]
    simp only [Nat.zero_and, Nat.xor_zero, Nat.add_zero, Nat.sub_zero]
    have e1 : v % B = v := by simp only [B_eq]; omega
    have e2 : (u - v + B) % B = u - v := by simp only [B_eq]; omega
    rw [e1, e2]
  · rename_i hlt
    have hlt' : u < v := by omega
    have ht : (u + B - v) % B = B - (v - u) := by simp only [B_eq]; omega
    have h1 : 2 ^ 63 ≤ B - (v - u) := by simp only [B_eq]; omega
    have h2 : B - (v - u) < B := by simp only [B_eq]; omega
    rw [ht, highMask_hi _ h1, and_mask _ h2, xor_mask _ h2]
    have e1 : (v + (B - (v - u))) % B = u := by simp only [B_eq]; omega
    have e2 : (B - 1 - (B - (v - u)) + B - (B - 1)) % B = v - u := by simp only [B_eq]; omega
    rw [e1, e2, ctz_neg (v - u) (by omega) (by simp only [B_eq]; omega)]

theorem gcd1Loop_spec : ∀ (f u v : Nat), u < 2 ^ 63 → v < 2 ^ 63 → u + v ≤ f →
    2 * gcd1Loop f u v + 1 = Nat.gcd (2 * u + 1) (2 * v + 1)
  | 0, u, v, _, _, hf => by
    have : u = 0 := by omega
    have : v = 0 := by omega
    subst_vars; simp [gcd1Loop]
  | f + 1, u, v, hu, hv, hf => by
    by_cases huv : u = v
    · subst huv; simp [gcd1Loop]
    · rw [gcd1Loop_succ f u v huv hu hv]
      split
      · rename_i hlt
        have hs := shift_sum_lt (u - v) (ctz (u - v)) (by omega)
        rw [gcd1Loop_spec f _ v (by omega) hv (by omega)]
        exact bin_step v u hlt
      · rename_i hlt
        have hlt' : u < v := by omega
        have hs := shift_sum_lt (v - u) (ctz (v - u)) (by omega)
        rw [gcd1Loop_spec f _ u (by omega) hu (by omega), bin_step u v hlt', Nat.gcd_comm]

/-! ### modexact_1_odd: the contract of the assembly kernel holds for its value-level model -/

theorem halve_spec (d x : Nat) (hd : d % 2 = 1) (hx : x < d) : halve d x < d ∧ (2 * halve d x) % d = x % d := by
  unfold halve
  split
  · refine ⟨by omega, ?_⟩
    have : 2 * (x / 2) = x := by omega
    rw [this]
  · refine ⟨by omega, ?_⟩
    have : 2 * ((x + d) / 2) = x + d := by omega
    rw [this, Nat.add_mod_right]

theorem halveN_spec (d : Nat) (hd : d % 2 = 1) : ∀ (k x : Nat), x < d →
    halveN k d x < d ∧ (2 ^ k * halveN k d x) % d = x % d
  | 0, x, hx => by simp [halveN, hx]
  | k + 1, x, hx => by
    obtain ⟨h1, h2⟩ := halve_spec d x hd hx
    obtain ⟨i1, i2⟩ := halveN_spec d hd k (halve d x) h1
    simp only [halveN]
    refine ⟨i1, ?_⟩
    have : 2 ^ (k + 1) * halveN k d (halve d x) = 2 * (2 ^ k * halveN k d (halve d x)) := by ring
    rw [this, Nat.mul_mod, i2, ← Nat.mul_mod, h2]

/-- one limb of modexact: c' = ((c - s)·2⁻ᵏ) mod d -/
theorem modexact_step (k d s c : Nat) (hd : d % 2 = 1) :
    halveN k d ((c + d - s % d) % d) < d ∧ (2 ^ k * halveN k d ((c + d - s % d) % d) + s) % d = c % d := by
  have hd0 : 0 < d := by omega
  have hx : (c + d - s % d) % d < d := Nat.mod_lt _ hd0
  obtain ⟨h1, h2⟩ := halveN_spec d hd k _ hx
  refine ⟨h1, ?_⟩
  generalize halveN k d ((c + d - s % d) % d) = c' at *
  have hs : s % d ≤ c + d := by have := Nat.mod_lt s hd0; omega
  rw [Nat.add_mod, h2, Nat.mod_mod, ← Nat.add_mod]
  have : c + d - s % d + s = c + d + (s / d) * d := by
    have := Nat.div_add_mod s d
    have e : s / d * d = d * (s / d) := Nat.mul_comm _ _
    omega
  rw [this, Nat.add_mul_mod_self_right, Nat.add_mod_right]

theorem modexactGo_spec (k d : Nat) (hk : 2 ^ k = B) (hd : d % 2 = 1) (l : List Nat) : ∀ (c : Nat), c < d →
    modexactGo k d c l < d ∧ (modexactGo k d c l * B ^ l.length + val l) % d = c % d := by
  induction l with
  | nil =>
    intro c hc
    simp only [modexactGo, List.length_nil, pow_zero, mul_one, val_nil, add_zero]
    exact ⟨hc, trivial⟩
  | cons s ss ih =>
    intro c hc
    obtain ⟨h1, key⟩ := modexact_step k d s c hd
    rw [hk] at key
    simp only [modexactGo]
    generalize halveN k d ((c + d - s % d) % d) = c' at *
    obtain ⟨i1, i2⟩ := ih c' h1
    refine ⟨i1, ?_⟩
    generalize modexactGo k d c' ss = r at *
    simp only [val_cons, List.length_cons, pow_succ]
    have : r * (B ^ ss.length * B) + (s + B * val ss) = B * (r * B ^ ss.length + val ss) + s := by ring
    rw [this, Nat.add_mod, Nat.mul_mod, i2, ← Nat.mul_mod, ← Nat.add_mod, key]

theorem modexact_spec (up : List Nat) (d : Nat) (hd : d % 2 = 1) :
    modexact_1_odd up d < d ∧ (modexact_1_odd up d * B ^ up.length + val up) % d = 0 := by
  have := modexactGo_spec 64 d rfl hd up 0 (by omega)
  simpa [modexact_1_odd] using this

theorem coprime_two_pow_odd (k d : Nat) (hd : d % 2 = 1) : Nat.Coprime (2 ^ k) d := by
  apply Nat.Coprime.pow_left
  show Nat.gcd 2 d = 1
  rw [Nat.gcd_rec, hd, Nat.gcd_one_left]

/-- the reduction by modexact preserves the gcd with the odd divisor -/
theorem modexact_gcd (up : List Nat) (d : Nat) (hd : d % 2 = 1) :
    Nat.gcd (modexact_1_odd up d) d = Nat.gcd (val up) d := by
  obtain ⟨_, h⟩ := modexact_spec up d hd
  generalize modexact_1_odd up d = r at *
  have hB : B ^ up.length = 2 ^ (64 * up.length) := by
    show (2 ^ 64) ^ up.length = _; rw [← pow_mul]
  have hc : Nat.Coprime (B ^ up.length) d := by rw [hB]; exact coprime_two_pow_odd _ d hd
  have hdvd : d ∣ r * B ^ up.length + val up := Nat.dvd_of_mod_eq_zero h
  -- gcd (r, d) = gcd (r B^n, d) = gcd (val, d)
  have e1 : Nat.gcd (B ^ up.length * r) d = Nat.gcd r d := Nat.Coprime.gcd_mul_left_cancel r hc
  rw [← e1]
  apply Nat.dvd_antisymm
  · apply Nat.dvd_gcd _ (Nat.gcd_dvd_right _ _)
    have h1 : Nat.gcd (B ^ up.length * r) d ∣ r * B ^ up.length + val up :=
      Nat.dvd_trans (Nat.gcd_dvd_right _ _) hdvd
    have h2 : Nat.gcd (B ^ up.length * r) d ∣ r * B ^ up.length := by
      rw [Nat.mul_comm r]; exact Nat.gcd_dvd_left _ _
    exact (Nat.dvd_add_right h2).mp h1
  · apply Nat.dvd_gcd _ (Nat.gcd_dvd_right _ _)
    have h1 : Nat.gcd (val up) d ∣ r * B ^ up.length + val up :=
      Nat.dvd_trans (Nat.gcd_dvd_right _ _) hdvd
    have h2 : Nat.gcd (val up) d ∣ val up := Nat.gcd_dvd_left _ _
    rw [Nat.mul_comm]
    exact (Nat.dvd_add_left h2).mp h1

/-! ### powers of two -/

theorem gcd_two_pow_odd (k x y : Nat) (hy : y % 2 = 1) : Nat.gcd (2 ^ k * x) y = Nat.gcd x y :=
  Nat.Coprime.gcd_mul_left_cancel x (coprime_two_pow_odd k y hy)

theorem gcd_pow_two (i j x y : Nat) (hx : x % 2 = 1) (hy : y % 2 = 1) :
    Nat.gcd (2 ^ i * x) (2 ^ j * y) = 2 ^ min i j * Nat.gcd x y := by
  rcases Nat.le_total i j with h | h
  · obtain ⟨d, rfl⟩ := Nat.exists_eq_add_of_le h
    rw [Nat.min_eq_left h, Nat.pow_add, Nat.mul_assoc, Nat.gcd_mul_left]
    congr 1
    rw [Nat.gcd_comm, gcd_two_pow_odd d y x hx, Nat.gcd_comm]
  · obtain ⟨d, rfl⟩ := Nat.exists_eq_add_of_le h
    rw [Nat.min_eq_right h, Nat.pow_add, Nat.mul_assoc, Nat.gcd_mul_left]
    congr 1
    exact gcd_two_pow_odd d x y hy

theorem shl1_or1 (x : Nat) : (x <<< 1) ||| 1 = 2 * x + 1 := by
  rw [← Nat.shiftLeft_add_eq_or_of_lt (by norm_num : 1 < 2 ^ 1), Nat.shiftLeft_eq]; ring

/-- the tail of mpn_gcd_1 entered at `strip_u_maybe`: gcd of the remainder with the odd divisor, shifted back -/
theorem gcd1Strip_spec (r V zb : Nat) (hr0 : 0 < r) (hr : r < B) (hV : V % 2 = 1) (hVB : V < B) :
    gcd1Strip r V zb = (Nat.gcd r V * 2 ^ zb) % B := by
  have hB : B = 2 ^ 64 := rfl
  unfold gcd1Strip
  dsimp only
  obtain ⟨h1, hodd⟩ := ctz_spec r hr0
  have hu' : r >>> (ctz r + 1) < 2 ^ 63 := by
    rw [Nat.shiftRight_eq_div_pow]
    have : r / 2 ^ (ctz r + 1) ≤ r / 2 := by
      apply Nat.div_le_div_left _ (by norm_num)
      calc 2 = 2 ^ 1 := by norm_num
        _ ≤ 2 ^ (ctz r + 1) := Nat.pow_le_pow_right (by norm_num) (by omega)
    rw [hB] at hr; omega
  have hv' : V >>> 1 < 2 ^ 63 := by
    rw [Nat.shiftRight_eq_div_pow]; rw [hB] at hVB; omega
  have hloop := gcd1Loop_spec _ _ _ hu' hv' (le_refl _)
  rw [shl1_or1, hloop, Nat.shiftLeft_eq]
  have e1 : 2 * (r >>> (ctz r + 1)) + 1 = r / 2 ^ ctz r := by
    rw [Nat.shiftRight_eq_div_pow, pow_succ, ← Nat.div_div_eq_div_mul]; omega
  have e2 : 2 * (V >>> 1) + 1 = V := by rw [Nat.shiftRight_eq_div_pow]; omega
  rw [e1, e2]
  congr 2
  conv_rhs => rw [h1]
  exact (gcd_two_pow_odd _ _ _ hV).symm

end Mpir.Gcd
