/- The inverse twiddled column transforms of the matrix Fourier algorithm (Mpir/Model/FftX.lean:
   ifft_radix2_twiddle, ifft_trunc1_twiddle): they undo fft_radix2_twiddle up to the factor 2n, also on inputs that
   carry a common factor `k` (the rows of the MFA convolution arrive multiplied by n1). -/
import MpirProofs.Lemmas.FftXMfa
set_option linter.unusedSimpArgs false
namespace Mpir.FftX
open Mpir Finset

theorem length_ifft_radix2_twiddle (d w ws r c rs : Nat) (xs : List Int) :
    (ifft_radix2_twiddle d w ws r c rs xs).length = 2 ^ (d + 1) := by
  cases d with
  | zero => simp [ifft_radix2_twiddle]
  | succ d => simp only [ifft_radix2_twiddle, List.length_append, length_fsts, length_snds]; ring

/-- the largest twiddle exponent of the children is that of the parent -/
theorem tw_bound_child (d w ws r c rs : Nat) (hb : (r + rs * (2 ^ (d + 1 + 1) - 1)) * c * ws ≤ 2 * (2 ^ (d + 1) * w)) :
    (r + 2 * rs * (2 ^ (d + 1) - 1)) * c * ws ≤ 2 * (2 ^ d * (2 * w)) ∧
    (r + rs + 2 * rs * (2 ^ (d + 1) - 1)) * c * ws ≤ 2 * (2 ^ d * (2 * w)) := by
  have hp : 2 ^ (d + 1 + 1) = 2 * 2 ^ (d + 1) := by rw [pow_succ]; ring
  have hq : 2 * (2 ^ d * (2 * w)) = 2 * (2 ^ (d + 1) * w) := by rw [pow_succ]; ring
  have hpos := two_pow_pos' (d + 1)
  rw [hq]
  have e2 : r + rs + 2 * rs * (2 ^ (d + 1) - 1) = r + rs * (2 ^ (d + 1 + 1) - 1) := by
    rw [hp]
    obtain ⟨P, hP⟩ : ∃ P, 2 ^ (d + 1) = P + 1 := ⟨2 ^ (d + 1) - 1, by omega⟩
    rw [hP]
    have : 2 * (P + 1) - 1 = 2 * P + 1 := by omega
    rw [this, Nat.add_sub_cancel]; ring
  have e1 : r + 2 * rs * (2 ^ (d + 1) - 1) ≤ r + rs * (2 ^ (d + 1 + 1) - 1) := by rw [← e2]; omega
  constructor
  · exact le_trans (Nat.mul_le_mul_right _ (Nat.mul_le_mul_right _ e1)) hb
  · rw [e2]; exact hb

section ring
variable {S : Type} [CommRing S] (f : ℤ →+* S)

/-- the value of one inverse twiddle butterfly on the images of (k(X+Y)·u^b1, k(X−Y)·u^b2) -/
theorem ibflyTw_val (wn : Nat) (a b : Int) (b1 b2 : Nat) (k X Y : S) (hu : f 2 ^ (2 * wn) = 1)
    (h1 : b1 ≤ 2 * wn) (h2 : b2 ≤ 2 * wn)
    (ha : f a = k * ((X + Y) * f 2 ^ b1)) (hb : f b = k * ((X - Y) * f 2 ^ b2)) :
    f (ibflyTw wn a b b1 b2).1 = 2 * k * X ∧ f (ibflyTw wn a b b1 b2).2 = 2 * k * Y := by
  have e1 := pow_mul_pow_sub_eq_one (f 2) (2 * wn) b1 hu h1
  have e2 := pow_mul_pow_sub_eq_one (f 2) (2 * wn) b2 hu h2
  simp only [ibflyTw, map_add, map_sub, map_mul, map_pow, ha, hb]
  constructor
  · linear_combination (k * (X + Y)) * e1 + (k * (X - Y)) * e2
  · linear_combination (k * (X + Y)) * e1 - (k * (X - Y)) * e2

/-- mpir_ifft_radix2_twiddle applied to k times the values of mpir_fft_radix2_twiddle (same r, c, rs, ws) returns
    k·2n times the coefficients -/
theorem ifft_radix2_twiddle_spec (d w ws r c rs : Nat) (hd : 64 ∣ 2 ^ d * w) (hu : f 2 ^ (2 * (2 ^ d * w)) = 1)
    (hb : (r + rs * (2 ^ (d + 1) - 1)) * c * ws ≤ 2 * (2 ^ d * w)) (k : S) (xs ys : List Int)
    (h : ∀ m < 2 ^ (d + 1), f (el ys m) = k * f (el (fft_radix2_twiddle d w ws r c rs xs) m)) (j : Nat)
    (hj : j < 2 ^ (d + 1)) :
    f (el (ifft_radix2_twiddle d w ws r c rs ys) j) = k * 2 ^ (d + 1) * f (el xs j) := by
  induction d generalizing w r rs xs ys j with
  | zero =>
    simp only [Nat.pow_zero, Nat.one_mul, Nat.zero_add, Nat.pow_one] at hd hu hj h hb ⊢
    have ew : wnOf 1 w = w := by rw [wnOf_eq 1 w (by simpa using hd)]; simp
    have hb' : (r + rs) * c * ws ≤ 2 * w := by simpa using hb
    have h0 := h 0 (by norm_num); have h1 := h 1 (by norm_num)
    simp only [fft_radix2_twiddle, bflyTw] at h0 h1
    rw [el_cons_zero] at h0
    rw [show ∀ a b : Int, el [a, b] 1 = b from fun _ _ => rfl] at h1
    have e2 : (r * c + rs * c) * ws = (r + rs) * c * ws := by ring
    have le1 : r * c * ws ≤ (r + rs) * c * ws :=
      Nat.mul_le_mul_right _ (Nat.mul_le_mul_right _ (Nat.le_add_right _ _))
    have hbv := ibflyTw_val f w (el ys 0) (el ys 1) (r * c * ws) ((r * c + rs * c) * ws) k (f (el xs 0)) (f (el xs 1)) hu
      (by omega) (by rw [e2]; exact hb')
      (by rw [h0]; simp) (by rw [h1]; simp)
    simp only [ifft_radix2_twiddle, ew]
    interval_cases j
    · rw [el_cons_zero, hbv.1]; ring
    · rw [show ∀ a b : Int, el [a, b] 1 = b from fun _ _ => rfl, hbv.2]; ring
  | succ d ih =>
    have hd' : 64 ∣ 2 ^ d * (2 * w) := by
      have : 2 ^ d * (2 * w) = 2 ^ (d + 1) * w := by rw [pow_succ]; ring
      rw [this]; exact hd
    have hu' : f 2 ^ (2 * (2 ^ d * (2 * w))) = 1 := by
      rw [← hu]; congr 1; rw [pow_succ]; ring
    have ewn : wnOf (2 ^ (d + 1)) w = 2 ^ (d + 1) * w := wnOf_eq _ _ hd
    have hp : 2 ^ (d + 1 + 1) = 2 * 2 ^ (d + 1) := by rw [pow_succ]; ring
    obtain ⟨hb1, hb2⟩ := tw_bound_child d w ws r c rs hb
    rw [fft_radix2_twiddle_succ] at h
    have I1 := fun i (hi : i < 2 ^ (d + 1)) => ih (2 * w) r (2 * rs) hd' hu' hb1 _ (ys.take (2 ^ (d + 1)))
      (fun m hm => by
        rw [el_take _ _ _ hm, h m (by omega), el_append_left _ _ _ (by rw [length_fft_radix2_twiddle]; exact hm)]) i hi
    have I2 := fun i (hi : i < 2 ^ (d + 1)) => ih (2 * w) (r + rs) (2 * rs) hd' hu' hb2 _ (ys.drop (2 ^ (d + 1)))
      (fun m hm => by
        rw [el_drop, h _ (by omega), el_append_right' _ _ _ _ (length_fft_radix2_twiddle _ _ _ _ _ _ _)]) i hi
    simp only [ifft_radix2_twiddle]
    have key : ∀ i < 2 ^ (d + 1), ∀ a b : Int,
        f a = k * 2 ^ (d + 1) * f (el (fsts (2 ^ (d + 1)) fun i => bfly (el xs i) (el xs (2 ^ (d + 1) + i)) i w) i) →
        f b = k * 2 ^ (d + 1) * f (el (snds (2 ^ (d + 1)) fun i => bfly (el xs i) (el xs (2 ^ (d + 1) + i)) i w) i) →
        f (ibfly (wnOf (2 ^ (d + 1)) w) a b i w).1 = 2 * (k * 2 ^ (d + 1)) * f (el xs i) ∧
        f (ibfly (wnOf (2 ^ (d + 1)) w) a b i w).2 = 2 * (k * 2 ^ (d + 1)) * f (el xs (2 ^ (d + 1) + i)) := by
      intro i hi a b ha hb
      rw [ewn]
      apply ibfly_val f _ _ _ i w _ _ _ hu
      · have : i * w ≤ 2 ^ (d + 1) * w := Nat.mul_le_mul_right w (le_of_lt hi)
        omega
      · rw [ha, el_fsts _ _ _ hi]; simp [bfly]
      · rw [hb, el_snds _ _ _ hi]; simp [bfly]
    by_cases hjn : j < 2 ^ (d + 1)
    · rw [el_append_left _ _ _ (by rw [length_fsts]; exact hjn), el_fsts _ _ _ hjn,
        el_append_left _ _ _ (by rw [length_ifft_radix2_twiddle]; exact hjn),
        el_append_right' _ _ _ _ (length_ifft_radix2_twiddle _ _ _ _ _ _ _),
        (key j hjn _ _ (I1 j hjn) (I2 j hjn)).1]
      ring
    · have hj' : j - 2 ^ (d + 1) < 2 ^ (d + 1) := by omega
      have ej : j = 2 ^ (d + 1) + (j - 2 ^ (d + 1)) := by omega
      rw [ej, el_append_right' _ _ _ _ (length_fsts _ _), el_snds _ _ _ hj',
        el_append_left _ _ _ (by rw [length_ifft_radix2_twiddle]; exact hj'),
        el_append_right' _ _ _ _ (length_ifft_radix2_twiddle _ _ _ _ _ _ _),
        (key _ hj' _ _ (I1 _ hj') (I2 _ hj')).2]
      ring

theorem el_fft_radix2_twiddle_low (d w ws r c rs : Nat) (xs : List Int) (m : Nat) (hm : m < 2 ^ (d + 1)) :
    el (fft_radix2_twiddle (d + 1) w ws r c rs xs) m =
      el (fft_radix2_twiddle d (2 * w) ws r c (2 * rs)
        (fsts (2 ^ (d + 1)) fun i => bfly (el xs i) (el xs (2 ^ (d + 1) + i)) i w)) m := by
  rw [fft_radix2_twiddle_succ, el_append_left _ _ _ (by rw [length_fft_radix2_twiddle]; exact hm)]

theorem el_fft_radix2_twiddle_high (d w ws r c rs : Nat) (xs : List Int) (m : Nat) :
    el (fft_radix2_twiddle (d + 1) w ws r c rs xs) (2 ^ (d + 1) + m) =
      el (fft_radix2_twiddle d (2 * w) ws (r + rs) c (2 * rs)
        (snds (2 ^ (d + 1)) fun i => bfly (el xs i) (el xs (2 ^ (d + 1) + i)) i w)) m := by
  rw [fft_radix2_twiddle_succ, el_append_right' _ _ _ _ (length_fft_radix2_twiddle _ _ _ _ _ _ _)]

/-- mpir_ifft_trunc1_twiddle: from k times the first `trunc` values of mpir_fft_radix2_twiddle and, in the other
    places, k·2n times the coefficients themselves, k·2n times the first `trunc` coefficients -/
theorem ifft_trunc1_twiddle_spec (d w ws r c rs trunc : Nat) (ht : TruncOk d trunc) (hd : 64 ∣ 2 ^ d * w) (hw : 1 ≤ w)
    (hu : f 2 ^ (2 * (2 ^ d * w)) = 1) (hb : (r + rs * (2 ^ (d + 1) - 1)) * c * ws ≤ 2 * (2 ^ d * w)) (k : S)
    (xs ys : List Int)
    (h1 : ∀ m < trunc, f (el ys m) = k * f (el (fft_radix2_twiddle d w ws r c rs xs) m))
    (h2 : ∀ j, trunc ≤ j → j < 2 ^ (d + 1) → f (el ys j) = k * 2 ^ (d + 1) * f (el xs j))
    (j : Nat) (hj : j < trunc) :
    f (el (ifft_trunc1_twiddle d w ws r c rs trunc ys) j) = k * 2 ^ (d + 1) * f (el xs j) := by
  induction d generalizing w r rs trunc xs ys j with
  | zero =>
    have := truncOk_zero ht; subst this
    simp only [ifft_trunc1_twiddle, if_true]
    exact ifft_radix2_twiddle_spec f 0 w ws r c rs hd hu hb k xs ys (fun m hm => h1 m (by simpa using hm)) j
      (by simpa using hj)
  | succ d ih =>
    have hd' : 64 ∣ 2 ^ d * (2 * w) := by
      have : 2 ^ d * (2 * w) = 2 ^ (d + 1) * w := by rw [pow_succ]; ring
      rw [this]; exact hd
    have hu' : f 2 ^ (2 * (2 ^ d * (2 * w))) = 1 := by
      rw [← hu]; congr 1; rw [pow_succ]; ring
    have hw' : 1 ≤ 2 * w := by omega
    have ewn : wnOf (2 ^ (d + 1)) w = 2 ^ (d + 1) * w := wnOf_eq _ _ hd
    have hp : 2 ^ (d + 1 + 1) = 2 * 2 ^ (d + 1) := by rw [pow_succ]; ring
    have hpS : (2 : S) ^ (d + 1 + 1) = 2 * 2 ^ (d + 1) := by rw [pow_succ]; ring
    have hpos : 1 ≤ 2 ^ (d + 1) * w := Nat.mul_pos (two_pow_pos' _) hw
    have e2 := two_mul_half f (2 * (2 ^ (d + 1) * w)) (by omega) hu
    obtain ⟨hb1, hb2⟩ := tw_bound_child d w ws r c rs hb
    obtain ⟨ht1, ht2, ht3⟩ := ht
    simp only [ifft_trunc1_twiddle]
    split_ifs with c1 c2
    · exact ifft_radix2_twiddle_spec f (d + 1) w ws r c rs hd hu hb k xs ys (fun m hm => h1 m (by omega)) j (by omega)
    · -- trunc ≤ n
      have hjn : j < 2 ^ (d + 1) := by omega
      rw [el_append_left _ _ _ (by simp; exact hjn), el_range_map _ _ _ hjn, if_pos hj]
      have I := ih (2 * w) r (2 * rs) trunc (truncOk_low ⟨ht1, ht2, ht3⟩ c2) hd' hw' hu' hb1
        (fsts (2 ^ (d + 1)) fun i => bfly (el xs i) (el xs (2 ^ (d + 1) + i)) i w)
        ((List.range (2 ^ (d + 1))).map fun i =>
          if trunc ≤ i then half (wnOf (2 ^ (d + 1)) w) (el ys i + el ys (i + 2 ^ (d + 1))) else el ys i)
        (fun m hm => by
          rw [el_range_map _ _ _ (by omega), if_neg (by omega), h1 m hm, el_fft_radix2_twiddle_low _ _ _ _ _ _ _ _ (by omega)])
        (fun i hi1 hi2 => by
          rw [el_range_map _ _ _ hi2, if_pos hi1, el_fsts _ _ _ hi2, ewn]
          simp only [half, bfly, map_mul, map_add, map_pow]
          rw [h2 i (by omega) (by omega), h2 (i + 2 ^ (d + 1)) (by omega) (by omega), Nat.add_comm i, hpS]
          linear_combination (k * 2 ^ (d + 1) * (f (el xs i) + f (el xs (2 ^ (d + 1) + i)))) * e2)
        j hj
      simp only [map_sub, map_mul]
      rw [I, el_fsts _ _ _ hjn, h2 (2 ^ (d + 1) + j) (by omega) (by omega), hpS]
      simp [bfly]; ring
    · -- n < trunc < 2n
      have F1 : ∀ i < 2 ^ (d + 1), f (el (ifft_radix2_twiddle d (2 * w) ws r c (2 * rs) (ys.take (2 ^ (d + 1)))) i) =
          k * 2 ^ (d + 1) * (f (el xs i) + f (el xs (2 ^ (d + 1) + i))) := by
        intro i hi
        rw [ifft_radix2_twiddle_spec f d (2 * w) ws r c (2 * rs) hd' hu' hb1 k
          (fsts (2 ^ (d + 1)) fun i => bfly (el xs i) (el xs (2 ^ (d + 1) + i)) i w) (ys.take (2 ^ (d + 1)))
          (fun m hm => by rw [el_take _ _ _ hm, h1 m (by omega), el_fft_radix2_twiddle_low _ _ _ _ _ _ _ _ hm]) i hi,
          el_fsts _ _ _ hi]
        simp [bfly]
      have G : ∀ i < 2 ^ (d + 1), trunc - 2 ^ (d + 1) ≤ i →
          f (el (ifft_radix2_twiddle d (2 * w) ws r c (2 * rs) (ys.take (2 ^ (d + 1)))) i - el ys (i + 2 ^ (d + 1))) =
            k * 2 ^ (d + 1) * (f (el xs i) - f (el xs (2 ^ (d + 1) + i))) := by
        intro i hi hti
        rw [map_sub, F1 i hi, h2 (i + 2 ^ (d + 1)) (by omega) (by omega), Nat.add_comm i, hpS]; ring
      have I := ih (2 * w) (r + rs) (2 * rs) (trunc - 2 ^ (d + 1)) (truncOk_high ⟨ht1, ht2, ht3⟩ c2) hd' hw' hu' hb2
        (snds (2 ^ (d + 1)) fun i => bfly (el xs i) (el xs (2 ^ (d + 1) + i)) i w)
        (snds (2 ^ (d + 1)) fun i =>
          if trunc - 2 ^ (d + 1) ≤ i then
            (el (ifft_radix2_twiddle d (2 * w) ws r c (2 * rs) (ys.take (2 ^ (d + 1)))) i +
                (el (ifft_radix2_twiddle d (2 * w) ws r c (2 * rs) (ys.take (2 ^ (d + 1)))) i - el ys (i + 2 ^ (d + 1))),
              adj (el (ifft_radix2_twiddle d (2 * w) ws r c (2 * rs) (ys.take (2 ^ (d + 1)))) i - el ys (i + 2 ^ (d + 1))) i w)
          else (el (ifft_radix2_twiddle d (2 * w) ws r c (2 * rs) (ys.take (2 ^ (d + 1)))) i, el ys (i + 2 ^ (d + 1))))
        (fun m hm => by
          rw [el_snds _ _ _ (by omega), if_neg (by omega), h1 (m + 2 ^ (d + 1)) (by omega), Nat.add_comm m,
            el_fft_radix2_twiddle_high])
        (fun i hi1 hi2 => by
          rw [el_snds _ _ _ hi2, if_pos hi1, el_snds _ _ _ hi2]
          simp only [adj, bfly, map_mul, map_pow]
          rw [G i hi2 hi1]; simp only [map_sub]; ring)
      have key : ∀ i < trunc - 2 ^ (d + 1), ∀ a b : Int,
          f a = k * 2 ^ (d + 1) * (f (el xs i) + f (el xs (2 ^ (d + 1) + i))) →
          f b = k * 2 ^ (d + 1) * f (el (snds (2 ^ (d + 1)) fun i => bfly (el xs i) (el xs (2 ^ (d + 1) + i)) i w) i) →
          f (ibfly (wnOf (2 ^ (d + 1)) w) a b i w).1 = 2 * (k * 2 ^ (d + 1)) * f (el xs i) ∧
          f (ibfly (wnOf (2 ^ (d + 1)) w) a b i w).2 = 2 * (k * 2 ^ (d + 1)) * f (el xs (2 ^ (d + 1) + i)) := by
        intro i hi a b ha hb
        rw [ewn]
        apply ibfly_val f _ _ _ i w _ _ _ hu
        · have : i * w ≤ 2 ^ (d + 1) * w := Nat.mul_le_mul_right w (by omega)
          omega
        · exact ha
        · rw [hb, el_snds _ _ _ (by omega)]; simp [bfly]
      by_cases hjn : j < 2 ^ (d + 1)
      · rw [el_append_left _ _ _ (by rw [length_fsts]; exact hjn), el_fsts _ _ _ hjn]
        by_cases hjt : j < trunc - 2 ^ (d + 1)
        · rw [if_pos hjt]
          rw [(key j hjt _ _ (by rw [el_fsts _ _ _ hjn, if_neg (by omega)]; exact F1 j hjn) (I j hjt)).1, hpS]; ring
        · rw [if_neg hjt, el_fsts _ _ _ hjn, if_pos (by omega), map_add, F1 j hjn, G j hjn (by omega), hpS]; ring
      · have ej : j = 2 ^ (d + 1) + (j - 2 ^ (d + 1)) := by omega
        have hj' : j - 2 ^ (d + 1) < trunc - 2 ^ (d + 1) := by omega
        have hj'' : j - 2 ^ (d + 1) < 2 ^ (d + 1) := by omega
        rw [ej, el_append_right' _ _ _ _ (length_fsts _ _), el_snds _ _ _ hj'', if_pos hj']
        rw [(key _ hj' _ _ (by rw [el_fsts _ _ _ hj'', if_neg (by omega)]; exact F1 _ hj'') (I _ hj')).2, hpS]; ring

end ring

end Mpir.FftX
