/- mpf_get_str: the integer form of "within one unit of the n-th digit" (MpfStr.withinUnit) against its
   statement over ℚ; the rounding step. -/
import MpirProofs.Lemmas.MpfStrConv
import MpirProofs.Lemmas.Radix
namespace Mpir.MpfStr
open Mpir Mpir.Mpf Mpir.Radix

theorem natAbs_cast_q (a : ℤ) : ((a.natAbs : ℕ) : ℚ) = |(a : ℚ)| := by
  rw [Nat.cast_natAbs, Int.cast_abs]

/-- `withinUnit` decides `|0.d₁…d_L · b^x − num/den| ≤ b^(x−n)` (L ≤ n digits; 0.d₁…d_L · b^x = D · b^(x−L)) -/
theorem withinUnit_iff_q (b : ℕ) (hb : 1 ≤ b) (ds : List ℕ) (x : ℤ) (n num den : ℕ) (hden : 0 < den)
    (hL : ds.length ≤ n) :
    withinUnit b ds x n num den = true ↔
      |(ofDigits b ds : ℚ) * (b : ℚ) ^ (x - (ds.length : ℤ)) - (num : ℚ) / (den : ℚ)| ≤ (b : ℚ) ^ (x - (n : ℤ)) := by
  have hbq : (0 : ℚ) < (b : ℚ) := by exact_mod_cast hb
  have hbne : (b : ℚ) ≠ 0 := hbq.ne'
  have hdq : (0 : ℚ) < (den : ℚ) := by exact_mod_cast hden
  set D := ofDigits b ds with hD
  set L := ds.length with hLdef
  have hxn : x - (n : ℤ) = (x - (L : ℤ)) - ((n - L : ℕ) : ℤ) := by omega
  have hj : (0 : ℚ) < (b : ℚ) ^ (n - L) := pow_pos hbq _
  unfold withinUnit
  simp only [← hD, ← hLdef]
  by_cases hy : x - (L : ℤ) ≥ 0
  · rw [if_pos hy, decide_eq_true_iff]
    obtain ⟨y, hyy⟩ := Int.eq_ofNat_of_zero_le hy
    rw [hxn, hyy, Int.toNat_natCast, zpow_sub₀ hbne, zpow_natCast, zpow_natCast]
    have hs : (0 : ℚ) < (b : ℚ) ^ y * (den : ℚ) := mul_pos (pow_pos hbq _) hdq
    rw [← Nat.cast_le (α := ℚ)]
    push_cast
    rw [natAbs_cast_q]
    push_cast
    rw [le_div_iff₀ hj]
    have e1 : (D : ℚ) * (b : ℚ) ^ y - (num : ℚ) / (den : ℚ) =
        ((D : ℚ) * ((b : ℚ) ^ y * (den : ℚ)) - (num : ℚ)) / (den : ℚ) := by field_simp
    rw [e1, abs_div, abs_of_pos hdq, div_mul_eq_mul_div, div_le_iff₀ hdq]
  · rw [if_neg hy, decide_eq_true_iff]
    have hy' : x - (L : ℤ) < 0 := by omega
    obtain ⟨y, hyy⟩ := Int.eq_ofNat_of_zero_le (show 0 ≤ -(x - (L : ℤ)) by omega)
    have hxl : x - (L : ℤ) = -(y : ℤ) := by omega
    rw [hxn, hxl, neg_neg, Int.toNat_natCast, zpow_sub₀ hbne, zpow_neg, zpow_natCast, zpow_natCast]
    have hby : (0 : ℚ) < (b : ℚ) ^ y := pow_pos hbq _
    rw [← Nat.cast_le (α := ℚ)]
    push_cast
    rw [natAbs_cast_q]
    push_cast
    rw [le_div_iff₀ hj]
    have e1 : (D : ℚ) * ((b : ℚ) ^ y)⁻¹ - (num : ℚ) / (den : ℚ) =
        ((D : ℚ) * (den : ℚ) - (num : ℚ) * (b : ℚ) ^ y) / ((b : ℚ) ^ y * (den : ℚ)) := by field_simp
    rw [e1, abs_div, abs_of_pos (mul_pos hby hdq), div_mul_eq_mul_div, div_le_iff₀ (mul_pos hby hdq)]
    constructor
    · intro h
      calc |(D : ℚ) * (den : ℚ) - (num : ℚ) * (b : ℚ) ^ y| * (b : ℚ) ^ (n - L) ≤ (den : ℚ) := h
        _ = ((b : ℚ) ^ y)⁻¹ * ((b : ℚ) ^ y * (den : ℚ)) := by field_simp
    · intro h
      calc |(D : ℚ) * (den : ℚ) - (num : ℚ) * (b : ℚ) ^ y| * (b : ℚ) ^ (n - L)
          ≤ ((b : ℚ) ^ y)⁻¹ * ((b : ℚ) ^ y * (den : ℚ)) := h
        _ = (den : ℚ) := by field_simp

/-! ### the rounding step -/

/-- value of digits `ds` with exponent `x`: 0.d₁d₂… · b^x -/
def digVal (b : ℕ) (ds : List ℕ) (x : ℤ) : ℚ := (ofDigits b ds : ℚ) * (b : ℚ) ^ (x - (ds.length : ℤ))

theorem ofDigits_replicate_max (b : ℕ) (hb : 1 ≤ b) : ∀ k : ℕ, ofDigits b (List.replicate k (b - 1)) + 1 = b ^ k
  | 0 => by simp [ofDigits]
  | k + 1 => by
    have ih := ofDigits_replicate_max b hb k
    rw [List.replicate_succ, ofDigits_cons, List.length_replicate, pow_succ]
    have : (b - 1) * b ^ k + b ^ k = b ^ k * b := by
      have h : b - 1 + 1 = b := by omega
      calc (b - 1) * b ^ k + b ^ k = (b - 1 + 1) * b ^ k := by ring
        _ = b ^ k * b := by rw [h]; ring
    omega

theorem mem_takeWhile_true (p : ℕ → Bool) : ∀ (l : List ℕ) (d : ℕ), d ∈ l.takeWhile p → p d = true
  | [], _, h => by simp at h
  | c :: cs, d, h => by
    by_cases hc : p c = true
    · rw [List.takeWhile_cons_of_pos hc] at h
      rcases List.mem_cons.mp h with e | e
      · rw [e]; exact hc
      · exact mem_takeWhile_true p cs d e
    · rw [List.takeWhile_cons_of_neg hc] at h; simp at h

theorem dropWhile_head_false (p : ℕ → Bool) : ∀ (l : List ℕ) (d : ℕ) (rest : List ℕ),
    l.dropWhile p = d :: rest → p d = false
  | [], _, _, h => by simp at h
  | c :: cs, d, rest, h => by
    by_cases hc : p c = true
    · rw [List.dropWhile_cons_of_pos hc] at h; exact dropWhile_head_false p cs d rest h
    · rw [List.dropWhile_cons_of_neg hc] at h
      simp only [List.cons.injEq] at h
      rw [← h.1]; simpa using hc

theorem dropWhile_split (p : ℕ → Bool) (l : List ℕ) :
    ∃ k, l = l.takeWhile p ++ l.dropWhile p ∧ (l.takeWhile p).length = k ∧ ∀ d ∈ l.takeWhile p, p d = true :=
  ⟨_, (List.takeWhile_append_dropWhile).symm, rfl, fun d hd => mem_takeWhile_true p l d hd⟩

/-- adding one unit in the last place, get_str.c:259-280: the digits returned (carried positions cut off; `1` with
    the exponent raised when every digit was b-1) denote exactly the old value plus one unit of its last digit;
    they are digits of the base, and the last one is not zero -/
theorem roundUp_spec (b : ℕ) (hb : 2 ≤ b) (ds : List ℕ) (x : ℤ) (hds : ∀ d ∈ ds, d < b) :
    digVal b (roundUp b ds x).1 (roundUp b ds x).2 = ((ofDigits b ds : ℚ) + 1) * (b : ℚ) ^ (x - (ds.length : ℤ)) ∧
    (∀ d ∈ (roundUp b ds x).1, d < b) ∧ (roundUp b ds x).1.getLast? ≠ some 0 ∧
    1 ≤ (roundUp b ds x).1.length ∧ ((roundUp b ds x).1.length ≤ ds.length ∨ ds = []) := by
  have hbq : (b : ℚ) ≠ 0 := by
    have : (0 : ℚ) < (b : ℚ) := by exact_mod_cast (show 0 < b by omega)
    exact this.ne'
  set p : ℕ → Bool := fun d => d + 1 == b with hp
  obtain ⟨k, hsplit, hk, hall⟩ := dropWhile_split p ds.reverse
  have hnines : ds.reverse.takeWhile p = List.replicate k (b - 1) := by
    apply List.eq_replicate_iff.mpr
    refine ⟨hk, fun d hd => ?_⟩
    have := hall d hd
    simp only [hp, beq_iff_eq] at this
    omega
  have hds' : ds = (ds.reverse.dropWhile p).reverse ++ List.replicate k (b - 1) := by
    have := congrArg List.reverse hsplit
    rw [List.reverse_reverse, List.reverse_append, hnines, List.reverse_replicate] at this
    exact this
  have hlen : ds.length = (ds.reverse.dropWhile p).length + k := by
    conv_lhs => rw [hds']
    simp
  have hval : ofDigits b ds + 1 = (ofDigits b (ds.reverse.dropWhile p).reverse + 1) * b ^ k := by
    conv_lhs => rw [hds']
    rw [ofDigits_app, List.length_replicate]
    have := ofDigits_replicate_max b (by omega) k
    nlinarith
  unfold roundUp
  rw [← hp]
  cases hr : ds.reverse.dropWhile p with
  | nil =>
    rw [hr] at hval hlen
    simp only [List.reverse_nil, List.length_nil, Nat.zero_add] at hval hlen
    refine ⟨?_, by simp; omega, by simp, by simp, ?_⟩
    · unfold digVal
      have hv : ((ofDigits b ds : ℕ) : ℚ) + 1 = (b : ℚ) ^ k := by
        have : ofDigits b ds + 1 = b ^ k := by rw [hval]; simp [ofDigits]
        exact_mod_cast this
      rw [hv, hlen]
      simp only [ofDigits, List.foldl_cons, List.foldl_nil, List.length_cons, List.length_nil]
      have : (x + 1 - ((0 + 1 : ℕ) : ℤ)) = (k : ℤ) + (x - (k : ℤ)) := by push_cast; ring
      rw [this, zpow_add₀ hbq, zpow_natCast]; push_cast; ring
    · by_cases hk0 : k = 0
      · right; rw [hk0] at hlen; exact List.eq_nil_of_length_eq_zero hlen
      · left; simp; omega
  | cons d rest =>
    rw [hr] at hval hlen hds'
    have hdmem : d ∈ ds := by
      rw [hds']; simp
    have hdlt : d < b := hds d hdmem
    have hd1 : d + 1 ≠ b := by
      have h1 := dropWhile_head_false p ds.reverse d rest hr
      simp only [hp, beq_eq_false_iff_ne, ne_eq] at h1
      exact h1
    have hrestmem : ∀ e ∈ rest, e < b := by
      intro e he; apply hds; rw [hds']; simp [he]
    -- A = the incremented digits as a number
    have hA : ofDigits b ds + 1 = ofDigits b (rest.reverse ++ [d + 1]) * b ^ k := by
      rw [hval, List.reverse_cons, ofDigits_append, ofDigits_append]; ring
    simp only [List.reverse_cons, List.length_cons] at hlen ⊢
    refine ⟨?_, ?_, ?_, by simp, ?_⟩
    · unfold digVal
      have hv : ((ofDigits b ds : ℕ) : ℚ) + 1 = ((ofDigits b (rest.reverse ++ [d + 1]) : ℕ) : ℚ) * (b : ℚ) ^ k := by
        exact_mod_cast hA
      rw [hv, hlen]
      have hl2 : ((rest.reverse ++ [d + 1]).length : ℤ) = (rest.length : ℤ) + 1 := by simp
      have : x - ((rest.length + 1 + k : ℕ) : ℤ) = (x - ((rest.length : ℤ) + 1)) - (k : ℤ) := by
        push_cast; ring
      rw [this, hl2]
      have hbk : (b : ℚ) ^ k ≠ 0 := pow_ne_zero _ hbq
      have hz : (b : ℚ) ^ (x - ((rest.length : ℤ) + 1) - (k : ℤ)) =
          (b : ℚ) ^ (x - ((rest.length : ℤ) + 1)) / (b : ℚ) ^ k := by rw [zpow_sub₀ hbq, zpow_natCast]
      rw [hz]
      field_simp
    · intro e he
      rcases List.mem_append.mp he with h1 | h1
      · exact hrestmem e (List.mem_reverse.mp h1)
      · simp at h1; omega
    · simp
    · left; simp; omega

/-! ### integers are converted exactly -/

/-- while base^e has at most P limbs nothing is truncated -/
theorem powLoop_small (base P : ℕ) (hb : 1 ≤ base) : ∀ k : ℕ, 1 ≤ k → base ^ k < B ^ P →
    powLoop base P k = (base ^ k, 0) := by
  intro k
  induction k using Nat.strong_induction_on with
  | _ k ih =>
    intro hk1 hlt
    by_cases h1 : k = 1
    · subst h1; rw [powLoop_one]; simp
    · have hk2 : 2 ≤ k := by omega
      have hle : base ^ (2 * (k / 2)) ≤ base ^ k := Nat.pow_le_pow_right hb (by omega)
      have hle2 : base ^ (k / 2) ≤ base ^ k := Nat.pow_le_pow_right hb (by omega)
      rw [powLoop_step base P k hk2, ih (k / 2) (by omega) (by omega) (by omega)]
      unfold powStep
      simp only
      have hsq : base ^ (k / 2) * base ^ (k / 2) = base ^ (2 * (k / 2)) := by rw [two_mul, pow_add]
      have hkt : keepTop P (base ^ (k / 2) * base ^ (k / 2)) = (base ^ (2 * (k / 2)), 0) := by
        rw [hsq]; unfold keepTop
        have : ¬ limbLen (base ^ (2 * (k / 2))) > P := by
          have := limbLen_le_of_lt (lt_of_le_of_lt hle hlt); omega
        simp [this]
      rw [hkt]
      by_cases hbit : k % 2 = 1
      · have : (k % 2 == 1) = true := by simp [hbit]
        simp only [this, if_true]
        congr 1
        rw [← pow_succ]; congr 1; omega
      · have : (k % 2 == 1) = false := by simp [hbit]
        simp only [this, Bool.false_eq_true, if_false]
        congr 2; omega

theorem powHigh0_small (base P e : ℕ) (hb : 1 ≤ base) (hlt : base ^ e < B ^ P) :
    powHigh0 base e P = (base ^ e, 0) := by
  unfold powHigh0
  by_cases he : e = 0
  · simp [he]
  · rw [if_neg he]
    unfold powHigh
    rw [powLoop_small base P hb e (by omega) hlt]
    unfold keepTop
    have : ¬ limbLen (base ^ e) > P := by
      have := limbLen_le_of_lt hlt; omega
    simp [this]

theorem fixedDigits_zero (b : ℕ) (hb : 0 < b) : ∀ n : ℕ, fixedDigits b n 0 = List.replicate n 0
  | 0 => rfl
  | n + 1 => by
    rw [fixedDigits, Nat.zero_mod, Nat.zero_div, fixedDigits_zero b hb n]
    simp [List.replicate_succ]

theorem digitsOf_mul_pow {b : ℕ} (hb : 2 ≤ b) (N e : ℕ) (hN : 0 < N) :
    digitsOf b (N * b ^ e) = digitsOf b N ++ List.replicate e 0 := by
  have := digitsOf_append_fixed hb e N 0 hN (Nat.pow_pos (by omega))
  rw [Nat.add_zero, fixedDigits_zero b (by omega)] at this
  exact this

theorem stripTrailingZeros_append_zeros (l : List ℕ) (j : ℕ) :
    stripTrailingZeros (l ++ List.replicate j 0) = stripTrailingZeros l := by
  unfold stripTrailingZeros
  rw [List.reverse_append, List.reverse_replicate]
  congr 1
  induction j with
  | zero => simp
  | succ j ih => rw [List.replicate_succ, List.cons_append, List.dropWhile_cons_of_pos (by simp)]; exact ih

/-- an integer N held exactly by `u`, with at most `nd` digits, converted through the multiplication branch with
    all its limbs used and the power base^e below B^n_limbs_needed (hence exact): the digits delivered are the
    digits of N without its trailing zeros, and the exponent is the number of digits of N -/
theorem get_digits_integer (base nd0 : ℕ) (u : F) (hb : 2 ≤ base) (N : ℕ) (hN : 0 < N)
    (hlen : (u.d.length : ℤ) ≤ u.exp)
    (hval : N = val u.d * B ^ (u.exp - (u.d.length : ℤ)).toNat)
    (hun : u.d.length ≤ nLimbsNeeded base (effDigits base u.prec nd0))
    (hexp : u.exp ≤ (nLimbsNeeded base (effDigits base u.prec nd0) : ℤ))
    (hpow : base ^ (mulTrunc (64 * ((nLimbsNeeded base (effDigits base u.prec nd0) : ℤ) - u.exp).toNat) (cpbeBits base)) <
      B ^ nLimbsNeeded base (effDigits base u.prec nd0))
    (hdig : (digitsOf base N).length ≤ effDigits base u.prec nd0) :
    get_digits base nd0 u = (stripTrailingZeros (digitsOf base N), ((digitsOf base N).length : ℤ)) := by
  have hne : u.d.length ≠ 0 := by
    intro h0
    have : u.d = [] := List.eq_nil_of_length_eq_zero h0
    rw [this] at hval; simp at hval; omega
  unfold get_digits scaledInt
  simp only
  rw [if_neg hne, if_pos hexp]
  set nd := effDigits base u.prec nd0
  set nln := nLimbsNeeded base nd
  set e := mulTrunc (64 * ((nln : ℤ) - u.exp).toNat) (cpbeBits base)
  rw [powHigh0_small base nln e (by omega) hpow]
  simp only
  have htop : top nln u.d = u.d := top_of_le hun
  rw [htop]
  -- the integer whose digits are developed is N · base^e
  have hNval : (if (u.d.length : ℤ) - u.exp - ((0 : ℕ) : ℤ) < 0
      then val u.d * base ^ e * B ^ (-((u.d.length : ℤ) - u.exp - ((0 : ℕ) : ℤ))).toNat
      else val u.d * base ^ e / B ^ ((u.d.length : ℤ) - u.exp - ((0 : ℕ) : ℤ)).toNat) = N * base ^ e := by
    by_cases hlt : (u.d.length : ℤ) - u.exp - ((0 : ℕ) : ℤ) < 0
    · rw [if_pos hlt, hval]
      have : (-((u.d.length : ℤ) - u.exp - ((0 : ℕ) : ℤ))).toNat = (u.exp - (u.d.length : ℤ)).toNat := by
        congr 1; push_cast; ring
      rw [this]; ring
    · rw [if_neg hlt, hval]
      have h0 : u.exp - (u.d.length : ℤ) = 0 := by push_cast at hlt; omega
      have h1 : ((u.d.length : ℤ) - u.exp - ((0 : ℕ) : ℤ)).toNat = 0 := by push_cast; omega
      rw [h0, h1]; simp
  rw [hNval, digitsOf_mul_pow hb N e hN]
  set dg := digitsOf base N
  unfold finish
  simp only
  -- the rounding digit is one of the appended zeros
  have hget : (dg ++ List.replicate e 0).getD nd 0 = 0 := by
    rw [List.getD_eq_getElem?_getD, List.getElem?_append_right hdig]
    by_cases h : nd - dg.length < e
    · simp [h]
    · simp [h]
  have hnr : ¬ ((dg ++ List.replicate e 0).length > nd ∧ 2 * (dg ++ List.replicate e 0).getD nd 0 ≥ base) := by
    rw [hget]; omega
  rw [if_neg hnr]
  simp only
  have htake : (dg ++ List.replicate e 0).take nd = dg ++ List.replicate (min (nd - dg.length) e) 0 := by
    rw [List.take_append, List.take_of_length_le hdig, List.take_replicate]
  rw [htake, stripTrailingZeros_append_zeros]
  congr 1
  simp

end Mpir.MpfStr
