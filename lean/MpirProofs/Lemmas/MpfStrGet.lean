/- mpf_get_str: the integer form of "within one unit of the n-th digit" (MpfStr.withinUnit) against its
   statement over ℚ; the rounding step. -/
import MpirProofs.Lemmas.MpfStrConv
import MpirProofs.Lemmas.Radix
namespace Mpir.MpfStr
open Mpir Mpir.Mpf Mpir.Radix

theorem natAbs_cast_q (a : ℤ) : ((a.natAbs : ℕ) : ℚ) = |(a : ℚ)| := by
  rw [Nat.cast_natAbs, Int.cast_abs]

/-- `withinUnit` decides `|0.d₁…d_L · b^x − num/den| ≤ b^(x−n)` (L ≤ n digits; 0.d₁…d_L · b^x = D · b^(x−L)) -/
theorem withinUnit_iff_q (b : ℕ) (hb : 1 ≤ b) (ds : List ℕ) (x : ℤ) (n num den : ℕ) (hden : 0 < den)
    (hL : ds.length ≤ n) :
    withinUnit b ds x n num den = true ↔
      |(ofDigits b ds : ℚ) * (b : ℚ) ^ (x - (ds.length : ℤ)) - (num : ℚ) / (den : ℚ)| ≤ (b : ℚ) ^ (x - (n : ℤ)) := by
  have hbq : (0 : ℚ) < (b : ℚ) := by exact_mod_cast hb
  have hbne : (b : ℚ) ≠ 0 := hbq.ne'
  have hdq : (0 : ℚ) < (den : ℚ) := by exact_mod_cast hden
  set D := ofDigits b ds with hD
  set L := ds.length with hLdef
  have hxn : x - (n : ℤ) = (x - (L : ℤ)) - ((n - L : ℕ) : ℤ) := by omega
  have hj : (0 : ℚ) < (b : ℚ) ^ (n - L) := pow_pos hbq _
  unfold withinUnit
  simp only [← hD, ← hLdef]
  by_cases hy : x - (L : ℤ) ≥ 0
  · rw [if_pos hy, decide_eq_true_iff]
    obtain ⟨y, hyy⟩ := Int.eq_ofNat_of_zero_le hy
    rw [hxn, hyy, Int.toNat_natCast, zpow_sub₀ hbne, zpow_natCast, zpow_natCast]
    have hs : (0 : ℚ) < (b : ℚ) ^ y * (den : ℚ) := mul_pos (pow_pos hbq _) hdq
    rw [← Nat.cast_le (α := ℚ)]
    push_cast
    rw [natAbs_cast_q]
    push_cast
    rw [le_div_iff₀ hj]
    have e1 : (D : ℚ) * (b : ℚ) ^ y - (num : ℚ) / (den : ℚ) =
        ((D : ℚ) * ((b : ℚ) ^ y * (den : ℚ)) - (num : ℚ)) / (den : ℚ) := by field_simp
    rw [e1, abs_div, abs_of_pos hdq, div_mul_eq_mul_div, div_le_iff₀ hdq]
  · rw [if_neg hy, decide_eq_true_iff]
    have hy' : x - (L : ℤ) < 0 := by omega
    obtain ⟨y, hyy⟩ := Int.eq_ofNat_of_zero_le (show 0 ≤ -(x - (L : ℤ)) by omega)
    have hxl : x - (L : ℤ) = -(y : ℤ) := by omega
    rw [hxn, hxl, neg_neg, Int.toNat_natCast, zpow_sub₀ hbne, zpow_neg, zpow_natCast, zpow_natCast]
    have hby : (0 : ℚ) < (b : ℚ) ^ y := pow_pos hbq _
    rw [← Nat.cast_le (α := ℚ)]
    push_cast
    rw [natAbs_cast_q]
    push_cast
    rw [le_div_iff₀ hj]
    have e1 : (D : ℚ) * ((b : ℚ) ^ y)⁻¹ - (num : ℚ) / (den : ℚ) =
        ((D : ℚ) * (den : ℚ) - (num : ℚ) * (b : ℚ) ^ y) / ((b : ℚ) ^ y * (den : ℚ)) := by field_simp
    rw [e1, abs_div, abs_of_pos (mul_pos hby hdq), div_mul_eq_mul_div, div_le_iff₀ (mul_pos hby hdq)]
    constructor
    · intro h
      calc |(D : ℚ) * (den : ℚ) - (num : ℚ) * (b : ℚ) ^ y| * (b : ℚ) ^ (n - L) ≤ (den : ℚ) := h
        _ = ((b : ℚ) ^ y)⁻¹ * ((b : ℚ) ^ y * (den : ℚ)) := by field_simp
    · intro h
      calc |(D : ℚ) * (den : ℚ) - (num : ℚ) * (b : ℚ) ^ y| * (b : ℚ) ^ (n - L)
          ≤ ((b : ℚ) ^ y)⁻¹ * ((b : ℚ) ^ y * (den : ℚ)) := h
        _ = (den : ℚ) := by field_simp

end Mpir.MpfStr
