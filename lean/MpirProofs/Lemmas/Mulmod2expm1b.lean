/- mpn_mulmod_2expm1: limb level of the recombination (mulmod_2expm1.c:229-265). -/
import MpirProofs.Lemmas.Mulmod2expm1
namespace Mpir.Mm1
open Mpir Mpir.Fft

theorem maskK_zero (x : List Nat) (n : Nat) (hx : Limbs x) (hl : x.length = n) (hn : 1 ≤ n) :
    maskK x n 0 = x := mask_noop x hx n hn hl

/-- sum in n limbs, then `x[n-1] >> (64-k)` test and mask: sum and carry in `64n − k` bits -/
theorem mask_sum (x : List Nat) (n k cy v : Nat) (hx : Limbs x) (hl : x.length = n) (hn : 1 ≤ n) (hk : k ≤ 63)
    (hcy : cy ≤ 1) (hv : val x + B ^ n * cy = v) (hv2 : v < 2 * 2 ^ (64 * n - k)) :
    val (maskK x n k) + 2 ^ (64 * n - k) * (if k ≠ 0 && x.getD (n - 1) 0 >>> (64 - k) ≠ 0 then 1 else cy) = v ∧
    (if k ≠ 0 && x.getD (n - 1) 0 >>> (64 - k) ≠ 0 then 1 else cy) ≤ 1 ∧
    (maskK x n k).length = n ∧ Limbs (maskK x n k) ∧ val (maskK x n k) < 2 ^ (64 * n - k) := by
  obtain ⟨m1, m2, m3⟩ := maskK_spec x n k hx hl hn (by omega)
  have hQpos : 0 < 2 ^ (64 * n - k) := Nat.two_pow_pos _
  refine ⟨?_, ?_, m2, m3, by rw [m1]; exact Nat.mod_lt _ hQpos⟩
  · by_cases hk0 : k = 0
    · subst hk0
      have hxv := val_lt x hx; rw [hl] at hxv
      have e : 2 ^ (64 * n - 0) = B ^ n := by rw [Nat.sub_zero]; exact (B_pow_two' n).symm
      rw [m1, e, Nat.mod_eq_of_lt hxv]
      simpa using hv
    · have hBn := Bn_eq n k hn hk
      have h2k := two_le_two_pow k (by omega)
      have hcy0 : cy = 0 := by
        by_contra hne
        have h1 : B ^ n * 1 ≤ B ^ n * cy := Nat.mul_le_mul_left _ (Nat.one_le_iff_ne_zero.mpr hne)
        have h2 : 2 ^ (64 * n - k) * 2 ≤ 2 ^ (64 * n - k) * 2 ^ k := Nat.mul_le_mul_left _ h2k
        omega
      subst hcy0
      rw [Nat.mul_zero, Nat.add_zero] at hv
      rw [top_shr x n k hx hl hn hk, m1, hv]
      have hd : v / 2 ^ (64 * n - k) < 2 := (Nat.div_lt_iff_lt_mul hQpos).mpr (by omega)
      have hdm := Nat.mod_add_div v (2 ^ (64 * n - k))
      rcases Nat.eq_zero_or_pos (v / 2 ^ (64 * n - k)) with h0 | h0
      · simp only [h0, ne_eq, hk0, not_false_eq_true, decide_true, not_true_eq_false, decide_false,
          Bool.and_false, Bool.false_eq_true, ↓reduceIte]
        rw [h0] at hdm; omega
      · have h1 : v / 2 ^ (64 * n - k) = 1 := by omega
        simp only [h1, ne_eq, hk0, not_false_eq_true, decide_true, Nat.one_ne_zero, Bool.and_self, ↓reduceIte]
        rw [h1] at hdm; omega
  · split <;> omega

/-- difference in n limbs with borrow, then mask: difference and borrow in `64n − k` bits -/
theorem mask_diff (x : List Nat) (n k bw s d : Nat) (hx : Limbs x) (hl : x.length = n) (hn : 1 ≤ n) (hk : k ≤ 63)
    (hbw : bw ≤ 1) (hv : val x + d = s + B ^ n * bw) (hs : s < 2 ^ (64 * n - k)) (hd : d ≤ 2 ^ (64 * n - k)) :
    val (maskK x n k) + d = s + 2 ^ (64 * n - k) * bw ∧
    (maskK x n k).length = n ∧ Limbs (maskK x n k) ∧ val (maskK x n k) < 2 ^ (64 * n - k) := by
  obtain ⟨m1, m2, m3⟩ := maskK_spec x n k hx hl hn (by omega)
  have hQpos : 0 < 2 ^ (64 * n - k) := Nat.two_pow_pos _
  refine ⟨?_, m2, m3, by rw [m1]; exact Nat.mod_lt _ hQpos⟩
  have hxv := val_lt x hx; rw [hl] at hxv
  have hBn := Bn_eq n k hn hk
  rw [m1]
  generalize 2 ^ (64 * n - k) = Q at *
  have hK : 1 ≤ 2 ^ k := Nat.one_le_two_pow
  generalize 2 ^ k = K at *
  rw [hBn] at hv hxv
  obtain ⟨K', rfl⟩ : ∃ K', K = K' + 1 := ⟨K - 1, by omega⟩
  rcases Nat.eq_zero_or_pos bw with h0 | h0
  · subst h0
    rw [Nat.mul_zero, Nat.add_zero] at hv ⊢
    rw [Nat.mod_eq_of_lt (by omega)]; exact hv
  · have h1 : bw = 1 := by omega
    subst h1
    rw [Nat.mul_one] at hv ⊢
    have hxe : val x = (s + Q - d) + Q * K' := by
      have : Q * (K' + 1) = Q * K' + Q := by ring
      omega
    have hlt : d > s := by
      have : Q * (K' + 1) = Q * K' + Q := by ring
      omega
    rw [hxe, Nat.add_mul_mod_self_left, Nat.mod_eq_of_lt (by omega)]
    omega

theorem setAt_or_one (x : List Nat) (hx : Limbs x) (hne : 0 < x.length) (hev : val x % 2 = 0) :
    val (setAt x 0 (x.getD 0 0 ||| 1)) = val x + 1 ∧ (setAt x 0 (x.getD 0 0 ||| 1)).length = x.length ∧
    Limbs (setAt x 0 (x.getD 0 0 ||| 1)) := by
  obtain ⟨x0, xs, rfl⟩ := List.exists_cons_of_length_pos hne
  have ⟨hx0, hxs⟩ := Limbs_cons.mp hx
  have e : setAt (x0 :: xs) 0 ((x0 :: xs).getD 0 0 ||| 1) = (x0 ||| 1) :: xs := by
    unfold setAt; simp
  rw [e]
  have hev0 : x0 % 2 = 0 := by
    simp only [val_cons] at hev
    have : B = 2 * (B / 2) := by rw [B_eq]
    rw [this, Nat.mul_assoc, Nat.add_mul_mod_self_left] at hev; exact hev
  have hor : x0 ||| 1 = x0 + 1 := or_low x0 1 1 (by simpa using Nat.dvd_of_mod_eq_zero hev0) (by norm_num)
  rw [hor]
  refine ⟨by simp only [val_cons]; ring, by simp, Limbs_cons.mpr ⟨?_, hxs⟩⟩
  rw [B_eq] at hx0 ⊢; omega

/-- mulmod_2expm1.c:248-265 -/
def stage23 (S D : List Nat) (c bor m k : Nat) : List Nat × List Nat :=
  let s := sub_1 S bor
  let S2 := maskK s.1 m k
  if s.2 = 0 then
    let a := add_1 D c
    let c2 := if k ≠ 0 && a.1.getD (m - 1) 0 >>> (64 - k) ≠ 0 then 1 else a.2
    (if c2 ≠ 0 then setAt S2 0 (S2.getD 0 0 ||| 1) else S2, maskK a.1 m k)
  else (S2, D)

theorem recombine_eq (S D : List Nat) (c m k : Nat) :
    recombine S D c m k =
      if c = 0 then
        stage23 (maskK (sumdiff_n S D).1 m k) (maskK (sumdiff_n S D).2.1 m k)
          (if k ≠ 0 && (sumdiff_n S D).1.getD (m - 1) 0 >>> (64 - k) ≠ 0 then 1 else (sumdiff_n S D).2.2 / 2)
          ((sumdiff_n S D).2.2 % 2) m k
      else stage23 S S 1 1 m k := by
  unfold recombine stage23
  by_cases hc : c = 0
  · simp only [hc, ↓reduceIte]
  · simp only [hc, ↓reduceIte]

theorem stage23_spec (S1l D1l : List Nat) (c1 bor m k H2 S Dv : Nat) (hm : 1 ≤ m) (hk : k ≤ 63)
    (hH : 2 ^ (64 * m - k) = 2 * H2) (hH2 : 1 ≤ H2)
    (hS1 : Limbs S1l) (hD1 : Limbs D1l) (hS1l : S1l.length = m) (hD1l : D1l.length = m)
    (hS1v : val S1l < 2 * H2) (hD1v : val D1l < 2 * H2) (hc1 : c1 ≤ 1) (hbor : bor ≤ 1)
    (hS : S < 2 * H2) (hDv : Dv ≤ 2 * H2)
    (h1 : val S1l + 2 * H2 * c1 = S + Dv) (h2 : val D1l + Dv = S + 2 * H2 * bor) :
    (stage23 S1l D1l c1 bor m k).1.length = m ∧ Limbs (stage23 S1l D1l c1 bor m k).1 ∧
    (stage23 S1l D1l c1 bor m k).2.length = m ∧ Limbs (stage23 S1l D1l c1 bor m k).2 ∧
    val (stage23 S1l D1l c1 bor m k).1 < 2 * H2 ∧ val (stage23 S1l D1l c1 bor m k).2 < 2 * H2 ∧
    ((val (stage23 S1l D1l c1 bor m k).1 = 0 ∧ val (stage23 S1l D1l c1 bor m k).2 = 0) ↔ (S = 0 ∧ Dv = 0)) ∧
    ((val (stage23 S1l D1l c1 bor m k).1 : Int) + (2 * H2 : Int) * val (stage23 S1l D1l c1 bor m k).2 ≡
      ((S : Int) + Dv) + (2 * H2 : Int) * ((S : Int) - Dv) [ZMOD (2 * H2 : Int) * (2 * H2) - 1]) := by
  have hB := B_eq
  obtain ⟨s1, s2, s3, s4⟩ := sub_1_spec S1l bor hS1 (by omega) (by omega)
  rw [hS1l] at s1 s4
  obtain ⟨d1, d2, d3, d4⟩ := mask_diff (sub_1 S1l bor).1 m k (sub_1 S1l bor).2 (val S1l) bor s3 s4 hm hk s2 s1
    (by rw [hH]; exact hS1v) (by omega)
  rw [hH] at d1 d4
  unfold stage23
  simp only
  generalize sub_1 S1l bor = s at *
  generalize maskK s.1 m k = S2l at *
  by_cases hs2 : s.2 = 0
  · simp only [hs2, ↓reduceIte]
    obtain ⟨a1, a2, a3, a4⟩ := add_1_spec D1l c1 hD1 (by omega) (by omega)
    rw [hD1l] at a1 a4
    obtain ⟨e1, e2, e3, e4, e5⟩ := mask_sum (add_1 D1l c1).1 m k (add_1 D1l c1).2 (val D1l + c1) a3 a4 hm hk a2 a1
      (by rw [hH]; omega)
    rw [hH] at e1 e5
    generalize add_1 D1l c1 = a at *
    generalize (if k ≠ 0 && a.1.getD (m - 1) 0 >>> (64 - k) ≠ 0 then 1 else a.2) = c2 at *
    generalize maskK a.1 m k = D2l at *
    obtain ⟨r1, r2, r3, r4, r5⟩ := recomb_val H2 S Dv (val S1l) c1 (val D1l) bor (val S2l) s.2 (val D2l) c2
      (val S2l + c2) (val D2l) hH2 hS hDv h1 hS1v hc1 h2 hD1v hbor d1 d4 s2
      (fun _ => ⟨e1, e5, e2, rfl, rfl⟩) (fun h => by omega)
    have hSf : val (if c2 ≠ 0 then setAt S2l 0 (S2l.getD 0 0 ||| 1) else S2l) = val S2l + c2 ∧
        (if c2 ≠ 0 then setAt S2l 0 (S2l.getD 0 0 ||| 1) else S2l).length = m ∧
        Limbs (if c2 ≠ 0 then setAt S2l 0 (S2l.getD 0 0 ||| 1) else S2l) := by
      by_cases hc2 : c2 = 0
      · simp only [hc2, ne_eq, not_true_eq_false, ↓reduceIte, Nat.add_zero]
        exact ⟨trivial, d2, d3⟩
      · have hc21 : c2 = 1 := by omega
        simp only [hc2, ne_eq, not_false_eq_true, ↓reduceIte]
        obtain ⟨o1, o2, o3⟩ := setAt_or_one S2l d3 (by omega) (r3 hs2 hc21)
        exact ⟨by rw [o1, hc21], by rw [o2]; exact d2, o3⟩
    obtain ⟨f1, f2, f3⟩ := hSf
    generalize (if c2 ≠ 0 then setAt S2l 0 (S2l.getD 0 0 ||| 1) else S2l) = Sfl at *
    rw [← f1] at r1 r4 r5
    exact ⟨f2, f3, e3, e4, r1, r2, r4, by exact_mod_cast r5⟩
  · simp only [hs2, ↓reduceIte]
    have hs21 : s.2 = 1 := by omega
    obtain ⟨r1, r2, r3, r4, r5⟩ := recomb_val H2 S Dv (val S1l) c1 (val D1l) bor (val S2l) s.2 0 0
      (val S2l) (val D1l) hH2 hS hDv h1 hS1v hc1 h2 hD1v hbor d1 d4 s2
      (fun h => by omega) (fun _ => ⟨rfl, rfl⟩)
    exact ⟨d2, d3, hD1l, hD1, r1, r2, r4, by exact_mod_cast r5⟩

/-- mulmod_2expm1.c:229-265: `S` (a residue modulo `2^h − 1` below `2^h`) and `D + 2^h·c` (the fully reduced residue
    modulo `2^h + 1`) are turned into `(S', D')`, both below `2^h`, with
    `S' + 2^h·D' ≡ (S + Dv) + 2^h·(S − Dv) (mod 2^(2h) − 1)`, and `S' = D' = 0` only for `S = Dv = 0`. -/
theorem recombine_spec (S D : List Nat) (c m k H2 : Nat) (hm : 1 ≤ m) (hk : k ≤ 63)
    (hH : 2 ^ (64 * m - k) = 2 * H2) (hH2 : 1 ≤ H2)
    (hS : Limbs S) (hD : Limbs D) (hSl : S.length = m) (hDl : D.length = m)
    (hSv : val S < 2 * H2) (hc : c ≤ 1) (hDv : val D + 2 * H2 * c ≤ 2 * H2) :
    (recombine S D c m k).1.length = m ∧ Limbs (recombine S D c m k).1 ∧
    (recombine S D c m k).2.length = m ∧ Limbs (recombine S D c m k).2 ∧
    val (recombine S D c m k).1 < 2 * H2 ∧ val (recombine S D c m k).2 < 2 * H2 ∧
    ((val (recombine S D c m k).1 = 0 ∧ val (recombine S D c m k).2 = 0) ↔ (val S = 0 ∧ val D + 2 * H2 * c = 0)) ∧
    ((val (recombine S D c m k).1 : Int) + (2 * H2 : Int) * val (recombine S D c m k).2 ≡
      ((val S : Int) + (val D + 2 * H2 * c : Nat)) + (2 * H2 : Int) * ((val S : Int) - (val D + 2 * H2 * c : Nat))
        [ZMOD (2 * H2 : Int) * (2 * H2) - 1]) := by
  rw [recombine_eq]
  by_cases hc0 : c = 0
  · subst hc0
    simp only [↓reduceIte, Nat.mul_zero, Nat.add_zero] at hDv ⊢
    obtain ⟨sa, sd, sc1, sc2, sL1, sL2, sl1, sl2⟩ := sumdiff_spec S D hS hD (by rw [hSl, hDl])
    rw [hSl] at sa sd sl1 sl2
    obtain ⟨e1, e2, e3, e4, e5⟩ := mask_sum (sumdiff_n S D).1 m k ((sumdiff_n S D).2.2 / 2) (val S + val D)
      sL1 sl1 hm hk sc1 sa (by rw [hH]; omega)
    obtain ⟨d1, d2, d3, d4⟩ := mask_diff (sumdiff_n S D).2.1 m k ((sumdiff_n S D).2.2 % 2) (val S) (val D)
      sL2 sl2 hm hk sc2 sd (by rw [hH]; exact hSv) (by rw [hH]; exact hDv)
    rw [hH] at e1 e5 d1 d4
    exact stage23_spec _ _ _ _ m k H2 (val S) (val D) hm hk hH hH2 e4 d3 e3 d2 e5 d4 e2 sc2 hSv hDv e1 d1
  · have hc1 : c = 1 := by omega
    subst hc1
    simp only [Nat.one_ne_zero, ↓reduceIte, Nat.mul_one] at hDv ⊢
    have hD0 : val D = 0 := by omega
    rw [hD0, Nat.zero_add]
    exact stage23_spec S S 1 1 m k H2 (val S) (2 * H2) hm hk hH hH2 hS hS hSl hSl hSv hSv (by omega) (by omega)
      hSv (by omega) (by omega) (by omega)
end Mpir.Mm1
