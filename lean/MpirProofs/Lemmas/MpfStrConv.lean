/- The three branches of mpf_set_str's conversion (Mpir/Model/MpfStr.lean: convInt, convMul, convDiv):
   format rules, the rational value of the result, and how far it is from mantissa · base^(±e). -/
import MpirProofs.Lemmas.MpfStr
import MpirProofs.Lemmas.MpfStrExact
namespace Mpir.MpfStr
open Mpir Mpir.Mpf

/-- the sign factor -/
def sgn (neg : Bool) : ℚ := if neg then -1 else 1

theorem sgn_cases (neg : Bool) : sgn neg = 1 ∨ sgn neg = -1 := by cases neg <;> simp [sgn]

/-- the exact rational an accepted string denotes: (-1)^neg · mantissa · base^(exponent − fraction length) -/
def Parsed.value (p : Parsed) : ℚ := sgn p.neg * (p.mant : ℚ) * (p.base : ℚ) ^ p.scale

theorem limbLen_le_of_lt {v P : Nat} (h : v < B ^ P) : limbLen v ≤ P := by
  by_cases hv : v = 0
  · subst hv; simp [limbLen]
  · obtain ⟨a, _⟩ := limbLen_spec hv
    by_contra hc
    have : B ^ P ≤ B ^ (limbLen v - 1) := Nat.pow_le_pow_right B_pos (by omega)
    omega

theorem toQ_mkNat (prec : Nat) (neg : Bool) (ex : Int) (n v : Nat) (hv : v < B ^ n) :
    toQ (Mpf.mk prec neg ex (toLimbs n v)) = sgn neg * (v : ℚ) * (B : ℚ) ^ (ex - (n : ℤ)) := by
  unfold Mpf.mk sgn
  rw [toQ_mk_neg prec (neg = true) ex (toLimbs n v), val_toLimbs_of_lt hv, toLimbs_length]

theorem WF_mkNat (prec : Nat) (neg : Bool) (ex : Int) (n v : Nat) (hn1 : 1 ≤ n) (hn : n ≤ prec + 1)
    (h1 : B ^ (n - 1) ≤ v) (h2 : v < B ^ n) : WF (Mpf.mk prec neg ex (toLimbs n v)) := by
  unfold Mpf.mk
  have hlen := toLimbs_length n v
  have hne : toLimbs n v ≠ [] := by
    intro h; rw [h] at hlen; simp at hlen; omega
  apply WF_mk_neg (Limbs_toLimbs n v)
  · apply top_ne_zero_of_val_ge _ (Limbs_toLimbs n v) hne
    rw [hlen, val_toLimbs_of_lt h2]; exact h1
  · rw [hlen]; exact hn
  · intro h; exact absurd h hne

/-- bounds of a non-zero number in terms of its limb count, in ℚ -/
theorem limbLen_bounds_q {v : Nat} (hv : v ≠ 0) :
    (B : ℚ) ^ (limbLen v - 1) ≤ (v : ℚ) ∧ (v : ℚ) < (B : ℚ) ^ limbLen v := by
  obtain ⟨a, b⟩ := limbLen_spec hv
  exact ⟨by exact_mod_cast a, by exact_mod_cast b⟩

/-! ### from accumulated factors to the property's bound -/

theorem epsP_pos (P : ℕ) : 0 < epsP P := by unfold epsP; exact div_pos one_pos (pow_pos Bq_pos _)

theorem eps_eq_epsP (prec : ℕ) (hp : 1 ≤ prec) : eps prec = 4 * (B : ℚ) * epsP (prec + 1) := by
  rw [eps_eq]; unfold epsP
  have h : prec + 1 - 1 = (prec - 1) + 1 := by omega
  rw [h, pow_succ]
  have hB := Bq_ne
  have hBp : (B : ℚ) ^ (prec - 1) ≠ 0 := pow_ne_zero _ hB
  field_simp

/-- one-sided: R within k < 4B truncation factors below V -/
theorem err_of_appr (prec : ℕ) (hp : 1 ≤ prec) {R V : ℚ} {k : ℕ} (hV : 0 < V)
    (h : Appr (epsP (prec + 1)) R V k) (hk : k < 4 * B) : |R - V| < eps prec * V := by
  have h0 := epsP_nonneg (prec + 1)
  have h1 := epsP_le_one (prec + 1)
  have e := Appr.err h0 h1 hV.le h
  have hpos : 0 < epsP (prec + 1) := epsP_pos _
  rw [abs_sub_comm, abs_of_nonneg (by linarith [h.2]), eps_eq_epsP prec hp]
  have hkq : (k : ℚ) < 4 * (B : ℚ) := by exact_mod_cast hk
  have : (k : ℚ) * epsP (prec + 1) * V < 4 * (B : ℚ) * epsP (prec + 1) * V := by
    apply mul_lt_mul_of_pos_right _ hV
    exact mul_lt_mul_of_pos_right hkq hpos
  linarith

/-- two-sided (division): V (1-ε)^3 ≤ R and R (1-ε)^e ≤ V -/
theorem err_of_two_sided (prec : ℕ) (hp : 1 ≤ prec) {R V : ℚ} {e : ℕ} (hV : 0 < V)
    (hlo : V * (1 - epsP (prec + 1)) ^ 3 ≤ R) (hhi : R * (1 - epsP (prec + 1)) ^ e ≤ V) (he : e < 2 ^ 63) :
    |R - V| < eps prec * V := by
  set ε := epsP (prec + 1) with hε
  have h0 : 0 ≤ ε := epsP_nonneg _
  have h1 : ε ≤ 1 := epsP_le_one _
  have hpos : 0 < ε := by rw [hε]; exact epsP_pos _
  rw [eps_eq_epsP prec hp, ← hε]
  have hBq : (B : ℚ) = 2 ^ 64 := Bq_eq
  -- ε ≤ 1/B
  have hεB : ε * (B : ℚ) ≤ 1 := by
    rw [hε]; unfold epsP
    have : (B : ℚ) ≤ (B : ℚ) ^ (prec + 1 - 1) := by
      have h : prec + 1 - 1 = (prec - 1) + 1 := by omega
      rw [h, pow_succ]
      have : (1 : ℚ) ≤ (B : ℚ) ^ (prec - 1) := one_le_pow₀ (by exact_mod_cast B_pos)
      nlinarith [Bq_pos]
    rw [div_mul_eq_mul_div, one_mul, div_le_one (pow_pos Bq_pos _)]; exact this
  have heq : (e : ℚ) < 2 ^ 63 := by exact_mod_cast he
  have heε : (e : ℚ) * ε ≤ 1 / 2 := by
    have : (e : ℚ) * ε * (B : ℚ) ≤ 2 ^ 63 := by
      calc (e : ℚ) * ε * (B : ℚ) = (e : ℚ) * (ε * (B : ℚ)) := by ring
        _ ≤ (e : ℚ) * 1 := mul_le_mul_of_nonneg_left hεB (Nat.cast_nonneg e)
        _ ≤ 2 ^ 63 := by linarith
    rw [hBq] at this
    have h2 : (e : ℚ) * ε * 2 ^ 64 = ((e : ℚ) * ε) * 2 * 2 ^ 63 := by ring
    nlinarith
  have b3 := one_sub_pow_ge h0 h1 3
  have be := one_sub_pow_ge h0 h1 e
  have hR : 0 ≤ R := le_trans (mul_nonneg hV.le (pow_nonneg (by linarith) 3)) hlo
  -- lower side
  have lo : V - R ≤ 3 * ε * V := by
    have : V * (1 - ((3 : ℕ) : ℚ) * ε) ≤ R := le_trans (mul_le_mul_of_nonneg_left b3 hV.le) hlo
    push_cast at this; linarith
  -- upper side
  have up : R - V ≤ 2 * (e : ℚ) * ε * V := by
    have h3 : R * (1 - (e : ℚ) * ε) ≤ V := le_trans (mul_le_mul_of_nonneg_left be hR) hhi
    -- R ≤ 2 V, hence R e ε ≤ 2 e ε V
    have h4 : R ≤ 2 * V := by nlinarith
    have h5 : R * ((e : ℚ) * ε) ≤ 2 * V * ((e : ℚ) * ε) :=
      mul_le_mul_of_nonneg_right h4 (mul_nonneg (Nat.cast_nonneg e) h0)
    nlinarith
  have hB4 : (3 : ℚ) < 4 * (B : ℚ) := by rw [hBq]; norm_num
  have hB5 : 2 * (e : ℚ) < 4 * (B : ℚ) := by rw [hBq]; linarith
  have hεV : 0 < ε * V := mul_pos hpos hV
  rw [abs_lt]
  constructor
  · have : 3 * ε * V < 4 * (B : ℚ) * ε * V := by nlinarith
    linarith
  · have : 2 * (e : ℚ) * ε * V < 4 * (B : ℚ) * ε * V := by nlinarith
    linarith

/-- attach the sign -/
theorem err_with_sign (neg : Bool) (prec : ℕ) {R V : ℚ} (hV : 0 < V) (h : |R - V| < eps prec * V) :
    |sgn neg * R - sgn neg * V| < eps prec * |sgn neg * V| := by
  rcases sgn_cases neg with s | s <;> rw [s]
  · simpa [abs_of_pos hV] using h
  · have e1 : (-1 : ℚ) * R - -1 * V = -(R - V) := by ring
    rw [e1, abs_neg, show (-1 : ℚ) * V = -V by ring, abs_neg, abs_of_pos hV]; exact h

/-! ### exponent 0 -/

theorem convInt_spec (prec : ℕ) (neg : Bool) (M : ℕ) (hM : M ≠ 0) :
    WF (convInt prec neg M) ∧
    ∃ R : ℚ, toQ (convInt prec neg M) = sgn neg * R ∧ Appr (epsP (prec + 1)) R (M : ℚ) 1 ∧
      (limbLen M ≤ prec + 1 → R = M) ∧ (1 ≤ prec → FitsN M (64 * (prec - 1)) → R = M) := by
  obtain ⟨k1, k2, k3, k4, k5, k6⟩ := keepTop_spec (prec + 1) (by omega) hM
  have ak := appr_keepTop (prec + 1) (by omega) hM
  obtain ⟨b1, b2⟩ := limbLen_spec k4
  have hl1 := limbLen_pos k4
  unfold convInt
  set km := keepTop (prec + 1) M
  refine ⟨WF_mkNat prec neg _ _ _ hl1 (by rw [k3]; omega) b1 b2, (km.1 : ℚ) * (B : ℚ) ^ km.2, ?_, ?_, ?_, ?_⟩
  · rw [toQ_mkNat _ _ _ _ _ b2]
    have : ((limbLen km.1 : ℤ) + (km.2 : ℤ)) - (limbLen km.1 : ℤ) = (km.2 : ℤ) := by ring
    rw [this, zpow_natCast]; ring
  · exact ak
  · intro h
    have := k6 h
    rw [show km = (M, 0) from this]; simp
  · intro hp hf
    have := keepTop_exact prec hp hM hf
    exact_mod_cast this

/-! ### multiplication by base^e -/

theorem convMul_spec (prec : ℕ) (neg : Bool) (M b e : ℕ) (hM : M ≠ 0) (hb : 1 ≤ b) (he : 1 ≤ e) :
    WF (convMul prec neg M b e) ∧
    ∃ R : ℚ, toQ (convMul prec neg M b e) = sgn neg * R ∧
      Appr (epsP (prec + 1)) R ((M : ℚ) * (b : ℚ) ^ e) (e + 2) ∧
      (1 ≤ prec → FitsN M (64 * (prec - 1)) → FitsN (b ^ e) (64 * (prec - 1)) → FitsN (M * b ^ e) (64 * (prec - 1)) →
        R = (M : ℚ) * (b : ℚ) ^ e) := by
  have hP : 1 ≤ prec + 1 := by omega
  have h0 := epsP_nonneg (prec + 1)
  have h1 := epsP_le_one (prec + 1)
  obtain ⟨_, _, _, m4, _, _⟩ := keepTop_spec (prec + 1) hP hM
  have am := appr_keepTop (prec + 1) hP hM
  obtain ⟨r1, _, ar⟩ := powHigh_appr b (prec + 1) e hb hP he
  unfold convMul
  set km := keepTop (prec + 1) M
  set pw := powHigh b e (prec + 1)
  have ht : pw.1 * km.1 ≠ 0 := Nat.mul_ne_zero r1 m4
  obtain ⟨_, _, t3, t4, t5, _⟩ := keepTop_spec (prec + 1) hP ht
  have at' := appr_keepTop (prec + 1) hP ht
  set t := pw.1 * km.1
  set kt := keepTop (prec + 1) t
  obtain ⟨c1, c2⟩ := limbLen_spec t4
  have htn := limbLen_pos ht
  rw [t3] at c1 c2
  have hmin1 : 1 ≤ min (limbLen t) (prec + 1) := by omega
  refine ⟨WF_mkNat prec neg _ _ _ hmin1 (by omega) c1 c2,
    (kt.1 : ℚ) * (B : ℚ) ^ kt.2 * ((B : ℚ) ^ km.2 * (B : ℚ) ^ pw.2), ?_, ?_, ?_⟩
  · rw [toQ_mkNat _ _ _ _ _ c2]
    have : ((limbLen t : ℤ) + (km.2 : ℤ) + (pw.2 : ℤ)) - ((min (limbLen t) (prec + 1) : ℕ) : ℤ) =
        ((kt.2 + km.2 + pw.2 : ℕ) : ℤ) := by
      rw [t3] at t5; push_cast; omega
    rw [this, zpow_natCast, pow_add, pow_add]; ring
  · -- kt ≈ t = r m ; (r m) B^dm B^ir = (m B^dm)(r B^ir) ≈ M b^e
    have hc : (0 : ℚ) ≤ (B : ℚ) ^ km.2 * (B : ℚ) ^ pw.2 := by positivity
    have a1 := Appr.mul_const h0 h1 at' hc
    have hMq : (0 : ℚ) ≤ (M : ℚ) := Nat.cast_nonneg _
    have hbe : (0 : ℚ) ≤ (b : ℚ) ^ e := by positivity
    have am' : Appr (epsP (prec + 1)) ((km.1 : ℚ) * (B : ℚ) ^ km.2) (M : ℚ) 1 := am
    have a2 := Appr.mul h0 h1 hMq hbe am' ar
    have e1 : ((t : ℕ) : ℚ) * ((B : ℚ) ^ km.2 * (B : ℚ) ^ pw.2) =
        (km.1 : ℚ) * (B : ℚ) ^ km.2 * ((pw.1 : ℚ) * (B : ℚ) ^ pw.2) := by
      show ((pw.1 * km.1 : ℕ) : ℚ) * _ = _
      push_cast; ring
    rw [e1] at a1
    have tr := Appr.trans h0 h1 a1 a2
    have : 1 + (1 + e) = e + 2 := by omega
    rw [this] at tr
    exact tr
  · intro hp fM fb fv
    have xm : km.1 * B ^ km.2 = M := keepTop_exact prec hp hM fM
    have xp : pw.1 * B ^ pw.2 = b ^ e := powHigh_exact_of_fits b prec e hp hb he fb
    have ht' : t * B ^ (km.2 + pw.2) = M * b ^ e := by
      show pw.1 * km.1 * B ^ (km.2 + pw.2) = _
      rw [← xm, ← xp, pow_add]; ring
    have ft : FitsN t (64 * (prec - 1)) := by
      rw [← ht'] at fv; exact fitsN_of_mul_Bpow fv
    have xt : kt.1 * B ^ kt.2 = t := keepTop_exact prec hp ht ft
    have : kt.1 * B ^ kt.2 * (B ^ km.2 * B ^ pw.2) = M * b ^ e := by
      rw [xt, ← pow_add]; exact ht'
    exact_mod_cast this

end Mpir.MpfStr
