/- Refinement proof for the size-aware model of mpz/tdiv_qr.c (Mpir/Model/AllocSafeMpz4.lean `tdiv_qr`): two destinations
   (quot ≠ rem), two reallocations (`MPZ_REALLOC (rem, dl)` then `MPZ_REALLOC (quot, ql)`), operands copied to temporary
   space when they are one of the outputs; mpn_tdiv_qr stores exactly ql and dl limbs. -/
import MpirProofs.Lemmas.AllocSafeSqrt
namespace Mpir.AllocSafe
open Mpir
open Mpir.Mpz (sgn natAbs_sgn Norm WF toInt WF_iff)

/-- the shape of an `_alloc_safe` statement for a function with two destinations -/
structure Safe2 (s s' : St) (q r : Nat) (mq mr : Mpz.Mpz) : Prop where
  ok : s'.ok = true
  bq : BWF (s'.h q).buf
  br : BWF (s'.h r).buf
  vq : view (s'.h q) = mq
  vr : view (s'.h r) = mr
  frame : ∀ x, x ≠ q → x ≠ r → s'.h x = s.h x

/-- a reallocation of `w` keeps every object well formed, with the same size and limbs -/
theorem Grown.owf {s s' : St} {w n : Nat} (G : Grown s s' w n) {x : Nat} (hx : OWF (s.h x)) :
    OWF (s'.h x) ∧ (view (s'.h x)).d = (view (s.h x)).d ∧ (s'.h x).size = (s.h x).size := by
  have hsz := G.size x
  have hd : (view (s'.h x)).d = (view (s.h x)).d := by
    simp only [view, hsz]; exact G.take x _ hx.1 (view_fit hx)
  refine ⟨⟨G.bwf x hx.1, ?_⟩, hd, hsz⟩
  obtain ⟨h1, h2, h3, h4⟩ := (WF_iff _).mp hx.2
  have hm := G.mono x
  refine (WF_iff _).mpr ⟨?_, ?_, ?_, ?_⟩
  · show 1 ≤ (s'.h x).buf.alloc
    have : 1 ≤ (s.h x).buf.alloc := h1
    omega
  · show (s'.h x).size.natAbs ≤ (s'.h x).buf.alloc
    have : (s.h x).size.natAbs ≤ (s.h x).buf.alloc := h2
    rw [hsz]; omega
  · rw [hd]; show _ = (s'.h x).size.natAbs; rw [hsz]; exact h3
  · rw [hd]; exact h4

theorem view_setSize (s : St) (x : Nat) (z : Int) :
    view ((s.setSize x z).h x) = ⟨(s.h x).buf.alloc, z, (s.h x).buf.limbs.take z.natAbs⟩ := by simp [view]

theorem rd_of_h_eq {s s' : St} {p : Ptr} (h : s'.h p.id = s.h p.id) (n : Nat) :
    s'.rd p n = s.rd p n ∧ s'.rdOk p n = s.rdOk p n := by
  simp [St.rd, St.rdOk, St.live, h]

theorem tdiv_qr_refines (s : St) (q r n d : Nat) (hs : s.ok = true)
    (hq : OWF (s.h q)) (hr : OWF (s.h r)) (hn : OWF (s.h n)) (hd : OWF (s.h d)) (hd0 : (s.h d).size ≠ 0) (hqr : q ≠ r) :
    ∃ s', tdiv_qr 0 0 s q r n d = some s' ∧
      Safe2 s s' q r (Spec.tdiv_q (view (s.h q)) (view (s.h n)) (view (s.h d)))
        (Spec.tdiv_r (n == r) (view (s.h r)) (view (s.h n)) (view (s.h d))) := by
  unfold tdiv_qr Spec.tdiv_q Spec.tdiv_r
  rw [show s.SIZ n = (s.h n).size from rfl, show s.SIZ d = (s.h d).size from rfl]
  have e1 : (view (s.h n)).size = (s.h n).size := rfl
  have e2 : (view (s.h d)).size = (s.h d).size := rfl
  rw [e1, e2]
  have hNl := view_d_length hn
  have hDl := view_d_length hd
  have hdl0 : ((s.h d).size.natAbs == 0) = false := by simpa using hd0
  simp only [hdl0, Bool.false_eq_true, if_false]
  have hrq : r ≠ q := fun h => hqr h.symm
  by_cases hle : (s.h n).size.natAbs + 1 ≤ (s.h d).size.natAbs
  · -- ql <= 0: rem = num (copied unless it is the same variable), quot = 0
    simp only [hle, if_true, Nat.sub_zero]
    have G1 := MPZ_REALLOC_grown s r (s.h d).size.natAbs hr
    have halloc1 : (Mpz.grow (view (s.h r)) (s.h d).size.natAbs).alloc =
      ((MPZ_REALLOC s r (s.h d).size.natAbs).h r).buf.alloc := G1.alloc.symm
    have hok1 : (MPZ_REALLOC s r (s.h d).size.natAbs).ok = true := by rw [G1.ok]; exact hs
    refine ⟨_, rfl, ?_⟩
    rw [halloc1]
    have hq1 : (MPZ_REALLOC s r (s.h d).size.natAbs).h q = s.h q := G1.other q hqr
    by_cases hnr : n = r
    · have e : (n != r) = false := by simp [hnr]
      have e' : (n == r) = true := by simp [hnr]
      simp only [e, e', Bool.false_eq_true, if_false, if_true]
      refine ⟨by simpa using hok1, ?_, ?_, ?_, ?_, ?_⟩
      · simp only [setSize_buf, hq1]; exact hq.1
      · simp only [setSize_buf]; exact G1.bwf r hr.1
      · rw [view_setSize, hq1]; rfl
      · rw [setSize_other _ _ _ hrq]
        have hfit := view_fit hr
        simp only [view, G1.size r]
        rw [G1.take r _ hr.1 hfit]
      · intro x hxq hxr; rw [setSize_other _ _ _ hxq]; exact G1.other x hxr
    · have e : (n != r) = true := by simp [hnr]
      have e' : (n == r) = false := by simp [hnr]
      simp only [e, e', Bool.false_eq_true, if_false, if_true]
      have Dn := Den.of_grown G1 hn
      obtain ⟨en, okn⟩ := Dn.rd (view (s.h n)).d.length (Nat.le_refl _)
      simp only [St.rdS, St.rdOkS] at en okn
      rw [List.take_length, hNl] at en
      rw [hNl] at okn
      simp only [MPN_COPY, en, okn]
      have T := tail_take (MPZ_REALLOC s r (s.h d).size.natAbs) r (view (s.h n)).d (s.h n).size true hok1 rfl (G1.bwf r hr.1)
        (view_limbs hn) (by rw [hNl]; have := G1.room; omega) (by rw [hNl])
      rw [List.take_of_length_le (by rw [hNl])] at T
      have hq2 : ((((MPZ_REALLOC s r (s.h d).size.natAbs).chk true).wr ((MPZ_REALLOC s r (s.h d).size.natAbs).PTR r)
          (view (s.h n)).d).setSize r (s.h n).size).h q = s.h q := by
        rw [T.frame q hqr]; exact hq1
      refine ⟨by simpa using T.ok, ?_, ?_, ?_, ?_, ?_⟩
      · simp only [setSize_buf] at hq2 ⊢
        have := congrArg Obj.buf hq2
        simp only [setSize_buf] at this
        rw [this]; exact hq.1
      · have := T.bwf; simpa using this
      · rw [view_setSize, hq2]; rfl
      · rw [setSize_other _ _ _ hrq]; exact T.view
      · intro x hxq hxr; rw [setSize_other _ _ _ hxq, T.frame x hxr]; exact G1.other x hxr
  · -- ql > 0
    simp only [hle, if_false]
    refine ⟨_, rfl, ?_⟩
    have G1 := MPZ_REALLOC_grown s r ((s.h d).size.natAbs - 0) hr
    have halloc1 : (Mpz.grow (view (s.h r)) (s.h d).size.natAbs).alloc =
        ((MPZ_REALLOC s r ((s.h d).size.natAbs - 0)).h r).buf.alloc := by rw [G1.alloc, Nat.sub_zero]
    rw [halloc1]
    have hok1 : (MPZ_REALLOC s r ((s.h d).size.natAbs - 0)).ok = true := by rw [G1.ok]; exact hs
    have hbr1 := G1.bwf r hr.1
    have hroom1 : (s.h d).size.natAbs ≤ ((MPZ_REALLOC s r ((s.h d).size.natAbs - 0)).h r).buf.alloc := by
      have := G1.room; omega
    obtain ⟨O1q, _, _⟩ := G1.owf hq
    obtain ⟨O1n, d1n, _⟩ := G1.owf hn
    obtain ⟨O1d, d1d, _⟩ := G1.owf hd
    have hq1 : (MPZ_REALLOC s r ((s.h d).size.natAbs - 0)).h q = s.h q := G1.other q hqr
    have hfr1 := G1.other
    generalize MPZ_REALLOC s r ((s.h d).size.natAbs - 0) = s1 at *
    have G2 := MPZ_REALLOC_grown s1 q ((s.h n).size.natAbs - (s.h d).size.natAbs + 1 - 0) O1q
    have halloc2 : (Mpz.grow (view (s.h q)) ((s.h n).size.natAbs - (s.h d).size.natAbs + 1)).alloc =
        ((MPZ_REALLOC s1 q ((s.h n).size.natAbs - (s.h d).size.natAbs + 1 - 0)).h q).buf.alloc := by
      rw [G2.alloc, Nat.sub_zero, hq1]
    rw [halloc2]
    have hok2 : (MPZ_REALLOC s1 q ((s.h n).size.natAbs - (s.h d).size.natAbs + 1 - 0)).ok = true := by rw [G2.ok]; exact hok1
    have hbq2 := G2.bwf q O1q.1
    have hbr2 := G2.bwf r hbr1
    have hroomq : (s.h n).size.natAbs - (s.h d).size.natAbs + 1 ≤
        ((MPZ_REALLOC s1 q ((s.h n).size.natAbs - (s.h d).size.natAbs + 1 - 0)).h q).buf.alloc := by
      have := G2.room; omega
    have hr2 : (MPZ_REALLOC s1 q ((s.h n).size.natAbs - (s.h d).size.natAbs + 1 - 0)).h r = s1.h r := G2.other r hrq
    have Dn := Den.of_grown G2 O1n
    have Dd := Den.of_grown G2 O1d
    rw [d1n] at Dn
    rw [d1d] at Dd
    have hfr2 := G2.other
    generalize MPZ_REALLOC s1 q ((s.h n).size.natAbs - (s.h d).size.natAbs + 1 - 0) = s2 at *
    have hroomr : (s.h d).size.natAbs ≤ (s2.h r).buf.alloc := by rw [hr2]; exact hroom1
    -- the temporary copies
    obtain ⟨cd1, cd2⟩ := copyIfSame_spec (d == r || d == q) s2 (s2.PTR d) (view (s.h d)).d Dd
    rw [hDl] at cd1 cd2
    rw [cd1]
    obtain ⟨cn1, cn2⟩ := copyIfSame_spec (n == r || n == q) s2 (s2.PTR n) (view (s.h n)).d Dn
    rw [hNl] at cn1 cn2
    rw [cn1]
    have DD := cd2 s2 (Or.inr rfl)
    have DN := cn2 s2 (Or.inr rfl)
    generalize (copyIfSame (d == r || d == q) s2 (s2.PTR d) (s.h d).size.natAbs).1 = dS at *
    generalize (copyIfSame (n == r || n == q) s2 (s2.PTR n) (s.h n).size.natAbs).1 = nS at *
    obtain ⟨en, okn⟩ := DN.rd (s.h n).size.natAbs (by rw [hNl])
    obtain ⟨ed, okd⟩ := DD.rd (s.h d).size.natAbs (by rw [hDl])
    rw [List.take_of_length_le (by rw [hNl])] at en
    rw [List.take_of_length_le (by rw [hDl])] at ed
    simp only [mpn_tdiv_qr_S, en, ed, okn, okd, Bool.and_self, chk_true]
    generalize hQ : toLimbs ((s.h n).size.natAbs - (s.h d).size.natAbs + 1) (val (view (s.h n)).d / val (view (s.h d)).d) = Q
    generalize hR : toLimbs (s.h d).size.natAbs (val (view (s.h n)).d % val (view (s.h d)).d) = R
    have hQl : Q.length = (s.h n).size.natAbs - (s.h d).size.natAbs + 1 := by rw [← hQ, toLimbs_len]
    have hRl : R.length = (s.h d).size.natAbs := by rw [← hR, toLimbs_len]
    have hQL : Limbs Q := by rw [← hQ]; exact toLimbs_limbs _ _
    have hRL : Limbs R := by rw [← hR]; exact toLimbs_limbs _ _
    -- the two stores
    have Wq := Wrote.fresh s2 q Q true hok2 rfl hbq2 hQL (by rw [hQl]; exact hroomq)
    rw [chk_true] at Wq
    have h3r : (s2.wr (s2.PTR q) Q).h r = s2.h r := Wq.frame r hrq
    have hp3 : (s2.wr (s2.PTR q) Q).PTR r = s2.PTR r := by simp [St.PTR, h3r]
    have Wr := Wrote.fresh (s2.wr (s2.PTR q) Q) r R true Wq.ok rfl (by rw [h3r]; exact hbr2) hRL
      (by rw [h3r, hRl]; exact hroomr)
    rw [chk_true, hp3] at Wr
    -- qp[ql - 1] after both stores
    have h4q : ((s2.wr (s2.PTR q) Q).wr (s2.PTR r) R).h q = (s2.wr (s2.PTR q) Q).h q := Wr.frame q hqr
    obtain ⟨el, okl⟩ := Wq.rd_off ((s.h n).size.natAbs - (s.h d).size.natAbs + 1 - 1) 1 (by rw [hQl]; omega)
    obtain ⟨tr1, tr2⟩ := rd_of_h_eq (s' := (s2.wr (s2.PTR q) Q).wr (s2.PTR r) R) (s := s2.wr (s2.PTR q) Q)
      (p := (s2.PTR q).add ((s.h n).size.natAbs - (s.h d).size.natAbs + 1 - 1)) (by simpa using h4q) 1
    rw [el] at tr1
    rw [okl] at tr2
    simp only [St.load, tr1, tr2, chk_true]
    rw [headD_drop_take Q _ (by rw [hQl]; omega)]
    -- MPN_NORMALIZE (rp, dl)
    obtain ⟨eN, WrN⟩ := Wr.normalize
    rw [hp3, hRl] at eN WrN
    generalize hN : MPN_NORMALIZE ((s2.wr (s2.PTR q) Q).wr (s2.PTR r) R) (s2.PTR r) (s.h d).size.natAbs = NR at *
    rw [show NR = (NR.1, NR.2) from rfl]
    simp only []
    rw [eN]
    -- the final state
    have hNq : NR.2.h q = (s2.wr (s2.PTR q) Q).h q := WrN.frame q hqr
    refine ⟨by simpa using WrN.ok, ?_, ?_, ?_, ?_, ?_⟩
    · rw [setSize_other _ _ _ hqr]; simp only [setSize_buf, hNq]; exact Wq.bwf
    · simp only [setSize_buf]; exact WrN.bwf
    · rw [setSize_other _ _ _ hqr, view_setSize, hNq, natAbs_sgn, Wq.alloc]
      congr 1
      have hk : (s.h n).size.natAbs - (s.h d).size.natAbs + 1 -
          (if (Q.getD ((s.h n).size.natAbs - (s.h d).size.natAbs + 1 - 1) 0 == 0) = true then 1 else 0) ≤ Q.length := by
        rw [hQl]; omega
      conv_lhs => rw [← take_take_le ((s2.wr (s2.PTR q) Q).h q).buf.limbs hk]
      rw [Wq.lim]
    · rw [view_setSize, setSize_buf, natAbs_sgn, WrN.alloc, h3r, hr2]
      congr 1
      have hk := Mpz.normalize_length_le R
      conv_lhs => rw [← take_take_le (NR.2.h r).buf.limbs hk]
      rw [WrN.lim, take_normalize_length]
    · intro x hxq hxr
      rw [setSize_other _ _ _ hxr, setSize_other _ _ _ hxq, WrN.frame x hxr, Wq.frame x hxq, hfr2 x hxq, hfr1 x hxr]

end Mpir.AllocSafe
