/- mpz_cdiv_q_2exp / mpz_fdiv_q_2exp on the pointer-level model: the skipped low limbs are inspected before the in-place
   shift; the rounding increment may carry into limb wsize (allocated by `MPZ_REALLOC (w, wsize + 1)`). -/
import MpirProofs.Lemmas.AliasRoot
import MpirProofs.Lemmas.MulLoops
namespace Mpir.AliasMem
open Mpir
open Mpir.DivZ (sizeNat siz sameSign)

theorem Limbs_wrAt {b l : List Nat} {off : Nat} (hb : Limbs b) (hl : Limbs l) : Limbs (wrAt b off l) := by
  unfold wrAt
  exact Limbs_append.mpr ⟨Limbs_append.mpr ⟨Limbs_take hb _, hl⟩, Limbs_drop hb _⟩

/-- the block of `w` ends up as `toLimbs k M` written at its start over anything of the right shape -/
theorem put_wrAt0 {s : St} (h : Inv s) {w : Nat} (hw : w < s.nv) (B1 : List Nat) (hB1 : B1.length = s.alloc w)
    (hB1L : Limbs B1) (k M : Nat) (hk : sizeNat M ≤ k) (hkl : k ≤ B1.length) (neg : Bool) :
    Inv (s.put w (wrAt B1 0 (toLimbs k M)) (if neg then -(sizeNat M : Int) else (sizeNat M : Int))) ∧
    Upd s (s.put w (wrAt B1 0 (toLimbs k M)) (if neg then -(sizeNat M : Int) else (sizeNat M : Int))) w ∧
    (s.put w (wrAt B1 0 (toLimbs k M)) (if neg then -(sizeNat M : Int) else (sizeNat M : Int))).value w =
      (if neg then -(M : Int) else (M : Int)) :=
  put_upd h hw _ M neg (by rw [wrAt_length (by rw [toLimbs_length]; omega)]; exact hB1)
    (Limbs_wrAt hB1L (Limbs_toLimbs _ _)) (by omega)
    (by rw [wrAt_zero]; exact val_take_wr _ hk)

theorem val_take_eq_mod {l : List Nat} (hL : Limbs l) (k : Nat) (hk : k ≤ l.length) : val (l.take k) = val l % B ^ k := by
  have h1 := val_take_drop l k hk
  have h2 := val_lt (l.take k) (Limbs_take hL _)
  have h3 : (l.take k).length = k := by simp; omega
  rw [h3] at h2
  rw [h1, Nat.add_mul_mod_self_left, Nat.mod_eq_of_lt h2]

theorem loadAt_var_low {s : St} (h : Inv s) {i : Nat} (hi : i < s.nv) (k : Nat) (hk : k ≤ (s.size i).natAbs) :
    s.loadAt (s.ptr i) 0 k = .ok ((s.limbs i).take k) := by
  obtain ⟨l, hl, hlen, _⟩ := h.live i hi
  have := h.fits i hi
  rw [loadAt_ok hl (by omega)]
  unfold St.limbs; rw [hl]; simp only [Option.getD_some, List.drop_zero]
  rw [List.take_take, Nat.min_eq_left hk]

theorem pow_le_of_sizeNat {Q : Nat} (hQ : Q ≠ 0) : B ^ (sizeNat Q - 1) ≤ Q := by
  by_contra hc
  have := (DivZ.sizeNat_le_iff Q (sizeNat Q - 1)).mpr (by omega)
  have : sizeNat Q ≠ 0 := fun e => hQ (DivZ.sizeNat_eq_zero.mp e)
  omega

theorem size_succ {Q k : Nat} (h1 : B ^ (k - 1) ≤ Q) (h2 : Q < B ^ k) (hk : 1 ≤ k) :
    sizeNat (Q + 1) = k + (Q + 1) / B ^ k := by
  by_cases hc : Q + 1 = B ^ k
  · rw [hc, Nat.div_self (DivZ.Bpow_pos _)]
    exact sizeNat_eq (by simp) (Nat.pow_lt_pow_right (by rw [B_eq]; decide) (by omega)) (by omega)
  · have hd : (Q + 1) / B ^ k = 0 := Nat.div_eq_of_lt (by omega)
    rw [hd]
    show sizeNat (Q + 1) = k
    exact sizeNat_eq (by omega) (by omega) hk

/-- the closed form of what cfdiv_q_2exp.c computes (value level) -/
def cfq (x : Int) (cnt : Nat) (dir : Int) : Int :=
  let m := x.natAbs
  if sizeNat m ≤ cnt / 64 then (if x = 0 ∨ ¬ ((x < 0) ↔ (dir < 0)) then 0 else dir)
  else
    let q := m / 2 ^ cnt
    let q' := if ((x < 0) ↔ (dir < 0)) ∧ m % 2 ^ cnt ≠ 0 then q + 1 else q
    if 0 ≤ x then (q' : Int) else -(q' : Int)

theorem cfdiv_q_2exp_ok {s : St} (h : Inv s) {w u : Nat} (hw : w < s.nv) (hu : u < s.nv) (cnt : Nat) (dir : Int)
    (hdir : dir = 1 ∨ dir = -1) (ha : 1 ≤ s.alloc w) :
    ∃ s', cfdiv_q_2expV .c w u cnt dir s = .ok s' ∧ Res s s' w (cfq (s.value u) cnt dir) := by
  unfold cfdiv_q_2expV
  simp only [Variant.c, bind, Except.bind, pure, Except.pure, and_true, Bool.not_true, Bool.false_eq_true, and_false, if_false]
  set n := (s.size u).natAbs with hn
  set lc := cnt / 64 with hlc
  have hsn := h.size_natAbs hu
  have hneg := h.size_neg_iff hu
  have hzero := h.size_eq_zero_iff hu
  have hmabs : (s.value u).natAbs = s.mag u := value_natAbs s u
  by_cases hws : ((n : Nat) : Int) - ((lc : Nat) : Int) ≤ 0
  · rw [if_pos hws]
    obtain ⟨b, hb, hbl, hbL⟩ := h.live w hw
    rw [storeAt_ok hb (by simp; omega)]; simp only []
    have hss : sameSign (s.size u) dir ↔ ((s.value u < 0) ↔ (dir < 0)) := by unfold sameSign; rw [hneg]
    have hcf : cfq (s.value u) cnt dir = (if s.size u = 0 ∨ ¬ sameSign (s.size u) dir then 0 else dir) := by
      unfold cfq; simp only [hmabs]
      rw [if_pos (by rw [← hsn, ← hlc]; omega)]
      by_cases hc : s.value u = 0 ∨ ¬ ((s.value u < 0) ↔ (dir < 0))
      · rw [if_pos hc, if_pos (by rw [hzero, hss]; exact hc)]
      · rw [if_neg hc, if_neg (by rw [hzero, hss]; exact hc)]
    rw [hcf]
    have hone : sizeNat 1 = 1 := by decide
    have hfin : ∀ (m : Nat) (neg : Bool), (m = 0 ∨ m = 1) →
        ∃ s', (Except.ok ((s.setBlk (s.ptr w) (some (wrAt b 0 [1]))).setSize w (if neg then -(sizeNat m : Int) else (sizeNat m : Int))) : R St) = .ok s' ∧
          Res s s' w (if neg then -(m : Int) else (m : Int)) := by
      intro m neg hm
      have p := put_upd h hw (wrAt b 0 [1]) m neg (by rw [wrAt_length (by simp; omega)]; exact hbl)
        (Limbs_wrAt hbL (by intro x hx; simp at hx; rw [hx, B_eq]; decide))
        (by rcases hm with e | e <;> rw [e] <;> simp [DivZ.sizeNat_eq_zero.mpr rfl, hone] <;> omega)
        (by rcases hm with e | e
            · rw [e, DivZ.sizeNat_eq_zero.mpr rfl]; simp
            · rw [e, hone, wrAt_zero]; simp)
      exact ⟨_, rfl, p.1, p.2.1.nv, p.2.2, fun i hi hiw => p.2.1.value_o h hw hi hiw⟩
    by_cases hc : s.size u = 0 ∨ ¬ sameSign (s.size u) dir
    · rw [if_pos hc]
      have := hfin 0 false (Or.inl rfl)
      simpa [DivZ.sizeNat_eq_zero.mpr rfl] using this
    · rw [if_neg hc]
      rcases hdir with e | e
      · have := hfin 1 false (Or.inr rfl)
        rw [e]; simpa [hone] using this
      · have := hfin 1 true (Or.inr rfl)
        rw [e]; simpa [hone] using this
  · rw [if_neg hws]
    have hlcn : lc < n := by omega
    have hwsN : (((n : Nat) : Int) - ((lc : Nat) : Int)).toNat = n - lc := by omega
    rw [hwsN]
    obtain ⟨i1, nv1, size1, val1, a1, _⟩ := realloc_spec h hw (n - lc + 1)
    set s1 := s.mpzRealloc w (n - lc + 1) with hs1
    have hw1 : w < s1.nv := by rw [nv1]; exact hw
    have hu1 : u < s1.nv := by rw [nv1]; exact hu
    obtain ⟨b, hb, hbl, hbL⟩ := i1.live w hw1
    have hld := loadAt_var_off i1 hu1 lc (by rw [size1]; omega); rw [size1, ← hn] at hld
    have hlow := loadAt_var_low i1 hu1 lc (by rw [size1]; omega)
    have hLU := (i1.limbs_spec hu1).2
    have hUlen := (i1.limbs_spec hu1).1; rw [size1, ← hn] at hUlen
    have hU2 := i1.mag_lt hu1; rw [size1, ← hn] at hU2
    have hU1 := i1.mag_ge hu1 (by rw [size1]; omega); rw [size1, ← hn] at hU1
    have hmag : s1.mag u = s.mag u := by rw [← value_natAbs, ← value_natAbs, val1 u hu]
    set U := s1.limbs u with hU
    have hvalU : val U = s.mag u := hmag
    set H := val (U.drop lc) with hH
    have hHval : H = s.mag u / B ^ lc := by rw [hH, val_drop hLU lc (by omega), hvalU]
    have hHlen : (U.drop lc).length = n - lc := by simp [hUlen]
    have hH2 : H < B ^ (n - lc) := by
      have := val_lt _ (Limbs_drop hLU lc); rwa [hHlen] at this
    have hH1 : B ^ (n - lc - 1) ≤ H := by
      rw [hHval, Nat.le_div_iff_mul_le (DivZ.Bpow_pos _), ← pow_add, ← hmag]
      have : n - lc - 1 + lc = n - 1 := by omega
      rw [this]; exact hU1
    have hfit : n - lc + 1 ≤ b.length := by omega
    have hss : sameSign (s.size u) dir ↔ ((s.value u < 0) ↔ (dir < 0)) := by unfold sameSign; rw [hneg]
    generalize hrm : decide (sameSign (s.size u) dir) = rmask
    have hrmask : rmask = true ↔ ((s.value u < 0) ↔ (dir < 0)) := by rw [← hrm, decide_eq_true_iff, hss]
    -- the low limbs, inspected before the shift
    rw [hlow]
    have hr0 : (if rmask = true then (Except.ok (decide (val (U.take lc) ≠ 0)) : R Bool) else Except.ok false) =
        Except.ok (rmask && decide (s.mag u % B ^ lc ≠ 0)) := by
      rw [val_take_eq_mod hLU lc (by omega), hvalU]
      cases rmask <;> rfl
    simp only [hr0]
    set round0 := (rmask && decide (s.mag u % B ^ lc ≠ 0)) with hround0
    have hnonneg : (0 ≤ s.value u) ↔ (s.size u ≥ 0) := by omega
    -- the value reached, in the words of `cfq`
    have hcfq : ∀ (rnd : Bool) (q : Nat), q = s.mag u / 2 ^ cnt →
        (rnd = true ↔ (((s.value u < 0) ↔ (dir < 0)) ∧ s.mag u % 2 ^ cnt ≠ 0)) →
        (if decide (s.size u < 0) = true then -((if rnd then q + 1 else q : Nat) : Int) else ((if rnd then q + 1 else q : Nat) : Int))
          = cfq (s.value u) cnt dir := by
      intro rnd q hq hr
      have hnle : ¬ sizeNat (s.mag u) ≤ cnt / 64 := by rw [← hsn, ← hlc]; omega
      unfold cfq; simp only [hmabs]
      rw [if_neg hnle, ← hq]
      by_cases hc : ((s.value u < 0) ↔ (dir < 0)) ∧ s.mag u % 2 ^ cnt ≠ 0
      · have hrt : rnd = true := hr.mpr hc
        subst hrt
        by_cases h0 : s.value u < 0
        · have h1 : s.size u < 0 := hneg.mpr h0
          have h2 : ¬ 0 ≤ s.value u := by omega
          simp [hc, h1, h2]
        · have h1 : ¬ s.size u < 0 := fun e => h0 (hneg.mp e)
          have h2 : 0 ≤ s.value u := by omega
          simp [hc, h1, h2]
      · have hrf : rnd = false := by
          cases rnd
          · rfl
          · exact absurd (hr.mp rfl) hc
        subst hrf
        by_cases h0 : s.value u < 0
        · have h1 : s.size u < 0 := hneg.mpr h0
          have h2 : ¬ 0 ≤ s.value u := by omega
          simp [hc, h1, h2]
        · have h1 : ¬ s.size u < 0 := fun e => h0 (hneg.mp e)
          have h2 : 0 ≤ s.value u := by omega
          simp [hc, h1, h2]
    have hszform : ∀ k : Nat, (if s.size u ≥ 0 then (k : Int) else -(k : Int)) =
        (if decide (s.size u < 0) = true then -(k : Int) else (k : Int)) := fun k => by
      by_cases h0 : s.size u < 0
      · rw [if_neg (by omega), if_pos (by simpa using h0)]
      · rw [if_pos (by omega), if_neg (by simpa using h0)]
    have hresult : ∀ (B1 : List Nat) (k M : Nat), B1.length = s1.alloc w → Limbs B1 → sizeNat M ≤ k → k ≤ B1.length →
        (if decide (s.size u < 0) = true then -(M : Int) else (M : Int)) = cfq (s.value u) cnt dir →
        ∃ s', (Except.ok ((s1.setBlk (s1.ptr w) (some (wrAt B1 0 (toLimbs k M)))).setSize w
            (if s.size u ≥ 0 then ((sizeNat M : Nat) : Int) else -((sizeNat M : Nat) : Int))) : R St) = .ok s' ∧
          Res s s' w (cfq (s.value u) cnt dir) := by
      intro B1 k M h1 h2 h3 h4 h5
      have p := put_wrAt0 i1 hw1 B1 h1 h2 k M h3 h4 (decide (s.size u < 0))
      rw [hszform]
      exact ⟨_, rfl, p.1, p.2.1.nv.trans nv1, p.2.2.trans h5, fun i hi hiw =>
        (p.2.1.value_o i1 hw1 (by rw [nv1]; exact hi) hiw).trans (val1 i hi)⟩
    by_cases hc : cnt % 64 = 0
    · rw [if_neg (by simpa using hc)]
      have hcopy : mpn_copy true (s1.ptr w) 0 (s1.ptr u) lc (n - lc) s1 =
          .ok (s1.setBlk (s1.ptr w) (some (wrAt b 0 (U.drop lc)))) := by
        unfold mpn_copy
        simp only [Nat.not_lt_zero, false_and, and_false, if_false, bind, Except.bind, Bool.not_true,
          Bool.false_eq_true, hld]
        exact storeAt_ok hb (by rw [hHlen]; omega)
      rw [hcopy]; simp only [Bool.or_false]
      have h2cnt : 2 ^ cnt = B ^ lc := by rw [← DivZ.pow_split cnt, hc, pow_zero, Nat.mul_one]
      have hround : round0 = true ↔ (((s.value u < 0) ↔ (dir < 0)) ∧ s.mag u % 2 ^ cnt ≠ 0) := by
        rw [hround0, Bool.and_eq_true, hrmask, decide_eq_true_iff, h2cnt]
      have hUd : wrAt b 0 (U.drop lc) = wrAt b 0 (toLimbs (n - lc) H) := by
        congr 1
        have := MulLoops.eq_toLimbs (U.drop lc) (Limbs_drop hLU lc)
        rw [hHlen] at this; exact this
      by_cases hr : round0 = true
      swap
      · have hr' : round0 = false := by simpa using hr
        simp only [hr', Bool.false_eq_true, if_false]
        rw [hUd]
        have hsz : sizeNat H = n - lc := sizeNat_eq hH1 hH2 (by omega)
        have := hresult b (n - lc) H hbl hbL (by omega) (by omega)
          (by have := hcfq false H (by rw [hHval, h2cnt]) ⟨(fun e => by cases e), (fun hx => absurd (hround.mpr hx) hr)⟩; simpa using this)
        rw [hsz] at this; exact this
      · simp only [hr, if_true]
        rw [if_pos (by omega)]
        have hload : (s1.setBlk (s1.ptr w) (some (wrAt b 0 (U.drop lc)))).load (s1.ptr w) (n - lc) = .ok (U.drop lc) := by
          unfold St.load; rw [setBlk_blk_self]; simp only []
          rw [if_pos (by rw [wrAt_length (by rw [hHlen]; omega)]; omega), wrAt_zero,
            List.take_append_of_le_length (by rw [hHlen]), List.take_of_length_le (by rw [hHlen])]
        rw [hload]; simp only []
        rw [storeAt_ok (setBlk_blk_self _ _ _) (by rw [toLimbs_length, wrAt_length (by rw [hHlen]; omega)]; omega), setBlk_setBlk]
        simp only []
        have hsz : sizeNat (H + 1) = n - lc + (H + 1) / B ^ (n - lc) := size_succ hH1 hH2 (by omega)
        have := hresult (wrAt b 0 (U.drop lc)) (n - lc + 1) (H + 1)
          (by rw [wrAt_length (by rw [hHlen]; omega)]; exact hbl) (Limbs_wrAt hbL (Limbs_drop hLU lc))
          (by rw [hsz]; have : (H + 1) / B ^ (n - lc) ≤ 1 := by
                rw [Nat.div_le_iff_le_mul_add_pred (DivZ.Bpow_pos _)]; omega
              omega)
          (by rw [wrAt_length (by rw [hHlen]; omega)]; omega)
          (by have := hcfq true H (by rw [hHval, h2cnt]) ⟨fun _ => hround.mp hr, fun _ => rfl⟩; simpa using this)
        rw [hsz] at this; exact this
    · rw [if_pos (by simpa using hc)]
      set c := cnt % 64 with hcdef
      have hc64 : c < 64 := Nat.mod_lt _ (by decide)
      have h2c : 2 ^ c < B := by
        show 2 ^ c < 2 ^ 64
        exact Nat.pow_lt_pow_right (by decide) hc64
      set Q := H / 2 ^ c with hQ
      have hrsh : mpn_rshift (s1.ptr w) 0 (s1.ptr u) lc (n - lc) c s1 =
          .ok (H % 2 ^ c * 2 ^ (64 - c), s1.setBlk (s1.ptr w) (some (wrAt b 0 (toLimbs (n - lc) Q)))) := by
        unfold mpn_rshift
        have ha' : ¬ ¬ (1 ≤ n - lc ∧ 1 ≤ c ∧ c < 64) :=
          fun hx => hx ⟨by omega, Nat.one_le_iff_ne_zero.mpr hc, hc64⟩
        simp only [ha', if_false, bind, Except.bind, Nat.not_lt_zero, false_and, and_false, hld, pure, Except.pure]
        rw [storeAt_ok hb (by rw [toLimbs_length]; omega)]
      rw [hrsh]; simp only []
      obtain ⟨hQlt, hQsz⟩ := quot_size (N := H) (D := 2 ^ c) (nl := n - lc) (dl := 1) hH1 hH2
        (by simp; exact Nat.one_le_two_pow) (by simpa using h2c) (Nat.le_refl 1) (by omega)
      have e1 : n - lc - 1 + 1 = n - lc := by omega
      rw [e1] at hQlt hQsz
      rw [limbAt_of_blk (setBlk_blk_self _ _ _) (by rw [wrAt_length (by rw [toLimbs_length]; omega)]; omega)]
      simp only []
      rw [wrAt_zero, getD_append_left (by rw [toLimbs_length]; omega), toLimbs_getD _ _ _ (by omega), hQsz, ← wrAt_zero]
      have hQsz' : sizeNat Q ≤ n - lc := (DivZ.sizeNat_le_iff _ _).mpr hQlt
      have hq : Q = s.mag u / 2 ^ cnt := by rw [hQ, hHval, DivZ.div_split]
      set round1 := (rmask && decide (H % 2 ^ c * 2 ^ (64 - c) ≠ 0)) with hround1
      have hround : (round0 || round1) = true ↔ (((s.value u < 0) ↔ (dir < 0)) ∧ s.mag u % 2 ^ cnt ≠ 0) := by
        rw [hround0, hround1, ← Bool.and_or_distrib_left, Bool.and_eq_true, hrmask, Bool.or_eq_true,
          decide_eq_true_iff, decide_eq_true_iff, ← DivZ.low_bits_ne_zero_iff, ← hHval]
        have hp : 0 < 2 ^ (64 - c) := Nat.pow_pos (by decide)
        have : H % 2 ^ c * 2 ^ (64 - c) ≠ 0 ↔ H % 2 ^ c ≠ 0 := by
          constructor
          · intro h1 h2; rw [h2] at h1; simp at h1
          · intro h1 h2
            rcases Nat.mul_eq_zero.mp h2 with h3 | h3
            · exact h1 h3
            · omega
        rw [this]
      set B1 := wrAt b 0 (toLimbs (n - lc) Q) with hB1
      have hB1len : B1.length = s1.alloc w := by rw [hB1, wrAt_length (by rw [toLimbs_length]; omega)]; exact hbl
      have hB1L : Limbs B1 := Limbs_wrAt hbL (Limbs_toLimbs _ _)
      by_cases hr : (round0 || round1) = true
      swap
      · have hr' : (round0 || round1) = false := by simpa using hr
        simp only [hr', Bool.false_eq_true, if_false]
        exact hresult b (n - lc) Q hbl hbL hQsz' (by omega)
          (by have := hcfq false Q hq ⟨(fun e => by cases e), (fun hx => absurd (hround.mpr hx) hr)⟩; simpa using this)
      · simp only [hr, if_true]
        have hcf1 := hcfq true Q hq ⟨fun _ => hround.mp hr, fun _ => rfl⟩
        simp only [if_true] at hcf1
        by_cases hQ0 : sizeNat Q = 0
        · rw [if_neg (not_not.mpr hQ0)]
          have hQz : Q = 0 := DivZ.sizeNat_eq_zero.mp hQ0
          rw [storeAt_ok (setBlk_blk_self _ _ _) (by rw [hB1len]; simp; omega), setBlk_setBlk]
          simp only []
          have hone : sizeNat 1 = 1 := by decide
          have := hresult B1 1 1 hB1len hB1L (by rw [hone]) (by rw [hB1len]; omega)
            (by rw [hQz] at hcf1; simpa using hcf1)
          rw [hone] at this
          have ht : toLimbs 1 1 = [1] := by decide
          rw [ht] at this
          simpa using this
        · rw [if_pos hQ0]
          have hload : (s1.setBlk (s1.ptr w) (some B1)).load (s1.ptr w) (sizeNat Q) = .ok (toLimbs (sizeNat Q) Q) := by
            unfold St.load; rw [setBlk_blk_self]; simp only []
            rw [if_pos (by rw [hB1len]; omega), hB1, wrAt_zero,
              List.take_append_of_le_length (by rw [toLimbs_length]; exact hQsz'), toLimbs_take _ _ _ hQsz']
          rw [hload]; simp only []
          rw [val_toLimbs_lt (DivZ.lt_B_pow_sizeNat Q)]
          rw [storeAt_ok (setBlk_blk_self _ _ _) (by rw [toLimbs_length, hB1len]; omega), setBlk_setBlk]
          simp only []
          have hQne : Q ≠ 0 := fun e => hQ0 (DivZ.sizeNat_eq_zero.mpr e)
          have hsz : sizeNat (Q + 1) = sizeNat Q + (Q + 1) / B ^ sizeNat Q :=
            size_succ (pow_le_of_sizeNat hQne) (DivZ.lt_B_pow_sizeNat Q) (by omega)
          have hdle : (Q + 1) / B ^ sizeNat Q ≤ 1 := by
            rw [Nat.div_le_iff_le_mul_add_pred (DivZ.Bpow_pos _)]
            have := DivZ.lt_B_pow_sizeNat Q; omega
          have := hresult B1 (sizeNat Q + 1) (Q + 1) hB1len hB1L (by rw [hsz]; omega) (by rw [hB1len]; omega) hcf1
          rw [hsz] at this; exact this

theorem cfq_spec (x : Int) (cnt : Nat) (dir : Int) (hdir : dir = 1 ∨ dir = -1) :
    cfq x cnt dir = DivZ.specQ dir x ((2 ^ cnt : Nat) : Int) := by
  have hpos : (2 ^ cnt : Nat) ≠ 0 := (Nat.pow_pos (by decide)).ne'
  rw [(DivZ.spec_ui dir (by rcases hdir with e | e <;> simp [e]) x (2 ^ cnt) hpos).1]
  unfold cfq DivZ.uiAdjust
  have hsz : siz x < 0 ↔ x < 0 := DivZ.siz_neg_iff
  by_cases hle : sizeNat x.natAbs ≤ cnt / 64
  · have hlt : x.natAbs < 2 ^ cnt := DivZ.lt_two_pow_of_size hle
    simp only [hle, if_true, Nat.div_eq_of_lt hlt, Nat.mod_eq_of_lt hlt]
    rcases hdir with e | e <;> subst e <;> by_cases hx : x < 0 <;> by_cases hx0 : x = 0 <;>
      simp [hx, hx0, hsz] <;> omega
  · simp only [hle, if_false]
    rcases hdir with e | e <;> subst e <;> by_cases hx : x < 0 <;>
      by_cases hm : x.natAbs % 2 ^ cnt = 0 <;> simp [hx, hm, hsz] <;> omega

end Mpir.AliasMem
