/-
  Helper lemmas for the scanf side of C18: the field reader `gmpscan` of scanf/doscan.c (model
  Mpir/Model/Scanf.lean) in closed form, the value of digit strings, and the shape of printed text.
-/
import MpirProofs.Lemmas.Printf
namespace Mpir.Scanf
open Mpir.Printf

/-! ### characters and digit values -/

/-- value of a digit string in base `b` (what mpz_set_str computes) -/
def strVal (b : Nat) (s : List Char) : Nat := s.foldl (fun a c => a * b + digitValue c) 0

theorem strVal_append (b : Nat) (s t : List Char) :
    strVal b (s ++ t) = t.foldl (fun a c => a * b + digitValue c) (strVal b s) := by
  simp [strVal, List.foldl_append]

theorem strVal_snoc (b : Nat) (s : List Char) (c : Char) : strVal b (s ++ [c]) = strVal b s * b + digitValue c := by
  simp [strVal, List.foldl_append]

theorem strVal_zeros (b k : Nat) (s : List Char) : strVal b (List.replicate k '0' ++ s) = strVal b s := by
  have h0 : ∀ k, strVal b (List.replicate k '0') = 0 := by
    intro k
    induction k with
    | zero => rfl
    | succ k ih => rw [List.replicate_succ', strVal_snoc, ih]; simp [digitValue]
  rw [strVal_append, h0]; rfl

theorem cle (a b : Char) : (a ≤ b) = (a.toNat ≤ b.toNat) := rfl
theorem lits : '0'.toNat = 48 ∧ '9'.toNat = 57 ∧ 'a'.toNat = 97 ∧ 'f'.toNat = 102 ∧ 'z'.toNat = 122 ∧ 'A'.toNat = 65 ∧
    'F'.toNat = 70 ∧ 'Z'.toNat = 90 ∧ '8'.toNat = 56 := by decide

set_option linter.unusedSimpArgs false in
theorem isDigitIn_lt (b : Nat) (hb : b = 8 ∨ b = 10 ∨ b = 16) (c : Char) (h : isDigitIn b c = true) :
    digitValue c < b := by
  obtain ⟨l0, l9, la, lf, lz, lA, lF, lZ, l8⟩ := lits
  have h8 : (c = '8') = (c.toNat = 56) := by rw [← l8, Char.toNat_inj]
  have h9 : (c = '9') = (c.toNat = 57) := by rw [← l9, Char.toNat_inj]
  rcases hb with hb | hb | hb <;> subst hb <;>
    simp only [isDigitIn, digitValue, cle, h8, h9, l0, l9, la, lf, lz, lA, lF, lZ, Bool.and_eq_true, Bool.or_eq_true,
      decide_eq_true_eq, Bool.not_eq_true', decide_eq_false_iff_not, Nat.reduceEqDiff, if_false, if_true, Bool.false_and,
      Bool.not_false, Bool.and_true, decide_true, Bool.or_eq_false_iff, decide_eq_false_iff_not, Bool.true_and, not_or] at * <;>
  (split_ifs <;> omega)

/-! ### the field reader in closed form -/

/-- `g` stands at the unread input `rem` (look-ahead character included) under the width `W`:
    either the look-ahead `c` is the head of `rem`, or GET() hit the width and nothing was read. -/
def Rep (W : Nat) (g : GS) (rem : List Char) : Prop :=
  (g.over = false → g.chars ≤ W ∧ g.c = rem.head? ∧ g.rest = rem.tail) ∧
  (g.over = true → g.chars = W + 1 ∧ g.rest = rem)

theorem rep_get (W : Nat) (g : GS) (c : Char) (t : List Char) (h : Rep W g (c :: t)) (ho : g.over = false) :
    Rep W (g.get W) t ∧ (g.get W).chars = g.chars + 1 ∧ (g.get W).s = g.s ∧ (g.get W).base = g.base ∧
    (g.get W).seenDigit = g.seenDigit ∧ ((g.get W).over = true ↔ g.chars = W) := by
  obtain ⟨hc, -, hr⟩ := h.1 ho
  simp only [List.tail_cons] at hr
  unfold GS.get
  by_cases hw : g.chars + 1 > W
  · simp only [hw, if_true, true_and]
    refine ⟨⟨fun h => by simp at h, fun _ => ⟨by show g.chars + 1 = W + 1; omega, hr⟩⟩, by constructor <;> intro <;> first | trivial | omega⟩
  · simp only [hw, if_false]
    rw [hr]
    cases t with
    | nil => simp [Rep, ho]; omega
    | cons x xs => simp [Rep, ho]; omega

theorem digitsLoop_over (W fuel : Nat) (g : GS) (h : g.over = true) : digitsLoop W fuel g = g := by
  cases fuel <;> simp [digitsLoop, h]

theorem digitsLoop_spec (W : Nat) : ∀ (fuel : Nat) (g : GS) (rem : List Char), Rep W g rem → g.over = false →
    rem.length + 1 ≤ fuel →
    Rep W (digitsLoop W fuel g) (rem.drop ((rem.take (W + 1 - g.chars)).takeWhile (isDigitIn g.base)).length) ∧
    (digitsLoop W fuel g).s = g.s ++ (rem.take (W + 1 - g.chars)).takeWhile (isDigitIn g.base) ∧
    (digitsLoop W fuel g).chars = g.chars + ((rem.take (W + 1 - g.chars)).takeWhile (isDigitIn g.base)).length ∧
    (digitsLoop W fuel g).base = g.base ∧
    (digitsLoop W fuel g).seenDigit =
      (g.seenDigit || !((rem.take (W + 1 - g.chars)).takeWhile (isDigitIn g.base)).isEmpty) := by
  intro fuel
  induction fuel with
  | zero => intro g rem _ _ h; omega
  | succ fuel ih =>
    intro g rem hrep ho hf
    obtain ⟨hc, hcc, hr⟩ := hrep.1 ho
    cases rem with
    | nil =>
      simp only [List.head?_nil] at hcc
      simp [digitsLoop, ho, hcc, hrep]
    | cons c t =>
      simp only [List.head?_cons] at hcc
      have hW : W + 1 - g.chars = (W - g.chars) + 1 := by omega
      by_cases hd : isDigitIn g.base c = true
      · have hrep0 : Rep W { (g.store c) with seenDigit := true } (c :: t) := hrep
        obtain ⟨r1, r2, r3, r4, r5, r6⟩ := rep_get W { (g.store c) with seenDigit := true } c t hrep0 ho
        have hstep : digitsLoop W (fuel + 1) g = digitsLoop W fuel ({ (g.store c) with seenDigit := true }.get W) := by
          simp [digitsLoop, ho, hcc, hd]
        rw [hstep, hW, List.take_succ_cons, List.takeWhile_cons_of_pos hd]
        by_cases hov : ({ (g.store c) with seenDigit := true }.get W).over = true
        · have hcw : g.chars = W := r6.mp hov
          rw [digitsLoop_over _ _ _ hov]
          have h0 : W - g.chars = 0 := by omega
          simp only [h0, List.take_zero, List.takeWhile_nil, List.length_cons, List.length_nil, List.drop_succ_cons,
            List.drop_zero]
          refine ⟨r1, ?_, ?_, ?_, ?_⟩
          · rw [r3]; rfl
          · rw [r2]; rfl
          · rw [r4]; rfl
          · rw [r5]; simp
        · have hov' : ({ (g.store c) with seenDigit := true }.get W).over = false := by simpa using hov
          have hlen : t.length + 1 ≤ fuel := by simp at hf; omega
          obtain ⟨i1, i2, i3, i4, i5⟩ := ih _ t r1 hov' hlen
          rw [r2, r4] at i1 i2 i3 i5
          have hb : ({ (g.store c) with seenDigit := true } : GS).base = g.base := rfl
          have hch : ({ (g.store c) with seenDigit := true } : GS).chars = g.chars := rfl
          rw [hb, hch] at i1 i2 i3 i5
          have hsub : W + 1 - (g.chars + 1) = W - g.chars := by omega
          rw [hsub] at i1 i2 i3 i5
          refine ⟨by simpa using i1, ?_, ?_, ?_, ?_⟩
          · rw [i2, r3]; simp [GS.store]
          · rw [i3]; simp only [List.length_cons]; omega
          · rw [i4, r4]; rfl
          · rw [i5, r5]; simp
      · have hd' : isDigitIn g.base c = false := by simpa using hd
        have hstep : digitsLoop W (fuel + 1) g = g := by simp [digitsLoop, ho, hcc, hd']
        rw [hstep, hW, List.take_succ_cons, List.takeWhile_cons_of_neg hd]
        simp [hrep]


def signLen : List Char → Nat
  | c :: _ => if c = '-' ∨ c = '+' then 1 else 0
  | [] => 0
def signStore : List Char → List Char
  | c :: _ => if c = '-' then ['-'] else []
  | [] => []

/-- the sign step of `number` (doscan.c:234-244) -/
def signStep (W : Nat) (g : GS) : GS :=
  match g.c with
  | some '-' => (g.store '-').get W
  | some '+' => g.get W
  | _ => g

theorem signStep_spec (W : Nat) (g : GS) (rem : List Char) (hrep : Rep W g rem) (ho : g.over = false) :
    Rep W (signStep W g) (rem.drop (signLen rem)) ∧ (signStep W g).s = g.s ++ signStore rem ∧
    (signStep W g).chars = g.chars + signLen rem ∧ (signStep W g).base = g.base ∧
    (signStep W g).seenDigit = g.seenDigit ∧ ((signStep W g).over = true → signLen rem = 1 ∧ g.chars = W) := by
  obtain ⟨hc, hcc, hr⟩ := hrep.1 ho
  cases rem with
  | nil =>
    simp only [List.head?_nil] at hcc
    simp [signStep, hcc, signLen, signStore, hrep, ho]
  | cons c t =>
    simp only [List.head?_cons] at hcc
    by_cases h1 : c = '-'
    · subst h1
      have hrep0 : Rep W (g.store '-') ('-' :: t) := hrep
      obtain ⟨r1, r2, r3, r4, r5, r6⟩ := rep_get W (g.store '-') '-' t hrep0 ho
      have e : signStep W g = (g.store '-').get W := by simp [signStep, hcc]
      rw [e]
      refine ⟨by simpa [signLen] using r1, by rw [r3]; simp [GS.store, signStore], by rw [r2]; simp [GS.store, signLen],
        by rw [r4]; rfl, by rw [r5]; rfl, fun h => ⟨by simp [signLen], r6.mp h⟩⟩
    · by_cases h2 : c = '+'
      · subst h2
        obtain ⟨r1, r2, r3, r4, r5, r6⟩ := rep_get W g '+' t hrep ho
        have e : signStep W g = g.get W := by simp [signStep, hcc]
        rw [e]
        refine ⟨by simpa [signLen] using r1, by rw [r3]; simp [signStore], by rw [r2]; simp [signLen],
          r4, r5, fun h => ⟨by simp [signLen], r6.mp h⟩⟩
      · have e : signStep W g = g := by
          unfold signStep
          split
          · rename_i h; rw [hcc] at h; exact absurd (Option.some.inj h) h1
          · rename_i h; rw [hcc] at h; exact absurd (Option.some.inj h) h2
          · rfl
        rw [e]
        simp [signLen, signStore, h1, h2, hrep, ho]

theorem number_eq (W pb : Nat) (g : GS) (hb : g.base ≠ 0) :
    number W pb g =
      if (signStep W { g with seenDigit := false }).over = true then signStep W { g with seenDigit := false }
      else digitsLoop W ((signStep W { g with seenDigit := false }).rest.length + 2) (signStep W { g with seenDigit := false }) := by
  have hb' : (signStep W { g with seenDigit := false }).base ≠ 0 := by
    have gb : ∀ g : GS, (g.get W).base = g.base := by
      intro g; unfold GS.get; split
      · rfl
      · split <;> rfl
    unfold signStep
    split <;> simp [gb, GS.store, hb]
  unfold number
  simp only [signStep] at hb' ⊢
  split <;> simp_all

/-- `number` for a fixed base (doscan.c:233-286 with base ≠ 0): optional sign, then the longest run of digits
    of the base that the width allows. -/
theorem number_fixed (W pb : Nat) (g : GS) (rem : List Char) (hrep : Rep W g rem) (ho : g.over = false)
    (hb : g.base ≠ 0) :
    Rep W (number W pb g)
      (rem.drop (signLen rem + (((rem.drop (signLen rem)).take (W + 1 - g.chars - signLen rem)).takeWhile (isDigitIn g.base)).length)) ∧
    (number W pb g).s = g.s ++ signStore rem ++ ((rem.drop (signLen rem)).take (W + 1 - g.chars - signLen rem)).takeWhile (isDigitIn g.base) ∧
    (number W pb g).chars = g.chars + signLen rem +
      (((rem.drop (signLen rem)).take (W + 1 - g.chars - signLen rem)).takeWhile (isDigitIn g.base)).length ∧
    (number W pb g).base = g.base ∧
    (number W pb g).seenDigit = !(((rem.drop (signLen rem)).take (W + 1 - g.chars - signLen rem)).takeWhile (isDigitIn g.base)).isEmpty := by
  rw [number_eq W pb g hb]
  have hrep0 : Rep W { g with seenDigit := false } rem := hrep
  obtain ⟨s1, s2, s3, s4, s5, s6⟩ := signStep_spec W { g with seenDigit := false } rem hrep0 ho
  by_cases hov : (signStep W { g with seenDigit := false }).over = true
  · obtain ⟨k1, kW⟩ := s6 hov
    have kW' : g.chars = W := kW
    have h0 : W + 1 - g.chars - signLen rem = 0 := by omega
    simp only [hov, if_true, h0, List.take_zero, List.takeWhile_nil, List.length_nil, Nat.add_zero, List.append_nil,
      List.isEmpty_nil, Bool.not_true]
    exact ⟨s1, s2, s3, s4, s5⟩
  · have hov' : (signStep W { g with seenDigit := false }).over = false := by simpa using hov
    simp only [hov', Bool.false_eq_true, if_false]
    have hfuel : (rem.drop (signLen rem)).length + 1 ≤ (signStep W { g with seenDigit := false }).rest.length + 2 := by
      obtain ⟨-, -, hr⟩ := s1.1 hov'
      rw [hr]; simp; omega
    obtain ⟨d1, d2, d3, d4, d5⟩ := digitsLoop_spec W _ _ _ s1 hov' hfuel
    rw [s3, s4] at d1 d2 d3 d5
    have e1 : ({ g with seenDigit := false } : GS).chars = g.chars := rfl
    have e2 : ({ g with seenDigit := false } : GS).base = g.base := rfl
    have e3 : W + 1 - (g.chars + signLen rem) = W + 1 - g.chars - signLen rem := by omega
    rw [e1, e2, e3] at d1 d2 d3 d5
    refine ⟨by simpa [List.drop_drop, Nat.add_comm] using d1, by rw [d2, s2], by rw [d3], by rw [d4, s4],
      by rw [d5, s5]; rfl⟩


theorem rep_rest (W : Nat) (g : GS) (rem : List Char) (h : Rep W g rem) :
    (g.chars ≠ W + 1 → g.c = rem.head? ∧ g.rest = rem.tail) ∧ (g.chars = W + 1 → g.rest = rem) := by
  cases ho : g.over with
  | false =>
    obtain ⟨hc, hcc, hr⟩ := h.1 ho
    exact ⟨fun _ => ⟨hcc, hr⟩, fun h => by omega⟩
  | true =>
    obtain ⟨hc, hr⟩ := h.2 ho
    exact ⟨fun h => absurd hc h, fun _ => hr⟩

def scanWidth (p : ScanParams) : Nat := if p.width = 0 then 2147483646 else p.width

theorem scanWidth_pos (p : ScanParams) : 1 ≤ scanWidth p := by unfold scanWidth; split <;> omega

/-- `gmpscan` for type Z with a fixed base (d u o x X), every width, every input: in closed form. -/
theorem gmpscan_Z_fixed (p : ScanParams) (hty : p.type = 'Z') (hb : p.base ≠ 0) (inp : List Char) (hne : inp ≠ []) :
    gmpscan p inp =
      { ret := if (((inp.drop (signLen inp)).take (scanWidth p - signLen inp)).takeWhile (isDigitIn p.base)).isEmpty then -1
               else ((signLen inp + (((inp.drop (signLen inp)).take (scanWidth p - signLen inp)).takeWhile (isDigitIn p.base)).length : Nat) : Int),
        rest := inp.drop (signLen inp + (((inp.drop (signLen inp)).take (scanWidth p - signLen inp)).takeWhile (isDigitIn p.base)).length),
        val := if (((inp.drop (signLen inp)).take (scanWidth p - signLen inp)).takeWhile (isDigitIn p.base)).isEmpty ∨ p.ignore = true then .none
               else (setStr (signStore inp ++ ((inp.drop (signLen inp)).take (scanWidth p - signLen inp)).takeWhile (isDigitIn p.base)) p.base).elim
                 .none .z } := by
  cases inp with
  | nil => exact absurd rfl hne
  | cons c0 rest0 =>
    have hW := scanWidth_pos p
    have hrep : Rep (scanWidth p) { chars := 1, c := some c0, rest := rest0, base := p.base } (c0 :: rest0) :=
      ⟨fun _ => ⟨hW, rfl, rfl⟩, fun h => by simp at h⟩
    obtain ⟨n1, n2, n3, n4, n5⟩ := number_fixed (scanWidth p) p.base _ _ hrep rfl hb
    have hq : ¬ (p.type = 'Q') := by rw [hty]; decide
    have hrest := rep_rest _ _ _ n1
    simp only [show scanWidth p + 1 - 1 = scanWidth p by omega] at n1 n2 n3 n5 hrest
    generalize hds : ((List.drop (signLen (c0 :: rest0)) (c0 :: rest0)).take (scanWidth p - signLen (c0 :: rest0))).takeWhile
      (isDigitIn p.base) = ds at *
    simp only [gmpscan]
    simp only [hq, false_and, and_false, if_false, Bool.false_or]
    change (GResult.mk _ _ _) = _
    have hW' : (if p.width = 0 then 2147483646 else p.width) = scanWidth p := rfl
    simp only [hW'] at *
    generalize hg : number (scanWidth p) p.base { chars := 1, c := some c0, rest := rest0, base := p.base } = g at *
    rw [n5, n2, n3]
    rw [n3] at hrest
    simp only [GResult.mk.injEq]
    refine ⟨?_, ?_, ?_⟩
    · cases hde : ds.isEmpty with
      | true => simp
      | false => simp; omega
    · generalize List.drop (signLen (c0 :: rest0) + ds.length) (c0 :: rest0) = rem at hrest
      by_cases hc : 1 + signLen (c0 :: rest0) + ds.length = scanWidth p + 1
      · simp [hc, hrest.2 hc]
      · obtain ⟨h1, h2⟩ := hrest.1 hc
        simp only [ne_eq, hc, not_false_eq_true, if_true]
        cases rem with
        | nil => simp at h1 h2; simp [h1, h2]
        | cons c t => simp at h1 h2; simp [h1, h2]
    · cases hde : ds.isEmpty with
      | true => simp
      | false =>
        simp only [Bool.not_false, Bool.not_true, Bool.false_eq_true, false_or, List.nil_append]
        by_cases hi : p.ignore = true
        · simp [hi]
        · simp only [hi]
          cases setStr (signStore (c0 :: rest0) ++ ds) p.base <;> simp


/-! ### values: what mpz_set_str makes of the stored string, and the digits mpz_get_str writes -/

theorem isDigitIn_minus (b : Nat) : isDigitIn b '-' = false := by
  unfold isDigitIn; split
  · decide
  · have : decide ('0' ≤ '-') = false := by decide
    simp

theorem setStr_digits (b : Nat) (hb : b = 8 ∨ b = 10 ∨ b = 16) (neg : Bool) (ds : List Char) (hne : ds ≠ [])
    (hall : ∀ c ∈ ds, isDigitIn b c = true) :
    setStr ((if neg then ['-'] else []) ++ ds) b = some (if neg then -(strVal b ds : Int) else (strVal b ds : Int)) := by
  have hb0 : ¬ b = 0 := by omega
  cases ds with
  | nil => exact absurd rfl hne
  | cons a t =>
    have ha : a ≠ '-' := by
      intro h; have := hall a List.mem_cons_self; rw [h, isDigitIn_minus] at this; cases this
    have hda : ¬ digitValue a ≥ b := by
      have := isDigitIn_lt b hb a (hall a List.mem_cons_self); omega
    have hallb : (a :: t).all (fun c => decide (digitValue c < b)) = true := by
      simp only [List.all_eq_true, decide_eq_true_eq]
      exact fun c hc => isDigitIn_lt b hb c (hall c hc)
    cases neg with
    | true =>
      simp only [if_true, setStr, List.cons_append, List.nil_append, List.head?_cons, decide_true, List.tail_cons,
        hb0, if_false, hda, hallb, strVal]
    | false =>
      simp only [Bool.false_eq_true, if_false, setStr, List.nil_append, List.head?_cons, Option.some.injEq, ha,
        decide_false, hb0, hda, hallb, if_true, strVal]

theorem natDigits_props (b : Nat) (u : Bool) (hb : 2 ≤ b)
    (hd : ∀ d, d < b → digitValue (digitChar u d) = d ∧ isDigitIn b (digitChar u d) = true) :
    ∀ n : Nat, strVal b (natDigits b u n) = n ∧ (∀ c ∈ natDigits b u n, isDigitIn b c = true) := by
  intro n
  induction n using Nat.strong_induction_on with
  | _ n ih =>
    rw [natDigits]
    split
    · rename_i h
      have hn : n < b := by rcases h with h | h <;> omega
      obtain ⟨h1, h2⟩ := hd n hn
      refine ⟨by simp [strVal, h1], ?_⟩
      intro c hc; simp only [List.mem_singleton] at hc; rw [hc]; exact h2
    · rename_i h
      have hn : ¬ n < b := fun h' => h (Or.inl h')
      obtain ⟨ih1, ih2⟩ := ih (n / b) (Nat.div_lt_self (by omega) (by omega))
      have hm : n % b < b := Nat.mod_lt _ (by omega)
      obtain ⟨h1, h2⟩ := hd _ hm
      refine ⟨?_, ?_⟩
      · rw [strVal_snoc, ih1, h1]; exact Nat.div_add_mod' n b
      · intro c hc
        rcases List.mem_append.mp hc with h | h
        · exact ih2 c h
        · simp only [List.mem_singleton] at h; rw [h]; exact h2

/-- the (base, upper-case) pairs the integer conversions use -/
def ConvBase (b : Nat) (u : Bool) : Prop := (b = 8 ∧ u = false) ∨ (b = 10 ∧ u = false) ∨ (b = 16)

theorem digitChar_props (b : Nat) (u : Bool) (h : ConvBase b u) :
    ∀ d, d < b → digitValue (digitChar u d) = d ∧ isDigitIn b (digitChar u d) = true := by
  intro d hd
  rcases h with ⟨hb, hu⟩ | ⟨hb, hu⟩ | hb
  · subst hb hu; interval_cases d <;> decide
  · subst hb hu; interval_cases d <;> decide
  · subst hb; cases u <;> interval_cases d <;> decide

theorem ConvBase_base (b : Nat) (u : Bool) (h : ConvBase b u) : b = 8 ∨ b = 10 ∨ b = 16 := by
  rcases h with ⟨hb, _⟩ | ⟨hb, _⟩ | hb <;> simp [hb]

theorem conv_ConvBase (conv : Conv) : ConvBase conv.base conv.upper := by
  cases conv <;> simp [ConvBase, Conv.base, Conv.upper]


/-! ### white space, longest runs -/

theorem skipWhite_spaces (a : Nat) (x : List Char) (hx : ∀ c, x.head? = some c → isSpace c = false) :
    skipWhite (List.replicate a ' ' ++ x) = (a, x) := by
  induction a with
  | zero =>
    cases x with
    | nil => rfl
    | cons c t => simp [skipWhite, hx c rfl]
  | succ a ih =>
    have : isSpace ' ' = true := by decide
    simp [List.replicate_succ, skipWhite, this, ih]

theorem takeWhile_stop (p : Char → Bool) (A B : List Char) (hA : ∀ c ∈ A, p c = true)
    (hB : ∀ c, B.head? = some c → p c = false) : (A ++ B).takeWhile p = A := by
  rw [List.takeWhile_append_of_pos hA]
  cases B with
  | nil => simp
  | cons c t => simp [hB c rfl]

/-! ### the shape of printed text -/

/-- the digits printed: none for the value 0 with precision 0 -/
def printedDigits (prec : Option Nat) (base : Nat) (upper : Bool) (mag : Nat) : List Char :=
  if mag = 0 ∧ prec.getD 1 = 0 then [] else natDigits base upper mag
def printedPrefix (f : Flags) (base : Nat) (upper : Bool) (mag : Nat) : List Char :=
  if f.hash ∧ base = 16 ∧ mag ≠ 0 then (if upper then ['0', 'X'] else ['0', 'x']) else []
/-- the sign character that is not white space -/
def printedSign (f : Flags) (neg : Bool) : List Char := if neg then ['-'] else if f.plus then ['+'] else []

/-- Every C99 integer layout is: blanks, sign, base prefix, zeros, digits, blanks (only with `-`). -/
theorem layoutFrom_shape (f : Flags) (width : Nat) (prec : Option Nat) (base : Nat) (upper : Bool) (neg : Bool) (mag : Nat)
    (ds0 : List Char) :
    ∃ a k t, layoutFrom f width prec base upper (signChars f neg) mag ds0 =
      List.replicate a ' ' ++ (printedSign f neg ++ (printedPrefix f base upper mag ++
        (List.replicate k '0' ++ (ds0 ++ List.replicate t ' ')))) ∧
      (f.minus = false → t = 0) ∧
      (f.hash = true ∧ base = 8 → 1 ≤ k ∨ ds0.head? = some '0') ∧
      (prec.getD 1 ≤ ds0.length → (f.zero = false ∨ f.minus = true ∨ prec.isSome = true) →
        ¬ (f.hash = true ∧ base = 8) → k = 0) := by
  unfold layoutFrom printedPrefix
  simp only
  generalize (if f.hash = true ∧ base = 16 ∧ mag ≠ 0 then (if upper = true then ['0', 'X'] else ['0', 'x']) else []) = pre
  -- the sign: at most one blank, then the printed sign
  obtain ⟨s, hs⟩ : ∃ s, signChars f neg = List.replicate s ' ' ++ printedSign f neg := by
    unfold signChars printedSign
    by_cases h1 : neg = true
    · exact ⟨0, by simp [h1]⟩
    · by_cases h2 : f.plus = true
      · exact ⟨0, by simp [h1, h2]⟩
      · by_cases h3 : f.space = true
        · exact ⟨1, by simp [h1, h2, h3]⟩
        · exact ⟨0, by simp [h1, h2, h3]⟩
  rw [hs]
  generalize printedSign f neg = sg
  -- the digits with their zeros
  obtain ⟨k1, hk1, hk1a, hk1b⟩ : ∃ k1, (if f.hash = true ∧ base = 8 ∧ (List.replicate (prec.getD 1 - ds0.length) '0' ++ ds0).head? ≠ some '0'
      then '0' :: (List.replicate (prec.getD 1 - ds0.length) '0' ++ ds0) else List.replicate (prec.getD 1 - ds0.length) '0' ++ ds0) =
      List.replicate k1 '0' ++ ds0 ∧ (f.hash = true ∧ base = 8 → 1 ≤ k1 ∨ ds0.head? = some '0') ∧
      (prec.getD 1 ≤ ds0.length → ¬ (f.hash = true ∧ base = 8) → k1 = 0) := by
    by_cases h : f.hash = true ∧ base = 8 ∧ (List.replicate (prec.getD 1 - ds0.length) '0' ++ ds0).head? ≠ some '0'
    · refine ⟨prec.getD 1 - ds0.length + 1, ?_, fun _ => Or.inl (by omega), fun _ h' => absurd ⟨h.1, h.2.1⟩ h'⟩
      rw [if_pos h, List.replicate_succ]; rfl
    · refine ⟨prec.getD 1 - ds0.length, by rw [if_neg h], ?_, fun h' _ => by omega⟩
      intro hh
      have h3 : (List.replicate (prec.getD 1 - ds0.length) '0' ++ ds0).head? = some '0' := by
        by_contra h3; exact h ⟨hh.1, hh.2, h3⟩
      cases hk : prec.getD 1 - ds0.length with
      | zero => rw [hk] at h3; right; simpa using h3
      | succ n => left; omega
  rw [hk1]
  generalize width - ((List.replicate s ' ' ++ sg).length + pre.length + (List.replicate k1 '0' ++ ds0).length) = pad
  have rr : ∀ (c : Char) (m n : Nat) (l : List Char),
      List.replicate m c ++ (List.replicate n c ++ l) = List.replicate (m + n) c ++ l := by
    intros; rw [← List.append_assoc, List.replicate_append_replicate]
  by_cases hm : f.minus = true
  · refine ⟨s, k1, pad, ?_, fun h => (by rw [hm] at h; cases h), hk1a, fun h1 _ h3 => hk1b h1 h3⟩
    simp [hm, List.append_assoc]
  · have hm' : f.minus = false := by simpa using hm
    by_cases hz : f.zero = true ∧ prec.isNone = true
    · refine ⟨s, pad + k1, 0, ?_, fun _ => rfl, fun h => ?_, fun h1 h2 _ => ?_⟩
      · simp [hm', hz, List.append_assoc, rr]
      · rcases hk1a h with h | h
        · left; omega
        · right; exact h
      · exfalso
        rcases h2 with h2 | h2 | h2
        · rw [hz.1] at h2; cases h2
        · rw [hm'] at h2; cases h2
        · have := hz.2; cases prec <;> simp_all
    · refine ⟨pad + s, k1, 0, ?_, fun _ => rfl, hk1a, fun h1 _ h3 => hk1b h1 h3⟩
      simp only [hm', Bool.false_eq_true, if_false, if_neg hz]
      simp [List.append_assoc, rr]

theorem layoutCore_shape (f : Flags) (width : Nat) (prec : Option Nat) (base : Nat) (upper : Bool) (neg : Bool) (mag : Nat) :
    ∃ a k t, layoutCore f width prec base upper (signChars f neg) mag =
      List.replicate a ' ' ++ (printedSign f neg ++ (printedPrefix f base upper mag ++
        (List.replicate k '0' ++ (printedDigits prec base upper mag ++ List.replicate t ' ')))) ∧
      (f.minus = false → t = 0) ∧
      (f.hash = true ∧ base = 8 → 1 ≤ k ∨ (printedDigits prec base upper mag).head? = some '0') ∧
      (prec.getD 1 ≤ (printedDigits prec base upper mag).length → (f.zero = false ∨ f.minus = true ∨ prec.isSome = true) →
        ¬ (f.hash = true ∧ base = 8) → k = 0) :=
  layoutFrom_shape f width prec base upper neg mag _


/-! ### `__gmp_doscan` on the formats of the round trip -/

def valOuts : Scanned → List Out
  | .z v => [.z v]
  | .q n d => [.q n d]
  | .none => []

/-- the scan base of a conversion character (doscan.c:650-700) -/
def ConvChar (c : Char) (b : Nat) : Prop :=
  (c = 'd' ∧ b = 10) ∨ (c = 'u' ∧ b = 10) ∨ (c = 'i' ∧ b = 0) ∨ (c = 'o' ∧ b = 8) ∨ (c = 'x' ∧ b = 16) ∨ (c = 'X' ∧ b = 16)

theorem scanRun_pct (fs : List Char) (st : SS) : scanRun ('%' :: fs) .text st = scanRun fs (.spec {}) st := by
  rw [scanRun]; simp (decide := true)

theorem scanRun_type (T : Char) (hT : T = 'Z' ∨ T = 'Q') (fs : List Char) (sp : SP) (st : SS) (hn : sp.inNum = false) :
    scanRun (T :: fs) (.spec sp) st = scanRun fs (.spec { sp with p := { sp.p with type := T } }) st := by
  rcases hT with hT | hT <;> subst hT <;>
  · rw [scanRun]; simp (decide := true) [hn]

theorem scanRun_conv (c : Char) (b : Nat) (hc : ConvChar c b) (fs : List Char) (sp : SP) (st : SS) (hn : sp.inNum = false)
    (hT : sp.p.type = 'Z' ∨ sp.p.type = 'Q') :
    scanRun (c :: fs) (.spec sp) st =
      (match doNumeric { sp with p := { sp.p with base := b } } st with
       | .inl r => some r
       | .inr st => scanRun fs .text st) := by
  have hm : isMpirType sp.p.type = true := by rcases hT with h | h <;> rw [h] <;> decide
  have hF : ¬ sp.p.type = 'F' := by rcases hT with h | h <;> rw [h] <;> decide
  rcases hc with ⟨h1, h2⟩ | ⟨h1, h2⟩ | ⟨h1, h2⟩ | ⟨h1, h2⟩ | ⟨h1, h2⟩ | ⟨h1, h2⟩ <;> subst h1 h2 <;>
  · rw [scanRun]; simp (decide := true) [hn, hm, hF]; rfl

theorem scanRun_n (st : SS) :
    scanRun ['%', 'n'] .text st = some (finishS { st with outs := st.outs ++ [.int st.chars] }) := by
  rw [scanRun_pct, scanRun]; simp (decide := true) [scanRun]

/-- `gmp_sscanf (inp, "%<T><c>%n", &x, &n)` for T = Z or Q, unfolded once and for all. -/
theorem doscan_Tn (T c : Char) (b : Nat) (hT : T = 'Z' ∨ T = 'Q') (hc : ConvChar c b) (inp : List Char) :
    doscan ['%', T, c, '%', 'n'] inp =
      (if (gmpscan { base := b, type := T } (skipWhite inp).2).ret = -2 then
        some { fields := -1, outs := [], rest := (skipWhite inp).2 }
      else if (gmpscan { base := b, type := T } (skipWhite inp).2).ret = -1 then
        some { fields := 0, outs := [], rest := (gmpscan { base := b, type := T } (skipWhite inp).2).rest }
      else
        some { fields := 1,
               outs := valOuts (gmpscan { base := b, type := T } (skipWhite inp).2).val ++
                 [.int (((skipWhite inp).1 + (gmpscan { base := b, type := T } (skipWhite inp).2).ret.toNat : Nat) : Int)],
               rest := (gmpscan { base := b, type := T } (skipWhite inp).2).rest }) := by
  unfold doscan
  rw [scanRun_pct, scanRun_type T hT _ _ _ rfl, scanRun_conv c b hc _ _ _ rfl (by simpa using hT)]
  simp only [doNumeric]
  generalize hr : gmpscan { base := b, type := T } (skipWhite inp).2 = r
  by_cases e2 : r.ret = -2
  · simp [e2, eofS]
  · by_cases e1 : r.ret = -1
    · simp [e1, finishS]
    · simp only [e2, e1, if_false]
      cases hv : r.val <;> simp [valOuts, scanRun_n, finishS]


/-! ### a printed field read by a fixed-base conversion -/

theorem isDigitIn_range (b : Nat) (c : Char) (h : isDigitIn b c = true) : 48 ≤ c.toNat ∧ c.toNat ≤ 102 := by
  obtain ⟨l0, l9, la, lf, lz, lA, lF, lZ, l8⟩ := lits
  unfold isDigitIn at h
  split at h <;>
    simp only [cle, l0, l9, la, lf, lA, lF, Bool.and_eq_true, Bool.or_eq_true, decide_eq_true_eq] at h <;> omega

theorem digit_not_special (b : Nat) (c : Char) (h : isDigitIn b c = true) :
    c ≠ '-' ∧ c ≠ '+' ∧ c ≠ '/' ∧ c ≠ 'x' ∧ c ≠ 'X' ∧ isSpace c = false := by
  have := isDigitIn_range b c h
  have e : ∀ d : Char, (d.toNat < 48 ∨ 102 < d.toNat) → c ≠ d := by
    intro d hd hcd; rw [hcd] at this; omega
  refine ⟨e _ (by decide), e _ (by decide), e _ (by decide), e _ (by decide), ?_, ?_⟩
  · intro hX
    rw [hX] at h; unfold isDigitIn at h; split at h
    · revert h; decide
    · have : decide ('X' ≤ '9') = false := by decide
      simp at h
  · simp only [isSpace, Bool.or_eq_false_iff, decide_eq_false_iff_not]
    exact ⟨⟨⟨⟨⟨e _ (by decide), e _ (by decide)⟩, e _ (by decide)⟩, e _ (by decide)⟩, e _ (by decide)⟩, e _ (by decide)⟩

/-- sign, digits of the base, then something that is not a digit: the field is read whole -/
theorem gmpscan_Z_field (b : Nat) (hb : b = 8 ∨ b = 10 ∨ b = 16) (sg body tail : List Char)
    (hsg : sg = [] ∨ sg = ['-'] ∨ sg = ['+']) (hbody : body ≠ []) (hall : ∀ c ∈ body, isDigitIn b c = true)
    (htail : ∀ c, tail.head? = some c → isDigitIn b c = false) (hlen : (sg ++ (body ++ tail)).length ≤ 2147483646) :
    gmpscan { base := b, type := 'Z' } (sg ++ (body ++ tail)) =
      { ret := ((sg.length + body.length : Nat) : Int), rest := tail,
        val := .z (if sg = ['-'] then -(strVal b body : Int) else (strVal b body : Int)) } := by
  have hb0 : b ≠ 0 := by omega
  obtain ⟨c0, t0, hc0⟩ : ∃ c0 t0, body = c0 :: t0 := by
    cases body with
    | nil => exact absurd rfl hbody
    | cons c t => exact ⟨c, t, rfl⟩
  have hc0d := digit_not_special b c0 (hall c0 (by rw [hc0]; exact List.mem_cons_self))
  have hne : sg ++ (body ++ tail) ≠ [] := by simp [hbody]
  have hsl : signLen (sg ++ (body ++ tail)) = sg.length := by
    rcases hsg with h | h | h <;> subst h
    · simp [hc0, signLen, hc0d.1, hc0d.2.1]
    · simp [signLen]
    · simp [signLen]
  have hss : signStore (sg ++ (body ++ tail)) = (if (decide (sg = ['-'])) = true then ['-'] else []) := by
    rcases hsg with h | h | h <;> subst h
    · simp [hc0, signStore, hc0d.1]
    · simp [signStore]
    · simp [signStore]
  rw [gmpscan_Z_fixed _ rfl hb0 _ hne]
  have hW : scanWidth { base := b, type := 'Z' } = 2147483646 := rfl
  simp only [hsl, hss, hW, List.drop_left]
  have htk : List.take (2147483646 - sg.length) (body ++ tail) = body ++ tail := by
    apply List.take_of_length_le; simp only [List.length_append] at hlen ⊢; omega
  rw [htk, takeWhile_stop _ body tail hall htail]
  have hemp : body.isEmpty = false := by rw [hc0]; rfl
  simp only [hemp, Bool.false_eq_true, false_or, if_false]
  rw [setStr_digits b hb _ body hbody hall]
  simp only [Option.elim, GResult.mk.injEq, true_and]
  refine ⟨?_, ?_⟩
  · rw [← List.append_assoc, List.drop_left']; simp
  · simp

/-! ### groundwork for `%Zi` / `%Qi` (base detection); not yet used by a property theorem -/

/-- base detection of `number` (doscan.c:246-266) -/
def baseStep (W : Nat) (g : GS) : GS :=
  let g := { g with base := 10 }
  if g.c = some '0' then
    let g := ({ (g.store '0') with seenDigit := true, base := 8 }).get W
    if g.over then g else
    if g.c = some 'x' ∨ g.c = some 'X' then
      match g.c with
      | some c => ({ (g.store c) with base := 16, seenDigit := false }).get W
      | none => g
    else g
  else g

theorem signStep_base (W : Nat) (g : GS) : (signStep W g).base = g.base := by
  have gb : ∀ g : GS, (g.get W).base = g.base := by
    intro g; unfold GS.get; split
    · rfl
    · split <;> rfl
  unfold signStep
  split <;> simp [gb, GS.store]

theorem number_unfold (W pb : Nat) (g : GS) :
    number W pb g =
      if (signStep W { g with seenDigit := false }).over = true then signStep W { g with seenDigit := false }
      else digitsLoop W ((if (signStep W { g with seenDigit := false }).base = 0 then baseStep W (signStep W { g with seenDigit := false })
            else signStep W { g with seenDigit := false }).rest.length + 2)
        (if (signStep W { g with seenDigit := false }).base = 0 then baseStep W (signStep W { g with seenDigit := false })
            else signStep W { g with seenDigit := false }) := by
  rfl


theorem rep_get' (W : Nat) (g : GS) (c : Char) (t : List Char) (h : Rep W g (c :: t)) (ho : g.over = false) (hW : g.chars + 1 ≤ W) :
    Rep W (g.get W) t ∧ (g.get W).chars = g.chars + 1 ∧ (g.get W).s = g.s ∧ (g.get W).base = g.base ∧
    (g.get W).seenDigit = g.seenDigit ∧ (g.get W).over = false := by
  obtain ⟨r1, r2, r3, r4, r5, r6⟩ := rep_get W g c t h ho
  refine ⟨r1, r2, r3, r4, r5, ?_⟩
  cases hov : (g.get W).over with
  | false => rfl
  | true => have := r6.mp hov; omega

theorem baseStep_unfold (W : Nat) (g : GS) (G1 : GS)
    (hG : G1 = ({ ({ g with base := 10 }.store '0') with seenDigit := true, base := 8 } : GS).get W) :
    baseStep W g =
      if g.c = some '0' then
        (if G1.over = true then G1 else
          if G1.c = some 'x' ∨ G1.c = some 'X' then
            (match G1.c with
             | some c => ({ (G1.store c) with base := 16, seenDigit := false } : GS).get W
             | none => G1)
          else G1)
      else { g with base := 10 } := by
  subst hG; rfl

/-- base detection on "0x…" / "0X…" -/
theorem baseStep_hex (W : Nat) (g : GS) (x : Char) (t : List Char) (hx : x = 'x' ∨ x = 'X')
    (hrep : Rep W g ('0' :: x :: t)) (ho : g.over = false) (hW : g.chars + 2 ≤ W) :
    Rep W (baseStep W g) t ∧ (baseStep W g).s = g.s ++ ['0', x] ∧ (baseStep W g).chars = g.chars + 2 ∧
    (baseStep W g).base = 16 ∧ (baseStep W g).seenDigit = false ∧ (baseStep W g).over = false := by
  obtain ⟨-, hcc, -⟩ := hrep.1 ho
  simp only [List.head?_cons] at hcc
  have hrep0 : Rep W { ({ g with base := 10 }.store '0') with seenDigit := true, base := 8 } ('0' :: x :: t) := hrep
  obtain ⟨a1, a2, a3, a4, a5, a6⟩ := rep_get' W _ '0' (x :: t) hrep0 ho (by show g.chars + 1 ≤ W; omega)
  obtain ⟨-, acc, -⟩ := a1.1 a6
  simp only [List.head?_cons] at acc
  have e := baseStep_unfold W g _ rfl
  generalize ({ ({ g with base := 10 }.store '0') with seenDigit := true, base := 8 } : GS).get W = g1 at *
  have hrep1 : Rep W { (g1.store x) with base := 16, seenDigit := false } (x :: t) := a1
  obtain ⟨b1, b2, b3, b4, b5, b6⟩ := rep_get' W _ x t hrep1 a6 (by show g1.chars + 1 ≤ W; rw [a2]; show g.chars + 1 + 1 ≤ W; omega)
  have hxx : (x = 'x' ∨ x = 'X') := hx
  rw [e]
  simp only [hcc, if_true, a6, Bool.false_eq_true, if_false, acc, Option.some.injEq, hxx]
  refine ⟨b1, ?_, ?_, b4, b5, b6⟩
  · rw [b3]; show g1.s ++ [x] = _; rw [a3]; simp [GS.store]
  · rw [b2]; show g1.chars + 1 = _; rw [a2]; rfl

/-- no leading 0: decimal -/
theorem baseStep_dec (W : Nat) (g : GS) (rem : List Char) (h0 : rem.head? ≠ some '0') (hrep : Rep W g rem) (ho : g.over = false) :
    baseStep W g = { g with base := 10 } := by
  obtain ⟨-, hcc, -⟩ := hrep.1 ho
  unfold baseStep
  simp only [hcc, h0, if_false]

end Mpir.Scanf
