/-
  C18, scanf side: a format as a LIST of directives.  `Dir` = one directive of a gmp_sscanf / gmp_fscanf format,
  `render` its text, `stepDir` what `__gmp_doscan` (scanf/doscan.c:466-718) does with it in terms of the field reader
  `gmpscan` and of an ORACLE for the standard conversions handed to the C library (doscan.c:533-585), `runDirs` the
  whole format.  `scanRun_dirs`: the character-level model `scanRun` on the rendered format is `runDirs` with the
  model's own oracle `libcOracle`.
-/
import MpirProofs.Lemmas.ScanfI
namespace Mpir.Scanf
open Mpir.Printf

/-- what the C library does with one standard conversion on the input: the standard's contract is the TYPE — it
    either converts (value unless suppressed, characters consumed, input left), or reports a matching failure, or an
    input failure (C99 7.19.6.2p4, p9, p10, p16) -/
abbrev Oracle := SP → Char → List Char → Option LibcRes

/-- the part of `doLibc` that is the C library -/
def libcOracle : Oracle := fun sp conv inp =>
  if conv = 'd' then some (libcScanInt true 10 sp.p.width inp)
  else if conv = 'u' then some (libcScanInt false 10 sp.p.width inp)
  else if conv = 'i' then some (libcScanInt true 0 sp.p.width inp)
  else if conv = 'o' then some (libcScanInt false 8 sp.p.width inp)
  else if conv = 'x' ∨ conv = 'X' then some (libcScanInt false 16 sp.p.width inp)
  else if conv = 's' then
    let (nw, inp1) := skipWhite inp
    match inp1 with
    | [] => some (.eof [])
    | _ =>
      let (w, rest) := takeWhileN (fun c => !isSpace c) (if sp.p.width = 0 then 1000000 else sp.p.width) inp1
      some (.ok (some (.str w)) (nw + w.length) rest)
  else if conv = 'c' then
    let n := if sp.p.width = 0 then 1 else sp.p.width
    if inp.isEmpty then some (.eof [])
    else some (.ok (some (.str (inp.take n))) (min n inp.length) (inp.drop n))
  else none

/-- doscan.c:533-585 around the C library's answer: count the field unless suppressed -/
def doLibcG (O : Oracle) (sp : SP) (conv : Char) (st : SS) : Option (Sum ScanResult SS) :=
  match O sp conv st.inp with
  | none => none
  | some (.eof rest) => some (.inl (eofS { st with inp := rest }))
  | some (.fail rest) => some (.inl (finishS { st with inp := rest }))
  | some (.ok v chars rest) =>
    let st := { st with inp := rest, chars := st.chars + chars }
    if sp.p.ignore then some (.inr st)
    else match v with
      | some o => some (.inr { st with fields := st.fields + 1, outs := st.outs ++ [o] })
      | none => some (.inr st)

theorem doLibc_eq (sp : SP) (conv : Char) (st : SS) : doLibc sp conv st = doLibcG libcOracle sp conv st := by
  rfl

/-! ### directives -/

inductive Dir where
  | white (c : Char)                                  -- a white-space character of the format
  | lit (c : Char)                                    -- an ordinary character
  | pct                                               -- `%%`
  | count (star : Bool)                               -- `%n`, `%*n`
  | mpir (star : Bool) (wd : List Char) (T c : Char) (b : Nat)    -- `%[*][width]Z<c>`, `%[*][width]Q<c>`
  | libc (star : Bool) (wd : List Char) (c : Char)    -- `%[*][width]<c>`, c one of d u i o x X s c
  deriving Repr

def libcBase (c : Char) : Nat :=
  if c = 'd' ∨ c = 'u' then 10 else if c = 'o' then 8 else if c = 'x' ∨ c = 'X' then 16 else 0

def Dir.WF : Dir → Prop
  | .white c => isSpace c = true
  | .lit c => isSpace c = false ∧ c ≠ '%'
  | .pct => True
  | .count _ => True
  | .mpir _ wd T c b => (T = 'Z' ∨ T = 'Q') ∧ ConvChar c b ∧ ∀ x ∈ wd, isDigit x = true
  | .libc _ wd c => c ∈ ['d', 'u', 'i', 'o', 'x', 'X', 's', 'c'] ∧ ∀ x ∈ wd, isDigit x = true

def starChars (star : Bool) : List Char := if star then ['*'] else []

def Dir.render : Dir → List Char
  | .white c => [c]
  | .lit c => [c]
  | .pct => ['%', '%']
  | .count star => '%' :: (starChars star ++ ['n'])
  | .mpir star wd T c _ => '%' :: (starChars star ++ (wd ++ [T, c]))
  | .libc star wd c => '%' :: (starChars star ++ (wd ++ [c]))

/-- the field width a digit string denotes (doscan.c:702-716) -/
def widthOf (wd : List Char) : Nat := wd.foldl (fun a c => a * 10 + digitVal c) 0

/-- what one directive does -/
inductive Outcome where
  | cont (st : SS) (assigned : Bool)   -- completed; `assigned` = a field was assigned and counted
  | matchFail (st : SS)                -- matching failure: the scan stops
  | inputFail (st : SS)                -- input failure: the scan stops
  | unsupported                        -- outside the modelled subset

def stepDir (O : Oracle) : Dir → SS → Outcome
  | .white _, st =>
    let (nw, inp) := skipWhite st.inp
    .cont { st with inp := inp, chars := st.chars + nw } false
  | .lit c, st =>
    (match st.inp with
     | x :: rest => if x = c then .cont { st with inp := rest, chars := st.chars + 1 } false else .matchFail st
     | [] => .inputFail st)
  | .pct, st =>
    (match st.inp with
     | x :: rest => if x = '%' then .cont { st with inp := rest, chars := st.chars + 1 } false else .matchFail st
     | [] => .inputFail st)
  | .count star, st =>
    if star then .cont st false else .cont { st with outs := st.outs ++ [.int st.chars] } false
  | .mpir star wd T _ b, st =>
    let (nw, inp) := skipWhite st.inp
    let st1 := { st with inp := inp, chars := st.chars + nw }
    let r := gmpscan { base := b, ignore := star, type := T, width := widthOf wd } st1.inp
    if r.ret = -2 then .inputFail st1
    else if r.ret = -1 then .matchFail { st1 with inp := r.rest }
    else
      let st2 := { st1 with inp := r.rest, chars := st1.chars + r.ret.toNat }
      if star then .cont st2 false
      else .cont { st2 with fields := st2.fields + 1, outs := st2.outs ++ valOuts r.val } true
  | .libc star wd c, st =>
    (match O { p := { base := libcBase c, ignore := star, width := widthOf wd } } c st.inp with
     | none => .unsupported
     | some (.eof rest) => .inputFail { st with inp := rest }
     | some (.fail rest) => .matchFail { st with inp := rest }
     | some (.ok v chars rest) =>
       let st2 := { st with inp := rest, chars := st.chars + chars }
       if star then .cont st2 false
       else match v with
         | some o => .cont { st2 with fields := st2.fields + 1, outs := st2.outs ++ [o] } true
         | none => .cont st2 false)

def runDirs (O : Oracle) : List Dir → SS → Option ScanResult
  | [], st => some (finishS st)
  | d :: ds, st =>
    match stepDir O d st with
    | .cont st' _ => runDirs O ds st'
    | .matchFail st' => some (finishS st')
    | .inputFail st' => some (eofS st')
    | .unsupported => none

/-- the count, told without the `fields` variable: (number of assigned fields, stopped by an input failure) -/
def countDirs (O : Oracle) : List Dir → SS → Nat → Option (Nat × Bool)
  | [], _, k => some (k, false)
  | d :: ds, st, k =>
    match stepDir O d st with
    | .cont st' a => countDirs O ds st' (k + (if a then 1 else 0))
    | .matchFail _ => some (k, false)
    | .inputFail _ => some (k, true)
    | .unsupported => none

theorem stepDir_fields (O : Oracle) (d : Dir) (st : SS) :
    (∀ st' a, stepDir O d st = .cont st' a → st'.fields = st.fields + (if a then 1 else 0)) ∧
    (∀ st', stepDir O d st = .matchFail st' → st'.fields = st.fields) ∧
    (∀ st', stepDir O d st = .inputFail st' → st'.fields = st.fields) := by
  cases d <;> simp only [stepDir] <;> (repeat' split) <;> refine ⟨?_, ?_, ?_⟩ <;> intros <;> simp_all <;>
    (try (rename_i h; first | (obtain ⟨h1, h2⟩ := h; subst h1 h2; simp) | (subst h; rfl)))

/-- the count returned is the number of assigned fields, EOF exactly for an input failure with none assigned -/
theorem runDirs_count (O : Oracle) : ∀ (dirs : List Dir) (st : SS) (k : Nat) (r : ScanResult), st.fields = (k : Int) →
    runDirs O dirs st = some r →
    ∃ k' e, countDirs O dirs st k = some (k', e) ∧ k ≤ k' ∧
      r.fields = (if e = true ∧ k' = 0 then -1 else (k' : Int)) := by
  intro dirs
  induction dirs with
  | nil =>
    intro st k r hk hr
    simp only [runDirs, Option.some.injEq] at hr
    refine ⟨k, false, rfl, Nat.le_refl _, ?_⟩
    rw [← hr]; simp [finishS, hk]
  | cons d ds ih =>
    intro st k r hk hr
    obtain ⟨hf1, hf2, hf3⟩ := stepDir_fields O d st
    simp only [runDirs] at hr
    simp only [countDirs]
    cases hs : stepDir O d st with
    | cont st' a =>
      rw [hs] at hr
      simp only at hr
      have hf := hf1 st' a hs
      obtain ⟨k', e, h1, h2, h3⟩ := ih st' (k + (if a then 1 else 0)) r (by rw [hf, hk]; cases a <;> simp) hr
      exact ⟨k', e, h1, by omega, h3⟩
    | matchFail st' =>
      rw [hs] at hr
      simp only [Option.some.injEq] at hr
      have hf := hf2 st' hs
      refine ⟨k, false, rfl, Nat.le_refl _, ?_⟩
      rw [← hr]; simp [finishS, hf, hk]
    | inputFail st' =>
      rw [hs] at hr
      simp only [Option.some.injEq] at hr
      have hf := hf3 st' hs
      refine ⟨k, true, rfl, Nat.le_refl _, ?_⟩
      rw [← hr]; simp only [eofS, hf, hk]
      by_cases h0 : k = 0
      · simp [h0]
      · have : ¬ ((k : Int) = 0) := by omega
        simp [h0, this]
    | unsupported => rw [hs] at hr; cases hr

/-! ### the character-level model on a rendered directive -/

theorem isDigit_range (x : Char) (h : isDigit x = true) : 48 ≤ x.toNat ∧ x.toNat ≤ 57 := by
  obtain ⟨l0, l9, -⟩ := lits
  simp only [isDigit, cle, l0, l9, Bool.and_eq_true, decide_eq_true_eq] at h
  exact h

theorem isDigit_ne (x d : Char) (h : isDigit x = true) (hd : d.toNat < 48 ∨ 57 < d.toNat) : x ≠ d := by
  have := isDigit_range x h
  intro hx; rw [hx] at this; omega

theorem scanRun_inNum (f : Char) (fs : List Char) (sp : SP) (st : SS) (hf : isDigit f = false) :
    scanRun (f :: fs) (.spec sp) st = scanRun (f :: fs) (.spec { sp with inNum := false }) st := by
  conv_lhs => rw [scanRun]
  conv_rhs => rw [scanRun]
  simp [hf]

theorem scanRun_digits (wd fs : List Char) (st : SS) (hwd : ∀ x ∈ wd, isDigit x = true) : ∀ (sp : SP), sp.inNum = true →
    scanRun (wd ++ fs) (.spec sp) st =
      scanRun fs (.spec { sp with p := { sp.p with width := wd.foldl (fun a c => a * 10 + digitVal c) sp.p.width } }) st := by
  induction wd with
  | nil => intro sp _; rfl
  | cons x t ih =>
    intro sp hn
    have hx := hwd x List.mem_cons_self
    rw [List.cons_append, scanRun]
    simp only [hn, hx, and_self, if_true]
    exact (ih (fun y hy => hwd y (List.mem_cons_of_mem _ hy)) _ rfl).trans rfl

theorem scanRun_digit1 (x : Char) (fs : List Char) (sp : SP) (st : SS) (hx : isDigit x = true) (hn : sp.inNum = false) :
    scanRun (x :: fs) (.spec sp) st =
      scanRun fs (.spec { sp with inNum := true, p := { sp.p with width := digitVal x } }) st := by
  have e : ∀ d : Char, (d.toNat < 48 ∨ 57 < d.toNat) → x ≠ d := fun d hd => isDigit_ne x d hx hd
  rw [scanRun]
  simp only [hn, Bool.false_eq_true, false_and, if_false, e '%' (by decide), e 'c' (by decide), e 's' (by decide),
    e 'd' (by decide), e 'u' (by decide), e 'i' (by decide), e 'o' (by decide), e 'x' (by decide), e 'X' (by decide),
    e 'n' (by decide), e 'F' (by decide), e 'j' (by decide), e 'L' (by decide), e 'q' (by decide), e 'Q' (by decide),
    e 't' (by decide), e 'z' (by decide), e 'Z' (by decide), e 'h' (by decide), e 'l' (by decide), or_self, hx, if_true]

/-- the field width (doscan.c:702-716), possibly absent, followed by a character that is no digit -/
theorem scanRun_width (wd : List Char) (f : Char) (fs : List Char) (sp : SP) (st : SS) (hwd : ∀ x ∈ wd, isDigit x = true)
    (hn : sp.inNum = false) (hw : sp.p.width = 0) (hf : isDigit f = false) :
    scanRun (wd ++ f :: fs) (.spec sp) st =
      scanRun (f :: fs) (.spec { sp with p := { sp.p with width := widthOf wd } }) st := by
  cases wd with
  | nil =>
    obtain ⟨p, inNum⟩ := sp
    obtain ⟨b, i, ty, wdt⟩ := p
    simp only at hw hn
    subst hw hn
    rfl
  | cons x t =>
    have hx := hwd x List.mem_cons_self
    rw [List.cons_append, scanRun_digit1 x _ sp st hx hn,
      scanRun_digits t (f :: fs) st (fun y hy => hwd y (List.mem_cons_of_mem _ hy)) _ rfl, scanRun_inNum f fs _ st hf]
    have : widthOf (x :: t) = t.foldl (fun a c => a * 10 + digitVal c) (digitVal x) := by simp [widthOf]
    rw [this]
    obtain ⟨p, inNum⟩ := sp
    simp only at hn
    subst hn
    rfl

theorem scanRun_starChars (star : Bool) (fs : List Char) (sp : SP) (st : SS) (hn : sp.inNum = false) (hi : sp.p.ignore = false) :
    scanRun (starChars star ++ fs) (.spec sp) st = scanRun fs (.spec { sp with p := { sp.p with ignore := star } }) st := by
  cases star with
  | true => show scanRun ('*' :: fs) (.spec sp) st = _; rw [scanRun]; simp (decide := true) [hn]
  | false =>
    obtain ⟨p, inNum⟩ := sp
    obtain ⟨b, i, ty, wdt⟩ := p
    simp only at hi
    subst hi
    rfl

/-- how the scan goes on after one directive -/
def contWith (fs : List Char) : Outcome → Option ScanResult
  | .cont st' _ => scanRun fs .text st'
  | .matchFail st' => some (finishS st')
  | .inputFail st' => some (eofS st')
  | .unsupported => none

theorem scanRun_pct' (fs : List Char) (st : SS) : scanRun ('%' :: fs) .text st = scanRun fs (.spec {}) st := by
  rw [scanRun]; simp (decide := true)

theorem scanRun_pctpct (fs : List Char) (st : SS) :
    scanRun ('%' :: fs) (.spec {}) st =
      (match st.inp with
       | c :: rest => if c = '%' then scanRun fs .text { st with inp := rest, chars := st.chars + 1 } else some (finishS st)
       | [] => some (eofS st)) := by
  rw [scanRun]; simp (decide := true)
  try rfl

theorem scanRun_nG (fs : List Char) (sp : SP) (st : SS) (hn : sp.inNum = false) (hty : sp.p.type = '\x00') :
    scanRun ('n' :: fs) (.spec sp) st =
      if sp.p.ignore then scanRun fs .text st else scanRun fs .text { st with outs := st.outs ++ [.int st.chars] } := by
  rw [scanRun]; simp (decide := true) [hn, hty]

theorem scanRun_dir_mpir (star : Bool) (wd : List Char) (T c : Char) (b : Nat) (hT : T = 'Z' ∨ T = 'Q') (hc : ConvChar c b)
    (hwd : ∀ x ∈ wd, isDigit x = true) (fs : List Char) (st : SS) :
    scanRun ((Dir.mpir star wd T c b).render ++ fs) .text st = contWith fs (stepDir libcOracle (.mpir star wd T c b) st) := by
  have hTd : isDigit T = false := by rcases hT with h | h <;> subst h <;> decide
  show scanRun ('%' :: (starChars star ++ (wd ++ [T, c])) ++ fs) .text st = _
  have e : '%' :: (starChars star ++ (wd ++ [T, c])) ++ fs = '%' :: (starChars star ++ (wd ++ T :: (c :: fs))) := by simp
  rw [e, scanRun_pct', scanRun_starChars star _ _ st rfl rfl, scanRun_width wd T _ _ st hwd rfl rfl hTd,
    scanRun_type T hT _ _ st rfl, scanRun_conv c b hc fs _ st rfl (by simpa using hT)]
  simp only [doNumeric, stepDir]
  generalize hr : gmpscan { base := b, ignore := star, type := T, width := widthOf wd } (skipWhite st.inp).2 = r
  by_cases e2 : r.ret = -2
  · simp [e2, hr, contWith]
  · by_cases e1 : r.ret = -1
    · simp [e2, e1, hr, contWith]
    · cases star <;> cases hv : r.val <;> simp [e2, e1, hr, hv, contWith, valOuts]

theorem scanRun_libc_conv (c : Char) (hc : c ∈ ['d', 'u', 'i', 'o', 'x', 'X', 's', 'c']) (fs : List Char) (sp : SP) (st : SS)
    (hn : sp.inNum = false) (hty : sp.p.type = '\x00') (hb : sp.p.base = 0) :
    scanRun (c :: fs) (.spec sp) st =
      (match doLibcG libcOracle { sp with p := { sp.p with base := libcBase c } } c st with
       | some (.inl r) => some r
       | some (.inr st) => scanRun fs .text st
       | none => none) := by
  obtain ⟨p, inNum⟩ := sp
  obtain ⟨b, i, ty, wdt⟩ := p
  simp only at hn hty hb
  subst hn hty hb
  simp only [List.mem_cons, List.not_mem_nil, or_false] at hc
  rcases hc with h | h | h | h | h | h | h | h <;> subst h <;>
  · rw [scanRun]; simp (decide := true) [doLibc_eq, libcBase]; try rfl

theorem scanRun_dir_libc (star : Bool) (wd : List Char) (c : Char) (hc : c ∈ ['d', 'u', 'i', 'o', 'x', 'X', 's', 'c'])
    (hwd : ∀ x ∈ wd, isDigit x = true) (fs : List Char) (st : SS) :
    scanRun ((Dir.libc star wd c).render ++ fs) .text st = contWith fs (stepDir libcOracle (.libc star wd c) st) := by
  have hcd : isDigit c = false := by
    simp only [List.mem_cons, List.not_mem_nil, or_false] at hc
    rcases hc with h | h | h | h | h | h | h | h <;> subst h <;> decide
  show scanRun ('%' :: (starChars star ++ (wd ++ [c])) ++ fs) .text st = _
  have e : '%' :: (starChars star ++ (wd ++ [c])) ++ fs = '%' :: (starChars star ++ (wd ++ c :: fs)) := by simp
  rw [e, scanRun_pct', scanRun_starChars star _ _ st rfl rfl, scanRun_width wd c _ _ st hwd rfl rfl hcd,
    scanRun_libc_conv c hc fs _ st rfl rfl rfl]
  simp only [doLibcG, stepDir]
  generalize libcOracle { p := { base := libcBase c, ignore := star, width := widthOf wd } } c st.inp = res
  cases res with
  | none => simp [contWith]
  | some r =>
    cases r with
    | eof rest => simp [contWith]
    | fail rest => simp [contWith]
    | ok v chars rest => cases star <;> cases v <;> simp [contWith]

theorem scanRun_dir (d : Dir) (hd : d.WF) (fs : List Char) (st : SS) :
    scanRun (d.render ++ fs) .text st = contWith fs (stepDir libcOracle d st) := by
  cases d with
  | white c =>
    have hc : isSpace c = true := hd
    show scanRun (c :: fs) .text st = _
    rw [scanRun]; simp [hc, stepDir, contWith]
  | lit c =>
    obtain ⟨h1, h2⟩ : isSpace c = false ∧ c ≠ '%' := hd
    show scanRun (c :: fs) .text st = _
    rw [scanRun]; simp only [h1, Bool.false_eq_true, if_false, h2, stepDir]
    cases st.inp with
    | nil => simp [contWith]
    | cons x r => simp only; split <;> simp [contWith]
  | pct =>
    show scanRun ('%' :: '%' :: fs) .text st = _
    rw [scanRun_pct', scanRun_pctpct]
    simp only [stepDir]
    cases st.inp with
    | nil => simp [contWith]
    | cons x r => by_cases hx : x = '%' <;> simp [hx, contWith]
  | count star =>
    show scanRun ('%' :: (starChars star ++ ['n']) ++ fs) .text st = _
    have e : '%' :: (starChars star ++ ['n']) ++ fs = '%' :: (starChars star ++ 'n' :: fs) := by simp
    rw [e, scanRun_pct', scanRun_starChars star _ _ st rfl rfl, scanRun_nG _ _ _ rfl rfl]
    cases star <;> simp [stepDir, contWith]
  | mpir star wd T c b =>
    obtain ⟨hT, hc, hwd⟩ := hd
    exact scanRun_dir_mpir star wd T c b hT hc hwd fs st
  | libc star wd c =>
    obtain ⟨hc, hwd⟩ := hd
    exact scanRun_dir_libc star wd c hc hwd fs st

/-- the character-level model of `__gmp_doscan` on a format that is a list of directives -/
theorem scanRun_dirs : ∀ (dirs : List Dir), (∀ d ∈ dirs, d.WF) → ∀ st,
    scanRun (dirs.flatMap Dir.render) .text st = runDirs libcOracle dirs st := by
  intro dirs
  induction dirs with
  | nil => intro _ st; simp [scanRun, runDirs]
  | cons d ds ih =>
    intro h st
    rw [List.flatMap_cons, scanRun_dir d (h d List.mem_cons_self)]
    simp only [runDirs]
    cases stepDir libcOracle d st with
    | cont st' a => simp only [contWith]; exact ih (fun x hx => h x (List.mem_cons_of_mem _ hx)) st'
    | matchFail st' => rfl
    | inputFail st' => rfl
    | unsupported => rfl

end Mpir.Scanf
