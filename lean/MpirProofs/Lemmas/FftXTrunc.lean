/- The truncated transforms of Mpir/Model/FftX.lean: the forward ones agree with the full transform on the
   first `trunc` outputs (exactly, over ℤ); the inverse ones recover the first `trunc` coefficients. -/
import MpirProofs.Lemmas.FftX
import Mathlib.Tactic.SplitIfs
set_option linter.unusedSimpArgs false
namespace Mpir.FftX
open Mpir Finset

/-- the C's requirement on `trunc` for a transform of 2n = 2^(d+1) coefficients -/
def TruncOk (d trunc : Nat) : Prop := trunc % 2 = 0 ∧ 2 ≤ trunc ∧ trunc ≤ 2 ^ (d + 1)

theorem truncOk_zero {t : Nat} (h : TruncOk 0 t) : t = 2 := by
  obtain ⟨_, h2, h3⟩ := h; simp at h3; omega

theorem pow_succ_even (d : Nat) : 2 ^ (d + 1) % 2 = 0 := by rw [pow_succ]; omega

theorem truncOk_low {d t : Nat} (h : TruncOk (d + 1) t) (h1 : t ≤ 2 ^ (d + 1)) : TruncOk d t :=
  ⟨h.1, h.2.1, h1⟩

theorem truncOk_high {d t : Nat} (h : TruncOk (d + 1) t) (h1 : ¬ t ≤ 2 ^ (d + 1)) :
    TruncOk d (t - 2 ^ (d + 1)) := by
  obtain ⟨a, b, c⟩ := h
  have e := pow_succ_even d
  have hp : 2 ^ (d + 1 + 1) = 2 * 2 ^ (d + 1) := by rw [pow_succ]; ring
  refine ⟨by omega, by omega, by omega⟩

/-- the transform reads its input only through the first 2n entries -/
theorem fft_radix2_congr (d w : Nat) (xs ys : List Int) (h : ∀ i < 2 ^ (d + 1), el xs i = el ys i) :
    fft_radix2 d w xs = fft_radix2 d w ys := by
  induction d generalizing w xs ys with
  | zero =>
    simp only [fft_radix2]
    have h0 := h 0 (by norm_num); have h1 := h 1 (by norm_num)
    rw [fsts_congr 1 _ (fun i => bfly (el ys i) (el ys (1 + i)) i w), snds_congr 1 _ (fun i => bfly (el ys i) (el ys (1 + i)) i w)]
    · intro i hi; have : i = 0 := by omega
      subst this; simp [h0, h1]
    · intro i hi; have : i = 0 := by omega
      subst this; simp [h0, h1]
  | succ d ih =>
    have hp : 2 ^ (d + 1 + 1) = 2 * 2 ^ (d + 1) := by rw [pow_succ]; ring
    simp only [fft_radix2]
    rw [fsts_congr (2 ^ (d + 1)) _ (fun i => bfly (el ys i) (el ys (2 ^ (d + 1) + i)) i w),
      snds_congr (2 ^ (d + 1)) _ (fun i => bfly (el ys i) (el ys (2 ^ (d + 1) + i)) i w)]
    · intro i hi; rw [h i (by omega), h (2 ^ (d + 1) + i) (by omega)]
    · intro i hi; rw [h i (by omega), h (2 ^ (d + 1) + i) (by omega)]

theorem sums_eq_fsts (n w : Nat) (xs : List Int) :
    ((List.range n).map fun i => el xs i + el xs (i + n)) = fsts n fun i => bfly (el xs i) (el xs (n + i)) i w := by
  unfold fsts; apply List.map_congr_left; intro i _; simp [bfly, Nat.add_comm]

/-! ### forward truncated transforms -/

theorem le_length_fft_trunc1 (d w trunc : Nat) (xs : List Int) (ht : TruncOk d trunc) :
    trunc ≤ (fft_trunc1 d w trunc xs).length := by
  induction d generalizing w trunc xs with
  | zero => rw [truncOk_zero ht]; simp [fft_trunc1, length_fft_radix2]
  | succ d ih =>
    simp only [fft_trunc1]
    split_ifs with h1 h2
    · rw [length_fft_radix2, h1]; rw [pow_succ]; omega
    · rw [List.length_append]
      have := ih (2 * w) trunc ((List.range (2 ^ (d + 1))).map fun i => el xs i + el xs (i + 2 ^ (d + 1))) (truncOk_low ht h2)
      omega
    · rw [List.length_append, length_fft_radix2]
      have := ih (2 * w) (trunc - 2 ^ (d + 1)) (snds (2 ^ (d + 1)) fun i => bfly (el xs i) (el xs (2 ^ (d + 1) + i)) i w)
        (truncOk_high ht h2)
      omega

/-- (c) mpir_fft_trunc1: the first `trunc` outputs are those of the full transform (for every input) -/
theorem fft_trunc1_eq (d w trunc : Nat) (xs : List Int) (ht : TruncOk d trunc) (k : Nat) (hk : k < trunc) :
    el (fft_trunc1 d w trunc xs) k = el (fft_radix2 d w xs) k := by
  induction d generalizing w trunc xs k with
  | zero => rw [truncOk_zero ht]; simp [fft_trunc1]
  | succ d ih =>
    simp only [fft_trunc1]
    split_ifs with h1 h2
    · rfl
    · have hl := le_length_fft_trunc1 d (2 * w) trunc
        ((List.range (2 ^ (d + 1))).map fun i => el xs i + el xs (i + 2 ^ (d + 1))) (truncOk_low ht h2)
      rw [el_append_left _ _ _ (by omega), ih _ _ _ (truncOk_low ht h2) k hk, sums_eq_fsts _ w]
      simp only [fft_radix2]
      rw [el_append_left _ _ _ (by rw [length_fft_radix2]; omega)]
    · simp only [fft_radix2]
      by_cases hkn : k < 2 ^ (d + 1)
      · rw [el_append_left _ _ _ (by rw [length_fft_radix2]; exact hkn),
          el_append_left _ _ _ (by rw [length_fft_radix2]; exact hkn)]
      · have ek : k = 2 ^ (d + 1) + (k - 2 ^ (d + 1)) := by omega
        rw [ek, el_append_right' _ _ _ _ (length_fft_radix2 _ _ _), el_append_right' _ _ _ _ (length_fft_radix2 _ _ _)]
        exact ih _ _ _ (truncOk_high ht h2) _ (by omega)

theorem le_length_fft_trunc (d w trunc : Nat) (xs : List Int) (ht : TruncOk d trunc) :
    trunc ≤ (fft_trunc d w trunc xs).length := by
  induction d generalizing w trunc xs with
  | zero => rw [truncOk_zero ht]; simp [fft_trunc, length_fft_radix2]
  | succ d ih =>
    simp only [fft_trunc]
    split_ifs with h1 h2
    · rw [length_fft_radix2, h1]; rw [pow_succ]; omega
    · rw [List.length_append]; have := ih (2 * w) trunc (xs.take (2 ^ (d + 1))) (truncOk_low ht h2); omega
    · rw [List.length_append, length_fft_radix2]
      have := le_length_fft_trunc1 d (2 * w) (trunc - 2 ^ (d + 1)) (snds (2 ^ (d + 1)) fun i =>
        if i < trunc - 2 ^ (d + 1) then bfly (el xs i) (el xs (2 ^ (d + 1) + i)) i w else (el xs i, adj (el xs i) i w))
        (truncOk_high ht h2)
      omega

/-- (c) mpir_fft_trunc: for inputs that are zero from `trunc` on, the first `trunc` outputs are those of the
    full transform -/
theorem fft_trunc_eq (d w trunc : Nat) (xs : List Int) (ht : TruncOk d trunc)
    (hz : ∀ j, trunc ≤ j → el xs j = 0) (k : Nat) (hk : k < trunc) :
    el (fft_trunc d w trunc xs) k = el (fft_radix2 d w xs) k := by
  induction d generalizing w trunc xs k with
  | zero => rw [truncOk_zero ht]; simp [fft_trunc]
  | succ d ih =>
    simp only [fft_trunc]
    split_ifs with h1 h2
    · rfl
    · have hl := le_length_fft_trunc d (2 * w) trunc (xs.take (2 ^ (d + 1))) (truncOk_low ht h2)
      rw [el_append_left _ _ _ (by omega), ih _ _ _ (truncOk_low ht h2) _ k hk]
      · simp only [fft_radix2]
        rw [el_append_left _ _ _ (by rw [length_fft_radix2]; omega)]
        congr 1
        apply fft_radix2_congr
        intro i hi
        rw [el_take _ _ _ hi, el_fsts _ _ _ hi]
        simp [bfly, hz (2 ^ (d + 1) + i) (by omega)]
      · intro j hj
        by_cases hjn : j < 2 ^ (d + 1)
        · rw [el_take _ _ _ hjn]; exact hz j hj
        · exact el_take_ge _ _ _ (by omega)
    · simp only [fft_radix2]
      have ef : (fsts (2 ^ (d + 1)) fun i =>
          if i < trunc - 2 ^ (d + 1) then bfly (el xs i) (el xs (2 ^ (d + 1) + i)) i w else (el xs i, adj (el xs i) i w)) =
          fsts (2 ^ (d + 1)) fun i => bfly (el xs i) (el xs (2 ^ (d + 1) + i)) i w := by
        apply fsts_congr; intro i hi
        split_ifs with hc
        · rfl
        · simp [bfly, hz (2 ^ (d + 1) + i) (by omega)]
      have es : (snds (2 ^ (d + 1)) fun i =>
          if i < trunc - 2 ^ (d + 1) then bfly (el xs i) (el xs (2 ^ (d + 1) + i)) i w else (el xs i, adj (el xs i) i w)) =
          snds (2 ^ (d + 1)) fun i => bfly (el xs i) (el xs (2 ^ (d + 1) + i)) i w := by
        apply snds_congr; intro i hi
        split_ifs with hc
        · rfl
        · simp [bfly, adj, hz (2 ^ (d + 1) + i) (by omega)]
      rw [ef, es]
      by_cases hkn : k < 2 ^ (d + 1)
      · rw [el_append_left _ _ _ (by rw [length_fft_radix2]; exact hkn),
          el_append_left _ _ _ (by rw [length_fft_radix2]; exact hkn)]
      · have ek : k = 2 ^ (d + 1) + (k - 2 ^ (d + 1)) := by omega
        rw [ek, el_append_right' _ _ _ _ (length_fft_radix2 _ _ _), el_append_right' _ _ _ _ (length_fft_radix2 _ _ _)]
        exact fft_trunc1_eq _ _ _ _ (truncOk_high ht h2) _ (by omega)

/-! ### inverse truncated transforms -/

section ring
variable {S : Type} [CommRing S] (f : ℤ →+* S)

theorem two_mul_half (m : Nat) (hm : 1 ≤ m) (hu : f 2 ^ m = 1) : 2 * f 2 ^ (m - 1) = 1 := by
  have : (2 : S) = f 2 := by simp
  rw [this, ← pow_succ', Nat.sub_add_cancel hm, hu]

theorem fft_radix2_succ (d w : Nat) (xs : List Int) : fft_radix2 (d + 1) w xs =
    fft_radix2 d (2 * w) (fsts (2 ^ (d + 1)) fun i => bfly (el xs i) (el xs (2 ^ (d + 1) + i)) i w) ++
    fft_radix2 d (2 * w) (snds (2 ^ (d + 1)) fun i => bfly (el xs i) (el xs (2 ^ (d + 1) + i)) i w) := by
  simp only [fft_radix2]

theorem el_fft_radix2_low (d w : Nat) (xs : List Int) (k : Nat) (hk : k < 2 ^ (d + 1)) :
    el (fft_radix2 (d + 1) w xs) k =
      el (fft_radix2 d (2 * w) (fsts (2 ^ (d + 1)) fun i => bfly (el xs i) (el xs (2 ^ (d + 1) + i)) i w)) k := by
  rw [fft_radix2_succ, el_append_left _ _ _ (by rw [length_fft_radix2]; exact hk)]

theorem el_fft_radix2_high (d w : Nat) (xs : List Int) (k : Nat) :
    el (fft_radix2 (d + 1) w xs) (2 ^ (d + 1) + k) =
      el (fft_radix2 d (2 * w) (snds (2 ^ (d + 1)) fun i => bfly (el xs i) (el xs (2 ^ (d + 1) + i)) i w)) k := by
  rw [fft_radix2_succ, el_append_right' _ _ _ _ (length_fft_radix2 _ _ _)]

/-- (c) mpir_ifft_trunc1: from the first `trunc` transform values and, in the other places, the 2n-fold
    coefficients themselves, the first `trunc` coefficients (2n-fold) -/
theorem ifft_trunc1_spec (d w trunc : Nat) (ht : TruncOk d trunc) (hd : 64 ∣ 2 ^ d * w) (hw : 1 ≤ w)
    (hu : f 2 ^ (2 * (2 ^ d * w)) = 1) (xs ys : List Int)
    (h1 : ∀ k < trunc, f (el ys k) = f (el (fft_radix2 d w xs) k))
    (h2 : ∀ j, trunc ≤ j → j < 2 ^ (d + 1) → f (el ys j) = 2 ^ (d + 1) * f (el xs j))
    (j : Nat) (hj : j < trunc) :
    f (el (ifft_trunc1 d w trunc ys) j) = 2 ^ (d + 1) * f (el xs j) := by
  induction d generalizing w trunc xs ys j with
  | zero =>
    have := truncOk_zero ht; subst this
    simp only [ifft_trunc1, if_true]
    exact ifft_radix2_spec f 0 w hd hu xs ys (fun k hk => h1 k (by simpa using hk)) j (by simpa using hj)
  | succ d ih =>
    have hd' : 64 ∣ 2 ^ d * (2 * w) := by
      have : 2 ^ d * (2 * w) = 2 ^ (d + 1) * w := by rw [pow_succ]; ring
      rw [this]; exact hd
    have hu' : f 2 ^ (2 * (2 ^ d * (2 * w))) = 1 := by
      rw [← hu]; congr 1; rw [pow_succ]; ring
    have hw' : 1 ≤ 2 * w := by omega
    have ewn : wnOf (2 ^ (d + 1)) w = 2 ^ (d + 1) * w := wnOf_eq _ _ hd
    have hp : 2 ^ (d + 1 + 1) = 2 * 2 ^ (d + 1) := by rw [pow_succ]; ring
    have hpos : 1 ≤ 2 ^ (d + 1) * w := Nat.mul_pos (two_pow_pos' _) hw
    have e2 := two_mul_half f (2 * (2 ^ (d + 1) * w)) (by omega) hu
    obtain ⟨ht1, ht2, ht3⟩ := ht
    simp only [ifft_trunc1]
    split_ifs with c1 c2
    · exact ifft_radix2_spec f (d + 1) w hd hu xs ys (fun k hk => h1 k (by omega)) j (by omega)
    · -- trunc ≤ n
      have hjn : j < 2 ^ (d + 1) := by omega
      rw [el_append_left _ _ _ (by simp; exact hjn), el_range_map _ _ _ hjn, if_pos hj]
      have I := ih (2 * w) trunc (truncOk_low ⟨ht1, ht2, ht3⟩ c2) hd' hw' hu'
        (fsts (2 ^ (d + 1)) fun i => bfly (el xs i) (el xs (2 ^ (d + 1) + i)) i w)
        ((List.range (2 ^ (d + 1))).map fun i =>
          if trunc ≤ i then half (wnOf (2 ^ (d + 1)) w) (el ys i + el ys (i + 2 ^ (d + 1))) else el ys i)
        (fun k hk => by
          rw [el_range_map _ _ _ (by omega), if_neg (by omega), h1 k hk, el_fft_radix2_low _ _ _ _ (by omega)])
        (fun i hi1 hi2 => by
          rw [el_range_map _ _ _ hi2, if_pos hi1, el_fsts _ _ _ hi2, ewn]
          simp only [half, bfly, map_mul, map_add, map_pow]
          rw [h2 i (by omega) (by omega), h2 (i + 2 ^ (d + 1)) (by omega) (by omega), Nat.add_comm i]
          linear_combination (2 ^ (d + 1) * (f (el xs i) + f (el xs (2 ^ (d + 1) + i)))) * e2)
        j hj
      simp only [map_sub, map_mul]
      rw [I, el_fsts _ _ _ hjn, h2 (2 ^ (d + 1) + j) (by omega) (by omega)]
      simp [bfly]; ring
    · -- n < trunc < 2n
      have F1 : ∀ i < 2 ^ (d + 1), f (el (ifft_radix2 d (2 * w) (ys.take (2 ^ (d + 1)))) i) =
          2 ^ (d + 1) * (f (el xs i) + f (el xs (2 ^ (d + 1) + i))) := by
        intro i hi
        rw [ifft_radix2_spec f d (2 * w) hd' hu'
          (fsts (2 ^ (d + 1)) fun i => bfly (el xs i) (el xs (2 ^ (d + 1) + i)) i w) (ys.take (2 ^ (d + 1)))
          (fun k hk => by rw [el_take _ _ _ hk, h1 k (by omega), el_fft_radix2_low _ _ _ _ hk]) i hi,
          el_fsts _ _ _ hi]
        simp [bfly]
      -- the loop :65-71
      have G : ∀ i < 2 ^ (d + 1), trunc - 2 ^ (d + 1) ≤ i →
          f (el (ifft_radix2 d (2 * w) (ys.take (2 ^ (d + 1)))) i - el ys (i + 2 ^ (d + 1))) =
            2 ^ (d + 1) * (f (el xs i) - f (el xs (2 ^ (d + 1) + i))) := by
        intro i hi hti
        rw [map_sub, F1 i hi, h2 (i + 2 ^ (d + 1)) (by omega) (by omega), Nat.add_comm i]; ring
      have I := ih (2 * w) (trunc - 2 ^ (d + 1)) (truncOk_high ⟨ht1, ht2, ht3⟩ c2) hd' hw' hu'
        (snds (2 ^ (d + 1)) fun i => bfly (el xs i) (el xs (2 ^ (d + 1) + i)) i w)
        (snds (2 ^ (d + 1)) fun i =>
          if trunc - 2 ^ (d + 1) ≤ i then
            (el (ifft_radix2 d (2 * w) (ys.take (2 ^ (d + 1)))) i +
                (el (ifft_radix2 d (2 * w) (ys.take (2 ^ (d + 1)))) i - el ys (i + 2 ^ (d + 1))),
              adj (el (ifft_radix2 d (2 * w) (ys.take (2 ^ (d + 1)))) i - el ys (i + 2 ^ (d + 1))) i w)
          else (el (ifft_radix2 d (2 * w) (ys.take (2 ^ (d + 1)))) i, el ys (i + 2 ^ (d + 1))))
        (fun k hk => by
          rw [el_snds _ _ _ (by omega), if_neg (by omega), h1 (k + 2 ^ (d + 1)) (by omega), Nat.add_comm k,
            el_fft_radix2_high])
        (fun i hi1 hi2 => by
          rw [el_snds _ _ _ hi2, if_pos hi1, el_snds _ _ _ hi2]
          simp only [adj, bfly, map_mul, map_pow]
          rw [G i hi2 hi1]; simp only [map_sub]; ring)
      have key : ∀ i < trunc - 2 ^ (d + 1), ∀ a b : Int,
          f a = 2 ^ (d + 1) * (f (el xs i) + f (el xs (2 ^ (d + 1) + i))) →
          f b = 2 ^ (d + 1) * f (el (snds (2 ^ (d + 1)) fun i => bfly (el xs i) (el xs (2 ^ (d + 1) + i)) i w) i) →
          f (ibfly (wnOf (2 ^ (d + 1)) w) a b i w).1 = 2 * 2 ^ (d + 1) * f (el xs i) ∧
          f (ibfly (wnOf (2 ^ (d + 1)) w) a b i w).2 = 2 * 2 ^ (d + 1) * f (el xs (2 ^ (d + 1) + i)) := by
        intro i hi a b ha hb
        rw [ewn]
        apply ibfly_val f _ _ _ i w _ _ _ hu
        · have : i * w ≤ 2 ^ (d + 1) * w := Nat.mul_le_mul_right w (by omega)
          omega
        · exact ha
        · rw [hb, el_snds _ _ _ (by omega)]; simp [bfly]
      by_cases hjn : j < 2 ^ (d + 1)
      · rw [el_append_left _ _ _ (by rw [length_fsts]; exact hjn), el_fsts _ _ _ hjn]
        by_cases hjt : j < trunc - 2 ^ (d + 1)
        · rw [if_pos hjt]
          rw [(key j hjt _ _ (by rw [el_fsts _ _ _ hjn, if_neg (by omega)]; exact F1 j hjn) (I j hjt)).1]; ring
        · rw [if_neg hjt, el_fsts _ _ _ hjn, if_pos (by omega), map_add, F1 j hjn, G j hjn (by omega)]; ring
      · have ej : j = 2 ^ (d + 1) + (j - 2 ^ (d + 1)) := by omega
        have hj' : j - 2 ^ (d + 1) < trunc - 2 ^ (d + 1) := by omega
        have hj'' : j - 2 ^ (d + 1) < 2 ^ (d + 1) := by omega
        rw [ej, el_append_right' _ _ _ _ (length_fsts _ _), el_snds _ _ _ hj'', if_pos hj']
        rw [(key _ hj' _ _ (by rw [el_fsts _ _ _ hj'', if_neg (by omega)]; exact F1 _ hj'') (I _ hj')).2]; ring

/-- (c) mpir_ifft_trunc: from the first `trunc` transform values of a coefficient vector that is zero from
    `trunc` on, its first `trunc` coefficients (2n-fold) -/
theorem ifft_trunc_spec (d w trunc : Nat) (ht : TruncOk d trunc) (hd : 64 ∣ 2 ^ d * w) (hw : 1 ≤ w)
    (hu : f 2 ^ (2 * (2 ^ d * w)) = 1) (xs ys : List Int)
    (h1 : ∀ k < trunc, f (el ys k) = f (el (fft_radix2 d w xs) k))
    (h0 : ∀ j, trunc ≤ j → j < 2 ^ (d + 1) → f (el xs j) = 0)
    (j : Nat) (hj : j < trunc) :
    f (el (ifft_trunc d w trunc ys) j) = 2 ^ (d + 1) * f (el xs j) := by
  induction d generalizing w trunc xs ys j with
  | zero =>
    have := truncOk_zero ht; subst this
    simp only [ifft_trunc, if_true]
    exact ifft_radix2_spec f 0 w hd hu xs ys (fun k hk => h1 k (by simpa using hk)) j (by simpa using hj)
  | succ d ih =>
    have hd' : 64 ∣ 2 ^ d * (2 * w) := by
      have : 2 ^ d * (2 * w) = 2 ^ (d + 1) * w := by rw [pow_succ]; ring
      rw [this]; exact hd
    have hu' : f 2 ^ (2 * (2 ^ d * (2 * w))) = 1 := by
      rw [← hu]; congr 1; rw [pow_succ]; ring
    have hw' : 1 ≤ 2 * w := by omega
    have ewn : wnOf (2 ^ (d + 1)) w = 2 ^ (d + 1) * w := wnOf_eq _ _ hd
    have hp : 2 ^ (d + 1 + 1) = 2 * 2 ^ (d + 1) := by rw [pow_succ]; ring
    obtain ⟨ht1, ht2, ht3⟩ := ht
    simp only [ifft_trunc]
    split_ifs with c1 c2
    · exact ifft_radix2_spec f (d + 1) w hd hu xs ys (fun k hk => h1 k (by omega)) j (by omega)
    · -- trunc ≤ n
      have hjn : j < 2 ^ (d + 1) := by omega
      rw [el_append_left _ _ _ (by simp; exact hjn), el_range_map _ _ _ hjn, if_pos hj]
      have I := ih (2 * w) trunc (truncOk_low ⟨ht1, ht2, ht3⟩ c2) hd' hw' hu'
        (fsts (2 ^ (d + 1)) fun i => bfly (el xs i) (el xs (2 ^ (d + 1) + i)) i w) (ys.take (2 ^ (d + 1)))
        (fun k hk => by rw [el_take _ _ _ (by omega), h1 k hk, el_fft_radix2_low _ _ _ _ (by omega)])
        (fun i hi1 hi2 => by
          rw [el_fsts _ _ _ hi2]; simp only [bfly, map_add]
          rw [h0 i (by omega) (by omega), h0 (2 ^ (d + 1) + i) (by omega) (by omega)]; ring)
        j hj
      simp only [map_mul]
      rw [I, el_fsts _ _ _ hjn]
      simp only [bfly, map_add]
      rw [h0 (2 ^ (d + 1) + j) (by omega) (by omega)]; simp; ring
    · -- n < trunc < 2n
      have F1 : ∀ i < 2 ^ (d + 1), f (el (ifft_radix2 d (2 * w) (ys.take (2 ^ (d + 1)))) i) =
          2 ^ (d + 1) * (f (el xs i) + f (el xs (2 ^ (d + 1) + i))) := by
        intro i hi
        rw [ifft_radix2_spec f d (2 * w) hd' hu'
          (fsts (2 ^ (d + 1)) fun i => bfly (el xs i) (el xs (2 ^ (d + 1) + i)) i w) (ys.take (2 ^ (d + 1)))
          (fun k hk => by rw [el_take _ _ _ hk, h1 k (by omega), el_fft_radix2_low _ _ _ _ hk]) i hi,
          el_fsts _ _ _ hi]
        simp [bfly]
      have I := ifft_trunc1_spec f d (2 * w) (trunc - 2 ^ (d + 1)) (truncOk_high ⟨ht1, ht2, ht3⟩ c2) hd' hw' hu'
        (snds (2 ^ (d + 1)) fun i => bfly (el xs i) (el xs (2 ^ (d + 1) + i)) i w)
        ((List.range (2 ^ (d + 1))).map fun i =>
          if trunc - 2 ^ (d + 1) ≤ i then adj (el (ifft_radix2 d (2 * w) (ys.take (2 ^ (d + 1)))) i) i w
          else el ys (i + 2 ^ (d + 1)))
        (fun k hk => by
          rw [el_range_map _ _ _ (by omega), if_neg (by omega), h1 (k + 2 ^ (d + 1)) (by omega), Nat.add_comm k,
            el_fft_radix2_high])
        (fun i hi1 hi2 => by
          rw [el_range_map _ _ _ hi2, if_pos hi1, el_snds _ _ _ hi2]
          simp only [adj, bfly, map_mul, map_pow, map_sub]
          rw [F1 i hi2, h0 (2 ^ (d + 1) + i) (by omega) (by omega)]; ring)
      have key : ∀ i < trunc - 2 ^ (d + 1), ∀ a b : Int,
          f a = 2 ^ (d + 1) * (f (el xs i) + f (el xs (2 ^ (d + 1) + i))) →
          f b = 2 ^ (d + 1) * f (el (snds (2 ^ (d + 1)) fun i => bfly (el xs i) (el xs (2 ^ (d + 1) + i)) i w) i) →
          f (ibfly (wnOf (2 ^ (d + 1)) w) a b i w).1 = 2 * 2 ^ (d + 1) * f (el xs i) ∧
          f (ibfly (wnOf (2 ^ (d + 1)) w) a b i w).2 = 2 * 2 ^ (d + 1) * f (el xs (2 ^ (d + 1) + i)) := by
        intro i hi a b ha hb
        rw [ewn]
        apply ibfly_val f _ _ _ i w _ _ _ hu
        · have : i * w ≤ 2 ^ (d + 1) * w := Nat.mul_le_mul_right w (by omega)
          omega
        · exact ha
        · rw [hb, el_snds _ _ _ (by omega)]; simp [bfly]
      by_cases hjn : j < 2 ^ (d + 1)
      · rw [el_append_left _ _ _ (by rw [length_fsts]; exact hjn), el_fsts _ _ _ hjn]
        by_cases hjt : j < trunc - 2 ^ (d + 1)
        · rw [if_pos hjt]
          rw [(key j hjt _ _ (F1 j hjn) (I j hjt)).1]; ring
        · rw [if_neg hjt, map_mul, F1 j hjn, h0 (2 ^ (d + 1) + j) (by omega) (by omega)]; simp; ring
      · have ej : j = 2 ^ (d + 1) + (j - 2 ^ (d + 1)) := by omega
        have hj' : j - 2 ^ (d + 1) < trunc - 2 ^ (d + 1) := by omega
        have hj'' : j - 2 ^ (d + 1) < 2 ^ (d + 1) := by omega
        rw [ej, el_append_right' _ _ _ _ (length_fsts _ _), el_snds _ _ _ hj'', if_pos hj']
        rw [(key _ hj' _ _ (F1 _ hj'') (I _ hj')).2]; ring

end ring

end Mpir.FftX
