/- mpz_mul_2exp and mpz_tdiv_q_2exp on the pointer-level model (offsets inside a block, in-place shifts). -/
import MpirProofs.Lemmas.AliasDiv
namespace Mpir.AliasMem
open Mpir
open Mpir.DivZ (sizeNat siz sameSign)

/-! ### writing at an offset -/

theorem wrAt_length {b l : List Nat} {off : Nat} (h : off + l.length ≤ b.length) : (wrAt b off l).length = b.length := by
  simp [wrAt]; omega

theorem wrAt_zero (b l : List Nat) : wrAt b 0 l = l ++ b.drop l.length := by simp [wrAt]

theorem wrAt_wrAt_next {b l l2 : List Nat} {off : Nat} (h : off + l.length + l2.length ≤ b.length) :
    wrAt (wrAt b off l) (off + l.length) l2 = wrAt b off (l ++ l2) := by
  have hA : (b.take off ++ l).length = off + l.length := by simp; omega
  unfold wrAt
  have e1 : (b.take off ++ l ++ b.drop (off + l.length)).take (off + l.length) = b.take off ++ l :=
    List.take_left' hA
  have e2 : (b.take off ++ l ++ b.drop (off + l.length)).drop (off + l.length + l2.length) =
      b.drop (off + (l ++ l2).length) := by
    rw [← List.drop_drop, List.drop_left' hA, List.drop_drop]
    congr 1; simp; omega
  rw [e1, e2]; simp

theorem wrAt_wrAt_zero {b l z : List Nat} {off : Nat} (hz : z.length = off) (h : off + l.length ≤ b.length) :
    wrAt (wrAt b off l) 0 z = wrAt b 0 (z ++ l) := by
  rw [wrAt_zero, wrAt_zero]
  unfold wrAt
  have h1 : (b.take off).length = off := by simp; omega
  rw [hz, List.append_assoc, List.drop_left' h1]
  simp [hz, Nat.add_comm]

theorem setBlk_setBlk (s : St) (p : Nat) (x y : Option (List Nat)) : (s.setBlk p x).setBlk p y = s.setBlk p y := by
  cases s with
  | mk nv vars blk next =>
    simp only [St.setBlk, St.mk.injEq, true_and, and_true]
    funext q
    by_cases e : q = p <;> simp [e]

theorem setBlk_blk_self (s : St) (p : Nat) (x : Option (List Nat)) : (s.setBlk p x).blk p = x := by
  simp [St.setBlk]

theorem storeAt_ok {s : St} {p off : Nat} {b l : List Nat} (hb : s.blk p = some b) (h : off + l.length ≤ b.length) :
    s.storeAt p off l = .ok (s.setBlk p (some (wrAt b off l))) := by
  unfold St.storeAt; rw [hb]; simp only []; rw [if_pos h]

theorem loadAt_ok {s : St} {p off n : Nat} {b : List Nat} (hb : s.blk p = some b) (h : off + n ≤ b.length) :
    s.loadAt p off n = .ok ((b.drop off).take n) := by
  unfold St.loadAt; rw [hb]; simp only []; rw [if_pos h]

theorem sizeNat_eq {m k : Nat} (h1 : B ^ (k - 1) ≤ m) (h2 : m < B ^ k) (hk : 1 ≤ k) : sizeNat m = k := by
  have a := (DivZ.sizeNat_le_iff m k).mpr h2
  have b : ¬ sizeNat m ≤ k - 1 := fun hc => by have := (DivZ.sizeNat_le_iff m (k - 1)).mp hc; omega
  omega

theorem val_replicate_zero (n : Nat) : val (List.replicate n 0) = 0 := by
  induction n with
  | zero => rfl
  | succ n ih => simp [List.replicate_succ, ih]

theorem Limbs_replicate_zero (n : Nat) : Limbs (List.replicate n 0) := by
  intro x hx; rw [List.mem_replicate] at hx; rw [hx.2]; exact B_pos

/-- the end of every function that builds the whole result `l` at the start of `PTR (w)`: `l` normalised -/
theorem put_list {s : St} (h : Inv s) {w : Nat} (hw : w < s.nv) {b : List Nat} (hb : s.blk (s.ptr w) = some b)
    (l : List Nat) (hl : l.length ≤ b.length) (hL : Limbs l) (hn : sizeNat (val l) = l.length) (neg : Bool) :
    Inv (s.put w (wrAt b 0 l) (if neg then -(l.length : Int) else (l.length : Int))) ∧
    Upd s (s.put w (wrAt b 0 l) (if neg then -(l.length : Int) else (l.length : Int))) w ∧
    (s.put w (wrAt b 0 l) (if neg then -(l.length : Int) else (l.length : Int))).value w =
      (if neg then -(val l : Int) else (val l : Int)) := by
  obtain ⟨b', hb', hlen, hbL⟩ := h.live w hw
  have : b' = b := by rw [hb] at hb'; exact (Option.some.inj hb').symm
  subst this
  have := put_upd h hw (wrAt b' 0 l) (val l) neg (by rw [wrAt_length (by omega)]; exact hlen)
    (by rw [wrAt_zero]; exact Limbs_wr hL hbL) (by rw [hn]; omega)
    (by rw [hn, wrAt_zero, List.take_append_of_le_length (Nat.le_refl _), List.take_of_length_le (Nat.le_refl _)])
  rw [hn] at this
  exact this


theorem loadAt_var0 {s : St} (h : Inv s) {i : Nat} (hi : i < s.nv) :
    s.loadAt (s.ptr i) 0 (s.size i).natAbs = .ok (s.limbs i) := by
  obtain ⟨l, hl, hlen, _⟩ := h.live i hi
  have := h.fits i hi
  rw [loadAt_ok hl (by omega)]
  unfold St.limbs; rw [hl]; simp

theorem val_zeros_append (n : Nat) (l : List Nat) : val (List.replicate n 0 ++ l) = B ^ n * val l := by
  rw [val_append, val_replicate_zero]; simp

theorem mul_2exp_ok {s : St} (h : Inv s) {w u : Nat} (hw : w < s.nv) (hu : u < s.nv) (cnt : Nat) :
    ∃ s', mul_2exp w u cnt s = .ok s' ∧ Res s s' w (s.value u * 2 ^ cnt) := by
  unfold mul_2exp mul_2expV
  simp only [Variant.c, if_true, bind, Except.bind, pure, Except.pure]
  by_cases hu0 : s.size u = 0
  · rw [if_pos hu0]
    obtain ⟨i2, u2, v2⟩ := setSize_zero_spec h hw
    have : s.value u = 0 := (h.size_eq_zero_iff hu).mp hu0
    exact ⟨_, rfl, i2, u2.nv, by rw [v2, this]; simp, fun i hi hiw => u2.value_o h hw hi hiw⟩
  · rw [if_neg hu0]
    set n := (s.size u).natAbs with hn
    set lc := cnt / 64 with hlc
    have hn1 : 1 ≤ n := by omega
    obtain ⟨i1, nv1, size1, val1, a1, _⟩ := realloc_spec h hw (n + lc + 1)
    set s1 := s.mpzRealloc w (n + lc + 1) with hs1
    have hw1 : w < s1.nv := by rw [nv1]; exact hw
    have hu1 : u < s1.nv := by rw [nv1]; exact hu
    obtain ⟨b, hb, hbl, hbL⟩ := i1.live w hw1
    have hld := loadAt_var0 i1 hu1; rw [size1, ← hn] at hld
    have hLU := (i1.limbs_spec hu1).2
    have hUlen := (i1.limbs_spec hu1).1; rw [size1, ← hn] at hUlen
    have hU2 := i1.mag_lt hu1; rw [size1, ← hn] at hU2
    have hU1 := i1.mag_ge hu1 (by rw [size1]; exact hu0); rw [size1, ← hn] at hU1
    have hmag : s1.mag u = s.mag u := by rw [← value_natAbs, ← value_natAbs, val1 u hu]
    set U := s1.limbs u with hU
    have hvalU : val U = s.mag u := hmag
    -- the final step, common to the three paths: the block of w starts with `zeros ++ X`
    have hfin : ∀ X : List Nat, Limbs X → lc + X.length ≤ b.length → B ^ lc * val X = s.mag u * 2 ^ cnt →
        sizeNat (s.mag u * 2 ^ cnt) = lc + X.length →
        ∃ s', (Except.ok (s1.put w (wrAt b 0 (List.replicate lc 0 ++ X))
            (if s.size u ≥ 0 then ((lc + X.length : Nat) : Int) else -((lc + X.length : Nat) : Int))) : R St) = .ok s' ∧
          Res s s' w (s.value u * 2 ^ cnt) := by
      intro X hXL hXlen hXval hXsz
      have hlen : (List.replicate lc 0 ++ X).length = lc + X.length := by simp
      have hv : val (List.replicate lc 0 ++ X) = s.mag u * 2 ^ cnt := by rw [val_zeros_append, hXval]
      have p := put_list i1 hw1 hb (List.replicate lc 0 ++ X) (by rw [hlen]; exact hXlen)
        (Limbs_append.mpr ⟨Limbs_replicate_zero lc, hXL⟩) (by rw [hv, hlen]; exact hXsz) (decide (s.size u < 0))
      rw [hlen, hv] at p
      have hsz : (if decide (s.size u < 0) = true then -((lc + X.length : Nat) : Int) else ((lc + X.length : Nat) : Int)) =
          (if s.size u ≥ 0 then ((lc + X.length : Nat) : Int) else -((lc + X.length : Nat) : Int)) := by
        by_cases h0 : s.size u < 0
        · rw [if_pos (by simpa using h0), if_neg (by omega)]
        · rw [if_neg (by simpa using h0), if_pos (by omega)]
      rw [hsz] at p
      refine ⟨_, rfl, p.1, by rw [p.2.1.nv, nv1], ?_, fun i hi hiw => by rw [p.2.1.value_o i1 hw1 (by rw [nv1]; exact hi) hiw, val1 i hi]⟩
      rw [p.2.2, value_eq_sgnv]
      unfold sgnv
      by_cases h0 : s.size u < 0
      · rw [if_pos (by simpa using h0), if_pos h0]; push_cast; ring
      · rw [if_neg (by simpa using h0), if_neg h0]; push_cast; ring
    have hsplit : B ^ lc * 2 ^ (cnt % 64) = 2 ^ cnt := DivZ.pow_split cnt
    have hfit : lc + n + 1 ≤ b.length := by omega
    have hfitU : lc + U.length ≤ b.length := by rw [hUlen]; omega
    by_cases hc : cnt % 64 = 0
    · -- whole limbs: MPN_COPY_DECR
      rw [if_neg (by simpa using hc)]
      have hcopy : mpn_copy false (s1.ptr w) lc (s1.ptr u) 0 n s1 = .ok (s1.setBlk (s1.ptr w) (some (wrAt b lc U))) := by
        unfold mpn_copy
        simp only [Bool.false_eq_true, false_and, if_false, bind, Except.bind, Bool.not_false, true_and,
          Nat.not_lt_zero, and_false, false_and, hld]
        exact storeAt_ok hb hfitU
      rw [hcopy]; simp only []
      rw [storeAt_ok (setBlk_blk_self _ _ _) (by rw [wrAt_length hfitU]; simp only [List.length_replicate]; omega),
        setBlk_setBlk, wrAt_wrAt_zero (by simp) hfitU]
      simp only []
      have := hfin U hLU (by rw [hUlen]; omega) (by rw [hvalU, ← hsplit, hc]; ring)
        (by rw [hUlen]; apply sizeNat_eq
            · rw [← hsplit, hc, pow_zero, Nat.mul_one]
              calc B ^ (lc + n - 1) = B ^ lc * B ^ (n - 1) := by rw [← pow_add]; congr 1; omega
                _ ≤ B ^ lc * s.mag u := Nat.mul_le_mul_left _ (by rw [← hmag]; exact hU1)
                _ = s.mag u * B ^ lc := Nat.mul_comm _ _
            · rw [← hsplit, hc, pow_zero, Nat.mul_one, pow_add, Nat.mul_comm]
              exact Nat.mul_lt_mul_of_pos_left (by rw [← hmag]; exact hU2) (DivZ.Bpow_pos _)
            · omega)
      rw [hUlen] at this
      rw [Nat.add_comm n lc]
      exact this
    · rw [if_pos (by simpa using hc)]
      set c := cnt % 64 with hcdef
      have hc64 : c < 64 := Nat.mod_lt _ (by decide)
      set v := val U * 2 ^ c with hv
      have hlsh : mpn_lshift (s1.ptr w) lc (s1.ptr u) 0 n c s1 =
          .ok (v / B ^ n, s1.setBlk (s1.ptr w) (some (wrAt b lc (toLimbs n v)))) := by
        unfold mpn_lshift
        have ha : ¬ ¬ (1 ≤ n ∧ 1 ≤ c ∧ c < 64) := by
          have : 1 ≤ c := Nat.one_le_iff_ne_zero.mpr hc
          tauto
        simp only [ha, if_false, bind, Except.bind, Nat.not_lt_zero, false_and, and_false, hld, pure, Except.pure]
        rw [storeAt_ok hb (by rw [toLimbs_length]; omega)]
      rw [hlsh]; simp only []
      have h2c : 2 ^ c < B := by
        show 2 ^ c < 2 ^ 64
        exact Nat.pow_lt_pow_right (by decide) hc64
      have h2c1 : 1 ≤ 2 ^ c := Nat.one_le_two_pow
      have hvlt : v < B ^ (n + 1) := by
        rw [pow_succ]
        calc v = val U * 2 ^ c := rfl
          _ < B ^ n * 2 ^ c := Nat.mul_lt_mul_of_pos_right (by rw [hvalU, ← hmag]; exact hU2) (by omega)
          _ ≤ B ^ n * B := Nat.mul_le_mul_left _ (Nat.le_of_lt h2c)
      have hvge : B ^ (n - 1) ≤ v := by
        calc B ^ (n - 1) ≤ val U := by rw [hvalU, ← hmag]; exact hU1
          _ ≤ val U * 2 ^ c := Nat.le_mul_of_pos_right _ (by omega)
      have hMv : s.mag u * 2 ^ cnt = B ^ lc * v := by
        rw [← hsplit, hv, hvalU]; ring
      have hhi : (toLimbs n v).length = n := toLimbs_length n v
      by_cases htop : v / B ^ n = 0
      · rw [if_neg (fun e => e htop)]
        simp only []
        have hvn : v < B ^ n := by
          rcases Nat.div_eq_zero_iff.mp htop with h' | h'
          · exact absurd h' (Nat.ne_of_gt (DivZ.Bpow_pos _))
          · exact h'
        rw [storeAt_ok (setBlk_blk_self _ _ _) (by rw [wrAt_length (by rw [hhi]; omega)]; simp only [List.length_replicate]; omega),
          setBlk_setBlk, wrAt_wrAt_zero (by simp) (by rw [hhi]; omega)]
        simp only []
        have := hfin (toLimbs n v) (Limbs_toLimbs _ _) (by rw [hhi]; omega)
          (by rw [val_toLimbs_lt hvn, hMv])
          (by rw [hhi, hMv]; apply sizeNat_eq
              · calc B ^ (lc + n - 1) = B ^ lc * B ^ (n - 1) := by rw [← pow_add]; congr 1; omega
                  _ ≤ B ^ lc * v := Nat.mul_le_mul_left _ hvge
              · rw [pow_add]; exact Nat.mul_lt_mul_of_pos_left hvn (DivZ.Bpow_pos _)
              · omega)
        rw [hhi] at this
        rw [Nat.add_comm n lc]
        exact this
      · rw [if_pos htop]
        have e1 : n + lc = lc + (toLimbs n v).length := by rw [hhi]; omega
        rw [e1, storeAt_ok (setBlk_blk_self _ _ _) (by rw [wrAt_length (by rw [hhi]; omega)]; simp only [List.length_cons, List.length_nil, hhi]; omega),
          setBlk_setBlk, wrAt_wrAt_next (by simp only [List.length_cons, List.length_nil, hhi]; omega)]
        simp only []
        have hXlen : (toLimbs n v ++ [v / B ^ n]).length = n + 1 := by simp [hhi]
        rw [storeAt_ok (setBlk_blk_self _ _ _) (by rw [wrAt_length (by rw [hXlen]; omega)]; simp only [List.length_replicate]; omega),
          setBlk_setBlk, wrAt_wrAt_zero (by simp) (by rw [hXlen]; omega)]
        simp only []
        have hvn : B ^ n ≤ v := by
          by_contra hcon
          exact htop (Nat.div_eq_of_lt (by omega))
        have htoplt : v / B ^ n < B := by
          rw [Nat.div_lt_iff_lt_mul (DivZ.Bpow_pos _), Nat.mul_comm, ← pow_succ]; exact hvlt
        have := hfin (toLimbs n v ++ [v / B ^ n])
          (Limbs_append.mpr ⟨Limbs_toLimbs _ _, by intro x hx; simp at hx; rw [hx]; exact htoplt⟩)
          (by rw [hXlen]; omega)
          (by rw [val_append, hhi, val_toLimbs]; simp only [val_cons, val_nil, Nat.mul_zero, Nat.add_zero]
              rw [hMv, Nat.mod_add_div])
          (by rw [hXlen, hMv]; apply sizeNat_eq
              · calc B ^ (lc + (n + 1) - 1) = B ^ lc * B ^ n := by rw [← pow_add]; congr 1
                  _ ≤ B ^ lc * v := Nat.mul_le_mul_left _ hvn
              · rw [pow_add]; exact Nat.mul_lt_mul_of_pos_left hvlt (DivZ.Bpow_pos _)
              · omega)
        rw [hXlen] at this
        have e2 : lc + (toLimbs n v).length + 1 = lc + (n + 1) := by rw [hhi]; omega
        rw [e2]
        exact this


theorem val_drop {l : List Nat} (hL : Limbs l) (k : Nat) (hk : k ≤ l.length) : val (l.drop k) = val l / B ^ k := by
  have h1 := val_take_drop l k hk
  have h2 := val_lt (l.take k) (Limbs_take hL _)
  have h3 : (l.take k).length = k := by simp; omega
  rw [h3] at h2
  rw [h1, Nat.add_comm, Nat.mul_add_div (DivZ.Bpow_pos _), Nat.div_eq_of_lt h2, Nat.add_zero]

theorem loadAt_var_off {s : St} (h : Inv s) {i : Nat} (hi : i < s.nv) (off : Nat) (ho : off ≤ (s.size i).natAbs) :
    s.loadAt (s.ptr i) off ((s.size i).natAbs - off) = .ok ((s.limbs i).drop off) := by
  obtain ⟨l, hl, hlen, _⟩ := h.live i hi
  have := h.fits i hi
  rw [loadAt_ok hl (by omega)]
  unfold St.limbs; rw [hl]; simp only [Option.getD_some]
  rw [List.drop_take]

theorem tdiv_q_2exp_ok {s : St} (h : Inv s) {w u : Nat} (hw : w < s.nv) (hu : u < s.nv) (cnt : Nat) :
    ∃ s', tdiv_q_2exp w u cnt s = .ok s' ∧ Res s s' w (DivZ.tdivQ (s.value u) ((2 ^ cnt : Nat) : Int)) := by
  unfold tdiv_q_2exp
  simp only [bind, Except.bind, pure, Except.pure]
  set n := (s.size u).natAbs with hn
  set lc := cnt / 64 with hlc
  have hspec : DivZ.tdivQ (s.value u) ((2 ^ cnt : Nat) : Int) =
      if s.size u ≥ 0 then ((s.mag u / 2 ^ cnt : Nat) : Int) else -((s.mag u / 2 ^ cnt : Nat) : Int) := by
    unfold DivZ.tdivQ
    rw [DivZ.tdiv_natCast, value_natAbs]
    have := h.size_neg_iff hu
    by_cases h0 : 0 ≤ s.value u
    · rw [if_pos h0, if_pos (by omega)]
    · rw [if_neg h0, if_neg (by omega)]
  by_cases hws : ((n : Nat) : Int) - ((lc : Nat) : Int) ≤ 0
  · rw [if_pos hws]
    obtain ⟨i2, u2, v2⟩ := setSize_zero_spec h hw
    have hlt : s.mag u < 2 ^ cnt := DivZ.lt_two_pow_of_size (by rw [← h.size_natAbs hu]; omega)
    refine ⟨_, rfl, i2, u2.nv, ?_, fun i hi hiw => u2.value_o h hw hi hiw⟩
    rw [v2, hspec, Nat.div_eq_of_lt hlt]; simp
  · rw [if_neg hws]
    have hlcn : lc < n := by omega
    have hwsN : (((n : Nat) : Int) - ((lc : Nat) : Int)).toNat = n - lc := by omega
    rw [hwsN]
    obtain ⟨i1, nv1, size1, val1, a1, _⟩ := realloc_spec h hw (n - lc)
    set s1 := s.mpzRealloc w (n - lc) with hs1
    have hw1 : w < s1.nv := by rw [nv1]; exact hw
    have hu1 : u < s1.nv := by rw [nv1]; exact hu
    obtain ⟨b, hb, hbl, hbL⟩ := i1.live w hw1
    have hld := loadAt_var_off i1 hu1 lc (by rw [size1]; omega); rw [size1, ← hn] at hld
    have hLU := (i1.limbs_spec hu1).2
    have hUlen := (i1.limbs_spec hu1).1; rw [size1, ← hn] at hUlen
    have hU2 := i1.mag_lt hu1; rw [size1, ← hn] at hU2
    have hU1 := i1.mag_ge hu1 (by rw [size1]; omega); rw [size1, ← hn] at hU1
    have hmag : s1.mag u = s.mag u := by rw [← value_natAbs, ← value_natAbs, val1 u hu]
    set U := s1.limbs u with hU
    have hvalU : val U = s.mag u := hmag
    set H := val (U.drop lc) with hH
    have hHval : H = s.mag u / B ^ lc := by rw [hH, val_drop hLU lc (by omega), hvalU]
    have hHlen : (U.drop lc).length = n - lc := by simp [hUlen]
    have hH2 : H < B ^ (n - lc) := by
      have := val_lt _ (Limbs_drop hLU lc); rwa [hHlen] at this
    have hH1 : B ^ (n - lc - 1) ≤ H := by
      rw [hHval, Nat.le_div_iff_mul_le (DivZ.Bpow_pos _), ← pow_add, ← hmag]
      have : n - lc - 1 + lc = n - 1 := by omega
      rw [this]; exact hU1
    have hfit : n - lc ≤ b.length := by omega
    by_cases hc : cnt % 64 = 0
    · rw [if_neg (by simpa using hc)]
      have hcopy : mpn_copy true (s1.ptr w) 0 (s1.ptr u) lc (n - lc) s1 =
          .ok (s1.setBlk (s1.ptr w) (some (wrAt b 0 (U.drop lc)))) := by
        unfold mpn_copy
        simp only [Nat.not_lt_zero, false_and, and_false, if_false, bind, Except.bind, Bool.not_true,
          Bool.false_eq_true, hld]
        exact storeAt_ok hb (by rw [hHlen]; omega)
      rw [hcopy]; simp only []
      have p := put_list i1 hw1 hb (U.drop lc) (by rw [hHlen]; omega) (Limbs_drop hLU lc)
        (by rw [hHlen]; exact sizeNat_eq hH1 hH2 (by omega)) (decide (s.size u < 0))
      rw [hHlen] at p
      have hsz : (if decide (s.size u < 0) = true then -((n - lc : Nat) : Int) else ((n - lc : Nat) : Int)) =
          (if s.size u ≥ 0 then ((n - lc : Nat) : Int) else -((n - lc : Nat) : Int)) := by
        by_cases h0 : s.size u < 0
        · rw [if_pos (by simpa using h0), if_neg (by omega)]
        · rw [if_neg (by simpa using h0), if_pos (by omega)]
      rw [hsz] at p
      refine ⟨_, rfl, p.1, by show (s1.put w _ _).nv = _; rw [p.2.1.nv, nv1], ?_, fun i hi hiw => ?_⟩
      · show (s1.put w _ _).value w = _
        rw [p.2.2, hspec, ← hH, hHval]
        have : 2 ^ cnt = B ^ lc := by rw [← DivZ.pow_split cnt, hc, pow_zero, Nat.mul_one]
        rw [this]
        by_cases h0 : s.size u < 0
        · rw [if_pos (by simpa using h0), if_neg (by omega)]
        · rw [if_neg (by simpa using h0), if_pos (by omega)]
      · show (s1.put w _ _).value i = _
        rw [p.2.1.value_o i1 hw1 (by rw [nv1]; exact hi) hiw, val1 i hi]
    · rw [if_pos (by simpa using hc)]
      set c := cnt % 64 with hcdef
      have hc64 : c < 64 := Nat.mod_lt _ (by decide)
      have h2c : 2 ^ c < B := by
        show 2 ^ c < 2 ^ 64
        exact Nat.pow_lt_pow_right (by decide) hc64
      set Q := H / 2 ^ c with hQ
      have hrsh : mpn_rshift (s1.ptr w) 0 (s1.ptr u) lc (n - lc) c s1 =
          .ok (H % 2 ^ c * 2 ^ (64 - c), s1.setBlk (s1.ptr w) (some (wrAt b 0 (toLimbs (n - lc) Q)))) := by
        unfold mpn_rshift
        have ha : ¬ ¬ (1 ≤ n - lc ∧ 1 ≤ c ∧ c < 64) := by
          have : 1 ≤ c := Nat.one_le_iff_ne_zero.mpr hc
          have : 1 ≤ n - lc := by omega
          tauto
        simp only [ha, if_false, bind, Except.bind, Nat.not_lt_zero, false_and, and_false, hld, pure, Except.pure]
        rw [storeAt_ok hb (by rw [toLimbs_length]; omega)]
      rw [hrsh]; simp only []
      obtain ⟨hQlt, hQsz⟩ := quot_size (N := H) (D := 2 ^ c) (nl := n - lc) (dl := 1) hH1 hH2
        (by simp; exact Nat.one_le_two_pow) (by simpa using h2c) (Nat.le_refl 1) (by omega)
      have e1 : n - lc - 1 + 1 = n - lc := by omega
      rw [e1] at hQlt hQsz
      rw [limbAt_of_blk (setBlk_blk_self _ _ _) (by rw [wrAt_length (by rw [toLimbs_length]; omega)]; omega)]
      simp only []
      rw [wrAt_zero, getD_append_left (by rw [toLimbs_length]; omega), toLimbs_getD _ _ _ (by omega), toLimbs_length]
      rw [hQsz]
      have hQsz' : sizeNat Q ≤ n - lc := (DivZ.sizeNat_le_iff _ _).mpr hQlt
      have p := put_upd i1 hw1 (toLimbs (n - lc) Q ++ b.drop (n - lc)) Q (decide (s.size u < 0))
        (by rw [length_wr' (by omega)]; exact hbl) (Limbs_wr' (Limbs_toLimbs _ _) hbL) (by omega)
        (val_take_wr _ hQsz')
      have hsz : (if decide (s.size u < 0) = true then -((sizeNat Q : Nat) : Int) else ((sizeNat Q : Nat) : Int)) =
          (if s.size u ≥ 0 then ((sizeNat Q : Nat) : Int) else -((sizeNat Q : Nat) : Int)) := by
        by_cases h0 : s.size u < 0
        · rw [if_pos (by simpa using h0), if_neg (by omega)]
        · rw [if_neg (by simpa using h0), if_pos (by omega)]
      rw [hsz] at p
      refine ⟨_, rfl, p.1, by show (s1.put w _ _).nv = _; rw [p.2.1.nv, nv1], ?_, fun i hi hiw => ?_⟩
      · show (s1.put w _ _).value w = _
        rw [p.2.2, hspec, hQ, hHval, DivZ.div_split]
        by_cases h0 : s.size u < 0
        · rw [if_pos (by simpa using h0), if_neg (by omega)]
        · rw [if_neg (by simpa using h0), if_pos (by omega)]
      · show (s1.put w _ _).value i = _
        rw [p.2.1.value_o i1 hw1 (by rw [nv1]; exact hi) hiw, val1 i hi]

end Mpir.AliasMem
