/- Refinement proof for the size-aware model of mpz/sqrtrem.c (Mpir/Model/AllocSafeMpz4.lean `sqrtrem`): two destinations
   (root ≠ rem), `_mpz_realloc (rem, op_size)` first — op's pointer is fetched after it, rem may be op —, then the root block as
   in mpz_sqrt; mpn_sqrtrem stores (op_size + 1) / 2 root limbs and works within op_size remainder limbs. -/
import MpirProofs.Lemmas.AllocSafeTdivQr
namespace Mpir.AllocSafe
open Mpir
open Mpir.Mpz (sgn natAbs_sgn Norm WF toInt mk_spec WF_iff grow_alloc)

/-- value-level remainder of mpz_sqrtrem with the allocation the C leaves -/
def Spec.sqrtrem_rem (w u : Mpz.Mpz) : Mpz.Mpz :=
  if u.size ≤ 0 then { w with size := 0, d := [] }
  else
    let m := toLimbs u.size.natAbs (val u.d - Nat.sqrt (val u.d) * Nat.sqrt (val u.d))
    ⟨(Mpz.grow w u.size.natAbs).alloc, ((Mpir.normalize m).length : Int), Mpir.normalize m⟩

/-- sqrtrem.c:84-91 on a state whose blocks of root and rem have room -/
theorem sqrtremTail_refines (s2 : St) (root rem : Nat) (op : Src) (U : List Nat) (hok : s2.ok = true)
    (hbq : BWF (s2.h root).buf) (hbr : BWF (s2.h rem).buf) (DU : Den s2 op U) (hne : root ≠ rem)
    (hroomq : (U.length + 1) / 2 ≤ (s2.h root).buf.alloc) (hroomr : U.length ≤ (s2.h rem).buf.alloc) :
    Safe2 s2 (sqrtremTail s2 root rem op U.length ((U.length + 1) / 2)) root rem
      ⟨(s2.h root).buf.alloc, (((U.length + 1) / 2 : Nat) : Int), toLimbs ((U.length + 1) / 2) (Nat.sqrt (val U))⟩
      ⟨(s2.h rem).buf.alloc,
        ((Mpir.normalize (toLimbs U.length (val U - Nat.sqrt (val U) * Nat.sqrt (val U)))).length : Int),
        Mpir.normalize (toLimbs U.length (val U - Nat.sqrt (val U) * Nat.sqrt (val U)))⟩ := by
  have hrq : rem ≠ root := fun h => hne h.symm
  obtain ⟨eu, oku⟩ := DU.rd U.length (Nat.le_refl _)
  rw [List.take_length] at eu
  unfold sqrtremTail
  simp only [mpn_sqrtrem_S, eu, oku, chk_true]
  generalize hQ : toLimbs ((U.length + 1) / 2) (Nat.sqrt (val U)) = Q
  generalize hR : toLimbs U.length (val U - Nat.sqrt (val U) * Nat.sqrt (val U)) = R
  have hQl : Q.length = (U.length + 1) / 2 := by rw [← hQ, toLimbs_len]
  have hRl : R.length = U.length := by rw [← hR, toLimbs_len]
  have hQL : Limbs Q := by rw [← hQ]; exact toLimbs_limbs _ _
  have hRL : Limbs R := by rw [← hR]; exact toLimbs_limbs _ _
  have Wq := Wrote.fresh s2 root Q true hok rfl hbq hQL (by rw [hQl]; exact hroomq)
  rw [chk_true] at Wq
  have h3r : (s2.wr (s2.PTR root) Q).h rem = s2.h rem := Wq.frame rem hrq
  have hp3 : (s2.wr (s2.PTR root) Q).PTR rem = s2.PTR rem := by simp [St.PTR, h3r]
  have Wr := Wrote.fresh (s2.wr (s2.PTR root) Q) rem R true Wq.ok rfl (by rw [h3r]; exact hbr) hRL
    (by rw [h3r, hRl]; exact hroomr)
  rw [chk_true, hp3] at Wr
  have h4q : ((s2.wr (s2.PTR root) Q).wr (s2.PTR rem) R).h root = (s2.wr (s2.PTR root) Q).h root := Wr.frame root hne
  refine ⟨by simpa using Wr.ok, ?_, ?_, ?_, ?_, ?_⟩
  · rw [setSize_other _ _ _ hne]; simp only [setSize_buf, h4q]; exact Wq.bwf
  · simp only [setSize_buf]; exact Wr.bwf
  · rw [setSize_other _ _ _ hne, view_setSize, h4q, Int.natAbs_natCast, Wq.alloc]
    congr 1
    rw [← hQl, Wq.lim]
  · rw [view_setSize, setSize_buf, Int.natAbs_natCast, Wr.alloc, h3r]
    congr 1
    have hk := Mpz.normalize_length_le R
    conv_lhs => rw [← take_take_le (((s2.wr (s2.PTR root) Q).wr (s2.PTR rem) R).h rem).buf.limbs hk]
    rw [Wr.lim, take_normalize_length]
  · intro x hxq hxr
    rw [setSize_other _ _ _ hxr, setSize_other _ _ _ hxq, Wr.frame x hxr, Wq.frame x hxq]

theorem Safe2.rebase {s s1 s' : St} {q r : Nat} {mq mr : Mpz.Mpz} (S : Safe2 s1 s' q r mq mr)
    (hf : ∀ x, x ≠ q → x ≠ r → s1.h x = s.h x) : Safe2 s s' q r mq mr :=
  ⟨S.ok, S.bq, S.br, S.vq, S.vr, fun x h1 h2 => (S.frame x h1 h2).trans (hf x h1 h2)⟩

theorem sqrtrem_refines (s : St) (root rem op : Nat) (hs : s.ok = true)
    (hq : OWF (s.h root)) (hr : OWF (s.h rem)) (ho : OWF (s.h op)) (hpos : 0 ≤ (s.h op).size) (hne : root ≠ rem) :
    ∃ s', sqrtrem 0 s root rem op = some s' ∧
      Safe2 s s' root rem (Spec.sqrt (view (s.h root)) (view (s.h op))) (Spec.sqrtrem_rem (view (s.h rem)) (view (s.h op))) := by
  have hrq : rem ≠ root := fun h => hne h.symm
  unfold sqrtrem Spec.sqrt Spec.sqrtrem_rem
  rw [show s.SIZ op = (s.h op).size from rfl]
  have e1 : (view (s.h op)).size = (s.h op).size := rfl
  have e2 : (view (s.h root)).alloc = (s.h root).buf.alloc := rfl
  rw [e1, e2]
  have hUl := view_d_length ho
  by_cases h0 : (s.h op).size ≤ 0
  · have hn : ¬ (s.h op).size < 0 := by omega
    simp only [h0, hn, if_true, if_false]
    refine ⟨_, rfl, by simpa using hs, ?_, ?_, ?_, ?_, ?_⟩
    · rw [setSize_other _ _ _ hne]; simpa using hq.1
    · simpa using hr.1
    · rw [setSize_other _ _ _ hne, view_setSize]; rfl
    · rw [view_setSize, setSize_buf]; rfl
    · intro x h1 h2; rw [setSize_other _ _ _ h2, setSize_other _ _ _ h1]
  · simp only [h0, if_false, Nat.sub_zero]
    have G1 := MPZ_REALLOC_grown s rem (s.h op).size.natAbs hr
    have halloc1 : (Mpz.grow (view (s.h rem)) (s.h op).size.natAbs).alloc =
      ((MPZ_REALLOC s rem (s.h op).size.natAbs).h rem).buf.alloc := G1.alloc.symm
    rw [halloc1]
    have hok1 : (MPZ_REALLOC s rem (s.h op).size.natAbs).ok = true := by rw [G1.ok]; exact hs
    have hbr1 := G1.bwf rem hr.1
    have hroom1 := G1.room
    obtain ⟨O1q, _, _⟩ := G1.owf hq
    obtain ⟨O1o, d1o, z1o⟩ := G1.owf ho
    have hq1 : (MPZ_REALLOC s rem (s.h op).size.natAbs).h root = s.h root := G1.other root hne
    have hfr1 := G1.other
    rw [show (MPZ_REALLOC s rem (s.h op).size.natAbs).ALLOC root = (s.h root).buf.alloc by simp [St.ALLOC, hq1]]
    generalize MPZ_REALLOC s rem (s.h op).size.natAbs = s1 at *
    have hU1 : (view (s1.h op)).d.length = (s.h op).size.natAbs := by rw [d1o]; exact hUl
    rw [← hUl]
    have fin : ∀ (s2 : St) (opS : Src), s2.ok = true → BWF (s2.h root).buf → s2.h rem = s1.h rem →
        Den s2 opS (view (s.h op)).d → ((view (s.h op)).d.length + 1) / 2 ≤ (s2.h root).buf.alloc →
        (∀ x, x ≠ root → x ≠ rem → s2.h x = s1.h x) →
        Safe2 s (sqrtremTail s2 root rem opS (view (s.h op)).d.length (((view (s.h op)).d.length + 1) / 2)) root rem
          ⟨(s2.h root).buf.alloc, ((((view (s.h op)).d.length + 1) / 2 : Nat) : Int),
            toLimbs (((view (s.h op)).d.length + 1) / 2) (Nat.sqrt (val (view (s.h op)).d))⟩
          ⟨(s1.h rem).buf.alloc,
            ((Mpir.normalize (toLimbs (view (s.h op)).d.length
              (val (view (s.h op)).d - Nat.sqrt (val (view (s.h op)).d) * Nat.sqrt (val (view (s.h op)).d)))).length : Int),
            Mpir.normalize (toLimbs (view (s.h op)).d.length
              (val (view (s.h op)).d - Nat.sqrt (val (view (s.h op)).d) * Nat.sqrt (val (view (s.h op)).d)))⟩ := by
      intro s2 opS ok2 bq2 hrem2 D2 room2 fr2
      have T := sqrtremTail_refines s2 root rem opS (view (s.h op)).d ok2 bq2 (by rw [hrem2]; exact hbr1) D2 hne room2
        (by rw [hrem2, hUl]; exact hroom1)
      rw [hrem2] at T
      exact T.rebase (fun x h1 h2 => (fr2 x h1 h2).trans (hfr1 x h2))
    by_cases hal : (s.h root).buf.alloc < ((view (s.h op)).d.length + 1) / 2
    · simp only [hal, if_true]
      have hneo : root ≠ op := by
        intro h; rw [h] at hal
        have := view_fit ho
        rw [hUl] at hal; omega
      have e : (root == op) = false := by simpa using hneo
      simp only [e, Bool.false_eq_true, if_false]
      refine ⟨_, rfl, ?_⟩
      have D2 : Den (freshBlock s1 root (((view (s.h op)).d.length + 1) / 2)) (.ptr (s1.PTR op)) (view (s.h op)).d := by
        have := (Den.of_owf O1o).fresh (w := root) (n := ((view (s.h op)).d.length + 1) / 2) (fun h => hneo h.symm)
        rw [d1o] at this; exact this
      have F := fin (freshBlock s1 root (((view (s.h op)).d.length + 1) / 2)) _ (by rw [freshBlock_ok]; exact hok1)
        (freshBlock_bwf _ _ _) (freshBlock_other s1 root _ hrq) D2 (by rw [freshBlock_alloc])
        (fun x h1 _ => freshBlock_other s1 root _ h1)
      rw [freshBlock_alloc] at F
      exact F
    · simp only [hal, if_false]
      have hb1q : BWF (s1.h root).buf := by rw [hq1]; exact hq.1
      have hroomq : ((view (s.h op)).d.length + 1) / 2 ≤ (s1.h root).buf.alloc := by rw [hq1]; omega
      have ha1 : (s1.h root).buf.alloc = (s.h root).buf.alloc := by rw [hq1]
      have D1 : Den s1 (.ptr (s1.PTR op)) (view (s.h op)).d := by
        have := Den.of_owf O1o
        rw [d1o] at this; exact this
      by_cases hro : root = op
      · have e : (root == op) = true := by simpa using hro
        simp only [e, if_true]
        refine ⟨_, rfl, ?_⟩
        obtain ⟨c1, c2⟩ := tmp_copy_spec s1 (s1.PTR op) (view (s.h op)).d D1
        rw [c1]
        have F := fin s1 _ hok1 hb1q rfl (c2 s1) hroomq (fun _ _ _ => rfl)
        rw [ha1] at F
        exact F
      · have e : (root == op) = false := by simpa using hro
        simp only [e, Bool.false_eq_true, if_false]
        have F := fin s1 _ hok1 hb1q rfl D1 hroomq (fun _ _ _ => rfl)
        rw [ha1] at F
        exact ⟨_, rfl, F⟩

theorem Spec.sqrtrem_rem_spec (w u : Mpz.Mpz) (hw : 1 ≤ w.alloc) (hu : WF u) (hpos : 0 ≤ u.size) :
    WF (Spec.sqrtrem_rem w u) ∧
    toInt (Spec.sqrtrem_rem w u) =
      (((toInt u).toNat - Nat.sqrt (toInt u).toNat * Nat.sqrt (toInt u).toNat : Nat) : Int) := by
  obtain ⟨_, _, hul, hun⟩ := (WF_iff u).mp hu
  have hti : toInt u = (val u.d : Int) := by
    rw [Mpz.toInt_eq]; unfold Mpz.sval; rw [if_neg (by omega)]
  unfold Spec.sqrtrem_rem
  by_cases h0 : u.size ≤ 0
  · rw [if_pos h0]
    have hz : u.size = 0 := by omega
    have hd : u.d = [] := List.length_eq_zero_iff.mp (by rw [hul, hz]; rfl)
    refine ⟨(Mpz.WF_zero w hw).1, ?_⟩
    rw [hti, hd]; simp [toInt]
  · rw [if_neg h0]
    dsimp only
    obtain ⟨ga1, ga2⟩ := grow_alloc w u.size.natAbs
    have hup := hun.upper
    rw [hul] at hup
    have hlt : val u.d - Nat.sqrt (val u.d) * Nat.sqrt (val u.d) < B ^ u.size.natAbs := by omega
    obtain ⟨rv, rl, rL⟩ := DivZ.val_toLimbs u.size.natAbs (val u.d - Nat.sqrt (val u.d) * Nat.sqrt (val u.d))
    rw [Nat.mod_eq_of_lt hlt] at rv
    have hN := Mpz.Norm_normalize rL
    have hlen := Mpz.normalize_length_le (toLimbs u.size.natAbs (val u.d - Nat.sqrt (val u.d) * Nat.sqrt (val u.d)))
    rw [rl] at hlen
    obtain ⟨wf, ti⟩ := mk_spec (Mpz.grow w u.size.natAbs).alloc _ false _ rfl hN (by omega) (by omega)
    simp only [sgn, Bool.false_eq_true, if_false] at wf ti
    refine ⟨wf, ?_⟩
    rw [ti, Mpz.val_normalize, rv, hti]; simp

end Mpir.AllocSafe
