/- mpn_mulmod_2expm1: the recursion (mulmod_2expm1.c:114-291). -/
import MpirProofs.Lemmas.Mulmod2expm1e
namespace Mpir.Mm1
open Mpir Mpir.Fft

/-- the contract of mpn_mulmod_2expp1_basecase (what `Fft.mulmod_2expp1_basecase_val` proves of the model of its
    non-FFT branch): the product of the flagged operands modulo `2^b + 1`, fully reduced, `2^b` as return value 1 -/
def P1Spec (pp1 : List Nat → List Nat → Nat → Nat → List Nat × Nat) : Prop :=
  ∀ (yp zp : List Nat) (c b : Nat), 1 ≤ b → Limbs yp → Limbs zp →
    yp.length = (b + 63) / 64 → zp.length = (b + 63) / 64 → val yp < 2 ^ b → val zp < 2 ^ b →
    (pp1 yp zp c b).1.length = (b + 63) / 64 ∧ Limbs (pp1 yp zp c b).1 ∧ (pp1 yp zp c b).2 ≤ 1 ∧
    val (pp1 yp zp c b).1 + 2 ^ b * (pp1 yp zp c b).2 ≤ 2 ^ b ∧
    ((val (pp1 yp zp c b).1 : Int) + 2 ^ b * (pp1 yp zp c b).2 ≡
      flaggedb (c / 2 % 2) b yp * flaggedb (c % 2) b zp [ZMOD 2 ^ b + 1])

theorem mm1F_step (thr : Nat) (pp1 : List Nat → List Nat → Nat → Nat → List Nat × Nat) (fuel : Nat)
    (yp zp : List Nat) (b : Nat) :
    mm1F thr pp1 (fuel + 1) yp zp b =
      if b % 2 = 1 || (b + 63) / 64 < thr then basecase yp zp b
      else
        let n := (b + 63) / 64
        let h := b / 2
        let m := (h + 63) / 64
        let k := 64 * m - h
        let sy := split yp n m k
        let sz := split zp n m k
        let Sr := mm1F thr pp1 fuel sy.1 sz.1 h
        let Dr := pp1 sy.2.1 sz.2.1 (sy.2.2.1 * 2 + sz.2.2.1) h
        let R := recombine Sr.1 Dr.1 Dr.2 m k
        (assemble R.1 R.2 b n m k, sy.2.2.2 && sz.2.2.2 && Sr.2) := by
  rw [mm1F]

theorem mm1F_spec (thr : Nat) (pp1 : List Nat → List Nat → Nat → Nat → List Nat × Nat) (hpp1 : P1Spec pp1) :
    ∀ (fuel b : Nat) (yp zp : List Nat), b ≤ fuel → 1 ≤ b → Limbs yp → Limbs zp →
      yp.length = (b + 63) / 64 → zp.length = (b + 63) / 64 → val yp < 2 ^ b → val zp < 2 ^ b →
      Good b (val yp * val zp) (mm1F thr pp1 fuel yp zp b) := by
  intro fuel
  induction fuel with
  | zero => intro b yp zp h1 h2; omega
  | succ fuel ih =>
    intro b yp zp hbf hb hy hz hly hlz hyb hzb
    rw [mm1F_step]
    by_cases hbase : (b % 2 = 1 || (b + 63) / 64 < thr) = true
    · rw [if_pos hbase]; exact basecase_spec yp zp b hb hy hz hly hlz hyb hzb
    · rw [if_neg hbase]
      have hev : b % 2 = 0 := by
        by_contra hne
        have : b % 2 = 1 := by omega
        simp [this] at hbase
      clear hbase
      simp only
      -- the sizes
      obtain ⟨h, hhd⟩ : ∃ h, h = b / 2 := ⟨_, rfl⟩
      have hb2 : b = 2 * h := by omega
      have hh1 : 1 ≤ h := by omega
      obtain ⟨m, hmd⟩ : ∃ m, m = (h + 63) / 64 := ⟨_, rfl⟩
      have hm1 : 1 ≤ m := by omega
      obtain ⟨k, hkd⟩ : ∃ k, k = 64 * m - h := ⟨_, rfl⟩
      have hk : k ≤ 63 := by omega
      have hhk : h = 64 * m - k := by omega
      obtain ⟨n, hnd⟩ : ∃ n, n = (b + 63) / 64 := ⟨_, rfl⟩
      rw [← hhd, ← hmd, ← hkd, ← hnd]
      rw [← hnd] at hly hlz
      have hpow : (2 : Nat) ^ b = 2 ^ h * 2 ^ h := by rw [hb2, two_mul, pow_add]
      obtain ⟨H2, hH2d⟩ : ∃ H2, H2 = 2 ^ (h - 1) := ⟨_, rfl⟩
      have hH : 2 ^ h = 2 * H2 := by rw [hH2d, ← pow_succ']; congr 1; omega
      have hH21 : 1 ≤ H2 := by rw [hH2d]; exact Nat.one_le_two_pow
      -- the two splits
      have hsy := split_spec yp n m k hm1 hk (by omega) (by rw [← hhk, ← hb2]; exact hnd) hy hly
        (by rw [← hhk, ← hpow]; exact hyb)
      have hsz := split_spec zp n m k hm1 hk (by omega) (by rw [← hhk, ← hb2]; exact hnd) hz hlz
        (by rw [← hhk, ← hpow]; exact hzb)
      rw [← hhk] at hsy hsz
      generalize split yp n m k = sy at *
      generalize split zp n m k = sz at *
      obtain ⟨y1, y2, y3, y4, y5, y6, y7, y8, y9, y10, y11, y12⟩ := hsy
      obtain ⟨z1, z2, z3, z4, z5, z6, z7, z8, z9, z10, z11, z12⟩ := hsz
      -- the recursion and the +1 half
      have hS := ih h sy.1 sz.1 (by omega) hh1 y3 z3 (by rw [y2, hmd]) (by rw [z2, hmd]) y4 z4
      have hD := hpp1 sy.2.1 sz.2.1 (sy.2.2.1 * 2 + sz.2.2.1) h hh1 y8 z8 (by rw [y7, hmd]) (by rw [z7, hmd]) y9 z9
      have hc1 : (sy.2.2.1 * 2 + sz.2.2.1) / 2 % 2 = sy.2.2.1 := by omega
      have hc2 : (sy.2.2.1 * 2 + sz.2.2.1) % 2 = sz.2.2.1 := by omega
      rw [hc1, hc2] at hD
      generalize mm1F thr pp1 fuel sy.1 sz.1 h = Sr at *
      generalize pp1 sy.2.1 sz.2.1 (sy.2.2.1 * 2 + sz.2.2.1) h = Dr at *
      obtain ⟨s1, s2, s3, s4, s5, s6⟩ := hS
      obtain ⟨d1, d2, d3, d4, d5⟩ := hD
      rw [← hmd] at s2 d1
      -- recombination and halving
      have hR := recombine_spec Sr.1 Dr.1 Dr.2 m k H2 hm1 hk (by rw [← hhk]; exact hH) hH21 s3 d2 s2 d1
        (by rw [← hH]; exact s4) d3 (by rw [← hH]; exact d4)
      generalize recombine Sr.1 Dr.1 Dr.2 m k = R at *
      obtain ⟨r1, r2, r3, r4, r5, r6, r7, r8⟩ := hR
      have hA := assemble_spec R.1 R.2 b n m k hm1 hk (by omega) (by rw [← hhk]; exact hb2) hnd r2 r4 r1 r3
        (by rw [← hhk, hH]; exact r5) (by rw [← hhk, hH]; exact r6)
      rw [← hhk] at hA
      generalize assemble R.1 R.2 b n m k = X at *
      obtain ⟨a1, a2, a3⟩ := hA
      -- the congruences of S and D with the product
      have hP1 : val Sr.1 % (2 * H2 - 1) = (val yp * val zp) % (2 * H2 - 1) := by
        rw [← hH, s5]
        exact Nat.ModEq.mul y5 z5
      have hP2 : ((val Dr.1 + 2 * H2 * Dr.2 : Nat) : Int) ≡ ((val yp * val zp : Nat) : Int) [ZMOD (2 * H2 : Int) + 1] := by
        have e1 : ((val Dr.1 + 2 * H2 * Dr.2 : Nat) : Int) = (val Dr.1 : Int) + 2 ^ h * Dr.2 := by
          rw [← hH]; push_cast; ring
        have e2 : (2 * H2 : Int) + 1 = 2 ^ h + 1 := by
          have := congrArg (fun z : Nat => (z : Int)) hH
          push_cast at this; rw [this]
        rw [e1, e2]
        refine d5.trans ?_
        push_cast
        exact Int.ModEq.mul y11 z11
      have hb1 : 2 ^ (b - 1) = 2 * H2 * H2 := by
        rw [hH2d, ← pow_succ', ← pow_add]; congr 1; omega
      have hbb : 2 ^ b = 2 * H2 * (2 * H2) := by rw [hpow, hH]
      have hcrt := crt_core H2 (val Sr.1) (val Dr.1 + 2 * H2 * Dr.2) (val yp * val zp) (val R.1 + 2 * H2 * val R.2)
        hH21 hP1 hP2 (by push_cast at r8 ⊢; exact r8)
      rw [hH, hb1] at a3
      refine ⟨by rw [y1, z1, s1]; rfl, by show X.length = _; rw [a1, hnd], a2, ?_, ?_, ?_⟩
      · show val X < 2 ^ b
        rw [a3, hbb]
        have hW : val R.1 + 2 * H2 * val R.2 < 2 * H2 * (2 * H2) := by
          have : 2 * H2 * (val R.2 + 1) ≤ 2 * H2 * (2 * H2) := Nat.mul_le_mul_left _ (by omega)
          have e : 2 * H2 * (val R.2 + 1) = 2 * H2 * val R.2 + 2 * H2 := by ring
          omega
        have e : 2 * H2 * (2 * H2) = 2 * (2 * H2 * H2) := by ring
        rw [e] at hW ⊢
        generalize val R.1 + 2 * H2 * val R.2 = W at *
        generalize 2 * H2 * H2 = T at *
        have : W % 2 ≤ 1 := by omega
        rcases Nat.eq_zero_or_pos (W % 2) with h0 | h0
        · rw [h0]; omega
        · have h1 : W % 2 = 1 := by omega
          rw [h1]; omega
      · show val X % (2 ^ b - 1) = _
        rw [a3, hbb]; exact hcrt
      · show val X = 0 ↔ _
        rw [a3]
        have hTpos : 0 < 2 * H2 * H2 := by positivity
        constructor
        · intro hx
          have hW0 : val R.1 + 2 * H2 * val R.2 = 0 := by
            generalize val R.1 + 2 * H2 * val R.2 = W at *
            generalize 2 * H2 * H2 = T at *
            rcases Nat.eq_zero_or_pos (W % 2) with h0 | h0
            · rw [h0] at hx; omega
            · have h1 : W % 2 = 1 := by omega
              rw [h1] at hx; omega
          have hR0 : val R.1 = 0 ∧ val R.2 = 0 := by
            constructor
            · omega
            · have : 2 * H2 * val R.2 = 0 := by omega
              rcases Nat.mul_eq_zero.mp this with h | h
              · omega
              · exact h
          obtain ⟨hS0, _⟩ := r7.mp hR0
          have := s6.mp hS0
          rcases Nat.mul_eq_zero.mp this with h | h
          · rw [y6.mp h]; simp
          · rw [z6.mp h]; simp
        · intro hP
          have hSD : val Sr.1 = 0 ∧ val Dr.1 + 2 * H2 * Dr.2 = 0 := by
            constructor
            · apply s6.mpr
              rcases Nat.mul_eq_zero.mp hP with h | h
              · rw [y6.mpr h]; simp
              · rw [z6.mpr h]; simp
            · have hz0 : ((val Dr.1 + 2 * H2 * Dr.2 : Nat) : Int) ≡ 0 [ZMOD (2 * H2 : Int) + 1] := by
                rw [hP] at hP2; exact_mod_cast hP2
              have hlt : val Dr.1 + 2 * H2 * Dr.2 < 2 * H2 + 1 := by rw [← hH]; omega
              have hdv := Int.emod_eq_zero_of_dvd (Int.modEq_zero_iff_dvd.mp hz0)
              have hnn : ((val Dr.1 + 2 * H2 * Dr.2 : Nat) : Int) % ((2 * H2 : Int) + 1) = ((val Dr.1 + 2 * H2 * Dr.2 : Nat) : Int) :=
                Int.emod_eq_of_lt (by positivity) (by exact_mod_cast hlt)
              rw [hnn] at hdv
              exact_mod_cast hdv
          obtain ⟨hR1, hR2⟩ := r7.mpr hSD
          rw [hR1, hR2]; simp
end Mpir.Mm1
