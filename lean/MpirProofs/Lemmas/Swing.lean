/- The prime-swing algorithm of mpz/oddfac_1.c (`mpz_2multiswing_1`, model in Mpir/Model/Numth.lean):
   Legendre's formula in recursive form, the exponent of p in the swing number n! / ⌊n/2⌋!², the
   SWING_A_PRIME / SH_SWING_A_PRIME macros, the three prime ranges, products over the sieve walk. -/
import MpirProofs.Lemmas.SieveLoop
namespace Mpir.Numth
open Mpir Mpir.Gen.NumthTabs Mpir.Sieve
open Nat

/-! ## Legendre, recursively; the swing exponent -/

theorem legendre_step (p q : ℕ) [hp : Fact p.Prime] : padicValNat p q ! = q / p + padicValNat p (q / p)! := by
  have h : q = p * (q / p) + q % p := (Nat.div_add_mod q p).symm
  have hlt : q % p < p := Nat.mod_lt _ hp.out.pos
  conv_lhs => rw [h]
  rw [padicValNat_factorial_mul_add (q / p) hlt, padicValNat_factorial_mul]; omega

/-- Σ_{k ≥ 1} (⌊q/p^k⌋ mod 2), summed the way SWING_A_PRIME walks: `do { q /= p; e += q & 1; } while (q >= p)` -/
def swExp (p : ℕ) : ℕ → ℕ → ℕ
  | 0, _ => 0
  | f + 1, q => (q / p) % 2 + (if q / p ≥ p then swExp p f (q / p) else 0)

theorem swExp_lt (p f q : ℕ) (h : q < p) : swExp p f q = 0 := by
  cases f with
  | zero => rfl
  | succ f =>
    have : q / p = 0 := Nat.div_eq_of_lt h
    simp only [swExp, this]
    have : ¬ (0 ≥ p) := by omega
    simp [this]

theorem swExp_succ (p f q : ℕ) : swExp p (f + 1) q = (q / p) % 2 + swExp p f (q / p) := by
  simp only [swExp]
  by_cases h : q / p ≥ p
  · simp [h]
  · simp only [h, if_false]; rw [swExp_lt p f (q / p) (by omega)]

/-- the exponent of p in q! / ⌊q/2⌋!² -/
theorem legendre_swing (p : ℕ) [hp : Fact p.Prime] :
    ∀ f q, q < 2 ^ f → padicValNat p q ! = 2 * padicValNat p (q / 2)! + swExp p f q := by
  intro f
  induction f with
  | zero =>
    intro q hq
    have : q = 0 := by simpa using hq
    subst this; simp [swExp]
  | succ f ih =>
    intro q hq
    have hp2 := hp.out.two_le
    have hq' : q / p < 2 ^ f := by
      have : q / p ≤ q / 2 := Nat.div_le_div_left hp2 (by norm_num)
      rw [pow_succ] at hq; omega
    rw [swExp_succ, legendre_step p q, legendre_step p (q / 2), ih (q / p) hq']
    have e : q / 2 / p = q / p / 2 := by rw [Nat.div_div_eq_div_mul, Nat.div_div_eq_div_mul, Nat.mul_comm]
    rw [e]; omega

/-- the swing exponent as the sum Σ_{k=1}^{f} (⌊q/p^k⌋ mod 2) -/
theorem swExp_eq_sum (p : ℕ) : ∀ f q, swExp p f q = ∑ k ∈ Finset.Ico 1 (f + 1), (q / p ^ k) % 2 := by
  intro f
  induction f with
  | zero => intro q; simp [swExp]
  | succ f ih =>
    intro q
    rw [swExp_succ, ih (q / p), Finset.sum_Ico_eq_sum_range, Finset.sum_Ico_eq_sum_range]
    simp only [Nat.add_sub_cancel]
    rw [Finset.sum_range_succ' _ f]
    simp only [Nat.add_zero, pow_one]
    rw [Nat.add_comm]
    congr 1
    apply Finset.sum_congr rfl
    intro k _
    rw [Nat.div_div_eq_div_mul, show 1 + (k + 1) = (1 + k) + 1 by omega, pow_succ' p (1 + k)]

/-- p^(swing exponent) never exceeds the argument -/
theorem pow_swExp_le (p : ℕ) (hp : 2 ≤ p) : ∀ f q, 1 ≤ q → p ^ swExp p f q ≤ q := by
  intro f
  induction f with
  | zero => intro q hq; simpa [swExp] using hq
  | succ f ih =>
    intro q hq
    rw [swExp_succ]
    by_cases h0 : q / p = 0
    · rw [h0, swExp_lt p f 0 (by omega)]; simpa using hq
    · have h1 : 1 ≤ q / p := Nat.pos_of_ne_zero h0
      have h2 := ih (q / p) h1
      have h3 : p ^ (q / p % 2) ≤ p := by
        rcases Nat.mod_two_eq_zero_or_one (q / p) with h | h
        · rw [h]; simp; omega
        · rw [h]; simp
      have h4 : p * (q / p) ≤ q := Nat.mul_div_le q p
      rw [pow_add]
      calc p ^ (q / p % 2) * p ^ swExp p f (q / p) ≤ p * (q / p) := Nat.mul_le_mul h3 h2
        _ ≤ q := h4

/-- SWING_A_PRIME's loop (oddfac_1.c:164-175) multiplies prod by p^(swing exponent) when that fits a limb -/
theorem swingPowers_eq (p : ℕ) (hp : 1 ≤ p) :
    ∀ f q pr, pr * p ^ swExp p f q < B → swingPowers p f q pr = pr * p ^ swExp p f q := by
  intro f
  induction f with
  | zero => intro q pr _; simp [swingPowers, swExp]
  | succ f ih =>
    intro q pr hlt
    rw [swExp_succ] at hlt ⊢
    simp only [swingPowers]
    rw [pow_add] at hlt ⊢
    have hpos : 1 ≤ p ^ swExp p f (q / p) := Nat.one_le_pow _ _ (by omega)
    rcases Nat.mod_two_eq_zero_or_one (q / p) with h | h
    · rw [h] at hlt ⊢
      simp only [pow_zero, one_mul, show ¬ ((0 : ℕ) = 1) by omega, if_false] at hlt ⊢
      by_cases hge : q / p ≥ p
      · simp only [hge, if_true]; exact ih _ _ hlt
      · simp only [hge, if_false]; rw [swExp_lt p f _ (by omega)]; simp
    · rw [h] at hlt ⊢
      simp only [pow_one, if_true] at hlt ⊢
      have hfit : pr * p < B := by
        calc pr * p ≤ pr * (p * p ^ swExp p f (q / p)) := Nat.mul_le_mul_left _ (Nat.le_mul_of_pos_right _ hpos)
          _ < B := hlt
      rw [Nat.mod_eq_of_lt hfit]
      by_cases hge : q / p ≥ p
      · simp only [hge, if_true]
        rw [ih _ _ (by rw [Nat.mul_assoc]; exact hlt)]; ring
      · simp only [hge, if_false]; rw [swExp_lt p f _ (by omega)]; simp


/-! ## The macro bodies on a factor-list state -/

theorem flAppend_val (M : ℕ) (st : FL) : flVal (flAppend M st) = flVal st ∧ (1 ≤ M → (flAppend M st).2 ≤ M) := by
  obtain ⟨l, pr⟩ := st
  unfold flAppend
  by_cases h : pr > M
  · simp only [h, if_true, flVal_mk, prodList]
    exact ⟨by ring, fun h1 => h1⟩
  · simp only [h, if_false]
    exact ⟨trivial, fun _ => by simpa using h⟩

/-- SWING_A_PRIME (p, n, prod, max_prod, factors, j) multiplies the represented number by p^(swing exponent) -/
theorem swingAPrime_val (n M p : ℕ) (hp : 1 ≤ p) (hM : 1 ≤ M) (hfit : M * p ^ swExp p 64 n < B) (st : FL) :
    flVal (swingAPrime n M p st) = flVal st * p ^ swExp p 64 n := by
  unfold swingAPrime
  obtain ⟨h1, h2⟩ := flAppend_val M st
  have hle := h2 hM
  generalize flAppend M st = st' at h1 hle
  obtain ⟨l, pr⟩ := st'
  simp only at hle ⊢
  rw [swingPowers_eq p hp 64 n pr (Nat.lt_of_le_of_lt (Nat.mul_le_mul_right _ hle) hfit), ← h1]
  simp only [flVal_mk]; ring

/-- SH_SWING_A_PRIME -/
theorem shSwingAPrime_val (n M p : ℕ) (hfit : M * p < B) (st : FL) :
    flVal (shSwingAPrime n M p st) = flVal st * (if (n / p) % 2 = 1 then p else 1) := by
  unfold shSwingAPrime
  by_cases h : (n / p) % 2 = 1
  · simp only [h, if_true]
    exact flStore_val p M st (fun hle => Nat.lt_of_le_of_lt (Nat.mul_le_mul_right _ hle) hfit)
  · simp only [h, if_false]; ring

theorem flStore_val' (M p : ℕ) (hfit : M * p < B) (st : FL) : flVal (flStore p M st) = flVal st * p :=
  flStore_val p M st (fun hle => Nat.lt_of_le_of_lt (Nat.mul_le_mul_right _ hle) hfit)

/-! ## Products along the sieve walk and along the numbers -/

/-- ∏ g(bit_to_n j) over the primes among bit_to_n b, …, bit_to_n (b+cnt-1) -/
def wprod (g : ℕ → ℕ) : ℕ → ℕ → ℕ
  | 0, _ => 1
  | cnt + 1, b => (if (bit_to_n b).Prime then g (bit_to_n b) else 1) * wprod g cnt (b + 1)

/-- ∏ g(x) over the primes x with lo ≤ x < lo + c -/
def nprod (g : ℕ → ℕ) : ℕ → ℕ → ℕ
  | 0, _ => 1
  | c + 1, lo => (if lo.Prime then g lo else 1) * nprod g c (lo + 1)

theorem sieveWalk_val (body : ℕ → FL → FL) (g : ℕ → ℕ) :
    ∀ cnt b st, (∀ j st, b ≤ j → j < b + cnt → (bit_to_n j).Prime → flVal (body (bit_to_n j) st) = flVal st * g (bit_to_n j)) →
      flVal (sieveWalk body cnt b st) = flVal st * wprod g cnt b := by
  intro cnt
  induction cnt with
  | zero => intro b st _; simp [sieveWalk, wprod]
  | succ c ih =>
    intro b st h
    simp only [sieveWalk, wprod]
    rw [ih (b + 1) _ (fun j st' h1 h2 h3 => h j st' (by omega) (by omega) h3)]
    by_cases hp : (bit_to_n b).Prime
    · have : isPrimeTD (bit_to_n b) = true := (isPrimeTD_iff _).2 hp
      simp only [this, hp, if_true]
      rw [h b st (Nat.le_refl _) (by omega) hp]; ring
    · have : isPrimeTD (bit_to_n b) = false := by
        cases e : isPrimeTD (bit_to_n b)
        · rfl
        · exact absurd ((isPrimeTD_iff _).1 e) hp
      simp only [this, hp, if_false, Bool.false_eq_true]; ring

theorem nprod_add (g : ℕ → ℕ) : ∀ c1 c2 lo, nprod g (c1 + c2) lo = nprod g c1 lo * nprod g c2 (lo + c1) := by
  intro c1
  induction c1 with
  | zero => intro c2 lo; simp [nprod]
  | succ c ih =>
    intro c2 lo
    rw [show c + 1 + c2 = (c + c2) + 1 by omega]
    simp only [nprod]
    rw [ih c2 (lo + 1), show lo + 1 + c = lo + (c + 1) by omega]; ring

theorem nprod_one_of_noprime (g : ℕ → ℕ) : ∀ c lo, (∀ x, lo ≤ x → x < lo + c → ¬ x.Prime) → nprod g c lo = 1 := by
  intro c
  induction c with
  | zero => intro lo _; rfl
  | succ c ih =>
    intro lo h
    simp only [nprod]
    rw [ih (lo + 1) (fun x h1 h2 => h x (by omega) (by omega)), if_neg (h lo (Nat.le_refl _) (by omega))]

theorem nprod_congr (g g' : ℕ → ℕ) : ∀ c lo, (∀ x, lo ≤ x → x < lo + c → x.Prime → g x = g' x) → nprod g c lo = nprod g' c lo := by
  intro c
  induction c with
  | zero => intro lo _; rfl
  | succ c ih =>
    intro lo h
    simp only [nprod]
    rw [ih (lo + 1) (fun x h1 h2 => h x (by omega) (by omega))]
    by_cases hp : lo.Prime
    · simp only [hp, if_true]; rw [h lo (Nat.le_refl _) (by omega) hp]
    · simp only [hp, if_false]

theorem nprod_pos (g : ℕ → ℕ) (hg : ∀ x, x.Prime → 0 < g x) : ∀ c lo, 0 < nprod g c lo := by
  intro c
  induction c with
  | zero => intro lo; simp [nprod]
  | succ c ih =>
    intro lo
    simp only [nprod]
    apply Nat.mul_pos _ (ih _)
    by_cases h : lo.Prime
    · rw [if_pos h]; exact hg lo h
    · rw [if_neg h]; exact Nat.one_pos

/-- the walk over bits b … b+cnt-1 sees exactly the primes of [bit_to_n b, bit_to_n (b+cnt)) -/
theorem wprod_eq_nprod (g : ℕ → ℕ) : ∀ cnt b, wprod g cnt b = nprod g (bit_to_n (b + cnt) - bit_to_n b) (bit_to_n b) := by
  intro cnt
  induction cnt with
  | zero => intro b; simp [wprod, nprod]
  | succ c ih =>
    intro b
    have h1 : bit_to_n b < bit_to_n (b + 1) := bit_to_n_lt (by omega)
    have h2 : bit_to_n (b + 1) ≤ bit_to_n (b + 1 + c) := bit_to_n_le (by omega)
    have e : bit_to_n (b + (c + 1)) - bit_to_n b =
        1 + ((bit_to_n (b + 1) - bit_to_n b - 1) + (bit_to_n (b + 1 + c) - bit_to_n (b + 1))) := by
      rw [show b + (c + 1) = b + 1 + c by omega]; omega
    rw [e, nprod_add, nprod_add]
    simp only [wprod, nprod, Nat.mul_one]
    rw [ih (b + 1)]
    have hmid : nprod g (bit_to_n (b + 1) - bit_to_n b - 1) (bit_to_n b + 1) = 1 := by
      apply nprod_one_of_noprime
      intro x hx1 hx2 hp
      have h5 : 5 ≤ x := by have := bit_to_n_ge b; omega
      rcases prime_lt_next hp h5 (show x < bit_to_n (b + 1) by omega) with h | h <;> omega
    rw [hmid, show bit_to_n b + 1 + (bit_to_n (b + 1) - bit_to_n b - 1) = bit_to_n (b + 1) by omega]
    ring


/-! ## The odd part of n! from the swing exponents -/

theorem ppow_pos (e : ℕ → ℕ) (x : ℕ) (hx : x.Prime) : 0 < x ^ e x := Nat.pow_pos hx.pos

/-- exponent of the prime q in a product of prime powers over an interval -/
theorem padicValNat_nprod (e : ℕ → ℕ) (q : ℕ) [hq : Fact q.Prime] :
    ∀ c lo, padicValNat q (nprod (fun x => x ^ e x) c lo) = if lo ≤ q ∧ q < lo + c then e q else 0 := by
  intro c
  induction c with
  | zero => intro lo; simp [nprod]
  | succ c ih =>
    intro lo
    simp only [nprod]
    have hrest : nprod (fun x => x ^ e x) c (lo + 1) ≠ 0 := Nat.pos_iff_ne_zero.1 (nprod_pos _ (ppow_pos e) c (lo + 1))
    by_cases hlo : lo.Prime
    · have : Fact lo.Prime := ⟨hlo⟩
      rw [if_pos hlo, padicValNat.mul (Nat.pos_iff_ne_zero.1 (ppow_pos e lo hlo)) hrest, ih (lo + 1), padicValNat.pow]
      by_cases heq : q = lo
      · subst heq
        rw [padicValNat.self hq.out.one_lt]
        have h1 : ¬ (q + 1 ≤ q ∧ q < q + 1 + c) := by omega
        have h2 : q ≤ q ∧ q < q + (c + 1) := by omega
        simp [h2]
      · rw [padicValNat_primes heq]
        have : (lo + 1 ≤ q ∧ q < lo + 1 + c) ↔ (lo ≤ q ∧ q < lo + (c + 1)) := by omega
        simp only [this, Nat.mul_zero, Nat.zero_add]
    · have hne : q ≠ lo := fun h => hlo (h ▸ hq.out)
      rw [if_neg hlo, Nat.one_mul, ih (lo + 1)]
      have : (lo + 1 ≤ q ∧ q < lo + 1 + c) ↔ (lo ≤ q ∧ q < lo + (c + 1)) := by omega
      simp only [this]

theorem padicValNat_oddPart (q m : ℕ) [hq : Fact q.Prime] (hm : m ≠ 0) :
    padicValNat q (oddPart m) = if q = 2 then 0 else padicValNat q m := by
  obtain ⟨ho, t, ht⟩ := oddPart_spec m hm
  by_cases h2 : q = 2
  · subst h2
    simp only [if_true]
    exact padicValNat.eq_zero_of_not_dvd (by omega)
  · simp only [h2, if_false]
    have hop : oddPart m ≠ 0 := by omega
    conv_rhs => rw [ht]
    have : Fact (Nat.Prime 2) := ⟨Nat.prime_two⟩
    rw [padicValNat.mul (by positivity) hop, padicValNat.pow, padicValNat_primes h2]
    omega

/-- **The swing identity**: odd part of n! = ∏_{odd primes p ≤ n} p^(Σ_k ⌊n/p^k⌋ mod 2) · (odd part of ⌊n/2⌋!)² -/
theorem oddPart_factorial_swing (n c : ℕ) (hn : n < 2 ^ 64) (hc : n < 3 + c) :
    oddPart (n !) = nprod (fun x => x ^ swExp x 64 n) c 3 * oddPart ((n / 2)!) ^ 2 := by
  have h1 : oddPart (n !) ≠ 0 := by have := (oddPart_spec _ (Nat.factorial_ne_zero n)).1; omega
  have h2 : oddPart ((n / 2)!) ≠ 0 := by have := (oddPart_spec _ (Nat.factorial_ne_zero (n / 2))).1; omega
  have h3 : nprod (fun x => x ^ swExp x 64 n) c 3 ≠ 0 :=
    Nat.pos_iff_ne_zero.1 (nprod_pos _ (ppow_pos _) c 3)
  apply Nat.eq_of_factorization_eq h1 (Nat.mul_ne_zero h3 (pow_ne_zero _ h2))
  intro p
  by_cases hp : p.Prime
  · have : Fact p.Prime := ⟨hp⟩
    rw [Nat.factorization_def _ hp, Nat.factorization_def _ hp, padicValNat.mul h3 (pow_ne_zero _ h2),
      padicValNat.pow, padicValNat_nprod, padicValNat_oddPart p _ (Nat.factorial_ne_zero n),
      padicValNat_oddPart p _ (Nat.factorial_ne_zero (n / 2))]
    by_cases h2' : p = 2
    · subst h2'; simp
    · simp only [h2', if_false]
      have hl := legendre_swing p 64 n hn
      have hp3 : 3 ≤ p := by have := hp.two_le; omega
      by_cases hin : 3 ≤ p ∧ p < 3 + c
      · simp only [hin, and_self, if_true]; omega
      · simp only [hin, if_false]
        rw [swExp_lt p 64 n (by omega)] at hl; omega
  · rw [Nat.factorization_eq_zero_of_not_prime _ hp, Nat.factorization_eq_zero_of_not_prime _ hp]


/-! ## limb_apprsqrt and the three ranges of mpz_2multiswing_1 -/

/-- oddfac_1.c:133-134 "It gives: x <= limb_apprsqrt (x) ^ 2 < x * 9/4" -/
theorem apprsqrt_bounds (x : ℕ) (hx : 25 ≤ x) :
    x ≤ limb_apprsqrt x * limb_apprsqrt x ∧ 4 * (limb_apprsqrt x * limb_apprsqrt x) < 9 * x := by
  unfold limb_apprsqrt
  have h1 : 2 ^ (x - 1).log2 ≤ x - 1 := Nat.log2_self_le (by omega)
  have h2 : x - 1 < 2 ^ ((x - 1).log2 + 1) := Nat.lt_log2_self
  generalize (x - 1).log2 = s at *
  have hs : 4 ≤ s := by
    by_contra hlt
    have : 2 ^ (s + 1) ≤ 2 ^ 4 := Nat.pow_le_pow_right (by norm_num) (by omega)
    omega
  rcases Nat.even_or_odd' s with ⟨k, rfl | rfl⟩
  · have e1 : 2 * k / 2 = k := by omega
    have e2 : (2 * k - 1) / 2 = k - 1 := by omega
    simp only [e1, e2]
    obtain ⟨m, rfl⟩ : ∃ m, k = m + 1 := ⟨k - 1, by omega⟩
    simp only [Nat.add_sub_cancel]
    have p1 : 2 ^ (m + 1) = 2 * 2 ^ m := by rw [pow_succ]; ring
    have p2 : 2 ^ (2 * (m + 1)) = 4 * (2 ^ m * 2 ^ m) := by
      rw [show 2 * (m + 1) = m + m + 2 by ring, pow_add, pow_add]; ring
    have p3 : 2 ^ (2 * (m + 1) + 1) = 8 * (2 ^ m * 2 ^ m) := by rw [pow_succ, p2]; ring
    rw [p2] at h1; rw [p3] at h2; rw [p1]
    generalize 2 ^ m = A at *
    have e : (2 * A + A) * (2 * A + A) = 9 * (A * A) := by ring
    rw [e]
    generalize A * A = Q at *
    constructor <;> omega
  · have e1 : (2 * k + 1) / 2 = k := by omega
    have e2 : (2 * k + 1 - 1) / 2 = k := by omega
    simp only [e1, e2]
    have p2 : 2 ^ (2 * k + 1) = 2 * (2 ^ k * 2 ^ k) := by
      rw [show 2 * k + 1 = k + k + 1 by ring, pow_add, pow_add]; ring
    have p3 : 2 ^ (2 * k + 1 + 1) = 4 * (2 ^ k * 2 ^ k) := by rw [pow_succ, p2]; ring
    rw [p2] at h1; rw [p3] at h2
    generalize 2 ^ k = A at *
    have e : (A + A) * (A + A) = 4 * (A * A) := by ring
    rw [e]
    generalize A * A = Q at *
    constructor <;> omega

theorem swing_ranges_small : ∀ n < 100, 25 ≤ n → nb (limb_apprsqrt n) + 1 ≤ nb (n / 3) := by
  decide +kernel

/-- oddfac_1.c:232 `ASSERT (s <= n_to_bit (n / 3))` (after `s++`) -/
theorem swing_ranges (n : ℕ) (h26 : 25 ≤ n) : nb (limb_apprsqrt n) + 1 ≤ nb (n / 3) := by
  by_cases hsmall : n < 100
  · exact swing_ranges_small n hsmall h26
  · obtain ⟨h1, h2⟩ := apprsqrt_bounds n h26
    generalize limb_apprsqrt n = r at *
    have hr : 10 ≤ r := by
      by_contra hlt
      have : r * r ≤ 9 * 9 := Nat.mul_le_mul (by omega) (by omega)
      omega
    have h3 : 3 * r + 12 ≤ n := by nlinarith
    rw [le_nb_iff _ _ (by omega)]
    rw [bit_to_n_eq, nb_eq]; omega

/-- n/x for the ranges (n/3, n/2] and (n/2, n] -/
theorem div_eq_two {n x : ℕ} (h1 : n / 3 < x) (h2 : x ≤ n / 2) : n / x = 2 :=
  Nat.div_eq_of_lt_le (by omega) (by omega)
theorem div_eq_one {n x : ℕ} (h1 : n / 2 < x) (h2 : x ≤ n) : n / x = 1 :=
  Nat.div_eq_of_lt_le (by omega) (by omega)

/-- an odd prime power below an even n is at most n - 1 -/
theorem pow_swExp_le_pred (p n : ℕ) (hp : p.Prime) (hp2 : p ≠ 2) (hn : 2 ≤ n) (he : n % 2 = 0) :
    p ^ swExp p 64 n ≤ n - 1 := by
  have h := pow_swExp_le p hp.two_le 64 n (by omega)
  have hodd : Odd (p ^ swExp p 64 n) := (hp.odd_of_ne_two hp2).pow
  have : p ^ swExp p 64 n % 2 = 1 := Nat.odd_iff.1 hodd
  omega

theorem nb_le_succ (n : ℕ) (h5 : 5 ≤ n) : bit_to_n (nb n) ≤ n ∧ n < bit_to_n (nb n + 1) := by
  constructor
  · exact (le_nb_iff (nb n) n h5).1 (Nat.le_refl _)
  · by_contra h
    have := (le_nb_iff (nb n + 1) n h5).2 (by omega)
    omega

end Mpir.Numth
