/- mpn_hgcd (hgcd.c) and mpn_hgcd_reduce below HGCD_REDUCE_THRESHOLD (hgcd_reduce.c): the loops of steps and the
   recursion (two recursive calls, mpn_hgcd_matrix_adjust, mpn_hgcd_matrix_mul) establish the hgcd contract. -/
import MpirProofs.Lemmas.HgcdQuirk
namespace Mpir.Hgcd
open Mpir Mpir.Gcd
set_option linter.unusedSimpArgs false

def Tight (n a b : Nat) : Prop := B ^ (n - 1) ≤ a ∨ B ^ (n - 1) ≤ b

/-- state of mpn_hgcd's loops relative to its inputs (a0, b0): M is the product of all matrices recorded so
    far, (a0; b0) = M·(a; b), both current numbers fit n limbs and one of them uses limb n-1, n > s; after the
    first successful step M ≠ I and both numbers have more than s limbs. -/
def Acc (s a0 b0 al n a b : Nat) (M : HM) (success : Bool) : Prop :=
  MRel M.toM1 a b a0 b0 ∧ MOk M ∧ M.alloc = al ∧ a < B ^ n ∧ b < B ^ n ∧ Tight n a b ∧ s < n ∧
  (success = true → NonId M.toM1 ∧ B ^ s ≤ a ∧ B ^ s ≤ b)

theorem mrel_decreases {E : M1} {x y X Y : Nat} (h : MRel E x y X Y) (hn : NonId E) (hx : 0 < x) (hy : 0 < y) :
    x + y < X + Y := by
  obtain ⟨p0, p1⟩ := mrel_pos h
  obtain ⟨_, eX, eY⟩ := h
  have e1 : x ≤ E.u00 * x := Nat.le_mul_of_pos_left _ p0
  have e2 : y ≤ E.u11 * y := Nat.le_mul_of_pos_left _ p1
  rcases hn with h | h
  · have : y ≤ E.u01 * y := Nat.le_mul_of_pos_left _ (Nat.pos_of_ne_zero h)
    omega
  · have : x ≤ E.u10 * x := Nat.le_mul_of_pos_left _ (Nat.pos_of_ne_zero h)
    omega

theorem pow_lt_of {s n x : Nat} (h1 : B ^ s ≤ x) (h2 : x < B ^ n) : s < n := by
  have hB : 1 < B := by rw [B_eq]; norm_num
  exact (Nat.pow_lt_pow_iff_right hB).mp (lt_of_le_of_lt h1 h2)

/-- what the loops return -/
def LoopRet (s a0 b0 al n : Nat) (r : StepRes) : Prop :=
  MRel r.M.toM1 r.a r.b a0 b0 ∧ MOk r.M ∧ r.M.alloc = al ∧ r.ret ≤ n ∧
  (r.ret ≠ 0 → NonId r.M.toM1 ∧ B ^ s ≤ r.a ∧ B ^ s ≤ r.b ∧ r.a < B ^ r.ret ∧ r.b < B ^ r.ret ∧ Tight r.ret r.a r.b ∧
      absDiff r.a r.b < B ^ s)

theorem stepLoop_spec (s a0 b0 al lim : Nat) (hs0 : 1 ≤ s) :
    ∀ (f n a b : Nat) (M : HM) (success : Bool), Acc s a0 b0 al n a b M success → a + b < f →
      match stepLoop f lim n a b s M success with
      | .inl r => LoopRet s a0 b0 al n r ∧
          (r.ret = 0 → success = false ∧ r.a = (hgcdStep n a b s M).a ∧ r.b = (hgcdStep n a b s M).b ∧
            r.M = (hgcdStep n a b s M).M ∧ (hgcdStep n a b s M).ret = 0 ∧ n > lim)
      | .inr (r, su) => Acc s a0 b0 al r.ret r.a r.b r.M su ∧ r.ret ≤ n ∧ r.ret ≤ lim ∧ (success = true → su = true) ∧
          (su = false → r = ⟨n, a, b, M⟩) := by
  intro f
  induction f with
  | zero => intro n a b M success _ hf; omega
  | succ f ih =>
    intro n a b M success hacc hf
    obtain ⟨hrel, hM, hal, ha, hb, htight, hsn, hsucc⟩ := hacc
    unfold stepLoop
    by_cases hlim : n > lim
    · rw [if_pos hlim]
      obtain ⟨E, e1, e2, e3, e4, e5, e6⟩ := hgcdStep_spec n a b s M hM (by omega) hsn hs0 ha hb
      have hun : n ≠ s + 1 → (hgcdStep n a b s M).ret = 0 →
          (hgcdStep n a b s M).a = a ∧ (hgcdStep n a b s M).b = b ∧ (hgcdStep n a b s M).M = M :=
        fun hns hr => hgcdStep_unchanged n a b s M hM (by omega) hsn hs0 hns ha hb htight hr
      generalize hgcdStep n a b s M = r at *
      simp only
      by_cases hret : r.ret = 0
      · rw [if_pos hret]
        simp only
        obtain ⟨g1, g2, g3, g4⟩ := e6 hret
        have hrel' : MRel r.M.toM1 r.a r.b a0 b0 := by rw [e1]; exact mrel_comp hrel e2
        cases success
        · simp only [Bool.false_eq_true, ↓reduceIte]
          exact ⟨⟨hrel', e3, by rw [e4, hal], Nat.zero_le _, fun hc => absurd rfl hc⟩,
            fun _ => ⟨trivial, trivial, trivial, trivial, hret, hlim⟩⟩
        · simp only [↓reduceIte]
          obtain ⟨k1, k2, k3⟩ := hsucc rfl
          have hge : B ^ s ≤ r.a ∧ B ^ s ≤ r.b := by
            rcases g4 with ⟨q1, q2, _⟩ | ⟨q1, q2, _⟩
            · rw [q1, q2]; exact ⟨k2, k3⟩
            · exact ⟨q1, by rw [← q2]; exact q1⟩
          have htr : Tight n r.a r.b := by
            rcases g4 with ⟨q1, q2, _⟩ | ⟨q1, q2, q3⟩
            · rw [q1, q2]; exact htight
            · -- recorded-subtraction exit: only possible for n = s + 1
              by_cases hns : n = s + 1
              · left; rw [hns]; exact q1
              · exfalso
                obtain ⟨u1, u2, _⟩ := hun hns hret
                have hpos : 0 < B ^ s := pow_pos B_pos _
                omega
          refine ⟨⟨hrel', e3, by rw [e4, hal], le_refl _, fun _ => ⟨?_, hge.1, hge.2, g1, g2, htr, ?_⟩⟩, fun hc => by omega⟩
          · rw [e1]; exact nonId_mmul k1 (mrel_det e2)
          · rcases g3 with h | h | h
            · omega
            · omega
            · exact h
      · rw [if_neg hret]
        obtain ⟨d1, d2, d3, d4, d5, d6, d7⟩ := e5 hret
        have hrel' : MRel r.M.toM1 r.a r.b a0 b0 := by rw [e1]; exact mrel_comp hrel e2
        have hpos : 0 < B ^ s := pow_pos B_pos _
        have hdec : r.a + r.b < a + b := mrel_decreases e2 d1 (by omega) (by omega)
        have hnid : NonId r.M.toM1 := by
          rw [e1]
          cases success
          · -- M may be the identity: E itself is not
            rcases d1 with h | h
            · left
              show M.toM1.u00 * E.u01 + M.toM1.u01 * E.u11 ≠ 0
              have := (mrel_pos hrel).1
              have : 0 < M.toM1.u00 * E.u01 := Nat.mul_pos (by omega) (Nat.pos_of_ne_zero h)
              omega
            · right
              show M.toM1.u10 * E.u00 + M.toM1.u11 * E.u10 ≠ 0
              have := (mrel_pos hrel).2
              have : 0 < M.toM1.u11 * E.u10 := Nat.mul_pos (by omega) (Nat.pos_of_ne_zero h)
              omega
          · exact nonId_mmul (hsucc rfl).1 (mrel_det e2)
        have hacc' : Acc s a0 b0 al r.ret r.a r.b r.M true :=
          ⟨hrel', e3, by rw [e4, hal], d4, d5, d6, pow_lt_of d2 d4, fun _ => ⟨hnid, d2, d3⟩⟩
        have := ih r.ret r.a r.b r.M true hacc' (by omega)
        cases hloop : stepLoop f lim r.ret r.a r.b s r.M true with
        | inl r2 =>
          rw [hloop] at this
          obtain ⟨⟨l1, l2, l3, l4, l5⟩, l6⟩ := this
          exact ⟨⟨l1, l2, l3, by omega, l5⟩, fun hc => absurd (l6 hc).1 (by simp)⟩
        | inr q =>
          rw [hloop] at this
          obtain ⟨r2, su⟩ := q
          obtain ⟨l1, l2, l3, l4, l5⟩ := this
          have hsu : su = true := l4 rfl
          exact ⟨l1, by omega, l3, fun _ => hsu, fun hc => by rw [hsu] at hc; exact absurd hc (by simp)⟩
    · rw [if_neg hlim]
      exact ⟨⟨hrel, hM, hal, ha, hb, htight, hsn, hsucc⟩, le_refl _, Nat.le_of_not_gt hlim, fun h => h, fun _ => rfl⟩

/-- the final `for (;;)` of mpn_hgcd -/
theorem hgcdFin_spec (s a0 b0 al n a b : Nat) (M : HM) (success : Bool) (hs0 : 1 ≤ s)
    (hacc : Acc s a0 b0 al n a b M success) :
    LoopRet s a0 b0 al n (hgcdFin n a b s M success) ∧
    ((hgcdFin n a b s M success).ret = 0 → success = false ∧ (hgcdFin n a b s M success).a = (hgcdStep n a b s M).a ∧
      (hgcdFin n a b s M success).b = (hgcdStep n a b s M).b ∧ (hgcdFin n a b s M success).M = (hgcdStep n a b s M).M ∧
      (hgcdStep n a b s M).ret = 0) := by
  have := stepLoop_spec s a0 b0 al 0 hs0 (a + b + 1) n a b M success hacc (by omega)
  unfold hgcdFin
  cases hloop : stepLoop (a + b + 1) 0 n a b s M success with
  | inl r =>
    rw [hloop] at this
    exact ⟨this.1, fun hc => ⟨(this.2 hc).1, (this.2 hc).2.1, (this.2 hc).2.2.1, (this.2 hc).2.2.2.1, (this.2 hc).2.2.2.2.1⟩⟩
  | inr q =>
    rw [hloop] at this
    obtain ⟨r, su⟩ := q
    obtain ⟨l1, _, l3, _, _⟩ := this
    exfalso
    have := l1.2.2.2.2.2.2.1
    omega

theorem div_pow_lt {a n p : Nat} (hp : p ≤ n) (ha : a < B ^ n) : a / B ^ p < B ^ (n - p) := by
  apply Nat.div_lt_of_lt_mul
  rw [← pow_add]
  have : p + (n - p) = n := by omega
  rw [this]; exact ha

theorem two_pow_le (k : Nat) : 2 * B ^ k ≤ B ^ (k + 1) := by
  rw [pow_succ, Nat.mul_comm]
  exact Nat.mul_le_mul_left _ (by rw [B_eq]; norm_num)

/-- after a successful recursive call on the limbs from p on: mpn_hgcd_matrix_adjust brings the complete numbers
    to M⁻¹(a; b) exactly, with the sizes the caller's loops need. -/
theorem adjust_after (n a b p al1 : Nat) (r1 : StepRes) (hp : p < n) (ha : a < B ^ n) (hb : b < B ^ n)
    (hpost : LoopRet ((n - p) / 2 + 1) (a / B ^ p) (b / B ^ p) al1 (n - p) r1) (hret : r1.ret ≠ 0) :
    MRel r1.M.toM1 (matAdjust r1.M (p + r1.ret) (a % B ^ p + B ^ p * r1.a) (b % B ^ p + B ^ p * r1.b) p).2.1
      (matAdjust r1.M (p + r1.ret) (a % B ^ p + B ^ p * r1.a) (b % B ^ p + B ^ p * r1.b) p).2.2 a b ∧
    (matAdjust r1.M (p + r1.ret) (a % B ^ p + B ^ p * r1.a) (b % B ^ p + B ^ p * r1.b) p).2.1 <
      B ^ (matAdjust r1.M (p + r1.ret) (a % B ^ p + B ^ p * r1.a) (b % B ^ p + B ^ p * r1.b) p).1 ∧
    (matAdjust r1.M (p + r1.ret) (a % B ^ p + B ^ p * r1.a) (b % B ^ p + B ^ p * r1.b) p).2.2 <
      B ^ (matAdjust r1.M (p + r1.ret) (a % B ^ p + B ^ p * r1.a) (b % B ^ p + B ^ p * r1.b) p).1 ∧
    Tight (matAdjust r1.M (p + r1.ret) (a % B ^ p + B ^ p * r1.a) (b % B ^ p + B ^ p * r1.b) p).1
      (matAdjust r1.M (p + r1.ret) (a % B ^ p + B ^ p * r1.a) (b % B ^ p + B ^ p * r1.b) p).2.1
      (matAdjust r1.M (p + r1.ret) (a % B ^ p + B ^ p * r1.a) (b % B ^ p + B ^ p * r1.b) p).2.2 ∧
    B ^ (p + (n - p) / 2) ≤ (matAdjust r1.M (p + r1.ret) (a % B ^ p + B ^ p * r1.a) (b % B ^ p + B ^ p * r1.b) p).2.1 ∧
    B ^ (p + (n - p) / 2) ≤ (matAdjust r1.M (p + r1.ret) (a % B ^ p + B ^ p * r1.a) (b % B ^ p + B ^ p * r1.b) p).2.2 ∧
    (matAdjust r1.M (p + r1.ret) (a % B ^ p + B ^ p * r1.a) (b % B ^ p + B ^ p * r1.b) p).1 ≤ n := by
  obtain ⟨hrel, hMok, _, hle, hsucc⟩ := hpost
  obtain ⟨hnid, hx, hy, hxB, hyB, htight, _⟩ := hsucc hret
  have hpp : 0 < B ^ p := pow_pos B_pos _
  have hs'lt : (n - p) / 2 + 1 < r1.ret := pow_lt_of hx hxB
  -- entries of M
  have hS : a / B ^ p < B ^ (n - p - ((n - p) / 2 + 1)) * B ^ ((n - p) / 2 + 1) := by
    rw [← pow_add]
    have : n - p - ((n - p) / 2 + 1) + ((n - p) / 2 + 1) = n - p := by omega
    rw [this]; exact div_pow_lt (by omega) ha
  have hT : b / B ^ p < B ^ (n - p - ((n - p) / 2 + 1)) * B ^ ((n - p) / 2 + 1) := by
    rw [← pow_add]
    have : n - p - ((n - p) / 2 + 1) + ((n - p) / 2 + 1) = n - p := by omega
    rw [this]; exact div_pow_lt (by omega) hb
  obtain ⟨en1, en2⟩ := mrel_entries_lt hrel hx hy hS hT
  simp only [HM.toM1] at en1 en2
  have hk : B ^ (n - p - ((n - p) / 2 + 1)) ≤ B ^ ((n - p) / 2) := Nat.pow_le_pow_right B_pos (by omega)
  have hx2 : 2 * B ^ ((n - p) / 2) ≤ r1.a := le_trans (two_pow_le _) hx
  have hy2 : 2 * B ^ ((n - p) / 2) ≤ r1.b := le_trans (two_pow_le _) hy
  -- the composed numbers
  have hal : a % B ^ p < B ^ p := Nat.mod_lt _ hpp
  have hbl : b % B ^ p < B ^ p := Nat.mod_lt _ hpp
  have d1 : (a % B ^ p + B ^ p * r1.a) / B ^ p = r1.a := by
    rw [Nat.add_mul_div_left _ _ hpp, Nat.div_eq_of_lt hal, Nat.zero_add]
  have d2 : (b % B ^ p + B ^ p * r1.b) / B ^ p = r1.b := by
    rw [Nat.add_mul_div_left _ _ hpp, Nat.div_eq_of_lt hbl, Nat.zero_add]
  have m1 : (a % B ^ p + B ^ p * r1.a) % B ^ p = a % B ^ p := by
    rw [Nat.add_mul_mod_self_left]; exact Nat.mod_eq_of_lt hal
  have m2 : (b % B ^ p + B ^ p * r1.b) % B ^ p = b % B ^ p := by
    rw [Nat.add_mul_mod_self_left]; exact Nat.mod_eq_of_lt hbl
  have hP : B ^ (p + r1.ret) = B ^ p * B ^ r1.ret := pow_add _ _ _
  have b1 : a % B ^ p + B ^ p * r1.a < B ^ (p + r1.ret) := by
    rw [hP]
    have : B ^ p * (r1.a + 1) ≤ B ^ p * B ^ r1.ret := Nat.mul_le_mul_left _ hxB
    rw [Nat.mul_add] at this; omega
  have b2 : b % B ^ p + B ^ p * r1.b < B ^ (p + r1.ret) := by
    rw [hP]
    have : B ^ p * (r1.b + 1) ≤ B ^ p * B ^ r1.ret := Nat.mul_le_mul_left _ hyB
    rw [Nat.mul_add] at this; omega
  have hspec := matAdjust_spec r1.M (p + r1.ret) (a % B ^ p + B ^ p * r1.a) (b % B ^ p + B ^ p * r1.b) p
    (a / B ^ p) (b / B ^ p) ((n - p) / 2) (by omega) (by omega) (by omega) b1 b2 (by omega)
    (by rw [d1, d2]; exact hrel) (by rw [d1]; omega) (by rw [d2]; omega)
  rw [m1, m2, d1, d2, Nat.div_add_mod, Nat.div_add_mod] at hspec
  obtain ⟨q1, q2, q3, q4, q5, q6, q7, q8⟩ := hspec
  generalize matAdjust r1.M (p + r1.ret) (a % B ^ p + B ^ p * r1.a) (b % B ^ p + B ^ p * r1.b) p = adj at *
  have lowa : B ^ (p + (n - p) / 2) ≤ adj.2.1 := by
    refine le_trans ?_ q7
    rw [pow_add]; exact Nat.mul_le_mul_left _ (by omega)
  have lowb : B ^ (p + (n - p) / 2) ≤ adj.2.2 := by
    refine le_trans ?_ q8
    rw [pow_add]; exact Nat.mul_le_mul_left _ (by omega)
  have htight' : Tight adj.1 adj.2.1 adj.2.2 := by
    by_cases hc : p + r1.ret ≤ adj.1
    · exact q6 hc
    · have e : adj.1 - 1 = p + (r1.ret - 2) := by omega
      have hk2 : B ^ ((n - p) / 2) ≤ B ^ (r1.ret - 2) := Nat.pow_le_pow_right B_pos (by omega)
      have h2 : 2 * B ^ (r1.ret - 2) ≤ B ^ (r1.ret - 1) := by
        have := two_pow_le (r1.ret - 2)
        have e2 : r1.ret - 2 + 1 = r1.ret - 1 := by omega
        rw [e2] at this; exact this
      unfold Tight
      rw [e, pow_add]
      rcases htight with h | h
      · left; exact le_trans (Nat.mul_le_mul_left _ (by omega)) q7
      · right; exact le_trans (Nat.mul_le_mul_left _ (by omega)) q8
  refine ⟨q1, q2, q3, htight', lowa, lowb, ?_⟩
  obtain ⟨la, lb⟩ := mrel_le q1
  rcases htight' with h | h
  · have := pow_lt_of h (lt_of_le_of_lt la ha); omega
  · have := pow_lt_of h (lt_of_le_of_lt lb hb); omega

end Mpir.Hgcd
