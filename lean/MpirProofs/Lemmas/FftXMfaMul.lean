/- The matrix Fourier multiplication (Mpir/Model/FftMfa.lean), forward part: what the outer column passes leave, the
   pointwise product through mpn_mulmod_Bexpp1, and what the inner row pass (row transforms, products, inverse row
   transforms) leaves: n1 times the column-transformed matrices of the acyclic convolution. -/
import MpirProofs.Lemmas.FftXInvTw
import MpirProofs.Lemmas.FftXMfaMain
import MpirProofs.Lemmas.FftXMul
import Mpir.Model.FftMfa
set_option linter.unusedSimpArgs false
namespace Mpir.FftX
open Mpir Finset

/-! ### canonical residues and the pointwise product of the MFA convolutions -/

theorem pOf_eq_pmod (L : Nat) : pOf (64 * L) = Fft.pmod L := by rw [pOf_eq]; rfl

theorem canon_norm (L : Nat) (v : Int) :
    (canon L v).length = L + 1 ∧ Limbs (canon L v) ∧
    (Fft.top (canon L v) = 0 ∨ (Fft.top (canon L v) = 1 ∧ val (Fft.lo (canon L v)) = 0)) ∧
    Fft.rval (canon L v) = v % pOf (64 * L) := by
  have hP := pOf_pos (64 * L)
  have h0 : 0 ≤ v % pOf (64 * L) := Int.emod_nonneg _ (ne_of_gt hP)
  have h1 : v % pOf (64 * L) < pOf (64 * L) := Int.emod_lt_of_pos _ hP
  have hr : ((v % pOf (64 * L)).toNat : Int) = v % pOf (64 * L) := Int.toNat_of_nonneg h0
  have hBL : B ^ L = 2 ^ (64 * L) := Fft.B_pow_two' L
  have hB1 : (1 : Nat) < B := by unfold B; norm_num
  unfold canon
  simp only []
  split_ifs with h
  · refine ⟨by simp, Fft.Limbs_snoc.mpr ⟨Fft.Limbs_replicate_zero L, hB1⟩, Or.inr ⟨by simp, by simp [Fft.val_replicate_zero]⟩, ?_⟩
    rw [Fft.rval_snoc, Fft.val_replicate_zero, Fft.sint_of_small 1 (by unfold B; norm_num), ← hr, h]
    simp only [List.length_replicate]
    rw [Fft.B_pow_two]; push_cast; ring
  · have hlt : (v % pOf (64 * L)).toNat < 2 ^ (64 * L) := by
      have : ((v % pOf (64 * L)).toNat : Int) < 2 ^ (64 * L) + 1 := by rw [hr]; exact h1
      have : (v % pOf (64 * L)).toNat < 2 ^ (64 * L) + 1 := by exact_mod_cast this
      omega
    obtain ⟨e1, e2, e3⟩ := Fft.toLimbs_spec L (v % pOf (64 * L)).toNat
    have ev : val (toLimbs L (v % pOf (64 * L)).toNat) = (v % pOf (64 * L)).toNat := by
      rw [e1, hBL, Nat.mod_eq_of_lt hlt]
    refine ⟨by simp [e2], Fft.Limbs_snoc.mpr ⟨e3, by unfold B; norm_num⟩, Or.inl (by simp), ?_⟩
    rw [Fft.rval_snoc, ev, hr, Fft.sint_of_small 0 (by unfold B; norm_num)]; simp

/-- normalise, normalise, mpn_mulmod_Bexpp1: the product modulo p -/
theorem pointwiseB_spec (L : Nat) (hL : 1 ≤ L) (a b : Int) :
    pointwiseB L a b ≡ a * b [ZMOD pOf (64 * L)] := by
  obtain ⟨la, La, ca, va⟩ := canon_norm L a
  obtain ⟨lb, Lb, cb, vb⟩ := canon_norm L b
  obtain ⟨_, _, _, h⟩ := Fft.mulmod_Bexpp1_val (canon L a) (canon L b) L La Lb la lb hL ca cb
  unfold pointwiseB
  rw [va, vb, ← pOf_eq_pmod] at h
  exact Int.ModEq.trans h (Int.ModEq.mul (Int.mod_modEq _ _) (Int.mod_modEq _ _))

section ring
variable {S : Type} [CommRing S] (f : ℤ →+* S)

/-! ### the convolution theorem for the full √2 transform -/

theorem fft_full_sqrt2_conv (d w : Nat) (hd : 64 ∣ 2 ^ d * w) (hz : f 2 ^ (2 ^ d * w) = -1) (a b : List Int)
    (j1 j2 : Nat) (ha : ∀ i, j1 ≤ i → el a i = 0) (hb : ∀ k, j2 ≤ k → el b k = 0) (hJ : j1 + j2 ≤ 4 * 2 ^ d + 1)
    (k : Nat) (hk : k < 2 ^ (d + 1 + 1)) :
    f (el (fft_full_sqrt2 d w (conv a b (4 * 2 ^ d))) k) =
      f (el (fft_full_sqrt2 d w a) k) * f (el (fft_full_sqrt2 d w b) k) := by
  have hN : 2 ^ (d + 1 + 1) = 4 * 2 ^ d := by rw [pow_succ, pow_succ]; ring
  rw [fft_full_sqrt2_dft f d w hd hz a k hk, fft_full_sqrt2_dft f d w hd hz b k hk,
    fft_full_sqrt2_dft f d w hd hz _ k hk, hN]
  generalize f (s2 (2 ^ d * w)) ^ w = σ
  generalize rev (d + 1 + 1) k = r
  simp only [pow_mul]
  rw [← cauchy_range (fun i => f (el a i)) (fun i => f (el b i)) (σ ^ r) (4 * 2 ^ d) j1 j2
    (fun i hi => by simp [ha i hi]) (fun i hi => by simp [hb i hi]) hJ]
  apply sum_congr rfl; intro i hi
  rw [el_conv _ _ _ _ (mem_range.mp hi), map_sum]
  congr 1
  apply sum_congr rfl; intro m _; rw [map_mul]

end ring

/-! ### the outer forward pass -/

theorem fft_mfa_outer_unfold (e1 e2 w trunc : Nat) (xs : List Int) :
    fft_mfa_trunc_sqrt2_outer (e1 + e2 + 1) w (2 ^ (e1 + 1)) trunc xs =
      (List.range (2 ^ (e1 + 1))).foldl
        (fun xs i => setCol xs (2 ^ (e1 + 1) * 2 ^ (e2 + 1) + i) (2 ^ (e1 + 1)) (mfaH e1 e2 w trunc i xs))
        ((List.range (2 ^ (e1 + 1))).foldl
          (colStep (2 ^ (e1 + 1)) (2 ^ (e2 + 1)) (2 ^ (e1 + 1) * 2 ^ (e2 + 1)) (mfaG e1 e2 w trunc)) xs) := by
  have hN : 2 ^ (e1 + 1) * 2 ^ (e2 + 1) = 2 * 2 ^ (e1 + e2 + 1) := by
    rw [← pow_add, ← pow_succ']; congr 1; ring
  have hn2 : 2 * 2 ^ (e1 + e2 + 1) / 2 ^ (e1 + 1) = 2 ^ (e2 + 1) := by
    rw [← hN]; exact Nat.mul_div_cancel_left _ (two_pow_pos' _)
  unfold fft_mfa_trunc_sqrt2_outer
  simp only [hn2, clog2_pow, Nat.add_sub_cancel]
  rw [hN]
  rfl

/-- after the outer pass: the first half matrix holds the twiddled column transforms of the first-layer sums, the
    second half matrix, in the rows rev s (s < trunc2), those of the twiddled first-layer differences -/
theorem fft_mfa_outer_spec (e1 e2 w trunc : Nat) (xs : List Int) (hlen : xs.length = 4 * 2 ^ (e1 + e2 + 1))
    (ht : TruncSOk (e1 + e2 + 1) trunc)
    (ht2' : TruncOk e2 ((trunc - 2 * 2 ^ (e1 + e2 + 1)) / 2 ^ (e1 + 1)))
    (hz0 : ∀ j, trunc ≤ j → el xs j = 0) :
    (fft_mfa_trunc_sqrt2_outer (e1 + e2 + 1) w (2 ^ (e1 + 1)) trunc xs).length = xs.length ∧
    (∀ i < 2 ^ (e1 + 1), ∀ j < 2 ^ (e2 + 1),
      el (fft_mfa_trunc_sqrt2_outer (e1 + e2 + 1) w (2 ^ (e1 + 1)) trunc xs) (i + j * 2 ^ (e1 + 1)) =
        el (mfaCol e2 w (2 ^ (e1 + 1)) (layerSums (2 ^ (e1 + e2 + 1)) xs) i) j) ∧
    (∀ i < 2 ^ (e1 + 1), ∀ s < (trunc - 2 * 2 ^ (e1 + e2 + 1)) / 2 ^ (e1 + 1),
      el (fft_mfa_trunc_sqrt2_outer (e1 + e2 + 1) w (2 ^ (e1 + 1)) trunc xs)
          (2 ^ (e1 + 1) * 2 ^ (e2 + 1) + i + rev (e2 + 1) s * 2 ^ (e1 + 1)) =
        el (mfaCol e2 w (2 ^ (e1 + 1)) (layerDiffs (2 ^ (e1 + e2 + 1)) w xs) i) (rev (e2 + 1) s)) := by
  have hN : 2 ^ (e1 + 1) * 2 ^ (e2 + 1) = 2 * 2 ^ (e1 + e2 + 1) := by
    rw [← pow_add, ← pow_succ']; congr 1; ring
  obtain ⟨ht1, ht2, ht3⟩ := ht
  rw [fft_mfa_outer_unfold]
  have hxl : xs.length = 2 * (2 ^ (e1 + 1) * 2 ^ (e2 + 1)) := by rw [hlen, hN]; ring
  have hG : ∀ i ca cb, (mfaG e1 e2 w trunc i ca cb).1.length = 2 ^ (e2 + 1) ∧
      (mfaG e1 e2 w trunc i ca cb).2.length = 2 ^ (e2 + 1) := by
    intro i ca cb; simp [mfaG, length_revPerm, length_fft_radix2_twiddle, length_snds]
  obtain ⟨l1, v1⟩ := fold_cols (2 ^ (e1 + 1)) (2 ^ (e2 + 1)) (mfaG e1 e2 w trunc) hG xs hxl (2 ^ (e1 + 1)) le_rfl
  generalize hX1 : (List.range (2 ^ (e1 + 1))).foldl
    (colStep (2 ^ (e1 + 1)) (2 ^ (e2 + 1)) (2 ^ (e1 + 1) * 2 ^ (e2 + 1)) (mfaG e1 e2 w trunc)) xs = X1 at *
  have hH : ∀ (i : Nat) (c : List Int), c.length = 2 ^ (e2 + 1) →
      (revPerm (e2 + 1) (fft_trunc1_twiddle e2 (w * 2 ^ (e1 + 1)) w 0 i 1
        ((trunc - 2 * 2 ^ (e1 + e2 + 1)) / 2 ^ (e1 + 1)) c)).length = 2 ^ (e2 + 1) := by
    intro i c hc; rw [length_revPerm, length_fft_trunc1_twiddle _ _ _ _ _ _ _ _ ht2' hc]
  obtain ⟨l3, v3lo⟩ := fold_hi_cols (2 ^ (e1 + 1)) (2 ^ (e2 + 1)) (mfaH e1 e2 w trunc) X1 (2 ^ (e1 + 1))
  have v3 : ∀ i < 2 ^ (e1 + 1), ∀ j < 2 ^ (e2 + 1),
      el ((List.range (2 ^ (e1 + 1))).foldl
          (fun xs i => setCol xs (2 ^ (e1 + 1) * 2 ^ (e2 + 1) + i) (2 ^ (e1 + 1)) (mfaH e1 e2 w trunc i xs)) X1)
        (2 ^ (e1 + 1) * 2 ^ (e2 + 1) + i + j * 2 ^ (e1 + 1)) =
      el (revPerm (e2 + 1) (fft_trunc1_twiddle e2 (w * 2 ^ (e1 + 1)) w 0 i 1
        ((trunc - 2 * 2 ^ (e1 + e2 + 1)) / 2 ^ (e1 + 1))
        (getCol (layerDiffs (2 ^ (e1 + e2 + 1)) w xs) i (2 ^ (e1 + 1)) (2 ^ (e2 + 1))))) j := by
    intro i hi j hj
    have key := fold_hi_cols_val (2 ^ (e1 + 1)) (2 ^ (e2 + 1)) (2 * 2 ^ (e1 + e2 + 1)) hN.symm
      (fun i c => if c.length = 2 ^ (e2 + 1) then
          revPerm (e2 + 1) (fft_trunc1_twiddle e2 (w * 2 ^ (e1 + 1)) w 0 i 1
            ((trunc - 2 * 2 ^ (e1 + e2 + 1)) / 2 ^ (e1 + 1)) c)
        else List.replicate (2 ^ (e2 + 1)) 0)
      (fun i c => by split_ifs with h; exact hH i c h; simp)
      X1 (by rw [l1, hxl]) (2 ^ (e1 + 1)) le_rfl i hi j hj
    simp only [length_getCol, if_true] at key
    rw [if_pos hi] at key
    have ecol : getCol X1 (2 ^ (e1 + 1) * 2 ^ (e2 + 1) + i) (2 ^ (e1 + 1)) (2 ^ (e2 + 1)) =
        getCol (layerDiffs (2 ^ (e1 + e2 + 1)) w xs) i (2 ^ (e1 + 1)) (2 ^ (e2 + 1)) := by
      rw [← mfaG_snd e1 e2 w trunc xs ht2 hz0 i hi]
      apply list_eq_of_el _ _ (2 ^ (e2 + 1)) (length_getCol _ _ _ _) (hG _ _ _).2
      intro m hm
      rw [el_getCol _ _ _ _ _ hm, (v1 i hi m hm).2, if_pos hi]
    rw [ecol] at key
    exact key
  refine ⟨by rw [l3, l1], ?_, ?_⟩
  · intro i hi j hj
    rw [v3lo i hi j hj, (v1 i hi j hj).1, if_pos hi, mfaG_fst e1 e2 w trunc xs ht2 hz0 i hi]
  · intro i hi s hs
    have hs2 : s < 2 ^ (e2 + 1) := lt_of_lt_of_le hs ht2'.2.2
    have hjr := rev_lt (e2 + 1) s
    rw [v3 i hi _ hjr]
    unfold mfaCol
    rw [el_revPerm _ _ (length_fft_trunc1_twiddle _ _ _ _ _ _ _ _ ht2' (length_getCol _ _ _ _)) _ hjr,
      el_revPerm _ _ (length_fft_radix2_twiddle _ _ _ _ _ _ _) _ hjr, rev_rev _ _ hs2,
      fft_trunc1_twiddle_eq _ _ _ _ _ _ _ _ ht2' s hs]

/-! ### a fold of row-local updates that depend on the row index -/

theorem onRowsI_spec (off n1 n2 : Nat) (f : Nat → List Int → List Int)
    (hf : ∀ i r, r.length = n1 → (f i r).length = n1)
    (rows : List Nat) (hnd : rows.Nodup) (hr : ∀ i ∈ rows, i < n2) (xs : List Int) (hlen : off + n1 * n2 ≤ xs.length) :
    (onRowsI xs off n1 rows f).length = xs.length ∧
    (∀ k, (k < off ∨ off + n1 * n2 ≤ k) → el (onRowsI xs off n1 rows f) k = el xs k) ∧
    ∀ j < n2, ∀ t < n1,
      el (onRowsI xs off n1 rows f) (off + j * n1 + t) =
        if j ∈ rows then el (f j ((xs.drop (off + j * n1)).take n1)) t else el xs (off + j * n1 + t) := by
  induction rows generalizing xs with
  | nil => simp [onRowsI]
  | cons i rest ih =>
    have hi : i < n2 := hr i (by simp)
    have hnd' := (List.nodup_cons.mp hnd)
    have hrow : off + i * n1 + n1 ≤ xs.length := by
      have : (i + 1) * n1 ≤ n2 * n1 := Nat.mul_le_mul_right _ hi
      rw [Nat.mul_comm n2 n1] at this
      have e : (i + 1) * n1 = i * n1 + n1 := by ring
      omega
    have hRl : ((xs.drop (off + i * n1)).take n1).length = n1 := by simp; omega
    set ys := xs.take (off + i * n1) ++ f i ((xs.drop (off + i * n1)).take n1) ++ xs.drop (off + i * n1 + n1) with hys
    have hyl : ys.length = xs.length := length_row_upd _ _ _ _ (hf _ _ hRl) hrow
    have hstep : onRowsI xs off n1 (i :: rest) f = onRowsI ys off n1 rest f := by
      simp only [onRowsI, List.foldl_cons]; rfl
    obtain ⟨l1, l2, l3⟩ := ih hnd'.2 (fun x hx => hr x (by simp [hx])) ys (by rw [hyl]; exact hlen)
    have hyv : ∀ k, el ys k = if off + i * n1 ≤ k ∧ k < off + i * n1 + n1 then
        el (f i ((xs.drop (off + i * n1)).take n1)) (k - (off + i * n1)) else el xs k :=
      fun k => el_row_upd xs _ n1 _ (hf _ _ hRl) hrow k
    rw [hstep]
    refine ⟨by rw [l1, hyl], ?_, ?_⟩
    · intro k hk
      rw [l2 k hk, hyv, if_neg]
      rintro ⟨h1, h2⟩
      have : (i + 1) * n1 ≤ n2 * n1 := Nat.mul_le_mul_right _ hi
      rw [Nat.mul_comm n2 n1] at this
      have e : (i + 1) * n1 = i * n1 + n1 := by ring
      omega
    · intro j hj t ht
      rw [l3 j hj t ht]
      have hother : j ≠ i → ∀ t' < n1, el ys (off + j * n1 + t') = el xs (off + j * n1 + t') := by
        intro hji t' ht'
        rw [hyv, if_neg]
        rintro ⟨h1, h2⟩
        rcases Nat.lt_or_gt_of_ne hji with h | h
        · have : (j + 1) * n1 ≤ i * n1 := Nat.mul_le_mul_right _ h
          have e : (j + 1) * n1 = j * n1 + n1 := by ring
          omega
        · have : (i + 1) * n1 ≤ j * n1 := Nat.mul_le_mul_right _ h
          have e : (i + 1) * n1 = i * n1 + n1 := by ring
          omega
      by_cases hji : j = i
      · subst hji
        rw [if_neg hnd'.1, if_pos (List.mem_cons_self), hyv, if_pos ⟨by omega, by omega⟩]
        congr 1; omega
      · have hrowj : (ys.drop (off + j * n1)).take n1 = (xs.drop (off + j * n1)).take n1 := by
          apply List.ext_getElem
          · simp; rw [hyl]
          · intro m h1 h2
            have hm : m < n1 := by simp at h1; omega
            have e1 := hother hji m hm
            simp only [el, List.getD_eq_getElem?_getD] at e1
            simp only [List.getElem_take, List.getElem_drop]
            have hb1 : off + j * n1 + m < ys.length := by simp at h1; omega
            have hb2 : off + j * n1 + m < xs.length := by rw [← hyl]; exact hb1
            rw [List.getElem?_eq_getElem hb1, List.getElem?_eq_getElem hb2] at e1
            simpa using e1
        simp only [List.mem_cons, hji, false_or]
        rw [hrowj, hother hji t ht]

theorem el_take_drop (xs : List Int) (a n t : Nat) (ht : t < n) : el ((xs.drop a).take n) t = el xs (a + t) := by
  rw [el_take _ _ _ ht, el_drop]

/-! ### the inner pass -/

theorem fft_mfa_inner_unfold (e1 e2 w trunc : Nat) (ii jj : List Int) :
    fft_mfa_trunc_sqrt2_inner (e1 + e2 + 1) w (2 ^ (e1 + 1)) trunc ii jj =
      onRowsI
        (onRowsI ii (2 ^ (e1 + 1) * 2 ^ (e2 + 1)) (2 ^ (e1 + 1))
          ((List.range ((trunc - 2 * 2 ^ (e1 + e2 + 1)) / 2 ^ (e1 + 1))).map fun s => revbin s (e2 + 1))
          (fun i row => rowConv e1 (w * 2 ^ (e2 + 1)) (2 ^ (e1 + 1)) (2 ^ (e1 + e2 + 1) * w / 64) row
            ((jj.drop (2 ^ (e1 + 1) * 2 ^ (e2 + 1) + i * 2 ^ (e1 + 1))).take (2 ^ (e1 + 1)))))
        0 (2 ^ (e1 + 1)) (List.range (2 ^ (e2 + 1)))
        (fun i row => rowConv e1 (w * 2 ^ (e2 + 1)) (2 ^ (e1 + 1)) (2 ^ (e1 + e2 + 1) * w / 64) row
          ((jj.drop (0 + i * 2 ^ (e1 + 1))).take (2 ^ (e1 + 1)))) := by
  have hN : 2 ^ (e1 + 1) * 2 ^ (e2 + 1) = 2 * 2 ^ (e1 + e2 + 1) := by
    rw [← pow_add, ← pow_succ']; congr 1; ring
  have hn2 : 2 * 2 ^ (e1 + e2 + 1) / 2 ^ (e1 + 1) = 2 ^ (e2 + 1) := by
    rw [← hN]; exact Nat.mul_div_cancel_left _ (two_pow_pos' _)
  unfold fft_mfa_trunc_sqrt2_inner
  simp only [hn2, clog2_pow, Nat.add_sub_cancel]
  rw [hN]

theorem length_rowConv (e wr n1 L : Nat) (ra rb : List Int) : (rowConv e wr n1 L ra rb).length = 2 ^ (e + 1) := by
  unfold rowConv; exact length_ifft_radix2 _ _ _

/-- one row of the inner pass: the rows of the column-transformed matrices of a and b go to n1 times the row of the
    column-transformed matrix of any X whose transform is the pointwise product -/
theorem rowConv_val (e1 e2 w L : Nat) (hL : 2 ^ (e1 + e2 + 1) * w = 64 * L) (hL1 : 1 ≤ L)
    (Xa Xb Xx : List Int) (j : Nat) (hj : j < 2 ^ (e2 + 1))
    (hX : ∀ K < 2 ^ (e1 + e2 + 1 + 1),
      (Int.castRingHom (ZMod (2 ^ (64 * L) + 1))) (el (fft_radix2 (e1 + e2 + 1) w Xx) K) =
      (Int.castRingHom (ZMod (2 ^ (64 * L) + 1))) (el (fft_radix2 (e1 + e2 + 1) w Xa) K) *
      (Int.castRingHom (ZMod (2 ^ (64 * L) + 1))) (el (fft_radix2 (e1 + e2 + 1) w Xb) K))
    (ra rb : List Int) (hra : ∀ t < 2 ^ (e1 + 1), el ra t = el (mfaCol e2 w (2 ^ (e1 + 1)) Xa t) j)
    (hrb : ∀ t < 2 ^ (e1 + 1), el rb t = el (mfaCol e2 w (2 ^ (e1 + 1)) Xb t) j) (t : Nat) (ht : t < 2 ^ (e1 + 1)) :
    (Int.castRingHom (ZMod (2 ^ (64 * L) + 1))) (el (rowConv e1 (w * 2 ^ (e2 + 1)) (2 ^ (e1 + 1)) L ra rb) t) =
      2 ^ (e1 + 1) * (Int.castRingHom (ZMod (2 ^ (64 * L) + 1))) (el (mfaCol e2 w (2 ^ (e1 + 1)) Xx t) j) := by
  set F := Int.castRingHom (ZMod (2 ^ (64 * L) + 1)) with hF
  have hz' : F 2 ^ (64 * L) = -1 := zmod_two_pow (64 * L)
  have hz : F 2 ^ (2 ^ (e1 + e2 + 1) * w) = -1 := (congrArg (fun e => F 2 ^ e) hL).trans hz'
  have hnw : 2 ^ e1 * (w * 2 ^ (e2 + 1)) = 2 ^ (e1 + e2 + 1) * w := by
    rw [show e1 + e2 + 1 = e1 + (e2 + 1) by ring, pow_add]; ring
  have hd1 : 64 ∣ 2 ^ e1 * (w * 2 ^ (e2 + 1)) := by rw [hnw]; exact ⟨L, hL⟩
  have hu1 : F 2 ^ (2 * (2 ^ e1 * (w * 2 ^ (e2 + 1)))) = 1 := by
    rw [hnw, pow_mul' (F 2) 2 _, hz]; norm_num
  -- the row of X and its transform
  have rowfft : ∀ (X : List Int) (k : Nat), k < 2 ^ (e1 + 1) →
      F (el (fft_radix2 e1 (w * 2 ^ (e2 + 1)) ((List.range (2 ^ (e1 + 1))).map fun i => el (mfaCol e2 w (2 ^ (e1 + 1)) X i) j)) k) =
      F (el (fft_radix2 (e1 + e2 + 1) w X) (rev (e1 + e2 + 1 + 1) (j + 2 ^ (e2 + 1) * rev (e1 + 1) k))) := by
    intro X k hk
    have := mfa_passes F e1 e2 w X hz j (rev (e1 + 1) k) hj (rev_lt _ _)
    unfold mfaRow at this
    rw [el_revPerm _ _ (length_fft_radix2 _ _ _) _ (rev_lt _ _), rev_rev _ _ hk] at this
    exact this
  have congrA : ∀ (r : List Int) (X : List Int), (∀ t < 2 ^ (e1 + 1), el r t = el (mfaCol e2 w (2 ^ (e1 + 1)) X t) j) →
      fft_radix2 e1 (w * 2 ^ (e2 + 1)) r =
        fft_radix2 e1 (w * 2 ^ (e2 + 1)) ((List.range (2 ^ (e1 + 1))).map fun i => el (mfaCol e2 w (2 ^ (e1 + 1)) X i) j) := by
    intro r X h
    apply fft_radix2_congr
    intro i hi
    rw [h i hi, el_range_map _ _ _ hi]
  unfold rowConv
  simp only []
  rw [congrA ra Xa hra, congrA rb Xb hrb]
  have := ifft_radix2_spec F e1 (w * 2 ^ (e2 + 1)) hd1 hu1
    ((List.range (2 ^ (e1 + 1))).map fun i => el (mfaCol e2 w (2 ^ (e1 + 1)) Xx i) j)
    ((List.range (2 ^ (e1 + 1))).map fun k => pointwiseB L
      (el (fft_radix2 e1 (w * 2 ^ (e2 + 1)) ((List.range (2 ^ (e1 + 1))).map fun i => el (mfaCol e2 w (2 ^ (e1 + 1)) Xa i) j)) k)
      (el (fft_radix2 e1 (w * 2 ^ (e2 + 1)) ((List.range (2 ^ (e1 + 1))).map fun i => el (mfaCol e2 w (2 ^ (e1 + 1)) Xb i) j)) k))
    (fun k hk => by
      rw [el_range_map _ _ _ hk, (zmod_eq_iff (64 * L) _ _).mpr (pointwiseB_spec L hL1 _ _), map_mul,
        rowfft Xa k hk, rowfft Xb k hk, rowfft Xx k hk, hX _ (rev_lt _ _)]) t ht
  rw [this, el_range_map _ _ _ ht]

end Mpir.FftX
