/- Helper lemmas for the float layout theorem (C18, part c18_flayout). -/
import Mpir.Model.PrintfF
import MpirProofs.Lemmas.Printf
namespace Mpir.PrintfF
open Mpir Mpir.Printf List

/-- the parser's code for the float conversions is `floatParams` followed by the call -/
theorem doFloat_eq (old : Bool) (ps : PS) (tp : List Char) (c : Char) (st : DS) :
    doFloat old ps tp c st =
      if ps.type = 'F' then
        match flush st tp with
        | some st => (match st.ap with
          | .mpf fprec neg limbs fexp :: as =>
              some (({ st with ap := as }.emit (doprntMpf (floatParams old ps c) fprec neg limbs fexp)).sync)
          | _ => none)
        | none => none
      else none := rfl

theorem callsBytes_append (a b : List Call) : callsBytes (a ++ b) = callsBytes a ++ callsBytes b := by
  simp [callsBytes]

theorem callsBytes_repsMaybe (c : Char) (n : Nat) : callsBytes (repsMaybe c n) = replicate n c := by
  unfold repsMaybe callsBytes; split <;> simp_all [Call.bytes]

theorem callsBytes_memoryMaybe (s : List Char) : callsBytes (memoryMaybe s) = s := by
  unfold memoryMaybe callsBytes; split <;> simp_all [Call.bytes]

theorem fm_repsMaybe (c : Char) (n : Nat) : flatMap Call.bytes (repsMaybe c n) = replicate n c := callsBytes_repsMaybe c n
theorem fm_memoryMaybe (s : List Char) : flatMap Call.bytes (memoryMaybe s) = s := callsBytes_memoryMaybe s
theorem fm_pt (pt : List Char) : flatMap Call.bytes (if pt = [] then [] else [Call.memory pt]) = pt := by
  split <;> simp_all [Call.bytes]

/-- `emit` in closed form, on lengths that are natural numbers -/
theorem emit_bytes (p : Params) (sign : Option Char) (s : List Char) (prec : Int) (a iz fz fl : Nat) (ex : List Char)
    (W : Nat) (hw : p.width = (W : Int)) (hlen : a + fl ≤ s.length) :
    callsBytes (emit p sign s prec ⟨a, iz, fz, fl, ex⟩) =
      (let pz : Nat := if p.showtrailing then
          (prec - (((fz + fl : Nat) : Int) + (if p.conv = 3 then ((a + iz : Nat) : Int) else 0))).toNat else 0
       let sb : List Char :=
          if p.showbase = .no then []
          else if p.showbase = .nonzero ∧ a = 0 ∧ fl = 0 then []
          else (if p.base = 16 then ['0', 'x'] else if p.base = -16 then ['0', 'X'] else if p.base = 8 then ['0'] else [])
       padModel p.justify p.fill W sign.toList sb 0
        (s.take a ++ replicate iz '0' ++ (if fz + fl + pz ≠ 0 ∨ p.showpoint then ['.'] else []) ++ replicate fz '0' ++
          (s.drop a).take fl ++ replicate pz '0' ++ ex)) := by
  unfold emit
  simp only []
  generalize hpzN : (if p.showtrailing then
      (prec - (((fz + fl : Nat) : Int) + (if p.conv = 3 then ((a + iz : Nat) : Int) else 0))).toNat else 0) = pz
  have hpz : (if p.showtrailing = true then
      max 0 (prec - ((fz : Int) + (fl : Int) + if p.conv = 3 then (a : Int) + (iz : Int) else 0)) else 0) = (pz : Int) := by
    rw [← hpzN]
    by_cases h1 : p.showtrailing = true <;> by_cases h2 : p.conv = 3 <;> simp only [h1, h2, if_true, if_false] <;> push_cast <;> omega
  rw [hpz]
  generalize hsb : (if p.showbase = .no then ([] : List Char)
          else if p.showbase = .nonzero ∧ a = 0 ∧ fl = 0 then []
          else (if p.base = 16 then ['0', 'x'] else if p.base = -16 then ['0', 'X'] else if p.base = 8 then ['0'] else [])) = sb
  have hsb' : (if p.showbase = .no then ([] : List Char)
          else if p.showbase = .nonzero ∧ (a : Int) = 0 ∧ (fl : Int) = 0 then []
          else (if p.base = 16 then ['0', 'x'] else if p.base = -16 then ['0', 'X'] else if p.base = 8 then ['0'] else [])) = sb := by
    rw [← hsb]; simp only [Int.natCast_eq_zero]
  rw [hsb']
  generalize hpt : (if fz + fl + pz ≠ 0 ∨ p.showpoint = true then ['.'] else ([] : List Char)) = pt
  have hpl : (if (fz : Int) + (fl : Int) + (pz : Int) ≠ 0 ∨ p.showpoint = true then (1 : Int) else 0) = (pt.length : Int) := by
    rw [← hpt]
    by_cases h : fz + fl + pz ≠ 0 ∨ p.showpoint = true
    · have h' : (fz : Int) + (fl : Int) + (pz : Int) ≠ 0 ∨ p.showpoint = true := by
        rcases h with h | h
        · left; omega
        · right; exact h
      rw [if_pos h, if_pos h']; rfl
    · have h' : ¬ ((fz : Int) + (fl : Int) + (pz : Int) ≠ 0 ∨ p.showpoint = true) := by
        intro h'; apply h
        rcases h' with h' | h'
        · left; omega
        · right; exact h'
      rw [if_neg h, if_neg h']; rfl
  rw [hpl]
  have hptm : (if (pt.length : Int) ≠ 0 then [Call.memory ['.']] else []) = (if pt = [] then [] else [Call.memory pt]) := by
    rw [← hpt]; split <;> simp
  rw [hptm]
  have hta : (s.take a).length = a := by simp; omega
  have htf : ((s.drop a).take fl).length = fl := by simp; omega
  generalize hbody : s.take a ++ replicate iz '0' ++ pt ++ replicate fz '0' ++ (s.drop a).take fl ++ replicate pz '0' ++ ex = body
  have hbl : body.length = a + iz + pt.length + fz + fl + pz + ex.length := by
    rw [← hbody]; simp only [length_append, length_replicate, hta, htf]
  have hj : p.width - ((if sign.isSome = true then (1 : Int) else 0) + (sb.length : Int) + (a : Int) + (iz : Int) + (pt.length : Int) + (fz : Int) +
      (fl : Int) + (pz : Int) + (ex.length : Int)) = (W : Int) - ((body.length + sign.toList.length + sb.length + 0 : Nat) : Int) := by
    rw [hw, hbl]; cases sign <;> simp <;> omega
  rw [hj]
  unfold padModel
  simp only []
  generalize hN : body.length + sign.toList.length + sb.length + 0 = N
  have hpad : ((W : Int) - (N : Int)).toNat = W - N := by omega
  have hle : ((W : Int) - (N : Int) ≤ 0) ↔ W - N = 0 := by omega
  rw [hpad]
  simp only [hle]
  generalize W - N = pad
  rw [← hbody]
  by_cases hp0 : pad = 0
  · simp only [hp0, if_true]
    cases sign <;> simp [fm_repsMaybe, fm_memoryMaybe, fm_pt, callsBytes, Call.bytes]
  · simp only [hp0, if_false]
    cases hjj : p.justify <;> cases sign <;>
      simp [fm_repsMaybe, fm_memoryMaybe, fm_pt, callsBytes, Call.bytes]

/-! ### the parameters the parser arrives at, in closed form -/

def fBaseInt : FConv → Int
  | .f | .e | .g => 10
  | .E | .G => -10
  | .a => 16
  | .A => -16
def isHex : FConv → Bool
  | .a | .A => true
  | _ => false
def convNum : FConv → Nat
  | .f => 1
  | .g | .G => 3
  | _ => 2
def precIntF (c : FConv) : FPrec → Int
  | .dflt => if isHex c then -1 else 6
  | .all => -1
  | .num n => n

def closedParams (c : FConv) (f : Flags) (W : Nat) (prec : FPrec) : Params :=
  { base := fBaseInt c, conv := convNum c, expUpper := c.upper, expHex := isHex c, exptimes4 := isHex c,
    fill := if ¬ f.minus ∧ f.zero then '0' else ' ',
    justify := if f.minus then .left else if f.zero then .internal else .right,
    prec := precIntF c prec,
    showbase := if isHex c then .yes else if f.hash then .nonzero else .no,
    showpoint := f.hash && !isHex c,
    showtrailing := isHex c || decide (convNum c ≠ 3) || f.hash,
    sign := if f.plus then some '+' else if f.space then some ' ' else none,
    width := W }

theorem stepFlag_closed (ps : PS) (c : Char) (hp : ps.inPrec = false) :
    stepFlag false ps c = { ps with param := { ps.param with
      showbase := gShow ps.param.showbase c, sign := gSign ps.param.sign c,
      justify := gJust ps.param.justify c, fill := gFill ps.param.fill c } } := by
  obtain ⟨⟨b, cv, eu, eh, e4, fi, ju, pr, sb, sp, st, sg, wi⟩, ty, ip, sp', inn⟩ := ps
  simp only at hp
  subst hp
  unfold stepFlag gShow gSign gJust gFill PS.setValue
  by_cases h1 : c = '#'
  · subst h1; simp
  by_cases h2 : c = '+'
  · subst h2; simp
  by_cases h3 : c = ' '
  · subst h3; cases sg <;> simp
  by_cases h4 : c = '-'
  · subst h4; simp
  by_cases h5 : c = '0'
  · subst h5; simp
  simp [h1, h2, h3, h4, h5]

theorem flags_closed (fl : List Char) : ∀ (ps : PS), ps.inPrec = false →
    fl.foldl (stepFlag false) ps = { ps with param := { ps.param with
      showbase := fl.foldl gShow ps.param.showbase, sign := fl.foldl gSign ps.param.sign,
      justify := fl.foldl gJust ps.param.justify, fill := fl.foldl gFill ps.param.fill } } := by
  induction fl with
  | nil => intro ps _; rfl
  | cons c cs ih =>
    intro ps hp
    simp only [foldl_cons]
    rw [stepFlag_closed ps c hp]
    refine (ih _ ?_).trans ?_
    · exact hp
    · rfl

def baseP (Fi : Char) (J : Justify) (S : Showbase) (G : Option Char) (Wd Pr : Int) : Params :=
  { fill := Fi, justify := J, showbase := S, sign := G, width := Wd, prec := Pr }

theorem floatParams_closed (c : FConv) (Fi : Char) (J : Justify) (S : Showbase) (G : Option Char) (Wd Pr : Int)
    (ty : Char) (ip seen inn : Bool) :
    floatParams false ⟨baseP Fi J S G Wd Pr, ty, ip, seen, inn⟩ c.char =
      { base := fBaseInt c, conv := convNum c, expUpper := c.upper, expHex := isHex c, exptimes4 := isHex c,
        fill := if J = .left then ' ' else Fi, justify := J,
        prec := if isHex c ∧ seen = false then -1 else Pr,
        showbase := if isHex c then .yes else S,
        showpoint := !isHex c && decide (S = .nonzero),
        showtrailing := isHex c || decide (convNum c ≠ 3) || decide (S = .nonzero),
        sign := G, width := Wd } := by
  cases c <;> cases S <;> by_cases hj : J = .left <;> cases seen <;>
    simp [floatParams, baseP, FConv.char, fBaseInt, isHex, convNum, FConv.upper, hj]

theorem widthStep_closed (Fi : Char) (J : Justify) (S : Showbase) (G : Option Char) (Pr : Int) (w : WidthArg) :
    widthStep ⟨baseP Fi J S G 0 Pr, '\x00', false, false, false⟩ w =
      ⟨baseP Fi (if negStar w then .left else J) S G (cWidth w) Pr, '\x00', false, false, false⟩ := by
  cases w with
  | none => simp [widthStep, negStar, cWidth]
  | num n => simp [widthStep, PS.setValue, negStar, cWidth, baseP]
  | star n =>
    by_cases hn : n < 0
    · simp [widthStep, stepStar, negStar, cWidth, baseP, hn]; exact (abs_of_neg hn).symm
    · simp [widthStep, stepStar, negStar, cWidth, baseP, hn]; exact (abs_of_nonneg (by omega)).symm

/-- precision and `seen_precision` after the precision part -/
def precAfter : PrecArg → Int
  | .none => 6
  | .dot => -1
  | .num n => n
  | .star n => if n < 0 then 6 else n
def seenAfter : PrecArg → Bool
  | .none => false
  | .dot => true
  | .num _ => true
  | .star n => decide (0 ≤ n)

theorem floatParams_congr (old : Bool) (ps ps' : PS) (c : Char) (h1 : ps.param = ps'.param) (h2 : ps.seenPrec = ps'.seenPrec) :
    floatParams old ps c = floatParams old ps' c := by
  unfold floatParams; rw [h1, h2]

theorem precStep_closed (Fi : Char) (J : Justify) (S : Showbase) (G : Option Char) (Wd : Int) (p : PrecArg) (c : Char) :
    floatParams false (precStep ⟨baseP Fi J S G Wd 6, '\x00', false, false, false⟩ p) c =
      floatParams false ⟨baseP Fi J S G Wd (precAfter p), '\x00', false, seenAfter p, false⟩ c := by
  apply floatParams_congr
  · cases p with
    | none => rfl
    | dot => rfl
    | num n => simp [precStep, stepDot, PS.setValue, baseP, precAfter]
    | star n =>
      by_cases hn : n < 0
      · simp [precStep, stepDot, stepStar, baseP, precAfter, hn]
      · simp [precStep, stepDot, stepStar, baseP, precAfter, hn]
  · cases p with
    | none => rfl
    | dot => rfl
    | num n => simp [precStep, stepDot, PS.setValue, seenAfter]
    | star n =>
      by_cases hn : n < 0
      · have : ¬ 0 ≤ n := by omega
        simp [precStep, stepDot, stepStar, seenAfter, hn, this]
      · have : 0 ≤ n := by omega
        simp [precStep, stepDot, stepStar, seenAfter, hn, this]

theorem fSpecParams_eq (fl : List Char) (w : WidthArg) (p : PrecArg) (c : FConv) :
    fSpecParams fl w p c = floatParams false (precStep (widthStep (fl.foldl (stepFlag false) {}) w) p) c.char := by
  unfold fSpecParams widthStep precStep
  cases w <;> cases p <;> rfl

theorem fSpecParams_closed (fl : List Char) (w : WidthArg) (p : PrecArg) (c : FConv) :
    fSpecParams fl w p c = closedParams c (cFlags fl w) (cWidth w) (cPrecF p) := by
  rw [fSpecParams_eq, flags_closed fl {} rfl, gShow_fold, gSign_fold, gJust_fold, gFill_fold]
  have e0 : ({ ({} : PS) with param := { ({} : PS).param with
      showbase := if '#' ∈ fl then Showbase.nonzero else ({} : PS).param.showbase,
      sign := if '+' ∈ fl then some '+' else
        (match ({} : PS).param.sign with | some s => some s | none => if ' ' ∈ fl then some ' ' else none),
      justify := if '-' ∈ fl then Justify.left else if '0' ∈ fl ∧ ({} : PS).param.justify = .right then .internal else ({} : PS).param.justify,
      fill := if '0' ∈ fl then '0' else ({} : PS).param.fill } } : PS) =
      ⟨baseP (if '0' ∈ fl then '0' else ' ') (if '-' ∈ fl then Justify.left else if '0' ∈ fl then .internal else .right)
        (if '#' ∈ fl then Showbase.nonzero else .no) (if '+' ∈ fl then some '+' else if ' ' ∈ fl then some ' ' else none) 0 6,
        '\x00', false, false, false⟩ := by
    simp [baseP]
  rw [e0, widthStep_closed, precStep_closed, floatParams_closed]
  have hpr : (if isHex c = true ∧ seenAfter p = false then (-1 : Int) else precAfter p) = precIntF c (cPrecF p) := by
    cases p with
    | none => cases c <;> simp [isHex, seenAfter, precAfter, precIntF, cPrecF]
    | dot => cases c <;> simp [isHex, seenAfter, precAfter, precIntF, cPrecF]
    | num n => cases c <;> simp [isHex, seenAfter, precAfter, precIntF, cPrecF]
    | star n =>
      by_cases hn : n < 0
      · have : ¬ 0 ≤ n := by omega
        cases c <;> simp [isHex, seenAfter, precAfter, precIntF, cPrecF, hn, this]
      · have : 0 ≤ n := by omega
        cases c <;> simp [isHex, seenAfter, precAfter, precIntF, cPrecF, hn, this]
  rw [hpr]
  have hc : ∀ ch : Char, fl.contains ch = decide (ch ∈ fl) := fun ch => by simp
  unfold closedParams cFlags
  simp only [hc]
  cases w with
  | none => by_cases h1 : '#' ∈ fl <;> by_cases h2 : '-' ∈ fl <;> by_cases h3 : '0' ∈ fl <;> simp [h1, h2, h3, negStar]
  | num n => by_cases h1 : '#' ∈ fl <;> by_cases h2 : '-' ∈ fl <;> by_cases h3 : '0' ∈ fl <;> simp [h1, h2, h3, negStar]
  | star n =>
    by_cases h1 : '#' ∈ fl <;> by_cases h2 : '-' ∈ fl <;> by_cases h3 : '0' ∈ fl <;> by_cases h6 : n < 0 <;>
      simp [h1, h2, h3, h6, negStar]

/-! ### the pieces of the layout -/

theorem pad_closed (c : FConv) (f : Flags) (W : Nat) (prec : FPrec) (sg sb body : List Char) :
    padModel (closedParams c f W prec).justify (closedParams c f W prec).fill W sg sb 0 body = padF f W sg sb body := by
  have := pad_eq f.minus f.zero W sg sb sb 0 body body (by simp) (by intro _; exact ⟨rfl, fun n => rfl⟩)
  simpa [closedParams, padSpec, padF] using this

theorem sign_closed (c : FConv) (f : Flags) (W : Nat) (prec : FPrec) (neg : Bool) :
    (if neg then some '-' else (closedParams c f W prec).sign).toList = signChars f neg := by
  cases neg <;> simp [closedParams, signChars] <;> split_ifs <;> simp

/-- lengths of the fixed layout as natural numbers -/
def fA (L : Nat) (x : Int) : Nat := if x ≤ 0 then 0 else min L x.toNat
def fIz (L : Nat) (x : Int) : Nat := if x ≤ 0 then 1 else x.toNat - L

theorem fixedParts_nat (L : Nat) (x : Int) :
    fixedParts (L : Int) x = ⟨(fA L x : Nat), (fIz L x : Nat), ((-x).toNat : Nat), ((L - fA L x : Nat) : Nat), []⟩ := by
  unfold fixedParts fA fIz
  by_cases h : x ≤ 0
  · simp only [h, if_true, Parts.mk.injEq]; refine ⟨by simp, by simp, by omega, by simp, trivial⟩
  · simp only [h, if_false, Parts.mk.injEq]; refine ⟨by omega, by omega, by omega, by omega, trivial⟩

theorem sciParts_nat (p : Params) (L : Nat) (x : Int) :
    sciParts p (L : Int) x = ⟨(min 1 L : Nat), ((if L = 0 then 1 else 0 : Nat) : Nat), (0 : Nat), ((L - min 1 L : Nat) : Nat),
      expText p ((x - (min 1 L : Nat)) * (if p.exptimes4 then 4 else 1))⟩ := by
  unfold sciParts
  simp only [Parts.mk.injEq]
  refine ⟨by omega, ?_, by simp, by omega, ?_⟩
  · by_cases h : L = 0
    · subst h; simp
    · have : min (1 : Int) (L : Int) ≠ 0 := by omega
      simp [h, this]
  · congr 2; congr 1; omega

theorem map_zeros (up : Bool) (n : Nat) : (zeros n).map (digitChar up) = replicate n '0' := by
  simp [zeros, digitChar_zero]

theorem point_key (up pt : Bool) (fr : List Nat) (I : List Char) (F : List Char) (n : Nat)
    (hF : fr.map (digitChar up) = F) (hn : fr.length = n) :
    I ++ (if n ≠ 0 ∨ pt = true then ['.'] else []) ++ F =
    I ++ (if fr.length ≠ 0 ∨ pt = true then '.' :: fr.map (digitChar up) else []) := by
  subst hF; subst hn
  by_cases hc : fr.length ≠ 0 ∨ pt = true
  · rw [if_pos hc, if_pos hc]; simp
  · have : fr = [] := by
      by_contra h'; apply hc; left; simpa using h'
    subst this; rw [if_neg hc, if_neg hc]; simp

theorem fracDigits_length (ds : List Nat) (x : Int) :
    (fracDigits ds x).length = (-x).toNat + (ds.length - fA ds.length x) := by
  unfold fracDigits fA zeros
  by_cases h : x ≤ 0
  · have hk : x.toNat = 0 := by omega
    simp [h, hk]
  · simp [h]; omega

theorem fixed_bytes_aux (up : Bool) (ds : List Nat) (x : Int) (pz : Nat) (pt : Bool) :
    take (fA ds.length x) (ds.map (digitChar up)) ++ replicate (fIz ds.length x) '0' ++
      (if (-x).toNat + (ds.length - fA ds.length x) + pz ≠ 0 ∨ pt = true then ['.'] else []) ++ replicate (-x).toNat '0' ++
      take (ds.length - fA ds.length x) (drop (fA ds.length x) (ds.map (digitChar up))) ++ replicate pz '0' =
    (intDigits ds x).map (digitChar up) ++
      (if (fracDigits ds x ++ zeros pz).length ≠ 0 ∨ pt = true then '.' :: (fracDigits ds x ++ zeros pz).map (digitChar up) else []) := by
  have hI : take (fA ds.length x) (ds.map (digitChar up)) ++ replicate (fIz ds.length x) '0' = (intDigits ds x).map (digitChar up) := by
    unfold intDigits fA fIz
    by_cases h : x ≤ 0
    · simp [h, digitChar_zero]
    · simp only [h, if_false, map_append, map_zeros, ← map_take]
      congr 2
      rcases Nat.le_total ds.length x.toNat with h1 | h1
      · rw [Nat.min_eq_left h1, take_of_length_le h1, take_of_length_le (le_refl _)]
      · rw [Nat.min_eq_right h1]
  have hF : replicate (-x).toNat '0' ++ take (ds.length - fA ds.length x) (drop (fA ds.length x) (ds.map (digitChar up))) ++ replicate pz '0' =
      (fracDigits ds x ++ zeros pz).map (digitChar up) := by
    unfold fracDigits fA
    by_cases h : x ≤ 0
    · have hk : x.toNat = 0 := by omega
      simp [h, hk, map_zeros]
      exact take_of_length_le (by simp)
    · have hneg : (-x).toNat = 0 := by omega
      simp only [h, if_false, hneg, replicate_zero, nil_append, map_append, map_zeros, ← map_drop]
      rw [take_of_length_le (by simp)]
      congr 2
      rcases Nat.le_total ds.length x.toNat with h1 | h1
      · rw [Nat.min_eq_left h1, drop_of_length_le h1, drop_of_length_le (le_refl _)]
      · rw [Nat.min_eq_right h1]
  have := point_key up pt (fracDigits ds x ++ zeros pz) ((intDigits ds x).map (digitChar up)) _
    ((-x).toNat + (ds.length - fA ds.length x) + pz) hF.symm (by simp [fracDigits_length, zeros])
  rw [← this, ← hI]
  simp only [append_assoc]

/-- the fixed style: the pieces `emit` writes are `styleF` -/
theorem fixed_bytes (up : Bool) (ds : List Nat) (x : Int) (pz : Nat) (pt : Bool) (fracLen : Option Nat)
    (hpz : pz = match fracLen with | some P => P - ((-x).toNat + (ds.length - fA ds.length x)) | none => 0) :
    take (fA ds.length x) (ds.map (digitChar up)) ++ replicate (fIz ds.length x) '0' ++
      (if (-x).toNat + (ds.length - fA ds.length x) + pz ≠ 0 ∨ pt = true then ['.'] else []) ++ replicate (-x).toNat '0' ++
      take (ds.length - fA ds.length x) (drop (fA ds.length x) (ds.map (digitChar up))) ++ replicate pz '0' =
    styleF up ds x fracLen pt := by
  rw [fixed_bytes_aux]
  unfold styleF
  cases fracLen with
  | none => simp only at hpz; subst hpz; simp [zeros]
  | some P => simp only at hpz; subst hpz; simp only [padZeros, fracDigits_length]

theorem sci_bytes_aux (up : Bool) (ds : List Nat) (pz : Nat) (pt : Bool)
    (E : List Char) :
    take (min 1 ds.length) (ds.map (digitChar up)) ++ replicate (if ds.length = 0 then 1 else 0) '0' ++
      (if 0 + (ds.length - min 1 ds.length) + pz ≠ 0 ∨ pt = true then ['.'] else []) ++ replicate 0 '0' ++
      take (ds.length - min 1 ds.length) (drop (min 1 ds.length) (ds.map (digitChar up))) ++ replicate pz '0' ++ E =
    digitChar up (ds.headD 0) ::
      (if (ds.tail ++ zeros pz).length ≠ 0 ∨ pt = true then '.' :: (ds.tail ++ zeros pz).map (digitChar up) else []) ++ E := by
  cases ds with
  | nil =>
    have := point_key up pt (zeros pz) ['0'] (replicate pz '0') pz (map_zeros up pz) (by simp [zeros])
    simp only [length_nil, Nat.min_zero, take_zero, if_true, replicate_one, nil_append, Nat.sub_zero, Nat.zero_add,
      replicate_zero, append_nil, drop_zero, map_nil, headD_nil, tail_nil, digitChar_zero] at this ⊢
    rw [this]; simp
  | cons d r =>
    have h1 : min 1 (d :: r).length = 1 := by simp
    rw [h1]
    have h2 : (d :: r).length - 1 = r.length := by simp
    rw [h2]
    have h3 : ¬ ((d :: r).length = 0) := by simp
    rw [if_neg h3]
    have := point_key up pt (r ++ zeros pz) [digitChar up d] (r.map (digitChar up) ++ replicate pz '0') (r.length + pz)
      (by simp [map_zeros]) (by simp [zeros])
    simp only [map_cons, take_succ_cons, take_zero, drop_succ_cons, drop_zero, replicate_zero, append_nil, Nat.zero_add,
      headD_cons, tail_cons]
    rw [take_of_length_le (by simp)]
    have this := congrArg (· ++ E) this
    simp only [append_assoc, cons_append, nil_append] at this ⊢
    exact this

/-- the scientific style: the pieces `emit` writes are `styleE` -/
theorem sci_bytes (up : Bool) (ds : List Nat) (x : Int) (pz : Nat) (pt : Bool) (fracLen : Option Nat)
    (letter : Char) (minD : Nat) (mul : Int) (hz : ds = [] → x = 0)
    (hpz : pz = match fracLen with | some P => P - (ds.length - min 1 ds.length) | none => 0) :
    take (min 1 ds.length) (ds.map (digitChar up)) ++ replicate (if ds.length = 0 then 1 else 0) '0' ++
      (if 0 + (ds.length - min 1 ds.length) + pz ≠ 0 ∨ pt = true then ['.'] else []) ++ replicate 0 '0' ++
      take (ds.length - min 1 ds.length) (drop (min 1 ds.length) (ds.map (digitChar up))) ++ replicate pz '0' ++
      expChars letter minD ((x - (min 1 ds.length : Nat)) * mul) =
    styleE up ds x fracLen pt letter minD mul := by
  rw [sci_bytes_aux]
  unfold styleE
  have hX : (x - (min 1 ds.length : Nat)) = (if ds.length = 0 then 0 else x - 1) := by
    cases ds with
    | nil => have := hz rfl; subst this; simp
    | cons d r => simp
  rw [hX]
  have hl : ds.length - min 1 ds.length = ds.tail.length := by cases ds <;> simp
  rw [hl] at hpz
  cases fracLen with
  | none => simp only at hpz; subst hpz; simp [zeros]
  | some P => simp only at hpz; subst hpz; simp only [padZeros]; rfl

theorem expText_closed (c : FConv) (f : Flags) (W : Nat) (prec : FPrec) (e : Int) :
    expText (closedParams c f W prec) e =
      expChars (if isHex c then (if c.upper then 'P' else 'p') else (if c.upper then 'E' else 'e')) (if isHex c then 1 else 2) e := by
  unfold expText expChars
  have hne := natDigits_ne_nil 10 false e.natAbs
  cases c <;> simp [closedParams, isHex, FConv.upper] <;>
    (rcases hd : natDigits 10 false e.natAbs with _ | ⟨a, _ | ⟨b, t⟩⟩ <;> simp_all)

theorem closed_upper (c : FConv) (f : Flags) (W : Nat) (prec : FPrec) :
    decide ((closedParams c f W prec).base < 0) = c.upper := by
  cases c <;> simp [closedParams, fBaseInt, FConv.upper]

/-- the base prefix of the specification -/
def fPrefix : FConv → List Char
  | .a => ['0', 'x']
  | .A => ['0', 'X']
  | _ => []

theorem showbase_closed (c : FConv) (f : Flags) (W : Nat) (prec : FPrec) (a fl : Nat) (h : isHex c = true ∨ True) :
    (if (closedParams c f W prec).showbase = .no then ([] : List Char)
      else if (closedParams c f W prec).showbase = .nonzero ∧ a = 0 ∧ fl = 0 then []
      else (if (closedParams c f W prec).base = 16 then ['0', 'x'] else if (closedParams c f W prec).base = -16 then ['0', 'X']
            else if (closedParams c f W prec).base = 8 then ['0'] else [])) = fPrefix c := by
  cases c <;> cases hh : f.hash <;> simp [closedParams, isHex, fBaseInt, fPrefix, hh]

/-- `emit` on the fixed layout, for e-less styles of f g G -/
theorem emit_fixed (c : FConv) (hc : isHex c = false) (f : Flags) (W : Nat) (prec : FPrec) (sign : Option Char)
    (ds : List Nat) (x : Int) (prec' : Int) (fracLen : Option Nat)
    (hpz : (if (closedParams c f W prec).showtrailing then
          (prec' - ((((-x).toNat + (ds.length - fA ds.length x) : Nat) : Int) +
            (if (closedParams c f W prec).conv = 3 then ((fA ds.length x + fIz ds.length x : Nat) : Int) else 0))).toNat else 0) =
        match fracLen with | some P => P - ((-x).toNat + (ds.length - fA ds.length x)) | none => 0) :
    callsBytes (emit (closedParams c f W prec) sign (ds.map (digitChar c.upper)) prec' (fixedParts ds.length x)) =
      padF f W sign.toList [] (styleF c.upper ds x fracLen f.hash) := by
  rw [fixedParts_nat, emit_bytes _ _ _ _ _ _ _ _ _ W rfl (by simp [fA]; split <;> omega)]
  simp only []
  rw [hpz, showbase_closed c f W prec _ _ (Or.inr trivial), pad_closed]
  have hsp : (closedParams c f W prec).showpoint = f.hash := by simp [closedParams, hc]
  rw [hsp]
  have hp : fPrefix c = [] := by cases c <;> simp_all [fPrefix, isHex]
  rw [hp, append_nil, fixed_bytes _ _ _ _ _ fracLen rfl]

def expLetter (c : FConv) : Char :=
  if isHex c then (if c.upper then 'P' else 'p') else (if c.upper then 'E' else 'e')

/-- `emit` on the scientific layout -/
theorem emit_sci (c : FConv) (f : Flags) (W : Nat) (prec : FPrec) (sign : Option Char)
    (ds : List Nat) (x : Int) (prec' : Int) (fracLen : Option Nat) (hz : ds = [] → x = 0)
    (hpz : (if (closedParams c f W prec).showtrailing then
          (prec' - ((((0 : Nat) + (ds.length - min 1 ds.length) : Nat) : Int) +
            (if (closedParams c f W prec).conv = 3 then ((min 1 ds.length + (if ds.length = 0 then 1 else 0) : Nat) : Int) else 0))).toNat else 0) =
        match fracLen with | some P => P - (ds.length - min 1 ds.length) | none => 0) :
    callsBytes (emit (closedParams c f W prec) sign (ds.map (digitChar c.upper)) prec' (sciParts (closedParams c f W prec) ds.length x)) =
      padF f W sign.toList (fPrefix c)
        (styleE c.upper ds x fracLen (f.hash && !isHex c) (expLetter c) (if isHex c then 1 else 2) (if isHex c then 4 else 1)) := by
  rw [sciParts_nat, emit_bytes _ _ _ _ _ _ _ _ _ W rfl (by simp)]
  simp only []
  rw [hpz, showbase_closed c f W prec _ _ (Or.inr trivial), pad_closed, expText_closed]
  have hsp : (closedParams c f W prec).showpoint = (f.hash && !isHex c) := by simp [closedParams]
  have h4 : (if (closedParams c f W prec).exptimes4 = true then (4 : Int) else 1) = (if isHex c then 4 else 1) := by simp [closedParams]
  rw [hsp, h4]
  have := sci_bytes c.upper ds x _ (f.hash && !isHex c) fracLen (expLetter c) (if isHex c then 1 else 2) (if isHex c then 4 else 1) hz rfl
  rw [← this]
  rfl

theorem strip_roundUp (b : Nat) (ds : List Nat) (x : Int) :
    MpfStr.stripTrailingZeros (MpfStr.roundUp b ds x).1 = (MpfStr.roundUp b ds x).1 := by
  unfold MpfStr.roundUp MpfStr.stripTrailingZeros
  cases h : dropWhile (fun d => d + 1 == b) ds.reverse with
  | nil => simp
  | cons d rest => simp [dropWhile]

/-- doprntf.c's second rounding is the rule of mpf_get_str applied once more (D-F2, D-F3) -/
theorem fixedRound_eq_roundAt (b : Nat) (ds : List Nat) (x prec : Int) :
    fixedRound b ds x prec = roundAt b ds x (x + prec) := by
  unfold fixedRound roundAt
  simp only []
  by_cases h1 : x + prec < 0
  · simp [h1]
  · simp only [h1, if_false]
    by_cases h2 : (ds.length : Int) ≤ x + prec
    · simp [h2]
    · simp only [h2, if_false]
      have hlen : ds.length > (x + prec).toNat := by omega
      unfold MpfStr.finish
      have hthr : (ds.getD (x + prec).toNat 0 ≥ (b + 1) / 2) ↔ (2 * ds.getD (x + prec).toNat 0 ≥ b) := by omega
      by_cases h3 : 2 * ds.getD (x + prec).toNat 0 ≥ b
      · have h3' := hthr.mpr h3
        simp only [h3', if_true, hlen, h3, and_self, strip_roundUp]
        split <;> simp_all
      · have h3' : ¬ (ds.getD (x + prec).toNat 0 ≥ (b + 1) / 2) := fun h => h3 (hthr.mp h)
        simp only [h3', if_false, hlen, h3, and_false]
        split <;> simp_all

theorem request_fst (P : Params) (fprec : Nat) (fexp : Int) :
    (request P fprec fexp).1 = if P.prec ≤ -1 ∧ P.conv = 3 then (MpfStr.maxDigits P.base.natAbs fprec : Int) else P.prec := by
  unfold request
  simp only []
  split_ifs <;> simp_all

theorem fixedRound_all (b : Nat) (ds : List Nat) (x : Int) :
    fixedRound b ds x (max 0 ((ds.length : Int) - x)) = (ds, x) := by
  unfold fixedRound
  simp only []
  have h1 : ¬ (x + max 0 ((ds.length : Int) - x) < 0) := by omega
  have h2 : (ds.length : Int) ≤ x + max 0 ((ds.length : Int) - x) := by omega
  simp [h1, h2]

theorem specF_prefix (c : FConv) : (match c with | .a => ['0', 'x'] | .A => ['0', 'X'] | _ => ([] : List Char)) = fPrefix c := by
  cases c <;> rfl

/-- model = specification, on the closed parameters -/
theorem layoutOn_closed (c : FConv) (f : Flags) (W : Nat) (prec : FPrec) (fprec : Nat) (fexp : Int)
    (neg : Bool) (ds : List Nat) (x : Int) (hz : ds = [] → x = 0) :
    callsBytes (layoutOn (closedParams c f W prec) (request (closedParams c f W prec) fprec fexp).1 neg ds x) =
      specF c f W prec (MpfStr.maxDigits c.base fprec) neg ds x := by
  unfold layoutOn specF
  simp only [closed_upper, specF_prefix]
  rw [← sign_closed c f W prec neg]
  generalize (if neg = true then some '-' else (closedParams c f W prec).sign) = sign
  cases c with
  | f =>
    have hP : (closedParams .f f W prec).conv = 1 := rfl
    have hb : (closedParams .f f W prec).base.natAbs = 10 := rfl
    have hst : (closedParams .f f W prec).showtrailing = true := by simp [closedParams, isHex, convNum]
    rw [request_fst]
    unfold choose bodyF
    simp only [hP, hb, if_true, show ¬ ((1 : Nat) = 3) by decide, and_false, if_false]
    cases prec with
    | all =>
      have hp1 : (closedParams .f f W .all).prec = -1 := rfl
      simp only [hp1, show ((-1 : Int) ≤ -1) by decide, if_true, fixedRound_all]
      rw [emit_fixed .f rfl f W .all sign ds x _ none]
      simp only [hst, hP, if_true, show ¬ ((1 : Nat) = 3) by decide, if_false]
      unfold fA
      split <;> omega
    | dflt =>
      have hp1 : (closedParams .f f W .dflt).prec = 6 := rfl
      simp only [hp1, show ¬ ((6 : Int) ≤ -1) by decide, if_false, fixedRound_eq_roundAt]
      rw [emit_fixed .f rfl f W .dflt sign _ _ _ (some 6)]
      simp only [hst, hP, if_true, show ¬ ((1 : Nat) = 3) by decide, if_false]
      omega
    | num n =>
      have hp1 : (closedParams .f f W (.num n)).prec = (n : Int) := rfl
      simp only [hp1, show ¬ ((n : Int) ≤ -1) by omega, if_false, fixedRound_eq_roundAt]
      rw [emit_fixed .f rfl f W (.num n) sign _ _ _ (some n)]
      simp only [hst, hP, if_true, show ¬ ((1 : Nat) = 3) by decide, if_false]
      omega
  | e =>
    have hP : (closedParams .e f W prec).conv = 2 := rfl
    have hst : (closedParams .e f W prec).showtrailing = true := by simp [closedParams, isHex, convNum]
    rw [request_fst]
    unfold choose bodyF
    simp only [hP, show ¬ ((2 : Nat) = 1) by decide, show ¬ ((2 : Nat) = 3) by decide, and_false, if_false, if_true]
    cases prec with
    | all =>
      have hp1 : (closedParams .e f W .all).prec = -1 := rfl
      simp only [hp1, show ((-1 : Int) ≤ -1) by decide, if_true]
      rw [emit_sci .e f W .all sign ds x _ none hz]
      · simp [isHex, expLetter, FConv.upper, fPrefix]
      · simp only [hst, hP, if_true, show ¬ ((2 : Nat) = 3) by decide, if_false]
        omega
    | dflt =>
      have hp1 : (closedParams .e f W .dflt).prec = 6 := rfl
      simp only [hp1, show ¬ ((6 : Int) ≤ -1) by decide, if_false]
      rw [emit_sci .e f W .dflt sign ds x _ (some 6) hz]
      · simp [isHex, expLetter, FConv.upper, fPrefix]
      · simp only [hst, hP, if_true, show ¬ ((2 : Nat) = 3) by decide, if_false]
        omega
    | num n =>
      have hp1 : (closedParams .e f W (.num n)).prec = (n : Int) := rfl
      simp only [hp1, show ¬ ((n : Int) ≤ -1) by omega, if_false]
      rw [emit_sci .e f W (.num n) sign ds x _ (some n) hz]
      · simp [isHex, expLetter, FConv.upper, fPrefix]
      · simp only [hst, hP, if_true, show ¬ ((2 : Nat) = 3) by decide, if_false]
        omega
  | E =>
    have hP : (closedParams .E f W prec).conv = 2 := rfl
    have hst : (closedParams .E f W prec).showtrailing = true := by simp [closedParams, isHex, convNum]
    rw [request_fst]
    unfold choose bodyF
    simp only [hP, show ¬ ((2 : Nat) = 1) by decide, show ¬ ((2 : Nat) = 3) by decide, and_false, if_false, if_true]
    cases prec with
    | all =>
      have hp1 : (closedParams .E f W .all).prec = -1 := rfl
      simp only [hp1, show ((-1 : Int) ≤ -1) by decide, if_true]
      rw [emit_sci .E f W .all sign ds x _ none hz]
      · simp [isHex, expLetter, FConv.upper, fPrefix]
      · simp only [hst, hP, if_true, show ¬ ((2 : Nat) = 3) by decide, if_false]
        omega
    | dflt =>
      have hp1 : (closedParams .E f W .dflt).prec = 6 := rfl
      simp only [hp1, show ¬ ((6 : Int) ≤ -1) by decide, if_false]
      rw [emit_sci .E f W .dflt sign ds x _ (some 6) hz]
      · simp [isHex, expLetter, FConv.upper, fPrefix]
      · simp only [hst, hP, if_true, show ¬ ((2 : Nat) = 3) by decide, if_false]
        omega
    | num n =>
      have hp1 : (closedParams .E f W (.num n)).prec = (n : Int) := rfl
      simp only [hp1, show ¬ ((n : Int) ≤ -1) by omega, if_false]
      rw [emit_sci .E f W (.num n) sign ds x _ (some n) hz]
      · simp [isHex, expLetter, FConv.upper, fPrefix]
      · simp only [hst, hP, if_true, show ¬ ((2 : Nat) = 3) by decide, if_false]
        omega
  | g =>
    have hb : ∀ pr, (closedParams .g f W pr).base.natAbs = 10 := fun _ => rfl
    rw [request_fst]
    unfold choose bodyF
    simp only [show ∀ pr, (closedParams .g f W pr).conv = 3 from fun _ => rfl, hb, show ¬ ((3 : Nat) = 1) by decide,
      show ¬ ((3 : Nat) = 2) by decide, and_true, if_false, if_true]
    cases prec with
    | dflt =>
      have hP : (closedParams .g f W .dflt).conv = 3 := rfl
      have hst : (closedParams .g f W .dflt).showtrailing = f.hash := by simp [closedParams, isHex, convNum]
      have hprec : (if (closedParams .g f W .dflt).prec ≤ -1 then (MpfStr.maxDigits 10 fprec : Int)
          else (closedParams .g f W .dflt).prec) = ((6 : Nat) : Int) := by
        rfl
      rw [hprec]
      have hmax : (((max 1 (6) : Nat)) : Int) = max 1 ((6 : Nat) : Int) := by omega
      simp only [show FConv.g.base = 10 from rfl, hmax]
      by_cases hs : x - 1 < -4 ∨ x - 1 ≥ max 1 ((6 : Nat) : Int)
      · simp only [hs, if_true]
        cases hh : f.hash with
        | true =>
          rw [emit_sci .g f W .dflt sign ds x _ (some (max 1 (6) - 1)) hz]
          · simp [isHex, expLetter, FConv.upper, fPrefix, hh]
          · simp only [hst, hP, hh, if_true]
            by_cases hl : ds.length = 0
            · simp only [hl, eq_self_iff_true, if_true]; omega
            · simp only [hl, if_false]; omega
        | false =>
          rw [emit_sci .g f W .dflt sign ds x _ none hz]
          · simp [isHex, expLetter, FConv.upper, fPrefix, hh]
          · simp [hst, hh]
      · simp only [hs, if_false]
        cases hh : f.hash with
        | true =>
          rw [emit_fixed .g rfl f W .dflt sign ds x _ (some (if x ≥ 1 then (6) - x.toNat else (6) - 1))]
          · simp [FConv.upper, hh]
          · simp only [hst, hP, hh, if_true]
            unfold fA fIz
            by_cases hx : x ≤ 0
            · have : ¬ x ≥ 1 := by omega
              simp only [hx, this, if_true, if_false]; omega
            · have : x ≥ 1 := by omega
              simp only [hx, this, if_true, if_false]; omega
        | false =>
          rw [emit_fixed .g rfl f W .dflt sign ds x _ none]
          · simp [FConv.upper, hh]
          · simp [hst, hh]
    | all =>
      have hP : (closedParams .g f W .all).conv = 3 := rfl
      have hst : (closedParams .g f W .all).showtrailing = f.hash := by simp [closedParams, isHex, convNum]
      have hprec : (if (closedParams .g f W .all).prec ≤ -1 then (MpfStr.maxDigits 10 fprec : Int)
          else (closedParams .g f W .all).prec) = ((MpfStr.maxDigits 10 fprec : Nat) : Int) := by
        rfl
      rw [hprec]
      have hmax : (((max 1 (MpfStr.maxDigits 10 fprec) : Nat)) : Int) = max 1 ((MpfStr.maxDigits 10 fprec : Nat) : Int) := by omega
      simp only [show FConv.g.base = 10 from rfl, hmax]
      by_cases hs : x - 1 < -4 ∨ x - 1 ≥ max 1 ((MpfStr.maxDigits 10 fprec : Nat) : Int)
      · simp only [hs, if_true]
        cases hh : f.hash with
        | true =>
          rw [emit_sci .g f W .all sign ds x _ (some (max 1 (MpfStr.maxDigits 10 fprec) - 1)) hz]
          · simp [isHex, expLetter, FConv.upper, fPrefix, hh]
          · simp only [hst, hP, hh, if_true]
            by_cases hl : ds.length = 0
            · simp only [hl, eq_self_iff_true, if_true]; omega
            · simp only [hl, if_false]; omega
        | false =>
          rw [emit_sci .g f W .all sign ds x _ none hz]
          · simp [isHex, expLetter, FConv.upper, fPrefix, hh]
          · simp [hst, hh]
      · simp only [hs, if_false]
        cases hh : f.hash with
        | true =>
          rw [emit_fixed .g rfl f W .all sign ds x _ (some (if x ≥ 1 then (MpfStr.maxDigits 10 fprec) - x.toNat else (MpfStr.maxDigits 10 fprec) - 1))]
          · simp [FConv.upper, hh]
          · simp only [hst, hP, hh, if_true]
            unfold fA fIz
            by_cases hx : x ≤ 0
            · have : ¬ x ≥ 1 := by omega
              simp only [hx, this, if_true, if_false]; omega
            · have : x ≥ 1 := by omega
              simp only [hx, this, if_true, if_false]; omega
        | false =>
          rw [emit_fixed .g rfl f W .all sign ds x _ none]
          · simp [FConv.upper, hh]
          · simp [hst, hh]
    | num n =>
      have hP : (closedParams .g f W (.num n)).conv = 3 := rfl
      have hst : (closedParams .g f W (.num n)).showtrailing = f.hash := by simp [closedParams, isHex, convNum]
      have hprec : (if (closedParams .g f W (.num n)).prec ≤ -1 then (MpfStr.maxDigits 10 fprec : Int)
          else (closedParams .g f W (.num n)).prec) = ((n : Nat) : Int) := by
        have hp1 : (closedParams .g f W (.num n)).prec = (n : Int) := rfl
        simp only [hp1, show ¬ ((n : Int) ≤ -1) by omega, if_false]
      rw [hprec]
      have hmax : (((max 1 (n) : Nat)) : Int) = max 1 ((n : Nat) : Int) := by omega
      simp only [show FConv.g.base = 10 from rfl, hmax]
      by_cases hs : x - 1 < -4 ∨ x - 1 ≥ max 1 ((n : Nat) : Int)
      · simp only [hs, if_true]
        cases hh : f.hash with
        | true =>
          rw [emit_sci .g f W (.num n) sign ds x _ (some (max 1 (n) - 1)) hz]
          · simp [isHex, expLetter, FConv.upper, fPrefix, hh]
          · simp only [hst, hP, hh, if_true]
            by_cases hl : ds.length = 0
            · simp only [hl, eq_self_iff_true, if_true]; omega
            · simp only [hl, if_false]; omega
        | false =>
          rw [emit_sci .g f W (.num n) sign ds x _ none hz]
          · simp [isHex, expLetter, FConv.upper, fPrefix, hh]
          · simp [hst, hh]
      · simp only [hs, if_false]
        cases hh : f.hash with
        | true =>
          rw [emit_fixed .g rfl f W (.num n) sign ds x _ (some (if x ≥ 1 then (n) - x.toNat else (n) - 1))]
          · simp [FConv.upper, hh]
          · simp only [hst, hP, hh, if_true]
            unfold fA fIz
            by_cases hx : x ≤ 0
            · have : ¬ x ≥ 1 := by omega
              simp only [hx, this, if_true, if_false]; omega
            · have : x ≥ 1 := by omega
              simp only [hx, this, if_true, if_false]; omega
        | false =>
          rw [emit_fixed .g rfl f W (.num n) sign ds x _ none]
          · simp [FConv.upper, hh]
          · simp [hst, hh]
  | G =>
    have hb : ∀ pr, (closedParams .G f W pr).base.natAbs = 10 := fun _ => rfl
    rw [request_fst]
    unfold choose bodyF
    simp only [show ∀ pr, (closedParams .G f W pr).conv = 3 from fun _ => rfl, hb, show ¬ ((3 : Nat) = 1) by decide,
      show ¬ ((3 : Nat) = 2) by decide, and_true, if_false, if_true]
    cases prec with
    | dflt =>
      have hP : (closedParams .G f W .dflt).conv = 3 := rfl
      have hst : (closedParams .G f W .dflt).showtrailing = f.hash := by simp [closedParams, isHex, convNum]
      have hprec : (if (closedParams .G f W .dflt).prec ≤ -1 then (MpfStr.maxDigits 10 fprec : Int)
          else (closedParams .G f W .dflt).prec) = ((6 : Nat) : Int) := by
        rfl
      rw [hprec]
      have hmax : (((max 1 (6) : Nat)) : Int) = max 1 ((6 : Nat) : Int) := by omega
      simp only [show FConv.G.base = 10 from rfl, hmax]
      by_cases hs : x - 1 < -4 ∨ x - 1 ≥ max 1 ((6 : Nat) : Int)
      · simp only [hs, if_true]
        cases hh : f.hash with
        | true =>
          rw [emit_sci .G f W .dflt sign ds x _ (some (max 1 (6) - 1)) hz]
          · simp [isHex, expLetter, FConv.upper, fPrefix, hh]
          · simp only [hst, hP, hh, if_true]
            by_cases hl : ds.length = 0
            · simp only [hl, eq_self_iff_true, if_true]; omega
            · simp only [hl, if_false]; omega
        | false =>
          rw [emit_sci .G f W .dflt sign ds x _ none hz]
          · simp [isHex, expLetter, FConv.upper, fPrefix, hh]
          · simp [hst, hh]
      · simp only [hs, if_false]
        cases hh : f.hash with
        | true =>
          rw [emit_fixed .G rfl f W .dflt sign ds x _ (some (if x ≥ 1 then (6) - x.toNat else (6) - 1))]
          · simp [FConv.upper, hh]
          · simp only [hst, hP, hh, if_true]
            unfold fA fIz
            by_cases hx : x ≤ 0
            · have : ¬ x ≥ 1 := by omega
              simp only [hx, this, if_true, if_false]; omega
            · have : x ≥ 1 := by omega
              simp only [hx, this, if_true, if_false]; omega
        | false =>
          rw [emit_fixed .G rfl f W .dflt sign ds x _ none]
          · simp [FConv.upper, hh]
          · simp [hst, hh]
    | all =>
      have hP : (closedParams .G f W .all).conv = 3 := rfl
      have hst : (closedParams .G f W .all).showtrailing = f.hash := by simp [closedParams, isHex, convNum]
      have hprec : (if (closedParams .G f W .all).prec ≤ -1 then (MpfStr.maxDigits 10 fprec : Int)
          else (closedParams .G f W .all).prec) = ((MpfStr.maxDigits 10 fprec : Nat) : Int) := by
        rfl
      rw [hprec]
      have hmax : (((max 1 (MpfStr.maxDigits 10 fprec) : Nat)) : Int) = max 1 ((MpfStr.maxDigits 10 fprec : Nat) : Int) := by omega
      simp only [show FConv.G.base = 10 from rfl, hmax]
      by_cases hs : x - 1 < -4 ∨ x - 1 ≥ max 1 ((MpfStr.maxDigits 10 fprec : Nat) : Int)
      · simp only [hs, if_true]
        cases hh : f.hash with
        | true =>
          rw [emit_sci .G f W .all sign ds x _ (some (max 1 (MpfStr.maxDigits 10 fprec) - 1)) hz]
          · simp [isHex, expLetter, FConv.upper, fPrefix, hh]
          · simp only [hst, hP, hh, if_true]
            by_cases hl : ds.length = 0
            · simp only [hl, eq_self_iff_true, if_true]; omega
            · simp only [hl, if_false]; omega
        | false =>
          rw [emit_sci .G f W .all sign ds x _ none hz]
          · simp [isHex, expLetter, FConv.upper, fPrefix, hh]
          · simp [hst, hh]
      · simp only [hs, if_false]
        cases hh : f.hash with
        | true =>
          rw [emit_fixed .G rfl f W .all sign ds x _ (some (if x ≥ 1 then (MpfStr.maxDigits 10 fprec) - x.toNat else (MpfStr.maxDigits 10 fprec) - 1))]
          · simp [FConv.upper, hh]
          · simp only [hst, hP, hh, if_true]
            unfold fA fIz
            by_cases hx : x ≤ 0
            · have : ¬ x ≥ 1 := by omega
              simp only [hx, this, if_true, if_false]; omega
            · have : x ≥ 1 := by omega
              simp only [hx, this, if_true, if_false]; omega
        | false =>
          rw [emit_fixed .G rfl f W .all sign ds x _ none]
          · simp [FConv.upper, hh]
          · simp [hst, hh]
    | num n =>
      have hP : (closedParams .G f W (.num n)).conv = 3 := rfl
      have hst : (closedParams .G f W (.num n)).showtrailing = f.hash := by simp [closedParams, isHex, convNum]
      have hprec : (if (closedParams .G f W (.num n)).prec ≤ -1 then (MpfStr.maxDigits 10 fprec : Int)
          else (closedParams .G f W (.num n)).prec) = ((n : Nat) : Int) := by
        have hp1 : (closedParams .G f W (.num n)).prec = (n : Int) := rfl
        simp only [hp1, show ¬ ((n : Int) ≤ -1) by omega, if_false]
      rw [hprec]
      have hmax : (((max 1 (n) : Nat)) : Int) = max 1 ((n : Nat) : Int) := by omega
      simp only [show FConv.G.base = 10 from rfl, hmax]
      by_cases hs : x - 1 < -4 ∨ x - 1 ≥ max 1 ((n : Nat) : Int)
      · simp only [hs, if_true]
        cases hh : f.hash with
        | true =>
          rw [emit_sci .G f W (.num n) sign ds x _ (some (max 1 (n) - 1)) hz]
          · simp [isHex, expLetter, FConv.upper, fPrefix, hh]
          · simp only [hst, hP, hh, if_true]
            by_cases hl : ds.length = 0
            · simp only [hl, eq_self_iff_true, if_true]; omega
            · simp only [hl, if_false]; omega
        | false =>
          rw [emit_sci .G f W (.num n) sign ds x _ none hz]
          · simp [isHex, expLetter, FConv.upper, fPrefix, hh]
          · simp [hst, hh]
      · simp only [hs, if_false]
        cases hh : f.hash with
        | true =>
          rw [emit_fixed .G rfl f W (.num n) sign ds x _ (some (if x ≥ 1 then (n) - x.toNat else (n) - 1))]
          · simp [FConv.upper, hh]
          · simp only [hst, hP, hh, if_true]
            unfold fA fIz
            by_cases hx : x ≤ 0
            · have : ¬ x ≥ 1 := by omega
              simp only [hx, this, if_true, if_false]; omega
            · have : x ≥ 1 := by omega
              simp only [hx, this, if_true, if_false]; omega
        | false =>
          rw [emit_fixed .G rfl f W (.num n) sign ds x _ none]
          · simp [FConv.upper, hh]
          · simp [hst, hh]
  | a =>
    have hP : (closedParams .a f W prec).conv = 2 := rfl
    have hst : (closedParams .a f W prec).showtrailing = true := by simp [closedParams, isHex, convNum]
    rw [request_fst]
    unfold choose bodyF
    simp only [hP, show ¬ ((2 : Nat) = 1) by decide, show ¬ ((2 : Nat) = 3) by decide, and_false, if_false, if_true]
    cases prec with
    | all =>
      have hp1 : (closedParams .a f W .all).prec = -1 := rfl
      simp only [hp1, show ((-1 : Int) ≤ -1) by decide, if_true]
      rw [emit_sci .a f W .all sign ds x _ none hz]
      · simp [isHex, expLetter, FConv.upper, fPrefix]
      · simp only [hst, hP, if_true, show ¬ ((2 : Nat) = 3) by decide, if_false]
        omega
    | dflt =>
      have hp1 : (closedParams .a f W .dflt).prec = -1 := rfl
      simp only [hp1, show ((-1 : Int) ≤ -1) by decide, if_true]
      rw [emit_sci .a f W .dflt sign ds x _ none hz]
      · simp [isHex, expLetter, FConv.upper, fPrefix]
      · simp only [hst, hP, if_true, show ¬ ((2 : Nat) = 3) by decide, if_false]
        omega
    | num n =>
      have hp1 : (closedParams .a f W (.num n)).prec = (n : Int) := rfl
      simp only [hp1, show ¬ ((n : Int) ≤ -1) by omega, if_false]
      rw [emit_sci .a f W (.num n) sign ds x _ (some n) hz]
      · simp [isHex, expLetter, FConv.upper, fPrefix]
      · simp only [hst, hP, if_true, show ¬ ((2 : Nat) = 3) by decide, if_false]
        omega
  | A =>
    have hP : (closedParams .A f W prec).conv = 2 := rfl
    have hst : (closedParams .A f W prec).showtrailing = true := by simp [closedParams, isHex, convNum]
    rw [request_fst]
    unfold choose bodyF
    simp only [hP, show ¬ ((2 : Nat) = 1) by decide, show ¬ ((2 : Nat) = 3) by decide, and_false, if_false, if_true]
    cases prec with
    | all =>
      have hp1 : (closedParams .A f W .all).prec = -1 := rfl
      simp only [hp1, show ((-1 : Int) ≤ -1) by decide, if_true]
      rw [emit_sci .A f W .all sign ds x _ none hz]
      · simp [isHex, expLetter, FConv.upper, fPrefix]
      · simp only [hst, hP, if_true, show ¬ ((2 : Nat) = 3) by decide, if_false]
        omega
    | dflt =>
      have hp1 : (closedParams .A f W .dflt).prec = -1 := rfl
      simp only [hp1, show ((-1 : Int) ≤ -1) by decide, if_true]
      rw [emit_sci .A f W .dflt sign ds x _ none hz]
      · simp [isHex, expLetter, FConv.upper, fPrefix]
      · simp only [hst, hP, if_true, show ¬ ((2 : Nat) = 3) by decide, if_false]
        omega
    | num n =>
      have hp1 : (closedParams .A f W (.num n)).prec = (n : Int) := rfl
      simp only [hp1, show ¬ ((n : Int) ≤ -1) by omega, if_false]
      rw [emit_sci .A f W (.num n) sign ds x _ (some n) hz]
      · simp [isHex, expLetter, FConv.upper, fPrefix]
      · simp only [hst, hP, if_true, show ¬ ((2 : Nat) = 3) by decide, if_false]
        omega

end Mpir.PrintfF
