/- Helper lemmas for the float layout theorem (C18, part c18_flayout). -/
import Mpir.Model.PrintfF
import MpirProofs.Lemmas.Printf
namespace Mpir.PrintfF
open Mpir Mpir.Printf List

/-- the parser's code for the float conversions is `floatParams` followed by the call -/
theorem doFloat_eq (old : Bool) (ps : PS) (tp : List Char) (c : Char) (st : DS) :
    doFloat old ps tp c st =
      if ps.type = 'F' then
        match flush st tp with
        | some st => (match st.ap with
          | .mpf fprec neg limbs fexp :: as =>
              some (({ st with ap := as }.emit (doprntMpf (floatParams old ps c) fprec neg limbs fexp)).sync)
          | _ => none)
        | none => none
      else none := rfl

theorem callsBytes_append (a b : List Call) : callsBytes (a ++ b) = callsBytes a ++ callsBytes b := by
  simp [callsBytes]

theorem callsBytes_repsMaybe (c : Char) (n : Nat) : callsBytes (repsMaybe c n) = replicate n c := by
  unfold repsMaybe callsBytes; split <;> simp_all [Call.bytes]

theorem callsBytes_memoryMaybe (s : List Char) : callsBytes (memoryMaybe s) = s := by
  unfold memoryMaybe callsBytes; split <;> simp_all [Call.bytes]

theorem fm_repsMaybe (c : Char) (n : Nat) : flatMap Call.bytes (repsMaybe c n) = replicate n c := callsBytes_repsMaybe c n
theorem fm_memoryMaybe (s : List Char) : flatMap Call.bytes (memoryMaybe s) = s := callsBytes_memoryMaybe s
theorem fm_pt (pt : List Char) : flatMap Call.bytes (if pt = [] then [] else [Call.memory pt]) = pt := by
  split <;> simp_all [Call.bytes]

/-- `emit` in closed form, on lengths that are natural numbers -/
theorem emit_bytes (p : Params) (sign : Option Char) (s : List Char) (prec : Int) (a iz fz fl : Nat) (ex : List Char)
    (W : Nat) (hw : p.width = (W : Int)) (hlen : a + fl ≤ s.length) :
    callsBytes (emit p sign s prec ⟨a, iz, fz, fl, ex⟩) =
      (let pz : Nat := if p.showtrailing then
          (prec - (((fz + fl : Nat) : Int) + (if p.conv = 3 then ((a + iz : Nat) : Int) else 0))).toNat else 0
       let sb : List Char :=
          if p.showbase = .no then []
          else if p.showbase = .nonzero ∧ a = 0 ∧ fl = 0 then []
          else (if p.base = 16 then ['0', 'x'] else if p.base = -16 then ['0', 'X'] else if p.base = 8 then ['0'] else [])
       padModel p.justify p.fill W sign.toList sb 0
        (s.take a ++ replicate iz '0' ++ (if fz + fl + pz ≠ 0 ∨ p.showpoint then ['.'] else []) ++ replicate fz '0' ++
          (s.drop a).take fl ++ replicate pz '0' ++ ex)) := by
  unfold emit
  simp only []
  generalize hpzN : (if p.showtrailing then
      (prec - (((fz + fl : Nat) : Int) + (if p.conv = 3 then ((a + iz : Nat) : Int) else 0))).toNat else 0) = pz
  have hpz : (if p.showtrailing = true then
      max 0 (prec - ((fz : Int) + (fl : Int) + if p.conv = 3 then (a : Int) + (iz : Int) else 0)) else 0) = (pz : Int) := by
    rw [← hpzN]
    by_cases h1 : p.showtrailing = true <;> by_cases h2 : p.conv = 3 <;> simp only [h1, h2, if_true, if_false] <;> push_cast <;> omega
  rw [hpz]
  generalize hsb : (if p.showbase = .no then ([] : List Char)
          else if p.showbase = .nonzero ∧ a = 0 ∧ fl = 0 then []
          else (if p.base = 16 then ['0', 'x'] else if p.base = -16 then ['0', 'X'] else if p.base = 8 then ['0'] else [])) = sb
  have hsb' : (if p.showbase = .no then ([] : List Char)
          else if p.showbase = .nonzero ∧ (a : Int) = 0 ∧ (fl : Int) = 0 then []
          else (if p.base = 16 then ['0', 'x'] else if p.base = -16 then ['0', 'X'] else if p.base = 8 then ['0'] else [])) = sb := by
    rw [← hsb]; simp only [Int.natCast_eq_zero]
  rw [hsb']
  generalize hpt : (if fz + fl + pz ≠ 0 ∨ p.showpoint = true then ['.'] else ([] : List Char)) = pt
  have hpl : (if (fz : Int) + (fl : Int) + (pz : Int) ≠ 0 ∨ p.showpoint = true then (1 : Int) else 0) = (pt.length : Int) := by
    rw [← hpt]
    by_cases h : fz + fl + pz ≠ 0 ∨ p.showpoint = true
    · have h' : (fz : Int) + (fl : Int) + (pz : Int) ≠ 0 ∨ p.showpoint = true := by
        rcases h with h | h
        · left; omega
        · right; exact h
      rw [if_pos h, if_pos h']; rfl
    · have h' : ¬ ((fz : Int) + (fl : Int) + (pz : Int) ≠ 0 ∨ p.showpoint = true) := by
        intro h'; apply h
        rcases h' with h' | h'
        · left; omega
        · right; exact h'
      rw [if_neg h, if_neg h']; rfl
  rw [hpl]
  have hptm : (if (pt.length : Int) ≠ 0 then [Call.memory ['.']] else []) = (if pt = [] then [] else [Call.memory pt]) := by
    rw [← hpt]; split <;> simp
  rw [hptm]
  have hta : (s.take a).length = a := by simp; omega
  have htf : ((s.drop a).take fl).length = fl := by simp; omega
  generalize hbody : s.take a ++ replicate iz '0' ++ pt ++ replicate fz '0' ++ (s.drop a).take fl ++ replicate pz '0' ++ ex = body
  have hbl : body.length = a + iz + pt.length + fz + fl + pz + ex.length := by
    rw [← hbody]; simp only [length_append, length_replicate, hta, htf]
  have hj : p.width - ((if sign.isSome = true then (1 : Int) else 0) + (sb.length : Int) + (a : Int) + (iz : Int) + (pt.length : Int) + (fz : Int) +
      (fl : Int) + (pz : Int) + (ex.length : Int)) = (W : Int) - ((body.length + sign.toList.length + sb.length + 0 : Nat) : Int) := by
    rw [hw, hbl]; cases sign <;> simp <;> omega
  rw [hj]
  unfold padModel
  simp only []
  generalize hN : body.length + sign.toList.length + sb.length + 0 = N
  have hpad : ((W : Int) - (N : Int)).toNat = W - N := by omega
  have hle : ((W : Int) - (N : Int) ≤ 0) ↔ W - N = 0 := by omega
  rw [hpad]
  simp only [hle]
  generalize W - N = pad
  rw [← hbody]
  by_cases hp0 : pad = 0
  · simp only [hp0, if_true]
    cases sign <;> simp [fm_repsMaybe, fm_memoryMaybe, fm_pt, callsBytes, Call.bytes]
  · simp only [hp0, if_false]
    cases hjj : p.justify <;> cases sign <;>
      simp [fm_repsMaybe, fm_memoryMaybe, fm_pt, callsBytes, Call.bytes]

/-! ### the parameters the parser arrives at, in closed form -/

def fBaseInt : FConv → Int
  | .f | .e | .g => 10
  | .E | .G => -10
  | .a => 16
  | .A => -16
def isHex : FConv → Bool
  | .a | .A => true
  | _ => false
def convNum : FConv → Nat
  | .f => 1
  | .g | .G => 3
  | _ => 2
def precIntF (c : FConv) : FPrec → Int
  | .dflt => if isHex c then -1 else 6
  | .all => -1
  | .num n => n

def closedParams (c : FConv) (f : Flags) (W : Nat) (prec : FPrec) : Params :=
  { base := fBaseInt c, conv := convNum c, expUpper := c.upper, expHex := isHex c, exptimes4 := isHex c,
    fill := if ¬ f.minus ∧ f.zero then '0' else ' ',
    justify := if f.minus then .left else if f.zero then .internal else .right,
    prec := precIntF c prec,
    showbase := if isHex c then .yes else if f.hash then .nonzero else .no,
    showpoint := f.hash && !isHex c,
    showtrailing := isHex c || decide (convNum c ≠ 3) || f.hash,
    sign := if f.plus then some '+' else if f.space then some ' ' else none,
    width := W }

theorem stepFlag_closed (ps : PS) (c : Char) (hp : ps.inPrec = false) :
    stepFlag false ps c = { ps with param := { ps.param with
      showbase := gShow ps.param.showbase c, sign := gSign ps.param.sign c,
      justify := gJust ps.param.justify c, fill := gFill ps.param.fill c } } := by
  obtain ⟨⟨b, cv, eu, eh, e4, fi, ju, pr, sb, sp, st, sg, wi⟩, ty, ip, sp', inn⟩ := ps
  simp only at hp
  subst hp
  unfold stepFlag gShow gSign gJust gFill PS.setValue
  by_cases h1 : c = '#'
  · subst h1; simp
  by_cases h2 : c = '+'
  · subst h2; simp
  by_cases h3 : c = ' '
  · subst h3; cases sg <;> simp
  by_cases h4 : c = '-'
  · subst h4; simp
  by_cases h5 : c = '0'
  · subst h5; simp
  simp [h1, h2, h3, h4, h5]

theorem flags_closed (fl : List Char) : ∀ (ps : PS), ps.inPrec = false →
    fl.foldl (stepFlag false) ps = { ps with param := { ps.param with
      showbase := fl.foldl gShow ps.param.showbase, sign := fl.foldl gSign ps.param.sign,
      justify := fl.foldl gJust ps.param.justify, fill := fl.foldl gFill ps.param.fill } } := by
  induction fl with
  | nil => intro ps _; rfl
  | cons c cs ih =>
    intro ps hp
    simp only [foldl_cons]
    rw [stepFlag_closed ps c hp]
    refine (ih _ ?_).trans ?_
    · exact hp
    · rfl

def baseP (Fi : Char) (J : Justify) (S : Showbase) (G : Option Char) (Wd Pr : Int) : Params :=
  { fill := Fi, justify := J, showbase := S, sign := G, width := Wd, prec := Pr }

theorem floatParams_closed (c : FConv) (Fi : Char) (J : Justify) (S : Showbase) (G : Option Char) (Wd Pr : Int)
    (ty : Char) (ip seen inn : Bool) :
    floatParams false ⟨baseP Fi J S G Wd Pr, ty, ip, seen, inn⟩ c.char =
      { base := fBaseInt c, conv := convNum c, expUpper := c.upper, expHex := isHex c, exptimes4 := isHex c,
        fill := if J = .left then ' ' else Fi, justify := J,
        prec := if isHex c ∧ seen = false then -1 else Pr,
        showbase := if isHex c then .yes else S,
        showpoint := !isHex c && decide (S = .nonzero),
        showtrailing := isHex c || decide (convNum c ≠ 3) || decide (S = .nonzero),
        sign := G, width := Wd } := by
  cases c <;> cases S <;> by_cases hj : J = .left <;> cases seen <;>
    simp [floatParams, baseP, FConv.char, fBaseInt, isHex, convNum, FConv.upper, hj]

theorem widthStep_closed (Fi : Char) (J : Justify) (S : Showbase) (G : Option Char) (Pr : Int) (w : WidthArg) :
    widthStep ⟨baseP Fi J S G 0 Pr, '\x00', false, false, false⟩ w =
      ⟨baseP Fi (if negStar w then .left else J) S G (cWidth w) Pr, '\x00', false, false, false⟩ := by
  cases w with
  | none => simp [widthStep, negStar, cWidth]
  | num n => simp [widthStep, PS.setValue, negStar, cWidth, baseP]
  | star n =>
    by_cases hn : n < 0
    · simp [widthStep, stepStar, negStar, cWidth, baseP, hn]; exact (abs_of_neg hn).symm
    · simp [widthStep, stepStar, negStar, cWidth, baseP, hn]; exact (abs_of_nonneg (by omega)).symm

/-- precision and `seen_precision` after the precision part -/
def precAfter : PrecArg → Int
  | .none => 6
  | .dot => -1
  | .num n => n
  | .star n => if n < 0 then 6 else n
def seenAfter : PrecArg → Bool
  | .none => false
  | .dot => true
  | .num _ => true
  | .star n => decide (0 ≤ n)

theorem floatParams_congr (old : Bool) (ps ps' : PS) (c : Char) (h1 : ps.param = ps'.param) (h2 : ps.seenPrec = ps'.seenPrec) :
    floatParams old ps c = floatParams old ps' c := by
  unfold floatParams; rw [h1, h2]

theorem precStep_closed (Fi : Char) (J : Justify) (S : Showbase) (G : Option Char) (Wd : Int) (p : PrecArg) (c : Char) :
    floatParams false (precStep ⟨baseP Fi J S G Wd 6, '\x00', false, false, false⟩ p) c =
      floatParams false ⟨baseP Fi J S G Wd (precAfter p), '\x00', false, seenAfter p, false⟩ c := by
  apply floatParams_congr
  · cases p with
    | none => rfl
    | dot => rfl
    | num n => simp [precStep, stepDot, PS.setValue, baseP, precAfter]
    | star n =>
      by_cases hn : n < 0
      · simp [precStep, stepDot, stepStar, baseP, precAfter, hn]
      · simp [precStep, stepDot, stepStar, baseP, precAfter, hn]
  · cases p with
    | none => rfl
    | dot => rfl
    | num n => simp [precStep, stepDot, PS.setValue, seenAfter]
    | star n =>
      by_cases hn : n < 0
      · have : ¬ 0 ≤ n := by omega
        simp [precStep, stepDot, stepStar, seenAfter, hn, this]
      · have : 0 ≤ n := by omega
        simp [precStep, stepDot, stepStar, seenAfter, hn, this]

theorem fSpecParams_eq (fl : List Char) (w : WidthArg) (p : PrecArg) (c : FConv) :
    fSpecParams fl w p c = floatParams false (precStep (widthStep (fl.foldl (stepFlag false) {}) w) p) c.char := by
  unfold fSpecParams widthStep precStep
  cases w <;> cases p <;> rfl

theorem fSpecParams_closed (fl : List Char) (w : WidthArg) (p : PrecArg) (c : FConv) :
    fSpecParams fl w p c = closedParams c (cFlags fl w) (cWidth w) (cPrecF p) := by
  rw [fSpecParams_eq, flags_closed fl {} rfl, gShow_fold, gSign_fold, gJust_fold, gFill_fold]
  have e0 : ({ ({} : PS) with param := { ({} : PS).param with
      showbase := if '#' ∈ fl then Showbase.nonzero else ({} : PS).param.showbase,
      sign := if '+' ∈ fl then some '+' else
        (match ({} : PS).param.sign with | some s => some s | none => if ' ' ∈ fl then some ' ' else none),
      justify := if '-' ∈ fl then Justify.left else if '0' ∈ fl ∧ ({} : PS).param.justify = .right then .internal else ({} : PS).param.justify,
      fill := if '0' ∈ fl then '0' else ({} : PS).param.fill } } : PS) =
      ⟨baseP (if '0' ∈ fl then '0' else ' ') (if '-' ∈ fl then Justify.left else if '0' ∈ fl then .internal else .right)
        (if '#' ∈ fl then Showbase.nonzero else .no) (if '+' ∈ fl then some '+' else if ' ' ∈ fl then some ' ' else none) 0 6,
        '\x00', false, false, false⟩ := by
    simp [baseP]
  rw [e0, widthStep_closed, precStep_closed, floatParams_closed]
  have hpr : (if isHex c = true ∧ seenAfter p = false then (-1 : Int) else precAfter p) = precIntF c (cPrecF p) := by
    cases p with
    | none => cases c <;> simp [isHex, seenAfter, precAfter, precIntF, cPrecF]
    | dot => cases c <;> simp [isHex, seenAfter, precAfter, precIntF, cPrecF]
    | num n => cases c <;> simp [isHex, seenAfter, precAfter, precIntF, cPrecF]
    | star n =>
      by_cases hn : n < 0
      · have : ¬ 0 ≤ n := by omega
        cases c <;> simp [isHex, seenAfter, precAfter, precIntF, cPrecF, hn, this]
      · have : 0 ≤ n := by omega
        cases c <;> simp [isHex, seenAfter, precAfter, precIntF, cPrecF, hn, this]
  rw [hpr]
  have hc : ∀ ch : Char, fl.contains ch = decide (ch ∈ fl) := fun ch => by simp
  unfold closedParams cFlags
  simp only [hc]
  cases w with
  | none => by_cases h1 : '#' ∈ fl <;> by_cases h2 : '-' ∈ fl <;> by_cases h3 : '0' ∈ fl <;> simp [h1, h2, h3, negStar]
  | num n => by_cases h1 : '#' ∈ fl <;> by_cases h2 : '-' ∈ fl <;> by_cases h3 : '0' ∈ fl <;> simp [h1, h2, h3, negStar]
  | star n =>
    by_cases h1 : '#' ∈ fl <;> by_cases h2 : '-' ∈ fl <;> by_cases h3 : '0' ∈ fl <;> by_cases h6 : n < 0 <;>
      simp [h1, h2, h3, h6, negStar]

/-! ### the pieces of the layout -/

theorem pad_closed (c : FConv) (f : Flags) (W : Nat) (prec : FPrec) (sg sb body : List Char) :
    padModel (closedParams c f W prec).justify (closedParams c f W prec).fill W sg sb 0 body = padF f W sg sb body := by
  have := pad_eq f.minus f.zero W sg sb sb 0 body body (by simp) (by intro _; exact ⟨rfl, fun n => rfl⟩)
  simpa [closedParams, padSpec, padF] using this

theorem sign_closed (c : FConv) (f : Flags) (W : Nat) (prec : FPrec) (neg : Bool) :
    (if neg then some '-' else (closedParams c f W prec).sign).toList = signChars f neg := by
  cases neg <;> simp [closedParams, signChars] <;> split_ifs <;> simp

/-- lengths of the fixed layout as natural numbers -/
def fA (L : Nat) (x : Int) : Nat := if x ≤ 0 then 0 else min L x.toNat
def fIz (L : Nat) (x : Int) : Nat := if x ≤ 0 then 1 else x.toNat - L

theorem fixedParts_nat (L : Nat) (x : Int) :
    fixedParts (L : Int) x = ⟨(fA L x : Nat), (fIz L x : Nat), ((-x).toNat : Nat), ((L - fA L x : Nat) : Nat), []⟩ := by
  unfold fixedParts fA fIz
  by_cases h : x ≤ 0
  · simp only [h, if_true, Parts.mk.injEq]; refine ⟨by simp, by simp, by omega, by simp, trivial⟩
  · simp only [h, if_false, Parts.mk.injEq]; refine ⟨by omega, by omega, by omega, by omega, trivial⟩

theorem sciParts_nat (p : Params) (L : Nat) (x : Int) :
    sciParts p (L : Int) x = ⟨(min 1 L : Nat), ((if L = 0 then 1 else 0 : Nat) : Nat), (0 : Nat), ((L - min 1 L : Nat) : Nat),
      expText p ((x - (min 1 L : Nat)) * (if p.exptimes4 then 4 else 1))⟩ := by
  unfold sciParts
  simp only [Parts.mk.injEq]
  refine ⟨by omega, ?_, by simp, by omega, ?_⟩
  · by_cases h : L = 0
    · subst h; simp
    · have : min (1 : Int) (L : Int) ≠ 0 := by omega
      simp [h, this]
  · congr 2; congr 1; omega

theorem map_zeros (up : Bool) (n : Nat) : (zeros n).map (digitChar up) = replicate n '0' := by
  simp [zeros, digitChar_zero]

theorem point_key (up pt : Bool) (fr : List Nat) (I : List Char) (F : List Char) (n : Nat)
    (hF : fr.map (digitChar up) = F) (hn : fr.length = n) :
    I ++ (if n ≠ 0 ∨ pt = true then ['.'] else []) ++ F =
    I ++ (if fr.length ≠ 0 ∨ pt = true then '.' :: fr.map (digitChar up) else []) := by
  subst hF; subst hn
  by_cases hc : fr.length ≠ 0 ∨ pt = true
  · rw [if_pos hc, if_pos hc]; simp
  · have : fr = [] := by
      by_contra h'; apply hc; left; simpa using h'
    subst this; rw [if_neg hc, if_neg hc]; simp

theorem fracDigits_length (ds : List Nat) (x : Int) :
    (fracDigits ds x).length = (-x).toNat + (ds.length - fA ds.length x) := by
  unfold fracDigits fA zeros
  by_cases h : x ≤ 0
  · have hk : x.toNat = 0 := by omega
    simp [h, hk]
  · simp [h]; omega

theorem fixed_bytes_aux (up : Bool) (ds : List Nat) (x : Int) (pz : Nat) (pt : Bool) :
    take (fA ds.length x) (ds.map (digitChar up)) ++ replicate (fIz ds.length x) '0' ++
      (if (-x).toNat + (ds.length - fA ds.length x) + pz ≠ 0 ∨ pt = true then ['.'] else []) ++ replicate (-x).toNat '0' ++
      take (ds.length - fA ds.length x) (drop (fA ds.length x) (ds.map (digitChar up))) ++ replicate pz '0' =
    (intDigits ds x).map (digitChar up) ++
      (if (fracDigits ds x ++ zeros pz).length ≠ 0 ∨ pt = true then '.' :: (fracDigits ds x ++ zeros pz).map (digitChar up) else []) := by
  have hI : take (fA ds.length x) (ds.map (digitChar up)) ++ replicate (fIz ds.length x) '0' = (intDigits ds x).map (digitChar up) := by
    unfold intDigits fA fIz
    by_cases h : x ≤ 0
    · simp [h, digitChar_zero]
    · simp only [h, if_false, map_append, map_zeros, ← map_take]
      congr 2
      rcases Nat.le_total ds.length x.toNat with h1 | h1
      · rw [Nat.min_eq_left h1, take_of_length_le h1, take_of_length_le (le_refl _)]
      · rw [Nat.min_eq_right h1]
  have hF : replicate (-x).toNat '0' ++ take (ds.length - fA ds.length x) (drop (fA ds.length x) (ds.map (digitChar up))) ++ replicate pz '0' =
      (fracDigits ds x ++ zeros pz).map (digitChar up) := by
    unfold fracDigits fA
    by_cases h : x ≤ 0
    · have hk : x.toNat = 0 := by omega
      simp [h, hk, map_zeros]
      exact take_of_length_le (by simp)
    · have hneg : (-x).toNat = 0 := by omega
      simp only [h, if_false, hneg, replicate_zero, nil_append, map_append, map_zeros, ← map_drop]
      rw [take_of_length_le (by simp)]
      congr 2
      rcases Nat.le_total ds.length x.toNat with h1 | h1
      · rw [Nat.min_eq_left h1, drop_of_length_le h1, drop_of_length_le (le_refl _)]
      · rw [Nat.min_eq_right h1]
  have := point_key up pt (fracDigits ds x ++ zeros pz) ((intDigits ds x).map (digitChar up)) _
    ((-x).toNat + (ds.length - fA ds.length x) + pz) hF.symm (by simp [fracDigits_length, zeros])
  rw [← this, ← hI]
  simp only [append_assoc]

/-- the fixed style: the pieces `emit` writes are `styleF` -/
theorem fixed_bytes (up : Bool) (ds : List Nat) (x : Int) (pz : Nat) (pt : Bool) (fracLen : Option Nat)
    (hpz : pz = match fracLen with | some P => P - ((-x).toNat + (ds.length - fA ds.length x)) | none => 0) :
    take (fA ds.length x) (ds.map (digitChar up)) ++ replicate (fIz ds.length x) '0' ++
      (if (-x).toNat + (ds.length - fA ds.length x) + pz ≠ 0 ∨ pt = true then ['.'] else []) ++ replicate (-x).toNat '0' ++
      take (ds.length - fA ds.length x) (drop (fA ds.length x) (ds.map (digitChar up))) ++ replicate pz '0' =
    styleF up ds x fracLen pt := by
  rw [fixed_bytes_aux]
  unfold styleF
  cases fracLen with
  | none => simp only at hpz; subst hpz; simp [zeros]
  | some P => simp only at hpz; subst hpz; simp only [padZeros, fracDigits_length]

theorem sci_bytes_aux (up : Bool) (ds : List Nat) (pz : Nat) (pt : Bool)
    (E : List Char) :
    take (min 1 ds.length) (ds.map (digitChar up)) ++ replicate (if ds.length = 0 then 1 else 0) '0' ++
      (if 0 + (ds.length - min 1 ds.length) + pz ≠ 0 ∨ pt = true then ['.'] else []) ++ replicate 0 '0' ++
      take (ds.length - min 1 ds.length) (drop (min 1 ds.length) (ds.map (digitChar up))) ++ replicate pz '0' ++ E =
    digitChar up (ds.headD 0) ::
      (if (ds.tail ++ zeros pz).length ≠ 0 ∨ pt = true then '.' :: (ds.tail ++ zeros pz).map (digitChar up) else []) ++ E := by
  cases ds with
  | nil =>
    have := point_key up pt (zeros pz) ['0'] (replicate pz '0') pz (map_zeros up pz) (by simp [zeros])
    simp only [length_nil, Nat.min_zero, take_zero, if_true, replicate_one, nil_append, Nat.sub_zero, Nat.zero_add,
      replicate_zero, append_nil, drop_zero, map_nil, headD_nil, tail_nil, digitChar_zero] at this ⊢
    rw [this]; simp
  | cons d r =>
    have h1 : min 1 (d :: r).length = 1 := by simp
    rw [h1]
    have h2 : (d :: r).length - 1 = r.length := by simp
    rw [h2]
    have h3 : ¬ ((d :: r).length = 0) := by simp
    rw [if_neg h3]
    have := point_key up pt (r ++ zeros pz) [digitChar up d] (r.map (digitChar up) ++ replicate pz '0') (r.length + pz)
      (by simp [map_zeros]) (by simp [zeros])
    simp only [map_cons, take_succ_cons, take_zero, drop_succ_cons, drop_zero, replicate_zero, append_nil, Nat.zero_add,
      headD_cons, tail_cons]
    rw [take_of_length_le (by simp)]
    have this := congrArg (· ++ E) this
    simp only [append_assoc, cons_append, nil_append] at this ⊢
    exact this

/-- the scientific style: the pieces `emit` writes are `styleE` -/
theorem sci_bytes (up : Bool) (ds : List Nat) (x : Int) (pz : Nat) (pt : Bool) (fracLen : Option Nat)
    (letter : Char) (minD : Nat) (mul : Int) (hz : ds = [] → x = 0)
    (hpz : pz = match fracLen with | some P => P - (ds.length - min 1 ds.length) | none => 0) :
    take (min 1 ds.length) (ds.map (digitChar up)) ++ replicate (if ds.length = 0 then 1 else 0) '0' ++
      (if 0 + (ds.length - min 1 ds.length) + pz ≠ 0 ∨ pt = true then ['.'] else []) ++ replicate 0 '0' ++
      take (ds.length - min 1 ds.length) (drop (min 1 ds.length) (ds.map (digitChar up))) ++ replicate pz '0' ++
      expChars letter minD ((x - (min 1 ds.length : Nat)) * mul) =
    styleE up ds x fracLen pt letter minD mul := by
  rw [sci_bytes_aux]
  unfold styleE
  have hX : (x - (min 1 ds.length : Nat)) = (if ds.length = 0 then 0 else x - 1) := by
    cases ds with
    | nil => have := hz rfl; subst this; simp
    | cons d r => simp
  rw [hX]
  have hl : ds.length - min 1 ds.length = ds.tail.length := by cases ds <;> simp
  rw [hl] at hpz
  cases fracLen with
  | none => simp only at hpz; subst hpz; simp [zeros]
  | some P => simp only at hpz; subst hpz; simp only [padZeros]; rfl

theorem expText_closed (c : FConv) (f : Flags) (W : Nat) (prec : FPrec) (e : Int) :
    expText (closedParams c f W prec) e =
      expChars (if isHex c then (if c.upper then 'P' else 'p') else (if c.upper then 'E' else 'e')) (if isHex c then 1 else 2) e := by
  unfold expText expChars
  have hne := natDigits_ne_nil 10 false e.natAbs
  cases c <;> simp [closedParams, isHex, FConv.upper] <;>
    (rcases hd : natDigits 10 false e.natAbs with _ | ⟨a, _ | ⟨b, t⟩⟩ <;> simp_all)

end Mpir.PrintfF
