/-
  C02 / mpn_tdiv_q, second branch, part 2 (tdiv_q.c:279-291): MPN_COPY (qp, tp+1, qn), the guard-limb test, the
  multiply-back, `rn`, the compare and mpn_decr_u — and the second branch as a whole.
-/
import MpirProofs.Lemmas.TdivQBranch2
namespace Mpir.TdivQ
open Mpir Mpir.DivWord

/-- tdiv_q.c:285-289: `rn > nn || mpn_cmp (np, rp, nn) < 0` with rp = D·Qh on dn+qn = nn+1 limbs is the comparison
    N < D·Qh of the VALUES: a non-zero top limb rp[nn] means D·Qh ≥ B^nn > N, otherwise the nn low limbs are compared -/
theorem mulback_test (n d qp : List Nat) (hn : Limbs n) (hd : Limbs d) (hqp : Limbs qp)
    (hdn : d.length ≤ n.length) (hql : qp.length = n.length - d.length + 1) :
    (decide (d.length + (n.length - d.length + 1) -
        (if (mul d qp).getD (d.length + (n.length - d.length + 1) - 1) 0 = 0 then 1 else 0) > n.length) ||
      decide (cmp n ((mul d qp).take n.length) < 0)) = decide (val n < val d * val qp) := by
  have hB := B_pos
  have hlen : d.length + (n.length - d.length + 1) = n.length + 1 := by omega
  have hV : val d * val qp < B ^ (n.length + 1) := by
    have h1 := val_lt d hd
    have h2 := val_lt qp hqp
    have : B ^ (n.length + 1) = B ^ d.length * B ^ qp.length := by rw [← pow_add]; congr 1; omega
    rw [this]
    exact Nat.mul_lt_mul'' h1 h2
  have hmul : mul d qp = toLimbs n.length (val d * val qp) ++ [val d * val qp / B ^ n.length] := by
    unfold mul
    rw [hql, hlen, toLimbs_snoc]
    congr 2
    apply Nat.mod_eq_of_lt
    rw [Nat.div_lt_iff_lt_mul (Bpow_pos _), ← pow_succ']; exact hV
  have hget : (mul d qp).getD (d.length + (n.length - d.length + 1) - 1) 0 = val d * val qp / B ^ n.length := by
    rw [hmul, hlen, Nat.add_sub_cancel, List.getD_eq_getElem?_getD,
      List.getElem?_append_right (by rw [toLimbs_length]), toLimbs_length]
    simp
  have htake : (mul d qp).take n.length = toLimbs n.length (val d * val qp) := by
    rw [hmul, List.take_left' (toLimbs_length _ _)]
  rw [hget, htake, hlen]
  have hnlt := val_lt n hn
  by_cases h0 : val d * val qp / B ^ n.length = 0
  · have hlt : val d * val qp < B ^ n.length := by
      rcases Nat.lt_or_ge (val d * val qp) (B ^ n.length) with h | h
      · exact h
      · have := Nat.div_pos h (Bpow_pos n.length); omega
    rw [if_pos h0]
    have hc := cmp_lt_iff n (toLimbs n.length (val d * val qp)) hn (toLimbs_Limbs _ _) (by rw [toLimbs_length])
    rw [toLimbs_val_lt _ _ hlt] at hc
    have : ¬ (n.length + 1 - 1 > n.length) := by omega
    simp only [this, decide_false, Bool.false_or]
    exact decide_eq_decide.mpr hc
  · have hge : B ^ n.length ≤ val d * val qp := by
      rcases Nat.lt_or_ge (val d * val qp) (B ^ n.length) with h | h
      · exact absurd (Nat.div_eq_of_lt h) h0
      · exact h
    rw [if_neg h0]
    have h1 : n.length + 1 - 0 > n.length := by omega
    have h2 : val n < val d * val qp := by omega
    simp only [h1, h2, decide_true, Bool.true_or]

/-- tdiv_q.c:279-291 given what the value-level theorem `guard_four` says about tp[]: the qn limbs left in qp are
    those of ⌊N/D⌋ -/
theorem finish2_spec (n d tp : List Nat) (hn : Limbs n) (hd : Limbs d) (htp : Limbs tp)
    (hnn : d.length ≤ n.length) (hlen : tp.length = n.length - d.length + 1 + 1)
    (hg : 4 < val tp % B → val tp / B = val n / val d)
    (hc : (if val n < val d * (val tp / B) then val tp / B - 1 else val tp / B) = val n / val d) :
    (finish2 n d tp).1 = toLimbs (n.length - d.length + 1) (val n / val d) := by
  obtain ⟨hqv, hg0⟩ := val_tail_head tp htp (by omega)
  have hqL : Limbs (tp.drop 1) := Limbs_drop htp 1
  have hql : (tp.drop 1).length = n.length - d.length + 1 := by rw [List.length_drop, hlen]; omega
  unfold finish2
  simp only []
  rw [hg0]
  by_cases h4 : val tp % B ≤ 4
  · rw [if_pos h4, mulback_test n d (tp.drop 1) hn hd hqL hnn hql, hqv]
    by_cases hlt : val n < val d * (val tp / B)
    · rw [if_pos (by simpa using hlt)]
      rw [if_pos hlt] at hc
      dsimp only
      obtain ⟨dv, db, dL, dl⟩ := decr_val (tp.drop 1) hqL
      rw [hqv, hql] at dv
      rw [hql] at dl
      have hpos : 0 < val tp / B := by
        rcases Nat.eq_zero_or_pos (val tp / B) with h | h
        · rw [h, Nat.mul_zero] at hlt; exact absurd hlt (Nat.not_lt_zero _)
        · exact h
      have hlt' := val_lt _ dL
      rw [dl] at hlt'
      have hb0 : (decr (tp.drop 1)).2 = 0 := by
        rcases Nat.eq_zero_or_pos (decr (tp.drop 1)).2 with h | h
        · exact h
        · have : B ^ (n.length - d.length + 1) * 1 ≤ B ^ (n.length - d.length + 1) * (decr (tp.drop 1)).2 :=
            Nat.mul_le_mul_left _ h
          omega
      rw [hb0, Nat.mul_zero, Nat.add_zero] at dv
      exact eq_toLimbs _ _ _ dL dl (by omega)
    · rw [if_neg (by simpa using hlt)]
      rw [if_neg hlt] at hc
      dsimp only
      exact eq_toLimbs _ _ _ hqL hql (by rw [hqv]; exact hc)
  · rw [if_neg h4]
    dsimp only
    exact eq_toLimbs _ _ _ hqL hql (by rw [hqv]; exact hg (by omega))

/-- second branch of mpn_tdiv_q: for every behaviour of the approximate callee with error e ≤ 3 (the documented
    contract is e ≤ 1) the qn limbs stored are exactly those of ⌊N/D⌋.  Needs only qn+2 ≤ dn (FUDGE ≥ 1). -/
theorem branch2_spec (T : Thresholds) (e : Nat) (he : e ≤ 3) (n d : List Nat) (hn : Limbs n) (hd : Limbs d)
    (hnn : d.length ≤ n.length) (hq : n.length - d.length + 1 + 2 ≤ d.length) (htop : d.getD (d.length - 1) 0 ≠ 0) :
    (branch2 T e n d).1 = toLimbs (n.length - d.length + 1) (val n / val d) := by
  obtain ⟨t1, t2, t3, t4⟩ := tpOf_spec T e he n d hn hd hnn hq htop
  obtain ⟨c, c', hcc, SN, SD, _, _, Snorm, _, _⟩ := prep2_spec n d hn hd hnn hq htop
  have hfit := quot_fits n d hn hd (by omega) hnn htop
  rw [SN, SD] at t3 t4
  rw [SD] at Snorm
  obtain ⟨g1, g2⟩ := guard_four (val n) (val d) (B ^ (n.length - (2 * (n.length - d.length + 1) + 1))) c c'
    (n.length - d.length + 1) (val (tpOf T e n d).1) e (Bpow_pos _) hcc Snorm hfit t3 t4 he
  unfold branch2
  dsimp only
  exact finish2_spec n d _ hn hd t2 hnn t1 g1 g2

end Mpir.TdivQ
