/- Lemmas for the middle product models (Mpir/Model/MulMid.lean): carry limbs of the basecase, the specification `mpW`
   (splitting by diagonals and by rows, bound), add-back, chunk loops. -/
import Mpir.Model.MulMid
import MpirProofs.Lemmas.Base
import MpirProofs.Lemmas.Kernels
import Mathlib.Tactic.Ring
import Mathlib.Tactic.Linarith
import Mathlib.Tactic.LinearCombination
namespace Mpir.MulMid
open Mpir

theorem win_length (a : List Nat) (s rn : Nat) (h : s + rn ≤ a.length) : (win a s rn).length = rn := by
  simp only [win, List.length_take, List.length_drop]; omega

theorem win_limbs {a : List Nat} (ha : Limbs a) (s rn : Nat) : Limbs (win a s rn) := Limbs_take (Limbs_drop ha _) _

/-- add_ssaaaa (hi, lo, hi, lo, 0, temp) is the exact two-limb sum while at most B rows have been accumulated -/
theorem addSs0_spec (hi lo temp k : Nat) (hlo : lo < B) (hhi : hi < B) (ht : temp < B)
    (hk : lo + B * hi ≤ k * (B - 1)) (hkB : k + 1 ≤ B) :
    (addSs0 hi lo temp).2 + B * (addSs0 hi lo temp).1 = lo + B * hi + temp ∧
    (addSs0 hi lo temp).1 < B ∧ (addSs0 hi lo temp).2 < B ∧
    (addSs0 hi lo temp).2 + B * (addSs0 hi lo temp).1 ≤ (k + 1) * (B - 1) := by
  simp only [addSs0, boolToNat_decide]
  simp only [B_eq] at *
  split <;> omega

/-- the addmul_1 rows of the basecase: {rp, un} + B^un·(lo + B·hi) grows by exactly the rows' share of MP -/
theorem rows_val (a : List Nat) (ha : Limbs a) (un : Nat) : ∀ (vs rp : List Nat) (lo hi k : Nat),
    Limbs vs → Limbs rp → rp.length = un → lo < B → hi < B → lo + B * hi ≤ k * (B - 1) → k + vs.length ≤ B →
    vs.length - 1 + un ≤ a.length →
    val (rows a un vs rp lo hi).1 + B ^ un * ((rows a un vs rp lo hi).2.1 + B * (rows a un vs rp lo hi).2.2)
      = val rp + B ^ un * (lo + B * hi) + mpW un a vs ∧
    Limbs (rows a un vs rp lo hi).1 ∧ (rows a un vs rp lo hi).1.length = un ∧
    (rows a un vs rp lo hi).2.1 < B ∧ (rows a un vs rp lo hi).2.2 < B
  | [], rp, lo, hi, k, _, hrp, hl, hlo, hhi, _, _, _ => by simp [rows, mpW, hrp, hl, hlo, hhi]
  | v :: vs, rp, lo, hi, k, hvs, hrp, hl, hlo, hhi, hk, hkB, hlen => by
    have ⟨hv, hvs'⟩ := Limbs_cons.mp hvs
    simp only [List.length_cons] at hkB hlen
    have hwl : (win a vs.length un).length = un := win_length a _ _ (by omega)
    obtain ⟨av, ac, al, an⟩ := addmul1C_val v hv rp (win a vs.length un) 0 hrp (win_limbs ha _ _)
      (by rw [hl, hwl]) B_pos
    rw [hwl] at av an
    obtain ⟨es, s1, s2, sk⟩ := addSs0_spec hi lo (addmul1C rp (win a vs.length un) v 0).2 k hlo hhi ac hk (by omega)
    have step : rows a un (v :: vs) rp lo hi =
        rows a un vs (addmul1C rp (win a vs.length un) v 0).1
          (addSs0 hi lo (addmul1C rp (win a vs.length un) v 0).2).2
          (addSs0 hi lo (addmul1C rp (win a vs.length un) v 0).2).1 := by
      simp only [rows, addmul_1]
    obtain ⟨ihv, ihl, ihn, ih1, ih2⟩ := rows_val a ha un vs _ _ _ (k + 1) hvs' al an s2 s1 sk (by omega) (by omega)
    rw [step]
    refine ⟨?_, ihl, ihn, ih1, ih2⟩
    rw [ihv]
    simp only [mpW]
    linear_combination av + B ^ un * es

/-- mpn_mulmid_basecase on {a, un0} × (v0 :: vs): the un0 - vn + 3 limbs are MP exactly -/
theorem basecase_val (a : List Nat) (un0 : Nat) (v0 : Nat) (vs : List Nat) (ha : Limbs a) (hb : Limbs (v0 :: vs))
    (hun : vs.length + 1 ≤ un0) (hal : un0 ≤ a.length) (hB : vs.length + 1 ≤ B) :
    val (mulmid_basecase a un0 (v0 :: vs)) = mpW (un0 - vs.length) a (v0 :: vs) ∧
    Limbs (mulmid_basecase a un0 (v0 :: vs)) ∧
    (mulmid_basecase a un0 (v0 :: vs)).length = un0 - vs.length + 2 := by
  have ⟨hv0, hvs⟩ := Limbs_cons.mp hb
  obtain ⟨un, hune⟩ : ∃ un, un = un0 - vs.length := ⟨_, rfl⟩
  have hwl : (win a vs.length un).length = un := win_length a _ _ (by omega)
  obtain ⟨mv, mc, ml, mn⟩ := mul1C_val v0 hv0 (win a vs.length un) 0 (win_limbs ha _ _) B_pos
  rw [hwl] at mv mn
  have step : mulmid_basecase a un0 (v0 :: vs) =
      (rows a un vs (mul1C (win a vs.length un) v0 0).1 (mul1C (win a vs.length un) v0 0).2 0).1 ++
      [(rows a un vs (mul1C (win a vs.length un) v0 0).1 (mul1C (win a vs.length un) v0 0).2 0).2.1,
       (rows a un vs (mul1C (win a vs.length un) v0 0).1 (mul1C (win a vs.length un) v0 0).2 0).2.2] := by
    rw [hune]; simp only [mulmid_basecase, mul_1]
  obtain ⟨rv, rl, rn, r1, r2⟩ := rows_val a ha un vs _ _ 0 1 hvs ml mn mc B_pos
    (by simp only [B_eq] at *; omega) (by omega) (by omega)
  rw [step, ← hune]
  refine ⟨?_, Limbs_append.mpr ⟨rl, Limbs_cons.mpr ⟨r1, Limbs_cons.mpr ⟨r2, Limbs_nil⟩⟩⟩, by simp [rn]⟩
  simp only [val_append, val_cons, val_nil, rn, mpW]
  linear_combination rv + mv

/-- the specification of mpn_toom42_mulmid (toom42_mulmid.c header): {rp, n+2} = MP({ap, 2n-1}, {bp, n}) -/
def TmSpec (tm : List Nat → List Nat → Nat → List Nat) : Prop :=
  ∀ (a b : List Nat) (n : Nat), Limbs a → Limbs b → b.length = n → 1 ≤ n → 2 * n - 1 ≤ a.length →
    val (tm a b n) = mpW n a b ∧ Limbs (tm a b n) ∧ (tm a b n).length = n + 2

end Mpir.MulMid
