/- Lemmas for the middle product models (Mpir/Model/MulMid.lean): carry limbs of the basecase, the specification `mpW`
   (splitting by diagonals and by rows, bound), add-back, chunk loops. -/
import Mpir.Model.MulMid
import MpirProofs.Lemmas.Base
import MpirProofs.Lemmas.Kernels
import Mathlib.Tactic.Ring
import Mathlib.Tactic.Linarith
import Mathlib.Tactic.LinearCombination
namespace Mpir.MulMid
open Mpir

theorem win_length (a : List Nat) (s rn : Nat) (h : s + rn ≤ a.length) : (win a s rn).length = rn := by
  simp only [win, List.length_take, List.length_drop]; omega

theorem win_limbs {a : List Nat} (ha : Limbs a) (s rn : Nat) : Limbs (win a s rn) := Limbs_take (Limbs_drop ha _) _

/-- add_ssaaaa (hi, lo, hi, lo, 0, temp) is the exact two-limb sum while at most B rows have been accumulated -/
theorem addSs0_spec (hi lo temp k : Nat) (hlo : lo < B) (hhi : hi < B) (ht : temp < B)
    (hk : lo + B * hi ≤ k * (B - 1)) (hkB : k + 1 ≤ B) :
    (addSs0 hi lo temp).2 + B * (addSs0 hi lo temp).1 = lo + B * hi + temp ∧
    (addSs0 hi lo temp).1 < B ∧ (addSs0 hi lo temp).2 < B ∧
    (addSs0 hi lo temp).2 + B * (addSs0 hi lo temp).1 ≤ (k + 1) * (B - 1) := by
  simp only [addSs0, boolToNat_decide]
  simp only [B_eq] at *
  split <;> omega

/-- the addmul_1 rows of the basecase: {rp, un} + B^un·(lo + B·hi) grows by exactly the rows' share of MP -/
theorem rows_val (a : List Nat) (ha : Limbs a) (un : Nat) : ∀ (vs rp : List Nat) (lo hi k : Nat),
    Limbs vs → Limbs rp → rp.length = un → lo < B → hi < B → lo + B * hi ≤ k * (B - 1) → k + vs.length ≤ B →
    vs.length - 1 + un ≤ a.length →
    val (rows a un vs rp lo hi).1 + B ^ un * ((rows a un vs rp lo hi).2.1 + B * (rows a un vs rp lo hi).2.2)
      = val rp + B ^ un * (lo + B * hi) + mpW un a vs ∧
    Limbs (rows a un vs rp lo hi).1 ∧ (rows a un vs rp lo hi).1.length = un ∧
    (rows a un vs rp lo hi).2.1 < B ∧ (rows a un vs rp lo hi).2.2 < B
  | [], rp, lo, hi, k, _, hrp, hl, hlo, hhi, _, _, _ => by simp [rows, mpW, hrp, hl, hlo, hhi]
  | v :: vs, rp, lo, hi, k, hvs, hrp, hl, hlo, hhi, hk, hkB, hlen => by
    have ⟨hv, hvs'⟩ := Limbs_cons.mp hvs
    simp only [List.length_cons] at hkB hlen
    have hwl : (win a vs.length un).length = un := win_length a _ _ (by omega)
    obtain ⟨av, ac, al, an⟩ := addmul1C_val v hv rp (win a vs.length un) 0 hrp (win_limbs ha _ _)
      (by rw [hl, hwl]) B_pos
    rw [hwl] at av an
    obtain ⟨es, s1, s2, sk⟩ := addSs0_spec hi lo (addmul1C rp (win a vs.length un) v 0).2 k hlo hhi ac hk (by omega)
    have step : rows a un (v :: vs) rp lo hi =
        rows a un vs (addmul1C rp (win a vs.length un) v 0).1
          (addSs0 hi lo (addmul1C rp (win a vs.length un) v 0).2).2
          (addSs0 hi lo (addmul1C rp (win a vs.length un) v 0).2).1 := by
      simp only [rows, addmul_1]
    obtain ⟨ihv, ihl, ihn, ih1, ih2⟩ := rows_val a ha un vs _ _ _ (k + 1) hvs' al an s2 s1 sk (by omega) (by omega)
    rw [step]
    refine ⟨?_, ihl, ihn, ih1, ih2⟩
    rw [ihv]
    simp only [mpW]
    linear_combination av + B ^ un * es

/-- mpn_mulmid_basecase on {a, un0} × (v0 :: vs): the un0 - vn + 3 limbs are MP exactly -/
theorem basecase_val (a : List Nat) (un0 : Nat) (v0 : Nat) (vs : List Nat) (ha : Limbs a) (hb : Limbs (v0 :: vs))
    (hun : vs.length + 1 ≤ un0) (hal : un0 ≤ a.length) (hB : vs.length + 1 ≤ B) :
    val (mulmid_basecase a un0 (v0 :: vs)) = mpW (un0 - vs.length) a (v0 :: vs) ∧
    Limbs (mulmid_basecase a un0 (v0 :: vs)) ∧
    (mulmid_basecase a un0 (v0 :: vs)).length = un0 - vs.length + 2 := by
  have ⟨hv0, hvs⟩ := Limbs_cons.mp hb
  obtain ⟨un, hune⟩ : ∃ un, un = un0 - vs.length := ⟨_, rfl⟩
  have hwl : (win a vs.length un).length = un := win_length a _ _ (by omega)
  obtain ⟨mv, mc, ml, mn⟩ := mul1C_val v0 hv0 (win a vs.length un) 0 (win_limbs ha _ _) B_pos
  rw [hwl] at mv mn
  have step : mulmid_basecase a un0 (v0 :: vs) =
      (rows a un vs (mul1C (win a vs.length un) v0 0).1 (mul1C (win a vs.length un) v0 0).2 0).1 ++
      [(rows a un vs (mul1C (win a vs.length un) v0 0).1 (mul1C (win a vs.length un) v0 0).2 0).2.1,
       (rows a un vs (mul1C (win a vs.length un) v0 0).1 (mul1C (win a vs.length un) v0 0).2 0).2.2] := by
    rw [hune]; simp only [mulmid_basecase, mul_1]
  obtain ⟨rv, rl, rn, r1, r2⟩ := rows_val a ha un vs _ _ 0 1 hvs ml mn mc B_pos
    (by simp only [B_eq] at *; omega) (by omega) (by omega)
  rw [step, ← hune]
  refine ⟨?_, Limbs_append.mpr ⟨rl, Limbs_cons.mpr ⟨r1, Limbs_cons.mpr ⟨r2, Limbs_nil⟩⟩⟩, by simp [rn]⟩
  simp only [val_append, val_cons, val_nil, rn, mpW]
  linear_combination rv + mv

/-- the specification of mpn_toom42_mulmid (toom42_mulmid.c header): {rp, n+2} = MP({ap, 2n-1}, {bp, n}), for the sizes n ≥ T =
    MULMID_TOOM42_THRESHOLD at which mulmid_n.c / mulmid.c call it -/
def TmSpec (T : Nat) (tm : List Nat → List Nat → Nat → List Nat) : Prop :=
  ∀ (a b : List Nat) (n : Nat), Limbs a → Limbs b → b.length = n → 1 ≤ n → T ≤ n → n ≤ B → 2 * n - 1 ≤ a.length →
    val (tm a b n) = mpW n a b ∧ Limbs (tm a b n) ∧ (tm a b n).length = n + 2

/-! ### the specification: splitting and bound -/

theorem val_take_add : ∀ (k : Nat) (l : List Nat) (r : Nat),
    val (l.take (k + r)) = val (l.take k) + B ^ k * val ((l.drop k).take r)
  | 0, l, r => by simp
  | k + 1, [], r => by simp
  | k + 1, x :: xs, r => by
    have e : k + 1 + r = (k + r) + 1 := by omega
    rw [e]
    simp only [List.take_succ_cons, List.drop_succ_cons, val_cons, val_take_add k xs r, pow_succ]
    ring

/-- splitting MP by diagonals: the first k diagonals, then r more on the operand advanced by k (`ap += k`) -/
theorem mpW_hsplit (k r : Nat) (a : List Nat) : ∀ b : List Nat,
    mpW (k + r) a b = mpW k a b + B ^ k * mpW r (a.drop k) b
  | [] => by simp [mpW]
  | b0 :: bs => by
    simp only [mpW, win, mpW_hsplit k r a bs, val_take_add k _ r, List.drop_drop]
    rw [Nat.add_comm k bs.length]
    ring

/-- splitting MP by rows: the high rows `hi` on a, the low rows on the operand advanced by |hi| (`ap += |hi|`) -/
theorem mpW_vsplit (rn : Nat) (a hi : List Nat) : ∀ lo : List Nat,
    mpW rn a (lo ++ hi) = mpW rn (a.drop hi.length) lo + mpW rn a hi
  | [] => by simp [mpW]
  | b0 :: bs => by
    simp only [List.cons_append, mpW, win, mpW_vsplit rn a hi bs, List.length_append, List.drop_drop]
    rw [Nat.add_comm bs.length hi.length]
    ring

theorem val_lt_pow (l : List Nat) (h : Limbs l) (n : Nat) (hn : l.length ≤ n) : val l < B ^ n :=
  lt_of_lt_of_le (val_lt l h) (Nat.pow_le_pow_right B_pos hn)

/-- MP of n rows of rn diagonals is below n·B^(rn+1): it fits rn + 2 limbs while n ≤ B, and its top limb is below n -/
theorem mpW_le (rn : Nat) (a : List Nat) (ha : Limbs a) : ∀ b : List Nat, Limbs b →
    mpW rn a b + b.length * B ^ rn ≤ b.length * B ^ (rn + 1)
  | [], _ => by simp [mpW]
  | b0 :: bs, hb => by
    have ⟨h0, hbs⟩ := Limbs_cons.mp hb
    have ih := mpW_le rn a ha bs hbs
    have hw : val (win a bs.length rn) < B ^ rn := val_lt_pow _ (win_limbs ha _ _) rn (by simp [win])
    simp only [mpW, List.length_cons, pow_succ] at *
    have : b0 * val (win a bs.length rn) + B ^ rn ≤ B ^ rn * B := by
      have h1 : b0 * val (win a bs.length rn) ≤ (B - 1) * B ^ rn :=
        Nat.mul_le_mul (by omega) (le_of_lt hw)
      have hB := B_pos
      obtain ⟨c, hc⟩ : ∃ c, B = c + 1 := ⟨B - 1, by omega⟩
      rw [hc] at h1 ⊢
      simp only [Nat.add_sub_cancel] at h1
      nlinarith
    nlinarith

/-! ### add-back of the two saved limbs -/

/-- the two limbs above the first k of a (k+2)-limb vector: `t0 = rp[0], t1 = rp[1]` after `rp += k` -/
theorem top2 : ∀ (k : Nat) (l : List Nat), l.length = k + 2 → Limbs l →
    val l = val (l.take k) + B ^ k * (l.getD k 0 + B * l.getD (k + 1) 0) ∧ l.getD k 0 < B ∧ l.getD (k + 1) 0 < B ∧
    (l.take k).length = k
  | 0, [x, y], _, h => by
    have ⟨hx, hy⟩ := Limbs_cons.mp h
    have ⟨hy, _⟩ := Limbs_cons.mp hy
    simp [hx, hy]
  | k + 1, z :: l, hl, h => by
    have ⟨hz, hl'⟩ := Limbs_cons.mp h
    obtain ⟨e, h0, h1, h2⟩ := top2 k l (by simpa using hl) hl'
    simp only [List.take_succ_cons, val_cons, List.getD_cons_succ, pow_succ, List.length_cons, h2]
    refine ⟨?_, h0, h1, trivial⟩
    rw [e]; ring

theorem addc_limb (x y : Nat) (hx : x < B) (hy : y < B) :
    (x + y) % B + B * boolToNat (decide ((x + y) % B < x)) = x + y ∧ (x + y) % B < B := by
  rw [boolToNat_decide]
  simp only [B_eq] at *
  split <;> omega

/-- ADDC_LIMB + MPN_INCR_U: the region grows by t0 + B·t1, with mpn_add_1's carry c made explicit -/
theorem addback_val (r0 r1 : Nat) (rs : List Nat) (t0 t1 : Nat) (h : Limbs (r0 :: r1 :: rs)) (h0 : t0 < B) (h1 : t1 + 1 < B) :
    ∃ c, val (addback (r0 :: r1 :: rs) t0 t1) + B ^ (rs.length + 2) * c = val (r0 :: r1 :: rs) + t0 + B * t1 ∧
      Limbs (addback (r0 :: r1 :: rs) t0 t1) ∧ (addback (r0 :: r1 :: rs) t0 t1).length = rs.length + 2 := by
  have ⟨hr0, hr⟩ := Limbs_cons.mp h
  obtain ⟨e, wl⟩ := addc_limb r0 t0 hr0 h0
  have hcy : boolToNat (decide ((r0 + t0) % B < r0)) ≤ 1 := boolToNat_le _
  have hm : (t1 + boolToNat (decide ((r0 + t0) % B < r0))) % B = t1 + boolToNat (decide ((r0 + t0) % B < r0)) :=
    Nat.mod_eq_of_lt (by omega)
  obtain ⟨av, _, al, an⟩ := add_1_val' r1 rs (t1 + boolToNat (decide ((r0 + t0) % B < r0))) hr (by omega)
  refine ⟨(add_1 (r1 :: rs) (t1 + boolToNat (decide ((r0 + t0) % B < r0)))).2, ?_, ?_, ?_⟩
  · simp only [addback, hm, val_cons, pow_succ] at *
    linear_combination e + B * av
  · simp only [addback, hm]; exact Limbs_cons.mpr ⟨wl, al⟩
  · simp only [addback, hm, List.length_cons, an]

/-! ### combining chunks -/

theorem eq_zero_of_mul_lt (P c M : Nat) (h1 : P * c ≤ M) (h2 : M < P) : c = 0 := by
  rcases Nat.eq_zero_or_pos c with h | h
  · exact h
  · exfalso
    have := Nat.mul_le_mul_left P h
    omega

/-- MP (any number of diagonals) fits two limbs more than its diagonals while bn ≤ B -/
theorem mpW_lt (rn : Nat) (a b : List Nat) (ha : Limbs a) (hb : Limbs b) (hB : b.length ≤ B) :
    mpW rn a b < B ^ (rn + 2) := by
  have h := mpW_le rn a ha b hb
  have hp : 0 < B ^ rn := Nat.pow_pos B_pos
  have : b.length * B ^ (rn + 1) ≤ B * B ^ (rn + 1) := Nat.mul_le_mul_right _ hB
  rcases Nat.eq_zero_or_pos b.length with h0 | h0
  · have : b = [] := List.eq_nil_of_length_eq_zero h0
    subst this; simp only [mpW]; exact Nat.pow_pos B_pos
  · have : 0 < b.length * B ^ rn := Nat.mul_pos h0 hp
    simp only [pow_succ] at *
    nlinarith

/-- the top limb of MP in rn + 2 limbs is below the number of rows -/
theorem mpW_top (rn : Nat) (a b : List Nat) (ha : Limbs a) (hb : Limbs b) (hbn : 1 ≤ b.length) (lo t : Nat)
    (h : lo + B ^ (rn + 1) * t = mpW rn a b) : t < b.length := by
  have h' := mpW_le rn a ha b hb
  have hp : 0 < b.length * B ^ rn := Nat.mul_pos hbn (Nat.pow_pos B_pos)
  have : B ^ (rn + 1) * t < B ^ (rn + 1) * b.length := by
    rw [Nat.mul_comm _ b.length]; omega
  exact Nat.lt_of_mul_lt_mul_left this

/-- one step of a wide region: the next chunk's MP with the two saved limbs added back continues the result exactly -/
theorem hcomb (a b pre cur new : List Nat) (k r : Nat) (ha : Limbs a) (hb : Limbs b) (hbn : 1 ≤ b.length)
    (hB : b.length < B) (hcur : Limbs cur) (hcl : cur.length = k + 2)
    (hv : val (pre ++ cur) = mpW (pre.length + k) a b)
    (hnew : val new = mpW r (a.drop (pre.length + k)) b) (hnl : Limbs new) (hnn : new.length = r + 2) :
    val (pre ++ cur.take k ++ addback new (cur.getD k 0) (cur.getD (k + 1) 0)) = mpW (pre.length + k + r) a b ∧
    Limbs (addback new (cur.getD k 0) (cur.getD (k + 1) 0)) ∧
    (addback new (cur.getD k 0) (cur.getD (k + 1) 0)).length = r + 2 := by
  obtain ⟨e, h0, h1, h2⟩ := top2 k cur hcl hcur
  generalize cur.getD k 0 = t0 at *
  generalize cur.getD (k + 1) 0 = t1 at *
  rw [val_append, e] at hv
  have ht1 : t1 < b.length := by
    apply mpW_top (pre.length + k) a b ha hb hbn (val pre + B ^ pre.length * (val (cur.take k) + B ^ k * t0)) t1
    rw [← hv]; simp only [pow_add, pow_succ]; ring
  match new, hnn, hnl, hnew with
  | r0 :: r1 :: rs, hnn, hnl, hnew =>
    have hrs : rs.length = r := by simpa using hnn
    obtain ⟨c, av, al, an⟩ := addback_val r0 r1 rs t0 t1 hnl h0 (by omega)
    rw [hrs] at av an
    have hs := mpW_hsplit (pre.length + k) r a b
    have hlt := mpW_lt (pre.length + k + r) a b ha hb (by omega)
    have key : val pre + B ^ pre.length * val (cur.take k) +
        B ^ (pre.length + k) * (val (addback (r0 :: r1 :: rs) t0 t1) + B ^ (r + 2) * c) = mpW (pre.length + k + r) a b := by
      rw [hs, ← hv, ← hnew, av]; simp only [pow_add]; ring
    have hc : c = 0 := by
      apply eq_zero_of_mul_lt (B ^ (pre.length + k + r + 2)) c _ _ hlt
      rw [← key]
      have : B ^ (pre.length + k + r + 2) * c = B ^ (pre.length + k) * (B ^ (r + 2) * c) := by
        simp only [pow_add]; ring
      rw [this, Nat.mul_add]
      omega
    subst hc
    refine ⟨?_, al, an⟩
    rw [← key]
    simp only [val_append, List.length_append, h2, pow_add]
    ring


/-- one step of a tall region: mpn_add_n of the next chunk's MP (lower rows, operand advanced) is exact, carry 0 -/
theorem vcomb (a lo hi rp temp : List Nat) (rn : Nat) (ha : Limbs a) (hlo : Limbs lo) (hhi : Limbs hi)
    (hB : lo.length + hi.length ≤ B)
    (hrv : val rp = mpW rn a hi) (hrl : Limbs rp) (hrn : rp.length = rn + 2)
    (htv : val temp = mpW rn (a.drop hi.length) lo) (htl : Limbs temp) (htn : temp.length = rn + 2) :
    val (add_n rp temp).1 = mpW rn a (lo ++ hi) ∧ Limbs (add_n rp temp).1 ∧ (add_n rp temp).1.length = rn + 2 := by
  obtain ⟨av, _, al, an⟩ := addNC_val rp temp 0 hrl htl (by omega) (by omega)
  have hlt := mpW_lt rn a (lo ++ hi) ha (Limbs_append.mpr ⟨hlo, hhi⟩) (by simpa using hB)
  have hs := mpW_vsplit rn a hi lo
  rw [hrn] at av an
  have hc : (addNC rp temp 0).2 = 0 := by
    apply eq_zero_of_mul_lt (B ^ (rn + 2)) _ _ _ hlt
    rw [hs, ← hrv, ← htv]; omega
  rw [hc] at av
  refine ⟨?_, al, an⟩
  show val (addNC rp temp 0).1 = _
  rw [hs, ← hrv, ← htv]; omega

/-! ### the chunk loops -/

theorem win_append_drop (b : List Nat) (bn c : Nat) (h : c ≤ bn) : win b (bn - c) c ++ b.drop bn = b.drop (bn - c) := by
  have : b.drop bn = (b.drop (bn - c)).drop c := by rw [List.drop_drop]; congr 1; omega
  rw [this, win, List.take_append_drop]

/-- result {rp, rn+2} is MP of rn diagonals -/
def IsMP (r : List Nat) (rn : Nat) (a b : List Nat) : Prop := val r = mpW rn a b ∧ Limbs r ∧ r.length = rn + 2

/-- the tall loops: invariant rp = MP(a0, rows bn.. of b), ap + c = a0 + (|b| - bn) -/
theorem vloop_spec (f : List Nat → List Nat → List Nat) (c rn : Nat) (a0 b : List Nat) (ha0 : Limbs a0) (hb : Limbs b)
    (hB : b.length ≤ B) (hal : rn + b.length - 1 ≤ a0.length)
    (hf : ∀ a' bc, Limbs a' → Limbs bc → bc.length = c → rn + c - 1 ≤ a'.length → IsMP (f a' bc) rn a' bc) :
    ∀ (bn : Nat) (a rp : List Nat), bn ≤ b.length → a.drop c = a0.drop (b.length - bn) → IsMP rp rn a0 (b.drop bn) →
      (vloop f c a b bn rp).2.2 ≤ bn ∧ ((vloop f c a b bn rp).2.2 < c ∨ c = 0) ∧
      (vloop f c a b bn rp).2.1.drop c = a0.drop (b.length - (vloop f c a b bn rp).2.2) ∧
      IsMP (vloop f c a b bn rp).1 rn a0 (b.drop (vloop f c a b bn rp).2.2) := by
  intro bn
  induction bn using Nat.strong_induction_on with
  | _ bn ih =>
    intro a rp hbn hap hrp
    rw [vloop]
    split
    · rename_i h
      obtain ⟨hc0, hcb⟩ := h
      dsimp only
      have hbcl : (win b (bn - c) c).length = c := win_length b _ _ (by omega)
      have ha' : Limbs (a.drop c) := by rw [hap]; exact Limbs_drop ha0 _
      have hfs := hf (a.drop c) (win b (bn - c) c) ha' (win_limbs hb _ _) hbcl
        (by rw [hap, List.length_drop]; omega)
      obtain ⟨tv, tl, tn⟩ := hfs
      obtain ⟨rv, rl, rn'⟩ := hrp
      have hdl : (b.drop bn).length = b.length - bn := List.length_drop
      have hcomb := vcomb a0 (win b (bn - c) c) (b.drop bn) rp (f (a.drop c) (win b (bn - c) c)) rn ha0
        (win_limbs hb _ _) (Limbs_drop hb _) (by rw [hbcl, hdl]; omega) rv rl rn'
        (by rw [tv, hdl, hap]) tl tn
      rw [win_append_drop b bn c hcb] at hcomb
      obtain ⟨i1, i2, i3, i4⟩ := ih (bn - c) (by omega) (a.drop c) _ (by omega)
        (by rw [hap, List.drop_drop]; congr 1; omega) hcomb
      exact ⟨by omega, i2, i3, i4⟩
    · rename_i h
      refine ⟨le_refl _, ?_, hap, hrp⟩
      by_cases hc : c = 0
      · exact Or.inr hc
      · left; simp only [not_and, not_le] at h; exact h (by omega)


/-- invariant of the wide loops, state r = (done, cur, ap, x): x - e diagonals remain beyond the current chunk, `tot` = diagonals
    before the current chunk + remaining ones (constant), ap = a0 + |done|, done ++ cur = MP of the first |done| + k diagonals -/
def HInv (k e : Nat) (a0 b : List Nat) (tot : Nat) (r : List Nat × List Nat × List Nat × Nat) : Prop :=
  e ≤ r.2.2.2 ∧ r.2.2.1 = a0.drop r.1.length ∧ val (r.1 ++ r.2.1) = mpW (r.1.length + k) a0 b ∧
  Limbs r.1 ∧ Limbs r.2.1 ∧ r.2.1.length = k + 2 ∧ r.1.length + (r.2.2.2 - e) = tot

theorem hloop_spec (f : List Nat → List Nat) (k e : Nat) (a0 b : List Nat) (tot : Nat) (ha0 : Limbs a0) (hb : Limbs b)
    (hbn : 1 ≤ b.length) (hB : b.length < B) (hk : 0 < k) (hal : tot + k + b.length - 1 ≤ a0.length)
    (hf : ∀ a', Limbs a' → k + b.length - 1 ≤ a'.length → IsMP (f a') k a' b) :
    ∀ (x : Nat) (a done cur : List Nat), HInv k e a0 b tot (done, cur, a, x) →
      HInv k e a0 b tot (hloop f k (k + e) a x done cur) ∧ (hloop f k (k + e) a x done cur).2.2.2 < k + e := by
  intro x
  induction x using Nat.strong_induction_on with
  | _ x ih =>
    intro a done cur hinv
    rw [hloop]
    split
    · rename_i h
      obtain ⟨_, hx0, hwx⟩ := h
      dsimp only
      obtain ⟨i1, i2, i3, i4, i5, i6, i7⟩ := hinv
      simp only at i1 i2 i3 i4 i5 i6 i7
      have ha' : a.drop k = a0.drop (done.length + k) := by rw [i2, List.drop_drop]
      have hfs := hf (a.drop k) (by rw [ha']; exact Limbs_drop ha0 _) (by rw [ha', List.length_drop]; omega)
      obtain ⟨nv, nl, nn⟩ := hfs
      obtain ⟨c1, c2, c3⟩ := hcomb a0 b done cur (f (a.drop k)) k k ha0 hb hbn hB i5 i6 i3 (by rw [nv, ha']) nl nn
      have h2 := (top2 k cur i6 i5).2.2.2
      apply ih (x - k) (by omega)
      refine ⟨?_, ?_, ?_, ?_, c2, c3, ?_⟩
      · simp only; omega
      · simp only [List.length_append, h2]; exact ha'
      · simp only [List.length_append, h2]; rw [← c1, List.append_assoc]
      · exact Limbs_append.mpr ⟨i4, Limbs_take i5 _⟩
      · simp only [List.length_append, h2]; omega
    · rename_i h
      refine ⟨hinv, ?_⟩
      simp only [not_and, not_le] at h
      have := hinv.1
      simp only at this ⊢
      by_cases hx : 0 < x
      · exact h hk hx
      · omega

/-! ### regions of mulmid.c -/

theorem basecase_isMP (a b : List Nat) (un : Nat) (ha : Limbs a) (hb : Limbs b)
    (hvn : 1 ≤ b.length) (hun : b.length ≤ un) (hal : un ≤ a.length) (hB : b.length ≤ B) :
    IsMP (mulmid_basecase a un b) (un - b.length + 1) a b := by
  cases b with
  | nil => simp at hvn
  | cons v0 vs =>
    simp only [List.length_cons] at *
    obtain ⟨h1, h2, h3⟩ := basecase_val a un v0 vs ha hb hun hal hB
    have e : un - (vs.length + 1) + 1 = un - vs.length := by omega
    rw [e]; exact ⟨h1, h2, by rw [h3]⟩

/-- a tall region of mulmid.c: first chunk (top c rows), the loop, the last chunk of fewer than c rows by `g` -/
theorem vregion (f : List Nat → List Nat → List Nat) (g : List Nat → Nat → List Nat → List Nat) (c rn : Nat) (a b : List Nat)
    (ha : Limbs a) (hb : Limbs b) (hB : b.length ≤ B) (hal : rn + b.length - 1 ≤ a.length) (hc : 0 < c) (hcb : c ≤ b.length)
    (hf : ∀ a' bc, Limbs a' → Limbs bc → bc.length = c → rn + c - 1 ≤ a'.length → IsMP (f a' bc) rn a' bc)
    (hg : ∀ a' lo, Limbs a' → Limbs lo → 0 < lo.length → lo.length < c → lo.length + c ≤ b.length →
      rn + lo.length - 1 ≤ a'.length → IsMP (g a' lo.length lo) rn a' lo) :
    IsMP (if (vloop f c a b (b.length - c) (f a (win b (b.length - c) c))).2.2 ≠ 0 then
        (add_n (vloop f c a b (b.length - c) (f a (win b (b.length - c) c))).1
          (g ((vloop f c a b (b.length - c) (f a (win b (b.length - c) c))).2.1.drop c)
             (vloop f c a b (b.length - c) (f a (win b (b.length - c) c))).2.2
             (win b 0 (vloop f c a b (b.length - c) (f a (win b (b.length - c) c))).2.2))).1
      else (vloop f c a b (b.length - c) (f a (win b (b.length - c) c))).1) rn a b := by
  have hwl : (win b (b.length - c) c).length = c := win_length b _ _ (by omega)
  have hwe : win b (b.length - c) c = b.drop (b.length - c) := by
    rw [win]; apply List.take_of_length_le; rw [List.length_drop]; omega
  have h0 := hf a (win b (b.length - c) c) ha (win_limbs hb _ _) hwl (by omega)
  rw [hwe] at h0
  have H := vloop_spec f c rn a b ha hb hB hal hf (b.length - c) a (f a (win b (b.length - c) c)) (by omega)
    (by congr 1; omega) (by rw [hwe]; exact h0)
  generalize vloop f c a b (b.length - c) (f a (win b (b.length - c) c)) = st at H
  obtain ⟨s1, s2, s3, s4⟩ := H
  split
  · rename_i hne
    have hlt : st.2.2 < c := by rcases s2 with h | h <;> omega
    have hwt : win b 0 st.2.2 = b.take st.2.2 := by simp [win]
    have htl : (b.take st.2.2).length = st.2.2 := by rw [List.length_take]; omega
    have hgs := hg (st.2.1.drop c) (b.take st.2.2) (by rw [s3]; exact Limbs_drop ha _) (Limbs_take hb _)
      (by omega) (by omega) (by omega) (by rw [s3, List.length_drop]; omega)
    rw [htl] at hgs
    obtain ⟨tv, tl, tn⟩ := hgs
    obtain ⟨rv, rl, rn'⟩ := s4
    have hdl : (b.drop st.2.2).length = b.length - st.2.2 := List.length_drop
    have := vcomb a (b.take st.2.2) (b.drop st.2.2) st.1 (g (st.2.1.drop c) st.2.2 (b.take st.2.2)) rn ha
      (Limbs_take hb _) (Limbs_drop hb _) (by rw [htl, hdl]; omega) rv rl rn' (by rw [tv, hdl, s3]) tl tn
    rw [List.take_append_drop] at this
    rw [hwt]; exact this
  · rename_i hne
    have : st.2.2 = 0 := by omega
    rw [this] at s4
    simpa using s4


/-- a wide region of mulmid.c with D diagonals: first chunk of k diagonals, the loop (loop variable x, x - e = diagonals
    beyond the current chunk), then either a last chunk of x - e < k diagonals by `g` with add-back, or nothing -/
theorem hregion (f : List Nat → List Nat) (g : List Nat → Nat → List Nat) (k e D : Nat) (a b : List Nat)
    (ha : Limbs a) (hb : Limbs b) (hbn : 1 ≤ b.length) (hB : b.length < B) (hk : 0 < k) (hD : k ≤ D)
    (hal : D + b.length - 1 ≤ a.length)
    (hf : ∀ a', Limbs a' → k + b.length - 1 ≤ a'.length → IsMP (f a') k a' b)
    (hg : ∀ a' x', Limbs a' → e < x' → x' < k + e → x' - e + k ≤ D → x' - e + b.length - 1 ≤ a'.length →
      IsMP (g a' x') (x' - e) a' b) :
    e ≤ (hloop f k (k + e) a (D - k + e) [] (f a)).2.2.2 ∧
    (e < (hloop f k (k + e) a (D - k + e) [] (f a)).2.2.2 →
      IsMP ((hloop f k (k + e) a (D - k + e) [] (f a)).1 ++ (hloop f k (k + e) a (D - k + e) [] (f a)).2.1.take k ++
        addback (g ((hloop f k (k + e) a (D - k + e) [] (f a)).2.2.1.drop k) (hloop f k (k + e) a (D - k + e) [] (f a)).2.2.2)
          ((hloop f k (k + e) a (D - k + e) [] (f a)).2.1.getD k 0)
          ((hloop f k (k + e) a (D - k + e) [] (f a)).2.1.getD (k + 1) 0)) D a b) ∧
    ((hloop f k (k + e) a (D - k + e) [] (f a)).2.2.2 = e →
      IsMP ((hloop f k (k + e) a (D - k + e) [] (f a)).1 ++ (hloop f k (k + e) a (D - k + e) [] (f a)).2.1) D a b) := by
  obtain ⟨fv, fl, fn⟩ := hf a ha (by omega)
  have H := hloop_spec f k e a b (D - k) ha hb hbn hB hk (by omega) hf (D - k + e) a [] (f a)
    ⟨by simp only; omega, by simp, by simpa using fv, Limbs_nil, fl, fn, by simp only [List.length_nil]; omega⟩
  generalize hloop f k (k + e) a (D - k + e) [] (f a) = st at H
  obtain ⟨⟨i1, i2, i3, i4, i5, i6, i7⟩, hlt⟩ := H
  have h2 := (top2 k st.2.1 i6 i5).2.2.2
  refine ⟨i1, ?_, ?_⟩
  · intro hx
    have ha' : st.2.2.1.drop k = a.drop (st.1.length + k) := by rw [i2, List.drop_drop]
    obtain ⟨nv, nl, nn⟩ := hg (st.2.2.1.drop k) st.2.2.2 (by rw [ha']; exact Limbs_drop ha _) hx hlt (by omega)
      (by rw [ha', List.length_drop]; omega)
    obtain ⟨c1, c2, c3⟩ := hcomb a b st.1 st.2.1 _ k (st.2.2.2 - e) ha hb hbn hB i5 i6 i3 (by rw [nv, ha']) nl nn
    have hDe : st.1.length + k + (st.2.2.2 - e) = D := by omega
    rw [hDe] at c1
    refine ⟨c1, Limbs_append.mpr ⟨Limbs_append.mpr ⟨i4, Limbs_take i5 _⟩, c2⟩, ?_⟩
    simp only [List.length_append, h2, c3]; omega
  · intro hx
    have hDe : st.1.length + k = D := by omega
    rw [hDe] at i3
    exact ⟨i3, Limbs_append.mpr ⟨i4, i5⟩, by simp only [List.length_append, i6]; omega⟩

/-! ### mpn_mulmid -/

theorem mulmid_isMP (T : Nat) (tm : List Nat → List Nat → Nat → List Nat) (htm : TmSpec T tm) :
    ∀ (fuel : Nat) (a : List Nat) (an : Nat) (b : List Nat), Limbs a → Limbs b → 1 ≤ b.length → b.length ≤ an →
      an ≤ a.length → b.length < B → an ≤ fuel → IsMP (mulmid T tm fuel a an b) (an - b.length + 1) a b
  | 0, a, an, b, _, _, h1, h2, _, _, h5 => by omega
  | fuel + 1, a, an, b, ha, hb, hbn, hban, hal, hB, hfuel => by
    have ih := mulmid_isMP T tm htm fuel
    have htm' : ∀ (a' bc : List Nat) (n : Nat), Limbs a' → Limbs bc → bc.length = n → 1 ≤ n → T ≤ n → n ≤ B → 2 * n - 1 ≤ a'.length →
        IsMP (tm a' bc n) n a' bc := htm
    rw [mulmid]
    dsimp only
    split
    · -- bn < T
      rename_i hbT
      split
      · exact basecase_isMP a b an ha hb hbn hban hal (by omega)
      · rename_i hCH
        obtain ⟨k, hk⟩ : ∃ k, k = 200 + T - b.length + 1 := ⟨_, rfl⟩
        rw [← hk]
        have hw : 200 + T = k + (b.length - 1) := by omega
        have hx : an - k = an - b.length + 1 - k + (b.length - 1) := by omega
        rw [hw, hx]
        obtain ⟨r1, r2, r3⟩ := hregion (fun a' => mulmid_basecase a' (k + (b.length - 1)) b)
          (fun a' x' => mulmid_basecase a' x' b) k (b.length - 1) (an - b.length + 1) a b ha hb hbn hB (by omega) (by omega)
          (by omega)
          (fun a' ha' hl => by
            have := basecase_isMP a' b (k + (b.length - 1)) ha' hb hbn (by omega) (by omega) (by omega)
            have e : k + (b.length - 1) - b.length + 1 = k := by omega
            rw [e] at this; exact this)
          (fun a' x' ha' h1 h2 h3 h4 => by
            have := basecase_isMP a' b x' ha' hb hbn (by omega) (by omega) (by omega)
            have e : x' - b.length + 1 = x' - (b.length - 1) := by omega
            rw [e] at this; exact this)
        split
        · rename_i hc
          exact r2 (by omega)
        · rename_i hc
          exact r3 (by omega)
    · rename_i hbT
      split
      · rename_i hrT
        split
        · exact basecase_isMP a b an ha hb hbn hban hal (by omega)
        · rename_i hCH
          have e1 : an - (b.length - (200 + T)) = (an - b.length + 1) + (200 + T) - 1 := by omega
          rw [e1]
          exact vregion (fun a' bc => mulmid_basecase a' ((an - b.length + 1) + (200 + T) - 1) bc)
            (fun a' n lo => mulmid_basecase a' ((an - b.length + 1) + n - 1) lo) (200 + T) (an - b.length + 1) a b ha hb
            (by omega) (by omega) (by omega) (by omega)
            (fun a' bc ha' hbc hl h => by
              have := basecase_isMP a' bc ((an - b.length + 1) + (200 + T) - 1) ha' hbc (by omega) (by omega) (by omega) (by omega)
              have e : an - b.length + 1 + (200 + T) - 1 - bc.length + 1 = an - b.length + 1 := by omega
              rw [e] at this; exact this)
            (fun a' lo ha' hlo h1 h2 h3 h4 => by
              have := basecase_isMP a' lo ((an - b.length + 1) + lo.length - 1) ha' hlo (by omega) (by omega) (by omega) (by omega)
              have e : an - b.length + 1 + lo.length - 1 - lo.length + 1 = an - b.length + 1 := by omega
              rw [e] at this; exact this)
      · rename_i hrT
        split
        · rename_i hgt
          exact vregion (fun a' bc => tm a' bc (an - b.length + 1))
            (fun a' n lo => mulmid T tm fuel a' ((an - b.length + 1) + n - 1) lo) (an - b.length + 1) (an - b.length + 1) a b ha hb
            (by omega) (by omega) (by omega) (by omega)
            (fun a' bc ha' hbc hl h => htm' a' bc _ ha' hbc hl (by omega) (by omega) (by omega) (by omega))
            (fun a' lo ha' hlo h1 h2 h3 h4 => by
              have := ih a' ((an - b.length + 1) + lo.length - 1) lo ha' hlo (by omega) (by omega) (by omega) (by omega) (by omega)
              have e : an - b.length + 1 + lo.length - 1 - lo.length + 1 = an - b.length + 1 := by omega
              rw [e] at this; exact this)
        · rename_i hle
          have hx : an - b.length + 1 - b.length = an - b.length + 1 - b.length + 0 := by omega
          obtain ⟨r1, r2, r3⟩ := hregion (fun a' => tm a' b b.length)
            (fun a' x' => mulmid T tm fuel a' (x' + b.length - 1) b) b.length 0 (an - b.length + 1) a b ha hb hbn hB (by omega)
            (by omega) (by omega)
            (fun a' ha' hl => htm' a' b _ ha' hb rfl hbn (by omega) (by omega) (by omega))
            (fun a' x' ha' h1 h2 h3 h4 => by
              have := ih a' (x' + b.length - 1) b ha' hb hbn (by omega) (by omega) hB (by omega)
              have e : x' + b.length - 1 - b.length + 1 = x' - 0 := by omega
              rw [e] at this; exact this)
          simp only [Nat.add_zero] at r1 r2 r3
          split
          · rename_i hc
            exact r2 (by omega)
          · rename_i hc
            exact r3 (by omega)

/-! ### the specification stand-in for toom42_mulmid used by the driver meets `TmSpec` -/

theorem toLimbs_spec : ∀ (n v : Nat), val (toLimbs n v) = v % B ^ n ∧ Limbs (toLimbs n v) ∧ (toLimbs n v).length = n
  | 0, v => by simp [toLimbs, Limbs_nil, Nat.mod_one]
  | n + 1, v => by
    obtain ⟨h1, h2, h3⟩ := toLimbs_spec n (v / B)
    refine ⟨?_, Limbs_cons.mpr ⟨Nat.mod_lt _ B_pos, h2⟩, by simp [toLimbs, h3]⟩
    simp only [toLimbs, val_cons, h1, pow_succ]
    rw [Nat.mul_comm (B ^ n) B, Nat.mod_mul, Nat.add_comm]

theorem tmSpec_ok (T : Nat) : TmSpec T tmSpec := by
  intro a b n ha hb hbl hn _ hnB hal
  obtain ⟨h1, h2, h3⟩ := toLimbs_spec (n + 2) (mpW n a b)
  refine ⟨?_, h2, h3⟩
  rw [tmSpec, h1]
  apply Nat.mod_eq_of_lt
  apply mpW_lt n a b ha hb
  rw [hbl]; exact hnB
/-! ### the header formula (sum over index pairs) = the row form -/
theorem sum_range_succ' (f : Nat → Nat) (n : Nat) :
    ((List.range (n + 1)).map f).sum = f 0 + ((List.range n).map fun j => f (j + 1)).sum := by
  rw [List.range_succ_eq_map]; simp [List.map_map, Function.comp_def]

theorem sum_map_add' (l : List Nat) (f g : Nat → Nat) :
    (l.map fun x => f x + g x).sum = (l.map f).sum + (l.map g).sum := by
  induction l with
  | nil => simp
  | cons x xs ih => simp only [List.map_cons, List.sum_cons, ih]; omega

theorem sum_map_mul' (l : List Nat) (c : Nat) (f : Nat → Nat) :
    (l.map fun x => c * f x).sum = c * (l.map f).sum := by
  induction l with
  | nil => simp
  | cons x xs ih => simp only [List.map_cons, List.sum_cons, ih]; ring

theorem sum_map_congr' (l : List Nat) (f g : Nat → Nat) (h : ∀ x, f x = g x) : (l.map f).sum = (l.map g).sum := by
  have : f = g := funext h
  rw [this]

theorem sum_map_zero' (l : List Nat) : (l.map fun _ => 0).sum = 0 := by
  induction l with
  | nil => simp
  | cons x xs ih => simp [ih]

/-- the window {a + s, rn} as a sum over the indices s ≤ i < s + rn -/
theorem win_sum : ∀ (a : List Nat) (s rn : Nat),
    ((List.range a.length).map fun i => if s ≤ i ∧ i < s + rn then a.getD i 0 * B ^ (i - s) else 0).sum = val (win a s rn)
  | [], s, rn => by simp [win]
  | x :: xs, 0, 0 => by
    simp only [win, List.drop_zero, List.take_zero, val_nil]
    rw [sum_map_congr' _ _ (fun _ => 0) (fun i => by simp)]
    exact sum_map_zero' _
  | x :: xs, 0, r + 1 => by
    rw [List.length_cons, sum_range_succ']
    have ih := win_sum xs 0 r
    simp only [win, List.drop_zero] at ih ⊢
    simp only [List.take_succ_cons, val_cons, ← ih, ← sum_map_mul']
    simp only [Nat.zero_le, true_and, Nat.zero_add, Nat.sub_zero, List.getD_cons_zero, List.getD_cons_succ, pow_zero,
      Nat.mul_one, Nat.succ_lt_succ_iff, Nat.lt_succ_iff, if_true]
    congr 1
    apply sum_map_congr'
    intro i
    split
    · rw [pow_succ]; ring
    · simp
  | x :: xs, s + 1, rn => by
    rw [List.length_cons, sum_range_succ']
    have ih := win_sum xs s rn
    simp only [win, List.drop_succ_cons] at ih ⊢
    rw [← ih]
    simp only [Nat.le_zero, Nat.succ_ne_zero, false_and, if_false, Nat.zero_add, List.getD_cons_succ]
    apply sum_map_congr'
    intro i
    have e1 : (s + 1 ≤ i + 1 ∧ i + 1 < s + 1 + rn) ↔ (s ≤ i ∧ i < s + rn) := by omega
    have e2 : i + 1 - (s + 1) = i - s := by omega
    simp only [e1, e2]


theorem sum_map_congr_mem (l : List Nat) (f g : Nat → Nat) (h : ∀ x ∈ l, f x = g x) : (l.map f).sum = (l.map g).sum := by
  rw [List.map_congr_left h]

/-- the pair sum with the diagonal band n-1 ≤ i+j < n-1+rn (rn diagonals) -/
def pairsR (rn : Nat) (a b : List Nat) : Nat :=
  ((List.range a.length).map fun i => ((List.range b.length).map fun j =>
      if b.length - 1 ≤ i + j ∧ i + j < b.length - 1 + rn then a.getD i 0 * b.getD j 0 * B ^ (i + j - (b.length - 1)) else 0).sum).sum

theorem pairsR_eq (rn : Nat) (a : List Nat) : ∀ b : List Nat, pairsR rn a b = mpW rn a b
  | [] => by
    simp only [pairsR, List.length_nil, List.range_zero, List.map_nil, List.sum_nil, mpW]
    exact sum_map_zero' _
  | b0 :: bs => by
    have ih := pairsR_eq rn a bs
    rw [mpW, ← ih, ← win_sum a bs.length rn, ← sum_map_mul']
    simp only [pairsR, List.length_cons, Nat.add_sub_cancel]
    rw [← sum_map_add']
    apply sum_map_congr'
    intro i
    rw [sum_range_succ']
    congr 1
    · simp only [Nat.add_zero, List.getD_cons_zero]
      split
      · ring
      · simp
    · apply sum_map_congr_mem
      intro j hj
      have hj' : j < bs.length := List.mem_range.mp hj
      have e1 : (bs.length ≤ i + (j + 1) ∧ i + (j + 1) < bs.length + rn) ↔
          (bs.length - 1 ≤ i + j ∧ i + j < bs.length - 1 + rn) := by omega
      have e2 : i + (j + 1) - bs.length = i + j - (bs.length - 1) := by omega
      simp only [e1, e2, List.getD_cons_succ]

/-- the header formula of mulmid.c (sum over index pairs) is the row form used by the theorems -/
theorem mpPairs_eq (a b : List Nat) (hbn : 1 ≤ b.length) (hab : b.length ≤ a.length) :
    mpPairs a b = mpW (a.length - b.length + 1) a b := by
  rw [← pairsR_eq]
  simp only [mpPairs, pairsR]
  apply sum_map_congr'
  intro i
  apply sum_map_congr'
  intro j
  have e1 : (b.length - 1 ≤ i + j ∧ i + j ≤ a.length - 1) ↔
      (b.length - 1 ≤ i + j ∧ i + j < b.length - 1 + (a.length - b.length + 1)) := by omega
  simp only [e1]

end Mpir.MulMid
