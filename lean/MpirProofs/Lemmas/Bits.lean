/- Helper lemmas for the C10 bit-operation models (Mpir/Model/Bits.lean). -/
import MpirProofs.Lemmas.Base
import Mpir.Model.Bits
namespace Mpir.Bits
open Mpir

end Mpir.Bits
